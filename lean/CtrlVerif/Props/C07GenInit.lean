/-
C07, source-text tie, part 2: `InterconnectedSystem._parse_input_spec`, `_parse_output_spec` and the
slice of `InterconnectedSystem.__init__` that computes the offsets and the three maps
(control/nlsys.py), as regenerated from the tree under check (`Generated/ICInit.lean`), equal the
model (`IC.parseInputSpec`, `IC.parseOutputSpec`, `IC.buildMaps`): the NumPy arrays the code fills
are `toMat` of the model's entry lists.
-/
import CtrlVerif.Generated.ICInit
import CtrlVerif.Props.C07GenParse
import CtrlVerif.Props.C07

namespace CtrlVerif.C07Gen

open CtrlVerif.IC CtrlVerif.PyIC

variable {K : Type} [Field K] [DecidableEq K]

/-- `self.input_offset` / `self.output_offset` as `__init__` computes them (Python ints). -/
def offsList (sigs : List SysSig) (d : IC.Dict) : List Int :=
  (List.range sigs.length).map fun k => (offset sigs d k : Int)

omit [Field K] [DecidableEq K] in
theorem seqGet_offsList (sigs : List SysSig) (d : IC.Dict) (k : Nat) (hk : k < sigs.length) :
    seqGet (offsList sigs d) (k : Int) = .ok (offset sigs d k : Int) :=
  seqGet_natCast _ _ _ (by simp [offsList, hk])

/-- **`_parse_input_spec` as the source text defines it is the model's `parseInputSpec`.** -/
theorem generated_parseInputSpec_eq (sigs : List SysSig) (v : Val K) (s : Spec K)
    (h : tokenize v = some s) :
    Generated.icParseInputSpec sigs (offsList sigs .input) v
      = (parseInputSpec sigs s).map (·.map Int.ofNat) := by
  have hp := generated_parseSpec_eq sigs v s h Site.input
  simp only [Site.signame, Site.dictname, Site.dict] at hp
  simp only [Generated.icParseInputSpec, hp, parseInputSpec]
  cases hm : parseSpec sigs .input s with
  | error e => rfl
  | ok r =>
    obtain ⟨si, idxs, g⟩ := r
    obtain ⟨S, hS, -⟩ := C07.parseSpec_ok_inrange sigs .input s si idxs g hm
    have hsi : si < sigs.length := by
      by_contra hc
      simp [List.getElem?_eq_none (Nat.le_of_not_lt hc)] at hS
    by_cases hg : g = 1
    · simp [retSpec, hg, seqGet_offsList sigs .input si hsi, List.map_map, Function.comp_def]
    · simp [retSpec, hg]

/-- every exception of the model's `parseSpec` is one a `raise ValueError` is mapped to. -/
theorem parseSpec_error_kind (sigs : List SysSig) (d : IC.Dict) (s : Spec K) (e : Err)
    (h : parseSpec sigs d s = .error e) : isValueError e = true := by
  cases s with
  | malformed => simp [parseSpec] at h; subst h; rfl
  | mk sys sneg sig gneg gain =>
    simp only [parseSpec] at h
    split at h
    · injection h with h; subst h; rfl
    · split at h
      · next e' he' =>
        injection h with h; subst h
        cases sys with
        | idx i =>
          simp only [sysIndex] at he'
          split at he' <;> cases he'
          rfl
        | name nm =>
          simp only [sysIndex] at he'
          split at he' <;> cases he'
          rfl
      · split at h
        · injection h with h; subst h; rfl
        · split at h
          · next e' he' =>
            injection h with h; subst h
            cases sig <;> simp only [sigIndices] at he'
            · cases he'
            · cases he'
            · cases he'
            · split at he' <;> cases he'
              rfl
          · split at h
            · injection h with h; subst h; rfl
            · cases h

omit [Field K] [DecidableEq K] in
theorem total_eq_sum (sigs : List SysSig) (d : IC.Dict) :
    total sigs d = (sigs.map fun S => (S.labels d).length).sum := by
  simp [total, offset]

/-- **`_parse_output_spec` as the source text defines it is the model's `parseOutputSpec`**
(subsystem outputs first, then — `except ValueError` — subsystem inputs, which follow the outputs in
`ylist`). -/
theorem generated_parseOutputSpec_eq (sigs : List SysSig) (v : Val K) (s : Spec K)
    (h : tokenize v = some s) :
    Generated.icParseOutputSpec sigs (offsList sigs .input) (offsList sigs .output) v
      = (parseOutputSpec sigs s).map fun r => (r.1.map Int.ofNat, r.2) := by
  have hp := generated_parseSpec_eq sigs v s h Site.output
  have hq := generated_parseSpec_eq sigs v s h Site.inputOrOutput
  simp only [Site.signame, Site.dictname, Site.dict] at hp hq
  simp only [Generated.icParseOutputSpec, hp, hq, parseOutputSpec]
  cases hm : parseSpec sigs .output s with
  | ok r =>
    obtain ⟨si, idxs, g⟩ := r
    obtain ⟨S, hS, -⟩ := C07.parseSpec_ok_inrange sigs .output s si idxs g hm
    have hsi : si < sigs.length := by
      by_contra hc
      simp [List.getElem?_eq_none (Nat.le_of_not_lt hc)] at hS
    simp [retSpec, tryExcept, seqGet_offsList sigs .output si hsi, List.map_map, Function.comp_def]
  | error e =>
    have he := parseSpec_error_kind sigs .output s e hm
    cases hm' : parseSpec sigs .input s with
    | error e' => simp [tryExcept, he]
    | ok r =>
      obtain ⟨si, idxs, g⟩ := r
      obtain ⟨S, hS, -⟩ := C07.parseSpec_ok_inrange sigs .input s si idxs g hm'
      have hsi : si < sigs.length := by
        by_contra hc
        simp [List.getElem?_eq_none (Nat.le_of_not_lt hc)] at hS
      have ht : ((List.map (fun sys : SysSig => sys.nout) sigs).sum : Int) = (total sigs .output : Int) := by
        rw [total_eq_sum]; rfl
      simp [retSpec, tryExcept, he, seqGet_offsList sigs .input si hsi, List.map_map, Function.comp_def,
        ht, add_assoc]

/-! ### `InterconnectedSystem.__init__`: offsets and the three maps -/

/-- the model's arguments for Python values (lists of specifications). -/
def tokList (l : List (Val K)) : Option (List (Spec K)) := l.mapM tokenize

/-- a connection `[input-spec, output-spec, …]`. -/
def tokConn : Val K → Option (Spec K × List (Spec K))
  | .list (v :: vs) => (tokenize v).bind fun s => (tokList vs).map fun ss => (s, ss)
  | _ => none

/-- an element of `inplist` / `outlist`: a list of specifications or a single one. -/
def tokEntry : Val K → Option (List (Spec K))
  | .list l => tokList l
  | .int i => (tokenize (.int i : Val K)).map ([·])
  | .str st => (tokenize (.str st : Val K)).map ([·])
  | .tuple l => (tokenize (.tuple l : Val K)).map ([·])
  | _ => none

/-- the three maps of the model as the NumPy arrays the constructor stores. -/
def Maps.mats (m : Maps K) : PMat K × PMat K × PMat K :=
  (⟨m.nu, m.ny, toMat m.nu m.ny m.connect⟩, ⟨m.nu, m.nin, toMat m.nu m.nin m.inp⟩,
   ⟨m.nout, m.ny + m.nu, toMat m.nout (m.ny + m.nu) m.out⟩)

/-- the one check NumPy makes that `buildMaps` does not: an entry of `connect_map` whose column is
not a subsystem OUTPUT (a connection from a subsystem input) is an IndexError.  `interconnect()` only
passes connections whose sources were parsed as outputs (`preSource`), the operator forms pass none. -/
def checkConnect (m : Maps K) : Except Err (Maps K) :=
  if m.connect.all (fun e => decide (e.2.1 < m.ny)) then .ok m else .error .shape

omit [Field K] [DecidableEq K] in
/-- the state of the offset loop after the subsystems `L`. -/
theorem offsets_foldl (A : List SysSig) (L : List (Int × SysSig)) (io oo : List Int) (ni no : Int) :
    List.foldl (fun (st : List SysSig × List Int × List Int × Int × Int) (x : Int × SysSig) =>
        (st.1, st.2.1 ++ [st.2.2.2.1], st.2.2.1 ++ [st.2.2.2.2], st.2.2.2.1 + (x.2.nin : Int),
          st.2.2.2.2 + (x.2.nout : Int))) (A, io, oo, ni, no) L
      = (A, io ++ offsFrom ni (L.map fun x => x.2.nin), oo ++ offsFrom no (L.map fun x => x.2.nout),
          ni + ((L.map fun x => x.2.nin).sum : Nat), no + ((L.map fun x => x.2.nout).sum : Nat)) := by
  induction L generalizing io oo ni no with
  | nil => simp [offsFrom]
  | cons x L ih =>
    simp only [List.foldl_cons, ih, List.map_cons, offsFrom, List.sum_cons, Nat.cast_add,
      List.append_assoc, List.singleton_append]
    simp only [Prod.mk.injEq, true_and]
    exact ⟨by ring, by ring⟩

omit [Field K] [DecidableEq K] in
theorem offsFrom_zero (sigs : List SysSig) (d : IC.Dict) :
    offsFrom 0 (sigs.map fun S => (S.labels d).length) = offsList sigs d := by
  rw [offsFrom_eq]
  simp only [List.length_map, zero_add, offsList, offset, List.map_take]

omit [Field K] [DecidableEq K] in
theorem map_fst_zipIdx {α β : Type} (f : α → β) (l : List α) :
    l.zipIdx.map (fun x => f x.1) = l.map f := by
  have : l.zipIdx.map (fun x => f x.1) = (l.zipIdx.map Prod.fst).map f := by
    rw [List.map_map]; rfl
  rw [this, List.zipIdx_map_fst]

omit [Field K] [DecidableEq K] in
/-- the offset loop of `__init__` over all subsystems. -/
theorem offsets_enumerate (A sigs : List SysSig) :
    List.foldl (fun (st : List SysSig × List Int × List Int × Int × Int) (x : Int × SysSig) =>
        (st.1, st.2.1 ++ [st.2.2.2.1], st.2.2.1 ++ [st.2.2.2.2], st.2.2.2.1 + (x.2.nin : Int),
          st.2.2.2.2 + (x.2.nout : Int))) (A, [], [], 0, 0) (enumerate sigs)
      = (A, offsList sigs .input, offsList sigs .output, (total sigs .input : Int),
          (total sigs .output : Int)) := by
  have h1 : (enumerate sigs).map (fun x => x.2.nin) = sigs.map fun S => (S.labels .input).length := by
    simp only [enumerate, List.map_map, Function.comp_def, SysSig.nin, SysSig.labels]
    exact map_fst_zipIdx (fun S => S.inputs.length) sigs
  have h2 : (enumerate sigs).map (fun x => x.2.nout) = sigs.map fun S => (S.labels .output).length := by
    simp only [enumerate, List.map_map, Function.comp_def, SysSig.nout, SysSig.labels]
    exact map_fst_zipIdx (fun S => S.outputs.length) sigs
  rw [offsets_foldl, h1, h2, offsFrom_zero, offsFrom_zero, ← total_eq_sum, ← total_eq_sum]
  simp

omit [DecidableEq K] in
theorem zerosI_cast (a b : Nat) : (PMat.zerosI (a : Int) (b : Int) : Except Err (PMat K)) = .ok ⟨a, b, 0⟩ := by
  have h1 : ¬ ((a : Int) < 0) := by omega
  have h2 : ¬ ((b : Int) < 0) := by omega
  simp [PMat.zerosI, h1, h2, PMat.zeros]

/-! #### the entries the model writes lie inside the arrays (rows of `connect_map` / `input_map`,
columns of `output_map`) -/

omit [Field K] [DecidableEq K] in
theorem offset_add_lt_total (sigs : List SysSig) (d : IC.Dict) (si i : Nat) (S : SysSig)
    (hS : sigs[si]? = some S) (hi : i < (S.labels d).length) : offset sigs d si + i < total sigs d := by
  have hsi : si < sigs.length := by
    by_contra hc
    simp [List.getElem?_eq_none (Nat.le_of_not_lt hc)] at hS
  have hSe : sigs[si] = S := by
    have := List.getElem?_eq_getElem hsi
    rw [this] at hS; exact Option.some.inj hS
  have h1 : total sigs d
      = ((sigs.take si).map fun S => (S.labels d).length).sum
        + ((sigs.drop si).map fun S => (S.labels d).length).sum := by
    rw [total_eq_sum, ← List.sum_append, ← List.map_append, List.take_append_drop]
  rw [h1, List.drop_eq_getElem_cons hsi, hSe]
  simp only [offset, List.map_cons, List.sum_cons]
  omega

theorem parseInputSpec_lt (sigs : List SysSig) (s : Spec K) (l : List Nat)
    (h : parseInputSpec sigs s = .ok l) : ∀ k ∈ l, k < total sigs .input := by
  simp only [parseInputSpec] at h
  cases hm : parseSpec sigs .input s with
  | error e => simp [hm] at h
  | ok r =>
    obtain ⟨si, idxs, g⟩ := r
    obtain ⟨S, hS, hl⟩ := C07.parseSpec_ok_inrange sigs .input s si idxs g hm
    simp only [hm] at h
    split at h
    · cases h
    · injection h with h; subst h
      intro k hk
      simp only [List.mem_map] at hk
      obtain ⟨i, hi, rfl⟩ := hk
      exact offset_add_lt_total sigs .input si i S hS (hl i hi)

theorem parseOutputSpec_lt (sigs : List SysSig) (s : Spec K) (l : List Nat) (g : K)
    (h : parseOutputSpec sigs s = .ok (l, g)) : ∀ k ∈ l, k < total sigs .output + total sigs .input := by
  simp only [parseOutputSpec] at h
  cases hm : parseSpec sigs .output s with
  | ok r =>
    obtain ⟨si, idxs, g'⟩ := r
    obtain ⟨S, hS, hl⟩ := C07.parseSpec_ok_inrange sigs .output s si idxs g' hm
    simp only [hm] at h
    injection h with h
    simp only [Prod.mk.injEq] at h
    obtain ⟨rfl, -⟩ := h
    intro k hk
    simp only [List.mem_map] at hk
    obtain ⟨i, hi, rfl⟩ := hk
    have := offset_add_lt_total sigs .output si i S hS (hl i hi)
    omega
  | error e =>
    simp only [hm] at h
    cases hm' : parseSpec sigs .input s with
    | error e' => simp [hm'] at h
    | ok r =>
      obtain ⟨si, idxs, g'⟩ := r
      obtain ⟨S, hS, hl⟩ := C07.parseSpec_ok_inrange sigs .input s si idxs g' hm'
      simp only [hm'] at h
      injection h with h
      simp only [Prod.mk.injEq] at h
      obtain ⟨rfl, -⟩ := h
      intro k hk
      simp only [List.mem_map] at hk
      obtain ⟨i, hi, rfl⟩ := hk
      have := offset_add_lt_total sigs .input si i S hS (hl i hi)
      omega

/-! #### tokenised lists -/

/-- a model function on tokens, applied to a Python value (an untokenisable value: no claim). -/
def viaTok {α β γ : Type} (tok : α → Option β) (f : β → Except Err γ) (a : α) : Except Err γ :=
  match tok a with
  | some b => f b
  | none => .error .badArg

theorem viaTok_some {α β γ : Type} (tok : α → Option β) (f : β → Except Err γ) (a : α) (b : β)
    (h : tok a = some b) : viaTok tok f a = f b := by
  simp [viaTok, h]

theorem mapM_tok {α β γ : Type} (tok : α → Option β) (f : β → Except Err γ) (l : List α) (l' : List β)
    (h : l.mapM tok = some l') :
    l.mapM (viaTok tok f) = l'.mapM f := by
  induction l generalizing l' with
  | nil => simp at h; subst h; rfl
  | cons a l ih =>
    simp only [List.mapM_cons, Option.bind_eq_bind, Option.bind_eq_some_iff, Option.pure_def,
      Option.some.injEq] at h
    obtain ⟨b, hb, bs, hbs, rfl⟩ := h
    simp only [List.mapM_cons, viaTok_some tok f a b hb, ih bs hbs]

theorem mapM_tok_zipIdx {α β γ : Type} (tok : α → Option β) (f : Nat → β → Except Err γ) (l : List α)
    (l' : List β) (h : l.mapM tok = some l') (k : Nat) :
    (l.zipIdx k).mapM (fun p => viaTok tok (f p.2) p.1)
      = (l'.zipIdx k).mapM fun p => f p.2 p.1 := by
  induction l generalizing l' k with
  | nil => simp at h; subst h; rfl
  | cons a l ih =>
    simp only [List.mapM_cons, Option.bind_eq_bind, Option.bind_eq_some_iff, Option.pure_def,
      Option.some.injEq] at h
    obtain ⟨b, hb, bs, hbs, rfl⟩ := h
    simp only [List.zipIdx_cons, List.mapM_cons, viaTok_some tok _ a b hb, ih bs hbs]

theorem mem_tok {α β : Type} (tok : α → Option β) (l : List α) (l' : List β) (h : l.mapM tok = some l')
    (a : α) (ha : a ∈ l) : ∃ b, tok a = some b := by
  induction l generalizing l' with
  | nil => cases ha
  | cons x l ih =>
    simp only [List.mapM_cons, Option.bind_eq_bind, Option.bind_eq_some_iff, Option.pure_def,
      Option.some.injEq] at h
    obtain ⟨b, hb, bs, hbs, rfl⟩ := h
    rcases List.mem_cons.mp ha with rfl | ha'
    · exact ⟨b, hb⟩
    · exact ih bs hbs ha'

/-- the entries one source of a connection contributes, for a Python value. -/
def connPartV (sigs : List SysSig) (iidx : List Nat) (o : Val K) : Except Err (List (Entry K)) :=
  viaTok tokenize (connPart sigs iidx) o

set_option maxHeartbeats 400000 in
/-- the loop over the sources of one connection (`for output_spec in connection[1:]`). -/
theorem adds_connPart (sigs : List SysSig) (iidx : List Nat) (o : Val K) (so : Spec K)
    (ho : tokenize o = some so)
    (comp : PMat K → Except Err (PMat K))
    (hbody : ∀ M, comp M = (do
      let r ← Generated.icParseOutputSpec sigs (offsList sigs .input) (offsList sigs .output) o
      if r.1.length = (iidx.map Int.ofNat).length then
        List.foldlM (fun M x => addAt M x.1 x.2 r.2) M ((iidx.map Int.ofNat).zip r.1)
      else Except.error Err.shape)) :
    Adds (total sigs .input) (total sigs .output) comp (connPartV sigs iidx o) := by
  intro X
  simp only [hbody, connPartV, viaTok_some _ _ o so ho, connPart, generated_parseOutputSpec_eq sigs o so ho]
  cases hp : parseOutputSpec sigs so with
  | error e => rfl
  | ok r =>
    obtain ⟨oidx, g⟩ := r
    simp only [map_ok, ok_bind, List.length_map]
    by_cases hl : oidx.length = iidx.length
    · simp only [hl, if_true, ne_eq, not_true_eq_false, if_false, zip_map_ofNat, List.foldlM_map]
      exact adds_coords _ _ (iidx.zip oidx) _ (fun p => p.1) (fun p => p.2) (fun _ => g)
        (fun M a _ => rfl) X
    · simp [hl, addsResult, Except.toOption]

/-- the entries of one connection, for a Python value. -/
def connEntriesV (sigs : List SysSig) (a : Val K) : Except Err (List (Entry K)) :=
  viaTok tokConn (connEntries sigs) a

set_option maxHeartbeats 400000 in
/-- the body of the loop over `connections`. -/
theorem adds_connEntries (sigs : List SysSig) (a : Val K) (c : Spec K × List (Spec K))
    (ha : tokConn a = some c) (comp : PMat K → Except Err (PMat K))
    (hbody : ∀ M, comp M = (do
      let t7 ← getItem a 0
      let ii ← Generated.icParseInputSpec sigs (offsList sigs .input) t7
      let t9 ← dropFrom a 1
      let t10 ← iter t9
      List.foldlM (fun M o => do
        let r ← Generated.icParseOutputSpec sigs (offsList sigs .input) (offsList sigs .output) o
        if r.1.length = ii.length then List.foldlM (fun M x => addAt M x.1 x.2 r.2) M (ii.zip r.1)
        else Except.error Err.shape) M t10)) :
    Adds (total sigs .input) (total sigs .output) comp (connEntriesV sigs a) := by
  intro X
  cases a with
  | list l =>
    cases l with
    | nil => simp [tokConn] at ha
    | cons v vs =>
      simp only [tokConn, Option.bind_eq_some_iff, Option.map_eq_some_iff] at ha
      obtain ⟨s1, hs1, ss, hss, rfl⟩ := ha
      have hc : tokConn (.list (v :: vs) : Val K) = some (s1, ss) := by simp [tokConn, hs1, hss]
      simp only [hbody, connEntriesV, viaTok_some _ _ _ _ hc, connEntries,
        getItem_list, seqGet_zero, ok_bind, dropFrom_list, List.drop_one, List.tail_cons, iter_list,
        generated_parseInputSpec_eq sigs v s1 hs1]
      cases hp : parseInputSpec sigs s1 with
      | error e => rfl
      | ok iidx =>
        simp only [map_ok, ok_bind]
        rw [foldlM_toOption _ _ _ (connPartV sigs iidx) vs
          (fun o ho => by
            obtain ⟨so, hso⟩ := mem_tok tokenize vs ss hss o ho
            exact adds_connPart sigs iidx o so hso _ (fun M => rfl))]
        have := mapM_tok tokenize (connPart sigs iidx) vs ss hss
        have h2 : connPartV (K := K) sigs iidx = viaTok tokenize (connPart sigs iidx) := rfl
        rw [h2, this]
  | _ => simp [tokConn] at ha

set_option maxHeartbeats 400000 in
/-- one specification of an `inplist` entry at position `k`. -/
theorem adds_inpPart (sigs : List SysSig) (nin k : Nat) (spec : Val K) (s : Spec K)
    (hs : tokenize spec = some s) (comp : PMat K → Except Err (PMat K))
    (hcomp : ∀ M, comp M = (do
      let ul ← Generated.icParseInputSpec sigs (offsList sigs .input) spec
      List.foldlM (fun M (x : Int × Int) => addAt M x.2 ((k : Int) + x.1) 1) M (enumerate ul))) :
    Adds (total sigs .input) nin comp (viaTok tokenize (inpPart sigs k) spec) := by
  intro X
  simp only [hcomp, viaTok_some _ _ spec s hs, inpPart, generated_parseInputSpec_eq sigs spec s hs]
  cases hp : parseInputSpec sigs s with
  | error e => rfl
  | ok us =>
    simp only [map_ok, ok_bind, enumerate_map_ofNat, List.foldlM_map]
    exact adds_coords _ _ us.zipIdx _ (fun p => p.1) (fun p => k + p.2) (fun _ => 1)
      (fun M a _ => by simp only [Nat.cast_add]) X

set_option maxHeartbeats 400000 in
/-- the body of the loop over `inplist` at position `k`. -/
theorem adds_inpEntries (sigs : List SysSig) (nin k : Nat) (e : Val K) (entry : List (Spec K))
    (he : tokEntry e = some entry) (comp : PMat K → Except Err (PMat K))
    (hcomp : ∀ M, comp M = (do
      let inpspec ← (if isinstance e [.int, .str, .tuple] = true then Except.ok (Val.list [e])
        else Except.ok e : Except Err (Val K))
      if isinstance inpspec [.list] = false then Except.error Err.badArg
      else do
        let t13 ← iter inpspec
        List.foldlM (fun M spec => do
          let ul ← Generated.icParseInputSpec sigs (offsList sigs .input) spec
          List.foldlM (fun M (x : Int × Int) => addAt M x.2 ((k : Int) + x.1) 1) M (enumerate ul)) M t13)) :
    Adds (total sigs .input) nin comp (viaTok tokEntry (inpEntries sigs k) e) := by
  have hl : ∀ (l : List (Val K)) (X : Matrix (Fin (total sigs .input)) (Fin nin) K),
      tokList l = some entry →
      (List.foldlM (fun M spec => do
          let ul ← Generated.icParseInputSpec sigs (offsList sigs .input) spec
          List.foldlM (fun M (x : Int × Int) => addAt M x.2 ((k : Int) + x.1) 1) M (enumerate ul))
        ⟨total sigs .input, nin, X⟩ l).toOption
        = addsResult (total sigs .input) nin X (inpEntries sigs k entry) := by
    intro l X hl
    rw [foldlM_toOption _ _ _ (viaTok tokenize (inpPart sigs k)) l
      (fun spec hspec => by
        obtain ⟨s, hs⟩ := mem_tok tokenize l entry hl spec hspec
        exact adds_inpPart sigs nin k spec s hs _ (fun M => rfl))]
    rw [mapM_tok tokenize (inpPart sigs k) l entry hl]
    rfl
  intro X
  rw [hcomp, viaTok_some _ _ e entry he]
  cases e with
  | list l => simpa [isinstance_cons, isinstance1] using hl l X he
  | int i =>
    simp only [tokEntry, Option.map_eq_some_iff] at he
    obtain ⟨s, hs, rfl⟩ := he
    simpa [isinstance_cons, isinstance1] using hl [.int i] X (by simp [tokList, hs])
  | str st =>
    simp only [tokEntry, Option.map_eq_some_iff] at he
    obtain ⟨s, hs, rfl⟩ := he
    simpa [isinstance_cons, isinstance1] using hl [.str st] X (by simp [tokList, hs])
  | tuple l =>
    simp only [tokEntry, Option.map_eq_some_iff] at he
    obtain ⟨s, hs, rfl⟩ := he
    simpa [isinstance_cons, isinstance1] using hl [.tuple l] X (by simp [tokList, hs])
  | none => simp [tokEntry] at he
  | num x => simp [tokEntry] at he
  | other => simp [tokEntry] at he

set_option maxHeartbeats 400000 in
/-- one specification of an `outlist` entry at position `k`. -/
theorem adds_outPart (sigs : List SysSig) (nout k : Nat) (spec : Val K) (s : Spec K)
    (hs : tokenize spec = some s) (comp : PMat K → Except Err (PMat K))
    (hcomp : ∀ M, comp M = (do
      let r ← Generated.icParseOutputSpec sigs (offsList sigs .input) (offsList sigs .output) spec
      List.foldlM (fun M (x : Int × Int) => addAt M ((k : Int) + x.1) x.2 r.2) M (enumerate r.1))) :
    Adds nout (total sigs .output + total sigs .input) comp (viaTok tokenize (outPart sigs k) spec) := by
  intro X
  simp only [hcomp, viaTok_some _ _ spec s hs, outPart, generated_parseOutputSpec_eq sigs spec s hs]
  cases hp : parseOutputSpec sigs s with
  | error e => rfl
  | ok r =>
    obtain ⟨ys, g⟩ := r
    simp only [map_ok, ok_bind, enumerate_map_ofNat, List.foldlM_map]
    exact adds_coords _ _ ys.zipIdx _ (fun p => k + p.2) (fun p => p.1) (fun _ => g)
      (fun M a _ => by simp only [Nat.cast_add]) X

set_option maxHeartbeats 400000 in
/-- the body of the loop over `outlist` at position `k`. -/
theorem adds_outEntries (sigs : List SysSig) (nout k : Nat) (e : Val K) (entry : List (Spec K))
    (he : tokEntry e = some entry) (comp : PMat K → Except Err (PMat K))
    (hcomp : ∀ M, comp M = (do
      let outspec ← (if isinstance e [.int, .str, .tuple] = true then Except.ok (Val.list [e])
        else Except.ok e : Except Err (Val K))
      if isinstance outspec [.list] = false then Except.error Err.badArg
      else do
        let t17 ← iter outspec
        List.foldlM (fun M spec => do
          let r ← Generated.icParseOutputSpec sigs (offsList sigs .input) (offsList sigs .output) spec
          List.foldlM (fun M (x : Int × Int) => addAt M ((k : Int) + x.1) x.2 r.2) M (enumerate r.1)) M t17)) :
    Adds nout (total sigs .output + total sigs .input) comp (viaTok tokEntry (outEntries sigs k) e) := by
  have hl : ∀ (l : List (Val K)) (X : Matrix (Fin nout) (Fin (total sigs .output + total sigs .input)) K),
      tokList l = some entry →
      (List.foldlM (fun M spec => do
          let r ← Generated.icParseOutputSpec sigs (offsList sigs .input) (offsList sigs .output) spec
          List.foldlM (fun M (x : Int × Int) => addAt M ((k : Int) + x.1) x.2 r.2) M (enumerate r.1))
        ⟨nout, total sigs .output + total sigs .input, X⟩ l).toOption
        = addsResult nout (total sigs .output + total sigs .input) X (outEntries sigs k entry) := by
    intro l X hl
    rw [foldlM_toOption _ _ _ (viaTok tokenize (outPart sigs k)) l
      (fun spec hspec => by
        obtain ⟨s, hs⟩ := mem_tok tokenize l entry hl spec hspec
        exact adds_outPart sigs nout k spec s hs _ (fun M => rfl))]
    rw [mapM_tok tokenize (outPart sigs k) l entry hl]
    rfl
  intro X
  rw [hcomp, viaTok_some _ _ e entry he]
  cases e with
  | list l => simpa [isinstance_cons, isinstance1] using hl l X he
  | int i =>
    simp only [tokEntry, Option.map_eq_some_iff] at he
    obtain ⟨s, hs, rfl⟩ := he
    simpa [isinstance_cons, isinstance1] using hl [.int i] X (by simp [tokList, hs])
  | str st =>
    simp only [tokEntry, Option.map_eq_some_iff] at he
    obtain ⟨s, hs, rfl⟩ := he
    simpa [isinstance_cons, isinstance1] using hl [.str st] X (by simp [tokList, hs])
  | tuple l =>
    simp only [tokEntry, Option.map_eq_some_iff] at he
    obtain ⟨s, hs, rfl⟩ := he
    simpa [isinstance_cons, isinstance1] using hl [.tuple l] X (by simp [tokList, hs])
  | none => simp [tokEntry] at he
  | num x => simp [tokEntry] at he
  | other => simp [tokEntry] at he

theorem mapM_ok_mem {α β : Type} (f : α → Except Err β) (l : List α) (rs : List β)
    (h : l.mapM f = .ok rs) : ∀ r ∈ rs, ∃ a ∈ l, f a = .ok r := by
  induction l generalizing rs with
  | nil => simp [List.mapM_nil] at h; subst h; simp
  | cons a l ih =>
    rw [List.mapM_cons] at h
    cases ha : f a with
    | error e => simp [ha] at h
    | ok b =>
      cases hl : l.mapM f with
      | error e => simp [ha, hl] at h
      | ok bs =>
        simp only [ha, hl, ok_bind, pure_eq_ok, Except.ok.injEq] at h
        subst h
        intro r hr
        rcases List.mem_cons.mp hr with rfl | hr'
        · exact ⟨a, by simp, ha⟩
        · obtain ⟨a', ha', hf⟩ := ih bs hl r hr'
          exact ⟨a', by simp [ha'], hf⟩

theorem map_flatten_ok {α : Type} {x : Except Err (List (List α))} {es : List α}
    (h : x.map List.flatten = .ok es) : ∃ ess, x = .ok ess ∧ es = ess.flatten := by
  cases x with
  | error e => cases h
  | ok ess => exact ⟨ess, rfl, by injection h with h; exact h.symm⟩

theorem connEntries_rows (sigs : List SysSig) (c : Spec K × List (Spec K)) (es : List (Entry K))
    (h : connEntries sigs c = .ok es) : ∀ e ∈ es, e.1 < total sigs .input := by
  simp only [connEntries] at h
  cases hp : parseInputSpec sigs c.1 with
  | error e => simp [hp] at h
  | ok iidx =>
    simp only [hp] at h
    obtain ⟨ess, hess, rfl⟩ := map_flatten_ok h
    intro e he
    obtain ⟨part, hpart, hepart⟩ := List.mem_flatten.mp he
    obtain ⟨o, -, ho⟩ := mapM_ok_mem _ _ _ hess part hpart
    simp only [connPart] at ho
    cases hq : parseOutputSpec sigs o with
    | error e' => simp [hq] at ho
    | ok r =>
      obtain ⟨oidx, g⟩ := r
      simp only [hq] at ho
      split at ho
      · cases ho
      · injection ho with ho; subst ho
        simp only [List.mem_map] at hepart
        obtain ⟨ij, hij, rfl⟩ := hepart
        exact parseInputSpec_lt sigs c.1 iidx hp _ (List.of_mem_zip hij).1

theorem inpEntries_rows (sigs : List SysSig) (k : Nat) (entry : List (Spec K)) (es : List (Entry K))
    (h : inpEntries sigs k entry = .ok es) : ∀ e ∈ es, e.1 < total sigs .input := by
  simp only [inpEntries] at h
  obtain ⟨ess, hess, rfl⟩ := map_flatten_ok h
  intro e he
  obtain ⟨part, hpart, hepart⟩ := List.mem_flatten.mp he
  obtain ⟨s, -, hs⟩ := mapM_ok_mem _ _ _ hess part hpart
  simp only [inpPart] at hs
  cases hp : parseInputSpec sigs s with
  | error e' => simp [hp] at hs
  | ok us =>
    simp only [hp] at hs
    injection hs with hs; subst hs
    simp only [List.mem_map] at hepart
    obtain ⟨uj, huj, rfl⟩ := hepart
    exact parseInputSpec_lt sigs s us hp _ (List.fst_mem_of_mem_zipIdx huj)

theorem outEntries_cols (sigs : List SysSig) (k : Nat) (entry : List (Spec K)) (es : List (Entry K))
    (h : outEntries sigs k entry = .ok es) :
    ∀ e ∈ es, e.2.1 < total sigs .output + total sigs .input := by
  simp only [outEntries] at h
  obtain ⟨ess, hess, rfl⟩ := map_flatten_ok h
  intro e he
  obtain ⟨part, hpart, hepart⟩ := List.mem_flatten.mp he
  obtain ⟨s, -, hs⟩ := mapM_ok_mem _ _ _ hess part hpart
  simp only [outPart] at hs
  cases hp : parseOutputSpec sigs s with
  | error e' => simp [hp] at hs
  | ok r =>
    obtain ⟨ys, g⟩ := r
    simp only [hp] at hs
    injection hs with hs; subst hs
    simp only [List.mem_map] at hepart
    obtain ⟨yj, hyj, rfl⟩ := hepart
    exact parseOutputSpec_lt sigs s ys g hp _ (List.fst_mem_of_mem_zipIdx hyj)

/-- entries of a successful `mapM` inherit a property of the parts. -/
theorem flatten_forall {α β : Type} (f : α → Except Err (List β)) (l : List α) (rs : List (List β))
    (P : β → Prop) (h : l.mapM f = .ok rs) (hP : ∀ a ∈ l, ∀ r, f a = .ok r → ∀ b ∈ r, P b) :
    ∀ b ∈ rs.flatten, P b := by
  intro b hb
  obtain ⟨part, hpart, hbpart⟩ := List.mem_flatten.mp hb
  obtain ⟨a, ha, hfa⟩ := mapM_ok_mem f l rs h part hpart
  exact hP a ha part hfa b hbpart

omit [Field K] [DecidableEq K] in
theorem foldlM_enumerate {σ α : Type} (body : σ → Int × α → Except Err σ) (init : σ) (l : List α) :
    List.foldlM body init (enumerate l) = List.foldlM (fun M p => body M ((p.2 : Int), p.1)) init l.zipIdx := by
  simp only [enumerate, List.foldlM_map]

set_option maxHeartbeats 800000 in
theorem init_core (sigs : List SysSig) (cv iv ov : Val K) (n m : Nat) (cs es os : List (Val K))
    (conns : List (Spec K × List (Spec K))) (inl outl : List (List (Spec K)))
    (hc : iterOrEmpty cv = .ok cs)
    (hiw : (!isNone iv && !isinstance iv [.list]) = false) (hi : iterOrEmpty iv = .ok es)
    (how : (!isNone ov && !isinstance ov [.list]) = false) (ho : iterOrEmpty ov = .ok os)
    (tc : cs.mapM tokConn = some conns) (ti : es.mapM tokEntry = some inl)
    (tO : os.mapM tokEntry = some outl) :
    (Generated.icInit sigs cv iv ov (.int n) (.int m)).toOption
      = (((buildMaps sigs conns inl outl n m).bind checkConnect).toOption).map Maps.mats := by
  unfold Generated.icInit
  have hn : ¬ ((n : Int) < 0) := by omega
  have hm : ¬ ((m : Int) < 0) := by omega
  simp [hc, hiw, hi, how, ho, signalCount, foldlM_ok_eq_foldl, offsets_enumerate, hn, hm]
  simp only [← Nat.cast_add, zerosI_cast, ok_bind, toOption_bind]
  rw [foldlM_toOption _ _ _ (connEntriesV sigs) cs
    (fun a ha => by
      obtain ⟨c, hcn⟩ := mem_tok tokConn cs conns tc a ha
      exact adds_connEntries sigs a c hcn _ (fun M => rfl))]
  rw [foldlM_enumerate, foldlM_toOption _ _ _ (fun p => viaTok tokEntry (inpEntries sigs p.2) p.1) es.zipIdx
    (fun p hp => by
      obtain ⟨e, he⟩ := mem_tok tokEntry es inl ti p.1 (List.fst_mem_of_mem_zipIdx hp)
      exact adds_inpEntries sigs n p.2 p.1 e he _ (fun M => rfl))]
  rw [foldlM_enumerate, foldlM_toOption _ _ _ (fun p => viaTok tokEntry (outEntries sigs p.2) p.1) os.zipIdx
    (fun p hp => by
      obtain ⟨e, he⟩ := mem_tok tokEntry os outl tO p.1 (List.fst_mem_of_mem_zipIdx hp)
      exact adds_outEntries sigs m p.2 p.1 e he _ (fun M => rfl))]
  rw [mapM_tok_zipIdx tokEntry (fun k e => inpEntries sigs k e) es inl ti 0,
    mapM_tok_zipIdx tokEntry (fun k e => outEntries sigs k e) os outl tO 0]
  have h1 : connEntriesV (K := K) sigs = viaTok tokConn (connEntries sigs) := rfl
  rw [h1, mapM_tok tokConn (connEntries sigs) cs conns tc]
  clear h1
  simp only [buildMaps]
  cases hce : conns.mapM (connEntries sigs) with
  | error e => rfl
  | ok ce =>
    have rows_c : ∀ e ∈ ce.flatten, e.1 < total sigs .input :=
      flatten_forall _ _ _ _ hce fun c _ r hr => connEntries_rows sigs c r hr
    cases hie : inl.zipIdx.mapM (fun ek => inpEntries sigs ek.2 ek.1) with
    | error e =>
      simp only [map_ok, map_error, addsResult]
      split_ifs <;> simp [Except.bind, Except.toOption, bind]
    | ok ie =>
      have rows_i : ∀ e ∈ ie.flatten, e.1 < total sigs .input :=
        flatten_forall _ _ _ _ hie fun ek _ r hr => inpEntries_rows sigs ek.2 ek.1 r hr
      cases hoe : outl.zipIdx.mapM (fun ek => outEntries sigs ek.2 ek.1) with
      | error e =>
        simp only [map_ok, map_error, addsResult]
        split_ifs <;> simp [Except.bind, Except.toOption, bind]
      | ok oe =>
        have cols_o : ∀ e ∈ oe.flatten, e.2.1 < total sigs .output + total sigs .input :=
          flatten_forall _ _ _ _ hoe fun ek _ r hr => outEntries_cols sigs ek.2 ek.1 r hr
        simp only [map_ok, addsResult, zero_add]
        have r1 : entriesIn (total sigs .input) (total sigs .output) ce.flatten
            = ce.flatten.all (fun e => decide (e.2.1 < total sigs .output)) := by
          simp only [entriesIn]
          exact all_congr_mem _ _ _ fun e he => by simp [rows_c e he]
        have r2 : entriesIn (total sigs .input) n ie.flatten
            = !(ie.flatten.any fun e => decide (n ≤ e.2.1)) := by
          simp only [entriesIn, List.not_any_eq_all_not]
          exact all_congr_mem _ _ _ fun e he => by
            have := rows_i e he
            by_cases hlt : e.2.1 < n <;> simp [this, hlt] <;> omega
        have r3 : entriesIn m (total sigs .output + total sigs .input) oe.flatten
            = !(oe.flatten.any fun e => decide (m ≤ e.1)) := by
          simp only [entriesIn, List.not_any_eq_all_not]
          exact all_congr_mem _ _ _ fun e he => by
            have := cols_o e he
            by_cases hlt : e.1 < m <;> simp [this, hlt] <;> omega
        rw [r1, r2, r3]
        cases h2 : (ie.flatten.any fun e => decide (n ≤ e.2.1)) <;>
          cases h3 : (oe.flatten.any fun e => decide (m ≤ e.1)) <;>
          cases h1 : (ce.flatten.all fun e => decide (e.2.1 < total sigs .output)) <;>
          simp [Except.bind, Except.toOption, bind, checkConnect, h1, Maps.mats]

/-- the value of `inplist` / `outlist` as the loops see it: `None` (no entries) or a list. -/
def IOArg (v : Val K) (es : List (Val K)) : Prop := (v = .none ∧ es = []) ∨ v = .list es

omit [Field K] [DecidableEq K] in
theorem IOArg.facts {v : Val K} {es : List (Val K)} (h : IOArg v es) :
    (!isNone v && !isinstance v [.list]) = false ∧ iterOrEmpty v = .ok es := by
  rcases h with ⟨rfl, rfl⟩ | rfl <;> simp [iterOrEmpty]

/-- the number of inputs / outputs the constructor creates: the keyword `inputs` / `outputs` when
given (a count), else the length of the list, else 0. -/
def countOf (kw v : Val K) (len : Nat) : Option Nat :=
  match kw with
  | .none => some (if isNone v then 0 else len)
  | .int j => if 0 ≤ j then some j.toNat else none
  | _ => none

set_option maxHeartbeats 800000 in
theorem init_inputs_none (sigs : List SysSig) (cv iv ov outputs : Val K) (es : List (Val K))
    (h : IOArg iv es) :
    Generated.icInit sigs cv iv ov .none outputs
      = Generated.icInit sigs cv iv ov (.int ((if isNone iv then 0 else es.length : Nat) : Int)) outputs := by
  rcases h with ⟨rfl, rfl⟩ | rfl <;> simp [Generated.icInit, signalCount]

set_option maxHeartbeats 800000 in
theorem init_outputs_none (sigs : List SysSig) (cv iv ov inputs : Val K) (os : List (Val K))
    (h : IOArg ov os) :
    Generated.icInit sigs cv iv ov inputs .none
      = Generated.icInit sigs cv iv ov inputs (.int ((if isNone ov then 0 else os.length : Nat) : Int)) := by
  rcases h with ⟨rfl, rfl⟩ | rfl <;> simp [Generated.icInit, signalCount]

/-- **the slice of `InterconnectedSystem.__init__` that the source text defines computes the model's
three maps** (`buildMaps`, as NumPy arrays: `toMat` of the entry lists), for all subsystems, all
tokenisable connections / `inplist` / `outlist` and every `inputs` / `outputs` count: the same arrays
are returned, or both raise.  (`checkConnect`: the one IndexError NumPy adds, see its comment.) -/
theorem generated_init_eq (sigs : List SysSig) (cv iv ov inputs outputs : Val K)
    (cs es os : List (Val K)) (conns : List (Spec K × List (Spec K))) (inl outl : List (List (Spec K)))
    (n m : Nat) (hc : iterOrEmpty cv = .ok cs) (hi : IOArg iv es) (ho : IOArg ov os)
    (tc : cs.mapM tokConn = some conns) (ti : es.mapM tokEntry = some inl)
    (tO : os.mapM tokEntry = some outl)
    (hn : countOf inputs iv es.length = some n) (hm : countOf outputs ov os.length = some m) :
    (Generated.icInit sigs cv iv ov inputs outputs).toOption
      = (((buildMaps sigs conns inl outl n m).bind checkConnect).toOption).map Maps.mats := by
  have key : ∀ n m : Nat, (Generated.icInit sigs cv iv ov (.int n) (.int m)).toOption
      = (((buildMaps sigs conns inl outl n m).bind checkConnect).toOption).map Maps.mats :=
    fun n m => init_core sigs cv iv ov n m cs es os conns inl outl hc hi.facts.1 hi.facts.2
      ho.facts.1 ho.facts.2 tc ti tO
  have hin : ∃ n' : Nat, Generated.icInit sigs cv iv ov inputs outputs
      = Generated.icInit sigs cv iv ov (.int n') outputs ∧ n' = n := by
    cases inputs with
    | none =>
      refine ⟨_, init_inputs_none sigs cv iv ov outputs es hi, ?_⟩
      simpa [countOf] using hn
    | int j =>
      simp only [countOf] at hn
      split at hn
      · next hj =>
        injection hn with hn
        exact ⟨j.toNat, by rw [Int.toNat_of_nonneg hj], hn⟩
      · cases hn
    | _ => simp [countOf] at hn
  obtain ⟨n', h1, rfl⟩ := hin
  have hout : ∃ m' : Nat, Generated.icInit sigs cv iv ov (.int n') outputs
      = Generated.icInit sigs cv iv ov (.int n') (.int m') ∧ m' = m := by
    cases outputs with
    | none =>
      refine ⟨_, init_outputs_none sigs cv iv ov (.int n') os ho, ?_⟩
      simpa [countOf] using hm
    | int j =>
      simp only [countOf] at hm
      split at hm
      · next hj =>
        injection hm with hm
        exact ⟨j.toNat, by rw [Int.toNat_of_nonneg hj], hm⟩
      · cases hm
    | _ => simp [countOf] at hm
  obtain ⟨m', h2, rfl⟩ := hout
  rw [h1, h2]
  exact key n' m'

/-- both raise or both return. -/
theorem generated_init_error_iff (sigs : List SysSig) (cv iv ov inputs outputs : Val K)
    (cs es os : List (Val K)) (conns : List (Spec K × List (Spec K))) (inl outl : List (List (Spec K)))
    (n m : Nat) (hc : iterOrEmpty cv = .ok cs) (hi : IOArg iv es) (ho : IOArg ov os)
    (tc : cs.mapM tokConn = some conns) (ti : es.mapM tokEntry = some inl)
    (tO : os.mapM tokEntry = some outl)
    (hn : countOf inputs iv es.length = some n) (hm : countOf outputs ov os.length = some m) :
    (∃ e, Generated.icInit sigs cv iv ov inputs outputs = .error e) ↔
      ∃ e, (buildMaps sigs conns inl outl n m).bind checkConnect = .error e := by
  have h := generated_init_eq sigs cv iv ov inputs outputs cs es os conns inl outl n m hc hi ho tc ti tO hn hm
  cases hg : Generated.icInit sigs cv iv ov inputs outputs <;>
    cases hb : (buildMaps sigs conns inl outl n m).bind checkConnect <;>
    simp [hg, hb, Except.toOption] at h ⊢

/-- a single specification (not a list) as `inplist` is wrapped into a one-element list. -/
theorem init_wrap_inplist (sigs : List SysSig) (cv v ov inputs outputs : Val K)
    (hv : isNone v = false) (hl : isinstance v [.list] = false) :
    Generated.icInit sigs cv v ov inputs outputs = Generated.icInit sigs cv (.list [v]) ov inputs outputs := by
  simp [Generated.icInit, hv, hl]

theorem init_wrap_outlist (sigs : List SysSig) (cv iv v inputs outputs : Val K)
    (hv : isNone v = false) (hl : isinstance v [.list] = false) :
    Generated.icInit sigs cv iv v inputs outputs = Generated.icInit sigs cv iv (.list [v]) inputs outputs := by
  simp [Generated.icInit, hv, hl]

end CtrlVerif.C07Gen
