/-
Source-text tie of C09, part 9: the headline theorems of the property transported to the GENERATED
methods (`Generated/FRD*.lean`, rewritten from control/frdata.py on every run).

* `generated_*_sem` — the tree theorem (`C09.tree_sound`, `Props/C09Tree.lean`) read through the
  equalities `generated_*_eq`: whatever the method the source text defines returns has, at EVERY grid
  index `k`, the pointwise value `Expr.evalSem E k` of the one-node expression (frequency, shape and
  matrix), for every kind of operand.
* `generated_add_pointwise`, `generated_mul_pointwise`, `generated_neg_pointwise`,
  `generated_feedback_pointwise` — for two FRD objects of fitting shapes on one grid the generated
  method returns, and `(G op H).data[k] = G.data[k] op H.data[k]`; for `feedback` the loop equation
  `T_k (I - sign H_k G_k) = G_k` with the sign honoured (`C09.feedback_pointwise`).
* non-vacuity `example`s: every hypothesis of the equalities is met on a concrete 2-point grid.
-/
import CtrlVerif.Props.C09GenAdd
import CtrlVerif.Props.C09GenPow
import CtrlVerif.Props.C09GenFeedback
import CtrlVerif.Props.C09GenIndex
import CtrlVerif.Props.C09Tree
import Mathlib.Tactic.FinCases
import Mathlib.Tactic.NormNum

set_option linter.unusedSimpArgs false
set_option linter.unusedSectionVars false

namespace CtrlVerif.C09Gen

open Matrix CtrlVerif CtrlVerif.FRDTree

variable {K : Type} [Field K] [DecidableEq K]

/-- a generated method that equals the model's operator (with timebase `d`) returns exactly the
model's results. -/
theorem generated_ok_model {n : Nat} {gen : Except Err (PyFRD K)} {model : Except Err (DFRD K n)} {d : Dt}
    (h : gen = model.map fun R => PyFRD.of R d) {R : PyFRD K} (hR : gen = .ok R) :
    ∃ R', R = PyFRD.of R' d ∧ model = .ok R' := by
  rw [h] at hR
  cases model with
  | error e => exact absurd hR (by simp [Except.map])
  | ok R' =>
    simp only [Except.map] at hR
    injection hR with hR
    exact ⟨R', hR.symm, rfl⟩

/-- the pointwise meaning of a one-node expression whose model value is `R'`. -/
theorem sem_of_model (E : Env K) {n : Nat} (e : FRDTree.Expr K n) (R' : DFRD K n) (h : e.evalModel E = .ok R')
    (k : Fin n) : e.evalSem E k = some ⟨R'.sys.omega k, R'.p, R'.m, R'.sys.data k⟩ :=
  (C09.tree_sound E e R' h).2 k

/-- **`self + x`** through the generated `__add__`: at every grid index the result is the pointwise
sum (SISO promotion, scalar broadcast, LTI operand evaluated at that frequency), on the operand's
grid. -/
theorem generated_add_sem (E : Env K) {n : Nat} (G : DFRD K n) (dt : Dt) (x : PyOpd K) (d : Dt)
    (hn : 2 ≤ n) (hasc : ∀ L, x = .lti L → Monotone G.sys.omega) (hG : 0 < G.p ∧ 0 < G.m) (hxne : x.NonEmpty)
    (hd : common dt x.dt = .ok d) (R : PyFRD K) (hR : Generated.frdAdd E (PyFRD.of G dt) x = .ok R) :
    ∃ R' : DFRD K n, R = PyFRD.of R' d ∧ ∀ k, (FRDTree.Expr.binV .add (.leaf G) x.erase).evalSem E k
      = some ⟨R'.sys.omega k, R'.p, R'.m, R'.sys.data k⟩ := by
  obtain ⟨R', h1, h2⟩ := generated_ok_model (generated_add_eq E G dt x d hn hasc hG hxne hd) hR
  exact ⟨R', h1, sem_of_model E _ R' h2⟩

/-- **`self - x`** through the generated `__sub__`. -/
theorem generated_sub_sem (E : Env K) {n : Nat} (G : DFRD K n) (dt : Dt) (x : PyOpd K) (d : Dt)
    (hn : 2 ≤ n) (hasc : ∀ L, x = .lti L → Monotone G.sys.omega) (hG : 0 < G.p ∧ 0 < G.m) (hxne : x.NonEmpty)
    (hd : common dt x.dt = .ok d) (R : PyFRD K) (hR : Generated.frdSub E (PyFRD.of G dt) x = .ok R) :
    ∃ R' : DFRD K n, R = PyFRD.of R' d ∧ ∀ k, (FRDTree.Expr.binV .sub (.leaf G) x.erase).evalSem E k
      = some ⟨R'.sys.omega k, R'.p, R'.m, R'.sys.data k⟩ := by
  obtain ⟨R', h1, h2⟩ := generated_ok_model (generated_sub_eq E G dt x d hn hasc hG hxne hd) hR
  exact ⟨R', h1, sem_of_model E _ R' h2⟩

/-- **`self * x`** through the generated `__mul__`: the matrix product at every grid index (scalar
multiple for a SISO side). -/
theorem generated_mul_sem (E : Env K) {n : Nat} (G : DFRD K n) (dt : Dt) (x : PyOpd K) (d : Dt)
    (hg : GridOK G.sys.omega x) (hG : 0 < G.m) (hxne : x.NonEmpty) (hwf : G.WF) (hxwf : x.WF)
    (hd : common dt x.dt = .ok d) (R : PyFRD K) (hR : Generated.frdMul E (PyFRD.of G dt) x = .ok R) :
    ∃ R' : DFRD K n, R = PyFRD.of R' d ∧ ∀ k, (FRDTree.Expr.binV .mul (.leaf G) x.erase).evalSem E k
      = some ⟨R'.sys.omega k, R'.p, R'.m, R'.sys.data k⟩ := by
  obtain ⟨R', h1, h2⟩ := generated_ok_model (generated_mul_eq E G dt x d hg hG hxne hwf hxwf hd) hR
  exact ⟨R', h1, sem_of_model E _ R' h2⟩

/-- **`self / x`** through the generated `__truediv__`. -/
theorem generated_truediv_sem (E : Env K) {n : Nat} (G : DFRD K n) (dt : Dt) (x : PyOpd K) (d : Dt)
    (hg : GridOK G.sys.omega x) (hxne : x.NonEmpty) (hwf : G.WF) (hd : common dt x.dt = .ok d) (R : PyFRD K)
    (hR : Generated.frdTruediv E (PyFRD.of G dt) x = .ok R) :
    ∃ R' : DFRD K n, R = PyFRD.of R' d ∧ ∀ k, (FRDTree.Expr.binV .div (.leaf G) x.erase).evalSem E k
      = some ⟨R'.sys.omega k, R'.p, R'.m, R'.sys.data k⟩ := by
  obtain ⟨R', h1, h2⟩ := generated_ok_model (generated_truediv_eq E G dt x d hg hxne hwf hd) hR
  exact ⟨R', h1, sem_of_model E _ R' h2⟩

/-- **`self ** k`** through the generated `__pow__` (every integer `k`). -/
theorem generated_pow_sem (E : Env K) {n : Nat} (G : DFRD K n) (dt : Dt) (hG : 0 < G.p ∧ 0 < G.m) (hwf : G.WF)
    (j : Int) (R : PyFRD K) (hR : Generated.frdPow E (PyFRD.of G dt) j = .ok R) :
    ∃ R' : DFRD K n, R = PyFRD.of R' dt ∧ ∀ k, (FRDTree.Expr.pow (.leaf G) j).evalSem E k
      = some ⟨R'.sys.omega k, R'.p, R'.m, R'.sys.data k⟩ := by
  obtain ⟨R', h1, h2⟩ := generated_ok_model (generated_pow_eq E G dt hG hwf j) hR
  exact ⟨R', h1, sem_of_model E _ R' h2⟩

/-- **`self.feedback(x, sign)`** through the generated `feedback`: `A (I - sign B A)^-1` at every grid
index, for every `sign`. -/
theorem generated_feedback_sem (E : Env K) {n : Nat} (G : DFRD K n) (dt : Dt) (x : PyOpd K) (sign : K) (d : Dt)
    (hg : GridOK G.sys.omega x) (hwf : G.WF) (hd : common dt x.dt = .ok d) (R : PyFRD K)
    (hR : Generated.frdFeedback E (PyFRD.of G dt) x sign = .ok R) :
    ∃ R' : DFRD K n, R = PyFRD.of R' d ∧ ∀ k, (FRDTree.Expr.fbV (.leaf G) x.erase sign).evalSem E k
      = some ⟨R'.sys.omega k, R'.p, R'.m, R'.sys.data k⟩ := by
  obtain ⟨R', h1, h2⟩ := generated_ok_model (generated_feedback_eq E G dt x sign d hg hwf hd) hR
  exact ⟨R', h1, sem_of_model E _ R' h2⟩

/-- **`self[rows, cols]`** through the generated `__getitem__`: the sub-matrix at every grid index. -/
theorem generated_getitem_sem (E : Env K) {n : Nat} (G : DFRD K n) (dt : Dt) (rows cols : List Nat) (hn : 0 < n)
    (R : PyFRD K) (hR : Generated.frdGetitemData (PyFRD.of G dt) (rows, cols) = .ok R) :
    ∃ R' : DFRD K n, R = PyFRD.of R' dt ∧ ∀ k, (FRDTree.Expr.sel (.leaf G) rows cols).evalSem E k
      = some ⟨R'.sys.omega k, R'.p, R'.m, R'.sys.data k⟩ := by
  obtain ⟨R', h1, h2⟩ := generated_ok_model (generated_getitem_eq G dt rows cols hn) hR
  exact ⟨R', h1, sem_of_model E _ R' h2⟩

/-! ### two FRD objects on one grid: the pointwise laws in plain matrix algebra -/

/-- `-G` through the generated `__neg__`: `(-G).data[k] = -G.data[k]`, same grid. -/
theorem generated_neg_pointwise {n p m : Nat} (G : FRD n (Fin p) (Fin m) K) (sm : Bool) (dt : Dt) :
    ∃ T : FRD n (Fin p) (Fin m) K, Generated.frdNeg (PyFRD.of ⟨p, m, G, sm⟩ dt) = .ok (PyFRD.of ⟨p, m, T, false⟩ dt)
      ∧ ∀ k, T.data k = -G.data k ∧ T.omega k = G.omega k :=
  ⟨G.neg, generated_neg_eq _ dt, fun k => C09.neg_pointwise G k⟩

/-- `G + H` through the generated `__add__` for two FRD objects of the same shape on one grid:
`(G + H).data[k] = G.data[k] + H.data[k]`, on the grid of `H`. -/
theorem generated_add_pointwise (E : Env K) {n p m : Nat} (G H : FRD n (Fin p) (Fin m) K) (sm sm' : Bool)
    (dt dt' d : Dt) (hgm : FRD.gridMatch G.omega H.omega = true) (hn : 2 ≤ n) (hp : 0 < p) (hm : 0 < m)
    (hd : common dt dt' = .ok d) :
    ∃ T : FRD n (Fin p) (Fin m) K,
      Generated.frdAdd E (PyFRD.of ⟨p, m, G, sm⟩ dt) (.frd (PyFRD.of ⟨p, m, H, sm'⟩ dt'))
        = .ok (PyFRD.of ⟨p, m, T, false⟩ d)
      ∧ ∀ k, T.data k = G.data k + H.data k ∧ T.omega k = H.omega k := by
  refine ⟨G.add H, ?_, fun k => C09.add_pointwise G H k⟩
  rw [generated_add_eq E ⟨p, m, G, sm⟩ dt (.frd (PyFRD.of ⟨p, m, H, sm'⟩ dt')) d hn (fun L h => by cases h) ⟨hp, hm⟩
    ⟨hp, hm⟩ hd]
  have h1 : (DFRD.isSiso (⟨p, m, G, sm⟩ : DFRD K n) && !DFRD.isSiso (⟨p, m, H, sm'⟩ : DFRD K n)) = false := by
    simp only [DFRD.isSiso]; cases (p == 1 && m == 1) <;> rfl
  have h2 : (!DFRD.isSiso (⟨p, m, G, sm⟩ : DFRD K n) && DFRD.isSiso (⟨p, m, H, sm'⟩ : DFRD K n)) = false := by
    simp only [DFRD.isSiso]; cases (p == 1 && m == 1) <;> rfl
  simp only [DFRD.add, PyOpd.erase, PyFRD.of, DFRD.convert, dite_true, FRD.castN_rfl, hgm, if_true, bind,
    Except.bind, DFRD.addCore, h1, h2, Bool.false_eq_true, if_false, pure, Except.pure, FRD.castShape_rfl,
    Except.map]

/-- `G * H` through the generated `__mul__` for two FRD objects with matching inner size on one grid
(no SISO side): `(G * H).data[k] = G.data[k] @ H.data[k]`, on the grid of `G`. -/
theorem generated_mul_pointwise (E : Env K) {n p q m : Nat} (G : FRD n (Fin p) (Fin q) K) (H : FRD n (Fin q) (Fin m) K)
    (sm sm' : Bool) (dt dt' d : Dt) (hgm : FRD.gridMatch G.omega H.omega = true)
    (hG : (⟨p, q, G, sm⟩ : DFRD K n).isSiso = false) (hH : (⟨q, m, H, sm'⟩ : DFRD K n).isSiso = false)
    (hq : 0 < q) (hm : 0 < m) (hwf : sm = true → 2 ≤ n) (hwf' : sm' = true → 2 ≤ n)
    (hd : common dt dt' = .ok d) :
    ∃ T : FRD n (Fin p) (Fin m) K,
      Generated.frdMul E (PyFRD.of ⟨p, q, G, sm⟩ dt) (.frd (PyFRD.of ⟨q, m, H, sm'⟩ dt'))
        = .ok (PyFRD.of ⟨p, m, T, sm && sm'⟩ d)
      ∧ ∀ k, T.data k = G.data k * H.data k ∧ T.omega k = G.omega k := by
  refine ⟨G.mul H, ?_, fun k => C09.mul_pointwise G H k⟩
  rw [generated_mul_eq E ⟨p, q, G, sm⟩ dt (.frd (PyFRD.of ⟨q, m, H, sm'⟩ dt')) d trivial hq ⟨hq, hm⟩ hwf hwf' hd]
  have e : DFRD.mulCore (⟨p, q, G, sm⟩ : DFRD K n) ⟨q, m, H, sm'⟩ = DFRD.mulAligned ⟨p, q, G, sm⟩ ⟨q, m, H, sm'⟩ := by
    unfold DFRD.mulCore
    simp only [hG, hH, Bool.false_and, Bool.and_false, Bool.false_eq_true, if_false, Bool.not_false]
  simp only [DFRD.mul, PyOpd.erase, PyFRD.of, DFRD.convert, dite_true, FRD.castN_rfl, hgm, if_true, bind,
    Except.bind, e, DFRD.mulAligned, FRD.castShape_rfl, Except.map]

/-- `G.feedback(H, sign)` through the generated `feedback` for transposed shapes on one grid with
regular loop matrices: the result `T` satisfies the LOOP EQUATION `T_k (I - sign H_k G_k) = G_k` at
every grid index — for the `sign` that was passed — on the grid of `H`. -/
theorem generated_feedback_pointwise (E : Env K) {n p m : Nat} (G : FRD n (Fin p) (Fin m) K)
    (H : FRD n (Fin m) (Fin p) K) (sm sm' : Bool) (dt dt' d : Dt) (sign : K)
    (hgm : FRD.gridMatch G.omega H.omega = true) (hwf : sm = true → 2 ≤ n) (hd : common dt dt' = .ok d)
    (hdet : ∀ k, (1 - sign • (H.data k * G.data k)).det ≠ 0) :
    ∃ T : FRD n (Fin p) (Fin m) K,
      Generated.frdFeedback E (PyFRD.of ⟨p, m, G, sm⟩ dt) (.frd (PyFRD.of ⟨m, p, H, sm'⟩ dt')) sign
        = .ok (PyFRD.of ⟨p, m, T, sm⟩ d)
      ∧ T.omega = H.omega
      ∧ (∀ k, T.data k * (1 - sign • (H.data k * G.data k)) = G.data k)
      ∧ (∀ k, T.data k = G.data k * (1 - sign • (H.data k * G.data k))⁻¹) := by
  obtain ⟨T, hT, h1, h2, h3⟩ := C09.feedback_pointwise G H sign hdet
  refine ⟨T, ?_, h1, h2, h3⟩
  rw [generated_feedback_eq E ⟨p, m, G, sm⟩ dt (.frd (PyFRD.of ⟨m, p, H, sm'⟩ dt')) sign d trivial hwf hd]
  simp only [DFRD.feedback, PyOpd.erase, PyFRD.of, DFRD.convert, dite_true, FRD.castN_rfl, hgm, if_true, bind,
    Except.bind, DFRD.feedbackCore, and_self, FRD.castShape_rfl, hT, pure, Except.pure, Except.map]

/-! ### non-vacuity: every hypothesis of the equalities is met on a concrete 2-point grid -/

/-- an environment over `ℚ` (any values do). -/
def exE : Env ℚ := ⟨fun w => w, fun h w => w * h + 1⟩
/-- a SISO response on the ascending grid `1, 2`. -/
def exG : DFRD ℚ 2 := ⟨1, 1, ⟨fun k => (k.val : ℚ) + 1, fun k => Matrix.of fun _ _ => (k.val : ℚ) + 2⟩, false⟩
/-- a `2 × 2` response on the same grid. -/
def exM : DFRD ℚ 2 := ⟨2, 2, ⟨fun k => (k.val : ℚ) + 1, fun k => !![1, (k.val : ℚ); 0, 2]⟩, false⟩
/-- a static SISO gain as an LTI operand (continuous time). -/
def exL : LTI ℚ := .ss 0 1 1 ⟨0, 0, 0, Matrix.of fun _ _ => 3⟩ .cont

theorem exG_asc : Monotone exG.sys.omega := by
  intro a b h
  simp only [exG]
  exact add_le_add_left (by exact_mod_cast h) 1

example : GridOK exG.sys.omega (.scalar (3 : ℚ)) ∧ GridOK exG.sys.omega (.lti exL)
    ∧ GridOK exG.sys.omega (.array 2 2 (1 : Matrix (Fin 2) (Fin 2) ℚ)) :=
  ⟨le_refl 2, ⟨le_refl 2, exG_asc⟩, le_refl 2⟩

example : Generated.convertToFrd exE (.lti exL) ⟨2, exG.sys.omega⟩ 1 1
    = (DFRD.convert exE exG.sys.omega 1 1 (.lti exL)).map fun H => PyFRD.of H .cont :=
  generated_convert_eq exE exG.sys.omega (.lti exL) 1 1 ⟨le_refl 2, exG_asc⟩

example : Generated.frdAppend exE (PyFRD.of exG .none) (.frd (PyFRD.of exM .cont))
    = (DFRD.append exE exG (.frd 2 exM)).map fun R => PyFRD.of R .cont :=
  generated_append_eq exE exG .none (.frd (PyFRD.of exM .cont)) .cont trivial trivial ⟨Nat.one_pos, Nat.one_pos⟩
    ⟨Nat.two_pos, Nat.two_pos⟩ (fun h => by cases h) rfl

example : Generated.frdMul exE (PyFRD.of exM .none) (.lti exL)
    = (DFRD.mul exE exM (.lti exL)).map fun R => PyFRD.of R .cont :=
  generated_mul_eq exE exM .none (.lti exL) .cont ⟨le_refl 2, exG_asc⟩ Nat.two_pos ⟨Nat.one_pos, Nat.one_pos⟩
    (fun h => by cases h) trivial rfl

example : Generated.frdRmul exE (PyFRD.of exG .cont) (.array 2 2 (1 : Matrix (Fin 2) (Fin 2) ℚ))
    = (DFRD.rmul exE exG (.array 2 2 1)).map fun R => PyFRD.of R .cont :=
  generated_rmul_eq exE exG .cont (.array 2 2 1) .cont (le_refl 2) Nat.one_pos ⟨Nat.two_pos, Nat.two_pos⟩
    (fun h => by cases h) trivial rfl

example : Generated.frdAdd exE (PyFRD.of exM .cont) (.scalar 5)
    = (DFRD.add exE exM (.scalar 5)).map fun R => PyFRD.of R .cont :=
  generated_add_eq exE exM .cont (.scalar 5) .cont (le_refl 2) (fun L h => by cases h) ⟨Nat.two_pos, Nat.two_pos⟩
    trivial rfl

example : Generated.frdRsub exE (PyFRD.of exG .cont) (.lti exL)
    = (DFRD.rsub exE exG (.lti exL)).map fun R => PyFRD.of R .cont :=
  generated_rsub_eq exE exG .cont (.lti exL) .cont (fun F h => by cases h) (le_refl 2) (fun L _ => exG_asc)
    ⟨Nat.one_pos, Nat.one_pos⟩ ⟨Nat.one_pos, Nat.one_pos⟩ (common_self _)

example : Generated.frdTruediv exE (PyFRD.of exM .cont) (.frd (PyFRD.of exG .none))
    = (DFRD.truediv exE exM (.frd 2 exG)).map fun R => PyFRD.of R .cont :=
  generated_truediv_eq exE exM .cont (.frd (PyFRD.of exG .none)) .cont trivial ⟨Nat.one_pos, Nat.one_pos⟩
    (fun h => by cases h) rfl

example : Generated.frdRtruediv exE (PyFRD.of exG .cont) (.scalar 7)
    = (DFRD.rtruediv exE exG (.scalar 7)).map fun R => PyFRD.of R .cont :=
  generated_rtruediv_eq exE exG .cont (.scalar 7) .cont rfl (le_refl 2) trivial (fun h => by cases h) trivial rfl

example : Generated.frdPow exE (PyFRD.of exG .cont) (-2)
    = (DFRD.pow exG (-2)).map fun R => PyFRD.of R .cont :=
  generated_pow_eq exE exG .cont ⟨Nat.one_pos, Nat.one_pos⟩ (fun h => by cases h) (-2)

example : Generated.frdFeedback exE (PyFRD.of exM .cont) (.array 2 2 1) (-1)
    = (DFRD.feedback exE exM (.array 2 2 1) (-1)).map fun R => PyFRD.of R .cont :=
  generated_feedback_eq exE exM .cont (.array 2 2 1) (-1) .cont (le_refl 2) (fun h => by cases h) rfl

example : Generated.frdGetitemData (PyFRD.of exM .cont) ([1, 0], [1])
    = (exM.select [1, 0] [1]).map fun R => PyFRD.of R .cont :=
  generated_getitem_eq exM .cont [1, 0] [1] Nat.two_pos

example : Generated.frdEval (PyFRD.of exM .cont) (FVec.ofList [2, 1, 2])
    = (exM.eval [2, 1, 2]).map fun l => PArr3.ofList 2 2 l :=
  generated_eval_eq exM .cont [2, 1, 2] rfl

/-- the typed response of `exG`. -/
def exS : FRD 2 (Fin 1) (Fin 1) ℚ := ⟨fun k => (k.val : ℚ) + 1, fun k => Matrix.of fun _ _ => (k.val : ℚ) + 2⟩

/-- the loop of two concrete SISO responses: the closed loop exists for `sign = -1` and satisfies the
loop equation. -/
example : ∃ T : FRD 2 (Fin 1) (Fin 1) ℚ,
    Generated.frdFeedback exE (PyFRD.of ⟨1, 1, exS, false⟩ .cont) (.frd (PyFRD.of ⟨1, 1, exS, false⟩ .cont)) (-1)
      = .ok (PyFRD.of ⟨1, 1, T, false⟩ .cont)
    ∧ ∀ k, T.data k * (1 - (-1 : ℚ) • (exS.data k * exS.data k)) = exS.data k := by
  obtain ⟨T, h1, _, h3, _⟩ := generated_feedback_pointwise exE exS exS false false .cont .cont .cont (-1)
    (by simp [FRD.gridMatch]) (fun h => by cases h) (common_self _) (by
      intro k
      fin_cases k <;> simp [exS, Matrix.det_fin_one, Matrix.mul_apply] <;> norm_num)
  exact ⟨T, h1, h3⟩

end CtrlVerif.C09Gen
