/-
Source-text tie of C09, part 6: `FrequencyResponseData.__pow__`.
`Generated/FRDPow.lean` is rewritten from control/frdata.py on every run (harness/core/py2lean_frd.py):
a recursion on the integer exponent (`self * self**(k-1)`, `(ones / self) * self**(k+1)`), whose
termination Lean checks.  The theorems below prove the model's `DFRD.pow` (`powNat`, `powNegNat`,
`Model/FRDDyn.lean`) EQUAL to it for every integer exponent: `F ** 0` is the identity pattern
(`eye(p, m)[:, :, np.newaxis] * ones(n)`), every product goes through the GENERATED `__mul__` with an
FRD operand on the same grid, the reciprocal through the generated `__truediv__`.
-/
import CtrlVerif.Generated.FRDPow
import CtrlVerif.Props.C09GenDiv

set_option linter.unusedSimpArgs false
set_option linter.unusedSectionVars false

namespace CtrlVerif.C09Gen

open Matrix CtrlVerif

variable {K : Type} [Field K] [DecidableEq K]

/-- what `mulCore` returns when no operand is promoted. -/
theorem mulCore_inv {n : Nat} {A B R : DFRD K n} (hs : A.isSiso = B.isSiso) (h : DFRD.mulCore A B = .ok R) :
    R.p = A.p ∧ R.m = B.m ∧ R.sys.omega = A.sys.omega ∧ R.smooth = (A.smooth && B.smooth) := by
  have h1 : (A.isSiso && !B.isSiso) = false := by rw [hs]; cases B.isSiso <;> rfl
  have h2 : (!A.isSiso && B.isSiso) = false := by rw [hs]; cases B.isSiso <;> rfl
  have e : DFRD.mulCore A B = DFRD.mulAligned A B := by
    unfold DFRD.mulCore
    simp only [h1, h2, Bool.false_eq_true, if_false]
  rw [e] at h
  unfold DFRD.mulAligned at h
  split at h
  · injection h with h; subst h; exact ⟨rfl, rfl, rfl, rfl⟩
  · exact absurd h (by simp)

/-- the invariants of the results of the `__pow__` recursion: shape, grid and `smooth` of `self`. -/
def PowInv {n : Nat} (G R : DFRD K n) : Prop :=
  R.p = G.p ∧ R.m = G.m ∧ R.sys.omega = G.sys.omega ∧ (R.smooth = true → G.smooth = true)

theorem powInv_isSiso {n : Nat} {G R : DFRD K n} (h : PowInv G R) : G.isSiso = R.isSiso := by
  simp only [DFRD.isSiso, h.1, h.2.1]

theorem powNat_inv {n : Nat} (G : DFRD K n) (k : Nat) (R : DFRD K n) (h : DFRD.powNat G k = .ok R) :
    PowInv G R := by
  induction k generalizing R with
  | zero =>
    simp only [DFRD.powNat, pure, Except.pure] at h
    injection h with h; subst h
    exact ⟨rfl, rfl, rfl, id⟩
  | succ k ih =>
    simp only [DFRD.powNat, bind, Except.bind] at h
    split at h
    · exact absurd h (by simp)
    · rename_i r hr
      have ir := ih r hr
      have := mulCore_inv (powInv_isSiso ir) h
      refine ⟨this.1, this.2.1.trans ir.2.1, this.2.2.1, fun hR => ?_⟩
      rw [this.2.2.2, Bool.and_eq_true] at hR
      exact hR.1

theorem truedivCore_inv {n : Nat} {A B R : DFRD K n} (h : DFRD.truedivCore A B = .ok R) :
    B.isSiso = true ∧ R.p = A.p ∧ R.m = A.m ∧ R.sys.omega = A.sys.omega ∧ R.smooth = (A.smooth && B.smooth) := by
  simp only [DFRD.truedivCore] at h
  split at h
  · exact absurd h (by simp)
  · rename_i hs
    simp only [bind, Except.bind, FRD.divSiso] at h
    split at h
    · exact absurd h (by simp)
    · rename_i s hs'
      split at hs'
      · exact absurd hs' (by simp)
      · injection hs' with hs'; subst hs'
        injection h with h; subst h
        exact ⟨by simpa using hs, rfl, rfl, rfl, rfl⟩

theorem powNegNat_inv {n : Nat} (G : DFRD K n) (k : Nat) (R : DFRD K n) (h : DFRD.powNegNat G k = .ok R) :
    PowInv G R := by
  induction k generalizing R with
  | zero =>
    simp only [DFRD.powNegNat, pure, Except.pure] at h
    injection h with h; subst h
    exact ⟨rfl, rfl, rfl, id⟩
  | succ k ih =>
    simp only [DFRD.powNegNat, bind, Except.bind] at h
    split at h
    · exact absurd h (by simp)
    · rename_i i hi
      split at h
      · exact absurd h (by simp)
      · rename_i r hr
        have ir := ih r hr
        have ii := truedivCore_inv hi
        have hsi : i.isSiso = r.isSiso := by
          have : i.isSiso = G.isSiso := by simp only [DFRD.isSiso, ii.2.1, ii.2.2.1, DFRD.onesLike]
          rw [this]; exact powInv_isSiso ir
        have := mulCore_inv hsi h
        refine ⟨this.1.trans ii.2.1, this.2.1.trans ir.2.1, this.2.2.1.trans ii.2.2.2.1, fun hR => ?_⟩
        rw [this.2.2.2, ii.2.2.2.2] at hR
        simp [DFRD.onesLike] at hR


theorem powInv_wf {n : Nat} {G R : DFRD K n} (h : PowInv G R) (hwf : G.WF) : R.WF := fun hR => hwf (h.2.2.2 hR)

/-- `self * R` where `R` is an FRD object on the grid of `self` (no conversion error, no timebase
error). -/
theorem generated_mul_same_grid (E : Env K) {n : Nat} (A R : DFRD K n) (dt : Dt)
    (hω : R.sys.omega = A.sys.omega) (hA : 0 < A.m) (hR : 0 < R.p ∧ 0 < R.m) (hwfA : A.WF) (hwfR : R.WF) :
    Generated.frdMul E (PyFRD.of A dt) (.frd (PyFRD.of R dt)) = (DFRD.mulCore A R).map fun X => PyFRD.of X dt := by
  rw [generated_mul_eq E A dt (.frd (PyFRD.of R dt)) dt trivial hA hR hwfA hwfR (common_self dt)]
  have hgm : FRD.gridMatch A.sys.omega R.sys.omega = true := by rw [hω]; simp [FRD.gridMatch]
  simp only [DFRD.mul, PyOpd.erase, PyFRD.of, DFRD.convert, dite_true, FRD.castN_rfl, hgm, if_true, bind,
    Except.bind]

/-- `F ** 0`: the identity pattern on every grid point. -/
theorem generated_pow_zero (E : Env K) {n : Nat} (G : DFRD K n) (dt : Dt) (hwf : G.WF) :
    Generated.frdPow E (PyFRD.of G dt) 0 = .ok (PyFRD.of G.unityLike dt) := by
  obtain ⟨p, m, ⟨w, g⟩, sm⟩ := G
  rw [Generated.frdPow]
  simp only [dite_true, PyFRD.of, PyFRD.noutputs, PyFRD.ninputs, PyFRD.omega, PyFRD.smooth, PArr3.ofMat,
    PMat.eyeRect, PKVec.ones, PArr3.mulKVec, bind, Except.bind, PyFRD.ctor_mk, DFRD.unityLike]
  have : ¬ (sm = true ∧ n < 2) := fun hc => by
    have := hwf hc.1
    omega
  simp only [dite_true, PyFRD.ctor_mk, this, if_false, mul_one]
  rfl

/-- `self ** k` for `k ≥ 0`: `self * (self ** (k - 1))`. -/
theorem generated_pow_nat (E : Env K) {n : Nat} (G : DFRD K n) (dt : Dt) (hG : 0 < G.p ∧ 0 < G.m) (hwf : G.WF)
    (k : Nat) :
    Generated.frdPow E (PyFRD.of G dt) (k : Int) = (DFRD.powNat G k).map fun R => PyFRD.of R dt := by
  induction k with
  | zero => exact generated_pow_zero E G dt hwf
  | succ k ih =>
    rw [Generated.frdPow]
    have h0 : ¬ (((k + 1 : Nat) : Int) = 0) := by omega
    have h1 : (((k + 1 : Nat) : Int) > 0) := by omega
    have h2 : (((k + 1 : Nat) : Int) - 1) = (k : Int) := by omega
    simp only [h0, h1, dite_true, dite_false, h2, ih, DFRD.powNat, bind, Except.bind]
    cases hr : DFRD.powNat G k with
    | error e => rfl
    | ok r =>
      have ir := powNat_inv G k r hr
      simp only [Except.map]
      exact generated_mul_same_grid E G r dt ir.2.2.1 hG.2 (by rw [ir.1, ir.2.1]; exact hG) hwf (powInv_wf ir hwf)


/-- `self ** (-k)`: `(ones / self) * (self ** (-k + 1))`. -/
theorem generated_pow_neg (E : Env K) {n : Nat} (G : DFRD K n) (dt : Dt) (hG : 0 < G.p ∧ 0 < G.m) (hwf : G.WF)
    (k : Nat) :
    Generated.frdPow E (PyFRD.of G dt) (-(k : Int)) = (DFRD.powNegNat G k).map fun R => PyFRD.of R dt := by
  induction k with
  | zero => exact generated_pow_zero E G dt hwf
  | succ k ih =>
    rw [Generated.frdPow]
    have h0 : ¬ ((-((k + 1 : Nat) : Int)) = 0) := by omega
    have h1 : ¬ ((-((k + 1 : Nat) : Int)) > 0) := by omega
    have h2 : ((-((k + 1 : Nat) : Int)) < 0) := by omega
    have h3 : (-((k + 1 : Nat) : Int) + 1) = -(k : Int) := by omega
    simp only [h0, h1, h2, dite_true, dite_false, h3, ih, DFRD.powNegNat, bind, Except.bind]
    have hones : PyFRD.ctor (PArr3.ones (PyFRD.frdata (PyFRD.of G dt)).p (PyFRD.frdata (PyFRD.of G dt)).m
        (PyFRD.frdata (PyFRD.of G dt)).n) (PyFRD.omega (PyFRD.of G dt)) (PyFRD.of G dt).dt false
        = .ok (PyFRD.of G.onesLike dt) := by
      obtain ⟨p, m, ⟨w, g⟩, sm⟩ := G
      simp only [PyFRD.of, PyFRD.frdata, PyFRD.omega, PArr3.ones_def, PyFRD.ctor_mk_false]
      rfl
    rw [hones]
    simp only
    have hdiv : Generated.frdTruediv E (PyFRD.of G.onesLike dt) (.frd (PyFRD.of G dt))
        = (DFRD.truedivCore G.onesLike G).map fun R => PyFRD.of R dt := by
      rw [generated_truediv_eq E G.onesLike dt (.frd (PyFRD.of G dt)) dt trivial hG (fun h => by simp [DFRD.onesLike] at h)
        (common_self dt)]
      have hgm : FRD.gridMatch G.onesLike.sys.omega G.sys.omega = true := by simp [FRD.gridMatch, DFRD.onesLike]
      simp only [DFRD.truediv, PyOpd.erase, PyFRD.of, DFRD.convert, dite_true, FRD.castN_rfl, hgm, if_true, bind,
        Except.bind]
    rw [hdiv]
    cases hi : DFRD.truedivCore G.onesLike G with
    | error e => rfl
    | ok i =>
      have ii := truedivCore_inv hi
      simp only [Except.map]
      cases hr : DFRD.powNegNat G k with
      | error e => rfl
      | ok r =>
        have ir := powNegNat_inv G k r hr
        simp only
        have hip : i.p = G.p := ii.2.1
        have him : i.m = G.m := ii.2.2.1
        exact generated_mul_same_grid E i r dt (ir.2.2.1.trans ii.2.2.2.1.symm) (by rw [him]; exact hG.2)
          (by rw [ir.1, ir.2.1]; exact hG) (fun h => by rw [ii.2.2.2.2] at h; simp [DFRD.onesLike] at h)
          (powInv_wf ir hwf)

/-- **`__pow__`**: the function the source text defines (a recursion on the integer exponent, checked
to terminate by Lean) is the model's `DFRD.pow` for EVERY integer exponent; the timebase is
`self.dt`. -/
theorem generated_pow_eq (E : Env K) {n : Nat} (G : DFRD K n) (dt : Dt) (hG : 0 < G.p ∧ 0 < G.m) (hwf : G.WF)
    (k : Int) :
    Generated.frdPow E (PyFRD.of G dt) k = (DFRD.pow G k).map fun R => PyFRD.of R dt := by
  cases k with
  | ofNat k => exact generated_pow_nat E G dt hG hwf k
  | negSucc k =>
    have := generated_pow_neg E G dt hG hwf (k + 1)
    rw [show (Int.negSucc k) = -((k + 1 : Nat) : Int) from rfl]
    exact this

end CtrlVerif.C09Gen
