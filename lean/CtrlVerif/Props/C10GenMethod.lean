/-
Source-text tie for `_slycot_or_scipy` (control/mateqn.py; DESIGN §2.5 / §10.3,
notes/NOTES-py2lean-mateqn.md): `Generated/MatEqnMethod.lean` is rewritten on every run from the text
of the function by `harness/core/py2lean_meq.py`; its only primitive is `slycot_check()` =
`PyMeq.slycotCheck` = `false` (the check runs without Slycot; the C10 model is the SciPy route).  The
decision the model of `lyap / dlyap / care / dare` relies on — `None` and `'scipy'` select SciPy,
`'slycot'` selects Slycot, anything else is a ControlArgument — is the function the source defines.
-/
import CtrlVerif.Generated.MatEqnMethod

namespace CtrlVerif.C10Gen

open CtrlVerif PyMeq

/-- **`_slycot_or_scipy` as written in the source**, on an installation without Slycot: the full
table over the values of `method`. -/
theorem generated_slycotOrScipy_eq (method : Method) :
    Generated.slycotOrScipy method =
      match method with
      | .slycot => .ok .slycot
      | .none => .ok .scipy
      | .scipy => .ok .scipy
      | .other => .error .badArg := by
  cases method <;> rfl

/-- `method=None` and `method='scipy'` select the SciPy route. -/
theorem generated_slycotOrScipy_scipy (method : Method) (hm : method = .none ∨ method = .scipy) :
    Generated.slycotOrScipy method = .ok .scipy := by
  rcases hm with rfl | rfl <;> rfl

/-- conversely the SciPy route is selected by nothing else. -/
theorem generated_slycotOrScipy_scipy_iff (method : Method) :
    Generated.slycotOrScipy method = .ok .scipy ↔ (method = .none ∨ method = .scipy) := by
  rw [generated_slycotOrScipy_eq]
  cases method <;> simp

/-- non-vacuity -/
example : Generated.slycotOrScipy .none = .ok .scipy ∧ Generated.slycotOrScipy .slycot = .ok .slycot ∧
    Generated.slycotOrScipy .other = .error .badArg := ⟨rfl, rfl, rfl⟩

end CtrlVerif.C10Gen
