/-
Source-text tie of C02, part 3: `StateSpace.__add__`, `__radd__`, `__sub__`, `__rsub__`.
`Generated/SSAdd.lean` is rewritten from control/statesp.py on every run
(harness/core/py2lean_ss.py); the theorems below prove the run-time model operators `DSS.add`,
`DSS.sub`, `DSS.rsub` (`Model/SSDyn.lean`: `addScalar`, `addArray`, `addSS`, `SOperand.neg`) EQUAL to
the generated functions for every kind of operand, all sizes, entries and timebases - including
the SISO broadcast `np.ones(...) * g` (which goes through the generated `__rmul__`), the dimension
checks, the block layout of `A`, and the order of the operands of `__rsub__`.
-/
import CtrlVerif.Generated.SSAdd
import CtrlVerif.Props.C02GenMul

namespace CtrlVerif.C02Gen

open Matrix CtrlVerif

variable {K : Type} [Field K] [DecidableEq K]

/-- `np.ones((q, r)) * g` through the generated `__rmul__` is the model's `onesTimes`. -/
theorem generated_onesTimes_eq (g : DSS K) (q r : Nat) :
    Generated.ssRmul g (.array q r (Matrix.of fun _ _ => 1)) = DSS.onesTimes q r g := by
  rw [generated_rmul_eq]; rfl

/-- `self + c` for a number. -/
theorem generated_add_scalar (G : DSS K) (c : K) :
    Generated.ssAdd G (.scalar c) = DSS.add G (.scalar c) := by
  obtain ⟨n, p, m, ⟨A, B, C, D⟩, dt⟩ := G
  simp [Generated.ssAdd, PySS.A, PySS.B, PySS.C, PySS.D, DSS.add, DSS.addScalar, SS.addConst, pure,
    Except.pure]
  rfl

/-- `self + M` for a 2-D array. -/
theorem generated_add_array (G : DSS K) (q r : Nat) (M : Matrix (Fin q) (Fin r) K) :
    Generated.ssAdd G (.array q r M) = DSS.add G (.array q r M) := by
  simp only [Generated.ssAdd, DSS.add, DSS.addArray_eq, PySS.issiso_eq, PMat.atleast2d_eq,
    PMat.onesLike_mk, PMat.toOperand_mk, generated_onesTimes_eq]
  simp only [bind, pure, Except.pure]
  refine Except.bind_congr' fun G' => ?_
  obtain ⟨n, p, m, ⟨A, B, C, D⟩, dt⟩ := G'
  unfold DSS.addArrayCore
  simp only [PySS.A, PySS.B, PySS.C, PySS.D]
  by_cases h : p = q ∧ m = r
  · obtain ⟨rfl, rfl⟩ := h
    simp [Except.bind, SS.addConst]
  · have h' : ¬p = q ∨ ¬m = r := by tauto
    simp [h, h', throw, throwThe, MonadExceptOf.throw]

/-- `self + other` for two systems. -/
theorem generated_add_sys (G H : DSS K) :
    Generated.ssAdd G (.sys H) = DSS.add G (.sys H) := by
  simp only [Generated.ssAdd, DSS.add, DSS.addSS_eq, PySS.issiso_eq, PMat.ones_def, PMat.toOperand_mk,
    generated_onesTimes_eq]
  simp only [bind]
  refine Except.pair_join ?_ fun G' H' => ?_
  · cases hG : G.isSiso <;> cases hH : H.isSiso <;> simp [Except.bind, pure, Except.pure]
  · obtain ⟨n, p, m, ⟨A, B, C, D⟩, dt⟩ := G'
    obtain ⟨n', p', m', ⟨A', B', C', D'⟩, dt'⟩ := H'
    unfold DSS.addCore
    simp only [PySS.A, PySS.B, PySS.C, PySS.D]
    by_cases h : m = m' ∧ p = p'
    · obtain ⟨rfl, rfl⟩ := h
      simp [Except.bind, SS.castIO_rfl]
      cases common dt dt' with
      | error e => rfl
      | ok d => simp [SS.add, SS.flatS, SS.reindex, PMat.vcat_hcat_blocks]
    · have h' : ¬m = m' ∨ ¬p = p' := by tauto
      simp [h, h', throw, throwThe, MonadExceptOf.throw]

/-- **`__add__`**: the function the source text defines is the model's `DSS.add`, for every kind of
right operand. -/
theorem generated_add_eq (G : DSS K) (x : SOperand K) : Generated.ssAdd G x = DSS.add G x := by
  cases x with
  | sys H => exact generated_add_sys G H
  | scalar c => exact generated_add_scalar G c
  | array q r M => exact generated_add_array G q r M

/-- **`__radd__`** is `self + other`. -/
theorem generated_radd_eq (G : DSS K) (x : SOperand K) : Generated.ssRadd G x = DSS.add G x := by
  cases x <;> simp only [Generated.ssRadd, PMat.toOperand_mk] <;> exact generated_add_eq _ _

/-- **`__sub__`**: `self + (-other)`, the negation taken by the kind of the operand. -/
theorem generated_sub_eq (G : DSS K) (x : SOperand K) : Generated.ssSub G x = DSS.sub G x := by
  cases x with
  | sys H =>
    simp only [Generated.ssSub, generated_neg_eq, generated_add_eq, DSS.sub, DSS.SOperand.neg]
    rfl
  | scalar c => simp only [Generated.ssSub, generated_add_eq, DSS.sub, DSS.SOperand.neg]
  | array q r M =>
    simp only [Generated.ssSub, generated_add_eq, DSS.sub, DSS.SOperand.neg, PMat.neg_mk,
      PMat.toOperand_mk]

/-- **`__rsub__`**: `other + (-self)`: the left operand's `__add__` when it is a system, else the
`__radd__` of `-self`. -/
theorem generated_rsub_eq (G : DSS K) (x : SOperand K) : Generated.ssRsub G x = DSS.rsub G x := by
  cases x with
  | sys H =>
    simp only [Generated.ssRsub, generated_neg_eq, generated_add_eq, DSS.rsub]
    rfl
  | scalar c =>
    simp only [Generated.ssRsub, generated_neg_eq, generated_radd_eq, DSS.rsub]
    rfl
  | array q r M =>
    simp only [Generated.ssRsub, generated_neg_eq, generated_radd_eq, DSS.rsub, PMat.toOperand_mk]
    rfl

end CtrlVerif.C02Gen
