/-
C02 — the run-time layer (`Model/SSDyn.lean`) realises the typed layer (`Model/SS.lean`).

The theorems of `Props/C02.lean` are about the typed block constructions (`SS σ ι o K`, arbitrary
finite index types); the driver executes the run-time operators of `Model/SSDyn.lean` (`DSS`, `Nat`
dimensions: operand conversion, SISO promotion, dimension checks, dispatch, re-typing of
`Fin a ⊕ Fin b` as `Fin (a + b)`).  Here, for every run-time operator the driver can execute:

* `…_shape`    : when it returns, the number of states is the sum of the operands' (after
                 broadcasting), outputs / inputs are the predicted ones, the timebase is the common
                 one;
* `…_error_iff`: it raises exactly on the stated dimension / well-posedness / timebase
                 conditions, with the stated error;
* `…_resp`     : the result's `DSS.Resp` (value of the transfer matrix at every `s`) is the one the
                 typed theorem of `Props/C02.lean` gives — the run-time operator is the typed
                 operator up to the re-indexing along `finSumFinEquiv`, which preserves `Resp`
                 (`SS.Resp_reindex`, `Lemmas/C02Glue.lean`);
* `…_typed`    : that equation itself: what the operator returns is the typed construction of
                 `Model/SS.lean` applied to the operands' quadruples, states re-indexed by
                 `SS.reindex finSumFinEquiv`, inputs / outputs re-typed (`SS.select`, `SS.castIO`).

The entry points `+ - *` on operands (system / Python scalar / array, either side) are at the end;
`/`, `feedback`, `lft` on operands and the run-time tree theorem are in `Props/C02GlueTree.lean`.

`K` is an arbitrary field (`DecidableEq K` where the operator tests a determinant / a scalar for
zero).  `DSS.Resp G s p m Y` = "`G` has `p` outputs, `m` inputs and responds at `s` with `Y`".
`bc p m y` is NumPy's broadcasting of a `1 × 1` value, `bdiag` the block diagonal re-typed to
`Fin (p + p')`.
-/
import CtrlVerif.Lemmas.C02Glue
import CtrlVerif.Lemmas.C02GlueEx
import CtrlVerif.Props.C02
import CtrlVerif.Props.C02Tree

namespace CtrlVerif.C02.RT

open CtrlVerif Matrix DSS

variable {K : Type} [Field K]

/-- how a hypothesis `G.Resp s p m Y` is used: `G` is `⟨n, p, m, sys, dt⟩` with `sys.Resp s Y`. -/
theorem resp_cases {G : DSS K} {s : K} {p m : Nat} {Y : Matrix (Fin p) (Fin m) K}
    (h : G.Resp s p m Y) : ∃ n sys dt, G = ⟨n, p, m, sys, dt⟩ ∧ sys.Resp s Y := by
  obtain ⟨n, p', m', sys, dt⟩ := G
  obtain ⟨hp, hm, h⟩ := h
  dsimp only at hp hm
  subst hp hm
  exact ⟨n, sys, dt, rfl, by simpa using h⟩

/-- where `s` is not an eigenvalue of `A` the run-time response is *the* transfer matrix
`C (sI - A)⁻¹ B + D` (re-typed to the dimensions `p`, `m`). -/
theorem Resp_value {G : DSS K} {s : K} {p m : Nat} {Y : Matrix (Fin p) (Fin m) K}
    (h : G.Resp s p m Y) (hu : IsUnit (s • (1 : Matrix (Fin G.n) (Fin G.n) K) - G.sys.A)) :
    ∃ (hp : G.p = p) (hm : G.m = m),
      Y = (G.sys.C * ((s • (1 : Matrix (Fin G.n) (Fin G.n) K) - G.sys.A)⁻¹ * G.sys.B)
            + G.sys.D).submatrix (Fin.cast hp.symm) (Fin.cast hm.symm) := by
  obtain ⟨n, sys, dt, rfl, h'⟩ := resp_cases h
  refine ⟨rfl, rfl, ?_⟩
  rw [submatrix_cast_rfl]
  exact SS.Resp.unique hu h' (SS.Resp.of_isUnit sys s hu)

/-! ### re-indexing (the general lemma, restated for the property) -/

/-- **Re-indexing preserves the response.**  Relabelling the states of a system along any
equivalence (in particular `finSumFinEquiv : Fin a ⊕ Fin b ≃ Fin (a + b)`) does not change which
matrices are values of its transfer matrix at `s`. -/
theorem Resp_reindex {σ σ' ι o : Type*} [Fintype σ] [DecidableEq σ] [Fintype σ'] [DecidableEq σ']
    (G : SS σ ι o K) (e : σ ≃ σ') (s : K) (Y : Matrix o ι K) :
    (G.reindex e).Resp s Y ↔ G.Resp s Y := SS.Resp_reindex G e s Y

/-- relabelling inputs and outputs along equivalences relabels the response. -/
theorem Resp_reindexIO {σ ι ι' o o' : Type*} [Fintype σ] [DecidableEq σ] (G : SS σ ι o K)
    (eo : o' ≃ o) (ei : ι' ≃ ι) (s : K) (Y : Matrix o' ι' K) :
    (G.select eo ei).Resp s Y ↔ G.Resp s (Y.submatrix eo.symm ei.symm) :=
  SS.Resp_selectEquiv G eo ei s Y

/-! ### operand conversion (`_convert_to_statespace`) -/

/-- an array operand is a system without states, of the array's shape, responding with the array
(and with nothing else). -/
theorem ofMatrix_resp (p m : Nat) (D : Matrix (Fin p) (Fin m) K) (s : K)
    (Y : Matrix (Fin p) (Fin m) K) : (ofMatrix p m D).Resp s p m Y ↔ Y = D := by
  unfold ofMatrix
  rw [Resp_mk, SS.Resp.static_iff]
  rfl

theorem ofMatrix_shape (p m : Nat) (D : Matrix (Fin p) (Fin m) K) :
    (ofMatrix p m D).n = 0 ∧ (ofMatrix p m D).p = p ∧ (ofMatrix p m D).m = m ∧
      (ofMatrix p m D).dt = .none := ⟨rfl, rfl, rfl, rfl⟩

/-- a scalar operand is a `1 × 1` static gain. -/
theorem ofScalar_resp (c : K) (s : K) (Y : Matrix (Fin 1) (Fin 1) K) :
    (ofScalar c).Resp s 1 1 Y ↔ Y = Matrix.of fun _ _ => c :=
  ofMatrix_resp 1 1 _ s Y

theorem ofScalar_shape (c : K) :
    (ofScalar c).n = 0 ∧ (ofScalar c).p = 1 ∧ (ofScalar c).m = 1 ∧ (ofScalar c).dt = .none :=
  ⟨rfl, rfl, rfl, rfl⟩

/-! ### `__neg__`, scalar `+` and `*` (total operators) -/

theorem neg_shape (G : DSS K) : G.neg.n = G.n ∧ G.neg.p = G.p ∧ G.neg.m = G.m ∧ G.neg.dt = G.dt :=
  ⟨rfl, rfl, rfl, rfl⟩

theorem neg_resp {G : DSS K} {s : K} {p m : Nat} {Y : Matrix (Fin p) (Fin m) K}
    (h : G.Resp s p m Y) : G.neg.Resp s p m (-Y) := by
  obtain ⟨n, sys, dt, rfl, h'⟩ := resp_cases h
  exact (Resp_mk _ _ _ _).mpr (C02.neg_resp sys s h')

theorem addScalar_shape (G : DSS K) (c : K) : (G.addScalar c).n = G.n ∧ (G.addScalar c).p = G.p ∧
    (G.addScalar c).m = G.m ∧ (G.addScalar c).dt = G.dt := ⟨rfl, rfl, rfl, rfl⟩

/-- `G + c`: `c` is added to every entry. -/
theorem addScalar_resp {G : DSS K} {s : K} {p m : Nat} {Y : Matrix (Fin p) (Fin m) K}
    (h : G.Resp s p m Y) (c : K) : (G.addScalar c).Resp s p m (Y + Matrix.of fun _ _ => c) := by
  obtain ⟨n, sys, dt, rfl, h'⟩ := resp_cases h
  exact (Resp_mk _ _ _ _).mpr (C02.addConst_resp sys _ s h')

theorem mulScalar_shape (G : DSS K) (c : K) : (G.mulScalar c).n = G.n ∧ (G.mulScalar c).p = G.p ∧
    (G.mulScalar c).m = G.m ∧ (G.mulScalar c).dt = G.dt := ⟨rfl, rfl, rfl, rfl⟩

/-- `G * c`, `c * G`. -/
theorem mulScalar_resp {G : DSS K} {s : K} {p m : Nat} {Y : Matrix (Fin p) (Fin m) K}
    (h : G.Resp s p m Y) (c : K) : (G.mulScalar c).Resp s p m (c • Y) := by
  obtain ⟨n, sys, dt, rfl, h'⟩ := resp_cases h
  exact (Resp_mk _ _ _ _).mpr (C02.smul_resp sys c s h')

/-! ### `append` and the SISO broadcast `appendN` -/

/-- `append` raises exactly when the timebases are incompatible. -/
theorem append_error_iff (G H : DSS K) (e : Err) :
    G.append H = .error e ↔ common G.dt H.dt = .error e := by
  rw [append_eq, Except.bind_eq_error_iff]
  simp

theorem append_shape {G H R : DSS K} (h : G.append H = .ok R) :
    R.n = G.n + H.n ∧ R.p = G.p + H.p ∧ R.m = G.m + H.m ∧ common G.dt H.dt = .ok R.dt := by
  rw [append_eq, Except.bind_eq_ok_iff] at h
  obtain ⟨d, hd, h⟩ := h
  simp only [Except.ok.injEq] at h
  subst h
  exact ⟨rfl, rfl, rfl, hd⟩

/-- `append(G, H)` responds with the block diagonal (re-typed to `Fin (p + p')`, `Fin (m + m')`). -/
theorem append_resp {G H R : DSS K} {s : K} {p m p' m' : Nat} {Y : Matrix (Fin p) (Fin m) K}
    {Y' : Matrix (Fin p') (Fin m') K} (hG : G.Resp s p m Y) (hH : H.Resp s p' m' Y')
    (hR : G.append H = .ok R) : R.Resp s (p + p') (m + m') (bdiag Y Y') := by
  obtain ⟨n, sys, dt, rfl, hG'⟩ := resp_cases hG
  obtain ⟨n', sys', dt', rfl, hH'⟩ := resp_cases hH
  rw [append_eq, Except.bind_eq_ok_iff] at hR
  obtain ⟨d, -, hR⟩ := hR
  simp only [Except.ok.injEq] at hR
  subst hR
  rw [Resp_mk, SS.Resp_flatIO, SS.Resp_flatS]
  have := C02.append_resp sys sys' s hG' hH'
  convert this using 1
  ext i j
  simp [bdiag]

/-- `appendN g k` (`k` copies of `g`) raises exactly for `k = 0`. -/
theorem appendN_error_iff (g : DSS K) (k : Nat) (e : Err) :
    appendN g k = .error e ↔ k = 0 ∧ e = .badArg := by
  constructor
  · intro h
    rcases Nat.eq_zero_or_pos k with rfl | hk
    · simp only [appendN, Except.error.injEq] at h
      exact ⟨rfl, h.symm⟩
    · obtain ⟨R, hR, -⟩ := appendN_ok g k (by omega)
      rw [hR] at h; cases h
  · rintro ⟨rfl, rfl⟩; rfl

/-- the states / outputs / inputs of `appendN g k` are `k` times those of `g`; same timebase. -/
theorem appendN_shape {g R : DSS K} {k : Nat} (h : appendN g k = .ok R) :
    R.n = k * g.n ∧ R.p = k * g.p ∧ R.m = k * g.m ∧ R.dt = g.dt := by
  have hk : k ≠ 0 := by
    rintro rfl
    simp [appendN] at h
  obtain ⟨R', hR', h'⟩ := appendN_ok g k hk
  rw [hR'] at h
  cases h
  exact h'

/-- broadcasting a SISO system to `k` channels: it responds with `y • I_k`. -/
theorem appendN_resp {g : DSS K} {s : K} {y : Matrix (Fin 1) (Fin 1) K} (hg : g.Resp s 1 1 y) :
    ∀ {k : Nat} {R : DSS K}, appendN g k = .ok R →
      R.Resp s k k (y 0 0 • (1 : Matrix (Fin k) (Fin k) K))
  | 0, R, h => by simp [appendN] at h
  | 1, R, h => by
    simp only [appendN, pure, Except.pure, Except.ok.injEq] at h
    subst h
    rw [← one_by_one_eq_smul]
    exact hg
  | k + 2, R, h => by
    rw [appendN_succ g (k + 1) (by omega), Except.bind_eq_ok_iff] at h
    obtain ⟨a, ha, h⟩ := h
    have iha := appendN_resp hg ha
    have hg' : g.Resp s 1 1 (y 0 0 • (1 : Matrix (Fin 1) (Fin 1) K)) := by
      rw [← one_by_one_eq_smul]; exact hg
    have := append_resp iha hg' h
    rwa [bdiag_smul_one] at this

/-! ### array operands: `self * M`, `M * self`, `np.ones((q, r)) * g` -/

theorem mulArrayCore_error_iff (G : DSS K) (q r : Nat) (M : Matrix (Fin q) (Fin r) K) (e : Err) :
    mulArrayCore G q r M = .error e ↔ G.m ≠ q ∧ e = .shape := by
  unfold mulArrayCore
  split <;> simp_all [eq_comm]

theorem mulArrayCore_shape {G R : DSS K} {q r : Nat} {M : Matrix (Fin q) (Fin r) K}
    (h : mulArrayCore G q r M = .ok R) : G.m = q ∧ R.n = G.n ∧ R.p = G.p ∧ R.m = r ∧ R.dt = G.dt := by
  unfold mulArrayCore at h
  split at h
  · simp only [Except.ok.injEq] at h
    subst h
    exact ⟨by assumption, rfl, rfl, rfl, rfl⟩
  · cases h

theorem mulArrayCore_resp {G R : DSS K} {s : K} {p q r : Nat} {Y : Matrix (Fin p) (Fin q) K}
    {M : Matrix (Fin q) (Fin r) K} (hG : G.Resp s p q Y) (hR : mulArrayCore G q r M = .ok R) :
    R.Resp s p r (Y * M) := by
  obtain ⟨n, sys, dt, rfl, hG'⟩ := resp_cases hG
  simp only [mulArrayCore, dif_pos, Except.ok.injEq] at hR
  subst hR
  rw [Resp_mk, SS.castIO_rfl]
  exact C02.mulConst_resp sys M s hG'

/-- `self * M` raises exactly when a SISO `self` is to be broadcast to zero channels, or the
(non-SISO) `self` has a number of inputs different from the rows of `M`. -/
theorem mulArray_error_iff (G : DSS K) (q r : Nat) (M : Matrix (Fin q) (Fin r) K) (e : Err) :
    G.mulArray q r M = .error e ↔
      (G.isSiso = true ∧ q = 0 ∧ e = .badArg) ∨ (G.isSiso = false ∧ G.m ≠ q ∧ e = .shape) := by
  rw [mulArray_eq]
  cases hs : G.isSiso
  · simp [Except.bind, mulArrayCore_error_iff]
  · simp only [if_true, Except.bind_eq_error_iff, appendN_error_iff, mulArrayCore_error_iff]
    constructor
    · rintro (h | ⟨a, ha, hm, -⟩)
      · exact Or.inl ⟨trivial, h⟩
      · exfalso
        have := (appendN_shape ha).2.2.1
        rw [((isSiso_iff G).mp hs).2] at this
        omega
    · rintro (⟨-, h⟩ | ⟨h, -⟩)
      · exact Or.inl h
      · exact absurd h (by simp)

theorem mulArray_shape {G R : DSS K} {q r : Nat} {M : Matrix (Fin q) (Fin r) K}
    (h : G.mulArray q r M = .ok R) :
    R.n = (if G.isSiso then q * G.n else G.n) ∧ R.p = (if G.isSiso then q else G.p) ∧ R.m = r ∧
      R.dt = G.dt := by
  rw [mulArray_eq, Except.bind_eq_ok_iff] at h
  obtain ⟨G', hG', h⟩ := h
  obtain ⟨-, hn, hp, hm, hdt⟩ := mulArrayCore_shape h
  cases hs : G.isSiso
  · simp only [hs, Bool.false_eq_true, if_false, Except.ok.injEq] at hG' ⊢
    subst hG'
    exact ⟨hn, hp, hm, hdt⟩
  · simp only [hs, if_true] at hG' ⊢
    obtain ⟨hn', hp', -, hdt'⟩ := appendN_shape hG'
    rw [((isSiso_iff G).mp hs).1] at hp'
    exact ⟨by rw [hn, hn'], by rw [hp, hp', Nat.mul_one], hm, by rw [hdt, hdt']⟩

/-- `self * M` responds with `Y * M`. -/
theorem mulArray_resp {G R : DSS K} {s : K} {p q r : Nat} {Y : Matrix (Fin p) (Fin q) K}
    {M : Matrix (Fin q) (Fin r) K} (hG : G.Resp s p q Y) (hR : G.mulArray q r M = .ok R) :
    R.Resp s p r (Y * M) := by
  rw [mulArray_eq] at hR
  cases hs : G.isSiso
  · simp only [hs, Bool.false_eq_true, if_false, Except.bind] at hR
    exact mulArrayCore_resp hG hR
  · obtain ⟨hp, hm⟩ := hG.dims
    obtain ⟨hp1, hm1⟩ := (isSiso_iff G).mp hs
    have hq : q = 1 := by omega
    subst hq
    simp only [hs, if_true, appendN, pure, Except.pure, Except.bind] at hR
    exact mulArrayCore_resp hG hR

/-- `self * M` for a SISO `self` (broadcast to the rows of `M`) responds with `y • M`. -/
theorem mulArray_resp_bc {G R : DSS K} {s : K} {q r : Nat} {y : Matrix (Fin 1) (Fin 1) K}
    {M : Matrix (Fin q) (Fin r) K} (hG : G.Resp s 1 1 y) (hR : G.mulArray q r M = .ok R) :
    R.Resp s q r (y 0 0 • M) := by
  have hs : G.isSiso = true := (isSiso_iff G).mpr hG.dims
  rw [mulArray_eq, hs, if_pos rfl, Except.bind_eq_ok_iff] at hR
  obtain ⟨G', hG', hR⟩ := hR
  have := mulArrayCore_resp (appendN_resp hG hG') hR
  rwa [Matrix.smul_mul, Matrix.one_mul] at this

theorem rmulArrayCore_error_iff (G : DSS K) (q r : Nat) (M : Matrix (Fin q) (Fin r) K) (e : Err) :
    rmulArrayCore G q r M = .error e ↔ G.p ≠ r ∧ e = .shape := by
  unfold rmulArrayCore
  split <;> simp_all [eq_comm]

theorem rmulArrayCore_shape {G R : DSS K} {q r : Nat} {M : Matrix (Fin q) (Fin r) K}
    (h : rmulArrayCore G q r M = .ok R) : G.p = r ∧ R.n = G.n ∧ R.p = q ∧ R.m = G.m ∧ R.dt = G.dt := by
  unfold rmulArrayCore at h
  split at h
  · simp only [Except.ok.injEq] at h
    subst h
    exact ⟨by assumption, rfl, rfl, rfl, rfl⟩
  · cases h

theorem rmulArrayCore_resp {G R : DSS K} {s : K} {q r m : Nat} {Y : Matrix (Fin r) (Fin m) K}
    {M : Matrix (Fin q) (Fin r) K} (hG : G.Resp s r m Y) (hR : rmulArrayCore G q r M = .ok R) :
    R.Resp s q m (M * Y) := by
  obtain ⟨n, sys, dt, rfl, hG'⟩ := resp_cases hG
  simp only [rmulArrayCore, dif_pos, Except.ok.injEq] at hR
  subst hR
  rw [Resp_mk, SS.castIO_rfl]
  exact C02.constMul_resp M sys s hG'

/-- `M * self` raises exactly when a SISO `self` is to be broadcast to zero channels, or the
(non-SISO) `self` has a number of outputs different from the columns of `M`. -/
theorem rmulArray_error_iff (G : DSS K) (q r : Nat) (M : Matrix (Fin q) (Fin r) K) (e : Err) :
    G.rmulArray q r M = .error e ↔
      (G.isSiso = true ∧ r = 0 ∧ e = .badArg) ∨ (G.isSiso = false ∧ G.p ≠ r ∧ e = .shape) := by
  rw [rmulArray_eq]
  cases hs : G.isSiso
  · simp [Except.bind, rmulArrayCore_error_iff]
  · simp only [if_true, Except.bind_eq_error_iff, appendN_error_iff, rmulArrayCore_error_iff]
    constructor
    · rintro (h | ⟨a, ha, hm, -⟩)
      · exact Or.inl ⟨trivial, h⟩
      · exfalso
        have := (appendN_shape ha).2.1
        rw [((isSiso_iff G).mp hs).1] at this
        omega
    · rintro (⟨-, h⟩ | ⟨h, -⟩)
      · exact Or.inl h
      · exact absurd h (by simp)

theorem rmulArray_shape {G R : DSS K} {q r : Nat} {M : Matrix (Fin q) (Fin r) K}
    (h : G.rmulArray q r M = .ok R) :
    R.n = (if G.isSiso then r * G.n else G.n) ∧ R.p = q ∧ R.m = (if G.isSiso then r else G.m) ∧
      R.dt = G.dt := by
  rw [rmulArray_eq, Except.bind_eq_ok_iff] at h
  obtain ⟨G', hG', h⟩ := h
  obtain ⟨-, hn, hp, hm, hdt⟩ := rmulArrayCore_shape h
  cases hs : G.isSiso
  · simp only [hs, Bool.false_eq_true, if_false, Except.ok.injEq] at hG' ⊢
    subst hG'
    exact ⟨hn, hp, hm, hdt⟩
  · simp only [hs, if_true] at hG' ⊢
    obtain ⟨hn', -, hm', hdt'⟩ := appendN_shape hG'
    rw [((isSiso_iff G).mp hs).2] at hm'
    exact ⟨by rw [hn, hn'], hp, by rw [hm, hm', Nat.mul_one], by rw [hdt, hdt']⟩

/-- `M * self` responds with `M * Y`. -/
theorem rmulArray_resp {G R : DSS K} {s : K} {q r m : Nat} {Y : Matrix (Fin r) (Fin m) K}
    {M : Matrix (Fin q) (Fin r) K} (hG : G.Resp s r m Y) (hR : G.rmulArray q r M = .ok R) :
    R.Resp s q m (M * Y) := by
  rw [rmulArray_eq] at hR
  cases hs : G.isSiso
  · simp only [hs, Bool.false_eq_true, if_false, Except.bind] at hR
    exact rmulArrayCore_resp hG hR
  · obtain ⟨hp, hm⟩ := hG.dims
    obtain ⟨hp1, hm1⟩ := (isSiso_iff G).mp hs
    have hq : r = 1 := by omega
    subst hq
    simp only [hs, if_true, appendN, pure, Except.pure, Except.bind] at hR
    exact rmulArrayCore_resp hG hR

/-- `M * self` for a SISO `self` (broadcast to the columns of `M`) responds with `y • M`. -/
theorem rmulArray_resp_bc {G R : DSS K} {s : K} {q r : Nat} {y : Matrix (Fin 1) (Fin 1) K}
    {M : Matrix (Fin q) (Fin r) K} (hG : G.Resp s 1 1 y) (hR : G.rmulArray q r M = .ok R) :
    R.Resp s q r (y 0 0 • M) := by
  have hs : G.isSiso = true := (isSiso_iff G).mpr hG.dims
  rw [rmulArray_eq, hs, if_pos rfl, Except.bind_eq_ok_iff] at hR
  obtain ⟨G', hG', hR⟩ := hR
  have := rmulArrayCore_resp (appendN_resp hG hG') hR
  rwa [Matrix.mul_smul, Matrix.mul_one] at this

/-- `np.ones((q, r)) * g` for a SISO `g` raises exactly for `r = 0`. -/
theorem onesTimes_error_iff {g : DSS K} (hs : g.isSiso = true) (q r : Nat) (e : Err) :
    onesTimes q r g = .error e ↔ r = 0 ∧ e = .badArg := by
  exact (rmulArray_error_iff g q r _ e).trans (by simp [hs])

theorem onesTimes_shape {g R : DSS K} (hs : g.isSiso = true) {q r : Nat}
    (h : onesTimes q r g = .ok R) : R.n = r * g.n ∧ R.p = q ∧ R.m = r ∧ R.dt = g.dt := by
  have := rmulArray_shape h
  simpa [hs] using this

/-- `np.ones((q, r)) * g` for a SISO `g`: every entry is `g`. -/
theorem onesTimes_resp {g R : DSS K} {s : K} {q r : Nat} {y : Matrix (Fin 1) (Fin 1) K}
    (hg : g.Resp s 1 1 y) (h : onesTimes q r g = .ok R) : R.Resp s q r (bc q r y) := by
  have := rmulArray_resp_bc hg h
  convert this using 1
  ext i j
  change y 0 0 = y 0 0 * 1
  rw [mul_one]

/-! ### `__mul__` / `__rmul__` of two systems -/

theorem mulCore_error_iff (G H : DSS K) (e : Err) :
    mulCore G H = .error e ↔
      (G.m ≠ H.p ∧ e = .shape) ∨ (G.m = H.p ∧ common G.dt H.dt = .error e) := by
  unfold mulCore
  split
  · rename_i h
    rw [Except.bind_eq_error_iff]
    simp [h]
  · rename_i h
    simp [h, eq_comm]

theorem mulCore_shape {G H R : DSS K} (h : mulCore G H = .ok R) :
    G.m = H.p ∧ R.n = H.n + G.n ∧ R.p = G.p ∧ R.m = H.m ∧ common G.dt H.dt = .ok R.dt := by
  unfold mulCore at h
  split at h
  · rename_i hd
    rw [Except.bind_eq_ok_iff] at h
    obtain ⟨d, hd', h⟩ := h
    simp only [Except.ok.injEq] at h
    subst h
    exact ⟨hd, rfl, rfl, rfl, hd'⟩
  · cases h

/-- the series connection without broadcasting: the typed `SS.mul`, states re-typed. -/
theorem mulCore_resp {G H R : DSS K} {s : K} {p k m : Nat} {Y₁ : Matrix (Fin p) (Fin k) K}
    {Y₂ : Matrix (Fin k) (Fin m) K} (hG : G.Resp s p k Y₁) (hH : H.Resp s k m Y₂)
    (hR : mulCore G H = .ok R) : R.Resp s p m (Y₁ * Y₂) := by
  obtain ⟨n, sys, dt, rfl, hG'⟩ := resp_cases hG
  obtain ⟨n', sys', dt', rfl, hH'⟩ := resp_cases hH
  simp only [mulCore, dif_pos] at hR
  rw [Except.bind_eq_ok_iff] at hR
  obtain ⟨d, -, hR⟩ := hR
  simp only [Except.ok.injEq] at hR
  subst hR
  rw [Resp_mk, SS.Resp_flatS, SS.castIO_rfl]
  exact C02.mul_resp sys sys' s hG' hH'

/-- no broadcasting happens when both operands are SISO or both are not. -/
theorem mulSS_same {G H : DSS K} (h : G.isSiso = H.isSiso) : mulSS G H = mulCore G H := by
  rw [mulSS_eq, h]
  cases H.isSiso <;> simp [Except.bind]

/-- a SISO left operand is broadcast to the outputs of the right operand. -/
theorem mulSS_promoL {G H : DSS K} (hG : G.isSiso = true) (hH : H.isSiso = false) :
    mulSS G H = (appendN G H.p).bind fun G' => mulCore G' H := by
  rw [mulSS_eq, hG, hH]
  simp only [Bool.not_false, Bool.and_self, if_true, Bool.not_true, Bool.and_false,
    Bool.false_eq_true, if_false]
  cases appendN G H.p <;> simp [Except.bind]

/-- a SISO right operand is broadcast to the inputs of the left operand. -/
theorem mulSS_promoR {G H : DSS K} (hG : G.isSiso = false) (hH : H.isSiso = true) :
    mulSS G H = (appendN H G.m).bind fun H' => mulCore G H' := by
  rw [mulSS_eq, hG, hH]
  simp [Except.bind]

/-- `G * H` raises exactly when: a SISO operand is to be broadcast to zero channels (`badArg`);
or (no broadcasting) the inputs of `G` are not the outputs of `H` (`shape`); or the timebases are
incompatible (`timebase`, the error of `common`). -/
theorem mulSS_error_iff (G H : DSS K) (e : Err) :
    mulSS G H = .error e ↔
      (G.isSiso = true ∧ H.isSiso = false ∧ H.p = 0 ∧ e = .badArg) ∨
      (G.isSiso = false ∧ H.isSiso = true ∧ G.m = 0 ∧ e = .badArg) ∨
      (G.isSiso = H.isSiso ∧ G.m ≠ H.p ∧ e = .shape) ∨
      ((G.isSiso = true → H.isSiso = false → H.p ≠ 0) ∧
        (G.isSiso = false → H.isSiso = true → G.m ≠ 0) ∧
        (G.isSiso = H.isSiso → G.m = H.p) ∧ common G.dt H.dt = .error e) := by
  cases hG : G.isSiso <;> cases hH : H.isSiso
  · rw [mulSS_same (by rw [hG, hH]), mulCore_error_iff]
    simp
  · rw [mulSS_promoR hG hH, Except.bind_eq_error_iff, appendN_error_iff]
    simp only [Bool.false_eq_true, false_and, true_and, false_or, or_false, ne_eq,
      not_false_eq_true, forall_const, IsEmpty.forall_iff, false_implies, true_implies]
    constructor
    · rintro (h | ⟨a, ha, h⟩)
      · exact Or.inl h
      · obtain ⟨-, hp, -, hdt⟩ := appendN_shape ha
        rw [mulCore_error_iff, hp, ((isSiso_iff H).mp hH).1, Nat.mul_one, hdt] at h
        rcases h with ⟨h, -⟩ | ⟨-, h⟩
        · exact absurd rfl h
        · refine Or.inr ⟨?_, h⟩
          rintro h0
          rw [h0] at ha
          simp [appendN] at ha
    · rintro (h | ⟨h0, h⟩)
      · exact Or.inl h
      · obtain ⟨a, ha, -, hp, -, hdt⟩ := appendN_ok H G.m h0
        refine Or.inr ⟨a, ha, ?_⟩
        rw [mulCore_error_iff, hp, ((isSiso_iff H).mp hH).1, Nat.mul_one, hdt]
        exact Or.inr ⟨rfl, h⟩
  · rw [mulSS_promoL hG hH, Except.bind_eq_error_iff, appendN_error_iff]
    simp only [Bool.false_eq_true, false_and, true_and, false_or, or_false, ne_eq,
      not_false_eq_true, forall_const, IsEmpty.forall_iff, false_implies, true_implies,
      Bool.true_eq_false]
    constructor
    · rintro (h | ⟨a, ha, h⟩)
      · exact Or.inl h
      · obtain ⟨-, -, hm, hdt⟩ := appendN_shape ha
        rw [mulCore_error_iff, hm, ((isSiso_iff G).mp hG).2, Nat.mul_one, hdt] at h
        rcases h with ⟨h, -⟩ | ⟨-, h⟩
        · exact absurd rfl h
        · refine Or.inr ⟨?_, h⟩
          rintro h0
          rw [h0] at ha
          simp [appendN] at ha
    · rintro (h | ⟨h0, h⟩)
      · exact Or.inl h
      · obtain ⟨a, ha, -, -, hm, hdt⟩ := appendN_ok G H.p h0
        refine Or.inr ⟨a, ha, ?_⟩
        rw [mulCore_error_iff, hm, ((isSiso_iff G).mp hG).2, Nat.mul_one, hdt]
        exact Or.inr ⟨rfl, h⟩
  · rw [mulSS_same (by rw [hG, hH]), mulCore_error_iff]
    simp

/-- when `G * H` returns: the states are those of `H` followed by those of `G` (a broadcast SISO
operand contributes one copy per channel), outputs of `G` / inputs of `H` (of the other operand
for a broadcast one), common timebase. -/
theorem mulSS_shape {G H R : DSS K} (h : mulSS G H = .ok R) :
    R.n = (if !G.isSiso && H.isSiso then G.m * H.n else H.n)
        + (if G.isSiso && !H.isSiso then H.p * G.n else G.n) ∧
    R.p = (if G.isSiso && !H.isSiso then H.p else G.p) ∧
    R.m = (if !G.isSiso && H.isSiso then G.m else H.m) ∧ common G.dt H.dt = .ok R.dt := by
  cases hG : G.isSiso <;> cases hH : H.isSiso
  · rw [mulSS_same (by rw [hG, hH])] at h
    obtain ⟨-, h1, h2, h3, h4⟩ := mulCore_shape h
    simpa using ⟨h1, h2, h3, h4⟩
  · rw [mulSS_promoR hG hH, Except.bind_eq_ok_iff] at h
    obtain ⟨a, ha, h⟩ := h
    obtain ⟨hn, -, hm, hdt⟩ := appendN_shape ha
    obtain ⟨-, h1, h2, h3, h4⟩ := mulCore_shape h
    rw [hn, hm, ((isSiso_iff H).mp hH).2, Nat.mul_one, hdt] at *
    simpa using ⟨h1, h2, h3, h4⟩
  · rw [mulSS_promoL hG hH, Except.bind_eq_ok_iff] at h
    obtain ⟨a, ha, h⟩ := h
    obtain ⟨hn, hp, -, hdt⟩ := appendN_shape ha
    obtain ⟨-, h1, h2, h3, h4⟩ := mulCore_shape h
    rw [hn, hp, ((isSiso_iff G).mp hG).1, Nat.mul_one, hdt] at *
    simpa using ⟨h1, h2, h3, h4⟩
  · rw [mulSS_same (by rw [hG, hH])] at h
    obtain ⟨-, h1, h2, h3, h4⟩ := mulCore_shape h
    simpa using ⟨h1, h2, h3, h4⟩

/-- `G * H` responds with the product `Y₁ * Y₂`. -/
theorem mulSS_resp {G H R : DSS K} {s : K} {p k m : Nat} {Y₁ : Matrix (Fin p) (Fin k) K}
    {Y₂ : Matrix (Fin k) (Fin m) K} (hG : G.Resp s p k Y₁) (hH : H.Resp s k m Y₂)
    (hR : mulSS G H = .ok R) : R.Resp s p m (Y₁ * Y₂) := by
  obtain ⟨hGp, hGm⟩ := hG.dims
  obtain ⟨hHp, hHm⟩ := hH.dims
  cases hsG : G.isSiso <;> cases hsH : H.isSiso
  · rw [mulSS_same (by rw [hsG, hsH])] at hR
    exact mulCore_resp hG hH hR
  · have : G.m = 1 := by rw [hGm, ← hHp]; exact ((isSiso_iff H).mp hsH).1
    rw [mulSS_promoR hsG hsH, this] at hR
    exact mulCore_resp hG hH hR
  · have : H.p = 1 := by rw [hHp, ← hGm]; exact ((isSiso_iff G).mp hsG).2
    rw [mulSS_promoL hsG hsH, this] at hR
    exact mulCore_resp hG hH hR
  · rw [mulSS_same (by rw [hsG, hsH])] at hR
    exact mulCore_resp hG hH hR

/-- a SISO `G` times any `H`: `y • Y₂` (the SISO factor is broadcast to `y • I`). -/
theorem mulSS_resp_bcL {G H R : DSS K} {s : K} {p m : Nat} {y : Matrix (Fin 1) (Fin 1) K}
    {Y₂ : Matrix (Fin p) (Fin m) K} (hG : G.Resp s 1 1 y) (hH : H.Resp s p m Y₂)
    (hR : mulSS G H = .ok R) : R.Resp s p m (y 0 0 • Y₂) := by
  have hsG : G.isSiso = true := (isSiso_iff G).mpr hG.dims
  cases hsH : H.isSiso
  · rw [mulSS_promoL hsG hsH, hH.dims.1, Except.bind_eq_ok_iff] at hR
    obtain ⟨a, ha, hR⟩ := hR
    have := mulCore_resp (appendN_resp hG ha) hH hR
    rwa [Matrix.smul_mul, Matrix.one_mul] at this
  · obtain ⟨hp, hm⟩ := hH.dims
    obtain ⟨hp1, hm1⟩ := (isSiso_iff H).mp hsH
    have hp' : p = 1 := by omega
    have hm' : m = 1 := by omega
    subst hp' hm'
    rw [mulSS_same (by rw [hsG, hsH])] at hR
    have := mulCore_resp hG hH hR
    rw [one_by_one_eq_smul y, Matrix.smul_mul, Matrix.one_mul] at this
    simpa using this

/-- any `G` times a SISO `H`: `y • Y₁`. -/
theorem mulSS_resp_bcR {G H R : DSS K} {s : K} {p m : Nat} {y : Matrix (Fin 1) (Fin 1) K}
    {Y₁ : Matrix (Fin p) (Fin m) K} (hG : G.Resp s p m Y₁) (hH : H.Resp s 1 1 y)
    (hR : mulSS G H = .ok R) : R.Resp s p m (y 0 0 • Y₁) := by
  have hsH : H.isSiso = true := (isSiso_iff H).mpr hH.dims
  cases hsG : G.isSiso
  · rw [mulSS_promoR hsG hsH, hG.dims.2, Except.bind_eq_ok_iff] at hR
    obtain ⟨a, ha, hR⟩ := hR
    have := mulCore_resp hG (appendN_resp hH ha) hR
    rwa [Matrix.mul_smul, Matrix.mul_one] at this
  · obtain ⟨hp, hm⟩ := hG.dims
    obtain ⟨hp1, hm1⟩ := (isSiso_iff G).mp hsG
    have hp' : p = 1 := by omega
    have hm' : m = 1 := by omega
    subst hp' hm'
    rw [mulSS_same (by rw [hsG, hsH])] at hR
    have := mulCore_resp hG hH hR
    rw [one_by_one_eq_smul y, Matrix.mul_smul, Matrix.mul_one] at this
    simpa using this

/-- `mulSS` does not broadcast a SISO right operand any further when the left operand has one
input (the broadcast is then the identity). -/
theorem mulSS_eq_core_of_left {G H : DSS K} (hG : G.isSiso = false) (hH : H.isSiso = true → G.m = 1) :
    mulSS G H = mulCore G H := by
  cases hsH : H.isSiso
  · exact mulSS_same (by rw [hG, hsH])
  · rw [mulSS_promoR hG hsH, hH hsH]
    rfl

theorem mulSS_eq_core_of_right {G H : DSS K} (hH : H.isSiso = false) (hG : G.isSiso = true → H.p = 1) :
    mulSS G H = mulCore G H := by
  cases hsG : G.isSiso
  · exact mulSS_same (by rw [hH, hsG])
  · rw [mulSS_promoL hsG hH, hG hsG]
    rfl

/-- **`__rmul__` is `__mul__` with the operands exchanged**: the broadcasting `rmulSS` does before
calling `mulSS` is the one `mulSS` would do. -/
theorem rmulSS_eq_mulSS (self other : DSS K) : rmulSS self other = mulSS other self := by
  rw [rmulSS_eq]
  cases hs : self.isSiso <;> cases ho : other.isSiso
  · simp [Except.bind]
  · -- `other` SISO is broadcast to the outputs of `self`
    simp only [Bool.false_eq_true, Bool.not_true, Bool.and_false, Bool.not_false, Bool.and_self,
      if_true, if_false, Bool.and_true, Bool.true_and]
    rw [mulSS_promoL ho hs]
    simp only [Except.bind]
    cases ha : appendN other self.p with
    | error e => rfl
    | ok a =>
      simp only
      apply mulSS_eq_core_of_right hs
      intro hsa
      have := (appendN_shape ha).2.2.1
      rw [((isSiso_iff a).mp hsa).2, ((isSiso_iff other).mp ho).2] at this
      omega
  · simp only [Bool.false_eq_true, Bool.not_true, Bool.and_false, Bool.not_false, Bool.and_self,
      if_true, if_false, Bool.and_true, Bool.true_and]
    rw [mulSS_promoR ho hs]
    simp only [Except.bind]
    cases ha : appendN self other.m with
    | error e => rfl
    | ok a =>
      simp only
      apply mulSS_eq_core_of_left ho
      intro hsa
      have := (appendN_shape ha).2.1
      rw [((isSiso_iff a).mp hsa).1, ((isSiso_iff self).mp hs).1] at this
      omega
  · simp [Except.bind]

theorem rmulSS_error_iff (self other : DSS K) (e : Err) :
    rmulSS self other = .error e ↔
      (other.isSiso = true ∧ self.isSiso = false ∧ self.p = 0 ∧ e = .badArg) ∨
      (other.isSiso = false ∧ self.isSiso = true ∧ other.m = 0 ∧ e = .badArg) ∨
      (other.isSiso = self.isSiso ∧ other.m ≠ self.p ∧ e = .shape) ∨
      ((other.isSiso = true → self.isSiso = false → self.p ≠ 0) ∧
        (other.isSiso = false → self.isSiso = true → other.m ≠ 0) ∧
        (other.isSiso = self.isSiso → other.m = self.p) ∧ common other.dt self.dt = .error e) := by
  rw [rmulSS_eq_mulSS]; exact mulSS_error_iff other self e

theorem rmulSS_shape {self other R : DSS K} (h : rmulSS self other = .ok R) :
    R.n = (if !other.isSiso && self.isSiso then other.m * self.n else self.n)
        + (if other.isSiso && !self.isSiso then self.p * other.n else other.n) ∧
    R.p = (if other.isSiso && !self.isSiso then self.p else other.p) ∧
    R.m = (if !other.isSiso && self.isSiso then other.m else self.m) ∧
    common other.dt self.dt = .ok R.dt := by
  rw [rmulSS_eq_mulSS] at h; exact mulSS_shape h

/-- `other * self` responds with `Y_other * Y_self`. -/
theorem rmulSS_resp {self other R : DSS K} {s : K} {p k m : Nat} {Y₁ : Matrix (Fin p) (Fin k) K}
    {Y₂ : Matrix (Fin k) (Fin m) K} (ho : other.Resp s p k Y₁) (hs : self.Resp s k m Y₂)
    (hR : rmulSS self other = .ok R) : R.Resp s p m (Y₁ * Y₂) := by
  rw [rmulSS_eq_mulSS] at hR; exact mulSS_resp ho hs hR

/-! ### `__add__` of two systems, `self + M` -/

theorem addCore_error_iff (G H : DSS K) (e : Err) :
    addCore G H = .error e ↔
      (¬ (G.m = H.m ∧ G.p = H.p) ∧ e = .shape) ∨
        (G.m = H.m ∧ G.p = H.p ∧ common G.dt H.dt = .error e) := by
  unfold addCore
  split
  · rename_i h
    rw [Except.bind_eq_error_iff]
    simp [h]
  · rename_i h
    simp only [Except.error.injEq]
    constructor
    · intro he; exact Or.inl ⟨h, he.symm⟩
    · rintro (⟨-, he⟩ | ⟨h1, h2, -⟩)
      · exact he.symm
      · exact absurd ⟨h1, h2⟩ h

theorem addCore_shape {G H R : DSS K} (h : addCore G H = .ok R) :
    G.m = H.m ∧ G.p = H.p ∧ R.n = G.n + H.n ∧ R.p = G.p ∧ R.m = G.m ∧
      common G.dt H.dt = .ok R.dt := by
  unfold addCore at h
  split at h
  · rename_i hd
    rw [Except.bind_eq_ok_iff] at h
    obtain ⟨d, hd', h⟩ := h
    simp only [Except.ok.injEq] at h
    subst h
    exact ⟨hd.1, hd.2, rfl, rfl, rfl, hd'⟩
  · cases h

/-- the parallel connection without broadcasting: the typed `SS.add`, states re-typed. -/
theorem addCore_resp {G H R : DSS K} {s : K} {p m : Nat} {Y₁ Y₂ : Matrix (Fin p) (Fin m) K}
    (hG : G.Resp s p m Y₁) (hH : H.Resp s p m Y₂) (hR : addCore G H = .ok R) :
    R.Resp s p m (Y₁ + Y₂) := by
  obtain ⟨n, sys, dt, rfl, hG'⟩ := resp_cases hG
  obtain ⟨n', sys', dt', rfl, hH'⟩ := resp_cases hH
  simp only [addCore, and_self, dif_pos] at hR
  rw [Except.bind_eq_ok_iff] at hR
  obtain ⟨d, -, hR⟩ := hR
  simp only [Except.ok.injEq] at hR
  subst hR
  rw [Resp_mk, SS.Resp_flatS, SS.castIO_rfl]
  exact C02.add_resp sys sys' s hG' hH'

theorem addSS_same {G H : DSS K} (h : G.isSiso = H.isSiso) : addSS G H = addCore G H := by
  rw [addSS_eq, h]
  cases H.isSiso <;> simp [Except.bind]

/-- a SISO left operand is broadcast to the shape of the right operand (`np.ones(...) * G`). -/
theorem addSS_promoL {G H : DSS K} (hG : G.isSiso = true) (hH : H.isSiso = false) :
    addSS G H = (onesTimes H.p H.m G).bind fun G' => addCore G' H := by
  rw [addSS_eq, hG, hH]
  simp only [Bool.not_false, Bool.and_self, if_true, Bool.not_true, Bool.and_false,
    Bool.false_eq_true, if_false]
  cases onesTimes H.p H.m G <;> simp [Except.bind]

theorem addSS_promoR {G H : DSS K} (hG : G.isSiso = false) (hH : H.isSiso = true) :
    addSS G H = (onesTimes G.p G.m H).bind fun H' => addCore G H' := by
  rw [addSS_eq, hG, hH]
  simp [Except.bind]

/-- `G + H` raises exactly when: a SISO operand is to be broadcast to a shape without inputs
(`badArg`); or (no broadcasting) the shapes differ (`shape`); or the timebases are incompatible. -/
theorem addSS_error_iff (G H : DSS K) (e : Err) :
    addSS G H = .error e ↔
      (G.isSiso = true ∧ H.isSiso = false ∧ H.m = 0 ∧ e = .badArg) ∨
      (G.isSiso = false ∧ H.isSiso = true ∧ G.m = 0 ∧ e = .badArg) ∨
      (G.isSiso = H.isSiso ∧ ¬ (G.m = H.m ∧ G.p = H.p) ∧ e = .shape) ∨
      ((G.isSiso = true → H.isSiso = false → H.m ≠ 0) ∧
        (G.isSiso = false → H.isSiso = true → G.m ≠ 0) ∧
        (G.isSiso = H.isSiso → G.m = H.m ∧ G.p = H.p) ∧ common G.dt H.dt = .error e) := by
  cases hG : G.isSiso <;> cases hH : H.isSiso
  · rw [addSS_same (by rw [hG, hH]), addCore_error_iff]
    simp [and_assoc]
  · rw [addSS_promoR hG hH, Except.bind_eq_error_iff, onesTimes_error_iff hH]
    simp only [Bool.false_eq_true, false_and, true_and, false_or, or_false, ne_eq,
      not_false_eq_true, forall_const, IsEmpty.forall_iff, false_implies, true_implies]
    constructor
    · rintro (h | ⟨a, ha, h⟩)
      · exact Or.inl h
      · obtain ⟨-, hp, hm, hdt⟩ := onesTimes_shape hH ha
        rw [addCore_error_iff, hp, hm, hdt] at h
        rcases h with ⟨h, -⟩ | ⟨-, -, h⟩
        · exact absurd ⟨rfl, rfl⟩ h
        · refine Or.inr ⟨?_, h⟩
          rintro h0
          have := (onesTimes_error_iff hH G.p G.m .badArg).mpr ⟨h0, rfl⟩
          rw [ha] at this; cases this
    · rintro (h | ⟨h0, h⟩)
      · exact Or.inl h
      · cases ha : onesTimes G.p G.m H with
        | error e' => exact absurd ((onesTimes_error_iff hH _ _ _).mp ha).1 h0
        | ok a =>
          obtain ⟨-, hp, hm, hdt⟩ := onesTimes_shape hH ha
          refine Or.inr ⟨a, rfl, ?_⟩
          rw [addCore_error_iff, hp, hm, hdt]
          exact Or.inr ⟨rfl, rfl, h⟩
  · rw [addSS_promoL hG hH, Except.bind_eq_error_iff, onesTimes_error_iff hG]
    simp only [Bool.false_eq_true, false_and, true_and, false_or, or_false, ne_eq,
      not_false_eq_true, forall_const, IsEmpty.forall_iff, false_implies, true_implies,
      Bool.true_eq_false]
    constructor
    · rintro (h | ⟨a, ha, h⟩)
      · exact Or.inl h
      · obtain ⟨-, hp, hm, hdt⟩ := onesTimes_shape hG ha
        rw [addCore_error_iff, hp, hm, hdt] at h
        rcases h with ⟨h, -⟩ | ⟨-, -, h⟩
        · exact absurd ⟨rfl, rfl⟩ h
        · refine Or.inr ⟨?_, h⟩
          rintro h0
          have := (onesTimes_error_iff hG H.p H.m .badArg).mpr ⟨h0, rfl⟩
          rw [ha] at this; cases this
    · rintro (h | ⟨h0, h⟩)
      · exact Or.inl h
      · cases ha : onesTimes H.p H.m G with
        | error e' => exact absurd ((onesTimes_error_iff hG _ _ _).mp ha).1 h0
        | ok a =>
          obtain ⟨-, hp, hm, hdt⟩ := onesTimes_shape hG ha
          refine Or.inr ⟨a, rfl, ?_⟩
          rw [addCore_error_iff, hp, hm, hdt]
          exact Or.inr ⟨rfl, rfl, h⟩
  · rw [addSS_same (by rw [hG, hH]), addCore_error_iff]
    simp [and_assoc]

/-- when `G + H` returns: the states are those of `G` followed by those of `H` (a broadcast SISO
operand contributes one copy per input of the other operand), the shape is the common shape (that
of the other operand for a broadcast one), common timebase. -/
theorem addSS_shape {G H R : DSS K} (h : addSS G H = .ok R) :
    R.n = (if G.isSiso && !H.isSiso then H.m * G.n else G.n)
        + (if !G.isSiso && H.isSiso then G.m * H.n else H.n) ∧
    R.p = (if G.isSiso && !H.isSiso then H.p else G.p) ∧
    R.m = (if G.isSiso && !H.isSiso then H.m else G.m) ∧ common G.dt H.dt = .ok R.dt := by
  cases hG : G.isSiso <;> cases hH : H.isSiso
  · rw [addSS_same (by rw [hG, hH])] at h
    obtain ⟨-, -, h1, h2, h3, h4⟩ := addCore_shape h
    simpa using ⟨h1, h2, h3, h4⟩
  · rw [addSS_promoR hG hH, Except.bind_eq_ok_iff] at h
    obtain ⟨a, ha, h⟩ := h
    obtain ⟨hn, hp, hm, hdt⟩ := onesTimes_shape hH ha
    obtain ⟨-, -, h1, h2, h3, h4⟩ := addCore_shape h
    rw [hn, hdt] at *
    simpa using ⟨h1, h2, h3, h4⟩
  · rw [addSS_promoL hG hH, Except.bind_eq_ok_iff] at h
    obtain ⟨a, ha, h⟩ := h
    obtain ⟨hn, hp, hm, hdt⟩ := onesTimes_shape hG ha
    obtain ⟨-, -, h1, h2, h3, h4⟩ := addCore_shape h
    rw [hn, hp, hm, hdt] at *
    simpa using ⟨h1, h2, h3, h4⟩
  · rw [addSS_same (by rw [hG, hH])] at h
    obtain ⟨-, -, h1, h2, h3, h4⟩ := addCore_shape h
    simpa using ⟨h1, h2, h3, h4⟩

/-- `G + H` for operands of the same shape responds with `Y₁ + Y₂`. -/
theorem addSS_resp {G H R : DSS K} {s : K} {p m : Nat} {Y₁ Y₂ : Matrix (Fin p) (Fin m) K}
    (hG : G.Resp s p m Y₁) (hH : H.Resp s p m Y₂) (hR : addSS G H = .ok R) :
    R.Resp s p m (Y₁ + Y₂) := by
  have hs : G.isSiso = H.isSiso := by
    unfold isSiso
    rw [hG.dims.1, hG.dims.2, hH.dims.1, hH.dims.2]
  rw [addSS_same hs] at hR
  exact addCore_resp hG hH hR

/-- a SISO `G` plus any `H`: the value of `G` is added to every entry. -/
theorem addSS_resp_bcL {G H R : DSS K} {s : K} {p m : Nat} {y : Matrix (Fin 1) (Fin 1) K}
    {Y₂ : Matrix (Fin p) (Fin m) K} (hG : G.Resp s 1 1 y) (hH : H.Resp s p m Y₂)
    (hR : addSS G H = .ok R) : R.Resp s p m (bc p m y + Y₂) := by
  have hsG : G.isSiso = true := (isSiso_iff G).mpr hG.dims
  cases hsH : H.isSiso
  · rw [addSS_promoL hsG hsH, hH.dims.1, hH.dims.2, Except.bind_eq_ok_iff] at hR
    obtain ⟨a, ha, hR⟩ := hR
    exact addCore_resp (onesTimes_resp hG ha) hH hR
  · obtain ⟨hp, hm⟩ := hH.dims
    obtain ⟨hp1, hm1⟩ := (isSiso_iff H).mp hsH
    have hp' : p = 1 := by omega
    have hm' : m = 1 := by omega
    subst hp' hm'
    rw [bc_one_one]
    exact addSS_resp hG hH hR

/-- any `G` plus a SISO `H`. -/
theorem addSS_resp_bcR {G H R : DSS K} {s : K} {p m : Nat} {y : Matrix (Fin 1) (Fin 1) K}
    {Y₁ : Matrix (Fin p) (Fin m) K} (hG : G.Resp s p m Y₁) (hH : H.Resp s 1 1 y)
    (hR : addSS G H = .ok R) : R.Resp s p m (Y₁ + bc p m y) := by
  have hsH : H.isSiso = true := (isSiso_iff H).mpr hH.dims
  cases hsG : G.isSiso
  · rw [addSS_promoR hsG hsH, hG.dims.1, hG.dims.2, Except.bind_eq_ok_iff] at hR
    obtain ⟨a, ha, hR⟩ := hR
    exact addCore_resp hG (onesTimes_resp hH ha) hR
  · obtain ⟨hp, hm⟩ := hG.dims
    obtain ⟨hp1, hm1⟩ := (isSiso_iff G).mp hsG
    have hp' : p = 1 := by omega
    have hm' : m = 1 := by omega
    subst hp' hm'
    rw [bc_one_one]
    exact addSS_resp hG hH hR

theorem addArrayCore_error_iff (G : DSS K) (q r : Nat) (M : Matrix (Fin q) (Fin r) K) (e : Err) :
    addArrayCore G q r M = .error e ↔ ¬ (G.p = q ∧ G.m = r) ∧ e = .shape := by
  unfold addArrayCore
  split
  · rename_i h; simp [h]
  · rename_i h
    simp only [Except.error.injEq]
    constructor
    · intro he; exact ⟨h, he.symm⟩
    · intro he; exact he.2.symm

theorem addArrayCore_shape {G R : DSS K} {q r : Nat} {M : Matrix (Fin q) (Fin r) K}
    (h : addArrayCore G q r M = .ok R) :
    G.p = q ∧ G.m = r ∧ R.n = G.n ∧ R.p = q ∧ R.m = r ∧ R.dt = G.dt := by
  unfold addArrayCore at h
  split at h
  · rename_i hd
    simp only [Except.ok.injEq] at h
    subst h
    exact ⟨hd.1, hd.2, rfl, hd.1, hd.2, rfl⟩
  · cases h

theorem addArrayCore_resp {G R : DSS K} {s : K} {q r : Nat} {Y M : Matrix (Fin q) (Fin r) K}
    (hG : G.Resp s q r Y) (hR : addArrayCore G q r M = .ok R) : R.Resp s q r (Y + M) := by
  obtain ⟨n, sys, dt, rfl, hG'⟩ := resp_cases hG
  simp only [addArrayCore, and_self, dif_pos, Except.ok.injEq, submatrix_cast_rfl] at hR
  subst hR
  rw [Resp_mk]
  exact C02.addConst_resp sys M s hG'

/-- `self + M` raises exactly when a SISO `self` is to be broadcast to a shape without columns, or
the (non-SISO) `self` has a shape different from that of `M`. -/
theorem addArray_error_iff (G : DSS K) (q r : Nat) (M : Matrix (Fin q) (Fin r) K) (e : Err) :
    G.addArray q r M = .error e ↔
      (G.isSiso = true ∧ r = 0 ∧ e = .badArg) ∨
        (G.isSiso = false ∧ ¬ (G.p = q ∧ G.m = r) ∧ e = .shape) := by
  rw [addArray_eq]
  cases hs : G.isSiso
  · simp [Except.bind, addArrayCore_error_iff]
  · simp only [if_true, Except.bind_eq_error_iff, onesTimes_error_iff hs, addArrayCore_error_iff]
    constructor
    · rintro (h | ⟨a, ha, hm, -⟩)
      · exact Or.inl ⟨trivial, h⟩
      · exfalso
        obtain ⟨-, hp, hm', -⟩ := onesTimes_shape hs ha
        exact hm ⟨hp, hm'⟩
    · rintro (⟨-, h⟩ | ⟨h, -⟩)
      · exact Or.inl h
      · exact absurd h (by simp)

theorem addArray_shape {G R : DSS K} {q r : Nat} {M : Matrix (Fin q) (Fin r) K}
    (h : G.addArray q r M = .ok R) :
    R.n = (if G.isSiso then r * G.n else G.n) ∧ R.p = q ∧ R.m = r ∧ R.dt = G.dt := by
  rw [addArray_eq, Except.bind_eq_ok_iff] at h
  obtain ⟨G', hG', h⟩ := h
  obtain ⟨-, -, hn, hp, hm, hdt⟩ := addArrayCore_shape h
  cases hs : G.isSiso
  · simp only [hs, Bool.false_eq_true, if_false, Except.ok.injEq] at hG' ⊢
    subst hG'
    exact ⟨hn, hp, hm, hdt⟩
  · simp only [hs, if_true] at hG' ⊢
    obtain ⟨hn', -, -, hdt'⟩ := onesTimes_shape hs hG'
    exact ⟨by rw [hn, hn'], hp, hm, by rw [hdt, hdt']⟩

/-- `self + M` for `self` of the shape of `M` responds with `Y + M`. -/
theorem addArray_resp {G R : DSS K} {s : K} {q r : Nat} {Y M : Matrix (Fin q) (Fin r) K}
    (hG : G.Resp s q r Y) (hR : G.addArray q r M = .ok R) : R.Resp s q r (Y + M) := by
  rw [addArray_eq] at hR
  cases hs : G.isSiso
  · simp only [hs, Bool.false_eq_true, if_false, Except.bind] at hR
    exact addArrayCore_resp hG hR
  · obtain ⟨hp, hm⟩ := hG.dims
    obtain ⟨hp1, hm1⟩ := (isSiso_iff G).mp hs
    have hq : q = 1 := by omega
    have hr : r = 1 := by omega
    subst hq hr
    rw [hs, if_pos rfl, Except.bind_eq_ok_iff] at hR
    obtain ⟨a, ha, hR⟩ := hR
    have := onesTimes_resp hG ha
    rw [bc_one_one] at this
    exact addArrayCore_resp this hR

/-- `self + M` for a SISO `self`: its value is added to every entry of `M`. -/
theorem addArray_resp_bc {G R : DSS K} {s : K} {q r : Nat} {y : Matrix (Fin 1) (Fin 1) K}
    {M : Matrix (Fin q) (Fin r) K} (hG : G.Resp s 1 1 y) (hR : G.addArray q r M = .ok R) :
    R.Resp s q r (bc q r y + M) := by
  have hs : G.isSiso = true := (isSiso_iff G).mpr hG.dims
  rw [addArray_eq, hs, if_pos rfl, Except.bind_eq_ok_iff] at hR
  obtain ⟨a, ha, hR⟩ := hR
  exact addArrayCore_resp (onesTimes_resp hG ha) hR

/-! ### `** -1`, `** k` -/

section inv
variable [DecidableEq K]

/-- `G ** -1` raises exactly when `G` is not square (`notImplemented`) or its direct term is
singular (`illPosed`). -/
theorem inv_error_iff (G : DSS K) (e : Err) :
    G.inv = .error e ↔
      (G.m ≠ G.p ∧ e = .notImplemented) ∨ (∃ h : G.m = G.p, (sqD G h).det = 0 ∧ e = .illPosed) := by
  rw [inv_eq]
  split
  · rename_i h
    split
    · rename_i hd
      simp only [Except.error.injEq]
      constructor
      · intro he; exact Or.inr ⟨h, hd, he.symm⟩
      · rintro (⟨h', -⟩ | ⟨_, -, he⟩)
        · exact absurd h h'
        · exact he.symm
    · rename_i hd
      constructor
      · intro he; cases he
      · rintro (⟨h', -⟩ | ⟨_, hd', -⟩)
        · exact absurd h h'
        · exact absurd hd' hd
  · rename_i h
    simp only [Except.error.injEq]
    constructor
    · intro he; exact Or.inl ⟨h, he.symm⟩
    · rintro (⟨-, he⟩ | ⟨h', -⟩)
      · exact he.symm
      · exact absurd h' h

theorem inv_shape {G R : DSS K} (h : G.inv = .ok R) :
    G.m = G.p ∧ R.n = G.n ∧ R.p = G.m ∧ R.m = G.p ∧ R.dt = G.dt := by
  rw [inv_eq] at h
  split at h
  · rename_i hd
    split at h
    · cases h
    · simp only [Except.ok.injEq] at h
      subst h
      exact ⟨hd, rfl, rfl, rfl, rfl⟩
  · cases h

/-- `G ** -1` responds with the inverse matrix of the response of `G` (wherever it exists). -/
theorem inv_resp {G R : DSS K} {s : K} {k : Nat} {Y Y' : Matrix (Fin k) (Fin k) K}
    (hG : G.Resp s k k Y) (hY : Y * Y' = 1) (hR : G.inv = .ok R) : R.Resp s k k Y' := by
  obtain ⟨n, sys, dt, rfl, hG'⟩ := resp_cases hG
  rw [inv_eq, dif_pos rfl] at hR
  split at hR
  · cases hR
  · rename_i hdet
    simp only [Except.ok.injEq] at hR
    subst hR
    rw [Resp_mk]
    simp only [sqD, cast_eq_id, Matrix.submatrix_id_id] at hdet ⊢
    exact C02.inv_resp_of_inverse sys _ (C02.invQ_spec _ hdet).1 s hG' hY

/-- on a square system `powNat` never raises; the states are `k` copies of those of `G`. -/
theorem powNat_ok (G : DSS K) (h : G.m = G.p) : ∀ k : Nat,
    ∃ R, powNat G k = .ok R ∧ R.n = k * G.n ∧ R.p = G.p ∧ R.m = G.m ∧ R.dt = G.dt
  | 0 => ⟨_, rfl, by simp, h, rfl, rfl⟩
  | 1 => ⟨G, rfl, by simp, rfl, rfl, rfl⟩
  | k + 2 => by
    obtain ⟨r, hr, hn, hp, hm, hdt⟩ := powNat_ok G h (k + 1)
    rw [powNat_succ G (k + 1) (by omega), hr]
    simp only [Except.bind]
    have hs : G.isSiso = r.isSiso := by unfold isSiso; rw [hp, hm]
    rw [mulSS_same hs]
    unfold mulCore
    rw [dif_pos (by rw [hp, h]), hdt, common_self]
    exact ⟨_, rfl, by simp [hn]; ring, rfl, hm, rfl⟩

/-- `G ** k`, `k ≥ 0` (`G * G ** (k-1)`, `G ** 0 = I`) responds with `Y ^ k`. -/
theorem powNat_resp {G : DSS K} {s : K} {n : Nat} {Y : Matrix (Fin n) (Fin n) K}
    (hG : G.Resp s n n Y) : ∀ {k : Nat} {R : DSS K}, powNat G k = .ok R → R.Resp s n n (Y ^ k)
  | 0, R, h => by
    obtain ⟨n', sys, dt, rfl, -⟩ := resp_cases hG
    simp only [powNat, pure, Except.pure, Except.ok.injEq] at h
    subst h
    rw [Resp_mk, pow_zero]
    exact C02.static_resp 1 s
  | 1, R, h => by
    simp only [powNat, pure, Except.pure, Except.ok.injEq] at h
    subst h
    rwa [pow_one]
  | k + 2, R, h => by
    rw [powNat_succ G (k + 1) (by omega), Except.bind_eq_ok_iff] at h
    obtain ⟨r, hr, h⟩ := h
    have := mulSS_resp hG (powNat_resp hG hr) h
    rwa [← pow_succ'] at this

theorem pow_ofNat {G : DSS K} (h : G.m = G.p) (k : Nat) : G.pow k = G.powNat k := by
  unfold DSS.pow
  rw [if_neg (by simp [h]), if_neg (by omega), if_neg (by omega)]
  simp

theorem pow_negSucc {G : DSS K} (h : G.m = G.p) (k : Nat) :
    G.pow (Int.negSucc k) = G.inv.bind fun gi => gi.powNat (k + 1) := by
  unfold DSS.pow
  rw [if_neg (by simp [h])]
  cases k with
  | zero =>
    rw [if_neg (by decide), if_pos (by decide)]
    cases G.inv <;> rfl
  | succ k =>
    rw [if_pos (by omega)]
    rfl

/-- `G ** k` raises exactly when `G` is not square (`notImplemented`, for every `k`) or `k < 0`
and the direct term is singular (`illPosed`). -/
theorem pow_error_iff (G : DSS K) (k : Int) (e : Err) :
    G.pow k = .error e ↔
      (G.m ≠ G.p ∧ e = .notImplemented) ∨
        (k < 0 ∧ ∃ h : G.m = G.p, (sqD G h).det = 0 ∧ e = .illPosed) := by
  by_cases h : G.m = G.p
  · cases k with
    | ofNat k =>
      rw [Int.ofNat_eq_natCast, pow_ofNat h]
      obtain ⟨R, hR, -⟩ := powNat_ok G h k
      rw [hR]
      simp [h]
    | negSucc k =>
      rw [pow_negSucc h, Except.bind_eq_error_iff, inv_error_iff]
      constructor
      · rintro ((⟨h', -⟩ | h') | ⟨gi, hgi, he⟩)
        · exact absurd h h'
        · exact Or.inr ⟨Int.negSucc_lt_zero k, h'⟩
        · obtain ⟨hsq, -, hp, hm, -⟩ := inv_shape hgi
          obtain ⟨R, hR, -⟩ := powNat_ok gi (by rw [hp, hm, hsq]) (k + 1)
          rw [hR] at he; cases he
      · rintro (⟨h', -⟩ | ⟨-, h'⟩)
        · exact absurd h h'
        · exact Or.inl (Or.inr h')
  · have : G.pow k = .error .notImplemented := by
      unfold DSS.pow; rw [if_pos h]
    rw [this]
    simp only [Except.error.injEq]
    constructor
    · intro he; exact Or.inl ⟨h, he.symm⟩
    · rintro (⟨-, he⟩ | ⟨-, h', -⟩)
      · exact he.symm
      · exact absurd h' h

/-- when `G ** k` returns: `|k|` copies of the states of `G`, the shape and timebase of `G`. -/
theorem pow_shape {G R : DSS K} {k : Int} (h : G.pow k = .ok R) :
    G.m = G.p ∧ R.n = k.natAbs * G.n ∧ R.p = G.p ∧ R.m = G.m ∧ R.dt = G.dt := by
  have hsq : G.m = G.p := by
    by_contra hne
    have : G.pow k = .error .notImplemented := by unfold DSS.pow; rw [if_pos hne]
    rw [this] at h; cases h
  refine ⟨hsq, ?_⟩
  cases k with
  | ofNat k =>
    rw [Int.ofNat_eq_natCast, pow_ofNat hsq] at h
    obtain ⟨R', hR', h'⟩ := powNat_ok G hsq k
    rw [hR'] at h; cases h
    simpa using h'
  | negSucc k =>
    rw [pow_negSucc hsq, Except.bind_eq_ok_iff] at h
    obtain ⟨gi, hgi, h⟩ := h
    obtain ⟨-, hn, hp, hm, hdt⟩ := inv_shape hgi
    obtain ⟨R', hR', h1, h2, h3, h4⟩ := powNat_ok gi (by rw [hp, hm, hsq]) (k + 1)
    rw [hR'] at h; cases h
    refine ⟨?_, by rw [h2, hp, hsq], by rw [h3, hm, hsq], by rw [h4, hdt]⟩
    rw [h1, hn]; rfl

/-- `G ** k` for every integer `k` responds with `Y ^ k` (for `k < 0`: where `Y` is
invertible). -/
theorem pow_resp {G R : DSS K} {s : K} {n : Nat} {Y : Matrix (Fin n) (Fin n) K}
    (hG : G.Resp s n n Y) (k : Int) (hk : 0 ≤ k ∨ IsUnit Y.det) (hR : G.pow k = .ok R) :
    R.Resp s n n (Y ^ k) := by
  have hsq : G.m = G.p := by rw [hG.dims.1, hG.dims.2]
  cases k with
  | ofNat k =>
    rw [Int.ofNat_eq_natCast, pow_ofNat hsq] at hR
    rw [Int.ofNat_eq_natCast, zpow_natCast]
    exact powNat_resp hG hR
  | negSucc k =>
    have hu : IsUnit Y.det := by
      rcases hk with hk | hk
      · exact absurd hk (by simp)
      · exact hk
    rw [pow_negSucc hsq, Except.bind_eq_ok_iff] at hR
    obtain ⟨gi, hgi, hR⟩ := hR
    rw [zpow_negSucc, ← Matrix.inv_pow']
    exact powNat_resp (inv_resp hG (Matrix.mul_nonsing_inv Y hu) hgi) hR

end inv

/-! ### `feedback` -/

section feedback
variable [DecidableEq K]

/-- `feedback` raises exactly when: the feedback path is not of the transposed shape (`shape`);
the timebases are incompatible; the loop is ill-posed, `det (I - sign D₂ D₁) = 0` (`illPosed`). -/
theorem feedbackSS_error_iff (G H : DSS K) (sign : K) (e : Err) :
    feedbackSS G H sign = .error e ↔
      (¬ (G.m = H.p ∧ G.p = H.m) ∧ e = .shape) ∨
      ∃ h : G.m = H.p ∧ G.p = H.m, common G.dt H.dt = .error e ∨
        ((∃ dt, common G.dt H.dt = .ok dt) ∧ (fbF G H h sign).det = 0 ∧ e = .illPosed) := by
  rw [feedbackSS_eq]
  split
  · rename_i h
    rw [Except.bind_eq_error_iff]
    constructor
    · rintro (hc | ⟨dt, hdt, hd⟩)
      · exact Or.inr ⟨h, Or.inl hc⟩
      · split at hd
        · rename_i h0
          simp only [Except.error.injEq] at hd
          exact Or.inr ⟨h, Or.inr ⟨⟨dt, hdt⟩, h0, hd.symm⟩⟩
        · cases hd
    · rintro (⟨h', -⟩ | ⟨_, hc | ⟨⟨dt, hdt⟩, h0, he⟩⟩)
      · exact absurd h h'
      · exact Or.inl hc
      · exact Or.inr ⟨dt, hdt, by rw [if_pos h0, he]⟩
  · rename_i h
    simp only [Except.error.injEq]
    constructor
    · intro he; exact Or.inl ⟨h, he.symm⟩
    · rintro (⟨-, he⟩ | ⟨h', -⟩)
      · exact he.symm
      · exact absurd h' h

theorem feedbackSS_shape {G H R : DSS K} {sign : K} (hR : feedbackSS G H sign = .ok R) :
    R.n = G.n + H.n ∧ R.p = G.p ∧ R.m = G.m ∧ common G.dt H.dt = .ok R.dt ∧
      ∃ h : G.m = H.p ∧ G.p = H.m, (fbF G H h sign).det ≠ 0 := by
  rw [feedbackSS_eq] at hR
  split at hR
  · rename_i h
    rw [Except.bind_eq_ok_iff] at hR
    obtain ⟨dt, hdt, hR⟩ := hR
    split at hR
    · cases hR
    · rename_i h0
      simp only [Except.ok.injEq] at hR
      subst hR
      exact ⟨rfl, rfl, rfl, hdt, h, h0⟩
  · cases hR

/-- `feedback(G, H, sign)` responds with `Y₁ N`, `N` a right inverse of `I - sign Y₂ Y₁`
(`C02.feedback_resp` for the typed `SS.feedback`, with the certified inverse of the loop matrix). -/
theorem feedbackSS_resp {G H R : DSS K} {sign s : K} {p m : Nat} {Y₁ : Matrix (Fin p) (Fin m) K}
    {Y₂ : Matrix (Fin m) (Fin p) K} (hG : G.Resp s p m Y₁) (hH : H.Resp s m p Y₂)
    (N : Matrix (Fin m) (Fin m) K) (hN : (1 - sign • (Y₂ * Y₁)) * N = 1)
    (hR : feedbackSS G H sign = .ok R) : R.Resp s p m (Y₁ * N) := by
  obtain ⟨n, sys, dt, rfl, hG'⟩ := resp_cases hG
  obtain ⟨n', sys', dt', rfl, hH'⟩ := resp_cases hH
  rw [feedbackSS_eq, dif_pos ⟨rfl, rfl⟩, Except.bind_eq_ok_iff] at hR
  obtain ⟨d, -, hR⟩ := hR
  split at hR
  · cases hR
  · rename_i hdet
    simp only [Except.ok.injEq] at hR
    subst hR
    simp only [fbF, SS.castIO_rfl] at hdet
    rw [Resp_mk, SS.Resp_flatS]
    simp only [fbF, SS.castIO_rfl]
    exact C02.feedback_resp sys sys' sign _ (C02.invQ_spec _ hdet).1 s hG' hH' N hN

end feedback

/-! ### `sys[rows, cols]` -/

/-- indexing raises exactly when some index is out of range. -/
theorem select_error_iff (G : DSS K) (rows cols : List Nat) (e : Err) :
    G.select rows cols = .error e ↔
      ¬ ((∀ r ∈ rows, r < G.p) ∧ (∀ c ∈ cols, c < G.m)) ∧ e = .indexRange := by
  unfold DSS.select
  split
  · rename_i h
    simp only [pure, Except.pure, reduceCtorEq, false_iff, not_and]
    intro h' _; exact absurd h.2 (h' h.1)
  · rename_i h
    simp only [Except.error.injEq]
    constructor
    · intro he; exact ⟨h, he.symm⟩
    · intro he; exact he.2.symm

theorem select_shape {G R : DSS K} {rows cols : List Nat} (h : G.select rows cols = .ok R) :
    R.n = G.n ∧ R.p = rows.length ∧ R.m = cols.length ∧ R.dt = G.dt := by
  unfold DSS.select at h
  split at h
  · simp only [pure, Except.pure, Except.ok.injEq] at h
    subst h
    exact ⟨rfl, rfl, rfl, rfl⟩
  · cases h

/-- `sys[rows, cols]` responds with the sub-matrix, in the selected order (repetitions allowed). -/
theorem select_resp {G R : DSS K} {s : K} {p m : Nat} {Y : Matrix (Fin p) (Fin m) K}
    (hG : G.Resp s p m Y) {rows cols : List Nat} (hr : ∀ r ∈ rows, r < p) (hc : ∀ c ∈ cols, c < m)
    (hR : G.select rows cols = .ok R) :
    R.Resp s rows.length cols.length
      (Y.submatrix (fun i : Fin rows.length => ⟨rows[i], hr _ (List.getElem_mem _)⟩)
        (fun j : Fin cols.length => ⟨cols[j], hc _ (List.getElem_mem _)⟩)) := by
  obtain ⟨n, sys, dt, rfl, hG'⟩ := resp_cases hG
  simp only [DSS.select, dif_pos (And.intro hr hc), pure, Except.pure, Except.ok.injEq] at hR
  subst hR
  rw [Resp_mk]
  exact C02.select_resp sys _ _ s hG'

/-! ### `lft` -/

section lft
variable [DecidableEq K]

/-- the upper operand partitioned: its response is partitioned the same way. -/
theorem lftUpper_resp {n p m : Nat} (sys : SS (Fin n) (Fin m) (Fin p) K) (dt : Dt) {s : K}
    {Y : Matrix (Fin p) (Fin m) K} (h : sys.Resp s Y) (nu ny : Nat) (hu : nu ≤ m) (hy : ny ≤ p) :
    (lftUpper ⟨n, p, m, sys, dt⟩ nu ny hu hy).Resp s (splitUpper Y nu ny hu hy) :=
  (h.select _ _).select _ _

theorem lftLower_resp {n p m : Nat} (sys : SS (Fin n) (Fin m) (Fin p) K) (dt : Dt) {s : K}
    {Y : Matrix (Fin p) (Fin m) K} (h : sys.Resp s Y) (nu ny : Nat) (hu : nu ≤ p) (hy : ny ≤ m) :
    (lftLower ⟨n, p, m, sys, dt⟩ nu ny hu hy).Resp s (splitLower Y nu ny hu hy) :=
  (h.select _ _).select _ _

/-- `lftSS` raises exactly when `det [[I, -D22], [-Dbar11, I]] = 0`. -/
theorem lftSS_error_iff (G H : DSS K) (nu ny : Nat)
    (h : nu ≤ G.m ∧ nu ≤ H.p ∧ ny ≤ G.p ∧ ny ≤ H.m) (dt : Dt) (e : Err) :
    lftSS G H nu ny h dt = .error e ↔
      (SS.lftF (G.lftUpper nu ny h.1 h.2.2.1) (H.lftLower nu ny h.2.1 h.2.2.2)).det = 0 ∧
        e = .illPosed := by
  by_cases h0 : (SS.lftF (G.lftUpper nu ny h.1 h.2.2.1) (H.lftLower nu ny h.2.1 h.2.2.2)).det = 0
  · rw [C02.lft_illposed G H nu ny h dt h0]
    simp [h0, eq_comm]
  · obtain ⟨Finv, -, -, hR⟩ := C02.lft_wellposed G H nu ny h dt h0
    rw [hR]
    simp [h0]

theorem lftSS_shape {G H R : DSS K} {nu ny : Nat}
    {h : nu ≤ G.m ∧ nu ≤ H.p ∧ ny ≤ G.p ∧ ny ≤ H.m} {dt : Dt}
    (hR : lftSS G H nu ny h dt = .ok R) :
    R.n = G.n + H.n ∧ R.p = (G.p - ny) + (H.p - nu) ∧ R.m = (G.m - nu) + (H.m - ny) ∧ R.dt = dt := by
  by_cases h0 : (SS.lftF (G.lftUpper nu ny h.1 h.2.2.1) (H.lftLower nu ny h.2.1 h.2.2.2)).det = 0
  · rw [C02.lft_illposed G H nu ny h dt h0] at hR; cases hR
  · obtain ⟨Finv, -, -, hR'⟩ := C02.lft_wellposed G H nu ny h dt h0
    rw [hR'] at hR
    simp only [Except.ok.injEq] at hR
    subst hR
    exact ⟨rfl, rfl, rfl, rfl⟩

/-- `G.lft(H, nu, ny)` responds with the lower LFT interconnection (`C02.lft_resp_inv`) of the
responses partitioned as the code slices the operands, re-typed to `Fin`. -/
theorem lftSS_resp {G H R : DSS K} {s : K} {p m p' m' nu ny : Nat} {Y : Matrix (Fin p) (Fin m) K}
    {Yb : Matrix (Fin p') (Fin m') K} (hG : G.Resp s p m Y) (hH : H.Resp s p' m' Yb)
    (hu : nu ≤ m) (hu' : nu ≤ p') (hy : ny ≤ p) (hy' : ny ≤ m')
    (h : nu ≤ G.m ∧ nu ≤ H.p ∧ ny ≤ G.p ∧ ny ≤ H.m) (dt : Dt)
    (N : Matrix (Fin ny) (Fin ny) K)
    (hN : (1 - (splitUpper Y nu ny hu hy).toBlocks₂₂ * (splitLower Yb nu ny hu' hy').toBlocks₁₁) * N = 1)
    (hR : lftSS G H nu ny h dt = .ok R) :
    R.Resp s ((p - ny) + (p' - nu)) ((m - nu) + (m' - ny))
      (flatMat (Expr.lftMat (splitUpper Y nu ny hu hy) (splitLower Yb nu ny hu' hy') N)) := by
  obtain ⟨n, sys, d, rfl, hG'⟩ := resp_cases hG
  obtain ⟨n', sys', d', rfl, hH'⟩ := resp_cases hH
  by_cases h0 : (SS.lftF (lftUpper ⟨n, p, m, sys, d⟩ nu ny h.1 h.2.2.1)
      (lftLower ⟨n', p', m', sys', d'⟩ nu ny h.2.1 h.2.2.2)).det = 0
  · rw [C02.lft_illposed _ _ nu ny h dt h0] at hR; cases hR
  · obtain ⟨Finv, hF, -, hR'⟩ := C02.lft_wellposed _ _ nu ny h dt h0
    rw [hR'] at hR
    simp only [Except.ok.injEq] at hR
    subst hR
    rw [Resp_mk, SS.Resp_flatIO, SS.Resp_flatS, flatMat_submatrix]
    have h₁ := lftUpper_resp sys d hG' nu ny hu hy
    have h₂ := lftLower_resp sys' d' hH' nu ny hu' hy'
    rw [← fromBlocks_toBlocks (splitUpper Y nu ny hu hy)] at h₁
    rw [← fromBlocks_toBlocks (splitLower Yb nu ny hu' hy')] at h₂
    exact C02.lft_resp_inv _ _ Finv hF s h₁ h₂ N hN

/-- the run-time entry point with the `-1` defaults resolved: for `nu`, `ny` resolving to the
naturals `nuN`, `nyN` and a common timebase, `DSS.lft` is `lftSS` on valid partitions and `shape`
otherwise (generalises `C02.lft_dispatch` to the defaults). -/
theorem lft_resolved (G : DSS K) (x : SOperand K) (nu ny : Int) (nuN nyN : Nat)
    (hnu : lftRes (toSys x).p G.m nu = nuN) (hny : lftRes (toSys x).m G.p ny = nyN) (dt : Dt)
    (hdt : common G.dt (toSys x).dt = .ok dt) :
    G.lft x nu ny =
      if h : nuN ≤ G.m ∧ nuN ≤ (toSys x).p ∧ nyN ≤ G.p ∧ nyN ≤ (toSys x).m
      then lftSS G (toSys x) nuN nyN h dt else .error .shape := by
  unfold lftRes at hnu hny
  simp only [DSS.lft, hnu, hny, hdt]
  simp [bind, Except.bind]

/-- a negative `nu` / `ny` other than `-1` is rejected (`shape`), after the timebase check. -/
theorem lft_negative (G : DSS K) (x : SOperand K) (nu ny : Int) (h : nu < -1 ∨ ny < -1) (dt : Dt)
    (hdt : common G.dt (toSys x).dt = .ok dt) : G.lft x nu ny = .error .shape := by
  have : ¬ (0 ≤ (if nu = -1 then min ((toSys x).p : Int) (G.m : Int) else nu) ∧
      0 ≤ (if ny = -1 then min ((toSys x).m : Int) (G.p : Int) else ny) ∧
      (if nu = -1 then min ((toSys x).p : Int) (G.m : Int) else nu).toNat ≤ G.m ∧
      (if nu = -1 then min ((toSys x).p : Int) (G.m : Int) else nu).toNat ≤ (toSys x).p ∧
      (if ny = -1 then min ((toSys x).m : Int) (G.p : Int) else ny).toNat ≤ G.p ∧
      (if ny = -1 then min ((toSys x).m : Int) (G.p : Int) else ny).toNat ≤ (toSys x).m) := by
    rintro ⟨h1, h2, -⟩
    rcases h with h | h
    · rw [if_neg (by omega)] at h1; omega
    · rw [if_neg (by omega)] at h2; omega
  simp only [DSS.lft, hdt]
  simp only [bind, Except.bind]
  rw [dif_neg this]

/-- incompatible timebases are reported first. -/
theorem lft_timebase (G : DSS K) (x : SOperand K) (nu ny : Int) (e : Err)
    (hdt : common G.dt (toSys x).dt = .error e) : G.lft x nu ny = .error e := by
  simp only [DSS.lft, hdt]
  rfl

end lft

/-! ### the entry points `+ - * /` on operands (system, Python scalar, array)

`x` is the other operand, `toSys x` its conversion (`_convert_to_statespace`).  Three statements
per operator: compatible shapes; a broadcast left operand; a broadcast right operand (`kind ≠
array`: Python scalars and SISO systems are broadcast, `1 × 1` arrays are not). -/

section entry

theorem smul_one_by_one (y z : Matrix (Fin 1) (Fin 1) K) : y * z = y 0 0 • z := by
  conv_lhs => rw [one_by_one_eq_smul y]
  rw [Matrix.smul_mul, Matrix.one_mul]

theorem mul_one_by_one {p : Nat} (Y : Matrix (Fin p) (Fin 1) K) (y : Matrix (Fin 1) (Fin 1) K) :
    Y * y = y 0 0 • Y := by
  conv_lhs => rw [one_by_one_eq_smul y]
  rw [Matrix.mul_smul, Matrix.mul_one]

theorem one_by_one_mul {m : Nat} (y : Matrix (Fin 1) (Fin 1) K) (Y : Matrix (Fin 1) (Fin m) K) :
    y * Y = y 0 0 • Y := by
  conv_lhs => rw [one_by_one_eq_smul y]
  rw [Matrix.smul_mul, Matrix.one_mul]

theorem bc_neg (p m : Nat) (y : Matrix (Fin 1) (Fin 1) K) : bc p m (-y) = -bc p m y := by
  ext i j; simp [bc]

theorem bc_of (p m : Nat) (c : K) :
    bc p m (Matrix.of fun _ _ => c) = (Matrix.of fun _ _ => c : Matrix (Fin p) (Fin m) K) := by
  ext i j; simp [bc]

/-- how a scalar operand is used: it is `1 × 1` with the value `c`. -/
theorem scalar_cases {c s : K} {p m : Nat} {Y : Matrix (Fin p) (Fin m) K}
    (h : (toSys (.scalar c)).Resp s p m Y) :
    ∃ (hp : p = 1) (hm : m = 1), Y = (Matrix.of fun _ _ => c) := by
  obtain ⟨hp, hm⟩ := h.dims
  change 1 = p at hp
  change 1 = m at hm
  subst hp hm
  exact ⟨rfl, rfl, (ofScalar_resp c s Y).mp h⟩

/-- how an array operand is used: it has the array's shape and value. -/
theorem array_cases {q r : Nat} {D : Matrix (Fin q) (Fin r) K} {s : K} {p m : Nat}
    {Y : Matrix (Fin p) (Fin m) K} (h : (toSys (.array q r D)).Resp s p m Y) :
    ∃ (hp : q = p) (hm : r = m), Y = D.submatrix (Fin.cast hp.symm) (Fin.cast hm.symm) := by
  obtain ⟨hp, hm⟩ := h.dims
  change q = p at hp
  change r = m at hm
  subst hp hm
  exact ⟨rfl, rfl, by simpa using (ofMatrix_resp q r D s Y).mp h⟩

/-- negating an operand negates its value and keeps its kind. -/
theorem operand_neg_resp {x : SOperand K} {s : K} {p m : Nat} {Y : Matrix (Fin p) (Fin m) K}
    (h : (toSys x).Resp s p m Y) : (toSys (SOperand.neg x)).Resp s p m (-Y) := by
  cases x with
  | sys H => exact neg_resp h
  | scalar c =>
    obtain ⟨hp, hm, rfl⟩ := scalar_cases h
    subst hp hm
    refine (ofScalar_resp (-c) s _).mpr ?_
    ext i j; simp
  | array q r D =>
    obtain ⟨hp, hm, rfl⟩ := array_cases h
    subst hp hm
    refine (ofMatrix_resp q r (-D) s _).mpr ?_
    simp

theorem operand_neg_kind (x : SOperand K) : (SOperand.neg x).kind = x.kind := by
  cases x <;> rfl

/-! #### `+` -/

theorem add_sys (G H : DSS K) : G.add (.sys H) = addSS G H := rfl
theorem add_scalar (G : DSS K) (c : K) : G.add (.scalar c) = .ok (G.addScalar c) := rfl
theorem add_array (G : DSS K) (q r : Nat) (D : Matrix (Fin q) (Fin r) K) :
    G.add (.array q r D) = G.addArray q r D := rfl

/-- `G + x`, same shape. -/
theorem add_resp {G R : DSS K} {x : SOperand K} {s : K} {p m : Nat}
    {Y₁ Y₂ : Matrix (Fin p) (Fin m) K} (hG : G.Resp s p m Y₁) (hx : (toSys x).Resp s p m Y₂)
    (hR : G.add x = .ok R) : R.Resp s p m (Y₁ + Y₂) := by
  cases x with
  | sys H => exact addSS_resp hG hx hR
  | scalar c =>
    obtain ⟨hp, hm, rfl⟩ := scalar_cases hx
    subst hp hm
    rw [add_scalar, Except.ok.injEq] at hR
    subst hR
    exact addScalar_resp hG c
  | array q r D =>
    obtain ⟨hp, hm, rfl⟩ := array_cases hx
    subst hp hm
    rw [submatrix_cast_rfl]
    exact addArray_resp hG hR

/-- `G + x` for a broadcast `x` (Python scalar or SISO system). -/
theorem add_resp_bcR {G R : DSS K} {x : SOperand K} {s : K} {p m : Nat}
    {Y₁ : Matrix (Fin p) (Fin m) K} {y : Matrix (Fin 1) (Fin 1) K} (hG : G.Resp s p m Y₁)
    (hk : x.kind ≠ .array) (hx : (toSys x).Resp s 1 1 y) (hR : G.add x = .ok R) :
    R.Resp s p m (Y₁ + bc p m y) := by
  cases x with
  | sys H => exact addSS_resp_bcR hG hx hR
  | scalar c =>
    obtain ⟨-, -, rfl⟩ := scalar_cases hx
    rw [add_scalar, Except.ok.injEq] at hR
    subst hR
    rw [bc_of]
    exact addScalar_resp hG c
  | array q r D => exact absurd rfl hk

/-- `G + x` for a SISO `G` (broadcast to the shape of `x`). -/
theorem add_resp_bcL {G R : DSS K} {x : SOperand K} {s : K} {p m : Nat}
    {y : Matrix (Fin 1) (Fin 1) K} {Y₂ : Matrix (Fin p) (Fin m) K} (hG : G.Resp s 1 1 y)
    (hx : (toSys x).Resp s p m Y₂) (hR : G.add x = .ok R) : R.Resp s p m (bc p m y + Y₂) := by
  cases x with
  | sys H => exact addSS_resp_bcL hG hx hR
  | scalar c =>
    obtain ⟨hp, hm, rfl⟩ := scalar_cases hx
    subst hp hm
    rw [add_scalar, Except.ok.injEq] at hR
    subst hR
    rw [bc_one_one]
    exact addScalar_resp hG c
  | array q r D =>
    obtain ⟨hp, hm, rfl⟩ := array_cases hx
    subst hp hm
    rw [submatrix_cast_rfl]
    exact addArray_resp_bc hG hR

/-! #### `-` (`self + (-other)`, `other + (-self)`) -/

theorem sub_eq (G : DSS K) (x : SOperand K) : G.sub x = G.add (SOperand.neg x) := rfl
theorem rsub_sys (G H : DSS K) : G.rsub (.sys H) = addSS H G.neg := rfl
theorem rsub_scalar (G : DSS K) (c : K) : G.rsub (.scalar c) = G.neg.add (.scalar c) := rfl
theorem rsub_array (G : DSS K) (q r : Nat) (D : Matrix (Fin q) (Fin r) K) :
    G.rsub (.array q r D) = G.neg.add (.array q r D) := rfl

theorem sub_resp {G R : DSS K} {x : SOperand K} {s : K} {p m : Nat}
    {Y₁ Y₂ : Matrix (Fin p) (Fin m) K} (hG : G.Resp s p m Y₁) (hx : (toSys x).Resp s p m Y₂)
    (hR : G.sub x = .ok R) : R.Resp s p m (Y₁ - Y₂) := by
  rw [sub_eq_add_neg]
  exact add_resp hG (operand_neg_resp hx) hR

theorem sub_resp_bcR {G R : DSS K} {x : SOperand K} {s : K} {p m : Nat}
    {Y₁ : Matrix (Fin p) (Fin m) K} {y : Matrix (Fin 1) (Fin 1) K} (hG : G.Resp s p m Y₁)
    (hk : x.kind ≠ .array) (hx : (toSys x).Resp s 1 1 y) (hR : G.sub x = .ok R) :
    R.Resp s p m (Y₁ - bc p m y) := by
  rw [sub_eq_add_neg, ← bc_neg]
  exact add_resp_bcR hG (by rwa [operand_neg_kind]) (operand_neg_resp hx) hR

theorem sub_resp_bcL {G R : DSS K} {x : SOperand K} {s : K} {p m : Nat}
    {y : Matrix (Fin 1) (Fin 1) K} {Y₂ : Matrix (Fin p) (Fin m) K} (hG : G.Resp s 1 1 y)
    (hx : (toSys x).Resp s p m Y₂) (hR : G.sub x = .ok R) : R.Resp s p m (bc p m y - Y₂) := by
  rw [sub_eq_add_neg]
  exact add_resp_bcL hG (operand_neg_resp hx) hR

/-- `x - G`, same shape. -/
theorem rsub_resp {G R : DSS K} {x : SOperand K} {s : K} {p m : Nat}
    {Y₁ Y₂ : Matrix (Fin p) (Fin m) K} (hx : (toSys x).Resp s p m Y₁) (hG : G.Resp s p m Y₂)
    (hR : G.rsub x = .ok R) : R.Resp s p m (Y₁ - Y₂) := by
  cases x with
  | sys H =>
    rw [sub_eq_add_neg]
    exact addSS_resp hx (neg_resp hG) hR
  | scalar c =>
    rw [sub_eq_add_neg, add_comm]
    exact add_resp (neg_resp hG) hx hR
  | array q r D =>
    rw [sub_eq_add_neg, add_comm]
    exact add_resp (neg_resp hG) hx hR

/-- `x - G` for a broadcast `x`. -/
theorem rsub_resp_bcL {G R : DSS K} {x : SOperand K} {s : K} {p m : Nat}
    {y : Matrix (Fin 1) (Fin 1) K} {Y₂ : Matrix (Fin p) (Fin m) K} (hk : x.kind ≠ .array)
    (hx : (toSys x).Resp s 1 1 y) (hG : G.Resp s p m Y₂) (hR : G.rsub x = .ok R) :
    R.Resp s p m (bc p m y - Y₂) := by
  cases x with
  | sys H =>
    rw [sub_eq_add_neg]
    exact addSS_resp_bcL hx (neg_resp hG) hR
  | scalar c =>
    rw [sub_eq_add_neg, add_comm]
    exact add_resp_bcR (neg_resp hG) hk hx hR
  | array q r D => exact absurd rfl hk

/-- `x - G` for a SISO `G`. -/
theorem rsub_resp_bcR {G R : DSS K} {x : SOperand K} {s : K} {p m : Nat}
    {Y₁ : Matrix (Fin p) (Fin m) K} {y : Matrix (Fin 1) (Fin 1) K}
    (hx : (toSys x).Resp s p m Y₁) (hG : G.Resp s 1 1 y) (hR : G.rsub x = .ok R) :
    R.Resp s p m (Y₁ - bc p m y) := by
  cases x with
  | sys H =>
    rw [sub_eq_add_neg, ← bc_neg]
    exact addSS_resp_bcR hx (neg_resp hG) hR
  | scalar c =>
    rw [sub_eq_add_neg, add_comm, ← bc_neg]
    exact add_resp_bcL (neg_resp hG) hx hR
  | array q r D =>
    rw [sub_eq_add_neg, add_comm, ← bc_neg]
    exact add_resp_bcL (neg_resp hG) hx hR

/-! #### `*` -/

theorem mul_sys (G H : DSS K) : G.mul (.sys H) = mulSS G H := rfl
theorem mul_scalar (G : DSS K) (c : K) : G.mul (.scalar c) = .ok (G.mulScalar c) := rfl
theorem mul_array (G : DSS K) (q r : Nat) (D : Matrix (Fin q) (Fin r) K) :
    G.mul (.array q r D) = G.mulArray q r D := rfl
theorem rmul_sys (G H : DSS K) : G.rmul (.sys H) = rmulSS G H := rfl
theorem rmul_scalar (G : DSS K) (c : K) : G.rmul (.scalar c) = .ok (G.mulScalar c) := rfl
theorem rmul_array (G : DSS K) (q r : Nat) (D : Matrix (Fin q) (Fin r) K) :
    G.rmul (.array q r D) = G.rmulArray q r D := rfl

/-- `G * x`, compatible shapes. -/
theorem mul_resp {G R : DSS K} {x : SOperand K} {s : K} {p k m : Nat}
    {Y₁ : Matrix (Fin p) (Fin k) K} {Y₂ : Matrix (Fin k) (Fin m) K} (hG : G.Resp s p k Y₁)
    (hx : (toSys x).Resp s k m Y₂) (hR : G.mul x = .ok R) : R.Resp s p m (Y₁ * Y₂) := by
  cases x with
  | sys H => exact mulSS_resp hG hx hR
  | scalar c =>
    obtain ⟨hp, hm, rfl⟩ := scalar_cases hx
    subst hp hm
    rw [mul_scalar, Except.ok.injEq] at hR
    subst hR
    rw [mul_one_by_one]
    exact mulScalar_resp hG c
  | array q r D =>
    obtain ⟨hp, hm, rfl⟩ := array_cases hx
    subst hp hm
    rw [submatrix_cast_rfl]
    exact mulArray_resp hG hR

/-- `G * x` for a broadcast `x`. -/
theorem mul_resp_bcR {G R : DSS K} {x : SOperand K} {s : K} {p m : Nat}
    {Y₁ : Matrix (Fin p) (Fin m) K} {y : Matrix (Fin 1) (Fin 1) K} (hG : G.Resp s p m Y₁)
    (hk : x.kind ≠ .array) (hx : (toSys x).Resp s 1 1 y) (hR : G.mul x = .ok R) :
    R.Resp s p m (y 0 0 • Y₁) := by
  cases x with
  | sys H => exact mulSS_resp_bcR hG hx hR
  | scalar c =>
    obtain ⟨-, -, rfl⟩ := scalar_cases hx
    rw [mul_scalar, Except.ok.injEq] at hR
    subst hR
    exact mulScalar_resp hG c
  | array q r D => exact absurd rfl hk

/-- `G * x` for a SISO `G`. -/
theorem mul_resp_bcL {G R : DSS K} {x : SOperand K} {s : K} {p m : Nat}
    {y : Matrix (Fin 1) (Fin 1) K} {Y₂ : Matrix (Fin p) (Fin m) K} (hG : G.Resp s 1 1 y)
    (hx : (toSys x).Resp s p m Y₂) (hR : G.mul x = .ok R) : R.Resp s p m (y 0 0 • Y₂) := by
  cases x with
  | sys H => exact mulSS_resp_bcL hG hx hR
  | scalar c =>
    obtain ⟨hp, hm, rfl⟩ := scalar_cases hx
    subst hp hm
    rw [mul_scalar, Except.ok.injEq] at hR
    subst hR
    have := mulScalar_resp hG c
    convert this using 1
    ext i j
    simp [Subsingleton.elim i 0, Subsingleton.elim j 0, mul_comm]
  | array q r D =>
    obtain ⟨hp, hm, rfl⟩ := array_cases hx
    subst hp hm
    rw [submatrix_cast_rfl]
    exact mulArray_resp_bc hG hR

/-- `x * G`, compatible shapes. -/
theorem rmul_resp {G R : DSS K} {x : SOperand K} {s : K} {p k m : Nat}
    {Y₁ : Matrix (Fin p) (Fin k) K} {Y₂ : Matrix (Fin k) (Fin m) K}
    (hx : (toSys x).Resp s p k Y₁) (hG : G.Resp s k m Y₂) (hR : G.rmul x = .ok R) :
    R.Resp s p m (Y₁ * Y₂) := by
  cases x with
  | sys H => exact rmulSS_resp hx hG hR
  | scalar c =>
    obtain ⟨hp, hm, rfl⟩ := scalar_cases hx
    subst hp hm
    rw [rmul_scalar, Except.ok.injEq] at hR
    subst hR
    rw [one_by_one_mul]
    exact mulScalar_resp hG c
  | array q r D =>
    obtain ⟨hp, hm, rfl⟩ := array_cases hx
    subst hp hm
    rw [submatrix_cast_rfl]
    exact rmulArray_resp hG hR

/-- `x * G` for a broadcast `x`. -/
theorem rmul_resp_bcL {G R : DSS K} {x : SOperand K} {s : K} {p m : Nat}
    {y : Matrix (Fin 1) (Fin 1) K} {Y₂ : Matrix (Fin p) (Fin m) K} (hk : x.kind ≠ .array)
    (hx : (toSys x).Resp s 1 1 y) (hG : G.Resp s p m Y₂) (hR : G.rmul x = .ok R) :
    R.Resp s p m (y 0 0 • Y₂) := by
  cases x with
  | sys H =>
    rw [rmul_sys, rmulSS_eq_mulSS] at hR
    exact mulSS_resp_bcL hx hG hR
  | scalar c =>
    obtain ⟨-, -, rfl⟩ := scalar_cases hx
    rw [rmul_scalar, Except.ok.injEq] at hR
    subst hR
    exact mulScalar_resp hG c
  | array q r D => exact absurd rfl hk

/-- `x * G` for a SISO `G`. -/
theorem rmul_resp_bcR {G R : DSS K} {x : SOperand K} {s : K} {p m : Nat}
    {Y₁ : Matrix (Fin p) (Fin m) K} {y : Matrix (Fin 1) (Fin 1) K}
    (hx : (toSys x).Resp s p m Y₁) (hG : G.Resp s 1 1 y) (hR : G.rmul x = .ok R) :
    R.Resp s p m (y 0 0 • Y₁) := by
  cases x with
  | sys H =>
    rw [rmul_sys, rmulSS_eq_mulSS] at hR
    exact mulSS_resp_bcR hx hG hR
  | scalar c =>
    obtain ⟨hp, hm, rfl⟩ := scalar_cases hx
    subst hp hm
    rw [rmul_scalar, Except.ok.injEq] at hR
    subst hR
    have := mulScalar_resp hG c
    convert this using 1
    ext i j
    simp [Subsingleton.elim i 0, Subsingleton.elim j 0, mul_comm]
  | array q r D =>
    obtain ⟨hp, hm, rfl⟩ := array_cases hx
    subst hp hm
    rw [submatrix_cast_rfl]
    exact rmulArray_resp_bc hG hR

end entry

/-! ### the run-time operators are the typed operators up to re-indexing

What each run-time operator returns, as the typed construction of `Model/SS.lean` (the one the
theorem of `Props/C02.lean` is about) applied to the operands' quadruples, with the states of a
composite re-indexed along `finSumFinEquiv : Fin a ⊕ Fin b ≃ Fin (a + b)` (`SS.reindex`) and
inputs / outputs re-typed along `finSumFinEquiv` / the dimension equalities (`SS.select`,
`SS.castIO`).  SISO broadcasting composes these (`mulSS_promoL`, `addSS_promoL`, …,
`mulArray_eq`, …: the broadcast operand is `appendN` / `onesTimes` of the SISO one). -/

theorem neg_typed (G : DSS K) : G.neg = ⟨G.n, G.p, G.m, G.sys.neg, G.dt⟩ := rfl

theorem addScalar_typed (G : DSS K) (c : K) :
    G.addScalar c = ⟨G.n, G.p, G.m, G.sys.addConst (fun _ _ => c), G.dt⟩ := rfl

theorem mulScalar_typed (G : DSS K) (c : K) :
    G.mulScalar c = ⟨G.n, G.p, G.m, G.sys.smulRight c, G.dt⟩ := rfl

theorem ofMatrix_typed (p m : Nat) (D : Matrix (Fin p) (Fin m) K) :
    ofMatrix p m D = ⟨0, p, m, SS.static D, .none⟩ := rfl

theorem append_typed {G H R : DSS K} (h : G.append H = .ok R) :
    ∃ dt, common G.dt H.dt = .ok dt ∧
      R = ⟨G.n + H.n, G.p + H.p, G.m + H.m,
        ((SS.append G.sys H.sys).reindex finSumFinEquiv).select finSumFinEquiv.symm
          finSumFinEquiv.symm, dt⟩ := by
  rw [append_eq, Except.bind_eq_ok_iff] at h
  obtain ⟨d, hd, h⟩ := h
  simp only [Except.ok.injEq] at h
  exact ⟨d, hd, h.symm⟩

theorem mulCore_typed {G H R : DSS K} (h : mulCore G H = .ok R) :
    ∃ (hd : G.m = H.p) (dt : Dt), common G.dt H.dt = .ok dt ∧
      R = ⟨H.n + G.n, G.p, H.m,
        (SS.mul G.sys (H.sys.castIO hd.symm rfl)).reindex finSumFinEquiv, dt⟩ := by
  unfold mulCore at h
  split at h
  · rename_i hd
    rw [Except.bind_eq_ok_iff] at h
    obtain ⟨d, hd', h⟩ := h
    simp only [Except.ok.injEq] at h
    exact ⟨hd, d, hd', h.symm⟩
  · cases h

/-- `G * H` without broadcasting is the typed series connection `SS.mul` (states of `H` first). -/
theorem mulSS_typed {G H R : DSS K} (hs : G.isSiso = H.isSiso) (h : mulSS G H = .ok R) :
    ∃ (hd : G.m = H.p) (dt : Dt), common G.dt H.dt = .ok dt ∧
      R = ⟨H.n + G.n, G.p, H.m,
        (SS.mul G.sys (H.sys.castIO hd.symm rfl)).reindex finSumFinEquiv, dt⟩ := by
  rw [mulSS_same hs] at h; exact mulCore_typed h

theorem addCore_typed {G H R : DSS K} (h : addCore G H = .ok R) :
    ∃ (hd : G.m = H.m ∧ G.p = H.p) (dt : Dt), common G.dt H.dt = .ok dt ∧
      R = ⟨G.n + H.n, G.p, G.m,
        (SS.add G.sys (H.sys.castIO hd.2.symm hd.1.symm)).reindex finSumFinEquiv, dt⟩ := by
  unfold addCore at h
  split at h
  · rename_i hd
    rw [Except.bind_eq_ok_iff] at h
    obtain ⟨d, hd', h⟩ := h
    simp only [Except.ok.injEq] at h
    exact ⟨hd, d, hd', h.symm⟩
  · cases h

/-- `G + H` without broadcasting is the typed parallel connection `SS.add`. -/
theorem addSS_typed {G H R : DSS K} (hs : G.isSiso = H.isSiso) (h : addSS G H = .ok R) :
    ∃ (hd : G.m = H.m ∧ G.p = H.p) (dt : Dt), common G.dt H.dt = .ok dt ∧
      R = ⟨G.n + H.n, G.p, G.m,
        (SS.add G.sys (H.sys.castIO hd.2.symm hd.1.symm)).reindex finSumFinEquiv, dt⟩ := by
  rw [addSS_same hs] at h; exact addCore_typed h

theorem mulArrayCore_typed {G R : DSS K} {q r : Nat} {M : Matrix (Fin q) (Fin r) K}
    (h : mulArrayCore G q r M = .ok R) :
    ∃ hd : G.m = q, R = ⟨G.n, G.p, r, (G.sys.castIO rfl hd).mulConst M, G.dt⟩ := by
  unfold mulArrayCore at h
  split at h
  · rename_i hd
    simp only [Except.ok.injEq] at h
    exact ⟨hd, h.symm⟩
  · cases h

theorem rmulArrayCore_typed {G R : DSS K} {q r : Nat} {M : Matrix (Fin q) (Fin r) K}
    (h : rmulArrayCore G q r M = .ok R) :
    ∃ hd : G.p = r, R = ⟨G.n, q, G.m, SS.constMul M (G.sys.castIO hd rfl), G.dt⟩ := by
  unfold rmulArrayCore at h
  split at h
  · rename_i hd
    simp only [Except.ok.injEq] at h
    exact ⟨hd, h.symm⟩
  · cases h

theorem addArrayCore_typed {G R : DSS K} {q r : Nat} {M : Matrix (Fin q) (Fin r) K}
    (h : addArrayCore G q r M = .ok R) :
    ∃ hd : G.p = q ∧ G.m = r,
      R = ⟨G.n, G.p, G.m, G.sys.addConst (M.submatrix (Fin.cast hd.1) (Fin.cast hd.2)), G.dt⟩ := by
  unfold addArrayCore at h
  split at h
  · rename_i hd
    simp only [Except.ok.injEq] at h
    exact ⟨hd, h.symm⟩
  · cases h

theorem select_typed {G R : DSS K} {rows cols : List Nat} (h : G.select rows cols = .ok R) :
    ∃ hd : (∀ r ∈ rows, r < G.p) ∧ (∀ c ∈ cols, c < G.m),
      R = ⟨G.n, rows.length, cols.length,
        G.sys.select (fun i : Fin rows.length => ⟨rows[i], hd.1 _ (List.getElem_mem _)⟩)
          (fun j : Fin cols.length => ⟨cols[j], hd.2 _ (List.getElem_mem _)⟩), G.dt⟩ := by
  unfold DSS.select at h
  split at h
  · rename_i hd
    simp only [pure, Except.pure, Except.ok.injEq] at h
    exact ⟨hd, h.symm⟩
  · cases h

section det
variable [DecidableEq K]

/-- `G ** -1` is the typed `SS.inv` with a two-sided inverse of the direct term. -/
theorem inv_typed {G R : DSS K} (h : G.inv = .ok R) :
    ∃ (hd : G.m = G.p) (Di : Matrix (Fin G.p) (Fin G.p) K),
      Di * sqD G hd = 1 ∧ sqD G hd * Di = 1 ∧
      R = ⟨G.n, G.m, G.p, G.sys.inv (Di.submatrix (Fin.cast hd) id), G.dt⟩ := by
  rw [inv_eq] at h
  split at h
  · rename_i hd
    split at h
    · cases h
    · rename_i hdet
      simp only [Except.ok.injEq] at h
      exact ⟨hd, SS.invQ (sqD G hd), (C02.invQ_spec _ hdet).1, (C02.invQ_spec _ hdet).2, h.symm⟩
  · cases h

/-- `feedback` is the typed `SS.feedback` with a two-sided inverse `E` of `I - sign D₂ D₁` (the
hypothesis of `C02.feedback_resp`), states re-indexed. -/
theorem feedbackSS_typed {G H R : DSS K} {sign : K} (h : feedbackSS G H sign = .ok R) :
    ∃ (hd : G.m = H.p ∧ G.p = H.m) (dt : Dt) (E : Matrix (Fin G.m) (Fin G.m) K),
      common G.dt H.dt = .ok dt ∧ E * fbF G H hd sign = 1 ∧ fbF G H hd sign * E = 1 ∧
      R = ⟨G.n + H.n, G.p, G.m,
        (SS.feedback G.sys (H.sys.castIO hd.1.symm hd.2.symm) sign E).reindex finSumFinEquiv, dt⟩ := by
  rw [feedbackSS_eq] at h
  split at h
  · rename_i hd
    rw [Except.bind_eq_ok_iff] at h
    obtain ⟨dt, hdt, h⟩ := h
    split at h
    · cases h
    · rename_i hdet
      simp only [Except.ok.injEq] at h
      exact ⟨hd, dt, SS.invQ _, hdt, (C02.invQ_spec _ hdet).1, (C02.invQ_spec _ hdet).2, h.symm⟩
  · cases h

end det

section examples
open DSS.Ex

/-! ### non-vacuity (non-square shapes, over `ℚ`, at `s = 0`) -/

/-- `neg_resp`, `addScalar_resp`, `mulScalar_resp`, `select_resp`: a `2 × 1` system with a
response; indexing `[[1, 0, 1], [0]]` is in range. -/
example : G21.Resp 0 2 1 !![1; 3] ∧ (∃ R, G21.select [1, 0, 1] [0] = .ok R) ∧
    (∀ r ∈ [1, 0, 1], r < 2) ∧ (∀ c ∈ [0], c < 1) ∧ G21.select [2] [0] = .error .indexRange := by
  refine ⟨G21_resp, exists_ok fun e h => ?_, by decide, by decide, ?_⟩
  · have := (select_error_iff _ _ _ e).mp h
    simp [G21] at this
  · exact (select_error_iff _ _ _ _).mpr ⟨by simp [G21], rfl⟩

/-- `append_resp` / `append_shape`: a `2 × 1` and a `1 × 2` system with compatible timebases;
`append_error_iff`: continuous with discrete. -/
example : (∃ R, G21.append K12 = .ok R) ∧ G21.Resp 0 2 1 !![1; 3] ∧ K12.Resp 0 1 2 !![1, 1] ∧
    G21.append { K12 with dt := .dtrue } = .error .timebase := by
  refine ⟨exists_ok fun e h => ?_, G21_resp, K12_resp, ?_⟩
  · have := (append_error_iff _ _ e).mp h
    simp [G21, K12, common, close, Dt.num] at this
  · exact (append_error_iff _ _ _).mpr rfl

/-- `appendN_resp` / `appendN_shape`: three copies of a SISO system; `appendN_error_iff`. -/
example : (∃ R, appendN S11 3 = .ok R) ∧ S11.Resp 0 1 1 !![2] ∧ appendN S11 0 = .error .badArg :=
  ⟨(appendN_ok S11 3 (by decide)).imp fun _ h => h.1, S11_resp, rfl⟩

/-- array operands: `G21 * M` (`1 × 3`), `M * G21` (`3 × 2`), a SISO system broadcast against
`2 × 3` arrays on either side and under `+`, `G21 + M` (`2 × 1`); shape errors. -/
example :
    (∃ R, G21.mulArray 1 3 !![1, 2, 3] = .ok R) ∧
    (∃ R, G21.rmulArray 3 2 !![1, 2; 3, 4; 5, 6] = .ok R) ∧
    (∃ R, S11.mulArray 2 3 !![1, 2, 3; 4, 5, 6] = .ok R) ∧
    (∃ R, S11.rmulArray 2 3 !![1, 2, 3; 4, 5, 6] = .ok R) ∧
    (∃ R, onesTimes 2 3 S11 = .ok R) ∧
    (∃ R, G21.addArray 2 1 !![5; 7] = .ok R) ∧
    (∃ R, S11.addArray 2 3 !![1, 2, 3; 4, 5, 6] = .ok R) ∧
    G21.mulArray 2 3 !![1, 2, 3; 4, 5, 6] = .error .shape ∧
    G21.addArray 1 2 !![5, 7] = .error .shape ∧
    S11.mulArray 0 3 (0 : Matrix (Fin 0) (Fin 3) ℚ) = .error .badArg := by
  refine ⟨exists_ok fun e h => ?_, exists_ok fun e h => ?_, exists_ok fun e h => ?_,
    exists_ok fun e h => ?_, exists_ok fun e h => ?_, exists_ok fun e h => ?_,
    exists_ok fun e h => ?_, ?_, ?_, ?_⟩
  · have := (mulArray_error_iff _ _ _ _ e).mp h; simp [G21, isSiso] at this
  · have := (rmulArray_error_iff _ _ _ _ e).mp h; simp [G21, isSiso] at this
  · have := (mulArray_error_iff _ _ _ _ e).mp h; simp [S11, isSiso] at this
  · have := (rmulArray_error_iff _ _ _ _ e).mp h; simp [S11, isSiso] at this
  · have := (onesTimes_error_iff (g := S11) rfl 2 3 e).mp h; simp at this
  · have := (addArray_error_iff _ _ _ _ e).mp h; simp [G21, isSiso] at this
  · have := (addArray_error_iff _ _ _ _ e).mp h; simp [S11, isSiso] at this
  · exact (mulArray_error_iff _ _ _ _ _).mpr (Or.inr ⟨rfl, by simp [G21], rfl⟩)
  · exact (addArray_error_iff _ _ _ _ _).mpr (Or.inr ⟨rfl, by simp [G21], rfl⟩)
  · exact (mulArray_error_iff _ _ _ _ _).mpr (Or.inl ⟨rfl, rfl, rfl⟩)

/-- `*` and `+` of systems: `G21 * K12` (`2 × 1` times `1 × 2`), the SISO `S11` broadcast on either
side of the `2 × 1` system, `G21 + G21`; `K12 * K12` and `G21 + K12` are shape errors, continuous
with discrete a timebase error. -/
example :
    (∃ R, mulSS G21 K12 = .ok R) ∧ (∃ R, mulSS S11 G21 = .ok R) ∧ (∃ R, mulSS G21 S11 = .ok R) ∧
    (∃ R, rmulSS G21 S11 = .ok R) ∧
    (∃ R, addSS G21 G21 = .ok R) ∧ (∃ R, addSS S11 G21 = .ok R) ∧ (∃ R, addSS G21 S11 = .ok R) ∧
    mulSS K12 K12 = .error .shape ∧ addSS G21 K12 = .error .shape ∧
    mulSS G21 { K12 with dt := .dtrue } = .error .timebase := by
  refine ⟨exists_ok fun e h => ?_, exists_ok fun e h => ?_, exists_ok fun e h => ?_,
    exists_ok fun e h => ?_, exists_ok fun e h => ?_, exists_ok fun e h => ?_,
    exists_ok fun e h => ?_, ?_, ?_, ?_⟩
  · have := (mulSS_error_iff _ _ e).mp h
    simp [G21, K12, isSiso, common, close, Dt.num] at this
  · have := (mulSS_error_iff _ _ e).mp h
    simp [G21, S11, isSiso, common] at this
  · have := (mulSS_error_iff _ _ e).mp h
    simp [G21, S11, isSiso, common] at this
  · have := (rmulSS_error_iff _ _ e).mp h
    simp [G21, S11, isSiso, common] at this
  · have := (addSS_error_iff _ _ e).mp h
    simp [G21, isSiso, common, close, Dt.num] at this
  · have := (addSS_error_iff _ _ e).mp h
    simp [G21, S11, isSiso, common] at this
  · have := (addSS_error_iff _ _ e).mp h
    simp [G21, S11, isSiso, common] at this
  · exact (mulSS_error_iff _ _ _).mpr (Or.inr (Or.inr (Or.inl ⟨rfl, by simp [K12], rfl⟩)))
  · exact (addSS_error_iff _ _ _).mpr (Or.inr (Or.inr (Or.inl ⟨rfl, by simp [G21, K12], rfl⟩)))
  · refine (mulSS_error_iff _ _ _).mpr (Or.inr (Or.inr (Or.inr ⟨?_, ?_, ?_, rfl⟩))) <;>
      simp [G21, K12, isSiso]


/-- `** -1`, `** k`: the square `Q22` has an invertible direct term, responds at `0` with
`diag(2, 1)` whose inverse is `diag(1/2, 1)`; the non-square `G21` is `notImplemented`, a square
system with singular `D` is `illPosed`. -/
example :
    (∃ R, Q22.inv = .ok R) ∧ (∃ R, Q22.pow (-3) = .ok R) ∧ (∃ R, Q22.pow 2 = .ok R) ∧
    Q22.Resp 0 2 2 !![2, 0; 0, 1] ∧ (!![2, 0; 0, 1] : Matrix (Fin 2) (Fin 2) ℚ) * !![1/2, 0; 0, 1] = 1 ∧
    IsUnit (!![2, 0; 0, 1] : Matrix (Fin 2) (Fin 2) ℚ).det ∧
    G21.pow 2 = .error .notImplemented ∧ U22.pow (-1) = .error .illPosed := by
  have hdet : (sqD Q22 rfl).det ≠ 0 := by
    have : sqD Q22 rfl = 1 := sqD_mk _ _ _
    simp [this]
  refine ⟨exists_ok fun e h => ?_, exists_ok fun e h => ?_, exists_ok fun e h => ?_, Q22_resp, ?_,
    ?_, ?_, ?_⟩
  · rcases (inv_error_iff _ e).mp h with ⟨h', -⟩ | ⟨_, h', -⟩
    · exact h' rfl
    · exact hdet h'
  · rcases (pow_error_iff _ _ e).mp h with ⟨h', -⟩ | ⟨-, _, h', -⟩
    · exact h' rfl
    · exact hdet h'
  · rcases (pow_error_iff _ _ e).mp h with ⟨h', -⟩ | ⟨h', -⟩
    · exact h' rfl
    · exact absurd h' (by decide)
  · ext i j; fin_cases i <;> fin_cases j <;> simp
  · simp [Matrix.det_fin_two]
  · exact (pow_error_iff _ _ _).mpr (Or.inl ⟨by simp [G21], rfl⟩)
  · refine (pow_error_iff _ _ _).mpr (Or.inr ⟨by decide, rfl, ?_, rfl⟩)
    have : sqD U22 rfl = 0 := sqD_mk _ _ _
    rw [this]
    show Matrix.det (0 : Matrix (Fin 2) (Fin 2) ℚ) = 0
    simp

/-- `feedback`: the `2 × 1` plant `G21` with the static `1 × 2` gain `K12`, negative feedback:
`I + D₂ D₁ = 2`, `I + Y₂ Y₁ = 5` at `s = 0`; positive feedback is ill-posed (`I - D₂ D₁ = 0`),
`feedback(G21, G21)` a shape error. -/
example :
    (∃ R, feedbackSS G21 K12 (-1) = .ok R) ∧ G21.Resp 0 2 1 !![1; 3] ∧ K12.Resp 0 1 2 !![1, 1] ∧
    (1 - (-1 : ℚ) • ((!![1, 1] : Matrix (Fin 1) (Fin 2) ℚ) * (!![1; 3] : Matrix (Fin 2) (Fin 1) ℚ)))
      * (!![1/5] : Matrix (Fin 1) (Fin 1) ℚ) = 1 ∧
    feedbackSS G21 K12 1 = .error .illPosed ∧ feedbackSS G21 G21 1 = .error .shape := by
  have hF : ∀ sign : ℚ, (fbF G21 K12 ⟨rfl, rfl⟩ sign).det = 1 - sign := by
    intro sign
    have : fbF G21 K12 ⟨rfl, rfl⟩ sign = 1 - sign • ((!![1, 1] : Matrix (Fin 1) (Fin 2) ℚ)
        * (!![0; 1] : Matrix (Fin 2) (Fin 1) ℚ)) := fbF_mk _ _ _ _ _ _
    rw [this]
    show Matrix.det ((1 : Matrix (Fin 1) (Fin 1) ℚ) - sign • ((!![1, 1] : Matrix (Fin 1) (Fin 2) ℚ)
        * (!![0; 1] : Matrix (Fin 2) (Fin 1) ℚ))) = 1 - sign
    simp [Matrix.det_fin_one, Matrix.mul_apply]
  refine ⟨exists_ok fun e h => ?_, G21_resp, K12_resp, ?_, ?_, ?_⟩
  · rcases (feedbackSS_error_iff _ _ _ e).mp h with ⟨h', -⟩ | ⟨_, h' | ⟨-, h', -⟩⟩
    · exact h' ⟨rfl, rfl⟩
    · simp [G21, K12, common, close, Dt.num] at h'
    · rw [hF] at h'; norm_num at h'
  · ext i j; fin_cases i; fin_cases j; simp [Matrix.mul_apply]; norm_num
  · refine (feedbackSS_error_iff _ _ _ _).mpr (Or.inr ⟨⟨rfl, rfl⟩, Or.inr ⟨⟨.cont, ?_⟩, ?_, rfl⟩⟩)
    · simp [G21, K12, common, close, Dt.num]
    · rw [hF]; norm_num
  · exact (feedbackSS_error_iff _ _ _ _).mpr (Or.inl ⟨by simp [G21], rfl⟩)


/-- `lft`: upper `U22` (`D = 0`), lower `L22` (static `[[2, 0], [0, 0]]`), `nu = ny = 1`:
`F = [[1, 0], [-2, 1]]` is regular; at `s = 0` the operands respond with all-ones and `L22`'s
matrix, `1 - Y22 Ybar11 = -1`.  `nu = 3` and `nu = -2` are rejected. -/
example :
    (∃ R, U22.lft (.sys L22) 1 1 = .ok R) ∧ U22.Resp 0 2 2 !![1, 1; 1, 1] ∧
    (toSys (.sys L22)).Resp 0 2 2 !![2, 0; 0, 0] ∧
    lftRes 2 2 1 = (1 : Nat) ∧ lftRes 2 2 (-1) = (2 : Nat) ∧
    (1 - (splitUpper (!![1, 1; 1, 1] : Matrix (Fin 2) (Fin 2) ℚ) 1 1 (by decide) (by decide)).toBlocks₂₂
        * (splitLower (!![2, 0; 0, 0] : Matrix (Fin 2) (Fin 2) ℚ) 1 1 (by decide) (by decide)).toBlocks₁₁)
      * (!![-1] : Matrix (Fin 1) (Fin 1) ℚ) = 1 ∧
    U22.lft (.sys L22) 3 1 = .error .shape ∧ U22.lft (.sys L22) (-2) 1 = .error .shape := by
  have hdt : common U22.dt (toSys (.sys L22)).dt = .ok .cont := by
    simp [U22, L22, toSys, common, close, Dt.num]
  refine ⟨exists_ok fun e h => ?_, U22_resp, L22_resp, rfl, rfl, ?_, ?_, ?_⟩
  · rw [lft_resolved U22 (.sys L22) 1 1 1 1 rfl rfl .cont hdt,
      dif_pos (show 1 ≤ U22.m ∧ 1 ≤ (toSys (.sys L22)).p ∧ 1 ≤ U22.p ∧ 1 ≤ (toSys (.sys L22)).m
        from by decide), lftSS_error_iff, SS.det_lftF] at h
    have h0 : (lftUpper U22 1 1 (by decide) (by decide)).D = 0 := by
      ext i j; rfl
    have hz : (0 : Matrix (Fin (U22.p - 1) ⊕ Fin 1) (Fin (U22.m - 1) ⊕ Fin 1) ℚ).toBlocks₂₂ = 0 := by
      ext i j; rfl
    rw [h0, hz, Matrix.zero_mul] at h
    simp at h
  · ext i j; fin_cases i; fin_cases j
    have e1 : (finSumFinEquiv (Sum.inr 0) : Fin (1 + 1)) = 1 := rfl
    have e0 : (finSumFinEquiv (Sum.inl 0) : Fin (1 + 1)) = 0 := rfl
    simp [splitUpper, splitLower, toBlocks₂₂, toBlocks₁₁, Matrix.mul_apply, e0, e1]
    norm_num
  · rw [lft_resolved U22 (.sys L22) 3 1 3 1 rfl rfl .cont hdt]
    exact dif_neg (show ¬ (3 ≤ U22.m ∧ 3 ≤ (toSys (.sys L22)).p ∧ 1 ≤ U22.p ∧ 1 ≤ (toSys (.sys L22)).m)
      from by decide)
  · exact lft_negative U22 _ _ _ (Or.inl (by decide)) .cont hdt


end examples

end CtrlVerif.C02.RT
