/-
Source-text tie of the timebase section of `bdalg.combine_tf` and of `bdalg._ensure_tf` (C05; the
timebase of `combine_tf`, hence of `TransferFunction.append`).

`Generated/CombineDt.lean` is rewritten from the source text on every run
(harness/core/py2lean_combdt.py); it calls `Generated.commonTimebase`, the function generated from
the text of `common_timebase`.  The theorems prove: the nested loops fold `common` over all entries
in reading order, whatever the row structure; `_ensure_tf` keeps a `TransferFunction` after
re-checking its timebase against the common one and makes a `TransferFunction` with the common
timebase of anything else of at most two dimensions; and the whole head followed by the
constructor is the model `combineTfDt` the C05 tree theorems are about.
-/
import CtrlVerif.Props.C05Gen
import CtrlVerif.Model.DtOps
import CtrlVerif.Generated.CombineDt

namespace CtrlVerif.C05GenComb

open PyComb Generated.Comb C05Gen

/-- an operand of the timebase calculus as an entry of `tf_array` (systems are transfer functions). -/
def toEntry : Arg → Entry
  | .sys s => .tf s.dt
  | .scalar => .arr 0
  | .array => .arr 2

theorem toEntry_dt (a : Arg) : getattrDt (toEntry a) = a.dt := by cases a <;> rfl

theorem generated_dtInner_eq (row : List Entry) (d : Dt) :
    dtInner row d = row.foldlM (fun acc e => common acc (getattrDt e)) d := by
  induction row generalizing d with
  | nil => rfl
  | cons e rest ih =>
    simp only [dtInner, generated_common_eq, List.foldlM_cons]
    cases common d (getattrDt e) with
    | error _ => rfl
    | ok d' => exact ih d'

/-- **the nested loops fold `common_timebase` over all entries in reading order** — the row
structure does not matter for the timebase. -/
theorem generated_dtOuter_eq (rows : List (List Entry)) (d : Dt) :
    dtOuter rows d = rows.flatten.foldlM (fun acc e => common acc (getattrDt e)) d := by
  induction rows generalizing d with
  | nil => rfl
  | cons row rest ih =>
    simp only [dtOuter, generated_dtInner_eq, List.flatten_cons, List.foldlM_append]
    cases List.foldlM (fun acc e => common acc (getattrDt e)) d row with
    | error _ => rfl
    | ok d' => exact ih d'

/-- `_ensure_tf` on a transfer function: returned as it is, after its timebase was checked against
the common one (no check when that is `None`). -/
theorem generated_ensureTf_tf (d0 d : Dt) :
    ensureTf (.tf d0) d = if d = .none then .ok (.tf d0)
      else (do let _ ← common d0 d; pure (.tf d0)) := by
  unfold ensureTf
  cases d <;> simp [isTF, PyDt.isNone, getattrDt, generated_common_eq] <;> rfl

/-- `_ensure_tf` on an array-like: more than two dimensions raise, otherwise a transfer function
with the common timebase. -/
theorem generated_ensureTf_arr (n : Nat) (d : Dt) :
    ensureTf (.arr n) d = if n > 2 then .error .badArg else .ok (.tf d) := by
  unfold ensureTf; simp [isTF, ndim, mkTF]; rfl

/-- the per-block re-check of the model `combineTfDt` (second fold). -/
def chk (d : Dt) (b : Arg) : Except Err Unit :=
  match b with
  | .sys s => if d = .none then .ok () else (do let _ ← common s.dt d; .ok ())
  | _ => .ok ()

/-- what `_ensure_tf` makes of a block when it returns. -/
def ens (d : Dt) : Arg → Entry
  | .sys s => .tf s.dt
  | _ => .tf d

theorem generated_ensureTf_block (d : Dt) (b : Arg) :
    ensureTf (toEntry b) d = (do let _ ← chk d b; pure (ens d b)) := by
  cases b with
  | sys s =>
    simp only [toEntry, generated_ensureTf_tf, chk, ens]
    by_cases h : d = .none
    · simp [h]
    · simp only [h, if_false]
      cases common s.dt d <;> rfl
  | scalar => simp [toEntry, generated_ensureTf_arr, chk, ens]
  | array => simp [toEntry, generated_ensureTf_arr, chk, ens]

theorem generated_ensInner_eq (d : Dt) (bs : List Arg) (acc : List Entry) :
    ensInner d (bs.map toEntry) acc
      = (do let _ ← bs.foldlM (fun (_ : Unit) b => chk d b) (); pure (acc ++ bs.map (ens d))) := by
  induction bs generalizing acc with
  | nil => simp [ensInner]
  | cons b rest ih =>
    simp only [List.map_cons, ensInner, generated_ensureTf_block, List.foldlM_cons]
    cases chk d b with
    | error _ => rfl
    | ok u =>
      simp only [bind, Except.bind, pure, Except.pure] at ih ⊢
      rw [ih]
      simp

theorem combineTfDt_unfold (blocks : List Arg) (cfg : DtArg) :
    combineTfDt blocks cfg = (do
      let d ← blocks.foldlM (fun acc b => common acc b.dt) Dt.none
      let _ ← blocks.foldlM (fun (_ : Unit) b => chk d b) ()
      let y ← givenDt d cfg
      .ok ⟨.tf, y⟩) := rfl

/-- **The head of `combine_tf` followed by the constructor is the model `combineTfDt`** (one block
row, systems being transfer functions): same timebase, same inputs raise, with the same error. -/
theorem generated_combineHead_model (blocks : List Arg) (cfg : DtArg) :
    (do let r ← combineHead [blocks.map toEntry]
        let y ← givenDt r.1 cfg
        pure (⟨.tf, y⟩ : Sys)) = combineTfDt blocks cfg := by
  rw [combineTfDt_unfold]
  unfold combineHead
  have h1 : dtOuter [blocks.map toEntry] Dt.none
      = blocks.foldlM (fun acc b => common acc b.dt) Dt.none := by
    rw [generated_dtOuter_eq]
    simp only [List.flatten_cons, List.flatten_nil, List.append_nil, List.foldlM_map, toEntry_dt]
  simp only [h1]
  cases blocks.foldlM (fun acc b => common acc b.dt) Dt.none with
  | error _ => rfl
  | ok d =>
    simp only [bind, Except.bind, ensOuter, generated_ensInner_eq, List.nil_append, pure, Except.pure]
    cases blocks.foldlM (fun (_ : Unit) b => chk d b) () with
    | error _ => rfl
    | ok _ => rfl

/-- the timebase does not depend on how the blocks are arranged in rows. -/
theorem generated_combine_dt_row_independent (rows : List (List Entry)) :
    dtOuter rows Dt.none = dtOuter [rows.flatten] Dt.none := by
  rw [generated_dtOuter_eq, generated_dtOuter_eq]; simp

example : combineHead [[.tf .dtrue, .arr 0], [.arr 2, .tf (.disc (1 / 4))]]
    = .ok (.disc (1 / 4), [[.tf .dtrue, .tf (.disc (1 / 4))], [.tf (.disc (1 / 4)), .tf (.disc (1 / 4))]]) := by
  decide +kernel

end CtrlVerif.C05GenComb
