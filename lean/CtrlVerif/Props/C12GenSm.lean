/-
Source-text tie of the SELECTION LOGIC of `stability_margins` (C12; DESIGN §10.3,
notes/NOTES-py2lean-margins.md).  `Generated/MargSel.lean` is rewritten on every run from the text of
`control/margins.py:stability_margins` of the tree under check by `harness/core/py2lean_marg.py`:
the branch for a transfer function (`if isinstance(sys, xferfcn.TransferFunction):`) and everything
after it, cut into three definitions —
  `smCand`    the statement `if sys.isctime(): … else: …` (calls of the generated root filters,
              evaluation of the loop at the candidates; `sys(·)` is the parameter `sysEval`,
              `_poly_iw(sys)`, `_poly_z_wstab(…)` are inputs),
  `smSelect`  `resp <= 0.`, the three `argsort`s, `GM`, `PM`, `SM`,
  `smReturn`  the final `if returnall: … else: …` (minima, `np.where`, the `(not … and inf) or …` idiom),
and their composition `stabilityMarginsSel`.  This file proves the first two equal to the selection
logic of the hand-written model; `Props/C12GenSmRet.lean` the third, `Props/C12GenSmTop.lean` the
composition and the transported theorems `genuine` / `complete`.
-/
import CtrlVerif.Generated.MargSel
import CtrlVerif.Lemmas.PyMarg
import CtrlVerif.Props.C12GenSel

namespace CtrlVerif.C12GenSel
open CtrlVerif CtrlVerif.Margins CtrlVerif.PyMarg

section
variable {K : Type} [Field K] [LinearOrder K] [IsStrictOrderedRing K] [FloorRing K]

/-- `GM = 1. / np.abs(r)` -/
def gmVal (P : Prims K) (r : Option (Cx K)) : XF K := XF.div (XF.fin 1) (rabs P.cabs r)
/-- `PM = np.remainder(np.angle(r, deg=True), 360.) - 180.` -/
def pmVal (P : Prims K) (r : Option (Cx K)) : XF K :=
  XF.sub (XF.remainder (rangle P.angleDeg r) 360) (XF.fin 180)
/-- `SM = np.abs(r + 1.)` -/
def smVal (P : Prims K) (r : Option (Cx K)) : XF K := rabs P.cabs (raddS r 1)

/-- `smSelect` on three lists of (frequency, response) pairs: phase crossings are the pairs whose
response is `<= 0`, each list is sorted by frequency (the model's `sortByW`, a stable merge sort),
`GM`, `PM`, `SM` are computed entry by entry. -/
theorem generated_smSelect_pairs (P : Prims K) (C1 C2 C3 : List (K × Option (Cx K))) :
    Generated.smSelect P (C1.map Prod.fst) (C2.map Prod.fst) (C3.map Prod.fst) (C1.map Prod.snd)
        (C2.map Prod.snd) (C3.map Prod.snd)
      = .ok ((sortByW (C1.filter fun c => cle0 c.2)).map (fun c => gmVal P c.2),
             (sortByW C2).map (fun c => pmVal P c.2), (sortByW C3).map (fun c => smVal P c.2),
             (sortByW (C1.filter fun c => cle0 c.2)).map Prod.fst, (sortByW C2).map Prod.fst,
             (sortByW C3).map Prod.fst) := by
  unfold Generated.smSelect
  simp only [List.map_map, Function.comp_def, mask_map_map, ok_bind', take_argsort_map, pure_eq_ok']
  rfl

/-- the same for arbitrary arrays of matching lengths. -/
theorem generated_smSelect_eq (P : Prims K) (W1 W2 W3 : List K) (R1 R2 R3 : List (Option (Cx K)))
    (h1 : W1.length = R1.length) (h2 : W2.length = R2.length) (h3 : W3.length = R3.length) :
    Generated.smSelect P W1 W2 W3 R1 R2 R3
      = .ok ((sortByW ((W1.zip R1).filter fun c => cle0 c.2)).map (fun c => gmVal P c.2),
             (sortByW (W2.zip R2)).map (fun c => pmVal P c.2),
             (sortByW (W3.zip R3)).map (fun c => smVal P c.2),
             (sortByW ((W1.zip R1).filter fun c => cle0 c.2)).map Prod.fst,
             (sortByW (W2.zip R2)).map Prod.fst, (sortByW (W3.zip R3)).map Prod.fst) := by
  have := generated_smSelect_pairs P (W1.zip R1) (W2.zip R2) (W3.zip R3)
  rw [List.map_fst_zip (by omega), List.map_snd_zip (by omega), List.map_fst_zip (by omega),
    List.map_snd_zip (by omega), List.map_fst_zip (by omega), List.map_snd_zip (by omega)] at this
  exact this

/-! ### the candidates -/

/-- `smCand`, continuous time, on `_poly_iw(sys) = (polyIw num, polyIw den)` and `sys(·) = respAt num den`:
the three filtered root lists of the model, each with the loop response at `j·w`. -/
theorem generated_smCand_continuous (P : Prims K) (num den n0 d0 : List K) (dt0 : K)
    (zw : List (Cx K) × List K) (epsw : K) :
    Generated.smCand P (respAt num den) true (polyIw num, polyIw den) n0 d0 dt0 zw epsw
      = .ok (((realRoots (P.npRoots (realCrossingPoly num den))).filter fun w => epsw ≤ w),
             ((realRoots (P.npRoots (mag1Poly num den))).filter fun w => epsw < w),
             (((realRoots (P.npRoots (wstabPoly num den))).filter fun w => epsw < w).filter
                fun w => 0 < polyval (polyder (wstabPoly num den)) w),
             ((realRoots (P.npRoots (realCrossingPoly num den))).filter fun w => epsw ≤ w).map
                (fun w => respAt num den (jw w)),
             ((realRoots (P.npRoots (mag1Poly num den))).filter fun w => epsw < w).map
                (fun w => respAt num den (jw w)),
             (((realRoots (P.npRoots (wstabPoly num den))).filter fun w => epsw < w).filter
                fun w => 0 < polyval (polyder (wstabPoly num den)) w).map
                (fun w => respAt num den (jw w))) := by
  unfold Generated.smCand
  simp only [if_true, generated_iwrealSel_eq, generated_iwmag1Sel_eq, generated_iwwstabSel_eq, ok_bind',
    pure_bind', List.map_map, Function.comp_def, pure_eq_ok']

/-- `smCand`, discrete time (`sys.num[0][0] = num`, `sys.den[0][0] = den`, `sys.dt = dt`,
`_poly_z_wstab(…) = (zs, ws)`): a non-proper system is rejected; otherwise the roots that pass the
model's `zFilter` and the `epsw` tests, with frequency `angle(z)/dt` and the loop response at `z`. -/
theorem generated_smCand_discrete (P : Prims K) (hc : CabsSpec P) (ha : AngleSpec P)
    (sysEval : Cx K → Option (Cx K)) (iw : (List K × List K) × (List K × List K))
    (num den : List K) (dt : K) (zs : List (Cx K)) (ws : List K) (epsw : K) (hdt : dt ≠ 0)
    (heps1 : zEps P (zRealP2 num den) ≤ 1) (heps2 : zEps P (zMag1P2 den) ≤ 1) :
    Generated.smCand P sysEval false iw num den dt (zs, ws) epsw
      = (zProper num den).bind fun _ => .ok
          (((zFilter (zEps P (zRealP2 num den)) (P.npRoots (zRealCrossingPoly num den))).filter
                fun z => epsw ≤ P.angle z / dt).map (fun z => P.angle z / dt),
           ((zFilter (zEps P (zMag1P2 den)) (P.npRoots (zMag1Poly num den))).filter
                fun z => epsw < P.angle z / dt).map (fun z => P.angle z / dt),
           ws,
           ((zFilter (zEps P (zRealP2 num den)) (P.npRoots (zRealCrossingPoly num den))).filter
                fun z => epsw ≤ P.angle z / dt).map sysEval,
           ((zFilter (zEps P (zMag1P2 den)) (P.npRoots (zMag1Poly num den))).filter
                fun z => epsw < P.angle z / dt).map sysEval,
           zs.map sysEval) := by
  unfold Generated.smCand
  simp only [Bool.false_eq_true, if_false, C12Gen.generated_zinvz_eq]
  unfold zProper
  by_cases h : num.length > den.length
  · simp only [h, if_true]; rfl
  · simp only [h, if_false, Except.map, ok_bind', generated_zrealSel_eq P hc ha num den dt epsw hdt heps1,
      generated_zmag1Sel_eq P hc ha num den dt epsw hdt heps2, pure_bind', pure_eq_ok']
    rfl

end
end CtrlVerif.C12GenSel
