/-
Source-text tie of `stability_margins` (C12), part 3: the default selection of the hand-written model
is what `Generated.smReturn` computes; composition `Generated.stabilityMarginsSel` for both time
domains; the headline theorems `genuine` / `complete` of `Props/C12.lean` transported to the function
the source text defines.
-/
import CtrlVerif.Props.C12GenSm
import CtrlVerif.Props.C12GenSmRet
import CtrlVerif.Lemmas.PyMargKeys

namespace CtrlVerif.C12GenSel
open CtrlVerif CtrlVerif.Margins CtrlVerif.PyMarg

section
variable {K : Type} [Field K] [LinearOrder K] [IsStrictOrderedRing K] [FloorRing K]

/-! ### the model's keys order as the floats the code compares -/

/-- for an angle in `(-180, 180]`: `|remainder(a, 360) - 180| = 180 - |a|`. -/
theorem abs_pm_eq (a : K) (h1 : -180 < a) (h2 : a ≤ 180) :
    |(a - 360 * ((⌊a / 360⌋ : ℤ) : K)) - 180| = 180 - |a| := by
  rcases le_or_gt 0 a with h | h
  · have hf : ⌊a / 360⌋ = 0 := by
      rw [Int.floor_eq_iff]
      constructor
      · simpa using div_nonneg h (by norm_num : (0 : K) ≤ 360)
      · rw [div_lt_iff₀ (by norm_num : (0 : K) < 360)]; simp; linarith
    rw [hf, abs_of_nonneg h]
    simp only [Int.cast_zero, mul_zero, sub_zero]
    rw [abs_of_nonpos (by linarith)]; ring
  · have hf : ⌊a / 360⌋ = -1 := by
      rw [Int.floor_eq_iff]
      constructor
      · rw [le_div_iff₀ (by norm_num : (0 : K) < 360)]; simp; linarith
      · rw [div_lt_iff₀ (by norm_num : (0 : K) < 360)]; simp; linarith
    rw [hf, abs_of_neg h]
    simp only [Int.cast_neg, Int.cast_one, mul_neg, mul_one, sub_neg_eq_add]
    rw [abs_of_nonneg (by linarith)]; ring

theorem pmVal_some (P : Prims K) (r : Cx K) :
    XF.abs (pmVal P (some r)) =
      .fin |(P.angleDeg r - 360 * ((⌊P.angleDeg r / 360⌋ : ℤ) : K)) - 180| := by
  simp [pmVal, rangle, XF.remainder, XF.sub, XF.add, XF.neg, XF.abs, sub_eq_add_neg]

/-- the code's selection of the default phase margin is the model's `defaultPm`. -/
theorem firstMin_pm (P : Prims K) (hd : AngleDegSpec P) {α : Type} (B : List (α × Cx K)) :
    FirstMin (fun c => XF.abs (pmVal P (some c.2))) B (defaultPm B) := by
  unfold defaultPm
  cases h : argminBy (fun c : α × Cx K => pmKey c.2) B with
  | none => exact (argminBy_eq_none _ _).mp h
  | some a =>
    refine find_min_eq_argminBy B _ (fun c => pmKey c.2) ?_ ?_ a h
    · intro c _; rw [pmVal_some]; rfl
    · intro c _ d _
      rw [pmVal_some, pmVal_some]
      have hc := hd.range c.2
      have hd' := hd.range d.2
      rw [abs_pm_eq _ hc.1 hc.2, abs_pm_eq _ hd'.1 hd'.2, ← hd.abs_anti]
      simp only [XF.toOrd, WithBot.coe_le_coe, WithTop.coe_le_coe]
      constructor <;> intro h' <;> linarith

theorem smVal_some (P : Prims K) (r : Cx K) : smVal P (some r) = .fin (P.cabs (r + 1)) := by
  simp [smVal, raddS, rabs]

/-- the code's selection of the default stability margin is the model's `defaultSm`. -/
theorem firstMin_sm (P : Prims K) (hc : CabsSpec P) {α : Type} (S : List (α × Cx K)) :
    FirstMin (fun c => smVal P (some c.2)) S (defaultSm S) := by
  unfold defaultSm
  cases h : argminBy (fun c : α × Cx K => smKey c.2) S with
  | none => exact (argminBy_eq_none _ _).mp h
  | some a =>
    refine find_min_eq_argminBy S _ (fun c => smKey c.2) ?_ ?_ a h
    · intro c _; rw [smVal_some]; rfl
    · intro c _ d _
      rw [smVal_some, smVal_some]
      simp only [XF.toOrd, WithBot.coe_le_coe, WithTop.coe_le_coe, smKey]
      exact hc.le_iff _ _

theorem gmVal_some (P : Prims K) (r : Cx K) :
    gmVal P (some r) = if P.cabs r = 0 then .pinf else .fin (P.cabs r)⁻¹ := by
  by_cases h : P.cabs r = 0
  · simp [gmVal, rabs, XF.div, XF.recip, XF.mul, XF.signedInf, h]
  · simp [gmVal, rabs, XF.div, XF.recip, XF.mul, h]

theorem gmVal_isInf (P : Prims K) (hc : CabsSpec P) (r : Cx K) :
    XF.isInf (gmVal P (some r)) = true ↔ normSq r = 0 := by
  rw [gmVal_some, ← hc.eq_zero_iff]
  by_cases h : P.cabs r = 0 <;> simp [h, XF.isInf]

/-- `|log GM|` as an extended float. -/
theorem gmLogKey (P : Prims K) (hc : CabsSpec P) (r : Cx K) :
    XF.abs (XF.log P.log (gmVal P (some r))) =
      if normSq r = 0 then .pinf else .fin |P.log (P.cabs r)⁻¹| := by
  rw [gmVal_some]
  by_cases h : P.cabs r = 0
  · have : normSq r = 0 := (hc.eq_zero_iff r).mp h
    simp [h, this, XF.log, XF.abs]
  · have hn : normSq r ≠ 0 := fun h' => h ((hc.eq_zero_iff r).mpr h')
    have hpos : 0 < (P.cabs r)⁻¹ := inv_pos.mpr (lt_of_le_of_ne (hc.nonneg r) (Ne.symm h))
    simp [h, hn, XF.log, XF.abs, hpos]

/-- the code's selection of the default gain margin is the model's `defaultGm`. -/
theorem firstMinGm_gm (P : Prims K) (hc : CabsSpec P) (hl : LogSpec P) {α : Type} (A : List (α × Cx K)) :
    FirstMinGm P (fun c => gmVal P (some c.2)) A (defaultGm A) := by
  cases h : defaultGm A with
  | none =>
    intro c hcA
    rw [gmVal_isInf P hc]
    exact (C12.default_gm_none A).mp h c hcA
  | some a =>
    have hmem := (C12.default_gm_min A a h)
    refine ⟨⟨a, hmem.1, ?_⟩, ?_⟩
    · have := (gmVal_isInf P hc a.2).not.mpr hmem.2.1
      simpa using this
    · have h' : argminBy (fun c : α × Cx K => gmKey c.2) A = some a := by
        apply argminBy_filter_top
        unfold defaultGm at h
        convert h using 3
        funext c
        simp [gmKey]
      refine find_min_eq_argminBy A _ (fun c => gmKey c.2) ?_ ?_ a h'
      · intro c _; rw [gmLogKey P hc]; split <;> rfl
      · intro c _ d _
        rw [gmLogKey P hc, gmLogKey P hc]
        by_cases h1 : normSq c.2 = 0 <;> by_cases h2 : normSq d.2 = 0
        · simp [h1, h2, gmKey]
        · simp [h1, h2, gmKey, XF.toOrd]
        · simp [h1, h2, gmKey, XF.toOrd]
        · have c1 : 0 < P.cabs c.2 :=
            lt_of_le_of_ne (hc.nonneg _) (fun e => h1 ((hc.eq_zero_iff _).mp e.symm))
          have c2 : 0 < P.cabs d.2 :=
            lt_of_le_of_ne (hc.nonneg _) (fun e => h2 ((hc.eq_zero_iff _).mp e.symm))
          simp only [h1, h2, if_false, gmKey, XF.toOrd, WithBot.coe_le_coe, WithTop.coe_le_coe]
          rw [hl.abs_le _ _ (inv_pos.mpr c1) (inv_pos.mpr c2), inv_inv, inv_inv, max_comm,
            max_comm (P.cabs d.2)⁻¹, max_inv_le_iff c1 c2, hc.sq, hc.sq]

/-- what `returnall=False` returns, from the model's three default selections: `gm = 1/|r|`,
`pm`, `sm = |r + 1|` of the selected responses and their frequencies (`w1 w2 w3` of the labels: the
identity in continuous time, `angle(z)/dt` in discrete time); `(inf, nan)` where there is none. -/
def smMins (P : Prims K) {α β γ : Type} (w1 : α → K) (w2 : β → K) (w3 : γ → K)
    (g : Option (α × Cx K)) (p : Option (β × Cx K)) (s : Option (γ × Cx K)) : SmOut K :=
  smMinsOf (fun c => gmVal P (some c.2)) (fun c => pmVal P (some c.2))
    (fun c => smVal P (some c.2)) (fun c => w1 c.1) (fun c => w2 c.1) (fun c => w3 c.1) g p s

/-- `Generated.smReturn`, `returnall=False`, on the arrays `smSelect` builds from three lists of
(frequency label, response) pairs: the model's default selection (`defaultGm`, `defaultPm`,
`defaultSm`), `inf` / `nan` where it is `none`. -/
theorem generated_smReturn_mins (P : Prims K) (hc : CabsSpec P) (hd : AngleDegSpec P) (hl : LogSpec P)
    {α β γ : Type} (w1 : α → K) (w2 : β → K) (w3 : γ → K) (A : List (α × Cx K)) (B : List (β × Cx K))
    (S : List (γ × Cx K)) :
    Generated.smReturn P false (A.map fun c => gmVal P (some c.2)) (B.map fun c => pmVal P (some c.2))
        (S.map fun c => smVal P (some c.2))
        (A.map fun c => w1 c.1) (B.map fun c => w2 c.1) (S.map fun c => w3 c.1)
      = .ok (smMins P w1 w2 w3 (defaultGm A) (defaultPm B) (defaultSm S)) :=
  generated_smReturn_mins_abs P A B S _ _ _ _ _ _ _ _ _
    (firstMinGm_gm P hc hl A) (firstMin_pm P hd B) (firstMin_sm P hc S)

/-! ### the model's lists are the sorted lists of pairs `smSelect` works on -/

theorem zip_map_self {β γ : Type} (X : List β) (f : β → γ) : X.zip (X.map f) = X.map fun w => (w, f w) := by
  induction X with
  | nil => rfl
  | cons a l ih => simp [ih]

theorem zip_map_map {β γ δ : Type} (X : List β) (g : β → γ) (f : β → δ) :
    (X.map g).zip (X.map f) = X.map fun w => (g w, f w) := by
  induction X with
  | nil => rfl
  | cons a l ih => simp [ih]

/-- the model's phase-crossing selection (drop candidates without a response, keep `r <= 0`) is the
code's boolean mask `resp <= 0.`. -/
theorem filterMap_sel_eq {β : Type} (L : List (β × Option (Cx K))) :
    (L.filterMap fun c => match c.2 with
        | some r => if lexLe0 r then some (c.1, r) else none
        | none => none).map (fun c => (c.1, some c.2))
      = L.filter fun c => cle0 c.2 := by
  induction L with
  | nil => rfl
  | cons a l ih =>
    obtain ⟨w, r⟩ := a
    cases r with
    | none => simp [List.filterMap_cons, List.filter_cons, cle0, ih]
    | some r =>
      by_cases h : lexLe0 r = true
      · simp [List.filterMap_cons, List.filter_cons, cle0, h, ih]
      · simp [List.filterMap_cons, List.filter_cons, cle0, h, ih]

theorem sortByW_map_snd {β γ : Type} (L : List (K × β)) (f : β → γ) :
    (sortByW L).map (fun c => (c.1, f c.2)) = sortByW (L.map fun c => (c.1, f c.2)) := by
  unfold sortByW
  exact List.map_mergeSort (fun a _ b _ => rfl)

theorem phaseCrossings_bridge (num den : List K) (epsw : K) (roots : List (Cx K)) :
    sortByW (((((realRoots roots).filter fun w => epsw ≤ w).zip
        (((realRoots roots).filter fun w => epsw ≤ w).map fun w => respAt num den (jw w)))).filter
          fun c => cle0 c.2)
      = (phaseCrossings num den epsw roots).map fun c => (c.1, some c.2) := by
  unfold phaseCrossings realAxisCandidates
  rw [sortByW_map_snd, zip_map_self]
  congr 1
  exact (filterMap_sel_eq _).symm

theorem gainCrossings_bridge (num den : List K) (epsw : K) (roots : List (Cx K)) :
    sortByW ((((realRoots roots).filter fun w => epsw < w).zip
        (((realRoots roots).filter fun w => epsw < w).map fun w => respAt num den (jw w))))
      = gainCrossings num den epsw roots := by
  unfold gainCrossings
  rw [zip_map_self]

theorem stabCrossings_bridge (num den : List K) (epsw : K) (roots : List (Cx K)) :
    sortByW (((((realRoots roots).filter fun w => epsw < w).filter
          fun w => 0 < polyval (polyder (wstabPoly num den)) w).zip
        ((((realRoots roots).filter fun w => epsw < w).filter
          fun w => 0 < polyval (polyder (wstabPoly num den)) w).map fun w => respAt num den (jw w))))
      = stabCrossings num den epsw roots := by
  unfold stabCrossings
  rw [zip_map_self]

/-! ### `stability_margins` as the source text defines it, continuous time -/

/-- what `returnall=True` returns, from the model's three lists. -/
def smAllOf (P : Prims K) (A : List (K × Cx K)) (B S : List (K × Option (Cx K))) : SmOut K :=
  .all (A.map fun c => gmVal P (some c.2)) (B.map fun c => pmVal P c.2) (S.map fun c => smVal P c.2)
    (A.map Prod.fst) (B.map Prod.fst) (S.map Prod.fst)

/-- **continuous time, `returnall=True`**: the function the source text defines returns exactly the
model's `phaseCrossings`, `gainCrossings`, `stabCrossings` (applied to what `np.roots` returns for the
model's three test polynomials), as `GM = 1/|r|`, `PM`, `SM = |r + 1|` and the three frequency arrays,
in the documented order — for every loop, every `epsw`, every root finder. -/
theorem generated_sm_continuous_all (P : Prims K) (num den n0 d0 : List K) (dt0 : K)
    (zw : List (Cx K) × List K) (epsw : K) :
    Generated.stabilityMarginsSel P (respAt num den) true (polyIw num, polyIw den) n0 d0 dt0 zw true epsw
      = .ok (smAllOf P (phaseCrossings num den epsw (P.npRoots (realCrossingPoly num den)))
          (gainCrossings num den epsw (P.npRoots (mag1Poly num den)))
          (stabCrossings num den epsw (P.npRoots (wstabPoly num den)))) := by
  unfold Generated.stabilityMarginsSel
  rw [generated_smCand_continuous, ok_bind']
  simp only []
  rw [generated_smSelect_eq P _ _ _ _ _ _ (by simp) (by simp) (by simp), ok_bind']
  simp only [generated_smReturn_all, phaseCrossings_bridge, gainCrossings_bridge, stabCrossings_bridge,
    smAllOf, List.map_map, Function.comp_def]

theorem allSome_eq_some {β γ : Type} (l : List (β × Option γ)) (l' : List (β × γ))
    (h : allSome l = some l') : l = l'.map fun c => (c.1, some c.2) := by
  induction l generalizing l' with
  | nil => simp [allSome] at h; subst h; rfl
  | cons a l ih =>
    obtain ⟨w, r⟩ := a
    cases r with
    | none => simp [allSome] at h
    | some r =>
      simp only [allSome, Option.map_eq_some_iff] at h
      obtain ⟨t, ht, rfl⟩ := h
      simp [ih t ht]

/-- **continuous time, `returnall=False`** (under the contracts of `np.abs`, `np.angle(·, deg=True)`,
`np.log`; all responses at the gain crossings and stationary points exist — otherwise the model's
default is undefined and the code raises `IndexError`): the function the source text defines returns
`gm, pm, sm, wpc, wgc, wms` of the model's `defaultGm` / `defaultPm` / `defaultSm` — the first
minimiser of `|log gm|`, `|pm|`, `sm` —, `inf` / `nan` where there is no crossing. -/
theorem generated_sm_continuous_mins (P : Prims K) (hc : CabsSpec P) (hd : AngleDegSpec P)
    (hl : LogSpec P) (num den n0 d0 : List K) (dt0 : K) (zw : List (Cx K) × List K) (epsw : K)
    (Bs Ss : List (K × Cx K))
    (hB : allSome (gainCrossings num den epsw (P.npRoots (mag1Poly num den))) = some Bs)
    (hS : allSome (stabCrossings num den epsw (P.npRoots (wstabPoly num den))) = some Ss) :
    Generated.stabilityMarginsSel P (respAt num den) true (polyIw num, polyIw den) n0 d0 dt0 zw false epsw
      = .ok (smMins P id id id
          (defaultGm (phaseCrossings num den epsw (P.npRoots (realCrossingPoly num den))))
          (defaultPm Bs) (defaultSm Ss)) := by
  unfold Generated.stabilityMarginsSel
  rw [generated_smCand_continuous, ok_bind']
  simp only []
  rw [generated_smSelect_eq P _ _ _ _ _ _ (by simp) (by simp) (by simp), ok_bind']
  simp only [phaseCrossings_bridge, gainCrossings_bridge, stabCrossings_bridge,
    allSome_eq_some _ _ hB, allSome_eq_some _ _ hS, List.map_map, Function.comp_def]
  exact generated_smReturn_mins P hc hd hl id id id _ _ _

end
end CtrlVerif.C12GenSel
