/-
C03 — Conversions between representations preserve the input/output map.

Property theorems only (helper lemmas live in `Lemmas/Convert.lean`).  `K` is an arbitrary field.
The value of a system at a point `s` is `SS.Resp` for a state-space system (`(sI - A) X = B`,
`Y = C X + D`; unique off the poles, C02) and `num(s)/den(s)` with `den(s) ≠ 0` for a transfer
function (`TFVal`).  Every conversion theorem says: whatever is a value of the source at `s` is a
value of the converted system at `s` (where the converted system is regular), and the shape, the
timebase and the labels are the stated ones; every error branch has its own theorem.
-/
import CtrlVerif.Lemmas.Convert
import CtrlVerif.Props.C02
import CtrlVerif.Props.C09

namespace CtrlVerif.C03

open CtrlVerif CtrlVerif.Convert Matrix

variable {K : Type} [Field K] [DecidableEq K]

/-! ### tf → ss -/

/-- **controller canonical form**: for a monic denominator `a` (`a 0 = 1`) of degree `n` and a
numerator `b` of degree `≤ n` (coefficient functions, highest power first), the realisation
SciPy's `tf2ss` builds responds at every `s` with `a(s) ≠ 0` with `b(s)/a(s)`; the witness is the
state response `X_k = s^(n-1-k) / a(s)`. -/
theorem tf2ss_ccf_resp (n : Nat) (a b : Nat → K) (s : K) (ha : a 0 = 1) (hd : psum a n s ≠ 0) :
    (ccf n a b).Resp s (fun _ _ => psum b n s / psum a n s) :=
  ccf_resp n a b s ha hd

example : (ccf 2 (fun k => [1, 3, 2].getD k (0 : ℚ)) (fun k => [2, 1, 5].getD k 0)).Resp 1
    (fun _ _ => 8 / 6) := by
  have := tf2ss_ccf_resp 2 (fun k => [1, 3, 2].getD k (0 : ℚ)) (fun k => [2, 1, 5].getD k 0) 1 rfl
    (by norm_num [psum, Finset.sum_range_succ])
  convert this using 2
  norm_num [psum, Finset.sum_range_succ]

/-- shape, timebase and state dimension of `tf2ss` on coefficient lists: a SISO system with
`len(den) - 1` states (after stripping the leading zeros of `den`). -/
theorem tf2ss_shape (num den : List K) (dt : Dt) (S : DSS K) (h : tf2ssList num den dt = .ok S) :
    S.p = 1 ∧ S.m = 1 ∧ S.dt = dt ∧ S.n + 1 = (den.dropWhile (· = 0)).length := by
  unfold tf2ssList at h
  split at h
  · cases h
  · rename_i a0 ar hdw
    split at h
    · cases h
    · cases h
      exact ⟨rfl, rfl, rfl, by simp [hdw]⟩

/-- **`tf2ss` on coefficient lists** (`scipy.signal.tf2ss` for a SISO system): whenever it returns,
the result responds at every `s` with `den(s) ≠ 0` with `num(s)/den(s)`. -/
theorem tf2ss_resp (num den : List K) (dt : Dt) (S : DSS K) (h : tf2ssList num den dt = .ok S)
    (s : K) (hs : polyval den s ≠ 0) :
    S.sys.Resp s (fun _ _ => polyval num s / polyval den s) := by
  unfold tf2ssList at h
  split at h
  · cases h
  · rename_i a0 ar hdw
    split at h
    · cases h
    · rename_i hlen
      cases h
      have ha0 : a0 ≠ 0 := by
        have hne : List.dropWhile (fun x => decide (x = 0)) den ≠ [] := by rw [hdw]; simp
        have := List.head_dropWhile_not (fun x : K => decide (x = 0)) hne
        simp only [hdw, List.head_cons, decide_eq_false_iff_not] at this
        exact this
      have hden : polyval den s = polyval (a0 :: ar) s := by
        rw [← hdw, polyval_dropWhile_zero]
      have hA : psum (fun k => (a0 :: ar).getD k 0 / a0) ar.length s = polyval den s / a0 := by
        rw [hden, polyval_eq_psum]
        unfold psum
        rw [Finset.sum_div]
        apply Finset.sum_congr rfl
        intro k _; ring
      obtain ⟨c, p, hL⟩ := List.exists_cons_of_length_eq_add_one
        (l := padLeft (ar.length + 1) num) (n := ar.length) (by rw [length_padLeft]; omega)
      have hp : p.length = ar.length := by
        have := congrArg List.length hL
        rw [length_padLeft] at this
        simp only [List.length_cons] at this
        omega
      have hB : psum (fun k => (padLeft (ar.length + 1) num).getD k 0 / a0) ar.length s
          = polyval num s / a0 := by
        rw [← polyval_padLeft (ar.length + 1) num, hL, polyval_eq_psum, hp]
        unfold psum
        rw [Finset.sum_div]
        apply Finset.sum_congr rfl
        intro k _; ring
      have hd : psum (fun k => (a0 :: ar).getD k 0 / a0) ar.length s ≠ 0 := by
        rw [hA]; exact div_ne_zero hs ha0
      have := ccf_resp ar.length (fun k => (a0 :: ar).getD k 0 / a0)
        (fun k => (padLeft (ar.length + 1) num).getD k 0 / a0) s
        (by simp [div_self ha0]) hd
      rw [hA, hB] at this
      have e : polyval num s / a0 / (polyval den s / a0) = polyval num s / polyval den s := by
        field_simp
      rw [e] at this
      exact this

example : ∃ S, tf2ssList [2, 1, 5] [2, 6, (4 : ℚ)] .cont = .ok S := ⟨_, rfl⟩

/-- SciPy's own guard: a numerator longer than the (stripped) denominator is an error. -/
theorem tf2ss_improper_raises (num den : List K) (dt : Dt)
    (h : num.length > (den.dropWhile (· = 0)).length) (hne : den.dropWhile (· = 0) ≠ []) :
    tf2ssList num den dt = .error .nonProper := by
  unfold tf2ssList
  split
  · rename_i h0; exact absurd h0 hne
  · rename_i a0 ar hdw
    rw [hdw] at h
    simp only [List.length_cons] at h
    rw [if_pos h]

/-- **a non-proper SISO transfer function raises** `ValueError("transfer function is non-proper")`. -/
theorem nonproper_siso_raises (f : Frac K) (dt : Dt) (h : f.num.length > f.den.length) :
    toSS ⟨1, 1, TFM.siso f, dt⟩ = .error .nonProper := by
  have : properCheckFails (⟨1, 1, TFM.siso f, dt⟩ : DTF K) = true := by
    simp only [properCheckFails, lens, TFM.siso, List.finRange_succ, List.finRange_zero,
      List.map_cons, List.map_nil, lexGt, lexGtNat]
    have hne : ¬ f.num.length = f.den.length := by omega
    simp [hne, h]
  unfold toSS
  rw [if_pos this]

example : toSS (⟨1, 1, TFM.siso ⟨[1, 2, 3], [1, (1 : ℚ)]⟩, .cont⟩ : DTF ℚ) = .error .nonProper :=
  nonproper_siso_raises _ _ (by decide)

/-- **a transfer function with a non-proper entry is never converted**: whatever the position of
the entry (the code's test is a lexicographic comparison of the nested length lists, which can
miss it), the conversion raises — `nonProper` when the test sees it, `notImplemented` (MIMO
without Slycot) when it does not. -/
theorem nonproper_raises (G : DTF K) (h : ∃ i j, (G.sys.e i j).num.length > (G.sys.e i j).den.length) :
    toSS G = .error .nonProper ∨ toSS G = .error .notImplemented := by
  obtain ⟨i, j, hij⟩ := h
  unfold toSS
  by_cases h1 : properCheckFails G = true
  · left; rw [if_pos h1]
  · rw [if_neg h1]
    by_cases h2 : (allLenOne G Frac.num && allLenOne G Frac.den) = true
    · exfalso
      rw [Bool.and_eq_true] at h2
      obtain ⟨c, hc⟩ := allLenOne_spec G Frac.num h2.1 i j
      obtain ⟨d, hd⟩ := allLenOne_spec G Frac.den h2.2 i j
      rw [hc, hd] at hij
      simp at hij
    · rw [if_neg h2]
      by_cases h3 : (!G.isSiso) = true
      · right; rw [if_pos h3]
      · exfalso
        obtain ⟨p, m, sys, dt⟩ := G
        simp only [DTF.isSiso, Bool.not_eq_true', Bool.not_eq_false, Bool.and_eq_true, beq_iff_eq]
          at h3
        obtain ⟨rfl, rfl⟩ := h3
        apply h1
        have hi : i = 0 := Subsingleton.elim _ _
        have hj : j = 0 := Subsingleton.elim _ _
        subst hi hj
        simp only [properCheckFails, lens, List.finRange_succ, List.finRange_zero,
          List.map_cons, List.map_nil, lexGt, lexGtNat]
        dsimp only at hij
        have hne : ¬ (sys.e 0 0).num.length = (sys.e 0 0).den.length := by omega
        simp [hne, hij]

/-- the lexicographic test does miss entries: a `1 × 2` system whose second entry is non-proper
behind a strictly proper first entry is rejected as "MIMO", not as "non-proper". -/
example : toSS (⟨1, 2, ⟨fun _ j => if j = 0 then ⟨[1], [1, 1, 1]⟩ else ⟨[1, 2, 3], [1, (2 : ℚ)]⟩⟩,
    .cont⟩ : DTF ℚ) = .error .notImplemented := by rfl

/-- **`_convert_to_statespace` preserves the map**: whenever a transfer function `G` is converted,
the result has the same shape and timebase and every value of `G` at `s` is a value of the result. -/
theorem toSS_val (G : DTF K) (S : DSS K) (h : toSS G = .ok S) :
    S.p = G.p ∧ S.m = G.m ∧ S.dt = G.dt ∧ ∀ s Y, TFVal G s Y → SSVal S s Y := by
  unfold toSS at h
  split at h
  · cases h
  · split at h
    · rename_i hst
      cases h
      refine ⟨rfl, rfl, rfl, fun s Y hY => ?_⟩
      rw [Bool.and_eq_true] at hst
      unfold SSVal
      rw [SS.Resp.static_iff]
      ext i j
      obtain ⟨c, hc⟩ := allLenOne_spec G Frac.num hst.1 i j
      obtain ⟨d, hd⟩ := allLenOne_spec G Frac.den hst.2 i j
      have := (hY i j).2
      simp only [Matrix.of_apply, SS.static, staticGain, hc, hd] at this ⊢
      rw [this]
      simp [polyval]
    · split at h
      · cases h
      · rename_i hs
        obtain ⟨p, m, sys, dt⟩ := G
        simp only [DTF.isSiso, Bool.not_eq_true', Bool.not_eq_false, Bool.and_eq_true, beq_iff_eq]
          at hs
        obtain ⟨rfl, rfl⟩ := hs
        have hf : (⟨1, 1, sys, dt⟩ : DTF K).frac00 = sys.e 0 0 := by
          simp [DTF.frac00]
        rw [hf] at h
        obtain ⟨e1, e2, e3, _⟩ := tf2ss_shape _ _ _ S h
        refine ⟨e1, e2, e3, fun s Y hY => ?_⟩
        have hv := hY 0 0
        have hr := tf2ss_resp _ _ _ S h s hv.1
        unfold SSVal
        have hM : (Matrix.of fun (i : Fin S.p) (j : Fin S.m) => Y i.val j.val)
            = fun _ _ => polyval (sys.e 0 0).num s / polyval (sys.e 0 0).den s := by
          ext i j
          have hi : i.val = 0 := by have := i.isLt; omega
          have hj : j.val = 0 := by have := j.isLt; omega
          simp only [Matrix.of_apply, hi, hj]
          exact hv.2
        rw [hM]
        exact hr

/-! ### ss → tf -/

section ss2tf
variable {σ ι o : Type*} [Fintype σ] [DecidableEq σ]

/-- **the certificate**: if the proposed list `[(c₁, M₀), …, (c_n, M_{n-1})]` checks
(`M₀ = I`, `M_k = A M_{k-1} + c_k I`, `A M_{n-1} + c_n I = 0`), then for every `s`
`(sI - A) · Σ M_k s^{n-1-k} = d(s) · I` with `d = s^n + c₁ s^{n-1} + … + c_n`. -/
theorem ss2tf_certificate (A : Matrix σ σ K) (steps : List (K × Matrix σ σ K))
    (hok : chainOK A 1 steps) (s : K) :
    (s • (1 : Matrix σ σ K) - A) * polyMatVal (steps.map (·.2)) s
      = polyval (cden steps) s • (1 : Matrix σ σ K) :=
  flv_identity A steps hok s

/-- **`ss2tf` preserves the map**: with a checked certificate, at every `s` that is not a root of
the common denominator, every value `Y` of the state-space system is entry by entry the value
`N_ij(s)/d(s)` of the proposed numerators and denominator. -/
theorem ss2tf_sem (G : SS σ ι o K) (steps : List (K × Matrix σ σ K)) (hok : chainOK G.A 1 steps)
    (s : K) (hd : polyval (cden steps) s ≠ 0) (Y : Matrix o ι K) (h : G.Resp s Y) (i : o) (j : ι) :
    Y i j = polyval (cnum G steps i j) s / polyval (cden steps) s := by
  obtain ⟨X, hX, rfl⟩ := h
  have hXe := solve_of_right_inverse hd (flv_identity G.A steps hok s) hX
  rw [cnum_val, hXe]
  simp only [Matrix.add_apply, Matrix.mul_smul, Matrix.smul_apply, smul_eq_mul, Matrix.mul_assoc]
  field_simp

/-- … and such a value exists: off the roots of `d` the system responds with `N(s)/d(s)`. -/
theorem ss2tf_resp_exists (G : SS σ ι o K) (steps : List (K × Matrix σ σ K))
    (hok : chainOK G.A 1 steps) (s : K) (hd : polyval (cden steps) s ≠ 0) :
    G.Resp s (Matrix.of fun i j => polyval (cnum G steps i j) s / polyval (cden steps) s) := by
  refine ⟨(polyval (cden steps) s)⁻¹ • (polyMatVal (steps.map (·.2)) s * G.B), ?_, ?_⟩
  · rw [Matrix.mul_smul, ← Matrix.mul_assoc, flv_identity G.A steps hok s, Matrix.smul_mul,
      Matrix.one_mul, smul_smul, inv_mul_cancel₀ hd, one_smul]
  · ext i j
    rw [Matrix.of_apply, cnum_val]
    simp only [Matrix.add_apply, Matrix.mul_smul, Matrix.smul_apply, smul_eq_mul, Matrix.mul_assoc]
    field_simp

/-- off the roots of `d` the value is unique (`sI - A` is invertible there). -/
theorem ss2tf_regular_isUnit (A : Matrix σ σ K) (steps : List (K × Matrix σ σ K))
    (hok : chainOK A 1 steps) (s : K) (hd : polyval (cden steps) s ≠ 0) :
    IsUnit (s • (1 : Matrix σ σ K) - A) := by
  have h := flv_identity A steps hok s
  have h1 : (s • (1 : Matrix σ σ K) - A) * ((polyval (cden steps) s)⁻¹ • polyMatVal (steps.map (·.2)) s)
      = 1 := by
    rw [Matrix.mul_smul, h, smul_smul, inv_mul_cancel₀ hd, one_smul]
  exact ⟨⟨_, _, h1, mul_eq_one_comm.mp h1⟩, rfl⟩

end ss2tf

section complete
open Polynomial
variable {σ : Type*} [Fintype σ] [DecidableEq σ]

/-- **the certificate format is complete**: for every square matrix there is a list that checks,
with common denominator the characteristic polynomial (Cayley–Hamilton). -/
theorem ss2tf_certificate_exists (A : Matrix σ σ K) :
    ∃ steps : List (K × Matrix σ σ K), chainOK A 1 steps ∧ toPoly (cden steps) = A.charpoly := by
  obtain ⟨cs, hcs⟩ := exists_monic_list A.charpoly (Matrix.charpoly_monic A)
  refine ⟨genSteps A 1 cs, ?_, ?_⟩
  · rw [chainOK_gen]
    have h1 := foldl_aeval A cs (1 : K[X])
    rw [map_one] at h1
    rw [h1]
    have h2 : cs.foldl (fun acc c => acc * X + C c) (1 : K[X]) = toPoly (1 :: cs) := by
      simp [toPoly]
    rw [h2, hcs]
    exact Matrix.aeval_self_charpoly A
  · rw [cden, genSteps_fst, hcs]

end complete

/-- the certificate is not vacuous: Faddeev–LeVerrier's proposal for a concrete `2 × 2` matrix
checks, and gives the characteristic polynomial `s² + 4 s + 3`. -/
example : chainOK (!![-1, 2; 0, -3] : Matrix (Fin 2) (Fin 2) ℚ) 1 (flvPropose !![-1, 2; 0, -3])
    ∧ cden (flvPropose (!![-1, 2; 0, -3] : Matrix (Fin 2) (Fin 2) ℚ)) = [1, 4, 3] := by
  decide +kernel

/-- **`_convert_to_transfer_function` preserves the map**: whenever a state-space system `G` is
converted, the result has the same shape and timebase, and — the certificate being checked —
every value of `G` at a regular `s` is the value of the resulting transfer function there. -/
theorem toTF_val (G : DSS K) (T : DTF K) (h : toTF G = .ok T) :
    T.p = G.p ∧ T.m = G.m ∧ T.dt = G.dt ∧
      ∀ s Y, certOK G = true → RegularAt G s → SSVal G s Y → TFVal T s Y := by
  unfold toTF at h
  split at h
  · rename_i h0
    cases hmk : TFM.mk' (o := Fin G.p) (ι := Fin G.m) fun i j => (⟨[G.sys.D i j], [1]⟩ : Frac K) with
    | error e => simp [hmk, bind, Except.bind] at h
    | ok R =>
      simp only [hmk, bind, Except.bind, pure, Except.pure, Except.ok.injEq] at h
      subst h
      refine ⟨rfl, rfl, rfl, fun s Y _ _ hY i j => ?_⟩
      obtain ⟨_, he⟩ := mk'_ok _ R hmk
      have : IsEmpty (Fin G.n) := by rw [h0]; infer_instance
      unfold SSVal at hY
      rw [SS.Resp.static_iff] at hY
      have hYij : Y i j = G.sys.D i j := by
        have := congrFun (congrFun hY i) j
        simpa using this
      dsimp only
      rw [he i j]
      refine ⟨norm_den_val _ s (by simp [polyval]), ?_⟩
      rw [norm_val', hYij]
      simp [polyval]
  · rename_i h0
    cases hmk : TFM.mk' (o := Fin G.p) (ι := Fin G.m)
        fun i j => ss2tfRaw G.sys (flvPropose G.sys.A) i j with
    | error e => simp [hmk, bind, Except.bind] at h
    | ok R =>
      simp only [hmk, bind, Except.bind, pure, Except.pure, Except.ok.injEq] at h
      subst h
      refine ⟨rfl, rfl, rfl, fun s Y hc hr hY i j => ?_⟩
      obtain ⟨_, he⟩ := mk'_ok _ R hmk
      have hok : chainOK G.sys.A 1 (flvPropose G.sys.A) := of_decide_eq_true hc
      have hd : polyval (cden (flvPropose G.sys.A)) s ≠ 0 := by
        rcases hr with h1 | h1
        · exact absurd h1 h0
        · exact h1
      have hv := ss2tf_sem G.sys _ hok s hd _ hY i j
      dsimp only
      rw [he i j]
      refine ⟨norm_den_val _ s hd, ?_⟩
      rw [norm_val']
      simpa [ss2tfRaw] using hv

/-! ### zpk -/

theorem polyFromRoots_val (zs : List K) (s : K) :
    polyval (polyFromRoots zs) s = (zs.map (s - ·)).prod := by
  have key : ∀ (acc : List K), polyval (zs.foldl (fun acc z => polymul acc [1, -z]) acc) s
      = polyval acc s * (zs.map (s - ·)).prod := by
    induction zs with
    | nil => intro acc; simp
    | cons z zs ih =>
      intro acc
      rw [List.foldl_cons, ih, polyval_polymul, List.map_cons, List.prod_cons]
      have : polyval [1, -z] s = s - z := by simp [polyval]; ring
      rw [this]; ring
  unfold polyFromRoots
  rw [key]
  simp [polyval]

/-- **`zpk(zeros, poles, gain)`** is `k ∏(s - z_i) / ∏(s - p_j)` at every `s` that is not a pole,
with the given timebase. -/
theorem zpk_eval (zs ps : List K) (k : K) (dt : Dt) (T : DTF K) (h : zpk zs ps k dt = .ok T)
    (s : K) (hp : ∀ q ∈ ps, s ≠ q) :
    T.dt = dt ∧ TFVal T s (fun _ _ => k * (zs.map (s - ·)).prod / (ps.map (s - ·)).prod) := by
  unfold zpk at h
  cases hmk : TFM.mk' (o := Fin 1) (ι := Fin 1) fun _ _ => zpk2tf zs ps k with
  | error e => simp [hmk, bind, Except.bind] at h
  | ok R =>
    simp only [hmk, bind, Except.bind, pure, Except.pure, Except.ok.injEq] at h
    subst h
    refine ⟨rfl, fun i j => ?_⟩
    obtain ⟨_, he⟩ := mk'_ok _ R hmk
    have hden : polyval (zpk2tf zs ps k).den s ≠ 0 := by
      simp only [zpk2tf, polyFromRoots_val]
      intro h0
      rw [List.prod_eq_zero_iff] at h0
      obtain ⟨q, hq, hq0⟩ := List.mem_map.mp h0
      exact hp q hq (sub_eq_zero.mp hq0)
    dsimp only
    rw [he i j]
    refine ⟨norm_den_val _ s hden, ?_⟩
    rw [norm_val']
    simp [zpk2tf, polyFromRoots_val, polyval_scale]

/-- a pole list that makes the denominator vanish identically does not exist (`numpy.poly` is
monic), so `zpk` never raises "zero denominator"; a zero gain gives the zero system `0/1`. -/
example : (match zpk [1] [2, 3] (0 : ℚ) .cont with
    | .ok T => decide (T.frac00 = ⟨[0], [1]⟩)
    | .error _ => false) = true := by decide +kernel

example : (match zpk [1, -1/2] [2, 3] (2 : ℚ) .dtrue with
    | .ok T => decide (T.frac00 = ⟨[2, -1, -1], [1, -5, 6]⟩ ∧ T.dt = .dtrue)
    | .error _ => false) = true := by decide +kernel

/-! ### frd(sys, omega) -/

section frd
variable {C : Type} [Field C] [DecidableEq C]

/-- the grid of `frd(sys, omega)` is the sorted rearrangement of the requested frequencies. -/
theorem frd_grid_sorted (ws : List ℚ) :
    (sortedGrid ws).Pairwise (· ≤ ·) ∧ (sortedGrid ws).Perm ws := by
  constructor
  · have := List.pairwise_mergeSort (le := fun a b : ℚ => decide (a ≤ b))
      (fun a b c hab hbc => by simp only [decide_eq_true_eq] at *; exact le_trans hab hbc)
      (fun a b => by simp only [Bool.or_eq_true, decide_eq_true_eq]; exact le_total a b) ws
    exact this.imp (by intro a b h; simpa using h)
  · exact List.mergeSort_perm ws _

/-- **`frd(sys, omega)` of a state-space system**: on the sorted grid, the matrix stored at the
`k`-th frequency is a value (`SS.Resp`) of the system at `jω_k` (continuous or unspecified
timebase) or `exp(jω_k dt)` (discrete); shape kept; a pole on the grid is an error. -/
theorem frd_of_ss (E : Env C) (ns p m : Nat) (G : SS (Fin ns) (Fin m) (Fin p) C) (dt : Dt)
    (ws : List ℚ) (F : DFRD C (sortedGrid ws).length)
    (h : frdOfSys E (.ss ns p m G dt) ws = .ok F) :
    ∃ (hp : F.p = p) (hm : F.m = m), (∀ k, F.sys.omega k = (sortedGrid ws).get k) ∧
      ∀ k, G.Resp (freqPoint E dt ((sortedGrid ws).get k))
        ((F.sys.data k).submatrix (Fin.cast hp.symm) (Fin.cast hm.symm)) := by
  unfold frdOfSys at h
  simp only [bind, Except.bind, pure, Except.pure] at h
  split at h
  · cases h
  · rename_i F0 hof
    simp only [Except.ok.injEq] at h
    subst h
    obtain ⟨hp, hm, hw, hr⟩ := C09.convert_ss_resp E _ 1 1 ns p m G dt F0 hof
    exact ⟨hp, hm, fun k => congrFun hw k, hr⟩

/-- **`frd(sys, omega)` of a transfer function**: every stored entry is `num(s)/den(s)` at
`s = jω_k` or `exp(jω_k dt)`, and no denominator vanishes there. -/
theorem frd_of_tf (E : Env C) (p m : Nat) (e : Fin p → Fin m → Frac C) (dt : Dt)
    (ws : List ℚ) (F : DFRD C (sortedGrid ws).length)
    (h : frdOfSys E (.tf p m e dt) ws = .ok F) :
    ∃ (hp : F.p = p) (hm : F.m = m), (∀ k, F.sys.omega k = (sortedGrid ws).get k) ∧
      ∀ k i j, (toPoly (e i j).den).eval (freqPoint E dt ((sortedGrid ws).get k)) ≠ 0 ∧
        F.sys.data k (Fin.cast hp.symm i) (Fin.cast hm.symm j) =
          (toPoly (e i j).num).eval (freqPoint E dt ((sortedGrid ws).get k)) /
            (toPoly (e i j).den).eval (freqPoint E dt ((sortedGrid ws).get k)) := by
  unfold frdOfSys at h
  simp only [bind, Except.bind, pure, Except.pure] at h
  split at h
  · cases h
  · rename_i F0 hof
    simp only [Except.ok.injEq] at h
    subst h
    obtain ⟨hp, hm, hw, hr⟩ := C09.convert_tf_eval E _ 1 1 p m e dt F0 hof
    exact ⟨hp, hm, fun k => congrFun hw k, hr⟩

/-- a pole of the system on the grid is an error, not a stored `inf`. -/
theorem frd_pole_raises (E : Env C) (L : LTI C) (ws : List ℚ)
    (hpole : ∃ k : Fin (sortedGrid ws).length,
      L.singularAt (freqPoint E L.dt ((sortedGrid ws).get k)) = true) :
    frdOfSys E L ws = .error .zeroDen := by
  unfold frdOfSys
  have := C09.convert_lti_pole_raises E
    (fun k : Fin (sortedGrid ws).length => (sortedGrid ws).get k) 1 1 L hpole
  simp only [DFRD.convert] at this
  simp only [bind, Except.bind]
  rw [this]

end frd

/-- the timebase and the names of `frd(sys, omega)`: the timebase of `sys` (also when it is
`None`), the labels of `sys` unless overridden, the name with `$sampled` unless generic. -/
theorem frd_names (μ : Meta) (dt : Dt) :
    frdDt dt = dt ∧ (frdMeta μ {}).inputs = μ.inputs ∧ (frdMeta μ {}).outputs = μ.outputs ∧
      (frdMeta μ {}).name = if μ.isGeneric then genericName else μ.name ++ "$" ++ "sampled" := by
  refine ⟨rfl, rfl, rfl, rfl⟩

/-! ### chains of conversions -/

/-- one step preserves shape and timebase, and carries values at `s` to values at `s`. -/
theorem step_val (st : Step) (r r' : Rep K) (h : stepRep st r = .ok r') :
    r'.p = r.p ∧ r'.m = r.m ∧ r'.dt = r.dt ∧
      ∀ s Y, StepOK st r s → Rep.Val r s Y → Rep.Val r' s Y := by
  have ss_case : ∀ (G : DSS K), (do let T ← toTF G; pure (Rep.tf T)) = Except.ok r' →
      r'.p = G.p ∧ r'.m = G.m ∧ r'.dt = G.dt ∧
        ∀ s Y, (certOK G = true ∧ RegularAt G s) → SSVal G s Y → Rep.Val r' s Y := by
    intro G h
    cases hT : toTF G with
    | error e => simp [hT, bind, Except.bind] at h
    | ok T =>
      simp only [hT, bind, Except.bind, pure, Except.pure, Except.ok.injEq] at h
      subst h
      obtain ⟨e1, e2, e3, hv⟩ := toTF_val G T hT
      exact ⟨e1, e2, e3, fun s Y hok hY => hv s Y hok.1 hok.2 hY⟩
  have tf_case : ∀ (G : DTF K), (do let S ← toSS G; pure (Rep.ss S)) = Except.ok r' →
      r'.p = G.p ∧ r'.m = G.m ∧ r'.dt = G.dt ∧ ∀ s Y, TFVal G s Y → Rep.Val r' s Y := by
    intro G h
    cases hS : toSS G with
    | error e => simp [hS, bind, Except.bind] at h
    | ok S =>
      simp only [hS, bind, Except.bind, pure, Except.pure, Except.ok.injEq] at h
      subst h
      obtain ⟨e1, e2, e3, hv⟩ := toSS_val G S hS
      exact ⟨e1, e2, e3, fun s Y hY => hv s Y hY⟩
  have id_case : ∀ (r0 : Rep K), r0 = r → (pure r0 : Except Err (Rep K)) = Except.ok r' →
      r'.p = r.p ∧ r'.m = r.m ∧ r'.dt = r.dt ∧
        ∀ s Y, StepOK st r s → Rep.Val r s Y → Rep.Val r' s Y := by
    intro r0 hr0 h
    simp only [pure, Except.pure, Except.ok.injEq] at h
    subst h hr0
    exact ⟨rfl, rfl, rfl, fun s Y _ hY => hY⟩
  cases st with
  | tf kw =>
    cases r with
    | ss G =>
      obtain ⟨e1, e2, e3, hv⟩ := ss_case G h
      exact ⟨e1, e2, e3, fun s Y hok hY => hv s Y hok hY⟩
    | tf G => exact id_case _ rfl h
  | ss2tf kw =>
    cases r with
    | ss G =>
      obtain ⟨e1, e2, e3, hv⟩ := ss_case G h
      exact ⟨e1, e2, e3, fun s Y hok hY => hv s Y hok hY⟩
    | tf G => cases h
  | ss kw =>
    cases r with
    | ss G => exact id_case _ rfl h
    | tf G =>
      obtain ⟨e1, e2, e3, hv⟩ := tf_case G h
      exact ⟨e1, e2, e3, fun s Y _ hY => hv s Y hY⟩
  | tfdata =>
    cases r with
    | ss G =>
      obtain ⟨e1, e2, e3, hv⟩ := ss_case G h
      exact ⟨e1, e2, e3, fun s Y hok hY => hv s Y hok hY⟩
    | tf G => exact id_case _ rfl h
  | ssdata =>
    cases r with
    | ss G => exact id_case _ rfl h
    | tf G =>
      obtain ⟨e1, e2, e3, hv⟩ := tf_case G h
      exact ⟨e1, e2, e3, fun s Y _ hY => hv s Y hY⟩

/-- **round trips**: a finite chain of conversions of any length, whenever it returns, returns a
system of the same shape and timebase, and every value of the original system at `s` is a value
of the final system at `s` — provided the certificates along the chain check and `s` is not a
root of a common denominator produced along the chain (`ChainOK`).  By induction on the chain. -/
theorem roundtrip (steps : List Step) (x y : Obj K) (h : runChain steps x = .ok y) :
    y.rep.p = x.rep.p ∧ y.rep.m = x.rep.m ∧ y.rep.dt = x.rep.dt ∧
      ∀ s Y, ChainOK steps x s → Rep.Val x.rep s Y → Rep.Val y.rep s Y := by
  induction steps generalizing x with
  | nil =>
    simp only [runChain, pure, Except.pure, Except.ok.injEq] at h
    subst h
    exact ⟨rfl, rfl, rfl, fun s Y _ hY => hY⟩
  | cons st rest ih =>
    simp only [runChain] at h
    cases hz : applyStep st x with
    | error e => simp [hz, bind, Except.bind] at h
    | ok z =>
      simp only [hz, bind, Except.bind] at h
      obtain ⟨e1, e2, e3, hv⟩ := ih z h
      have hz' := hz
      unfold applyStep at hz'
      cases hr : stepRep st x.rep with
      | error e => simp [hr, bind, Except.bind] at hz'
      | ok r =>
        simp only [hr, bind, Except.bind, pure, Except.pure, Except.ok.injEq] at hz'
        obtain ⟨f1, f2, f3, hw⟩ := step_val st x.rep r hr
        have hzr : z.rep = r := by rw [← hz']
        rw [hzr] at e1 e2 e3 hv
        refine ⟨e1.trans f1, e2.trans f2, e3.trans f3, fun s Y hok hY => ?_⟩
        obtain ⟨hok1, hok2⟩ := hok
        exact hv s Y (hok2 z hz) (hw s Y hok1 hY)

/-- **the timebase survives every conversion path** (corollary of `roundtrip`, stated on its own). -/
theorem dt_preserved (steps : List Step) (x y : Obj K) (h : runChain steps x = .ok y) :
    y.rep.dt = x.rep.dt := (roundtrip steps x y h).2.2.1

/-- the names after one step are `stepMeta`: keyword overrides win; otherwise the labels are
copied, and the name is copied (`ss(ss)`, `tf(tf)`) or gets the suffix `$converted` unless it is
generic; rebuilding from `tfdata` / `ssdata` gives default names. -/
theorem step_names (st : Step) (x y : Obj K) (h : applyStep st x = .ok y) :
    y.names = stepMeta st x.rep x.names := by
  unfold applyStep at h
  cases hr : stepRep st x.rep with
  | error e => simp [hr, bind, Except.bind] at h
  | ok r =>
    simp only [hr, bind, Except.bind, pure, Except.pure, Except.ok.injEq] at h
    subst h
    rfl

/-- keyword overrides of the labels are honoured by every converting factory function. -/
theorem step_labels_override (kw : Kw) (r : Rep K) (μ : Meta) :
    (stepMeta (.tf kw) r μ).inputs = kw.inputs.getD μ.inputs ∧
    (stepMeta (.tf kw) r μ).outputs = kw.outputs.getD μ.outputs ∧
    (stepMeta (.ss2tf kw) r μ).inputs = kw.inputs.getD μ.inputs ∧
    (stepMeta (.ss2tf kw) r μ).outputs = kw.outputs.getD μ.outputs ∧
    (stepMeta (.ss kw) r μ).inputs = kw.inputs.getD μ.inputs ∧
    (stepMeta (.ss kw) r μ).outputs = kw.outputs.getD μ.outputs := by
  cases r <;> simp [stepMeta, Meta.converted, Meta.copied]

/-- without label keywords one step copies the labels. -/
theorem step_labels_kept (st : Step) (r : Rep K) (μ : Meta) (hk : st.keepsLabels = true) :
    (stepMeta st r μ).inputs = μ.inputs ∧ (stepMeta st r μ).outputs = μ.outputs := by
  cases st <;> cases r <;>
    simp_all [stepMeta, Step.keepsLabels, Meta.converted, Meta.copied, Option.isNone_iff_eq_none]

/-- **the labels survive every chain of conversions without label keywords**, whatever its
length and whichever of `tf / to_tf / ss2tf / ss / to_ss / tf2ss` it uses. -/
theorem labels_preserved (steps : List Step) (x y : Obj K) (h : runChain steps x = .ok y)
    (hk : ∀ st ∈ steps, st.keepsLabels = true) :
    y.names.inputs = x.names.inputs ∧ y.names.outputs = x.names.outputs := by
  induction steps generalizing x with
  | nil =>
    simp only [runChain, pure, Except.pure, Except.ok.injEq] at h
    subst h
    exact ⟨rfl, rfl⟩
  | cons st rest ih =>
    simp only [runChain] at h
    cases hz : applyStep st x with
    | error e => simp [hz, bind, Except.bind] at h
    | ok z =>
      simp only [hz, bind, Except.bind] at h
      obtain ⟨e1, e2⟩ := ih z h (fun s hs => hk s (List.mem_cons_of_mem _ hs))
      have hn := step_names st x z hz
      have hl := step_labels_kept st x.rep x.names (hk st List.mem_cons_self)
      rw [← hn] at hl
      exact ⟨e1.trans hl.1, e2.trans hl.2⟩

/-- `ss2tf` of something that is not a state-space system raises. -/
theorem ss2tf_of_tf_raises (kw : Kw) (G : DTF K) (μ : Meta) :
    applyStep (.ss2tf kw) (⟨.tf G, μ⟩ : Obj K) = .error .badArg := rfl

/-- the chain theorems are not vacuous: a two-state system with labels is converted
(`tf(sys)`, certificate checked, `s = 1` regular), the chain returns, the labels are kept and the
name gets its suffix. -/
def exSS : Obj ℚ :=
  ⟨.ss ⟨2, 1, 1, ⟨!![-1, 2; 0, -3], !![1; 1], !![1, 0], !![0]⟩, .dtrue⟩, ⟨"P", ["a"], ["b"]⟩⟩

example : ChainOK [.tf {}] exSS 1 :=
  ⟨⟨by decide +kernel, Or.inr (by decide +kernel)⟩, fun _ _ => trivial⟩

example : (match runChain [.tf {}, .ss {}] exSS with
    | .ok y => decide (y.names = ⟨"P$converted$converted", ["a"], ["b"]⟩ ∧ y.rep.dt = .dtrue
        ∧ y.rep.isSS = true)
    | .error _ => false) = true := by decide +kernel

/-! ### mixed-type operators -/

/-- **promotion rule**: the result of `left op right` (`+ - *`, `StateSpace` / `TransferFunction`
operands) has the class of the left operand. -/
theorem promote_class (op : MOp) (x y r : Rep K) (h : mixedRep op x y = .ok r) :
    r.isSS = x.isSS := by
  cases op <;> cases x <;> cases y <;>
    simp only [mixedRep, bind, Except.bind, pure, Except.pure] at h <;>
    (repeat' (split at h)) <;>
    (cases h <;> rfl)

/-- **`op` after conversion**: `ss op tf` is literally `ss op ss'` with `ss' = tf2ss(tf)`
(so a non-proper or, without Slycot, a dynamic MIMO right operand raises), for `+` and `*`. -/
theorem promote_comm_ss_tf (op : MOp) (hop : op ≠ .sub) (G : DSS K) (H : DTF K) :
    mixedRep op (.ss G) (.tf H) = (toSS H).bind fun H' => mixedRep op (.ss G) (.ss H') := by
  cases op
  · rfl
  · exact absurd rfl hop
  · rfl

/-- `tf op ss` is literally `tf op tf'` with `tf' = ss2tf(ss)`, for `+` and `*`. -/
theorem promote_comm_tf_ss (op : MOp) (hop : op ≠ .sub) (G : DTF K) (H : DSS K) :
    mixedRep op (.tf G) (.ss H) = (toTF H).bind fun H' => mixedRep op (.tf G) (.tf H') := by
  cases op
  · rfl
  · exact absurd rfl hop
  · rfl

/-- a non-proper right operand of a `StateSpace` operator raises. -/
theorem promote_nonproper_raises (op : MOp) (hop : op ≠ .sub) (G : DSS K) (f : Frac K) (dt : Dt)
    (h : f.num.length > f.den.length) :
    mixedRep op (.ss G) (.tf ⟨1, 1, TFM.siso f, dt⟩) = .error .nonProper := by
  rw [promote_comm_ss_tf op hop, nonproper_siso_raises f dt h]
  rfl

section promote
variable {σ : Type*} [Fintype σ] [DecidableEq σ]

/-- **same map as converting first** (SISO, where the conversion exists): `G + tf2ss(b/a)`
responds with `Y + b(s)/a(s)`, … -/
theorem promote_add_resp (G : SS σ (Fin 1) (Fin 1) K) (n : Nat) (a b : Nat → K) (s : K)
    (ha : a 0 = 1) (hd : psum a n s ≠ 0) {Y : Matrix (Fin 1) (Fin 1) K} (h : G.Resp s Y) :
    (G.add (ccf n a b)).Resp s (Y + c11 (psum b n s / psum a n s)) :=
  C02.add_resp G _ s h (ccf_resp n a b s ha hd)

/-- … `G - b/a` (the code negates the transfer function first: numerator `-b`) with
`Y - b(s)/a(s)`, … -/
theorem promote_sub_resp (G : SS σ (Fin 1) (Fin 1) K) (n : Nat) (a b : Nat → K) (s : K)
    (ha : a 0 = 1) (hd : psum a n s ≠ 0) {Y : Matrix (Fin 1) (Fin 1) K} (h : G.Resp s Y) :
    (G.add (ccf n a fun k => -b k)).Resp s (Y - c11 (psum b n s / psum a n s)) := by
  have := C02.add_resp G _ s h (ccf_resp n a (fun k => -b k) s ha hd)
  have e : (fun (_ _ : Fin 1) => psum (fun k => -b k) n s / psum a n s)
      = -c11 (psum b n s / psum a n s) := by
    ext i j
    simp only [psum, c11, Matrix.neg_apply, neg_mul, Finset.sum_neg_distrib, neg_div]
  rw [e, ← sub_eq_add_neg] at this
  exact this

/-- … and `G * tf2ss(b/a)`, `tf2ss(b/a) * G` with the products. -/
theorem promote_mul_resp (G : SS σ (Fin 1) (Fin 1) K) (n : Nat) (a b : Nat → K) (s : K)
    (ha : a 0 = 1) (hd : psum a n s ≠ 0) {Y : Matrix (Fin 1) (Fin 1) K} (h : G.Resp s Y) :
    (G.mul (ccf n a b)).Resp s (Y * c11 (psum b n s / psum a n s)) ∧
    ((ccf n a b).mul G).Resp s (c11 (psum b n s / psum a n s) * Y) :=
  ⟨C02.mul_resp G _ s h (ccf_resp n a b s ha hd), C02.mul_resp _ G s (ccf_resp n a b s ha hd) h⟩

end promote

/-- the run-time layer of `StateSpace.__add__` (no SISO promotion needed): whenever it returns,
the result has the operands' shape and every pair of values of the operands at `s` adds up to a
value of the result. -/
theorem addSS_val (G H R : DSS K) (h : G.addSS H = .ok R) (hs : G.isSiso = H.isSiso)
    (s : K) (Y₁ Y₂ : Nat → Nat → K) (h₁ : SSVal G s Y₁) (h₂ : SSVal H s Y₂) :
    R.p = G.p ∧ R.m = G.m ∧ SSVal R s (fun i j => Y₁ i j + Y₂ i j) := by
  unfold DSS.addSS at h
  have c1 : (G.isSiso && !H.isSiso) = false := by rw [hs]; cases H.isSiso <;> rfl
  have c2 : (!G.isSiso && H.isSiso) = false := by rw [hs]; cases H.isSiso <;> rfl
  simp only [c1, c2, Bool.false_eq_true, if_false, pure, Except.pure, bind, Except.bind] at h
  split at h
  · rename_i hsh
    split at h
    · cases h
    · cases h
      refine ⟨rfl, rfl, ?_⟩
      unfold SSVal at h₁ h₂ ⊢
      unfold SS.flatS
      apply SS.Resp.reindex
      have := C02.add_resp G.sys (H.sys.castIO hsh.2.symm hsh.1.symm) s h₁
        (h₂.select (Fin.cast hsh.2) (Fin.cast hsh.1))
      convert this using 1
      ext i j
      simp
  · cases h

/-- the run-time layer of `StateSpace.__mul__` (no SISO promotion needed): values multiply. -/
theorem mulSS_val (G H R : DSS K) (h : G.mulSS H = .ok R) (hs : G.isSiso = H.isSiso)
    (s : K) (Y₁ Y₂ : Nat → Nat → K) (h₁ : SSVal G s Y₁) (h₂ : SSVal H s Y₂) :
    R.p = G.p ∧ R.m = H.m ∧
      SSVal R s (fun i j => ∑ k : Fin G.m, Y₁ i k * Y₂ k j) := by
  unfold DSS.mulSS at h
  have c1 : (G.isSiso && !H.isSiso) = false := by rw [hs]; cases H.isSiso <;> rfl
  have c2 : (!G.isSiso && H.isSiso) = false := by rw [hs]; cases H.isSiso <;> rfl
  simp only [c1, c2, Bool.false_eq_true, if_false, pure, Except.pure, bind, Except.bind] at h
  split at h
  · rename_i hsh
    split at h
    · cases h
    · cases h
      refine ⟨rfl, rfl, ?_⟩
      unfold SSVal at h₁ h₂ ⊢
      unfold SS.flatS
      apply SS.Resp.reindex
      have := C02.mul_resp G.sys (H.sys.castIO hsh.symm rfl) s h₁
        (h₂.select (Fin.cast hsh) (Fin.cast rfl))
      convert this using 1
      ext i j
      simp [Matrix.mul_apply]
  · cases h

/-- **same map as converting the operands first** (run-time layer): whenever
`StateSpace + TransferFunction` returns (equal shapes), the result is a state-space system of that
shape and the sum of a value of the left operand and the value of the right operand at `s` is a
value of the result at `s`. -/
theorem mixed_add_val (G : DSS K) (H : DTF K) (r : Rep K)
    (h : mixedRep .add (.ss G) (.tf H) = .ok r) (hp : G.p = H.p) (hm : G.m = H.m)
    (s : K) (Y₁ Y₂ : Nat → Nat → K) (h₁ : SSVal G s Y₁) (h₂ : TFVal H s Y₂) :
    r.isSS = true ∧ r.p = G.p ∧ r.m = G.m ∧ Rep.Val r s (fun i j => Y₁ i j + Y₂ i j) := by
  simp only [mixedRep, bind, Except.bind, pure, Except.pure] at h
  split at h
  · cases h
  · rename_i H' hH'
    split at h
    · cases h
    · rename_i R hR
      cases h
      obtain ⟨e1, e2, _, hv⟩ := toSS_val H H' hH'
      have hs : G.isSiso = H'.isSiso := by simp [DSS.isSiso, e1, e2, hp, hm]
      obtain ⟨f1, f2, hval⟩ := addSS_val G H' R hR hs s Y₁ Y₂ h₁ (hv s Y₂ h₂)
      exact ⟨rfl, f1, f2, hval⟩

/-- … and `StateSpace * TransferFunction` (inner dimensions equal, both SISO or both MIMO):
the matrix product of the values. -/
theorem mixed_mul_val (G : DSS K) (H : DTF K) (r : Rep K)
    (h : mixedRep .mul (.ss G) (.tf H) = .ok r)
    (hs : G.isSiso = (H.p == 1 && H.m == 1))
    (s : K) (Y₁ Y₂ : Nat → Nat → K) (h₁ : SSVal G s Y₁) (h₂ : TFVal H s Y₂) :
    r.isSS = true ∧ r.p = G.p ∧ r.m = H.m ∧
      Rep.Val r s (fun i j => ∑ k : Fin G.m, Y₁ i k * Y₂ k j) := by
  simp only [mixedRep, bind, Except.bind, pure, Except.pure] at h
  split at h
  · cases h
  · rename_i H' hH'
    split at h
    · cases h
    · rename_i R hR
      cases h
      obtain ⟨e1, e2, _, hv⟩ := toSS_val H H' hH'
      have hs' : G.isSiso = H'.isSiso := by rw [hs]; simp [DSS.isSiso, e1, e2]
      obtain ⟨f1, f2, hval⟩ := mulSS_val G H' R hR hs' s Y₁ Y₂ h₁ (hv s Y₂ h₂)
      exact ⟨rfl, f1, f2.trans e2, hval⟩

/-- the run-time layer of `TransferFunction.__add__` (no SISO promotion needed), pointwise:
wherever no denominator of the operands vanishes, none of the result does and the values add. -/
theorem addCore_val (G H R : DTF K) (h : G.addCore H = .ok R) (hs : G.isSiso = H.isSiso)
    (s : K) (Y₁ Y₂ : Nat → Nat → K) (h₁ : TFVal G s Y₁) (h₂ : TFVal H s Y₂) :
    R.p = G.p ∧ R.m = G.m ∧ TFVal R s (fun i j => Y₁ i j + Y₂ i j) := by
  unfold DTF.addCore at h
  have c1 : (G.isSiso && !H.isSiso) = false := by rw [hs]; cases H.isSiso <;> rfl
  have c2 : (!G.isSiso && H.isSiso) = false := by rw [hs]; cases H.isSiso <;> rfl
  simp only [c1, c2, Bool.false_eq_true, if_false, pure, Except.pure, bind, Except.bind] at h
  split at h
  · rename_i hm
    split at h
    · rename_i hp
      split at h
      · cases h
      · split at h
        · cases h
        · rename_i S hS
          cases h
          refine ⟨rfl, rfl, fun i j => ?_⟩
          obtain ⟨_, he⟩ := mk'_ok _ S hS
          dsimp only
          rw [he i j]
          obtain ⟨d1, v1⟩ := h₁ i j
          obtain ⟨d2, v2⟩ := h₂ (Fin.cast hp i) (Fin.cast hm j)
          simp only [Fin.val_cast] at v2
          have hden : polyval (addSiso (G.sys.e i j)
              ((TFM.cast hp.symm hm.symm H.sys).e i j)).den s ≠ 0 := by
            simp only [addSiso, TFM.cast, polyval_polymul]
            exact mul_ne_zero d1 d2
          refine ⟨norm_den_val _ s hden, ?_⟩
          rw [norm_val', v1, v2]
          simp only [addSiso, TFM.cast, polyval_polymul, polyval_eq_eval, toPoly_polyadd,
            toPoly_polymul, Polynomial.eval_add, Polynomial.eval_mul]
          rw [polyval_eq_eval] at d1 d2
          field_simp
    · cases h
  · cases h

/-- **`TransferFunction + StateSpace`** (equal shapes): a transfer function whose value at every
regular `s` is the sum of the operands' values. -/
theorem mixed_add_val_tf (G : DTF K) (H : DSS K) (r : Rep K)
    (h : mixedRep .add (.tf G) (.ss H) = .ok r) (hp : G.p = H.p) (hm : G.m = H.m)
    (s : K) (Y₁ Y₂ : Nat → Nat → K) (hc : certOK H = true) (hr : RegularAt H s)
    (h₁ : TFVal G s Y₁) (h₂ : SSVal H s Y₂) :
    r.isSS = false ∧ r.p = G.p ∧ r.m = G.m ∧ Rep.Val r s (fun i j => Y₁ i j + Y₂ i j) := by
  simp only [mixedRep, bind, Except.bind, pure, Except.pure] at h
  split at h
  · cases h
  · rename_i H' hH'
    split at h
    · cases h
    · rename_i R hR
      cases h
      obtain ⟨e1, e2, _, hv⟩ := toTF_val H H' hH'
      have hs : G.isSiso = H'.isSiso := by simp [DTF.isSiso, e1, e2, hp, hm]
      obtain ⟨f1, f2, hval⟩ := addCore_val G H' R hR hs s Y₁ Y₂ h₁ (hv s Y₂ hc hr h₂)
      exact ⟨rfl, f1, f2, hval⟩

/-- the promotion theorems are not vacuous: `ss + tf` returns a state-space system with
`1 + 2` states, `tf + ss` a transfer function. -/
def exTF : Obj ℚ := ⟨.tf ⟨1, 1, TFM.siso ⟨[2, 1, 5], [1, 3, 2]⟩, .dtrue⟩, Meta.default 1 1⟩

example : (match mixed .add exSS exTF, mixed .add exTF exSS with
    | .ok r, .ok r' => r.rep.isSS && !r'.rep.isSS && decide (r.names = Meta.default 1 1)
    | _, _ => false) = true := by decide +kernel

end CtrlVerif.C03
