/-
C09 — the tree theorem over RUN-TIME shapes ("… and all finite expression trees").

`Expr K n` (`Model/C09Expr.lean`) is the type of finite expression trees over FRD leaves of any
`p × m` shape on `n` grid points (any frequencies, interpolating or not), operands given by value
(Python / NumPy scalars, constant arrays, `TransferFunction` / `StateSpace` systems, FRD objects
also on a grid of another length) and the operators `+ - * / neg ** (any integer) feedback(sign)
append index`, with operand ORDER and KIND preserved (`bin`: FRD op FRD, `binV`: FRD op value,
`rbin`: value op FRD — three different code paths).  Nothing is excluded by typing: a tree may
have incompatible shapes, grids, a MIMO divisor, a singular loop, an index out of range.

* `Expr.evalModel E e : Except Err (DFRD K n)` — by the run-time layer `Model/FRDDyn.lean` that
  `Driver/FRD.lean` executes (`DFRD.add sub rsub mul rmul truediv rtruediv pow feedback feedbackL
  append select neg`: `_convert_to_frd`, grid match, SISO promotion by `append(*[g]*r)` /
  `np.ones * g`, shape checks, scalar fast paths, the recursion of `__pow__`).  On every run of
  the C09 check the driver family `frdtree` (`Driver/FRDTree.lean`) evaluates the generated
  programs ALSO through `Expr.evalModel` and refuses to answer when that differs from the postfix
  interpreter whose answer is compared with python-control.
* `Expr.evalSem E k e : Option (PVal K)` — the POINTWISE value at the grid index `k` in the
  algebra of `K`-matrices of run-time shape: frequency, shape, matrix.  `Expr.evalSemE` is the
  same with the reason when there is no value.  (`K` is any field with decidable equality; the
  driver runs `K = ℚ(i)`.)
* `Expr.sig e : Except Err (Sig n)` — predicted shape, grid, `smooth` flag, and the checks that
  do not read response data.

Theorems (all for every field `K` with decidable equality, every `n`, every tree, every `Env`):
`tree_spec` (the induction), `tree_sound`, `tree_error`, `tree_error_kind`, `tree_complete`,
`tree_returns_iff`; and what the pointwise operators mean in plain matrix algebra
(`sem_mul_matrix`, `sem_add_matrix`, `sem_promote_mul`, `sem_neg_operand`, `sem_negOperand`, `sem_sub`,
`sem_sub_scalar`, `sem_pow_square`, `sem_feedback_matrix`, `sem_convert_same`).

Which error for which cause (read off `PVal.*` / `Sig.*`, made a theorem by `tree_error_kind`):
* `shape`          — shapes that fit neither directly nor after SISO promotion (`+ - *`, feedback),
                     `A ** k` (`k ≥ 1`) for a non-square `A`;
* `notImplemented` — an FRD operand on another grid (length, or a frequency off by `≥ 1e-8`),
                     a non-SISO divisor, `A ** k` (`k < 0`) for a non-SISO `A`;
* `zeroDen`        — a divisor that is zero at some grid index, a zero scalar divisor, an LTI
                     operand with a pole at `jω` / `exp(jω dt)` for some grid frequency;
* `illPosed`       — `det (I - sign B_k A_k) = 0` at some grid index in a feedback node;
* `indexRange`     — an index outside the shape.
-/
import CtrlVerif.Lemmas.C09Expr
import CtrlVerif.Props.C09
import Mathlib.Tactic.FinCases
import Mathlib.Tactic.NormNum

namespace CtrlVerif.C09

open CtrlVerif CtrlVerif.FRDTree Matrix

variable {K : Type} [Field K] [DecidableEq K] {n : Nat}

/-! ### the tree theorem -/

/-- The induction: the run-time layer, the signature and the pointwise values proceed in step
(`Spec`, `Lemmas/C09Expr.lean`): if the model returns `R`, the signature is that of `R` and the
value at every grid index is that of `R`; if the model raises `err`, the signature computation
raises `err` or the pointwise computation at some grid index raises `err`. -/
theorem tree_spec (E : Env K) (e : Expr K n) :
    Spec (e.evalModel E) e.sig (fun k => e.evalSemE E k) := by
  induction e with
  | leaf F => exact Spec.pure F
  | neg a ih => exact ih.bind (fun x => neg_spec x)
  | bin op a b iha ihb =>
    exact Spec.bind2 iha ihb (fun x y =>
      (opF_spec E op x (.frd n y)).congr rfl (by rw [targOf_frd]) (fun k => by rw [sargOf_frd]))
  | binV op a v ih => exact ih.bind (fun x => opF_spec E op x v)
  | rbin op v a ih => exact ih.bind (fun x => ropF_spec E op x v.toF)
  | pow a k ih => exact ih.bind (fun x => pow_spec x k)
  | fb a b s iha ihb =>
    exact Spec.bind2 iha ihb (fun x y =>
      (feedback_spec E x (.frd n y) s).congr rfl (by rw [targOf_frd]) (fun k => by rw [sargOf_frd]))
  | fbV a v s ih => exact ih.bind (fun x => feedback_spec E x v s)
  | fbL v hv a s ih => exact ih.bind (fun x => feedbackL_spec E x v.toF s)
  | append a b iha ihb =>
    exact Spec.bind2 iha ihb (fun x y =>
      (append_spec E x (.frd n y)).congr rfl (by rw [targOf_frd]) (fun k => by rw [sargOf_frd]))
  | appendV a v hv ih => exact ih.bind (fun x => append_spec E x v)
  | sel a r c ih => exact ih.bind (fun x => select_spec x r c)

/-- Soundness: when the run-time layer returns `R`, then `R` has the predicted shape, grid and
`smooth` flag, and at EVERY grid index `k` the stored frequency and matrix of `R` are the
pointwise value of the expression in the algebra of matrices. -/
theorem tree_sound (E : Env K) (e : Expr K n) (R : DFRD K n) (h : e.evalModel E = .ok R) :
    e.sig = .ok ⟨R.p, R.m, R.smooth, R.sys.omega⟩ ∧
      ∀ k, e.evalSem E k = some ⟨R.sys.omega k, R.p, R.m, R.sys.data k⟩ := by
  obtain ⟨hs, hp⟩ := (tree_spec E e).ok R h
  refine ⟨hs, fun k => ?_⟩
  unfold Expr.evalSem
  rw [hp k]
  rfl

/-- The run-time layer raises exactly when the expression has no value: the grid-independent
checks fail (shapes / grid lengths / SISO-only operators / index ranges / a zero scalar divisor)
or the pointwise value does not exist at some grid index (frequencies of two FRD operands
differ, a divisor vanishes, an LTI operand has a pole, a loop matrix is singular). -/
theorem tree_error (E : Env K) (e : Expr K n) :
    (∃ err, e.evalModel E = .error err) ↔
      ((∃ err, e.sig = .error err) ∨ ∃ k, e.evalSem E k = none) := by
  rw [(tree_spec E e).error_iff]
  refine or_congr Iff.rfl (exists_congr fun k => ?_)
  unfold Expr.evalSem
  cases e.evalSemE E k with
  | error err => exact ⟨fun _ => rfl, fun _ => ⟨err, rfl⟩⟩
  | ok v =>
    constructor
    · rintro ⟨err, h⟩; cases h
    · intro h; cases h

/-- … and the error it raises is the one the signature computation raises, or the one the
pointwise computation raises at some grid index (the cause–error table is `PVal.convert addCore
mulCore rmulCore truedivCore feedbackCore select pow truediv rtruediv` and `Sig.*`). -/
theorem tree_error_kind (E : Env K) (e : Expr K n) (err : Err) (h : e.evalModel E = .error err) :
    e.sig = .error err ∨ ∃ k, e.evalSemE E k = .error err :=
  (tree_spec E e).err err h

/-- Completeness: when the signature exists and the pointwise value exists at every grid index,
the run-time layer returns a system with that signature and those values. -/
theorem tree_complete (E : Env K) (e : Expr K n) (s : Sig n) (hs : e.sig = .ok s)
    (v : Fin n → PVal K) (hv : ∀ k, e.evalSem E k = some (v k)) :
    ∃ R, e.evalModel E = .ok R ∧ sigOf R = s ∧ ∀ k, pt R k = v k := by
  cases hR : e.evalModel E with
  | error err =>
    rcases (tree_spec E e).err err hR with h | ⟨k, h⟩
    · rw [hs] at h; cases h
    · have := hv k
      unfold Expr.evalSem at this
      rw [h] at this
      cases this
  | ok R =>
    obtain ⟨hs', hp⟩ := (tree_spec E e).ok R hR
    refine ⟨R, rfl, ?_, fun k => ?_⟩
    · rw [hs] at hs'; cases hs'; rfl
    · have := hv k
      unfold Expr.evalSem at this
      rw [hp k] at this
      exact Option.some.inj this

/-- the run-time layer returns iff the signature and all pointwise values exist. -/
theorem tree_returns_iff (E : Env K) (e : Expr K n) :
    (∃ R, e.evalModel E = .ok R) ↔
      ((∃ s, e.sig = .ok s) ∧ ∀ k, (e.evalSem E k).isSome = true) := by
  constructor
  · rintro ⟨R, h⟩
    obtain ⟨hs, hp⟩ := tree_sound E e R h
    exact ⟨⟨_, hs⟩, fun k => by rw [hp k]; rfl⟩
  · rintro ⟨⟨s, hs⟩, hv⟩
    obtain ⟨R, hR, _⟩ := tree_complete E e s hs (fun k => (e.evalSem E k).get (hv k))
      (fun k => (Option.some_get (hv k)).symm)
    exact ⟨R, hR⟩

/-- on an empty grid only the grid-independent checks can fail. -/
theorem tree_error_empty (E : Env K) (e : Expr K 0) :
    (∃ err, e.evalModel E = .error err) ↔ ∃ err, e.sig = .error err := by
  rw [tree_error]
  constructor
  · rintro (h | ⟨k, _⟩)
    · exact h
    · exact k.elim0
  · exact Or.inl

/-! ### what the pointwise operators are in plain matrix algebra -/

/-- `*` with matching inner size is the matrix product — whatever the SISO-promotion rules do
(they only add the products of a `1 × 1` factor with a matrix whose sizes do not match). -/
theorem sem_mul_matrix (w w' : ℚ) (p q m : Nat) (A : Matrix (Fin p) (Fin q) K)
    (B : Matrix (Fin q) (Fin m) K) :
    PVal.mulCore ⟨w, p, q, A⟩ ⟨w', q, m, B⟩ = .ok ⟨w, p, m, A * B⟩ := by
  unfold PVal.mulCore
  rcases Bool.eq_false_or_eq_true (PVal.mk w p q A).isSiso with hA | hA <;>
  rcases Bool.eq_false_or_eq_true (PVal.mk w' q m B).isSiso with hB | hB <;>
    simp only [hA, hB, Bool.not_true, Bool.not_false, Bool.and_true, Bool.and_false,
      Bool.true_and, Bool.false_and, if_true, if_false, Bool.false_eq_true, dif_pos, castM_rfl]
  · obtain ⟨hp, hq⟩ := (isSiso_iff _ _).mp hA
    subst hp hq
    refine congrArg Except.ok (PVal.mk_congr ?_)
    ext i j
    have hi : i = 0 := Subsingleton.elim _ _
    subst hi
    simp [PVal.s00, Matrix.mul_apply]
  · obtain ⟨hq, hm⟩ := (isSiso_iff _ _).mp hB
    subst hq hm
    refine congrArg Except.ok (PVal.mk_congr ?_)
    ext i j
    have hj : j = 0 := Subsingleton.elim _ _
    subst hj
    simp [PVal.s00, Matrix.mul_apply, mul_comm]

/-- `+` of equal shapes is the matrix sum (on the frequency stored with the right operand). -/
theorem sem_add_matrix (w w' : ℚ) (p m : Nat) (A B : Matrix (Fin p) (Fin m) K) :
    PVal.addCore ⟨w, p, m, A⟩ ⟨w', p, m, B⟩ = .ok ⟨w', p, m, A + B⟩ := by
  unfold PVal.addCore
  have h1 : (PVal.mk w' p m B).isSiso = (PVal.mk w p m A).isSiso := rfl
  simp only [h1, Bool.and_not_self, Bool.not_and_self, Bool.false_eq_true, if_false, dif_pos,
    castM_rfl, and_self]

/-- SISO promotion in `*` (the code: `append(*[g] * r)`, i.e. `g I_r`) is multiplication by the
scalar matrix `a • 1` on the side where the sizes fit. -/
theorem sem_promote_mul (a : K) (p m : Nat) (B : Matrix (Fin p) (Fin m) K) :
    a • B = (a • (1 : Matrix (Fin p) (Fin p) K)) * B ∧
      a • B = B * (a • (1 : Matrix (Fin m) (Fin m) K)) := by
  constructor <;> simp

/-- `-x` on an operand of any kind negates its converted value (for an LTI operand: negated
numerators / `-C, -D` give the negated frequency response; the poles are the same). -/
theorem sem_neg_operand (E : Env K) (w : ℚ) (p m : Nat) (x : SArg K) :
    PVal.convert E w p m x.neg = (PVal.convert E w p m x).map PVal.neg :=
  PVal.convert_neg E w p m x

/-- … and `-x` as Python evaluates it on the operand object (`DFRD.negOperand`: `-c`, `-D`, negated
numerator coefficients / `-C, -D`, `-F`) is that negation, at every grid index. -/
theorem sem_negOperand (k : Fin n) (x : FOperand K) :
    sargOf k (DFRD.negOperand x) = (sargOf k x).neg :=
  sargOf_neg k x

/-- `A - x` is `A + (-X)` for the converted operand `X`: subtraction of the values. -/
theorem sem_sub (E : Env K) (A : PVal K) (x : SArg K) (hx : x.isScalar = false) :
    PVal.sub E A x = PVal.convert E A.w 1 1 x >>= fun X => PVal.addCore A X.neg := by
  unfold PVal.sub
  have h : PVal.add E A x.neg = PVal.convert E A.w 1 1 x.neg >>= fun B => PVal.addCore A B := by
    cases x <;> first | rfl | cases hx
  rw [h, PVal.convert_neg]
  cases PVal.convert E A.w 1 1 x <;> rfl

/-- `A ** k` (`k ≥ 0`) of a square `A` is the matrix power. -/
theorem sem_pow_square (w : ℚ) (p : Nat) (M : Matrix (Fin p) (Fin p) K) (k : Nat) :
    PVal.pow ⟨w, p, p, M⟩ (.ofNat k) = .ok ⟨w, p, p, M ^ k⟩ := by
  rw [← PVal.powNatR_eq, PVal.powNatR_square]

/-- an FRD operand stored with the same frequency always converts (the grids match). -/
theorem sem_convert_same (E : Env K) (B : PVal K) (p m : Nat) :
    PVal.convert E B.w p m (.pv B) = .ok B := by
  show (if _ then _ else _) = _
  rw [if_pos (by simp)]

/-- `feedback` of a `p × m` forward path with an `m × p` return path is `A (I - sign B A)⁻¹`
where that inverse exists, and `illPosed` where it does not. -/
theorem sem_feedback_matrix (w w' : ℚ) (p m : Nat) (A : Matrix (Fin p) (Fin m) K)
    (B : Matrix (Fin m) (Fin p) K) (s : K) :
    PVal.feedbackCore ⟨w, p, m, A⟩ ⟨w', m, p, B⟩ s =
      if (1 - s • (B * A)).det = 0 then .error .illPosed
      else .ok ⟨w', p, m, A * (1 - s • (B * A))⁻¹⟩ := by
  unfold PVal.feedbackCore
  rw [dif_pos ⟨rfl, rfl⟩]
  simp only [castM_rfl]

/-- `A - c` for a scalar `c` subtracts `c` from every entry. -/
theorem sem_sub_scalar (E : Env K) (w : ℚ) (p m : Nat) (M : Matrix (Fin p) (Fin m) K) (c : K) :
    PVal.sub E ⟨w, p, m, M⟩ (.scalar c) = .ok ⟨w, p, m, M - Matrix.of fun _ _ => c⟩ := by
  show PVal.addCore ⟨w, p, m, M⟩ ⟨w, p, m, Matrix.of fun _ _ => -c⟩ = _
  rw [sem_add_matrix]
  refine congrArg Except.ok (PVal.mk_congr ?_)
  ext i j
  simp [sub_eq_add_neg]

/-! ### non-vacuity: concrete trees over `ℚ` -/

section nonvacuity

/-- no LTI leaf in the examples: any environment. -/
def exE : Env ℚ := ⟨fun w => w, fun _ _ => 1⟩

/-- a `2 × 3` response on the grid `ω = 1, 2`. -/
def exG : DFRD ℚ 2 := ⟨2, 3, ⟨fun k => k.val + 1, fun k => !![1, 2, 0; 0, 1, k.val]⟩, false⟩
/-- a `3 × 1` response on the same grid. -/
def exH : DFRD ℚ 2 := ⟨3, 1, ⟨fun k => k.val + 1, fun _ => !![1; 0; 1]⟩, false⟩
/-- a `1 × 2` response (the feedback path). -/
def exB : DFRD ℚ 2 := ⟨1, 2, ⟨fun k => k.val + 1, fun _ => !![1, 1]⟩, false⟩

/-- `(G * H).feedback(B, sign)`: `G H = [1; k]`, `B G H = 1 + k`, loop `1 - sign (1 + k)`. -/
def exTree (sign : ℚ) : Expr ℚ 2 := .fb (.bin .mul (.leaf exG) (.leaf exH)) (.leaf exB) sign

example : (exTree (-1)).sig = .ok ⟨2, 1, false, fun k => k.val + 1⟩ := rfl

/-- the tree theorems are not vacuous, on a `2×3 * 3×1` tree with a `1×2` feedback path:
(1) the hypotheses of `tree_sound` / `tree_complete` are satisfiable and the conclusion is
informative — negative feedback exists at both grid points and the returned matrices are
`G_k H_k (I + B_k G_k H_k)⁻¹`;
(2) positive feedback: the loop matrix `1 - (1 + k)` is singular at the first grid point, the
pointwise value does not exist there and the run-time layer raises `illPosed`
(`tree_error`, `tree_error_kind`). -/
example :
    (∃ R, (exTree (-1)).evalModel exE = .ok R ∧
      ∀ k, (⟨R.sys.omega k, R.p, R.m, R.sys.data k⟩ : PVal ℚ) =
        ⟨k.val + 1, 2, 1, (!![1; (k.val : ℚ)] : Matrix (Fin 2) (Fin 1) ℚ) *
          ((1 : Matrix (Fin 1) (Fin 1) ℚ) - (-1 : ℚ) • ((!![1, 1] : Matrix (Fin 1) (Fin 2) ℚ) *
            (!![1; (k.val : ℚ)] : Matrix (Fin 2) (Fin 1) ℚ)))⁻¹⟩) ∧
    ((exTree 1).evalSem exE 0 = none ∧ (exTree 1).evalModel exE = .error .illPosed) := by
  -- the pointwise value of the product
  have ex_prod : ∀ k : Fin 2, (Expr.bin .mul (.leaf exG) (.leaf exH)).evalSemE exE k
      = .ok ⟨k.val + 1, 2, 1, !![1; (k.val : ℚ)]⟩ := by
    intro k
    show PVal.convert exE (pt exH k).w 1 1 (.pv (pt exH k)) >>=
      (fun B => PVal.mulCore (pt exG k) B) = _
    rw [sem_convert_same]
    refine (sem_mul_matrix _ _ 2 3 1 !![1, 2, 0; 0, 1, (k.val : ℚ)] !![1; 0; 1]).trans ?_
    refine congrArg Except.ok (PVal.mk_congr ?_)
    ext i j
    fin_cases i <;> fin_cases j <;> simp [Matrix.mul_apply, Fin.sum_univ_three]
  -- the pointwise value of the closed loop, for any sign
  have ex_loop : ∀ (s : ℚ) (k : Fin 2), (exTree s).evalSemE exE k =
      if 1 - s * (1 + k.val) = 0 then .error .illPosed
      else .ok ⟨k.val + 1, 2, 1, (!![1; (k.val : ℚ)] : Matrix (Fin 2) (Fin 1) ℚ) *
        ((1 : Matrix (Fin 1) (Fin 1) ℚ) - s • ((!![1, 1] : Matrix (Fin 1) (Fin 2) ℚ) *
          (!![1; (k.val : ℚ)] : Matrix (Fin 2) (Fin 1) ℚ)))⁻¹⟩ := by
    intro s k
    show (Expr.bin .mul (.leaf exG) (.leaf exH)).evalSemE exE k >>= (fun A =>
      Except.ok (pt exB k) >>= fun B => A.feedback exE (.pv B) s) = _
    rw [ex_prod]
    show PVal.convert exE (pt exB k).w 1 1 (.pv (pt exB k)) >>=
      (fun B => PVal.feedbackCore _ B s) = _
    rw [sem_convert_same]
    have hdet : ((1 : Matrix (Fin 1) (Fin 1) ℚ) - s • ((!![1, 1] : Matrix (Fin 1) (Fin 2) ℚ) *
        (!![1; (k.val : ℚ)] : Matrix (Fin 2) (Fin 1) ℚ))).det = 1 - s * (1 + k.val) := by
      simp
    refine (sem_feedback_matrix _ _ 2 1 !![1; (k.val : ℚ)] !![1, 1] s).trans ?_
    rw [hdet]
    rfl
  refine ⟨?_, ?_⟩
  · have hne : ∀ k : Fin 2, ¬ (1 - (-1 : ℚ) * (1 + (k.val : ℚ)) = 0) := by
      intro k; fin_cases k <;> norm_num
    have hv : ∀ k : Fin 2, (exTree (-1)).evalSem exE k = some _ := fun k => by
      unfold Expr.evalSem
      rw [ex_loop, if_neg (hne k)]
      rfl
    obtain ⟨R, hR, _, hpt⟩ := tree_complete exE (exTree (-1)) _ rfl _ hv
    exact ⟨R, hR, hpt⟩
  · have h0 : (exTree 1).evalSemE exE 0 = .error .illPosed := by
      rw [ex_loop, if_pos (by norm_num)]
    refine ⟨by unfold Expr.evalSem; rw [h0]; rfl, ?_⟩
    obtain ⟨err, herr⟩ := (tree_error exE (exTree 1)).mpr
      (Or.inr ⟨0, by unfold Expr.evalSem; rw [h0]; rfl⟩)
    rcases tree_error_kind exE _ err herr with h | ⟨k, h⟩
    · cases h
    · rw [ex_loop] at h
      split at h
      · cases h; exact herr
      · cases h

/-- operand order matters and incompatible shapes are not excluded by typing: `H * G`
(`3×1` times `2×3`, neither SISO) has no signature and the run-time layer raises `shape`. -/
example : (Expr.bin .mul (.leaf exH) (.leaf exG)).sig = .error .shape ∧
    (Expr.bin .mul (.leaf exH) (.leaf exG)).evalModel exE = .error .shape := by
  refine ⟨rfl, ?_⟩
  obtain ⟨err, herr⟩ := (tree_error exE (Expr.bin .mul (.leaf exH) (.leaf exG))).mpr
    (Or.inl ⟨_, rfl⟩)
  rcases tree_error_kind exE _ err herr with h | ⟨k, h⟩
  · cases h; exact herr
  · have : (Expr.bin .mul (.leaf exH) (.leaf exG)).evalSemE exE k = .error .shape := by
      show PVal.convert exE (pt exG k).w 1 1 (.pv (pt exG k)) >>= (fun B => PVal.mulCore (pt exH k) B) = _
      rw [sem_convert_same]
      rfl
    rw [this] at h
    cases h; exact herr

/-- operand kind: `G - 2` (a Python scalar on the right) subtracts `2` from every entry. -/
example (k : Fin 2) : (Expr.binV .sub (.leaf exG) (.scalar 2)).evalSem exE k =
    some ⟨k.val + 1, 2, 3, !![1, 2, 0; 0, 1, (k.val : ℚ)] - Matrix.of fun _ _ => 2⟩ :=
  congrArg Except.toOption (sem_sub_scalar exE _ 2 3 _ 2)

/-- an FRD operand on a grid of another length is rejected where it is used (`notImplemented`),
by the grid-independent checks and by the run-time layer. -/
example : let H3 : DFRD ℚ 3 := ⟨1, 1, ⟨fun k => k.val, fun _ => 1⟩, false⟩
    (Expr.binV .add (.leaf exG) (.frd 3 H3)).sig = .error .notImplemented ∧
    (Expr.binV .add (.leaf exG) (.frd 3 H3)).evalModel exE = .error .notImplemented :=
  ⟨rfl, rfl⟩

end nonvacuity

end CtrlVerif.C09
