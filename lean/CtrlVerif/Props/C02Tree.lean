/-
C02 — the tree theorem: state-space arithmetic realises the algebra of transfer matrices on
every finite expression tree (DESIGN §3.5).

`Model/C02Expr.lean` defines the trees `Expr K o ι` (indexed by the output / input index types,
so every shape is covered by typing), their interpretation `evalModel` by the typed block
constructions of `Model/SS.lean`, the relational semantics `Sem e s Y` in the algebra of transfer
matrices and the direct-term algebra `dterm` / `IllPosed`.  Here, by structural induction from
the per-operator theorems of `Props/C02.lean`:

* `tree_resp`   : whatever the model returns for a tree responds, at every `s`, with every value
                  the transfer-matrix algebra assigns to the tree;
* `tree_value`  : … which, where `s` is not an eigenvalue of the result's `A`, is
                  `C (sI - A)⁻¹ B + D`;
* `tree_states` : the state dimension of the result is the sum of the leaves' state dimensions;
* `tree_dterm`  : the direct term of the result is the value of the tree in the algebra of
                  constant matrices;
* `tree_error`  : the model raises exactly when some `feedback` / `** -1` / `lft` node is
                  ill-posed (`tree_error_kind`: and then with `illPosed`).
-/
import CtrlVerif.Props.C02
import CtrlVerif.Lemmas.C02Expr
import Mathlib.LinearAlgebra.Matrix.ZPow

namespace CtrlVerif.C02

open CtrlVerif Matrix SS Expr

variable {K : Type} [Field K]

/-! ### per-operator facts the tree theorem needs beyond `Props/C02.lean` -/

section ops
variable {σ σ' : Type*} [Fintype σ] [DecidableEq σ] [Fintype σ'] [DecidableEq σ']

/-- `G ** -1`, constructive form (stronger than `inv_resp`, no condition on the poles): if `G`
responds at `s` with `Y` and `Y'` is the inverse matrix of `Y`, then the system built by the code
from a left inverse `Di` of `D` responds with `Y'`. -/
theorem inv_resp_of_inverse {ι : Type*} [Fintype ι] [DecidableEq ι]
    (G : SS σ ι ι K) (Di : Matrix ι ι K) (hl : Di * G.D = 1) (s : K)
    {Y Y' : Matrix ι ι K} (h : G.Resp s Y) (hY : Y * Y' = 1) : (G.inv Di).Resp s Y' := by
  obtain ⟨X, hX, rfl⟩ := h
  have hY' : G.C * (X * Y') = 1 - G.D * Y' := by
    rw [← hY, Matrix.add_mul, Matrix.mul_assoc]; abel
  have hDD : Di * (G.D * Y') = Y' := by rw [← Matrix.mul_assoc, hl, Matrix.one_mul]
  refine ⟨X * Y', ?_, ?_⟩
  · show (s • (1 : Matrix σ σ K) - (G.A - G.B * Di * G.C)) * (X * Y') = G.B * Di
    have : (s • (1 : Matrix σ σ K) - (G.A - G.B * Di * G.C)) * (X * Y')
        = ((s • (1 : Matrix σ σ K) - G.A) * X) * Y' + G.B * (Di * (G.C * (X * Y'))) := by
      simp only [Matrix.sub_mul, Matrix.mul_assoc]; abel
    rw [this, hX, hY', Matrix.mul_sub, Matrix.mul_one, hDD, Matrix.mul_sub]
    abel
  · show Y' = -(Di * G.C) * (X * Y') + Di
    rw [Matrix.neg_mul, Matrix.mul_assoc, hY', Matrix.mul_sub, Matrix.mul_one, hDD]
    abel

/-- direct term of the closed loop built by `feedback`: `D₁ (I - sign D₂ D₁)⁻¹`. -/
theorem feedback_D {ι o : Type*} [Fintype ι] [DecidableEq ι] [Fintype o] [DecidableEq o]
    (G₁ : SS σ ι o K) (G₂ : SS σ' o ι K) (sign : K) (E : Matrix ι ι K)
    (hE : E * (1 - sign • (G₂.D * G₁.D)) = 1) : (G₁.feedback G₂ sign E).D = G₁.D * E := by
  show G₁.D * (1 + sign • (E * G₂.D * G₁.D)) = G₁.D * E
  rw [T2_eq_E G₁.D G₂.D sign E hE]

/-- direct term of the system built by `lft`: the lower LFT of the direct terms. -/
theorem lft_D {ι₁ ι₂ o₁ o₂ κ μ : Type} [Fintype o₂] [DecidableEq o₂] [Fintype ι₂] [DecidableEq ι₂]
    [Fintype ι₁] [DecidableEq ι₁] [Fintype κ] [DecidableEq κ]
    (G : SS σ (ι₁ ⊕ ι₂) (o₁ ⊕ o₂) K) (H : SS σ' (o₂ ⊕ κ) (ι₂ ⊕ μ) K)
    (Finv : Matrix (o₂ ⊕ ι₂) (o₂ ⊕ ι₂) K) (hF : Finv * SS.lftF G H = 1)
    (N : Matrix o₂ o₂ K) (hN : (1 - G.D.toBlocks₂₂ * H.D.toBlocks₁₁) * N = 1) :
    (G.lft H Finv).D = Expr.lftMat G.D H.D N := by
  -- the same construction on the static systems `D`, `Dbar` has the same direct term …
  let G' : SS Empty (ι₁ ⊕ ι₂) (o₁ ⊕ o₂) K := SS.static G.D
  let H' : SS Empty (o₂ ⊕ κ) (ι₂ ⊕ μ) K := SS.static H.D
  have hD : (G.lft H Finv).D = (G'.lft H' Finv).D := by
    rw [lft_eq_compact, lft_eq_compact]; rfl
  -- … and a system without states responds with its direct term only
  have h₁ : G'.Resp 0 (fromBlocks G.D.toBlocks₁₁ G.D.toBlocks₁₂ G.D.toBlocks₂₁ G.D.toBlocks₂₂) := by
    rw [fromBlocks_toBlocks]; exact Resp.static G' 0
  have h₂ : H'.Resp 0 (fromBlocks H.D.toBlocks₁₁ H.D.toBlocks₁₂ H.D.toBlocks₂₁ H.D.toBlocks₂₂) := by
    rw [fromBlocks_toBlocks]; exact Resp.static H' 0
  have key := lft_resp_inv G' H' Finv hF 0 h₁ h₂ N hN
  rw [hD]
  exact ((Resp.static_iff _ 0 _).mp key).symm

end ops

/-! ### the tree theorem -/

section tree
variable [DecidableEq K]

/-- **Tree theorem.**  For every finite expression tree `e` (every shape, every leaf, every
nesting of `neg + - * (matrix / scalar gains) append feedback inverse lft select`), every point
`s` and every value `Y` the algebra of transfer matrices assigns to `e` at `s`: the system the
model operators build for `e` responds at `s` with `Y`. -/
theorem tree_resp {o ι : Type} (e : Expr K o ι) (s : K) (Y : Matrix o ι K) (G : AnySS ι o K)
    (hG : e.evalModel = .ok G) (hY : e.Sem s Y) : G.sys.Resp s Y := by
  induction hY with
  | sys h =>
    simp only [evalModel, Except.ok.injEq] at hG
    subst hG; exact h
  | const M s =>
    simp only [evalModel, Except.ok.injEq] at hG
    subst hG; exact static_resp (σ := Empty) M s
  | neg _ ih =>
    simp only [evalModel, Except.bind_eq_ok_iff, Except.ok.injEq] at hG
    obtain ⟨x, hx, rfl⟩ := hG
    exact neg_resp x.sys _ (ih x hx)
  | add _ _ ih₁ ih₂ =>
    simp only [evalModel, Except.bind_eq_ok_iff, Except.ok.injEq] at hG
    obtain ⟨x, hx, y, hy, rfl⟩ := hG
    exact add_resp x.sys y.sys _ (ih₁ x hx) (ih₂ y hy)
  | sub _ _ ih₁ ih₂ =>
    simp only [evalModel, Except.bind_eq_ok_iff, Except.ok.injEq] at hG
    obtain ⟨x, hx, y, hy, rfl⟩ := hG
    exact sub_resp x.sys y.sys _ (ih₁ x hx) (ih₂ y hy)
  | mul _ _ ih₁ ih₂ =>
    simp only [evalModel, Except.bind_eq_ok_iff, Except.ok.injEq] at hG
    obtain ⟨x, hx, y, hy, rfl⟩ := hG
    exact mul_resp x.sys y.sys _ (ih₁ x hx) (ih₂ y hy)
  | mulConst _ ih =>
    simp only [evalModel, Except.bind_eq_ok_iff, Except.ok.injEq] at hG
    obtain ⟨x, hx, rfl⟩ := hG
    exact mulConst_resp x.sys _ _ (ih x hx)
  | constMul _ ih =>
    simp only [evalModel, Except.bind_eq_ok_iff, Except.ok.injEq] at hG
    obtain ⟨x, hx, rfl⟩ := hG
    exact constMul_resp _ x.sys _ (ih x hx)
  | smul _ ih =>
    simp only [evalModel, Except.bind_eq_ok_iff, Except.ok.injEq] at hG
    obtain ⟨x, hx, rfl⟩ := hG
    exact smul_resp x.sys _ _ (ih x hx)
  | addConst _ ih =>
    simp only [evalModel, Except.bind_eq_ok_iff, Except.ok.injEq] at hG
    obtain ⟨x, hx, rfl⟩ := hG
    exact addConst_resp x.sys _ _ (ih x hx)
  | append _ _ ih₁ ih₂ =>
    simp only [evalModel, Except.bind_eq_ok_iff, Except.ok.injEq] at hG
    obtain ⟨x, hx, y, hy, rfl⟩ := hG
    exact append_resp x.sys y.sys _ (ih₁ x hx) (ih₂ y hy)
  | feedback _ _ N hN ih₁ ih₂ =>
    simp only [evalModel, Except.bind_eq_ok_iff] at hG
    obtain ⟨x, hx, y, hy, h⟩ := hG
    unfold fbOp at h
    split at h
    · cases h
    · rename_i hdet
      simp only [Except.ok.injEq] at h
      subst h
      exact feedback_resp x.sys y.sys _ _ (invQ_spec _ hdet).1 _ (ih₁ x hx) (ih₂ y hy) N hN
  | inv _ hY ih =>
    simp only [evalModel, Except.bind_eq_ok_iff] at hG
    obtain ⟨x, hx, h⟩ := hG
    unfold invOp at h
    split at h
    · cases h
    · rename_i hdet
      simp only [Except.ok.injEq] at h
      subst h
      exact inv_resp_of_inverse x.sys _ (invQ_spec _ hdet).1 _ (ih x hx) hY
  | lft _ _ N hN ih₁ ih₂ =>
    simp only [evalModel, Except.bind_eq_ok_iff] at hG
    obtain ⟨x, hx, y, hy, h⟩ := hG
    unfold lftOp at h
    split at h
    · cases h
    · rename_i hdet
      simp only [Except.ok.injEq] at h
      subst h
      exact lft_resp_inv x.sys y.sys _ (invQ_spec _ hdet).1 _ (ih₁ x hx) (ih₂ y hy) N hN
  | select _ ih =>
    simp only [evalModel, Except.bind_eq_ok_iff, Except.ok.injEq] at hG
    obtain ⟨x, hx, rfl⟩ := hG
    exact select_resp x.sys _ _ _ (ih x hx)

/-- where `s` is not an eigenvalue of the result's `A` the value the algebra assigns to the tree
is *the* transfer matrix `C (sI - A)⁻¹ B + D` of the result (so it is unique). -/
theorem tree_value {o ι : Type} (e : Expr K o ι) (s : K) (Y : Matrix o ι K) (G : AnySS ι o K)
    (hG : e.evalModel = .ok G) (hY : e.Sem s Y)
    (hu : IsUnit (s • (1 : Matrix G.σ G.σ K) - G.sys.A)) :
    Y = G.sys.C * ((s • (1 : Matrix G.σ G.σ K) - G.sys.A)⁻¹ * G.sys.B) + G.sys.D :=
  Resp.unique hu (tree_resp e s Y G hG hY) (Resp.of_isUnit G.sys s hu)

/-- the state dimension of the result is the sum of the state dimensions of the leaves (constant
leaves have none). -/
theorem tree_states {o ι : Type} (e : Expr K o ι) (G : AnySS ι o K)
    (hG : e.evalModel = .ok G) : Fintype.card G.σ = e.leafStates := by
  induction e with
  | sys G' =>
    simp only [evalModel, Except.ok.injEq] at hG
    subst hG; rfl
  | const M =>
    simp only [evalModel, Except.ok.injEq] at hG
    subst hG
    show Fintype.card Empty = 0
    exact Fintype.card_eq_zero
  | neg a ih =>
    simp only [evalModel, Except.bind_eq_ok_iff, Except.ok.injEq] at hG
    obtain ⟨x, hx, rfl⟩ := hG
    exact ih x hx
  | add a b iha ihb =>
    simp only [evalModel, Except.bind_eq_ok_iff, Except.ok.injEq] at hG
    obtain ⟨x, hx, y, hy, rfl⟩ := hG
    simp [leafStates, Fintype.card_sum, iha x hx, ihb y hy]
  | sub a b iha ihb =>
    simp only [evalModel, Except.bind_eq_ok_iff, Except.ok.injEq] at hG
    obtain ⟨x, hx, y, hy, rfl⟩ := hG
    simp [leafStates, Fintype.card_sum, iha x hx, ihb y hy]
  | mul a b iha ihb =>
    simp only [evalModel, Except.bind_eq_ok_iff, Except.ok.injEq] at hG
    obtain ⟨x, hx, y, hy, rfl⟩ := hG
    simp [leafStates, Fintype.card_sum, iha x hx, ihb y hy, Nat.add_comm]
  | mulConst a M ih =>
    simp only [evalModel, Except.bind_eq_ok_iff, Except.ok.injEq] at hG
    obtain ⟨x, hx, rfl⟩ := hG
    exact ih x hx
  | constMul M a ih =>
    simp only [evalModel, Except.bind_eq_ok_iff, Except.ok.injEq] at hG
    obtain ⟨x, hx, rfl⟩ := hG
    exact ih x hx
  | smul c a ih =>
    simp only [evalModel, Except.bind_eq_ok_iff, Except.ok.injEq] at hG
    obtain ⟨x, hx, rfl⟩ := hG
    exact ih x hx
  | addConst a M ih =>
    simp only [evalModel, Except.bind_eq_ok_iff, Except.ok.injEq] at hG
    obtain ⟨x, hx, rfl⟩ := hG
    exact ih x hx
  | append a b iha ihb =>
    simp only [evalModel, Except.bind_eq_ok_iff, Except.ok.injEq] at hG
    obtain ⟨x, hx, y, hy, rfl⟩ := hG
    simp [leafStates, Fintype.card_sum, iha x hx, ihb y hy]
  | feedback a b sign iha ihb =>
    simp only [evalModel, Except.bind_eq_ok_iff] at hG
    obtain ⟨x, hx, y, hy, h⟩ := hG
    unfold fbOp at h
    split at h
    · cases h
    · simp only [Except.ok.injEq] at h
      subst h
      simp [leafStates, Fintype.card_sum, iha x hx, ihb y hy]
  | inv a ih =>
    simp only [evalModel, Except.bind_eq_ok_iff] at hG
    obtain ⟨x, hx, h⟩ := hG
    unfold invOp at h
    split at h
    · cases h
    · simp only [Except.ok.injEq] at h
      subst h
      exact ih x hx
  | lft a b iha ihb =>
    simp only [evalModel, Except.bind_eq_ok_iff] at hG
    obtain ⟨x, hx, y, hy, h⟩ := hG
    unfold lftOp at h
    split at h
    · cases h
    · simp only [Except.ok.injEq] at h
      subst h
      simp [leafStates, Fintype.card_sum, iha x hx, ihb y hy]
  | select r c a ih =>
    simp only [evalModel, Except.bind_eq_ok_iff, Except.ok.injEq] at hG
    obtain ⟨x, hx, rfl⟩ := hG
    exact ih x hx

/-- the direct term of the result is the value of the tree in the algebra of constant matrices
(`dterm`: the algebra of `Sem` on the leaves' direct terms). -/
theorem tree_dterm {o ι : Type} (e : Expr K o ι) (G : AnySS ι o K)
    (hG : e.evalModel = .ok G) : e.dterm = some G.sys.D := by
  induction e with
  | sys G' =>
    simp only [evalModel, Except.ok.injEq] at hG
    subst hG; rfl
  | const M =>
    simp only [evalModel, Except.ok.injEq] at hG
    subst hG; rfl
  | neg a ih =>
    simp only [evalModel, Except.bind_eq_ok_iff, Except.ok.injEq] at hG
    obtain ⟨x, hx, rfl⟩ := hG
    simp [dterm, ih x hx, SS.neg]
  | add a b iha ihb =>
    simp only [evalModel, Except.bind_eq_ok_iff, Except.ok.injEq] at hG
    obtain ⟨x, hx, y, hy, rfl⟩ := hG
    simp [dterm, iha x hx, ihb y hy, SS.add]
  | sub a b iha ihb =>
    simp only [evalModel, Except.bind_eq_ok_iff, Except.ok.injEq] at hG
    obtain ⟨x, hx, y, hy, rfl⟩ := hG
    simp [dterm, iha x hx, ihb y hy, SS.add, SS.neg, sub_eq_add_neg]
  | mul a b iha ihb =>
    simp only [evalModel, Except.bind_eq_ok_iff, Except.ok.injEq] at hG
    obtain ⟨x, hx, y, hy, rfl⟩ := hG
    simp [dterm, iha x hx, ihb y hy, SS.mul]
  | mulConst a M ih =>
    simp only [evalModel, Except.bind_eq_ok_iff, Except.ok.injEq] at hG
    obtain ⟨x, hx, rfl⟩ := hG
    simp [dterm, ih x hx, SS.mulConst]
  | constMul M a ih =>
    simp only [evalModel, Except.bind_eq_ok_iff, Except.ok.injEq] at hG
    obtain ⟨x, hx, rfl⟩ := hG
    simp [dterm, ih x hx, SS.constMul]
  | smul c a ih =>
    simp only [evalModel, Except.bind_eq_ok_iff, Except.ok.injEq] at hG
    obtain ⟨x, hx, rfl⟩ := hG
    simp [dterm, ih x hx, SS.smulRight]
  | addConst a M ih =>
    simp only [evalModel, Except.bind_eq_ok_iff, Except.ok.injEq] at hG
    obtain ⟨x, hx, rfl⟩ := hG
    simp [dterm, ih x hx, SS.addConst]
  | append a b iha ihb =>
    simp only [evalModel, Except.bind_eq_ok_iff, Except.ok.injEq] at hG
    obtain ⟨x, hx, y, hy, rfl⟩ := hG
    simp [dterm, iha x hx, ihb y hy, SS.append]
  | feedback a b sign iha ihb =>
    simp only [evalModel, Except.bind_eq_ok_iff] at hG
    obtain ⟨x, hx, y, hy, h⟩ := hG
    unfold fbOp at h
    split at h
    · cases h
    · rename_i hdet
      simp only [Except.ok.injEq] at h
      subst h
      have hdet' : ¬ (1 - sign • (y.sys.D * x.sys.D)).det = 0 := hdet
      simp only [dterm, iha x hx, ihb y hy, Option.bind_some, if_neg hdet']
      rw [feedback_D x.sys y.sys sign _ (invQ_spec _ hdet).1]
      rfl
  | inv a ih =>
    simp only [evalModel, Except.bind_eq_ok_iff] at hG
    obtain ⟨x, hx, h⟩ := hG
    unfold invOp at h
    split at h
    · cases h
    · rename_i hdet
      simp only [Except.ok.injEq] at h
      subst h
      simp only [dterm, ih x hx, Option.bind_some, if_neg hdet]
      rfl
  | lft a b iha ihb =>
    simp only [evalModel, Except.bind_eq_ok_iff] at hG
    obtain ⟨x, hx, y, hy, h⟩ := hG
    unfold lftOp at h
    split at h
    · cases h
    · rename_i hdet
      simp only [Except.ok.injEq] at h
      subst h
      have hdet' : ¬ (1 - x.sys.D.toBlocks₂₂ * y.sys.D.toBlocks₁₁).det = 0 := by
        rw [← SS.det_lftF]; exact hdet
      simp only [dterm, iha x hx, ihb y hy, Option.bind_some, if_neg hdet']
      rw [lft_D x.sys y.sys _ (invQ_spec _ hdet).1 _ (invQ_spec _ hdet').2]
  | select r c a ih =>
    simp only [evalModel, Except.bind_eq_ok_iff, Except.ok.injEq] at hG
    obtain ⟨x, hx, rfl⟩ := hG
    simp [dterm, ih x hx, SS.select]

/-- the algebra of constant matrices fails on the tree exactly when some `feedback` / `** -1` /
`lft` node is ill-posed. -/
theorem dterm_none_iff {o ι : Type} (e : Expr K o ι) : e.dterm = none ↔ e.IllPosed := by
  induction e with
  | sys G' => simp [dterm, IllPosed]
  | const M => simp [dterm, IllPosed]
  | neg a ih => rcases ha : a.dterm with _ | x <;> simp [dterm, IllPosed, ← ih, ha]
  | add a b iha ihb =>
    rcases ha : a.dterm with _ | x <;> rcases hb : b.dterm with _ | y <;>
      simp [dterm, IllPosed, ← iha, ← ihb, ha, hb]
  | sub a b iha ihb =>
    rcases ha : a.dterm with _ | x <;> rcases hb : b.dterm with _ | y <;>
      simp [dterm, IllPosed, ← iha, ← ihb, ha, hb]
  | mul a b iha ihb =>
    rcases ha : a.dterm with _ | x <;> rcases hb : b.dterm with _ | y <;>
      simp [dterm, IllPosed, ← iha, ← ihb, ha, hb]
  | mulConst a M ih => rcases ha : a.dterm with _ | x <;> simp [dterm, IllPosed, ← ih, ha]
  | constMul M a ih => rcases ha : a.dterm with _ | x <;> simp [dterm, IllPosed, ← ih, ha]
  | smul c a ih => rcases ha : a.dterm with _ | x <;> simp [dterm, IllPosed, ← ih, ha]
  | addConst a M ih => rcases ha : a.dterm with _ | x <;> simp [dterm, IllPosed, ← ih, ha]
  | append a b iha ihb =>
    rcases ha : a.dterm with _ | x <;> rcases hb : b.dterm with _ | y <;>
      simp [dterm, IllPosed, ← iha, ← ihb, ha, hb]
  | feedback a b sign iha ihb =>
    rcases ha : a.dterm with _ | x <;> rcases hb : b.dterm with _ | y <;>
      simp [dterm, IllPosed, ← iha, ← ihb, ha, hb]
  | inv a ih => rcases ha : a.dterm with _ | x <;> simp [dterm, IllPosed, ← ih, ha]
  | lft a b iha ihb =>
    rcases ha : a.dterm with _ | x <;> rcases hb : b.dterm with _ | y <;>
      simp [dterm, IllPosed, ← iha, ← ihb, ha, hb]
  | select r c a ih => rcases ha : a.dterm with _ | x <;> simp [dterm, IllPosed, ← ih, ha]

/-- an error of the model means: the algebra of constant matrices fails on the tree, and the
error is `illPosed` (a well-typed tree has no other way to fail). -/
theorem tree_error_dterm {o ι : Type} (e : Expr K o ι) (err : Err)
    (h : e.evalModel = .error err) : e.dterm = none ∧ err = .illPosed := by
  induction e with
  | sys G' => simp [evalModel] at h
  | const M => simp [evalModel] at h
  | neg a ih =>
    simp only [evalModel, Except.bind_eq_error_iff] at h
    rcases h with h | ⟨x, hx, h⟩
    · simp [dterm, ih h]
    · cases h
  | add a b iha ihb =>
    simp only [evalModel, Except.bind_eq_error_iff] at h
    rcases h with h | ⟨x, hx, h | ⟨y, hy, h⟩⟩
    · simp [dterm, iha h]
    · simp [dterm, tree_dterm a x hx, ihb h]
    · cases h
  | sub a b iha ihb =>
    simp only [evalModel, Except.bind_eq_error_iff] at h
    rcases h with h | ⟨x, hx, h | ⟨y, hy, h⟩⟩
    · simp [dterm, iha h]
    · simp [dterm, tree_dterm a x hx, ihb h]
    · cases h
  | mul a b iha ihb =>
    simp only [evalModel, Except.bind_eq_error_iff] at h
    rcases h with h | ⟨x, hx, h | ⟨y, hy, h⟩⟩
    · simp [dterm, iha h]
    · simp [dterm, tree_dterm a x hx, ihb h]
    · cases h
  | mulConst a M ih =>
    simp only [evalModel, Except.bind_eq_error_iff] at h
    rcases h with h | ⟨x, hx, h⟩
    · simp [dterm, ih h]
    · cases h
  | constMul M a ih =>
    simp only [evalModel, Except.bind_eq_error_iff] at h
    rcases h with h | ⟨x, hx, h⟩
    · simp [dterm, ih h]
    · cases h
  | smul c a ih =>
    simp only [evalModel, Except.bind_eq_error_iff] at h
    rcases h with h | ⟨x, hx, h⟩
    · simp [dterm, ih h]
    · cases h
  | addConst a M ih =>
    simp only [evalModel, Except.bind_eq_error_iff] at h
    rcases h with h | ⟨x, hx, h⟩
    · simp [dterm, ih h]
    · cases h
  | append a b iha ihb =>
    simp only [evalModel, Except.bind_eq_error_iff] at h
    rcases h with h | ⟨x, hx, h | ⟨y, hy, h⟩⟩
    · simp [dterm, iha h]
    · simp [dterm, tree_dterm a x hx, ihb h]
    · cases h
  | feedback a b sign iha ihb =>
    simp only [evalModel, Except.bind_eq_error_iff] at h
    rcases h with h | ⟨x, hx, h | ⟨y, hy, h⟩⟩
    · simp [dterm, iha h]
    · simp [dterm, tree_dterm a x hx, ihb h]
    · unfold fbOp at h
      split at h
      · rename_i hdet
        have hdet' : (1 - sign • (y.sys.D * x.sys.D)).det = 0 := hdet
        simp only [Except.error.injEq] at h
        simp [dterm, tree_dterm a x hx, tree_dterm b y hy, hdet', h.symm]
      · cases h
  | inv a ih =>
    simp only [evalModel, Except.bind_eq_error_iff] at h
    rcases h with h | ⟨x, hx, h⟩
    · simp [dterm, ih h]
    · unfold invOp at h
      split at h
      · rename_i hdet
        simp only [Except.error.injEq] at h
        simp [dterm, tree_dterm a x hx, hdet, h.symm]
      · cases h
  | lft a b iha ihb =>
    simp only [evalModel, Except.bind_eq_error_iff] at h
    rcases h with h | ⟨x, hx, h | ⟨y, hy, h⟩⟩
    · simp [dterm, iha h]
    · simp [dterm, tree_dterm a x hx, ihb h]
    · unfold lftOp at h
      split at h
      · rename_i hdet
        rw [SS.det_lftF] at hdet
        simp only [Except.error.injEq] at h
        simp [dterm, tree_dterm a x hx, tree_dterm b y hy, hdet, h.symm]
      · cases h
  | select r c a ih =>
    simp only [evalModel, Except.bind_eq_error_iff] at h
    rcases h with h | ⟨x, hx, h⟩
    · simp [dterm, ih h]
    · cases h

/-- **Errors.**  The model fails on a tree exactly when some `feedback` node has
`det (I - sign D₂ D₁) = 0`, some `** -1` node has `det D = 0` or some `lft` node has
`det (I - D22 Dbar11) = 0` (equivalently `det [[I, -D22], [-Dbar11, I]] = 0`, `SS.det_lftF`),
`D₁`, `D₂` being the direct terms of the operand sub-trees. -/
theorem tree_error {o ι : Type} (e : Expr K o ι) :
    (∃ err, e.evalModel = .error err) ↔ e.IllPosed := by
  rw [← dterm_none_iff]
  constructor
  · rintro ⟨err, h⟩
    exact (tree_error_dterm e err h).1
  · intro hn
    cases h : e.evalModel with
    | error err => exact ⟨err, rfl⟩
    | ok G => rw [tree_dterm e G h] at hn; cases hn

/-- … and the only error is `illPosed`. -/
theorem tree_error_kind {o ι : Type} (e : Expr K o ι) (err : Err)
    (h : e.evalModel = .error err) : err = .illPosed :=
  (tree_error_dterm e err h).2

/-- a tree without ill-posed node evaluates, to a system with the right number of states, the
right direct term and — `tree_resp` — the right response. -/
theorem tree_ok {o ι : Type} (e : Expr K o ι) (h : ¬ e.IllPosed) :
    ∃ G, e.evalModel = .ok G ∧ Fintype.card G.σ = e.leafStates ∧ e.dterm = some G.sys.D := by
  cases hG : e.evalModel with
  | error err => exact absurd ((tree_error e).mp ⟨err, hG⟩) h
  | ok G => exact ⟨G, rfl, tree_states e G hG, tree_dterm e G hG⟩

end tree

/-! ### integer powers: derived trees -/

section pow
variable {ι : Type} [Fintype ι] [DecidableEq ι]

/-- `a ** n` (`n ≥ 0`) has the value `Y ^ n`. -/
theorem pow_sem (a : Expr K ι ι) (s : K) (Y : Matrix ι ι K) (h : a.Sem s Y) :
    ∀ n : Nat, (a.pow n).Sem s (Y ^ n)
  | 0 => by rw [pow_zero]; exact Sem.const 1 s
  | 1 => by rw [pow_one]; exact h
  | k + 2 => by
    rw [pow_succ' Y (k + 1)]
    exact Sem.mul h (pow_sem a s Y h (k + 1))

/-- `a ** k` for every integer `k` has the value `Y ^ k` (for `k < 0`: where `Y` is
invertible). -/
theorem zpow_sem (a : Expr K ι ι) (s : K) (Y : Matrix ι ι K) (h : a.Sem s Y) (k : Int)
    (hk : 0 ≤ k ∨ IsUnit Y.det) : (a.zpow k).Sem s (Y ^ k) := by
  cases k with
  | ofNat n =>
    rw [Int.ofNat_eq_natCast, zpow_natCast]
    exact pow_sem a s Y h n
  | negSucc n =>
    have hu : IsUnit Y.det := by
      rcases hk with hk | hk
      · exact absurd hk (by simp)
      · exact hk
    rw [zpow_negSucc, ← Matrix.inv_pow']
    exact pow_sem (.inv a) s Y⁻¹ (Sem.inv h (Matrix.mul_nonsing_inv Y hu)) (n + 1)

/-- the number of states of `a ** n`: `n` times that of `a`. -/
theorem pow_leafStates (a : Expr K ι ι) : ∀ n : Nat, (a.pow n).leafStates = n * a.leafStates
  | 0 => by simp [Expr.pow, leafStates]
  | 1 => by simp [Expr.pow]
  | k + 2 => by
    have := pow_leafStates a (k + 1)
    simp only [Expr.pow, leafStates, this]
    ring

end pow

/-! ### non-vacuity

The hypotheses of `tree_resp` / `tree_states` / `tree_dterm` / `tree_ok` (`evalModel e = .ok G`,
`Sem e s Y`, `¬ IllPosed e`), of `tree_error` / `tree_error_kind` (an ill-posed tree) and of
`tree_value`, `inv_resp_of_inverse`, `zpow_sem` are satisfiable. -/

/-- `feedback(G, (G + 1) ** -1, -1)` for `G = 1/(s+1)` at `s = 0`: `G(0) = 1`,
`(G(0) + 1)⁻¹ = 1/2`, loop `1 + 1/2 = 3/2`, closed loop `2/3`; `D`-terms `0`, `1`: well-posed. -/
example :
    let c (x : ℚ) {a b : Type} : Matrix a b ℚ := Matrix.of fun _ _ => x
    let S : SS Unit Unit Unit ℚ := ⟨c (-1), c 1, c 1, c 0⟩
    let e : Expr ℚ Unit Unit :=
      .feedback (.sys (.of S)) (.inv (.addConst (.sys (.of S)) (c 1))) (-1)
    ¬ e.IllPosed ∧ (∃ R, e.evalModel = .ok R) ∧ ∃ Y, e.Sem 0 Y := by
  intro c S e
  have hI : ¬ e.IllPosed := by
    simp [e, S, c, IllPosed, dterm, AnySS.of, Matrix.det_unique, SS.invQ, Matrix.mul_apply]
  have h1 : S.Resp 0 (c 1) := ⟨c 1, by ext i j; simp [S, c, Matrix.mul_apply],
    by ext i j; simp [S, c, Matrix.mul_apply]⟩
  have hinv : (c 1 + c 1 : Matrix Unit Unit ℚ) * c (1/2) = 1 := by
    ext i j; simp [c, Matrix.mul_apply]; norm_num
  have hN : (1 - (-1 : ℚ) • ((c (1/2) : Matrix Unit Unit ℚ) * c 1)) * c (2/3) = 1 := by
    ext i j; simp [c, Matrix.mul_apply]; norm_num
  refine ⟨hI, ?_, _, Sem.feedback (Sem.sys h1) (Sem.inv (Sem.addConst (Sem.sys h1)) hinv) _ hN⟩
  obtain ⟨R, hR, -⟩ := tree_ok e hI
  exact ⟨R, hR⟩

/-- an `lft` node (the operands of the example in `Props/C02.lean`): `I - D22 Dbar11 = 1`. -/
example :
    let c (x : ℚ) {a b : Type} : Matrix a b ℚ := Matrix.of fun _ _ => x
    let G : SS Unit (Unit ⊕ Unit) (Unit ⊕ Unit) ℚ := ⟨c (-1), c 1, c 1, c 0⟩
    let H : SS Unit (Unit ⊕ Unit) (Unit ⊕ Unit) ℚ :=
      ⟨c (-1), c 1, c 1, fromBlocks (c 1) (c 0) (c 0) (c 0)⟩
    let e : Expr ℚ (Unit ⊕ Unit) (Unit ⊕ Unit) := .lft (.sys (.of G)) (.sys (.of H))
    ¬ e.IllPosed ∧ (∃ R, e.evalModel = .ok R) ∧ ∃ Y, e.Sem 0 Y := by
  intro c G H e
  have hI : ¬ e.IllPosed := by
    simp [e, G, H, c, IllPosed, dterm, AnySS.of, Matrix.det_unique, Matrix.mul_apply, toBlocks₂₂,
      toBlocks₁₁]
  have hG : G.Resp 0 (fromBlocks (c 1) (c 1) (c 1) (c 1)) := by
    refine ⟨c 1, ?_, ?_⟩
    · ext i j; simp [G, c, Matrix.mul_apply]
    · ext (i | i) (j | j) <;> simp [G, c, Matrix.mul_apply]
  have hH : H.Resp 0 (fromBlocks (c 2) (c 1) (c 1) (c 1)) := by
    refine ⟨c 1, ?_, ?_⟩
    · ext i j; simp [H, c, Matrix.mul_apply]
    · ext (i | i) (j | j) <;> (simp [H, c, Matrix.mul_apply]; try norm_num)
  have hN : (1 - (c 1 : Matrix Unit Unit ℚ) * c 2) * c (-1) = 1 := by
    ext i j; simp [c, Matrix.mul_apply]; norm_num
  refine ⟨hI, ?_, _, Sem.lft (Sem.sys hG) (Sem.sys hH) _ hN⟩
  obtain ⟨R, hR, -⟩ := tree_ok e hI
  exact ⟨R, hR⟩

/-- an ill-posed tree: `-(feedback(1, 1, +1))` has `I - D₂ D₁ = 0`; the model raises `illPosed`. -/
example :
    let c (x : ℚ) {a b : Type} : Matrix a b ℚ := Matrix.of fun _ _ => x
    let e : Expr ℚ Unit Unit := .neg (.feedback (.const (c 1)) (.const (c 1)) 1)
    e.IllPosed ∧ e.evalModel = .error .illPosed := by
  intro c e
  have hI : e.IllPosed := by
    simp [e, c, IllPosed, dterm, Matrix.det_unique, Matrix.mul_apply]
  obtain ⟨err, h⟩ := (tree_error e).mpr hI
  exact ⟨hI, by rw [h, tree_error_kind e err h]⟩

/-- `tree_value` (`s` not an eigenvalue of the result's `A`), `Sem.inv` / `inv_resp_of_inverse`
(an inverse matrix exists), `zpow_sem` (`IsUnit Y.det`). -/
example :
    let S : SS Unit Unit Unit ℚ := ⟨-1, 1, 1, 0⟩
    let e : Expr ℚ Unit Unit := .sys (.of S)
    ∃ R, e.evalModel = .ok R ∧ IsUnit ((0 : ℚ) • (1 : Matrix R.σ R.σ ℚ) - R.sys.A) ∧
      (1 : Matrix Unit Unit ℚ) * 1 = 1 ∧ IsUnit (1 : Matrix Unit Unit ℚ).det :=
  ⟨_, rfl, by
    show IsUnit ((0 : ℚ) • (1 : Matrix Unit Unit ℚ) - -1)
    rw [zero_smul, zero_sub, neg_neg]; exact isUnit_one, by simp, by simp⟩

end CtrlVerif.C02
