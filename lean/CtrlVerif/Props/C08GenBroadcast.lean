/-
Source-text tie of C08, part 1e: the broadcasting of mixed input lists in `input_output_response`
(control/nlsys.py: the loop `for i, u in enumerate(U)` with `np.outer` and the `np.vstack`).
`Generated/NLBroadcast.lean` is rewritten from the source text on every run; the statements of the
model (`processInputs`, as `PyNL.broadcastModel`) are proved EQUAL to it.
-/
import CtrlVerif.Generated.NLBroadcast
import CtrlVerif.Lemmas.PyNL

namespace CtrlVerif.C08Gen

open CtrlVerif PyNL

/-- the model's `processInputs` on a list whose length is not the number of time points runs exactly
the statements `broadcastModel`, then the shape check. -/
theorem processInputs_broadcast (N m : Nat) (es : List UElem) (h : es.length ≠ N) :
    processInputs N m (.list es) = (broadcastModel N es).bind (checkU2 N m) := by
  unfold processInputs broadcastModel
  simp only [h, ne_eq, not_false_eq_true, if_true]
  generalize List.mapM (m := Except Err) _ es = r
  cases r with
  | error e => rfl
  | ok parts =>
    by_cases he : es.isEmpty = true <;> simp [he, bind, Except.bind, pure, Except.pure]

/-- **generated_broadcast_eq**: the broadcasting statements of the source text compute the rows the
model computes — for every list of elements (numbers, 1-D arrays of any length, genuine 2-D arrays),
every number of time points: a number becomes one constant row, a 1-D array whose length is not the
number of time points one constant row per entry, a 1-D array of that length one row, a 2-D array
its rows; an empty list and a 2-D array with another number of columns are rejected (`ValueError`)
by both. -/
theorem generated_broadcast_eq (T : List Q) (es : List (PyNL.UElem Q)) (hwf : ∀ e ∈ es, UElem.WF e) :
    (Generated.nlBroadcast T es).map (·.rows) = broadcastModel T.length (es.map toUElem) := by
  unfold Generated.nlBroadcast broadcastModel
  simp only []
  rw [mapM_model_part T.length es hwf]
  rw [foldlM_blocks T.length _ ?_ es []]
  · by_cases ha : es.all (okElem T.length) = true
    · simp only [ha, if_true, bind, Except.bind, List.nil_append]
      cases es with
      | nil => rfl
      | cons e es =>
        have hc : ∀ b ∈ (e :: es).map (blockOf T.length), b.c = T.length := by
          intro b hb
          obtain ⟨x, hx, rfl⟩ := List.mem_map.mp hb
          exact blockOf_c _ _ (List.all_eq_true.mp ha x hx)
        rw [vstack_blocks T.length _ (by simp) hc]
        simp [pure, Except.pure, Except.map, List.map_map, Function.comp_def]
    · simp [ha, bind, Except.bind, Except.map]
  · intro acc e
    cases e with
    | scalar c => simp [okElem, blockOf, pure, Except.pure]
    | vec v =>
      by_cases hv : v.length = T.length
      · have hv' : ¬ ((v.length : Int) ≠ (T.length : Int)) := by omega
        have hv'' : ((v.length : Int) = (T.length : Int)) := by omega
        simp [okElem, blockOf, hv, pure, Except.pure, bind, Except.bind]
      · have hv' : ((v.length : Int) ≠ (T.length : Int)) := by omega
        simp [okElem, blockOf, hv, hv', pure, Except.pure]
    | mat M =>
      by_cases hc : M.c = T.length
      · have hc' : ((M.c : Int) = (T.length : Int)) := by omega
        simp [okElem, blockOf, hc, pure, Except.pure, bind, Except.bind]
      · have hc' : ¬ ((M.c : Int) = (T.length : Int)) := by omega
        simp only [okElem, beq_iff_eq, hc, hc', not_false_eq_true, if_true, bind, Except.bind]
        rfl

/-- non-vacuity: three time points; a number and a two-entry array give three constant rows. -/
example : (Generated.nlBroadcast (K := ℚ) [0, 1, 2] [.scalar 1, .vec [2, 3]]).map (·.rows)
    = .ok [[1, 1, 1], [2, 2, 2], [3, 3, 3]] := by decide +kernel
example : (Generated.nlBroadcast (K := ℚ) [0, 1, 2] [.vec [4, 5, 6], .mat ⟨3, [[7, 8, 9]]⟩]).map (·.rows)
    = .ok [[4, 5, 6], [7, 8, 9]] := by decide +kernel
example : (Generated.nlBroadcast (K := ℚ) [0, 1, 2] [.mat ⟨2, [[7, 8]]⟩]).map (·.rows)
    = .error .shape := by decide +kernel
example : (Generated.nlBroadcast (K := ℚ) [0, 1, 2] []).map (·.rows) = .error .shape := by decide +kernel

end CtrlVerif.C08Gen
