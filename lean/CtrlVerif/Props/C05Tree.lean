/-
C05 — Timebase calculus, completeness for whole expressions (powers, n-ary functions, trees).

`Model/C05Expr.lean` composes the per-operation timebase table of `Model/DtOps.lean` (the table the
exhaustive correspondence check validates against python-control) into expressions `Expr` over

  leaves (system of any class with any timebase / scalar / array / summing junction), `sample(Ts)`,
  unary operations (neg, integer powers, indexing, copy, rename, ss / tf / frd / nlsys, similarity
  and canonical forms, model_reduction, minreal, linearize), `+ - * /`, `feedback`, and the n-ary
  `series`, `parallel`, `append`, `interconnect(…, dt=)`, `combine_tf`,

`evalDt cfg e` is the timebase of the value (or the exception), `leaves e` the leaf timebases
(a sampling node is a leaf with timebase `Ts`; `sampled e` lists the operands of the sampling nodes).

* §1 `tree_join`: whatever an expression returns is the join of its leaves; hence independent of
  shape and operand order (`tree_order_shape_independent`, `tree_perm_iff`).
* §2 `tree_returns` (completeness) and `tree_error_iff`: an expression all of whose operations are
  offered for the classes of their operands (`kind e ≠ none`, the class table proved total in
  `Props/C05.lean`) raises **iff** two leaves are incompatible (continuous against discrete, two
  sampling times that are not `close`) or a sampling node is applied to a tree that is not a
  compatible continuous-time tree; `tree_timebase_error`: the timebase `ValueError` is raised only
  for incompatible leaves.  All of this for leaf sets that are pairwise identical-or-not-`close`
  (`AdmDeep`); `tree_close_counterexample` shows that at the `np.isclose` tolerance edge the result
  depends on operand order and on bracketing.
* §3 `pow_dt`, `nary_dt` and the per-function totality statements.
* §4 `unary_tree`, `sample_tree`.
-/
import CtrlVerif.Lemmas.C05Expr

namespace CtrlVerif.C05Tree

open CtrlVerif CtrlVerif.C05Expr

/-! ## 1. the value's timebase is the join of the leaves -/

/-- `tree_join`: if an expression returns, its timebase is the join (fold of the rule of the
property) of the timebases of its leaves — for every expression, every class, every config. -/
theorem tree_join (cfg : DtArg) (e : Expr) (h : AdmList (leaves e)) {d : Dt}
    (he : evalDt cfg e = .ok d) : joinAll (leaves e) = some d := by
  obtain ⟨a, ha, rfl⟩ := evalDt_ok_iff.mp he
  exact eval_sound cfg e h a ha

/-- two expressions over the same leaves, in any order and with any bracketing / any operations:
when both return, the timebases agree. -/
theorem tree_order_shape_independent (cfg : DtArg) (e₁ e₂ : Expr)
    (hp : (leaves e₁).Perm (leaves e₂)) (h : AdmList (leaves e₁)) {d₁ d₂ : Dt}
    (h1 : evalDt cfg e₁ = .ok d₁) (h2 : evalDt cfg e₂ = .ok d₂) : d₁ = d₂ := by
  have hadm2 : AdmList (leaves e₂) := h.sub fun x hx => Or.inr (hp.symm.subset hx)
  have j1 := tree_join cfg e₁ h h1
  have j2 := tree_join cfg e₂ hadm2 h2
  rw [joinAll_perm hp, j2] at j1
  exact (Option.some.inj j1).symm

/-! ## 2. completeness -/

/-- `tree_returns` (completeness): an expression whose operations are all offered for the classes
of their operands (`kind e = some k`), whose leaves are pairwise compatible and whose sampling nodes
sample compatible continuous-time trees **returns**; the value has the tabulated class and the join
of the leaves as timebase. -/
theorem tree_returns (cfg : DtArg) (e : Expr) (k : Kind) (hadm : AdmDeep e) (hk : kind e = some k)
    (hc : ∀ a ∈ leaves e, ∀ b ∈ leaves e, join a b ≠ Option.none) (hs : SamplesOK e) :
    ∃ a, eval cfg e = .ok a ∧ a.kind = k ∧ joinAll (leaves e) = some a.dt ∧
      evalDt cfg e = .ok a.dt := by
  have hj : ∃ d, joinAll (leaves e) = some d := by
    cases hjn : joinAll (leaves e) with
    | some d => exact ⟨d, rfl⟩
    | none =>
      obtain ⟨a, ha, b, hb, hab⟩ := (joinAll_eq_none_iff _).mp hjn
      exact absurd hab (hc a ha b hb)
  obtain ⟨a, ha, hak⟩ := eval_complete cfg e k hadm.1 hadm.2 hk hj hs
  exact ⟨a, ha, hak, eval_sound cfg e hadm.1 a ha, evalDt_ok_iff.mpr ⟨a, ha, rfl⟩⟩

/-- incompatibility of two admissible timebases, spelled out. -/
theorem incompatible_iff {a b : Dt} (h : Adm a b) :
    join a b = Option.none ↔
      (a = .cont ∧ (b = .dtrue ∨ ∃ x, b = .disc x)) ∨ ((a = .dtrue ∨ ∃ x, a = .disc x) ∧ b = .cont) ∨
      (∃ h₁ h₂, a = .disc h₁ ∧ b = .disc h₂ ∧ close h₁ h₂ = false) :=
  incompatible_iff_join h

/-- `tree_error_iff`: a class-supported expression raises iff two of its leaves are incompatible
or one of its sampling nodes is applied to something that is not a compatible continuous-time (or
unspecified) tree. -/
theorem tree_error_iff (cfg : DtArg) (e : Expr) (k : Kind) (hadm : AdmDeep e) (hk : kind e = some k) :
    (∃ err, evalDt cfg e = .error err) ↔
      ((∃ a ∈ leaves e, ∃ b ∈ leaves e, Incompatible a b) ∨ ¬ SamplesOK e) := by
  constructor
  · rintro ⟨err, herr⟩
    by_contra hcon
    obtain ⟨h1, h2⟩ := not_or.mp hcon
    have h2' : SamplesOK e := Classical.not_not.mp h2
    have hc : ∀ a ∈ leaves e, ∀ b ∈ leaves e, join a b ≠ Option.none := by
      intro a ha b hb hj
      have hA : Adm a b := hadm.1.adm (Or.inr ha) (Or.inr hb)
      exact h1 ⟨a, ha, b, hb, (incompatible_iff_join hA).mp hj⟩
    obtain ⟨a, _, _, _, h4⟩ := tree_returns cfg e k hadm hk hc h2'
    rw [h4] at herr; cases herr
  · intro h
    cases hev : evalDt cfg e with
    | error err => exact ⟨err, rfl⟩
    | ok d =>
      exfalso
      obtain ⟨x, hx, rfl⟩ := evalDt_ok_iff.mp hev
      rcases h with ⟨a, ha, b, hb, hab⟩ | hns
      · have hA : Adm a b := hadm.1.adm (Or.inr ha) (Or.inr hb)
        have hjn : joinAll (leaves e) = Option.none :=
          (joinAll_eq_none_iff _).mpr ⟨a, ha, b, hb, (incompatible_iff_join hA).mpr hab⟩
        have := eval_sound cfg e hadm.1 x hx
        rw [hjn] at this; cases this
      · exact hns (eval_samplesOK cfg e hadm.2 x hx)

/-- without sampling nodes: raises iff two leaves are incompatible; in particular the expression
**returns** whenever the leaves are pairwise compatible. -/
theorem tree_error_iff_nosample (cfg : DtArg) (e : Expr) (k : Kind) (hadm : AdmList (leaves e))
    (hns : sampled e = []) (hk : kind e = some k) :
    (∃ err, evalDt cfg e = .error err) ↔ ∃ a ∈ leaves e, ∃ b ∈ leaves e, Incompatible a b := by
  have hd : AdmDeep e := ⟨hadm, by rw [hns]; intro _ h; cases h⟩
  have hs : SamplesOK e := by unfold SamplesOK; rw [hns]; intro _ h; cases h
  rw [tree_error_iff cfg e k hd hk]
  constructor
  · rintro (h | h)
    · exact h
    · exact absurd hs h
  · exact Or.inl

/-- the timebase `ValueError` is raised only if two leaves are incompatible — leaves of the tree
itself or of the operand of one of its sampling nodes. -/
theorem tree_timebase_error (cfg : DtArg) (e : Expr) (hadm : AdmDeep e)
    (h : evalDt cfg e = .error .timebase) :
    (∃ a ∈ leaves e, ∃ b ∈ leaves e, join a b = Option.none) ∨
    ∃ e' ∈ sampled e, ∃ a ∈ leaves e', ∃ b ∈ leaves e', join a b = Option.none := by
  rcases eval_timebase cfg e hadm.1 hadm.2 (evalDt_error_iff.mp h) with h1 | ⟨e', he', h1⟩
  · exact Or.inl ((joinAll_eq_none_iff _).mp h1)
  · exact Or.inr ⟨e', he', (joinAll_eq_none_iff _).mp h1⟩

/-- two class-supported expressions over the same leaves (any order, any bracketing, any
operations) and with well-formed sampling nodes: either both return, with the same timebase, or both
raise. -/
theorem tree_perm_iff (cfg : DtArg) (e₁ e₂ : Expr) (k₁ k₂ : Kind)
    (hp : (leaves e₁).Perm (leaves e₂)) (h1 : AdmDeep e₁) (h2 : AdmDeep e₂)
    (hk1 : kind e₁ = some k₁) (hk2 : kind e₂ = some k₂) (hs1 : SamplesOK e₁) (hs2 : SamplesOK e₂) :
    (∃ d, evalDt cfg e₁ = .ok d ∧ evalDt cfg e₂ = .ok d) ∨
    ((∃ err, evalDt cfg e₁ = .error err) ∧ (∃ err, evalDt cfg e₂ = .error err)) := by
  by_cases hinc : ∃ a ∈ leaves e₁, ∃ b ∈ leaves e₁, Incompatible a b
  · right
    refine ⟨(tree_error_iff cfg e₁ k₁ h1 hk1).mpr (Or.inl hinc), ?_⟩
    obtain ⟨a, ha, b, hb, hab⟩ := hinc
    exact (tree_error_iff cfg e₂ k₂ h2 hk2).mpr (Or.inl ⟨a, hp.subset ha, b, hp.subset hb, hab⟩)
  · left
    have hinc2 : ¬ ∃ a ∈ leaves e₂, ∃ b ∈ leaves e₂, Incompatible a b := by
      rintro ⟨a, ha, b, hb, hab⟩
      exact hinc ⟨a, hp.symm.subset ha, b, hp.symm.subset hb, hab⟩
    have r1 : ¬ ∃ err, evalDt cfg e₁ = .error err := by
      rw [tree_error_iff cfg e₁ k₁ h1 hk1]; rintro (h | h)
      · exact hinc h
      · exact h hs1
    have r2 : ¬ ∃ err, evalDt cfg e₂ = .error err := by
      rw [tree_error_iff cfg e₂ k₂ h2 hk2]; rintro (h | h)
      · exact hinc2 h
      · exact h hs2
    cases hv1 : evalDt cfg e₁ with
    | error x => exact absurd ⟨x, hv1⟩ r1
    | ok d₁ =>
      cases hv2 : evalDt cfg e₂ with
      | error x => exact absurd ⟨x, hv2⟩ r2
      | ok d₂ =>
        have := tree_order_shape_independent cfg e₁ e₂ hp h1.1 hv1 hv2
        subst this
        exact ⟨d₁, rfl, rfl⟩

/-- `tree_close_counterexample` (the `np.isclose` tolerance edge; known finding
C05-isclose-tolerance): `close` is not transitive — `1 ~ 1+9·2⁻²⁰ ~ 1+18·2⁻²⁰` but `1 ≁ 1+18·2⁻²⁰`
— so for three valid sampling times that are *not* pairwise identical-or-not-close
(i) an expression returns although two of its leaves differ (`tree_join` fails without `AdmList`),
(ii) the bracketing decides whether the product raises, (iii) the operand order of `series` decides
both the returned value and whether it raises.  The hypothesis `AdmList` / `AdmDeep` of the theorems
above cannot be dropped. -/
theorem tree_close_counterexample :
    let a : Dt := .disc 1
    let b : Dt := .disc (1048585 / 1048576)
    let c : Dt := .disc (524297 / 524288)
    let A := Expr.sys .ss a
    let B := Expr.sys .ss b
    let C := Expr.sys .ss c
    (a.valid ∧ b.valid ∧ c.valid) ∧
    (close 1 (1048585 / 1048576) = true ∧ close (1048585 / 1048576) (524297 / 524288) = true ∧
      close 1 (524297 / 524288) = false) ∧
    -- (i) accepted although the leaves differ
    (evalDt (.num 0) (Expr.bin .add A B) = .ok a ∧ join a b = Option.none) ∧
    -- (ii) bracketing
    (evalDt (.num 0) (Expr.bin .mul (Expr.bin .mul A B) C) = .error .timebase ∧
     evalDt (.num 0) (Expr.bin .mul A (Expr.bin .mul B C)) = .ok a) ∧
    -- (iii) operand order of an n-ary function
    (evalDt (.num 0) (Expr.series [A, B, C]) = .ok c ∧
     evalDt (.num 0) (Expr.series [C, B, A]) = .ok a ∧
     evalDt (.num 0) (Expr.series [B, A, C]) = .error .timebase) := by
  decide +kernel

/-! non-vacuity -/

-- ((ss(None) + tf(0.1)) ** -2 |> series with a summing-junction interconnect |> feedback with frd(True) …
example : evalDt (.num 0)
    (Expr.fb (Expr.series [Expr.pow (-2) (Expr.bin .add (.sys .ss .none) (.sys .tf (.disc (1/10)))),
        .leaf .scalar, .sys .tf .dtrue]) (.sys .ss (.disc (1/10)))) = .ok (.disc (1/10)) := by
  decide +kernel
-- sampling cuts the tree: the continuous subtree is sampled, then combined with discrete systems
example : let e := Expr.parallel [.sample (1/2) (Expr.bin .mul (.sys .ss .cont) (.sys .tf .none)),
      .sys .ss .dtrue, Expr.un .toSS (.sys .tf (.disc (1/2)))]
    evalDt (.num 0) e = .ok (.disc (1/2)) ∧ leaves e = [.disc (1/2), .dtrue, .disc (1/2)] ∧
    kind e = some (.cls .ss) ∧ (sampled e).length = 1 := by
  decide +kernel
-- incompatible leaves: raises
example : evalDt (.num 0) (Expr.ic (some .dtrue) [.sys .nl .none, .sumjunc, .sys .ss .cont]) =
    .error .timebase := by decide +kernel
-- sampling a discrete-time tree: raises although the (cut) leaves are compatible
example : evalDt (.num 0) (Expr.bin .add (.sample (1/2) (.sys .ss .dtrue)) (.sys .ss .dtrue)) =
    .error .badArg := by decide +kernel
-- the hypotheses of `tree_returns` are satisfiable on a mixed tree
example : kind (Expr.combine [.sys .tf .none, .leaf .array, Expr.un .minreal (.sys .tf .dtrue)]) =
    some (.cls .tf) := by decide +kernel
example : AdmList [.none, .dtrue, .disc (1/10), .disc (1/10)] :=
  ⟨by decide +kernel, by
    intro a ha b hb _ _
    simp only [List.mem_cons, List.not_mem_nil, or_false] at ha hb
    rcases ha with rfl | rfl | rfl | rfl <;> rcases hb with rfl | rfl | rfl | rfl <;>
      first | exact Or.inl rfl | simp_all [Dt.isNum]⟩

/-! ## 3. powers and n-ary functions return exactly the join -/

/-- `pow_dt`: `sys ** k` of a StateSpace / TransferFunction / FRD system returns, for **every**
integer `k` (zero and negative included), a system of the same class with exactly the operand's
timebase. -/
theorem pow_dt (c : Cls) (hc : c = .ss ∨ c = .tf ∨ c = .frd) (d : Dt) (hd : d.valid) (cfg : DtArg)
    (k : Int) : unDt (.pow k) ⟨c, d⟩ cfg = .ok ⟨c, d⟩ :=
  unDt_pow_total (by rcases hc with rfl | rfl | rfl <;> rfl) hd cfg k

/-- powers inside a tree: if the operand evaluates to a linear system, the power evaluates to a
system of the same class with the same timebase. -/
theorem pow_tree (cfg : DtArg) (e : Expr) (k : Int) (h : AdmList (leaves e)) (c : Cls) (d : Dt)
    (hc : c = .ss ∨ c = .tf ∨ c = .frd) (he : eval cfg e = .ok (.sys ⟨c, d⟩)) :
    eval cfg (Expr.pow k e) = .ok (.sys ⟨c, d⟩) := by
  have hj := eval_sound cfg e h _ he
  have hd : d.valid := joinAll_valid h hj
  simp only [Expr.pow, Expr.un, eval_node, evalL_cons, he, bind, Except.bind, evalL, applyOp, unArg,
    Un1.toUnOp, pow_dt c hc d hd cfg k]

/-- `nary_dt`: every node operation — in particular `series`, `parallel`, `append`,
`interconnect(…, dt=kw)`, `combine_tf` over any number of operands, folded as the code folds them —
on operands of supported classes with compatible timebases returns a value of the tabulated class
whose timebase is exactly the join of the operand timebases (and `kw`). -/
theorem nary_dt (cfg : DtArg) (op : Op) (args : List Arg) (k : Kind) (d : Dt)
    (h : AdmList (op.own ++ args.map Arg.dt)) (hk : opKind op (args.map Arg.kind) = some k)
    (hj : joinAll (op.own ++ args.map Arg.dt) = some d) :
    ∃ x, applyOp cfg op args = .ok x ∧ x.kind = k ∧ x.dt = d := by
  obtain ⟨x, hx, hxk⟩ := applyOp_total cfg op args k d h hk hj
  have := (applyOp_sound cfg op args h).1 x hx
  rw [hj] at this
  exact ⟨x, hx, hxk, (Option.some.inj this).symm⟩

/-- … and with incompatible timebases it raises. -/
theorem nary_incompatible_raises (cfg : DtArg) (op : Op) (args : List Arg)
    (h : AdmList (op.own ++ args.map Arg.dt))
    (hj : joinAll (op.own ++ args.map Arg.dt) = Option.none) :
    ∃ err, applyOp cfg op args = .error err := by
  cases hr : applyOp cfg op args with
  | error err => exact ⟨err, rfl⟩
  | ok x =>
    have := (applyOp_sound cfg op args h).1 x hr
    rw [hj] at this; cases this

/-- the operand order of an n-ary function does not matter: over permuted operand timebases (both
operand lists of supported classes) both calls return, with the same timebase, or both raise. -/
theorem nary_perm (cfg : DtArg) (op : Op) (args₁ args₂ : List Arg) (k₁ k₂ : Kind)
    (hp : (args₁.map Arg.dt).Perm (args₂.map Arg.dt)) (h : AdmList (op.own ++ args₁.map Arg.dt))
    (hk1 : opKind op (args₁.map Arg.kind) = some k₁) (hk2 : opKind op (args₂.map Arg.kind) = some k₂) :
    (∃ x y, applyOp cfg op args₁ = .ok x ∧ applyOp cfg op args₂ = .ok y ∧ x.dt = y.dt) ∨
    ((∃ err, applyOp cfg op args₁ = .error err) ∧ (∃ err, applyOp cfg op args₂ = .error err)) := by
  have hp' : (op.own ++ args₁.map Arg.dt).Perm (op.own ++ args₂.map Arg.dt) := hp.append_left _
  have h2 : AdmList (op.own ++ args₂.map Arg.dt) := h.sub fun x hx => Or.inr (hp'.symm.subset hx)
  have hj := joinAll_perm hp'
  cases hj1 : joinAll (op.own ++ args₁.map Arg.dt) with
  | none =>
    right
    exact ⟨nary_incompatible_raises cfg op args₁ h hj1,
      nary_incompatible_raises cfg op args₂ h2 (by rw [← hj, hj1])⟩
  | some d =>
    left
    obtain ⟨x, hx, _, hxd⟩ := nary_dt cfg op args₁ k₁ d h hk1 hj1
    obtain ⟨y, hy, _, hyd⟩ := nary_dt cfg op args₂ k₂ d h2 hk2 (by rw [← hj, hj1])
    exact ⟨x, y, hx, hy, by rw [hxd, hyd]⟩

/-- `series(s₁, …, sₙ)`, `parallel(…)`, `append(…)` as functions of the operand list. -/
theorem series_total (first : Sys) (rest : List Arg) (c : Cls) (d : Dt) (cfg : DtArg)
    (h : AdmList (first.dt :: rest.map Arg.dt))
    (hk : foldKind (fun acc y => binResult y (.cls acc)) first.cls (rest.map Arg.kind) = some c)
    (hj : joinAll (first.dt :: rest.map Arg.dt) = some d) : seriesDt first rest cfg = .ok ⟨c, d⟩ :=
  seriesDt_total first rest c d cfg h hk hj

theorem parallel_total (first : Sys) (rest : List Arg) (c : Cls) (d : Dt) (cfg : DtArg)
    (h : AdmList (first.dt :: rest.map Arg.dt))
    (hk : foldKind (fun acc y => binResult (.cls acc) y) first.cls (rest.map Arg.kind) = some c)
    (hj : joinAll (first.dt :: rest.map Arg.dt) = some d) : parallelDt first rest cfg = .ok ⟨c, d⟩ :=
  parallelDt_total first rest c d cfg h hk hj

theorem append_all_total (first : Sys) (rest : List Arg) (c : Cls) (d : Dt) (cfg : DtArg)
    (h : AdmList (first.dt :: rest.map Arg.dt))
    (hk : foldKind appendResult first.cls (rest.map Arg.kind) = some c)
    (hj : joinAll (first.dt :: rest.map Arg.dt) = some d) : appendAllDt first rest cfg = .ok ⟨c, d⟩ :=
  appendAllDt_total first rest c d cfg h hk hj

/-- `interconnect(syslist, dt=kw)` of subsystems with states. -/
theorem interconnect_total (kw : Option Dt) (l : List Sys) (d : Dt) (cfg : DtArg)
    (h : AdmList (kw.getD .none :: l.map Sys.dt)) (hc : ∀ s ∈ l, s.cls ≠ .frd)
    (hj : joinAll (kw.getD .none :: l.map Sys.dt) = some d) : icDt kw l cfg = .ok ⟨.ic, d⟩ :=
  icDt_total kw l d cfg h hc hj

/-- `combine_tf`: returns the join whenever the blocks are compatible, and raises the timebase
error **only** when two blocks are incompatible (the `_ensure_tf` re-check never fires on its own:
this closes the clause left open in `C05.combine_tf_result_common`). -/
theorem combine_tf_total (blocks : List Arg) (cfg : DtArg) (h : AdmList (blocks.map Arg.dt)) :
    (∀ d, joinAll (blocks.map Arg.dt) = some d → combineTfDt blocks cfg = .ok ⟨.tf, d⟩) ∧
    (combineTfDt blocks cfg = .error .timebase → joinAll (blocks.map Arg.dt) = Option.none) :=
  ⟨fun d hj => combineTfDt_total blocks d cfg h hj, (combineTfDt_sound blocks cfg h).2⟩

example : unDt (.pow (-3)) ⟨.frd, .disc (1/4)⟩ (.num (1/10)) = .ok ⟨.frd, .disc (1/4)⟩ := by decide +kernel
example : unDt (.pow 0) ⟨.ss, .dtrue⟩ .none = .ok ⟨.ss, .dtrue⟩ := by decide +kernel
example : seriesDt ⟨.ss, .none⟩ [.sys ⟨.tf, .disc (1/10)⟩, .scalar, .sys ⟨.nl, .dtrue⟩] (.num 0) =
    .ok ⟨.ic, .disc (1/10)⟩ := by decide +kernel
example : foldKind (fun acc y => binResult y (.cls acc)) .ss [.cls .tf, .scalar, .cls .nl] = some .ic := by
  decide +kernel
example : icDt (some .dtrue) [⟨.ss, .none⟩, ⟨.tf, .disc (1/4)⟩, ⟨.nl, .dtrue⟩] (.num 0) =
    .ok ⟨.ic, .disc (1/4)⟩ := by decide +kernel
example : combineTfDt [.sys ⟨.tf, .dtrue⟩, .array, .sys ⟨.tf, .disc (1/4)⟩] (.num 0) =
    .ok ⟨.tf, .disc (1/4)⟩ := by decide +kernel
example : combineTfDt [.sys ⟨.tf, .cont⟩, .sys ⟨.tf, .disc (1/4)⟩] (.num 0) = .error .timebase := by
  decide +kernel

/-! ## 4. unary nodes and sampling nodes -/

/-- `unary_tree`: a (non-sampling) unary node never changes the result: it has the leaves of its
operand, whatever it returns is what the operand returns, and on a class for which the operation is
offered it returns exactly the operand's timebase. -/
theorem unary_tree (cfg : DtArg) (u : Un1) (e : Expr) (h : AdmList (leaves e)) :
    leaves (Expr.un u e) = leaves e ∧
    (∀ d, evalDt cfg (Expr.un u e) = .ok d → evalDt cfg e = .ok d) ∧
    (∀ a, eval cfg e = .ok a → unKind u a.kind ≠ Option.none →
      evalDt cfg (Expr.un u e) = .ok a.dt) := by
  refine ⟨by simp [Expr.un, leaves, leavesL, Op.own], ?_, ?_⟩
  · intro d hd
    obtain ⟨x, hx, rfl⟩ := evalDt_ok_iff.mp hd
    obtain ⟨as, hl, hop⟩ := eval_ok_node hx
    obtain ⟨a, r, ha, hr, rfl⟩ := evalL_ok_cons hl
    simp only [evalL, Except.ok.injEq] at hr
    subst hr
    have hv : a.dt.valid := joinAll_valid h (eval_sound cfg e h a ha)
    simp only [applyOp] at hop
    exact evalDt_ok_iff.mpr ⟨a, ha, ((unArg_sound u a hv cfg).1 x hop).symm⟩
  · intro a ha hk
    have hv : a.dt.valid := joinAll_valid h (eval_sound cfg e h a ha)
    cases hkk : unKind u a.kind with
    | none => exact absurd hkk hk
    | some k =>
      obtain ⟨x, hx, _, hxd⟩ := unArg_total u a k hv cfg hkk
      refine evalDt_ok_iff.mpr ⟨x, ?_, hxd⟩
      simp only [Expr.un, eval_node, evalL_cons, ha, evalL, bind, Except.bind, applyOp]
      exact hx

/-- `sample_tree`: a sampling node is a leaf with timebase `Ts`: whatever it returns has exactly
the requested timebase, and it returns iff its operand is a StateSpace / TransferFunction valued,
continuous-time (or unspecified) value. -/
theorem sample_tree (cfg : DtArg) (ts : Rat) (hts : 0 < ts) (e : Expr) :
    leaves (.sample ts e) = [.disc ts] ∧
    (∀ d, evalDt cfg (.sample ts e) = .ok d → d = .disc ts) ∧
    (∀ a, eval cfg e = .ok a →
      ((∃ d, evalDt cfg (.sample ts e) = .ok d) ↔
        ∃ c, (c = .ss ∨ c = .tf) ∧ a.kind = .cls c ∧ isCTime a.dt = true)) := by
  refine ⟨by simp [leaves], ?_, ?_⟩
  · intro d hd
    have hadm : AdmList (leaves (.sample ts e)) := by
      simp only [leaves]
      exact ⟨by intro a ha; simp only [List.mem_singleton] at ha; subst ha; exact hts,
        by intro a ha b hb; simp only [List.mem_singleton] at ha hb; subst ha; subst hb
           exact Dt.sep_self _⟩
    have := tree_join cfg _ hadm hd
    simp only [leaves, joinAll_single, Option.some.injEq] at this
    exact this.symm
  · intro a ha
    rw [show (∃ d, evalDt cfg (.sample ts e) = .ok d) ↔ ∃ x, sampleArg ts a cfg = .ok x from by
      constructor
      · rintro ⟨d, hd⟩
        obtain ⟨x, hx, _⟩ := evalDt_ok_iff.mp hd
        obtain ⟨b, hb, hbx⟩ := eval_ok_sample hx
        rw [ha] at hb; cases hb
        exact ⟨x, hbx⟩
      · rintro ⟨x, hx⟩
        exact ⟨x.dt, evalDt_ok_iff.mpr ⟨x, by rw [eval_sample]; simp only [ha, bind, Except.bind]; exact hx, rfl⟩⟩]
    rcases sampleArg_cases ts hts a cfg with ⟨c, h1, h2, h3, h4⟩ | ⟨h4, hn⟩ | ⟨h4, hn⟩
    · exact ⟨fun _ => ⟨c, h1, h2, h3⟩, fun _ => ⟨_, h4⟩⟩
    · exact ⟨fun ⟨x, hx⟩ => (by rw [h4] at hx; cases hx), fun h => absurd h hn⟩
    · exact ⟨fun ⟨x, hx⟩ => (by rw [h4] at hx; cases hx),
        fun ⟨c, h1, h2, _⟩ => absurd ⟨c, h1, h2⟩ hn⟩

example : evalDt (.num 0) (Expr.un .modelReduction (.sys .ss (.disc (1/10)))) = .ok (.disc (1/10)) := by
  decide +kernel
example : evalDt (.num 0) (Expr.un .linearize (Expr.neg (.sys .nl .dtrue))) = .ok .dtrue := by
  decide +kernel
example : evalDt (.num 0) (.sample (1/4) (Expr.un .toTF (.sys .ss .none))) = .ok (.disc (1/4)) := by
  decide +kernel
example : evalDt (.num 0) (.sample (1/4) (.sys .frd .cont)) = .error .notImplemented := by
  decide +kernel

end CtrlVerif.C05Tree
