/-
Source-text tie of the ROOT FILTERS of C12 (DESIGN §10.3, notes/NOTES-py2lean-margins.md).
`Generated/MargIwSel.lean` and `Generated/MargZSel.lean` are rewritten on every run from the text of
`_poly_iw_real_crossing`, `_poly_iw_mag1_crossing`, `_poly_iw_wstab`, `_z_filter`,
`_poly_z_real_crossing`, `_poly_z_mag1_crossing` of control/margins.py of the tree under check by
`harness/core/py2lean_marg.py`: each function WHOLE — the part up to `np.roots` is the call of the
function `Generated.poly…` that `py2lean_arith.py` regenerates (tied in `Props/C12Gen.lean`),
`np.roots` is the parameter `P.npRoots`, the rest is translated statement by statement
(`np.isreal`, boolean-mask indexing, `np.real`, the `epsw` comparisons, `np.polyval` of the
derivative, `np.abs(np.abs(z) - 1.) < eps`, `np.angle`, `zarg / dt`).  The filters of the
hand-written model (`realRoots`, `>= epsw` / `> epsw`, the second-derivative filter, `zFilter` =
`inBand && upperHalf`) are proved EQUAL to what the source text computes.
-/
import CtrlVerif.Generated.MargIwSel
import CtrlVerif.Generated.MargZSel
import CtrlVerif.Lemmas.PyMarg
import CtrlVerif.Props.C12Gen

namespace CtrlVerif.C12GenSel
open CtrlVerif CtrlVerif.Margins CtrlVerif.PyMarg

section
variable {K : Type} [Field K] [LinearOrder K] [IsStrictOrderedRing K]

/-! ### continuous time -/

/-- `_poly_iw_real_crossing` as written, on `_poly_iw(sys)`, with `np.roots = P.npRoots`: the real
roots `w >= epsw` of the model's test polynomial (`np.real(w[np.isreal(w)])` = `realRoots`). -/
theorem generated_iwrealSel_eq (P : Prims K) (num den : List K) (epsw : K) :
    Generated.polyIwRealCrossingSel P (polyIw num) (polyIw den) epsw
      = .ok ((realRoots (P.npRoots (realCrossingPoly num den))).filter fun w => epsw ≤ w) := by
  unfold Generated.polyIwRealCrossingSel
  simp only [C12Gen.generated_iwreal_eq, mask_map, mask_map_map, ok_bind', List.map_map]
  simp [realRoots, List.filter_map, pure_eq_ok']

/-- `_poly_iw_mag1_crossing` as written: the real roots `w > epsw` of `mag1Poly`. -/
theorem generated_iwmag1Sel_eq (P : Prims K) (num den : List K) (epsw : K) :
    Generated.polyIwMag1CrossingSel P (polyIw num) (polyIw den) epsw
      = .ok ((realRoots (P.npRoots (mag1Poly num den))).filter fun w => epsw < w) := by
  unfold Generated.polyIwMag1CrossingSel
  simp only [C12Gen.generated_iwmag1_eq, mask_map, mask_map_map, ok_bind', List.map_map]
  simp [realRoots, List.filter_map, pure_eq_ok']

/-- `_poly_iw_wstab` as written: the real roots `w > epsw` of `wstabPoly` at which the derivative of
`wstabPoly` is positive. -/
theorem generated_iwwstabSel_eq (P : Prims K) (num den : List K) (epsw : K) :
    Generated.polyIwWstabSel P (polyIw num) (polyIw den) epsw
      = .ok (((realRoots (P.npRoots (wstabPoly num den))).filter fun w => epsw < w).filter
          fun w => 0 < polyval (polyder (wstabPoly num den)) w) := by
  unfold Generated.polyIwWstabSel
  simp only [C12Gen.generated_iwwstab_eq, mask_map, mask_map_map, ok_bind', List.map_map]
  simp [realRoots, List.filter_map, pure_eq_ok', Function.comp_def]

/-! ### discrete time -/

/-- a point of the `|z| = 1` band is not the origin when `eps ≤ 1`. -/
theorem ne_zero_of_inBand {eps : K} (heps : eps ≤ 1) {z : Cx K} (h : inBand eps z = true) : z ≠ 0 := by
  intro h0
  subst h0
  simp only [inBand, Bool.and_eq_true, Bool.or_eq_true, decide_eq_true_eq] at h
  rcases h.2 with h1 | h1
  · linarith
  · simp [normSq] at h1
    nlinarith

/-- `_z_filter` as written (`np.abs` / `np.angle` / `np.pi` are the parameters `P.cabs`, `P.angle`,
`P.pi`): under the contracts of `np.abs` and `np.angle`, for a tolerance `eps ≤ 1` (the code passes
`finfo.eps ** (1/n) < 1`) and `dt ≠ 0`, the kept points are the model's `zFilter eps z`
(`inBand && upperHalf`, decided on `|z|²`, `re`, `im`), the frequencies are `angle(z)/dt`. -/
theorem generated_zFilter_eq (P : Prims K) (hc : CabsSpec P) (ha : AngleSpec P)
    (z : List (Cx K)) (dt eps : K) (hdt : dt ≠ 0) (heps : eps ≤ 1) :
    Generated.zFilter P z dt eps
      = .ok (zFilter eps z, (zFilter eps z).map fun z => P.angle z / dt) := by
  have e1 : (fun z => decide (|P.cabs z - 1| < eps)) = inBand eps := funext (hc.inBand_iff eps)
  have e2 : (z.filter (inBand eps)).filter
        (fun z => decide (0 ≤ P.angle z) && decide (P.angle z < P.pi)) = zFilter eps z := by
    unfold zFilter
    rw [List.filter_filter]
    apply List.filter_congr
    intro x hx
    by_cases hb : inBand eps x = true
    · have := ha.upper x (ne_zero_of_inBand heps hb)
      rw [hb, Bool.true_and, Bool.eq_iff_iff]
      simpa using this
    · simp [hb]
  unfold Generated.zFilter
  simp only [List.map_map, Function.comp_def, mask_map, mask_map_map, zipB_map_map, ok_bind', e1, e2,
    mapM_div _ _ hdt, pure_eq_ok']

/-- the `|z| = 1` tolerance the two discrete functions pass to `_z_filter`:
`np.finfo(float).eps ** (1 / len(p2))`. -/
def zEps (P : Prims K) (p2 : List K) : K := P.epsPow (1 / (p2.length : K))

theorem npmul_ne_nil (p q : List K) : npmul p q ≠ [] := by
  unfold npmul polymul
  have ht : trim p ≠ [] := by
    unfold trim
    split <;> simp_all
  have hstep : ∀ (acc : List K) (c : K), polyadd (acc ++ [0]) (scale c (trim q)) ≠ [] := by
    intro acc c h
    have := congrArg List.length h
    simp [polyadd, length_padLeft] at this
  have hfold : ∀ (l : List K) (x : List K), x ≠ [] →
      l.foldl (fun acc c => polyadd (acc ++ [0]) (scale c (trim q))) x ≠ [] := by
    intro l
    induction l with
    | nil => intro x hx; simpa using hx
    | cons b l ih => intro x _; rw [List.foldl_cons]; exact ih _ (hstep x b)
  cases hp : trim p with
  | nil => exact absurd hp ht
  | cons a l =>
    rw [List.foldl_cons]
    exact hfold l _ (hstep [] a)

theorem zRealP2_ne_nil (num den : List K) : zRealP2 num den ≠ [] := by
  unfold zRealP2; split <;> exact npmul_ne_nil _ _

theorem zMag1P2_ne_nil (den : List K) : zMag1P2 den ≠ [] := npmul_ne_nil _ _

theorem div_len_ok (p2 : List K) (h : p2 ≠ []) :
    PyArith.div (1 : K) ((((p2.length : Nat) : Int) : Int) : K) = .ok (1 / (p2.length : K)) := by
  have : (p2.length : K) ≠ 0 := by
    have : p2.length ≠ 0 := by simpa using h
    exact_mod_cast this
  simp [PyArith.div, this]

/-- `_poly_z_real_crossing` as written, on the arguments `_poly_z_invz` produces: the roots of the
model's `zRealCrossingPoly` that pass the model's `zFilter` (tolerance from the length of the model's
`zRealP2`) and `angle(z)/dt >= epsw`, with these frequencies — for every `epsw`. -/
theorem generated_zrealSel_eq (P : Prims K) (hc : CabsSpec P) (ha : AngleSpec P)
    (num den : List K) (dt epsw : K) (hdt : dt ≠ 0) (heps : zEps P (zRealP2 num den) ≤ 1) :
    Generated.polyZRealCrossingSel P num den num.reverse den.reverse
        ((num.length : Int) - (den.length : Int)) dt epsw
      = .ok (((zFilter (zEps P (zRealP2 num den)) (P.npRoots (zRealCrossingPoly num den))).filter
                fun z => epsw ≤ P.angle z / dt),
             ((zFilter (zEps P (zRealP2 num den)) (P.npRoots (zRealCrossingPoly num den))).filter
                fun z => epsw ≤ P.angle z / dt).map fun z => P.angle z / dt) := by
  unfold Generated.polyZRealCrossingSel
  simp only [C12Gen.generated_zreal_eq, ok_bind', div_len_ok _ (zRealP2_ne_nil num den)]
  rw [generated_zFilter_eq P hc ha _ _ _ hdt (by simpa [zEps] using heps)]
  simp only [ok_bind', List.map_map, Function.comp_def, mask_map, mask_map_map, pure_eq_ok', zEps,
    List.filter_map]

/-- `_poly_z_mag1_crossing` as written: the same with `zMag1Poly`, `zMag1P2` and `angle(z)/dt > epsw`. -/
theorem generated_zmag1Sel_eq (P : Prims K) (hc : CabsSpec P) (ha : AngleSpec P)
    (num den : List K) (dt epsw : K) (hdt : dt ≠ 0) (heps : zEps P (zMag1P2 den) ≤ 1) :
    Generated.polyZMag1CrossingSel P num den num.reverse den.reverse
        ((num.length : Int) - (den.length : Int)) dt epsw
      = .ok (((zFilter (zEps P (zMag1P2 den)) (P.npRoots (zMag1Poly num den))).filter
                fun z => epsw < P.angle z / dt),
             ((zFilter (zEps P (zMag1P2 den)) (P.npRoots (zMag1Poly num den))).filter
                fun z => epsw < P.angle z / dt).map fun z => P.angle z / dt) := by
  unfold Generated.polyZMag1CrossingSel
  simp only [C12Gen.generated_zmag1_eq, ok_bind', div_len_ok _ (zMag1P2_ne_nil den)]
  rw [generated_zFilter_eq P hc ha _ _ _ hdt (by simpa [zEps] using heps)]
  simp only [ok_bind', List.map_map, Function.comp_def, mask_map, mask_map_map, pure_eq_ok', zEps,
    List.filter_map]

/-- for `epsw = 0` and `dt > 0` (the case the model covers) the `>= epsw` filter of
`_poly_z_real_crossing` keeps everything: the kept points are the model's `zFilter`. -/
theorem zreal_epsw_zero (P : Prims K) (ha : AngleSpec P) (eps dt : K) (hdt : 0 < dt) (heps : eps ≤ 1)
    (roots : List (Cx K)) :
    (zFilter eps roots).filter (fun z => (0 : K) ≤ P.angle z / dt) = zFilter eps roots := by
  rw [List.filter_eq_self]
  intro z hz
  simp only [zFilter, List.mem_filter, Bool.and_eq_true] at hz
  have := (ha.upper z (ne_zero_of_inBand heps hz.2.1)).mpr hz.2.2
  simp only [decide_eq_true_eq]
  exact div_nonneg this.1 (le_of_lt hdt)

/-- for `epsw = 0` and `dt > 0` the `> epsw` filter of `_poly_z_mag1_crossing` is the model's `im z > 0`. -/
theorem zmag1_epsw_zero (P : Prims K) (ha : AngleSpec P) (eps dt : K) (hdt : 0 < dt)
    (roots : List (Cx K)) :
    (zFilter eps roots).filter (fun z => (0 : K) < P.angle z / dt)
      = (zFilter eps roots).filter fun z => 0 < z.im := by
  apply List.filter_congr
  intro z hz
  simp only [zFilter, List.mem_filter, Bool.and_eq_true] at hz
  have := ha.pos z hz.2.2
  rw [Bool.eq_iff_iff]
  simp only [decide_eq_true_eq]
  rw [← this]
  constructor
  · intro h
    by_contra hn
    have : P.angle z / dt ≤ 0 := div_nonpos_of_nonpos_of_nonneg (le_of_not_gt hn) (le_of_lt hdt)
    linarith
  · intro h; exact div_pos h hdt

end
end CtrlVerif.C12GenSel
