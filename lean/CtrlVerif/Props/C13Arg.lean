/-
C13 — the ARGUMENT PRINCIPLE ON THE IMAGINARY AXIS for rational functions, and the discharge of
hypothesis H3 (and H1) of `C13.count_partial` for continuous-time loops without poles on the axis.

Property theorems only (helper lemmas and the definitions `phase`, `Phi`, `ratfun`, `rhp`,
`tailArctan`, `tailRat`, `lipConst`: `Lemmas/C13Arg.lean`).  Everything is over `ℝ` / `ℂ` with
Mathlib's `Real.arctan`, `Complex.arg`, `Complex.exp`.

Setting.  `1 + L(s) = ratfun k cs ps s = k · ∏ (s - c_i) / ∏ (s - p_i)`, `cs` = closed-loop poles,
`ps` = open-loop poles (lists, with multiplicity), no root on the imaginary axis (`Re ≠ 0`),
`Z = rhp cs`, `P = rhp ps` the numbers of roots with positive real part.

(1) one factor: `phase a ω = arctan ((ω - Im a)/(-Re a)) (+ π if Re a > 0)` IS an argument of
    `jω - a` (`phase_is_argument`), is continuous, strictly monotone (increasing for `Re a < 0`,
    decreasing for `Re a > 0`), tends to `π/2` at `+∞` and to `-π/2` resp. `3π/2` at `-∞`; the total
    change over the axis is `+π` resp. `-π` (`phase_total_change`); over the half axis `[0, ∞)` a
    conjugate pair contributes half of its total (`phase_half_pair`), a real root half of its own
    (`phase_half_real`).
(2) `Phi k cs ps ω = arg k + Σ phase c_i ω - Σ phase p_i ω` is a continuous argument of
    `1 + L(jω)` (`Phi_is_argument`, `Phi_continuous`), hence `Complex.arg (1 + L(jω)) ≡ Φ(ω)` modulo
    `2π` (`arg_congr_Phi`: H1 of `count_partial` is a theorem);
    **`argument_principle_axis`**: `Φ(R) - Φ(-R) → 2π (P - Z)`;
    **`argument_principle_half_axis`**: for root lists closed under conjugation and of equal length
    `Φ(R) - Φ(0) → π (P - Z)`, with the explicit closure error `tail_bound`.
(3) **`count_continuous`**: the code's `count` on the principal angles of `1 + L(jω_i)` over any grid
    `0 = ω_0, ω_1, …, ω_N` equals `Z - P`, given only (H2) the phase steps of `Φ` on the grid are `< π`
    and the explicit tail bound at `ω_N`.  `count_continuous_of_bounds` replaces both by inequalities
    in the root locations and the grid spacing only.

Still assumed (not theorems): that python-control's DEFAULT grid satisfies (H2) and the tail bound
(it does not for lightly damped roots: known finding C13-light-damping-grid); loops with poles ON the
imaginary axis (indented contour) and discrete-time loops remain under `C13.count_partial` with H3 as
a hypothesis.
-/
import CtrlVerif.Props.C13
import CtrlVerif.Lemmas.C13Arg

namespace CtrlVerif.C13Arg

open CtrlVerif CtrlVerif.Nyquist CtrlVerif.NyquistArg Real Filter Topology

/-! ## (1) one factor `jω - a` -/

/-- `phase a ω` is an argument of `jω - a`: `jω - a = |jω - a| · exp (j · phase a ω)`. -/
theorem phase_is_argument (a : ℂ) (ha : a.re ≠ 0) (ω : ℝ) :
    (ω : ℂ) * Complex.I - a =
      (‖(ω : ℂ) * Complex.I - a‖ : ℂ) * Complex.exp ((phase a ω : ℝ) * Complex.I) :=
  factor_polar a ha ω

/-- … in `cos`/`sin` form. -/
theorem phase_is_argument_cos_sin (a : ℂ) (ha : a.re ≠ 0) (ω : ℝ) :
    (ω : ℂ) * Complex.I - a =
      (‖(ω : ℂ) * Complex.I - a‖ : ℂ) *
        (Complex.cos (phase a ω : ℝ) + Complex.sin (phase a ω : ℝ) * Complex.I) := by
  rw [← Complex.exp_mul_I]; exact factor_polar a ha ω

theorem phase_continuous (a : ℂ) : Continuous (phase a) := continuous_phase a

/-- the phase of a left-half-plane factor increases … -/
theorem phase_strictMono_of_stable (a : ℂ) (ha : a.re < 0) : StrictMono (phase a) :=
  phase_strictMono a ha

/-- … that of a right-half-plane factor decreases. -/
theorem phase_strictAnti_of_unstable (a : ℂ) (ha : 0 < a.re) : StrictAnti (phase a) :=
  phase_strictAnti a ha

theorem phase_tendsto_atTop (a : ℂ) (ha : a.re ≠ 0) : Tendsto (phase a) atTop (𝓝 (π / 2)) :=
  tendsto_phase_atTop a ha

theorem phase_tendsto_atBot_stable (a : ℂ) (ha : a.re < 0) :
    Tendsto (phase a) atBot (𝓝 (-(π / 2))) := by
  have h := tendsto_phase_atBot a ha.ne
  have e : π / 2 - turn a = -(π / 2) := by unfold turn; rw [if_neg (by linarith)]; ring
  rwa [e] at h

theorem phase_tendsto_atBot_unstable (a : ℂ) (ha : 0 < a.re) :
    Tendsto (phase a) atBot (𝓝 (3 * π / 2)) := by
  have h := tendsto_phase_atBot a ha.ne'
  have e : π / 2 - turn a = 3 * π / 2 := by unfold turn; rw [if_pos ha]; ring
  rwa [e] at h

/-- total change of the phase of `jω - a` over the whole axis: `turn a` (`+π` / `-π`). -/
theorem phase_total_change (a : ℂ) (ha : a.re ≠ 0) :
    Tendsto (fun R : ℝ => phase a R - phase a (-R)) atTop (𝓝 (turn a)) := by
  have h1 := tendsto_phase_atTop a ha
  have h2 := (tendsto_phase_atBot a ha).comp tendsto_neg_atTop_atBot
  have h := h1.sub h2
  have e : π / 2 - (π / 2 - turn a) = turn a := by ring
  rw [e] at h
  exact h

theorem phase_total_change_stable (a : ℂ) (ha : a.re < 0) :
    Tendsto (fun R : ℝ => phase a R - phase a (-R)) atTop (𝓝 π) := by
  have h := phase_total_change a ha.ne
  unfold turn at h; rwa [if_neg (by linarith)] at h

theorem phase_total_change_unstable (a : ℂ) (ha : 0 < a.re) :
    Tendsto (fun R : ℝ => phase a R - phase a (-R)) atTop (𝓝 (-π)) := by
  have h := phase_total_change a ha.ne'
  unfold turn at h; rwa [if_pos ha] at h

/-- half axis, conjugate pair: the change over `[0, ∞)` of the pair `{a, conj a}` is half of the
pair's total change `2 · turn a`. -/
theorem phase_half_pair (a : ℂ) (ha : a.re ≠ 0) :
    Tendsto (fun R : ℝ => (phase a R - phase a 0) +
      (phase ((starRingEnd ℂ) a) R - phase ((starRingEnd ℂ) a) 0)) atTop (𝓝 (turn a)) := by
  have hb : ((starRingEnd ℂ) a).re ≠ 0 := by simpa using ha
  have h1 := (tendsto_phase_atTop a ha).sub_const (phase a 0)
  have h2 := (tendsto_phase_atTop _ hb).sub_const (phase ((starRingEnd ℂ) a) 0)
  have h := h1.add h2
  have e : (π / 2 - phase a 0) + (π / 2 - phase ((starRingEnd ℂ) a) 0) = turn a := by
    rw [phase_zero, phase_zero]
    simp only [Complex.conj_re, Complex.conj_im, neg_div, arctan_neg]
    unfold branch turn
    by_cases h0 : 0 < a.re
    · rw [if_pos (by linarith), if_pos h0]; ring
    · rw [if_neg (by linarith), if_neg h0]; ring
  rw [e] at h
  exact h

/-- half axis, real root: half of its total change. -/
theorem phase_half_real (a : ℂ) (ha : a.re ≠ 0) (him : a.im = 0) :
    Tendsto (fun R : ℝ => phase a R - phase a 0) atTop (𝓝 (turn a / 2)) := by
  have h := (tendsto_phase_atTop a ha).sub_const (phase a 0)
  have e : π / 2 - phase a 0 = turn a / 2 := by
    rw [phase_zero, him, zero_div, arctan_zero]
    unfold branch turn
    by_cases h0 : 0 < a.re
    · rw [if_pos (by linarith), if_pos h0]; ring
    · rw [if_neg (by linarith), if_neg h0]; ring
  rw [e] at h
  exact h

/-- distance to the limit above the root: `|π/2 - phase a ω| = arctan (|Re a| / (ω - Im a))`. -/
theorem phase_tail (a : ℂ) (ha : a.re ≠ 0) {ω : ℝ} (hω : a.im < ω) :
    |π / 2 - phase a ω| = arctan (|a.re| / (ω - a.im)) ∧
      arctan (|a.re| / (ω - a.im)) ≤ |a.re| / (ω - a.im) :=
  ⟨abs_pi_div_two_sub_phase a ha hω,
    arctan_le_self (div_nonneg (abs_nonneg _) (by linarith))⟩

/-- non-vacuity: the factor `jω + 1` (root `-1`): phase `arctan ω`, at `ω = 1` it is `π/4`. -/
example : phase (-1) 1 = π / 4 := by
  unfold phase branch; norm_num [arctan_one]

/-- non-vacuity: the factor `jω - 1` (root `+1`): phase `π - arctan ω`, at `ω = 1` it is `3π/4`. -/
example : phase 1 1 = 3 * π / 4 := by
  unfold phase branch; norm_num [arctan_neg, arctan_one]; ring

/-! ## (2) the rational function `1 + L = k ∏ (s - c_i) / ∏ (s - p_i)` -/

/-- a loop written as `L = (k ∏(s - c_i) - ∏(s - p_i)) / ∏(s - p_i)` (this is how the correspondence
family builds its loops) has `1 + L = ratfun k cs ps` away from the open-loop poles. -/
theorem one_add_loop_eq_ratfun (k : ℂ) (cs ps : List ℂ) (s : ℂ)
    (hs : (ps.map fun p => s - p).prod ≠ 0) :
    1 + (k * (cs.map fun c => s - c).prod - (ps.map fun p => s - p).prod) /
        (ps.map fun p => s - p).prod = ratfun k cs ps s := by
  unfold ratfun; field_simp; ring

/-- **`Φ` is an argument of `1 + L(jω)`**: `F(jω) = |F(jω)| · exp (j Φ(ω))`. -/
theorem Phi_is_argument {k : ℂ} (hk : k ≠ 0) (cs ps : List ℂ) (hc : ∀ a ∈ cs, a.re ≠ 0)
    (hp : ∀ a ∈ ps, a.re ≠ 0) (ω : ℝ) :
    ratfun k cs ps ((ω : ℂ) * Complex.I) =
      (‖ratfun k cs ps ((ω : ℂ) * Complex.I)‖ : ℂ) *
        Complex.exp ((Phi k cs ps ω : ℝ) * Complex.I) := by
  rw [norm_ratfun hk cs ps hc hp]; exact ratfun_polar k cs ps hc hp ω

/-- `1 + L` does not vanish on the axis (no closed-loop pole there). -/
theorem ratfun_ne_zero {k : ℂ} (hk : k ≠ 0) (cs ps : List ℂ) (hc : ∀ a ∈ cs, a.re ≠ 0)
    (hp : ∀ a ∈ ps, a.re ≠ 0) (ω : ℝ) : ratfun k cs ps ((ω : ℂ) * Complex.I) ≠ 0 := by
  rw [← norm_pos_iff, norm_ratfun hk cs ps hc hp]; exact modulus_pos hk cs ps hc hp ω

theorem Phi_continuous (k : ℂ) (cs ps : List ℂ) : Continuous (Phi k cs ps) := by
  unfold Phi
  exact (continuous_const.add (continuous_sumPhase cs)).sub (continuous_sumPhase ps)

/-- **H1 is a theorem**: the principal angle (`np.angle`) of `1 + L(jω)` is congruent to `Φ(ω)`
modulo `2π`. -/
theorem arg_congr_Phi {k : ℂ} (hk : k ≠ 0) (cs ps : List ℂ) (hc : ∀ a ∈ cs, a.re ≠ 0)
    (hp : ∀ a ∈ ps, a.re ≠ 0) (ω : ℝ) :
    ∃ n : ℤ, Complex.arg (ratfun k cs ps ((ω : ℂ) * Complex.I)) = Phi k cs ps ω + n * (2 * π) := by
  rw [ratfun_polar k cs ps hc hp, Complex.arg_real_mul _ (modulus_pos hk cs ps hc hp ω),
    Complex.arg_exp_mul_I]
  refine ⟨-toIocDiv two_pi_pos (-π) (Phi k cs ps ω), ?_⟩
  have := toIocMod_add_toIocDiv_mul two_pi_pos (-π) (Phi k cs ps ω)
  push_cast
  linarith

theorem Phi_tendsto_atTop (k : ℂ) (cs ps : List ℂ) (hc : ∀ a ∈ cs, a.re ≠ 0)
    (hp : ∀ a ∈ ps, a.re ≠ 0) :
    Tendsto (Phi k cs ps) atTop
      (𝓝 (Complex.arg k + cs.length * (π / 2) - ps.length * (π / 2))) := by
  unfold Phi
  exact (tendsto_const_nhds.add (tendsto_sumPhase_atTop cs hc)).sub (tendsto_sumPhase_atTop ps hp)

/-- **Argument principle on the imaginary axis**, general degrees: the total phase change of
`k ∏(jω - c_i)/∏(jω - p_i)` over `ω ∈ (-R, R)`, `R → ∞`, is
`π ((n_c - Z) - Z) - π ((n_p - P) - P)`. -/
theorem argument_principle_axis_general (k : ℂ) (cs ps : List ℂ) (hc : ∀ a ∈ cs, a.re ≠ 0)
    (hp : ∀ a ∈ ps, a.re ≠ 0) :
    Tendsto (fun R : ℝ => Phi k cs ps R - Phi k cs ps (-R)) atTop
      (𝓝 (π * (((cs.length : ℝ) - rhp cs) - rhp cs) - π * (((ps.length : ℝ) - rhp ps) - rhp ps))) := by
  have hT := Phi_tendsto_atTop k cs ps hc hp
  have hB : Tendsto (Phi k cs ps) atBot
      (𝓝 (Complex.arg k + (cs.length * (π / 2) - π * ((cs.length : ℝ) - 2 * rhp cs)) -
        (ps.length * (π / 2) - π * ((ps.length : ℝ) - 2 * rhp ps)))) := by
    unfold Phi
    exact (tendsto_const_nhds.add (tendsto_sumPhase_atBot cs hc)).sub (tendsto_sumPhase_atBot ps hp)
  have h := hT.sub (hB.comp tendsto_neg_atTop_atBot)
  have e : π * (((cs.length : ℝ) - rhp cs) - rhp cs) - π * (((ps.length : ℝ) - rhp ps) - rhp ps) =
      Complex.arg k + cs.length * (π / 2) - ps.length * (π / 2) -
        (Complex.arg k + (cs.length * (π / 2) - π * ((cs.length : ℝ) - 2 * rhp cs)) -
          (ps.length * (π / 2) - π * ((ps.length : ℝ) - 2 * rhp ps))) := by ring
  rw [e]
  exact h

/-- **Argument principle on the imaginary axis** (`L` proper: equally many closed- and open-loop
poles): `lim_{R→∞} (Φ(R) - Φ(-R)) = 2π (P - Z)`. -/
theorem argument_principle_axis (k : ℂ) (cs ps : List ℂ) (hc : ∀ a ∈ cs, a.re ≠ 0)
    (hp : ∀ a ∈ ps, a.re ≠ 0) (hlen : cs.length = ps.length) :
    Tendsto (fun R : ℝ => Phi k cs ps R - Phi k cs ps (-R)) atTop
      (𝓝 (2 * π * ((rhp ps : ℝ) - rhp cs))) := by
  have h := argument_principle_axis_general k cs ps hc hp
  convert h using 2
  rw [hlen]; ring

/-- value at `ω = 0` for real-rational data (root lists closed under conjugation): only the branch
offsets survive, `Φ(0) = arg k + π Z - π P`. -/
theorem Phi_zero (k : ℂ) (cs ps : List ℂ) (hcc : (cs.map (starRingEnd ℂ)).Perm cs)
    (hpc : (ps.map (starRingEnd ℂ)).Perm ps) :
    Phi k cs ps 0 = Complex.arg k + π * rhp cs - π * rhp ps := by
  unfold Phi; rw [sumPhase_zero cs hcc, sumPhase_zero ps hpc]

/-- **Half-axis argument principle** (what the code uses: it samples `ω ≥ 0` only):
`lim_{R→∞} (Φ(R) - Φ(0)) = π (P - Z)`. -/
theorem argument_principle_half_axis (k : ℂ) (cs ps : List ℂ) (hc : ∀ a ∈ cs, a.re ≠ 0)
    (hp : ∀ a ∈ ps, a.re ≠ 0) (hcc : (cs.map (starRingEnd ℂ)).Perm cs)
    (hpc : (ps.map (starRingEnd ℂ)).Perm ps) (hlen : cs.length = ps.length) :
    Tendsto (fun R : ℝ => Phi k cs ps R - Phi k cs ps 0) atTop
      (𝓝 (π * ((rhp ps : ℝ) - rhp cs))) := by
  have h := (Phi_tendsto_atTop k cs ps hc hp).sub_const (Phi k cs ps 0)
  convert h using 2
  rw [Phi_zero k cs ps hcc hpc, hlen]; ring

/-- the half-axis change is exactly half of the full-axis change. -/
theorem half_axis_is_half (k : ℂ) (cs ps : List ℂ) (hc : ∀ a ∈ cs, a.re ≠ 0)
    (hp : ∀ a ∈ ps, a.re ≠ 0) (hcc : (cs.map (starRingEnd ℂ)).Perm cs)
    (hpc : (ps.map (starRingEnd ℂ)).Perm ps) (hlen : cs.length = ps.length) :
    Tendsto (fun R : ℝ => 2 * (Phi k cs ps R - Phi k cs ps 0) -
      (Phi k cs ps R - Phi k cs ps (-R))) atTop (𝓝 0) := by
  have h := ((argument_principle_half_axis k cs ps hc hp hcc hpc hlen).const_mul 2).sub
    (argument_principle_axis k cs ps hc hp hlen)
  convert h using 2
  ring

/-- **Closure error of a finite frequency range** (explicit): above all roots,
`|(Φ(ω) - Φ(0)) - π (P - Z)| ≤ Σ_{a ∈ cs ++ ps} arctan (|Re a| / (ω - Im a))`. -/
theorem tail_bound (k : ℂ) (cs ps : List ℂ) (hc : ∀ a ∈ cs, a.re ≠ 0)
    (hp : ∀ a ∈ ps, a.re ≠ 0) (hcc : (cs.map (starRingEnd ℂ)).Perm cs)
    (hpc : (ps.map (starRingEnd ℂ)).Perm ps) (hlen : cs.length = ps.length)
    (ω : ℝ) (hω : ∀ a ∈ cs ++ ps, a.im < ω) :
    |(Phi k cs ps ω - Phi k cs ps 0) - π * ((rhp ps : ℝ) - rhp cs)| ≤ tailArctan (cs ++ ps) ω := by
  have h1 := abs_limit_sub_sumPhase cs hc ω fun a ha => hω a (List.mem_append_left _ ha)
  have h2 := abs_limit_sub_sumPhase ps hp ω fun a ha => hω a (List.mem_append_right _ ha)
  have e : (Phi k cs ps ω - Phi k cs ps 0) - π * ((rhp ps : ℝ) - rhp cs) =
      (ps.length * (π / 2) - sumPhase ps ω) - (cs.length * (π / 2) - sumPhase cs ω) := by
    rw [Phi_zero k cs ps hcc hpc, hlen]; unfold Phi; ring
  have ht : tailArctan (cs ++ ps) ω = tailArctan cs ω + tailArctan ps ω := by
    simp [tailArctan]
  rw [e, ht]
  calc _ ≤ |ps.length * (π / 2) - sumPhase ps ω| + |cs.length * (π / 2) - sumPhase cs ω| :=
        abs_sub _ _
    _ ≤ _ := by linarith

/-- … and the weaker bound without `arctan`: `Σ |Re a| / (ω - Im a)`. -/
theorem tail_bound_rat (k : ℂ) (cs ps : List ℂ) (hc : ∀ a ∈ cs, a.re ≠ 0)
    (hp : ∀ a ∈ ps, a.re ≠ 0) (hcc : (cs.map (starRingEnd ℂ)).Perm cs)
    (hpc : (ps.map (starRingEnd ℂ)).Perm ps) (hlen : cs.length = ps.length)
    (ω : ℝ) (hω : ∀ a ∈ cs ++ ps, a.im < ω) :
    |(Phi k cs ps ω - Phi k cs ps 0) - π * ((rhp ps : ℝ) - rhp cs)| ≤ tailRat (cs ++ ps) ω :=
  (tail_bound k cs ps hc hp hcc hpc hlen ω hω).trans (tailArctan_le_tailRat _ ω hω)

/-- **Step bound** (a sufficient condition for the sampling hypothesis H2 in terms of the root
locations): `|Φ(v) - Φ(u)| ≤ |v - u| · Σ_{a ∈ cs ++ ps} 1/|Re a|`. -/
theorem step_bound (k : ℂ) (cs ps : List ℂ) (u v : ℝ) :
    |Phi k cs ps v - Phi k cs ps u| ≤ |v - u| * lipConst (cs ++ ps) := by
  have h1 := sumPhase_lipschitz cs u v
  have h2 := sumPhase_lipschitz ps u v
  have e : Phi k cs ps v - Phi k cs ps u =
      (sumPhase cs v - sumPhase cs u) - (sumPhase ps v - sumPhase ps u) := by unfold Phi; ring
  have hl : lipConst (cs ++ ps) = lipConst cs + lipConst ps := by simp [lipConst]
  rw [e, hl]
  calc _ ≤ |sumPhase cs v - sumPhase cs u| + |sumPhase ps v - sumPhase ps u| := abs_sub _ _
    _ ≤ _ := by nlinarith

/-! ## (3) the code's count on a finite grid -/

/-- H1 for a whole grid: the principal angles of the samples are congruent to `Φ` at the grid
points. -/
theorem grid_H1 {k : ℂ} (hk : k ≠ 0) (cs ps : List ℂ) (hc : ∀ a ∈ cs, a.re ≠ 0)
    (hp : ∀ a ∈ ps, a.re ≠ 0) (ωs : List ℝ) :
    List.Forall₂ (fun t f => ∃ n : ℤ, t = f + n * (2 * π))
      ((ωs.map fun ω : ℝ => ratfun k cs ps ((ω : ℂ) * Complex.I)).map Complex.arg)
      (ωs.map (Phi k cs ps)) := by
  rw [List.map_map, List.forall₂_map_left_iff, List.forall₂_map_right_iff, List.forall₂_same]
  intro ω _
  exact arg_congr_Phi hk cs ps hc hp ω

/-- **`count_continuous`** — continuous-time loop without poles on the imaginary axis,
`1 + L = k ∏(s - c_i)/∏(s - p_i)` with real coefficients (root lists closed under conjugation) and
`L` proper (equal counts).  For ANY finite grid `0 = ω_0, ω_1, …, ω_N` (any number of points) such that
 (H2)   consecutive values of the continuous phase `Φ` on the grid differ by less than `π`, and
 (tail) the last grid point lies above all roots and `Σ arctan (|Re a|/(ω_N - Im a)) < π/2`,
the code's `count` (`-unwrap`, `sum(diff)/pi`, `round`, `int`) applied to the principal angles
`np.angle(1 + L(jω_i))` equals `Z - P`.  H1 and H3 of `count_partial` are discharged. -/
theorem count_continuous {k : ℂ} (hk : k ≠ 0) (cs ps : List ℂ) (hc : ∀ a ∈ cs, a.re ≠ 0)
    (hp : ∀ a ∈ ps, a.re ≠ 0) (hcc : (cs.map (starRingEnd ℂ)).Perm cs)
    (hpc : (ps.map (starRingEnd ℂ)).Perm ps) (hlen : cs.length = ps.length)
    (ωs : List ℝ)
    (H2 : ∀ δ ∈ diff ((0 :: ωs).map (Phi k cs ps)), |δ| < π)
    (hlast : ∀ a ∈ cs ++ ps, a.im < (0 :: ωs).getLast (by simp))
    (Htail : tailArctan (cs ++ ps) ((0 :: ωs).getLast (by simp)) < π / 2) :
    count π (((0 :: ωs).map fun ω : ℝ => ratfun k cs ps ((ω : ℂ) * Complex.I)).map Complex.arg) =
      (rhp cs : ℤ) - rhp ps := by
  have hlastΦ : (Phi k cs ps 0 :: ωs.map (Phi k cs ps)).getLast (by simp) =
      Phi k cs ps ((0 :: ωs).getLast (by simp)) := by
    have := List.getLast_map (f := Phi k cs ps) (l := 0 :: ωs) (by simp)
    simpa using this
  refine C13.count_partial Real.pi_pos _ (Phi k cs ps 0) _ (ωs.map (Phi k cs ps)) rfl rfl
    (grid_H1 hk cs ps hc hp (0 :: ωs)) H2 (rhp ps) (rhp cs) ?_
  rw [hlastΦ]
  push_cast
  exact lt_of_le_of_lt (tail_bound k cs ps hc hp hcc hpc hlen _ hlast) Htail

/-- the same for a loop given as a function `L` with `1 + L(jω) = k ∏(jω - c_i)/∏(jω - p_i)` on the
axis (e.g. `L = (k ∏(s - c_i) - ∏(s - p_i))/∏(s - p_i)`, `one_add_loop_eq_ratfun`). -/
theorem count_continuous_loop (L : ℂ → ℂ) {k : ℂ} (hk : k ≠ 0) (cs ps : List ℂ)
    (hL : ∀ ω : ℝ, 1 + L ((ω : ℂ) * Complex.I) = ratfun k cs ps ((ω : ℂ) * Complex.I))
    (hc : ∀ a ∈ cs, a.re ≠ 0)
    (hp : ∀ a ∈ ps, a.re ≠ 0) (hcc : (cs.map (starRingEnd ℂ)).Perm cs)
    (hpc : (ps.map (starRingEnd ℂ)).Perm ps) (hlen : cs.length = ps.length)
    (ωs : List ℝ)
    (H2 : ∀ δ ∈ diff ((0 :: ωs).map (Phi k cs ps)), |δ| < π)
    (hlast : ∀ a ∈ cs ++ ps, a.im < (0 :: ωs).getLast (by simp))
    (Htail : tailArctan (cs ++ ps) ((0 :: ωs).getLast (by simp)) < π / 2) :
    count π (((0 :: ωs).map fun ω : ℝ => 1 + L ((ω : ℂ) * Complex.I)).map Complex.arg) =
      (rhp cs : ℤ) - rhp ps := by
  have e : (fun ω : ℝ => 1 + L ((ω : ℂ) * Complex.I)) =
      fun ω : ℝ => ratfun k cs ps ((ω : ℂ) * Complex.I) := funext hL
  rw [e]
  exact count_continuous hk cs ps hc hp hcc hpc hlen ωs H2 hlast Htail

/-- **`count_continuous_of_bounds`** — hypotheses in terms of the root locations and the grid only:
 (spacing) every grid step `δ` has `|δ| · Σ 1/|Re a| < π`,
 (tail)    `ω_N` above all roots and `Σ |Re a|/(ω_N - Im a) < π/2`
(sums over all closed- and open-loop poles).  Then `count = Z - P`. -/
theorem count_continuous_of_bounds {k : ℂ} (hk : k ≠ 0) (cs ps : List ℂ)
    (hc : ∀ a ∈ cs, a.re ≠ 0)
    (hp : ∀ a ∈ ps, a.re ≠ 0) (hcc : (cs.map (starRingEnd ℂ)).Perm cs)
    (hpc : (ps.map (starRingEnd ℂ)).Perm ps) (hlen : cs.length = ps.length)
    (ωs : List ℝ)
    (Hstep : ∀ δ ∈ diff (0 :: ωs), |δ| * lipConst (cs ++ ps) < π)
    (hlast : ∀ a ∈ cs ++ ps, a.im < (0 :: ωs).getLast (by simp))
    (Htail : tailRat (cs ++ ps) ((0 :: ωs).getLast (by simp)) < π / 2) :
    count π (((0 :: ωs).map fun ω : ℝ => ratfun k cs ps ((ω : ℂ) * Complex.I)).map Complex.arg) =
      (rhp cs : ℤ) - rhp ps :=
  count_continuous hk cs ps hc hp hcc hpc hlen ωs
    (diff_map_lt (Phi k cs ps) _ π (step_bound k cs ps) (0 :: ωs) Hstep) hlast
    (lt_of_le_of_lt (tailArctan_le_tailRat _ _ hlast) Htail)

/-! ### link to the model's `P` / `Z` conventions and the consistency warning -/

/-- the model's `P` (`(sys.poles().real > 0).sum()`, default direction) is `rhp ps`. -/
theorem countP_eq_rhp (ps : List ℂ) :
    countP true .right (ps.map fun p : ℂ => (p.re, p.im)) = rhp ps := by
  simp only [countP, if_true, rhp, List.countP_map]
  rfl

/-- the model's `Z` (`(cl_poles.real >= 0).sum()`) is `rhp cs` when no closed-loop pole is on the
axis. -/
theorem countZ_eq_rhp (cs : List ℂ) (hc : ∀ a ∈ cs, a.re ≠ 0) :
    countZ true (cs.map fun p : ℂ => (p.re, p.im)) = rhp cs := by
  simp only [countZ, if_true, rhp, List.countP_map]
  apply List.countP_congr
  intro a ha
  have := hc a ha
  simp only [Function.comp, decide_eq_true_eq]
  exact ⟨fun h => lt_of_le_of_ne h (Ne.symm this), le_of_lt⟩

/-- under the hypotheses of `count_continuous` the code's consistency test passes: the warning
"number of encirclements does not match Nyquist criterion" is not issued. -/
theorem criterion_continuous {k : ℂ} (hk : k ≠ 0) (cs ps : List ℂ) (hc : ∀ a ∈ cs, a.re ≠ 0)
    (hp : ∀ a ∈ ps, a.re ≠ 0) (hcc : (cs.map (starRingEnd ℂ)).Perm cs)
    (hpc : (ps.map (starRingEnd ℂ)).Perm ps) (hlen : cs.length = ps.length)
    (ωs : List ℝ)
    (H2 : ∀ δ ∈ diff ((0 :: ωs).map (Phi k cs ps)), |δ| < π)
    (hlast : ∀ a ∈ cs ++ ps, a.im < (0 :: ωs).getLast (by simp))
    (Htail : tailArctan (cs ++ ps) ((0 :: ωs).getLast (by simp)) < π / 2) :
    criterionOK (countZ true (cs.map fun p : ℂ => (p.re, p.im)))
      (count π (((0 :: ωs).map fun ω : ℝ =>
        ratfun k cs ps ((ω : ℂ) * Complex.I)).map Complex.arg))
      (countP true .right (ps.map fun p : ℂ => (p.re, p.im))) = true := by
  rw [C13.criterion_iff, countP_eq_rhp, countZ_eq_rhp cs hc]
  exact count_continuous hk cs ps hc hp hcc hpc hlen ωs H2 hlast Htail

/-! ## non-vacuity: concrete loops -/

/-- one stable factor: total change `+π`; one unstable factor: `-π`. -/
example : Tendsto (fun R : ℝ => phase (-1) R - phase (-1) (-R)) atTop (𝓝 π) :=
  phase_total_change_stable (-1) (by simp)

example : Tendsto (fun R : ℝ => phase 1 R - phase 1 (-R)) atTop (𝓝 (-π)) :=
  phase_total_change_unstable 1 (by simp)

/-- the unstable pair `1 ± 2j` over the half axis: `-π` (half of `-2π`). -/
example : Tendsto (fun R : ℝ => (phase ⟨1, 2⟩ R - phase ⟨1, 2⟩ 0) +
    (phase ((starRingEnd ℂ) ⟨1, 2⟩) R - phase ((starRingEnd ℂ) ⟨1, 2⟩) 0)) atTop (𝓝 (-π)) := by
  have h := phase_half_pair ⟨1, 2⟩ (by simp)
  have e : turn ⟨1, 2⟩ = -π := by simp [turn]
  rwa [e] at h

/-- `1 + L = (s - 1)/(s + 1)` at `s = j`: `Φ(1) = π - 2·(π/4) = π/2`, and indeed
`(j - 1)/(j + 1) = j`. -/
example : Phi 1 [1] [-1] 1 = π / 2 := by
  norm_num [Phi, sumPhase, phase, branch, arctan_neg, arctan_one]
  ring

/-- STABLE loop `L = 1/(s+1)`: `1 + L = (s+2)/(s+1)`, `cs = [-2]`, `ps = [-1]`, `Z = P = 0`; grid
`0, 1, 2, 3, 4`: the count is `0`. -/
example : count π (([0, 1, 2, 3, 4].map fun ω : ℝ =>
    ratfun 1 [-2] [-1] ((ω : ℂ) * Complex.I)).map Complex.arg) = 0 := by
  have h := count_continuous_of_bounds (k := 1) one_ne_zero [-2] [-1]
    (by simp) (by simp) (by simp [Complex.conj_ofNat]) (by simp) rfl [1, 2, 3, 4]
    (by
      intro δ hδ
      simp only [diff_cons_cons, diff_singleton, List.mem_cons, List.not_mem_nil, or_false] at hδ
      have := Real.pi_gt_three
      rcases hδ with rfl | rfl | rfl | rfl <;> norm_num [lipConst] <;> linarith)
    (by simp)
    (by have := Real.pi_gt_three; norm_num [tailRat]; linarith)
  simpa [rhp] using h

/-- UNSTABLE closed loop `L = -2/(s+1)`: `1 + L = (s-1)/(s+1)`, `cs = [1]`, `ps = [-1]`, `Z = 1`,
`P = 0`; grid `0, 1, 2, 3`: the count is `1` (one clockwise encirclement of `-1`). -/
example : count π (([0, 1, 2, 3].map fun ω : ℝ =>
    ratfun 1 [1] [-1] ((ω : ℂ) * Complex.I)).map Complex.arg) = 1 := by
  have h := count_continuous_of_bounds (k := 1) one_ne_zero [1] [-1]
    (by simp) (by simp) (by simp) (by simp) rfl [1, 2, 3]
    (by
      intro δ hδ
      simp only [diff_cons_cons, diff_singleton, List.mem_cons, List.not_mem_nil, or_false] at hδ
      have := Real.pi_gt_three
      rcases hδ with rfl | rfl | rfl <;> norm_num [lipConst] <;> linarith)
    (by simp)
    (by have := Real.pi_gt_three; norm_num [tailRat]; linarith)
  simpa [rhp] using h

/-- the same loop written as `L`: `1 + L(jω)` with `L(s) = -2/(s+1)`. -/
example : count π (([0, 1, 2, 3].map fun ω : ℝ =>
    1 + (fun s : ℂ => -2 / (s + 1)) ((ω : ℂ) * Complex.I)).map Complex.arg) = 1 := by
  have hL : ∀ ω : ℝ, 1 + (fun s : ℂ => -2 / (s + 1)) ((ω : ℂ) * Complex.I) =
      ratfun 1 [1] [-1] ((ω : ℂ) * Complex.I) := by
    intro ω
    have hne : (ω : ℂ) * Complex.I + 1 ≠ 0 := by
      have := factor_ne_zero (-1) (by simp) ω
      simpa [sub_neg_eq_add] using this
    simp only [ratfun, List.map_cons, List.map_nil, List.prod_cons, List.prod_nil, mul_one, one_mul,
      sub_neg_eq_add]
    field_simp
    ring
  have h := count_continuous_loop (fun s : ℂ => -2 / (s + 1)) (k := 1) one_ne_zero [1] [-1] hL
    (by simp) (by simp) (by simp) (by simp) rfl [1, 2, 3]
    (diff_map_lt (Phi 1 [1] [-1]) _ π (step_bound 1 [1] [-1]) [0, 1, 2, 3] (by
      intro δ hδ
      simp only [diff_cons_cons, diff_singleton, List.mem_cons, List.not_mem_nil, or_false] at hδ
      have := Real.pi_gt_three
      rcases hδ with rfl | rfl | rfl <;> norm_num [lipConst] <;> linarith))
    (by simp)
    (lt_of_le_of_lt (tailArctan_le_tailRat _ _ (by simp))
      (by have := Real.pi_gt_three; norm_num [tailRat]; linarith))
  simpa [rhp] using h

/-- UNSTABLE closed loop with a COMPLEX pair: `L = (-6s+2)/((s+1)(s+3))`,
`1 + L = (s² - 2s + 5)/((s+1)(s+3))`, closed-loop poles `1 ± 2j`, `Z = 2`, `P = 0`; grid with step
`3/4` up to `6`: the count is `2`. -/
example : count π (([0, 3/4, 3/2, 9/4, 3, 15/4, 9/2, 21/4, 6].map fun ω : ℝ =>
    ratfun 1 [⟨1, 2⟩, ⟨1, -2⟩] [-1, -3] ((ω : ℂ) * Complex.I)).map Complex.arg) = 2 := by
  have hconj : ([(⟨1, 2⟩ : ℂ), ⟨1, -2⟩].map (starRingEnd ℂ)).Perm [⟨1, 2⟩, ⟨1, -2⟩] := by
    have e1 : (starRingEnd ℂ) (⟨1, 2⟩ : ℂ) = ⟨1, -2⟩ := by apply Complex.ext <;> simp
    have e2 : (starRingEnd ℂ) (⟨1, -2⟩ : ℂ) = ⟨1, 2⟩ := by apply Complex.ext <;> simp
    simp only [List.map_cons, List.map_nil, e1, e2]
    exact List.Perm.swap _ _ _
  have h := count_continuous_of_bounds (k := 1) one_ne_zero [⟨1, 2⟩, ⟨1, -2⟩] [-1, -3]
    (by simp) (by simp) hconj (by simp [Complex.conj_ofNat]) rfl [3/4, 3/2, 9/4, 3, 15/4, 9/2, 21/4, 6]
    (by
      intro δ hδ
      simp only [diff_cons_cons, diff_singleton, List.mem_cons, List.not_mem_nil, or_false] at hδ
      have := Real.pi_gt_three
      rcases hδ with rfl | rfl | rfl | rfl | rfl | rfl | rfl | rfl <;>
        norm_num [lipConst] <;> linarith)
    (by simp; norm_num)
    (by have := Real.pi_gt_three; norm_num [tailRat]; linarith)
  simpa [rhp] using h

/-- the full-axis argument principle on the same data: `Φ(R) - Φ(-R) → 2π (0 - 2) = -4π`. -/
example : Tendsto (fun R : ℝ => Phi 1 [⟨1, 2⟩, ⟨1, -2⟩] [-1, -3] R -
    Phi 1 [⟨1, 2⟩, ⟨1, -2⟩] [-1, -3] (-R)) atTop (𝓝 (-(4 * π))) := by
  have h := argument_principle_axis 1 [⟨1, 2⟩, ⟨1, -2⟩] [-1, -3] (by simp) (by simp) rfl
  have e : 2 * π * ((rhp [-1, -3] : ℝ) - rhp [(⟨1, 2⟩ : ℂ), ⟨1, -2⟩]) = -(4 * π) := by
    simp [rhp]; ring
  rwa [e] at h

end CtrlVerif.C13Arg
