/-
C15, flag objects: `similarity_transform(…, inverse=flag)` called with any of the objects callers pass
for a documented boolean option (`Model/PyFlag.lean`: `bool`, `int`, `numpy.bool_`, NumPy integer,
`float`, `None`, `str`, 0-d array).  The direction of the transformation depends on the truth value of
the object only: `0`, `numpy.False_`, `0.0`, `None`, `''` give `z = T x` exactly as the literal `False`
does, every other object gives `x = T z` as `True` does, and the transfer-function statement
(`similarity_resp`) holds for the function the source text defines, for every flag object.
`is_False_ne_not_truthy` records why `inverse is False` is not a replacement for `not inverse`.
-/
import CtrlVerif.Model.PyFlag
import CtrlVerif.Props.C15GenSim

namespace CtrlVerif.C15Flag

open Matrix CtrlVerif PyFlag

variable {K : Type} [Field K] [DecidableEq K]

/-- the truth values of the flag objects. -/
theorem truthy_table (b : Bool) (i : Int) (x : ℚ) (s : String) :
    truthy (.pyBool b) = b ∧ truthy (.npBool b) = b ∧ truthy (.arr0 b) = b
      ∧ (truthy (.pyInt i) = true ↔ i ≠ 0) ∧ (truthy (.npInt i) = true ↔ i ≠ 0)
      ∧ (truthy (.pyFloat x) = true ↔ x ≠ 0) ∧ truthy .pyNone = false
      ∧ (truthy (.pyStr s) = true ↔ s ≠ "") := by
  simp [truthy]

/-- the falsy objects that are not the literal `False` (the class a test `inverse is False`
sends to the wrong branch). -/
theorem falsy_nonliteral :
    truthy (.pyInt 0) = false ∧ truthy (.npBool false) = false ∧ truthy (.npInt 0) = false
      ∧ truthy (.pyFloat 0) = false ∧ truthy .pyNone = false ∧ truthy (.pyStr "") = false
      ∧ truthy (.arr0 false) = false := by
  simp [truthy]

/-- `flag is False` is the negated truth value only for Python `bool`s … -/
theorem is_False_eq_not_truthy_of_pyBool (b : Bool) :
    isLiteralFalse (.pyBool b) = !truthy (.pyBool b) := by
  cases b <;> rfl

/-- … and for no falsy object of any other kind. -/
theorem is_False_ne_not_truthy (f : PyFlag) (hf : f.truthy = false) (hne : f ≠ .pyBool false) :
    isLiteralFalse f ≠ !f.truthy := by
  cases f with
  | pyBool b => cases b <;> simp_all [truthy]
  | _ => simp [isLiteralFalse, hf]

/-- non-vacuity: `0` and `numpy.False_` are such objects. -/
example : (PyFlag.pyInt 0).truthy = false ∧ PyFlag.pyInt 0 ≠ .pyBool false
    ∧ (PyFlag.npBool false).truthy = false ∧ PyFlag.npBool false ≠ .pyBool false := by decide

/-- **the spelling of the flag does not matter**: two flag objects with the same truth value give
the same result (or the same exception). -/
theorem similarityF_spelling (G : DSS K) (q : Nat) (T : Matrix (Fin q) (Fin q) K) (c : K)
    (f g : PyFlag) (h : f.truthy = g.truthy) : G.similarityF q T c f = G.similarityF q T c g := by
  unfold DSS.similarityF; rw [h]

/-- a falsy flag object (`0`, `numpy.False_`, `None`, …) is the literal `False`: `z = T x`. -/
theorem similarityF_falsy (G : DSS K) (q : Nat) (T : Matrix (Fin q) (Fin q) K) (c : K)
    (f : PyFlag) (h : f.truthy = false) : G.similarityF q T c f = G.similarity q T c false := by
  unfold DSS.similarityF; rw [h]

/-- a truthy flag object (`1`, `2`, `numpy.True_`, `'False'`, …) is the literal `True`: `x = T z`. -/
theorem similarityF_truthy (G : DSS K) (q : Nat) (T : Matrix (Fin q) (Fin q) K) (c : K)
    (f : PyFlag) (h : f.truthy = true) : G.similarityF q T c f = G.similarity q T c true := by
  unfold DSS.similarityF; rw [h]

/-- the function the source text defines, called with the flag object (the tie's `BOOL` parameter
is the truth value), is the model. -/
theorem generated_similarityF_eq (G : DSS K) (q : Nat) (T : Matrix (Fin q) (Fin q) K) (c : K)
    (f : PyFlag) :
    Generated.similarityTransform G ⟨q, q, T⟩ c f.truthy = G.similarityF q T c f :=
  C15Gen.generated_similarity_transform_eq G q T c f.truthy

/-- **`similarity_resp` for every flag object**: whenever
`similarity_transform(G, T, timescale=c, inverse=flag)` returns `R` (`c ≠ 0`), `R` has the value `Y`
at `s` exactly when `G` has the value `Y` at `c·s`. -/
theorem similarityF_resp {G R : DSS K} {q : Nat} {T : Matrix (Fin q) (Fin q) K} {c : K} {f : PyFlag}
    (hc : c ≠ 0) (hR : G.similarityF q T c f = .ok R) (s : K) (p m : Nat)
    (Y : Matrix (Fin p) (Fin m) K) : R.Resp s p m Y ↔ G.Resp (c * s) p m Y := by
  rw [← generated_similarityF_eq] at hR
  exact C15Gen.generated_similarity_resp hc hR s p m Y

/-- the typed relations behind a falsy flag: with `T Ti = 1` the result of the `z = T x` branch
satisfies `A' T = T A / c`, `B' = T B / c`, `C' T = C`, `D' = D` — the relations the correspondence
check tests on the matrices the real code returns for `inverse=0`, `inverse=numpy.False_`, …. -/
theorem falsy_relations {n p m : Nat} (G : SS (Fin n) (Fin m) (Fin p) K)
    (T Ti : Matrix (Fin n) (Fin n) K) (c : K) (hT : T * Ti = 1) (f : PyFlag) (h : f.truthy = false) :
    let Z := if f.truthy then G.similarityInv T Ti c else G.similarity T Ti c
    Z.A * T = c⁻¹ • (T * G.A) ∧ Z.B = c⁻¹ • (T * G.B) ∧ Z.C * T = G.C ∧ Z.D = G.D := by
  simp only [h]
  exact C15.similarity_relations G T Ti c hT

/-- non-vacuity (ℚ): `inverse=0` on a 2-state system returns, and returns what `inverse=False`
returns; `inverse=2` returns what `inverse=True` returns, which is a different system. -/
example :
    let G : DSS ℚ := ⟨2, 1, 1, ⟨!![0, 1; -2, -3], !![0; 1], !![1, 0], !![2]⟩, .cont⟩
    (∃ R, G.similarityF 2 !![1, 1; 0, 1] 2 (.pyInt 0) = .ok R)
      ∧ G.similarityF 2 !![1, 1; 0, 1] 2 (.pyInt 0) = G.similarity 2 !![1, 1; 0, 1] 2 false
      ∧ G.similarityF 2 !![1, 1; 0, 1] 2 (.pyInt 2) = G.similarity 2 !![1, 1; 0, 1] 2 true := by
  refine ⟨?_, rfl, rfl⟩
  have := (C15Gen.generated_similarity_transform_ok_iff (K := ℚ)
    ⟨2, 1, 1, ⟨!![0, 1; -2, -3], !![0; 1], !![1, 0], !![2]⟩, .cont⟩ 2 !![1, 1; 0, 1] 2 false).mpr
    (by simp [Matrix.det_fin_two])
  rw [C15Gen.generated_similarity_transform_eq] at this
  exact this

end CtrlVerif.C15Flag
