/-
C19 — operations are pure: no operand mutation, no dependence on call history.

What is proved here is about the model `CtrlVerif.Config` (Model/Config.lean): the configuration
dictionary with its deprecated-alias redirection, `set_defaults`, the context manager,
`reset_defaults`, `use_*_defaults`, the logical name counter and the parameter protocol of
nonlinear systems.  That the *real* operations leave their operands and the configuration alone
cannot be a theorem about Python objects; it is carried by the correspondence check
(harness/families/c19.py: deep snapshots on generated call histories), where the model's
prediction for every non-configuration call is `Call.op`: nothing changes (`op_pure`).  In that
sense C19 is **partial**.

Where the code that exists violates the property the model is the correct behaviour and a
`…_counterexample` theorem shows the failure of the code as it exists (`enterCode`, `resetCode`,
`PMode.code`).
-/
import CtrlVerif.Lemmas.Config
import CtrlVerif.Model.Memo

namespace CtrlVerif.C19

open CtrlVerif CtrlVerif.Config

/-! ## reset_defaults -/

/-- **reset_restores** — after *any* history of calls (configuration calls of every kind, nested
`with` blocks, calls that raise, library calls) `reset_defaults` gives every import-time key its
import-time value (the value the concatenated default tables assign last). -/
theorem reset_restores (imp : Cfg) (w : World) (hs : List Call) (k : Key) (hk : k ∈ keys imp) :
    get (step imp (run imp w hs).1 .reset).1.cfg k = getLast imp k ∧ getLast imp k ≠ none := by
  have hne : getLast imp k ≠ none := fun h => (getLast_eq_none_iff imp k).mp h hk
  refine ⟨?_, hne⟩
  simp only [step, reset]
  rw [get_putAll]
  cases h : getLast imp k with
  | some v => rfl
  | none => exact absurd h hne

/-- with distinct keys in the default tables, "the import-time value" is the listed value. -/
theorem reset_restores_value (imp : Cfg) (hnd : (keys imp).Nodup) (w : World) (hs : List Call)
    (k : Key) (v : Val) (hkv : (k, v) ∈ imp) :
    get (step imp (run imp w hs).1 .reset).1.cfg k = some v := by
  have hk : k ∈ keys imp := List.mem_map.mpr ⟨(k, v), hkv, rfl⟩
  rw [(reset_restores imp w hs k hk).1]
  clear hk w hs
  induction imp with
  | nil => cases hkv
  | cons e m ih =>
    obtain ⟨k0, v0⟩ := e
    simp only [keys, List.map_cons, List.nodup_cons] at hnd
    obtain ⟨hk0, hm⟩ := hnd
    simp only [getLast]
    rcases List.mem_cons.mp hkv with h | h
    · cases h
      have : getLast m k = none := (getLast_eq_none_iff m k).mpr hk0
      simp [this]
    · rw [ih hm h]

/-- reset does not touch entries outside the default tables and adds no other key. -/
theorem reset_other_keys (imp : Cfg) (c : Cfg) (k : Key) (hk : k ∉ keys imp) :
    get (reset imp c) k = get c k := by
  simp only [reset]
  rw [get_putAll, (getLast_eq_none_iff imp k).mpr hk]

/-- the code as it exists resets through `__setitem__`: an alias `deprecated.<k>` of an
import-time key `k` diverts the reset of `k` (known finding C19-reset-alias). -/
theorem resetCode_counterexample :
    ∃ (imp c : Cfg) (k : Key), k ∈ keys imp ∧ get (resetCode imp c) k ≠ getLast imp k ∧
      get (reset imp c) k = getLast imp k :=
  ⟨[("control.default_dt", "~i0"), ("control.squeeze_time_response", "~n")],
   [("deprecated.control.squeeze_time_response", "control.default_dt"),
    ("control.default_dt", "~i0"), ("control.squeeze_time_response", "~n")],
   "control.default_dt", by decide, by decide, by decide⟩

/-- without aliases the code as it exists and the model agree. -/
theorem resetCode_eq_of_noDep (imp c : Cfg) (hnd : NoDep c) (hp : ∀ e ∈ imp, has c e.1 = true)
    (k : Key) : get (resetCode imp c) k = get (reset imp c) k := by
  simp only [resetCode, reset]
  rw [(assignAll_noDep imp c hnd hp).2 k, get_putAll]

/-! ## no configuration call removes an entry -/

theorem no_entry_removed (imp : Cfg) (w : World) (hs : List Call) (k : Key)
    (hk : has w.cfg k = true) : has (run imp w hs).1.cfg k = true := by
  induction hs generalizing w with
  | nil => simpa [run] using hk
  | cons c cs ih =>
    simp only [run]
    exact ih _ (((puts_step imp).1 w c).has_mono k hk)

/-! ## set_defaults and use_*_defaults add no entries -/

/-- as long as no deprecated alias is defined, `set_defaults` (also when it raises half-way)
neither adds nor removes an entry, and defines no alias. -/
theorem setDefaults_no_new_keys (imp : Cfg) (w : World) (module : String) (kvs : List (String × Val))
    (hnd : NoDep w.cfg) (k : Key) :
    has (step imp w (.setDefaults module kvs)).1.cfg k = has w.cfg k ∧
    NoDep (step imp w (.setDefaults module kvs)).1.cfg := by
  simp only [step]
  exact ⟨(setDefaults_keys module kvs w.cfg hnd).2 k, (setDefaults_keys module kvs w.cfg hnd).1⟩

theorem useDefaults_no_new_keys (imp : Cfg) (w : World) (hnd : NoDep w.cfg) (k : Key) :
    has (step imp w .useMatlab).1.cfg k = has w.cfg k ∧ has (step imp w .useFbs).1.cfg k = has w.cfg k := by
  simp only [step]
  exact ⟨(setDefaultsSeq_keys _ w.cfg hnd).2 k, (setDefaultsSeq_keys _ w.cfg hnd).2 k⟩

/-! ## the context manager -/

/-- **ctx_restores** — `with defaults(m): body` restores every key of `m` to the value it had
before the block, whatever the body does (assign the same keys, call `reset_defaults`, raise, nest
further blocks), provided no key of `m` has a deprecated alias when the block is left (`hnd`;
`hdd`: no key of `m` is itself such an alias entry).  Keys outside `m` keep what the body left. -/
theorem ctx_restores (imp : Cfg) (w : World) (m : List (Key × Val)) (body : List Call)
    (saved : List (Key × Val)) (c1 : Cfg) (h : enter w.cfg m = some (saved, c1))
    (hnd : ∀ k ∈ keys m, get (runBody imp ⟨c1, w.ctr⟩ body).1.cfg (depKey k) = none)
    (hdd : ∀ k ∈ keys m, ∀ k' ∈ keys m, depKey k' ≠ k) (k : Key) :
    get (step imp w (.withCtx m body)).1.cfg k =
      if k ∈ keys m then get w.cfg k else get (runBody imp ⟨c1, w.ctr⟩ body).1.cfg k := by
  obtain ⟨hall, hsaved, hc1⟩ := enter_eq h
  have hsub : ∀ e ∈ saved, e.1 ∈ keys m := by
    intro e he
    apply keys_savedOf_subset w.cfg m
    rw [← hsaved]
    exact List.mem_map.mpr ⟨e, he, rfl⟩
  simp only [step, h, restore]
  rw [assignAll_local saved _ (fun e he => hnd _ (hsub e he))
    (fun e he e' he' => hdd _ (hsub e he) _ (hsub e' he')) k]
  by_cases hk : k ∈ keys m
  · rw [hsaved, getLast_savedOf w.cfg m hall k hk]
    simp only [hk, if_true]
    cases hg : get w.cfg k with
    | some v => rfl
    | none =>
      obtain ⟨e', he', hee⟩ := List.mem_map.mp hk
      have := hall e' he'
      rw [hee] at this
      simp [has, hg] at this
  · have : getLast saved k = none := by
      rw [hsaved]
      exact (getLast_eq_none_iff _ _).mpr (fun hh => hk (keys_savedOf_subset w.cfg m k hh))
    simp [this, hk]

/-- a block whose mapping has an unknown key raises and changes nothing. -/
theorem ctx_unknown_key_unchanged (imp : Cfg) (w : World) (m : List (Key × Val)) (body : List Call)
    (h : enter w.cfg m = none) :
    step imp w (.withCtx m body) = (w, [.raised .badArg], some .badArg) := by
  simp [step, h]

/-- `enter` fails exactly when some key of the mapping is not in the dictionary. -/
theorem enter_none_iff (c : Cfg) (m : List (Key × Val)) :
    enter c m = none ↔ ∃ e ∈ m, has c e.1 = false := by
  unfold enter
  constructor
  · intro h
    split at h
    · cases h
    · rename_i hall
      simpa using hall
  · rintro ⟨e, he, hf⟩
    have : m.all (fun e => has c e.1) = false := by
      apply List.all_eq_false.mpr
      exact ⟨e, he, by simp [hf]⟩
    simp [this]

/-- the code as it exists assigns the entries in front of the unknown key before it raises. -/
theorem enterCode_counterexample :
    ∃ (c : Cfg) (m : List (Key × Val)) (k : Key),
      (enterCode c [] m).2.2 = false ∧ get (enterCode c [] m).1 k ≠ get c k ∧ enter c m = none :=
  ⟨[("control.default_dt", "~i0")], [("control.default_dt", "~i1"), ("bogus.key", "~i2")],
   "control.default_dt", by decide, by decide, by decide⟩

/-- a block around library calls only: the whole dictionary is as before, for every nesting of
the library calls' results (names) and whether or not the mapping is accepted. -/
theorem ctx_pure_body_identity (imp : Cfg) (w : World) (m : List (Key × Val)) (body : List Call)
    (hnd : NoDep w.cfg) (hb : ∀ c ∈ body, isOp c = true) (k : Key) :
    get (step imp w (.withCtx m body)).1.cfg k = get w.cfg k := by
  cases h : enter w.cfg m with
  | none => simp [step, h]
  | some r =>
    obtain ⟨saved, c1⟩ := r
    obtain ⟨hall, hsaved, hc1⟩ := enter_eq h
    obtain ⟨hb1, _⟩ := runBody_ops imp body hb ⟨c1, w.ctr⟩
    simp only at hb1
    have hnd1 : NoDep c1 := by rw [hc1]; exact (assignAll_noDep m w.cfg hnd hall).1
    have hnd2 : ∀ k ∈ keys m, get (runBody imp ⟨c1, w.ctr⟩ body).1.cfg (depKey k) = none := by
      intro k _; rw [hb1]; exact hnd1 k
    have hdd : ∀ k ∈ keys m, ∀ k' ∈ keys m, depKey k' ≠ k := by
      intro k hk k' _ he
      obtain ⟨e', he', hee⟩ := List.mem_map.mp hk
      have := hall e' he'
      rw [hee, ← he] at this
      simp [has, hnd k'] at this
    rw [ctx_restores imp w m body saved c1 h hnd2 hdd k]
    by_cases hk : k ∈ keys m
    · simp [hk]
    · simp only [hk, if_false]
      rw [hb1, hc1, (assignAll_noDep m w.cfg hnd hall).2 k, (getLast_eq_none_iff m k).mpr hk]

/-- **ctx_restores, every nesting** — a call built from library calls, reads (also raising ones)
and `with` blocks nested to any depth around such calls leaves the whole dictionary as it was.
The code as it exists fails this already at depth two (the saved values live in one slot:
`with defaults(a): with defaults(b): pass` raises AttributeError at the outer exit and leaves `a`
applied); repaired by fixes/config-context-nesting.diff. -/
theorem ctx_nested_identity (imp : Cfg) (w : World) (call : Call) (hb : balanced call = true)
    (hnd : NoDep w.cfg) (k : Key) : get (step imp w call).1.cfg k = get w.cfg k :=
  (balanced_identity imp).1 w call hb hnd k

/-! ## library calls, the counter, history independence -/

/-- the modelling assumption the correspondence check validates on the real code: a library call
changes neither the configuration nor anything but the counter. -/
theorem op_pure (imp : Cfg) (w : World) (named : Bool) :
    (step imp w (.op named)).1.cfg = w.cfg ∧ (step imp w (.op named)).2.2 = none := by
  cases named <;> simp [step]

/-- **history_independence** — in two worlds with the same configuration (reached by *any* two
histories) the same call has the same outcome, the same outputs up to the counter value inside
generated names, the same new configuration, and advances the counter by the same amount. -/
theorem history_independence (imp : Cfg) (w1 w2 : World) (hcfg : w1.cfg = w2.cfg) (call : Call) :
    SameUpToCtr (step imp w1 call) (step imp w2 call) w1.ctr w2.ctr := by
  have := (step_ctr imp).1 w1 call w2.ctr
  rw [hcfg] at this
  exact this

/-- in particular: library calls before a call do not influence it. -/
theorem history_independence_ops (imp : Cfg) (w : World) (hs : List Call)
    (hops : ∀ c ∈ hs, isOp c = true) (call : Call) :
    SameUpToCtr (step imp w call) (step imp (run imp w hs).1 call) w.ctr (run imp w hs).1.ctr :=
  history_independence imp w (run imp w hs).1 (run_ops imp hs hops w).symm call

/-- the counter is the only thing a generated name depends on. -/
theorem generated_name (imp : Cfg) (w : World) :
    (step imp w (.op false)).2.1 = [.result (some w.ctr)] ∧ (step imp w (.op false)).1.ctr = w.ctr + 1 ∧
    (step imp w (.op true)).2.1 = [.result none] ∧ (step imp w (.op true)).1.ctr = w.ctr := by
  simp [step]

/-! ## parameter protocol of nonlinear systems -/

/-- **params_protocol** — with `__call__` refreshing the parameters on every evaluation (the
repaired code), after *any* history every evaluation sees `params ∪ override` of that very call
(for subsystems evaluated through an interconnected system: `sub.params ∪ ics.params ∪
override`). -/
theorem params_protocol (S : PSys) (st : PState) (hs : List PCall) :
    (prun .fixed S st hs).2 = hs.map (specOut S) := by
  induction hs generalizing st with
  | nil => rfl
  | cons c cs ih => simp only [prun, List.map_cons, ih, pstep_fixed_eq_spec]

/-- the code as it exists (`__call__` refreshes only when `params` is given) violates it: after
`f(u, params={'a': 5})` the plain call `f(u)` still sees `a = 5`. -/
theorem params_code_counterexample :
    ∃ (S : PSys) (hs : List PCall),
      (prun .code S (PState.init S) hs).2 ≠ hs.map (specOut S) :=
  ⟨⟨[[("a", "~i1")]], []⟩, [.subCall 0 (some [("a", "~i5")]), .subCall 0 none], by decide⟩

/-- the code as it exists agrees with the specification on every evaluation other than a
`__call__` without `params`. -/
theorem params_code_ok_unless_bare_call (S : PSys) (st : PState) (c : PCall)
    (h : ∀ j, c ≠ .subCall j none) : (pstep .code S st c).2 = specOut S c := by
  cases c with
  | subCall j ov =>
    cases ov with
    | none => exact absurd rfl (h j)
    | some o =>
      simp only [pstep, specOut]
      cases S.subs[j]? <;> simp
  | subEval j ov =>
    simp only [pstep, specOut]
    cases S.subs[j]? <;> simp
  | icsEval ov => simp [pstep, specOut]

/-! ## non-vacuity -/

section Examples

def imp0 : Cfg := [("control.default_dt", "~i0"), ("freqplot.dB", "~b0"), ("freqplot.deg", "~b1")]

/-- a history with a failing `set_defaults`, an alias, a nested block and a raising read. -/
def hist0 : List Call :=
  [.setDefaults "freqplot" [("dB", "~b1"), ("bogus", "~i1")],
   .setItem "deprecated.bode.dB" "freqplot.dB",
   .setItem "bode.dB" "~i7",
   .withCtx [("control.default_dt", "~i1")]
     [.op false, .withCtx [("freqplot.deg", "~b0")] [.getItem "freqplot.deg", .getItem "nope"], .op true],
   .op false]

example : (run imp0 ⟨imp0, 0⟩ hist0).2 =
    [.raised .badArg, .done, .done, .result (some 0), .val "~b0", .raised .unknownName,
     .raised .unknownName, .raised .unknownName, .result (some 1)] := by decide

example : get (run imp0 ⟨imp0, 0⟩ hist0).1.cfg "freqplot.dB" = some "~i7" := by decide

-- reset_restores on that history
example : get (step imp0 (run imp0 ⟨imp0, 0⟩ hist0).1 .reset).1.cfg "freqplot.dB" = some "~b0" := by
  decide

-- ctx_restores: hypotheses are satisfiable (the body assigns the key of the mapping and another)
example : ∃ saved c1, enter imp0 [("freqplot.dB", "~b1")] = some (saved, c1) ∧
    (∀ k ∈ keys [("freqplot.dB", "~b1")], get (runBody imp0 ⟨c1, 0⟩
      [.setItem "freqplot.dB" "~i5", .setItem "freqplot.deg" "~b0"]).1.cfg (depKey k) = none) ∧
    (∀ k ∈ keys [("freqplot.dB", "~b1")], ∀ k' ∈ keys [("freqplot.dB", "~b1")], depKey k' ≠ k) ∧
    get (step imp0 ⟨imp0, 0⟩ (.withCtx [("freqplot.dB", "~b1")]
      [.setItem "freqplot.dB" "~i5", .setItem "freqplot.deg" "~b0"])).1.cfg "freqplot.dB" = some "~b0" ∧
    get (step imp0 ⟨imp0, 0⟩ (.withCtx [("freqplot.dB", "~b1")]
      [.setItem "freqplot.dB" "~i5", .setItem "freqplot.deg" "~b0"])).1.cfg "freqplot.deg" = some "~b0" :=
  ⟨_, _, rfl, by decide, by decide, by decide, by decide⟩

-- the hypothesis `NoDep` of setDefaults_no_new_keys / ctx_pure_body_identity / resetCode_eq_of_noDep
example : NoDep imp0 := noDep_of_all _ (by decide)

-- ctx_pure_body_identity on a block with an accepted mapping and two library calls
example : enter imp0 [("freqplot.dB", "~b1"), ("control.default_dt", "~f0.1")] ≠ none ∧
    (∀ c ∈ [Call.op false, Call.op true], isOp c = true) ∧
    (step imp0 ⟨imp0, 3⟩ (.withCtx [("freqplot.dB", "~b1"), ("control.default_dt", "~f0.1")]
      [.op false, .op true])).2.1 = [.result (some 3), .result none, .done] := by decide

-- set_defaults that raises half-way (the first keyword is assigned)
example : (step imp0 ⟨imp0, 0⟩ (.setDefaults "freqplot" [("dB", "~b1"), ("bogus", "~i1")])).2.2 = some .badArg ∧
    get (step imp0 ⟨imp0, 0⟩ (.setDefaults "freqplot" [("dB", "~b1"), ("bogus", "~i1")])).1.cfg "freqplot.dB"
      = some "~b1" := by decide

-- ctx_nested_identity: depth three, a raising read in the innermost block
example : balanced (.withCtx [("freqplot.dB", "~b1")] [.op false, .withCtx [("freqplot.deg", "~b0")]
      [.withCtx [("control.default_dt", "~n")] [.getItem "control.default_dt", .getItem "nope"], .op true]])
    = true ∧
    (step imp0 ⟨imp0, 0⟩ (.withCtx [("freqplot.dB", "~b1")] [.op false, .withCtx [("freqplot.deg", "~b0")]
      [.withCtx [("control.default_dt", "~n")] [.getItem "control.default_dt", .getItem "nope"], .op true]])).2.1
    = [.result (some 0), .val "~n", .raised .unknownName, .raised .unknownName, .raised .unknownName,
       .raised .unknownName] := by decide

-- history_independence: a generated name differs, everything else agrees
example : (step imp0 ⟨imp0, 0⟩ (.op false)).2.1 ≠ (step imp0 ⟨imp0, 5⟩ (.op false)).2.1 ∧
    (step imp0 ⟨imp0, 0⟩ (.op false)).2.1.map Out.erase = (step imp0 ⟨imp0, 5⟩ (.op false)).2.1.map Out.erase := by
  decide

-- params_protocol on an interconnected system with two subsystems
example : (prun .fixed ⟨[[("a", "~i1")], [("a", "~i2"), ("b", "~i3")]], [("b", "~i9")]⟩
      [[("a", "~i1")], [("a", "~i2"), ("b", "~i3")]]
      [.icsEval (some [("a", "~i7")]), .subCall 1 none]).2 =
    [.ok [(0, [("a", "~i7"), ("b", "~i9")]), (1, [("a", "~i7"), ("b", "~i9")])],
     .ok [(1, [("a", "~i2"), ("b", "~i3")])]] := by decide

-- use_legacy_defaults: the precedence of the version test
example : legacyPre092 1 9 0 = true ∧ legacyPre09 1 9 = false ∧ legacyPre092 0 10 1 = false := by decide

end Examples

/-! ## objects that keep the last computation between calls (`OptimalControlProblem`)

The correspondence compares every call on a problem object that has a call history with the same
call on a freshly built identical object.  The theorems say why that is the right oracle: a cache
whose hit test implies "same value" can never be observed, whatever was called before, and a hit test
on a *part* of the key (the coefficient vector without the initial state) can. -/

section Memo
open CtrlVerif.Memo

variable {κ α : Type}

theorem memo_empty_sound (f : κ → α) : Sound f (Cache.empty : Cache κ α) := by
  intro k v h; cases h

/-- one call through a sound cache returns the value of a fresh computation and leaves a sound cache -/
theorem memo_call_spec (same : κ → κ → Bool) (f : κ → α) (hsame : ∀ a b, same a b = true → f a = f b)
    (c : Cache κ α) (hc : Sound f c) (k : κ) :
    (call same f c k).1 = f k ∧ Sound f (call same f c k).2 := by
  unfold call
  cases h : c.last with
  | none =>
    refine ⟨rfl, ?_⟩
    intro k2 v2 h2
    simp at h2
    obtain ⟨rfl, rfl⟩ := h2; rfl
  | some p =>
    obtain ⟨k', v⟩ := p
    by_cases hs : same k' k = true
    · simp only [hs, if_true]
      exact ⟨(hc k' v h).trans (hsame _ _ hs), hc⟩
    · simp only [hs]
      refine ⟨rfl, ?_⟩
      intro k2 v2 h2
      simp at h2
      obtain ⟨rfl, rfl⟩ := h2; rfl

theorem memo_run_sound (same : κ → κ → Bool) (f : κ → α) (hsame : ∀ a b, same a b = true → f a = f b)
    (hist : List κ) : ∀ c : Cache κ α, Sound f c → Sound f (run same f c hist) := by
  induction hist with
  | nil => intro c hc; exact hc
  | cons k ks ih => intro c hc; exact ih _ (memo_call_spec same f hsame c hc k).2

/-- **memo_history_independent** — if a cache hit implies that the stored key and the present key
have the same value (in particular: if the test compares the whole key), then after *any* history
of calls on the object a call returns exactly what it returns on a freshly built object. -/
theorem memo_history_independent (same : κ → κ → Bool) (f : κ → α)
    (hsame : ∀ a b, same a b = true → f a = f b) (hist : List κ) (k : κ) :
    (call same f (run same f Cache.empty hist) k).1 = (call same f Cache.empty k).1 := by
  rw [(memo_call_spec same f hsame _ (memo_run_sound same f hsame hist _ (memo_empty_sound f)) k).1,
      (memo_call_spec same f hsame _ (memo_empty_sound f) k).1]

/-- **memo_partial_key_counterexample** — a hit test on the coefficient vector alone (the key is the
pair (coefficients, initial state)): after one call from another initial state the object returns the
value of that earlier call. -/
theorem memo_partial_key_counterexample :
    ∃ (f : Nat × Nat → Nat) (hist : List (Nat × Nat)) (k : Nat × Nat),
      (call (fun a b => a.1 == b.1) f (run (fun a b => a.1 == b.1) f Cache.empty hist) k).1
        ≠ (call (fun a b => a.1 == b.1) f Cache.empty k).1 :=
  ⟨fun p => p.1 + p.2, [(1, 1)], (1, 2), by decide⟩

-- non-vacuity: the full-key test satisfies the hypothesis, and a hit really happens in the history
example : (∀ a b : Nat × Nat, (a == b) = true → (fun p : Nat × Nat => p.1 + p.2) a = (fun p => p.1 + p.2) b) ∧
    (call (· == ·) (fun p : Nat × Nat => p.1 + p.2) (run (· == ·) (fun p => p.1 + p.2) Cache.empty [(1, 1), (1, 2)]) (1, 2)).2.last
      = some ((1, 2), 3) ∧
    (call (· == ·) (fun p : Nat × Nat => p.1 + p.2) (run (· == ·) (fun p => p.1 + p.2) Cache.empty [(1, 1)]) (1, 2)).1 = 3 :=
  ⟨fun a b h => by rw [eq_of_beq h], by decide, by decide⟩

end Memo

end CtrlVerif.C19
