/-
Source-text tie of C04 (DESIGN §10.3, notes/NOTES-py2lean-eval.md), summary: the headline theorems of
`Props/C04.lean` about `sys(x)` stated of the `__call__` methods that
`harness/core/py2lean_eval.py` regenerates from the source text of the tree under check on every
run (`Generated/EvalCall.lean`; the parts are proved in `C04GenTF`, `C04GenZero`, `C04GenSS`,
`C04GenDc`, `C04GenFreq`).
-/
import CtrlVerif.Props.C04GenFreq

set_option linter.unusedSimpArgs false
set_option linter.unusedSectionVars false

namespace CtrlVerif.C04Gen
open CtrlVerif CtrlVerif.Eval CtrlVerif.PyEval Polynomial

variable {K : Type} [Field K] [DecidableEq K]

/-- `sys(x)` of either class as the source text computes it (the `__call__` of the class). -/
noncomputable def ltiCall (P : Parts K) (L : LTI K) (x : XArg K) (sq : Option Bool) (w : Bool) :
    Except Err (Arr3 K) :=
  match L with
  | .tf p m e dt => Generated.tfCall P ⟨p, m, ⟨e⟩, dt⟩ x sq w
  | .ss n p m S dt => Generated.ssCall P ⟨n, p, m, S, dt⟩ x sq w

/-- **`sys(x)` as the source text computes it is the model's `call`**, for both classes, every
argument (scalar or 1-D array), whatever `squeeze` and `warn_infinite`: the outcome class of the entry
`(i, j)` at the `k`-th point is that of `Eval.call L xs`. -/
theorem generated_call_eq (P : Parts K) (L : LTI K) (x : XArg K) (sq : Option Bool) (w : Bool) :
    ltiCall P L x sq w = .ok (ltiTarget P L (atleast1dComplex x)) ∧
    ∀ (i : Fin L.p) (j : Fin L.m) (k : Fin (atleast1dComplex x).length),
      ((ltiTarget P L (atleast1dComplex x)).get i j k).map Cx.cls
        = ((call L (atleast1dComplex x))[k]?).map fun M => M i j := by
  refine ⟨?_, fun i j k => ltiTarget_cls P L _ i j k⟩
  cases L with
  | tf p m e dt => exact generated_tfCall_eq P _ x sq w
  | ss n p m S dt => exact generated_ssCall_eq P _ x sq w

/-- **`C04.tf_call_sem` for `TransferFunction.__call__`**: off the roots of the denominator the value
is `num(x) / den(x)`. -/
theorem generated_tfCall_sem (P : Parts K) (G : DTF K) (x : XArg K) (sq : Option Bool) (w : Bool)
    (i : Fin G.p) (j : Fin G.m) (k : Fin (atleast1dComplex x).length)
    (h : (toPoly (G.sys.e i j).den).eval ((atleast1dComplex x).get k) ≠ 0) :
    ∃ R, Generated.tfCall P G x sq w = .ok R ∧
      R.get i j k = some (.fin ((toPoly (G.sys.e i j).num).eval ((atleast1dComplex x).get k)
        / (toPoly (G.sys.e i j).den).eval ((atleast1dComplex x).get k))) := by
  obtain ⟨R, h1, h2⟩ := generated_tf_call_sem P G x w i j k h
  refine ⟨R, ?_, h2⟩
  rw [generated_tfCall_eq]
  rw [generated_tfHorner_eq] at h1
  exact h1

/-- **`C04.ss_call_resp` for `StateSpace.__call__`**: off the poles the returned matrix is the unique
`Resp` value of the system. -/
theorem generated_ssCall_resp (P : Parts K) (G : DSS K) (x : XArg K) (sq : Option Bool) (w : Bool)
    (k : Fin (atleast1dComplex x).length)
    (hu : IsUnit (((atleast1dComplex x).get k) • (1 : Matrix (Fin G.n) (Fin G.n) K) - G.sys.A)) :
    ∃ R Y, Generated.ssCall P G x sq w = .ok R ∧ G.sys.Resp ((atleast1dComplex x).get k) Y ∧
      (∀ Y', G.sys.Resp ((atleast1dComplex x).get k) Y' → Y' = Y) ∧
      ∀ (i : Fin G.p) (j : Fin G.m), R.get i j k = some (.fin (Y i j)) := by
  obtain ⟨R, Y, h1, h2, h3, h4⟩ := generated_ss_call_resp P G x w k hu
  refine ⟨R, Y, ?_, h2, h3, h4⟩
  rw [generated_ssCall_eq]
  rw [generated_ssHorner_eq] at h1
  exact h1

/-- the pole conventions for `__call__` (`C04.tf_pole_inf / _nan`, `ss_pole_at_point`): a transfer
function entry is `inf` / `nan` by its numerator, a state-space system by the rank of its system
matrix. -/
theorem generated_call_pole (P : Parts K) :
    (∀ (G : DTF K) (x : XArg K) (sq : Option Bool) (w : Bool) (i : Fin G.p) (j : Fin G.m)
      (k : Fin (atleast1dComplex x).length),
      (toPoly (G.sys.e i j).den).eval ((atleast1dComplex x).get k) = 0 →
      ∃ R, Generated.tfCall P G x sq w = .ok R ∧ (R.get i j k).map Cx.cls
        = some (if (toPoly (G.sys.e i j).num).eval ((atleast1dComplex x).get k) = 0 then .nan else .inf)) ∧
    (∀ (G : DSS K) (x : XArg K) (sq : Option Bool) (w : Bool) (i : Fin G.p) (j : Fin G.m)
      (k : Fin (atleast1dComplex x).length),
      ¬ IsUnit (((atleast1dComplex x).get k) • (1 : Matrix (Fin G.n) (Fin G.n) K) - G.sys.A) →
      ∃ R, Generated.ssCall P G x sq w = .ok R ∧ (R.get i j k).map Cx.cls
        = some (if zeroTest G.sys ((atleast1dComplex x).get k) = true then .nan else .inf)) := by
  constructor
  · intro G x sq w i j k hd
    refine ⟨_, generated_tfCall_eq P G x sq w, ?_⟩
    obtain ⟨R, h1, h2⟩ := generated_tfHorner_cls P G x w i j k
    rw [generated_tfHorner_eq] at h1
    cases h1
    rw [h2]
    by_cases hn : (toPoly (G.sys.e i j).num).eval ((atleast1dComplex x).get k) = 0
    · rw [if_pos hn, C04.tf_pole_nan _ _ _ _ hd hn]
    · rw [if_neg hn, C04.tf_pole_inf _ _ _ _ hd hn]
  · intro G x sq w i j k hs
    refine ⟨_, generated_ssCall_eq P G x sq w, ?_⟩
    obtain ⟨R, h1, h2⟩ := generated_ssHorner_cls P G x w i j k
    rw [generated_ssHorner_eq] at h1
    cases h1
    rw [h2, C04.ss_pole_at_point G.sys _ hs]
    simp only [Matrix.of_apply, poleVal]

/-- non-vacuity: `1/(s+1)` as a transfer function and as the state-space system
`ss([[-1]],[[1]],[[1]],[[0]])` called at `1` and at the pole `-1`: `1/2` and `inf`, both ways. -/
example :
    let P : Parts ℚ := ⟨id, fun _ => true, fun z => decide (z = 0), fun _ _ => rfl, fun z => by simp⟩
    (∃ R, ltiCall P (.tf 1 1 (fun _ _ => ⟨[1], [1, 1]⟩) .cont) (.arr [1, -1]) none true = .ok R ∧
      (R.get 0 0 0).map Cx.cls = some (.fin (1 / 2)) ∧ (R.get 0 0 1).map Cx.cls = some .inf) ∧
    (∃ R, ltiCall P (.ss 1 1 1 ⟨!![-1], !![1], !![1], !![0]⟩ .cont) (.arr [1, -1]) none true = .ok R ∧
      (R.get 0 0 0).map Cx.cls = some (.fin (1 / 2)) ∧ (R.get 0 0 1).map Cx.cls = some .inf) := by
  intro P
  refine ⟨⟨_, (generated_call_eq P _ _ none true).1, ?_, ?_⟩, ⟨_, (generated_call_eq P _ _ none true).1, ?_, ?_⟩⟩
    <;> decide +kernel

end CtrlVerif.C04Gen
