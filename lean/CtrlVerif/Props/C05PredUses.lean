/-
The hand-written copies of the timebase predicates that the models of other properties use
(C05 `isCTime`, C11 `isdtimeStrict / isctimeStrict / isctime`, C16 `isCtime / isDtime`,
C06 `isDiscrete`, C04 `dcPoint`) are the predicate model of `Model/DtPred.lean` — and therefore,
by `Props/C05Pred.lean`, the functions generated from the text of /repo/control/iosys.py — on every
valid timebase (`disc h` with `h > 0`; `dt = 0` is `cont`).
-/
import CtrlVerif.Props.C05Pred
import CtrlVerif.Model.StateFbkDyn
import CtrlVerif.Model.Norm
import CtrlVerif.Model.TimeResp
import CtrlVerif.Model.Eval

namespace CtrlVerif.C05Pred

open CtrlVerif DtPred

/-- C05 (`sample`): `isCTime` is `sys.isctime()`. -/
theorem dtops_isCTime {d : Dt} (hv : d.valid) : isCTime d = isctime false d := by
  cases d with
  | disc h => have : h ≠ 0 := ne_of_gt hv; simp [isCTime, isctime, this]
  | _ => rfl

/-- C11 (`lqr`/`lqe`/`dlqr`/`dlqe` dispatch, integral action): the three predicates of
`Model/StateFbkDyn.lean` are `isdtime(strict=True)`, `isctime(strict=True)`, `isctime()` —
on every timebase. -/
theorem statefbk_preds (d : Dt) :
    StateFbk.isdtimeStrict d = isdtime true d ∧ StateFbk.isctimeStrict d = isctime true d ∧
    StateFbk.isctime d = isctime false d := by
  cases d <;> simp [StateFbk.isdtimeStrict, StateFbk.isctimeStrict, StateFbk.isctime, isdtime, isctime]

/-- C16 (`system_norm`): `isCtime` / `isDtime` are `sys.isctime()` / `sys.isdtime()`. -/
theorem norm_preds {d : Dt} (hv : d.valid) :
    Norm.isCtime d = isctime false d ∧ Norm.isDtime d = isdtime false d := by
  cases d with
  | disc h =>
    have h0 : 0 < h := hv
    have : h ≠ 0 := ne_of_gt h0
    simp [Norm.isCtime, Norm.isDtime, isdtime, isctime, this, h0]
  | _ => simp [Norm.isCtime, Norm.isDtime, isdtime, isctime]

/-- C06 (`forced_response` and friends): `isDiscrete` is `isdtime(sys)` = `not isctime(sys,
strict=True)`. -/
theorem timeresp_isDiscrete {d : Dt} (hv : d.valid) :
    TimeResp.isDiscrete d = isdtime false d ∧ TimeResp.isDiscrete d = !isctime true d := by
  cases d with
  | disc h =>
    have h0 : 0 < h := hv
    have : h ≠ 0 := ne_of_gt h0
    simp [TimeResp.isDiscrete, isdtime, isctime, this, h0]
  | _ => simp [TimeResp.isDiscrete, isdtime, isctime]

/-- C04 (`dcgain`): the evaluation point is `0 if sys.isctime() else 1`. -/
theorem eval_dcPoint {K : Type} [Field K] [DecidableEq K] {d : Dt} (hv : d.valid) :
    (Eval.dcPoint d : K) = if isctime false d then 0 else 1 := by
  cases d with
  | disc h => have : h ≠ 0 := ne_of_gt hv; simp [Eval.dcPoint, isctime, this]
  | _ => simp [Eval.dcPoint, isctime]

example : (Dt.disc (1/10)).valid := by decide +kernel

end CtrlVerif.C05Pred
