/-
C20 — Flat-system maps are mutually inverse and generated trajectories are feasible.
-/
import CtrlVerif.Lemmas.Flat
import CtrlVerif.Lemmas.FlatBasis
import CtrlVerif.Lemmas.FlatBrunovsky
import Mathlib.LinearAlgebra.Matrix.Notation
import Mathlib.Tactic.NormNum
import Mathlib.Tactic.FinCases
import Mathlib.Data.Real.Basic
import Mathlib.Analysis.Calculus.Deriv.Polynomial
import Mathlib.Analysis.Calculus.Deriv.Add
import Mathlib.Analysis.Calculus.Deriv.Mul

namespace CtrlVerif.C20

open CtrlVerif Matrix LinFlat

variable {K : Type} [Field K] [DecidableEq K] {n : Nat}

/-- `reverse (forward (x, u)) = (x, u)` for every flat structure satisfying the
chain-of-integrators equations. -/
theorem flat_inverse_left (L : LinFlat n K) (h : L.Valid) (hn : 0 < n) (x : Fin n → K) (u : K) :
    L.reverse (L.forward x u) = (x, u) := by
  simp only [reverse, Valid.flagHead_forward h, Valid.forward_last h hn, mulVec_mulVec,
    Valid.inv_mul h, one_mulVec, add_sub_cancel_left]

/-- `forward (reverse z) = z`. -/
theorem flat_inverse_right (L : LinFlat n K) (h : L.Valid) (hn : 0 < n) (z : Fin (n + 1) → K) :
    L.forward (L.reverse z).1 (L.reverse z).2 = z := by
  funext i
  refine Fin.lastCases ?_ (fun j => ?_) i
  · rw [Valid.forward_last h hn]
    simp only [reverse, mulVec_mulVec, h.1, one_mulVec]
    ring
  · rw [Valid.forward_castSucc h]
    simp only [reverse, mulVec_mulVec, h.1, one_mulVec, flagHead]

/-- what `LinearFlatSystem.__init__` returns satisfies the chain-of-integrators equations
(certified at construction), keeps the system, and the system has at least one state. -/
theorem construct_valid {A : Matrix (Fin n) (Fin n) K} {b : Fin n → K} {L : LinFlat n K}
    (h : LinFlat.construct A b = .ok L) : L.Valid ∧ 0 < n ∧ L.A = A ∧ L.b = b := by
  unfold LinFlat.construct at h
  split at h
  · exact absurd h (by simp)
  · rename_i h0
    simp only at h
    split at h
    · exact absurd h (by simp)
    · split at h
      · exact absurd h (by simp)
      · split at h
        · rename_i hv
          injection h with h
          subst h
          exact ⟨(validB_iff _).mp hv, Nat.pos_of_ne_zero h0, rfl, rfl⟩
        · exact absurd h (by simp)

/-- `reverse ∘ forward = id` and `forward ∘ reverse = id` for what the constructor returns. -/
theorem flat_inverse {A : Matrix (Fin n) (Fin n) K} {b : Fin n → K} {L : LinFlat n K}
    (h : LinFlat.construct A b = .ok L) :
    (∀ x u, L.reverse (L.forward x u) = (x, u)) ∧
    (∀ z, L.forward (L.reverse z).1 (L.reverse z).2 = z) := by
  obtain ⟨hv, hn, -, -⟩ := construct_valid h
  exact ⟨flat_inverse_left L hv hn, flat_inverse_right L hv hn⟩

/-- the constructor rejects systems without states (`IndexError` in `reachable_form`). -/
theorem construct_zero_states (A : Matrix (Fin 0) (Fin 0) K) (b : Fin 0 → K) :
    LinFlat.construct A b = .error (.py .indexRange) := by
  simp [LinFlat.construct]

/-- discrete-time and non-SISO systems are rejected (`ControlNotImplemented`). -/
theorem kindCheck_ok_iff (dt : Dt) (p m : Nat) :
    flatKindCheck dt p m = .ok () ↔ (dt = .none ∨ dt = .cont) ∧ p = 1 ∧ m = 1 := by
  cases dt <;> simp [flatKindCheck]

/-- non-vacuity: the constructor succeeds on a concrete reachable system of order 2 … -/
example : (match LinFlat.construct (K := ℚ) !![1, 1; 0, 1] ![1, 2] with
    | .ok _ => true | .error _ => false) = true := by decide +kernel

/-- … and a concrete valid structure (what python-control computes for that system). -/
def exQ : LinFlat 2 ℚ where
  A := !![1, 1; 0, 1]
  b := ![1, 2]
  F := ![-1, 2]
  T := !![1/2, -1/4; 1/2, 1/4]
  Tinv := !![1, 1; -2, 2]
  Cf := ![1/2, -1/4]

example : exQ.Valid := by
  rw [← LinFlat.validB_iff]
  decide +kernel

/-- an unreachable pair is rejected (`ValueError: System not controllable`). -/
example : (match LinFlat.construct (K := ℚ) !![1, 0; 0, 1] ![1, 1] with
    | .error (.py .illPosed) => true | _ => false) = true := by decide +kernel

/-! ### existence: every reachable SISO pair has a valid flat structure -/

/-- for any row `q` with `q A^j b = δ_{j,n-1}` the structure `T_i = q A^i`,
`F_i = - coeff_i (charpoly A)`, `Tinv = T⁻¹`, `Cf = q` satisfies the chain-of-integrators
equations (Cayley–Hamilton; `T` is invertible because `T [A^{n-1} b … b]` is unit lower
triangular). -/
theorem brunovsky_valid (A : Matrix (Fin n) (Fin n) K) (b q : Fin n → K)
    (hq : IsFlatRow A b q) : (brunovsky A b q).Valid :=
  CtrlVerif.brunovsky_valid A b q hq

/-- every reachable SISO pair `(A, b)` (`det ctrb(A, b) ≠ 0`) of order `n ≥ 1` over any field has
a flat structure satisfying the chain-of-integrators equations, hence with mutually inverse
`forward` / `reverse` (the certificate checked by `construct` is satisfiable). -/
theorem reachable_flat_exists (hn : 0 < n) (A : Matrix (Fin n) (Fin n) K) (b : Fin n → K)
    (h : (ctrb A b).det ≠ 0) :
    ∃ L : LinFlat n K, L.A = A ∧ L.b = b ∧ L.Valid ∧
      (∀ x u, L.reverse (L.forward x u) = (x, u)) ∧
      (∀ z, L.forward (L.reverse z).1 (L.reverse z).2 = z) := by
  obtain ⟨q, hq⟩ := exists_flatRow hn A b h
  have hv := CtrlVerif.brunovsky_valid A b q hq
  exact ⟨brunovsky A b q, rfl, rfl, hv, flat_inverse_left _ hv hn, flat_inverse_right _ hv hn⟩

/-
Not proved (`construct_total_partial`): for `det ctrb(A, b) ≠ 0` and `0 < n`,
`∃ L, LinFlat.construct A b = .ok L` — i.e. that the code-following computation through the
companion matrix (`Wrz Wrx⁻¹`, flipped) always passes the certificate.  Missing: the powers of the
companion matrix applied to `e₀`.  `construct_valid` + `reachable_flat_exists` are what is proved.
(Now proved in `Props/C20Cert.lean`: `linflat_valid`, `linflat_never_cert`, for every field of
characteristic zero.)
-/

/-! ### end points -/

/-- if the coefficient vector solves the stacked boundary system `M(T0) α = forward (x0,u0)`,
`M(Tf) α = forward (xf,uf)`, the evaluated trajectory starts at `(x0,u0)` and ends at `(xf,uf)`. -/
theorem endpoints_of_solution (L : LinFlat n K) (h : L.Valid) (hn : 0 < n) (bs : Basis K)
    (α : Fin bs.N → K) (T0 Tf : K) (x0 : Fin n → K) (u0 : K) (xf : Fin n → K) (uf : K)
    (hsol : stackM (n := n) bs T0 Tf *ᵥ α = stackZ (L.forward x0 u0) (L.forward xf uf)) :
    trajEval L bs α T0 = (x0, u0) ∧ trajEval L bs α Tf = (xf, uf) := by
  have h0 : trajFlag bs α (n + 1) T0 = L.forward x0 u0 := by
    funext i
    have := congrFun hsol (Fin.castAdd (n + 1) i)
    rw [stackM_mulVec_left] at this
    rw [trajFlag, this]
    exact Fin.append_left _ _ i
  have hf : trajFlag bs α (n + 1) Tf = L.forward xf uf := by
    funext i
    have := congrFun hsol (Fin.natAdd (n + 1) i)
    rw [stackM_mulVec_right] at this
    rw [trajFlag, this]
    exact Fin.append_right _ _ i
  exact ⟨by rw [trajEval, h0, flat_inverse_left L h hn], by rw [trajEval, hf, flat_inverse_left L h hn]⟩

/-- what `point_to_point` returns solves the stacked boundary system exactly (certified). -/
theorem p2p_solves {L : LinFlat n K} {bs : Basis K} {T0 Tf : K} {x0 : Fin n → K} {u0 : K}
    {xf : Fin n → K} {uf : K} {α : Fin bs.N → K}
    (h : p2p L bs T0 Tf x0 u0 xf uf = .ok α) :
    stackM (n := n) bs T0 Tf *ᵥ α = stackZ (L.forward x0 u0) (L.forward xf uf)
      ∧ 2 * (n + 1) ≤ bs.N ∧ bs.T ≠ 0 := by
  unfold p2p at h
  split at h
  · exact absurd h (by simp)
  · rename_i hN
    split at h
    · exact absurd h (by simp)
    · rename_i hT
      simp only at h
      split at h
      · rename_i hc
        have hα := Except.ok.inj h
        rw [← hα]
        exact ⟨hc, by omega, hT⟩
      · exact absurd h (by simp)

/-- a trajectory returned by `point_to_point` for a flat system returned by the constructor
starts at the requested state and input and ends at the requested ones. -/
theorem endpoints {A : Matrix (Fin n) (Fin n) K} {b : Fin n → K} {L : LinFlat n K}
    (hL : LinFlat.construct A b = .ok L) {bs : Basis K} {T0 Tf : K} {x0 : Fin n → K} {u0 : K}
    {xf : Fin n → K} {uf : K} {α : Fin bs.N → K}
    (h : p2p L bs T0 Tf x0 u0 xf uf = .ok α) :
    trajEval L bs α T0 = (x0, u0) ∧ trajEval L bs α Tf = (xf, uf) := by
  obtain ⟨hv, hn, -, -⟩ := construct_valid hL
  exact endpoints_of_solution L hv hn bs α T0 Tf x0 u0 xf uf (p2p_solves h).1

/-- non-vacuity: `point_to_point` succeeds on a concrete problem (order 2, Bezier basis with one
coefficient more than necessary, horizon 2). -/
example : (match LinFlat.construct (K := ℚ) !![1, 1; 0, 1] ![1, 2] with
    | .ok L => (match p2p L (.bezier 7 2) 0 2 ![1, 2] 3 ![0, 0] 0 with
      | .ok _ => true | .error _ => false)
    | .error _ => false) = true := by
  decide +kernel

/-- too few basis functions: `ValueError("basis set is too small")`. -/
theorem p2p_basis_too_small (L : LinFlat n K) (bs : Basis K) (T0 Tf : K) (x0 : Fin n → K) (u0 : K)
    (xf : Fin n → K) (uf : K) (h : bs.N < 2 * (n + 1)) :
    p2p L bs T0 Tf x0 u0 xf uf = .error (.py .badArg) := by
  simp [p2p, h]

/-! ### feasibility: the algebraic core -/

/-- for any flag `z` the dynamics evaluated at `reverse z` is `Tinv` applied to the shifted flag:
`A x + b u = Tinv (z₁, …, z_n)`.  Along a trajectory the flag at time `t` is
`(y(t), y'(t), …, y⁽ⁿ⁾(t))` and `x(t) = Tinv (y, …, y⁽ⁿ⁻¹⁾)`, so the right-hand side is `d/dt x(t)`. -/
theorem feasible_core (L : LinFlat n K) (h : L.Valid) (hn : 0 < n) (z : Fin (n + 1) → K) :
    L.A *ᵥ (L.reverse z).1 + (L.reverse z).2 • L.b = L.Tinv *ᵥ flagTail z := by
  have h1 := Valid.flagTail_forward h (L.reverse z).1 (L.reverse z).2
  rw [flat_inverse_right L h hn z] at h1
  rw [h1, mulVec_mulVec, Valid.inv_mul h, one_mulVec]

/-! ### basis families -/

/-- `eval_deriv(j, k, ·)` of the polynomial and Bezier families is a polynomial function of `t`
(for a non-zero scaling `T`), and the polynomial of `eval_deriv(j, k+1, ·)` is its derivative —
over every field of characteristic zero. -/
theorem basis_deriv [CharZero K] (bs : Basis K) (hT : bs.T ≠ 0) (j : Fin bs.N) (k : Nat) :
    (∀ t, Polynomial.eval t (bs.toPoly j k) = bs.evalD j k t) ∧
    Polynomial.derivative (bs.toPoly j k) = bs.toPoly j (k + 1) :=
  ⟨Basis.eval_toPoly bs hT j k, Basis.derivative_toPoly bs j k⟩

/-- over the reals: `eval_deriv(j, k+1, t)` is the derivative of `eval_deriv(j, k, ·)` at `t`. -/
theorem basis_deriv_real (bs : Basis ℝ) (hT : bs.T ≠ 0) (j : Fin bs.N) (k : Nat) (t : ℝ) :
    HasDerivAt (fun s => bs.evalD j k s) (bs.evalD j (k + 1) t) t := by
  have h := (bs.toPoly j k).hasDerivAt t
  rw [Basis.derivative_toPoly, Basis.eval_toPoly bs hT] at h
  simpa only [Basis.eval_toPoly bs hT] using h

/-- the raising branch of `BezierFamily.eval_deriv`, and agreement of `evalDeriv?` with `evalD`. -/
theorem evalDeriv_ok (bs : Basis K) (j : Fin bs.N) (k : Nat) (t : K) :
    bs.evalDeriv? j.val k t = .ok (bs.evalD j k t) := by
  cases bs with
  | poly N T => rfl
  | bezier N T =>
    have : ¬ N ≤ j.val := Nat.not_le.mpr j.isLt
    simp [Basis.evalDeriv?, Basis.evalD, this]

theorem bezier_index_too_high (N : Nat) (T : K) (i k : Nat) (t : K) (h : N ≤ i) :
    (Basis.bezier N T).evalDeriv? i k t = .error .badArg := by
  simp [Basis.evalDeriv?, h]

/-! ### feasibility -/

/-- along the evaluated trajectory every flag entry is differentiable in `t` with derivative the
next entry. -/
theorem trajFlag_hasDerivAt (bs : Basis ℝ) (hT : bs.T ≠ 0) (α : Fin bs.N → ℝ) (len : Nat)
    (k : Fin len) (t : ℝ) :
    HasDerivAt (fun s => trajFlag bs α len s k) (trajFlag bs α (len + 1) t k.succ) t := by
  simp only [trajFlag, mulVec, dotProduct, flagMatrix, Fin.val_succ]
  exact HasDerivAt.fun_sum fun j _ => (basis_deriv_real bs hT j k.val t).mul_const (α j)

/-- **feasibility.**  For a flat structure satisfying the chain-of-integrators equations, a
polynomial or Bezier basis and *any* coefficient vector, the state returned by
`SystemTrajectory.eval` is differentiable in `t` and its derivative is the system dynamics
`A x(t) + b u(t)` evaluated at the returned state and input — at every time `t`. -/
theorem feasible (L : LinFlat n ℝ) (h : L.Valid) (hn : 0 < n) (bs : Basis ℝ) (hT : bs.T ≠ 0)
    (α : Fin bs.N → ℝ) (t : ℝ) (i : Fin n) :
    HasDerivAt (fun s => (trajEval L bs α s).1 i)
      ((L.A *ᵥ (trajEval L bs α t).1 + (trajEval L bs α t).2 • L.b) i) t := by
  rw [trajEval, feasible_core L h hn]
  simp only [trajEval, reverse, mulVec, dotProduct, flagHead, flagTail]
  refine HasDerivAt.fun_sum fun l _ => HasDerivAt.const_mul (L.Tinv i l) ?_
  have := trajFlag_hasDerivAt bs hT α (n + 1) l.castSucc t
  have e : trajFlag bs α (n + 1 + 1) t l.castSucc.succ = trajFlag bs α (n + 1) t l.succ := by
    simp [trajFlag, mulVec, flagMatrix]
  rw [e] at this
  exact this

/-- non-vacuity of `feasible`: a valid structure over `ℝ`. -/
noncomputable def exR : LinFlat 2 ℝ where
  A := !![1, 1; 0, 1]
  b := ![1, 2]
  F := ![-1, 2]
  T := !![1/2, -1/4; 1/2, 1/4]
  Tinv := !![1, 1; -2, 2]
  Cf := ![1/2, -1/4]

example : exR.Valid := by
  refine ⟨?_, ?_, ?_, ?_, ?_⟩
  · ext i j; fin_cases i <;> fin_cases j <;> norm_num [exR, Matrix.mul_apply, Fin.sum_univ_two]
  · intro i l hi; fin_cases i <;> fin_cases l <;> simp_all [exR]
  · intro i j l h
    fin_cases i <;> fin_cases j <;> fin_cases l <;>
      simp_all [exR, vecMul, dotProduct, Fin.sum_univ_two]
    norm_num
  · intro i l h
    fin_cases i <;> fin_cases l <;> simp_all [exR, vecMul, dotProduct, Fin.sum_univ_two] <;> norm_num
  · intro i; fin_cases i <;> norm_num [exR, mulVec, dotProduct, Fin.sum_univ_two]

/-- feasibility of what `point_to_point` returns for a constructed flat system (over `ℝ`). -/
theorem feasible_p2p {A : Matrix (Fin n) (Fin n) ℝ} {b : Fin n → ℝ} {L : LinFlat n ℝ}
    (hL : LinFlat.construct A b = .ok L) {bs : Basis ℝ} {T0 Tf : ℝ} {x0 : Fin n → ℝ} {u0 : ℝ}
    {xf : Fin n → ℝ} {uf : ℝ} {α : Fin bs.N → ℝ}
    (hp : p2p L bs T0 Tf x0 u0 xf uf = .ok α) (t : ℝ) (i : Fin n) :
    HasDerivAt (fun s => (trajEval L bs α s).1 i)
      ((A *ᵥ (trajEval L bs α t).1 + (trajEval L bs α t).2 • b) i) t := by
  obtain ⟨hv, hn, hA, hb⟩ := construct_valid hL
  have := feasible L hv hn bs (p2p_solves hp).2.2 α t i
  rwa [hA, hb] at this

end CtrlVerif.C20
