/-
Source-text tie of C16 (system norms), umbrella.  The functions of `Generated/Norm*.lean` are
re-translated from control/sysnorm.py of the tree under check on every run
(harness/core/py2lean_norm.py, value model `Model/PyNorm.lean` + `Model/PyMat.lean`); the equality
theorems are in

* `Props/C16GenH2.lean`    `generated_psdTol_eq`, `generated_h2cont_eq`, `generated_h2disc_eq`,
                           **`generated_h2_eq`** (= `Norm.h2`), `generated_h2_cases_cont/_disc`, …
* `Props/C16GenHam.lean`   **`generated_hamilton_eq`** (= `Rmat`, `la.inv`, `hamiltonian`),
                           `generated_eigTest_eq`, `generated_hamiltonian_det`
* `Props/C16GenBil.lean`   **`generated_bilinear_eq`** (= `atOrigin`, `la.inv`, `invBilinear`),
                           `generated_inv_bilinear_resp`
* `Props/C16GenLoops.lean` `whileFuel_upper`, `whileFuel_bisect` (every fuel, invariant
                           `0 ≤ gaml`, `0 < gamu`), **`generated_linfCont_eq`** (= `linfLoops`),
                           `generated_bisection_invariant`, `generated_linf_within_tol`
* `Props/C16GenLinf.lean`  **`generated_linf_eq`** (= `Norm.linf`), the branch theorems,
                           `generated_linf_discrete_chain`

Here: the one place where the two branches of the source text disagree with each other — a system
with unspecified timebase (`dt = None`) is CONTINUOUS for `p = 2` (`G.isctime()` is asked first) and
DISCRETE for `p = 'inf'` (`G.isdtime()` is asked) — as theorems about the generated functions (the
hand-written model follows the code here, see notes/NOTES-C16.md).
-/
import CtrlVerif.Props.C16GenH2
import CtrlVerif.Props.C16GenLinf

namespace CtrlVerif.C16Gen

open Matrix CtrlVerif CtrlVerif.Norm

variable {K : Type} [Field K] [LinearOrder K]

/-- `dt = None`, `p = 2`: the continuous-time formulas (imaginary-axis / right-half-plane pole tests,
`lyap`, no `D Dᵀ` term). -/
theorem generated_h2_unspecified_timebase (lyap dlyap : PyNorm.LyapFun K) (eigvals : PMat K → List (Pole K))
    (sqrtEps : K) (fro : PMat K → K) (G : DSS K) (poles : List (Pole K)) (hdt : G.dt = .none) :
    Generated.normH2 lyap dlyap eigvals sqrtEps fro G poles
      = h2cont (h2Ext lyap dlyap eigvals sqrtEps fro G.n) G.sys poles :=
  generated_h2cont_eq lyap dlyap eigvals sqrtEps fro G poles (by rw [hdt]; rfl)

/-- `dt = None`, `p = 'inf'`: the discrete-time tests — a pole on the unit circle gives `inf`, whatever
the imaginary axis holds. -/
theorem generated_linf_unspecified_timebase [IsStrictOrderedRing K] (eigvals : PMat K → List (Pole K))
    (norm2 : PMat K → K) (fuel : Nat) (G : DSS K) (poles : List (Pole K)) (tol : K) (hdt : G.dt = .none)
    (h : onCircle poles = true) :
    Generated.normLinf eigvals norm2 fuel G poles tol = .ok .inf :=
  generated_linf_boundary_disc eigvals norm2 fuel G poles tol (by rw [hdt]; rfl) h

-- non-vacuity: the integrator `A = 0` with `dt = None` and the pole list `[1]`
example : Generated.normLinf (fun _ => [(⟨1, 0⟩ : Pole ℚ)]) (fun _ => 0) 3
    ⟨1, 1, 1, ⟨!![1], !![1], !![1], !![0]⟩, .none⟩ [⟨1, 0⟩] (1/8) = .ok .inf :=
  generated_linf_unspecified_timebase _ _ _ _ _ _ rfl (by simp [onCircle, Pole.absSq])

end CtrlVerif.C16Gen
