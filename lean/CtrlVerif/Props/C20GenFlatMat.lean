/-
Source-text tie of C20, part 3: `BasisFamily.var_ncoefs` (control/flatsys/basis.py) and
`_basis_flag_matrix` (control/flatsys/flatsys.py).
-/
import CtrlVerif.Generated.FlatFlagMatrix
import CtrlVerif.Lemmas.PyFlat
import CtrlVerif.Lemmas.FlatMulti
import CtrlVerif.Lemmas.PyCanon
import CtrlVerif.Props.C20Gen

namespace CtrlVerif.C20GenFlat

open Matrix CtrlVerif PyFlat

variable {K : Type} [Field K] [DecidableEq K]

/-- `basis.var_ncoefs(i)` of a `PolyFamily` / `BezierFamily` object is `N`, for every `i`. -/
theorem generated_varNcoefs_eq (bs : Basis K) (i : Int) : Generated.basisVarNcoefs bs i = .ok bs.N := by
  cases bs <;> rfl

/-- an array whose entries are given by a function of the two positions. -/
def natMat (R C : Nat) (F : Nat → Nat → K) : PMat K := ⟨R, C, Matrix.of fun i j => F i.val j.val⟩

theorem setItem_natMat (R C : Nat) (F : Nat → Nat → K) (a b : Nat) (ha : a < R) (hb : b < C) (v : K) :
    PyCanon.setItem (natMat R C F) (a : Int) (b : Int) v
      = .ok (natMat R C fun r c => if r = a ∧ c = b then v else F r c) := by
  unfold natMat
  rw [PyCanon.setItem_nonneg _ _ _ _ _ _ (by omega) (by omega) (by omega) (by omega)]
  simp only [Int.toNat_natCast]
  rfl

section ordered

variable [LinearOrder K] [IsStrictOrderedRing K]

theorem basisEvalDeriv_ok (bs : Basis K) (hT : bs.T ≠ 0) (j k : Nat) (hj : j < bs.N) (t : K) :
    Generated.basisEvalDeriv bs (j : Int) (k : Int) t = .ok (bs.evalDN j k t) := by
  have h1 : Generated.basisEvalDeriv bs (j : Int) (k : Int) t = C20Gen.genEvalDeriv bs j k t := by
    cases bs <;> rfl
  rw [h1, C20Gen.generated_evalDeriv_eq bs hT, C20.evalDeriv_ok bs ⟨j, hj⟩ k t]
  simp [Basis.evalDN, hj]

/-- the block of flat output `i` while it is being written: `J` complete columns and the first `k` rows of
column `J`. -/
def fill (bs : Basis K) (t : K) (F : Nat → Nat → K) (fo l co J k : Nat) : Nat → Nat → K :=
  fun r c => if fo ≤ r ∧ r < fo + l ∧ co ≤ c ∧ (c < co + J ∨ (c = co + J ∧ r < fo + k))
    then bs.evalDN (c - co) (r - fo) t else F r c

/-- the body of the inner loop of `_basis_flag_matrix` (`flag_off`, `coef_off` fixed):
`M[flag_off + k, coef_off + j] = basis.eval_deriv(j, k, t, var=i)`. -/
def flagInnerStep (bs : Basis K) (t : K) (fo co : Int) (M : PMat K) (t5 : Int × Int) : Except Err (PMat K) :=
  (Generated.basisEvalDeriv bs t5.1 t5.2 t).bind fun t6 =>
    PyCanon.setItem M (fo + t5.2) (co + t5.1) t6

/-- the body of the outer loop: the state is `(M, flag_off, coef_off)`, the element `(i, flag_len)`. -/
def flagStep (bs : Basis K) (t : K) (t4 : PMat K × Int × Int) (t3 : Int × Int) : Except Err (PMat K × Int × Int) :=
  (Generated.basisVarNcoefs bs t3.1).bind fun coef_len =>
    (List.foldlM (flagInnerStep bs t t4.2.1 t4.2.2) t4.1
      (PyFlat.product (PyArith.range 0 (coef_len : Int)) (PyArith.range 0 t3.2))).bind fun M =>
      pure (M, t4.2.1 + t3.2, t4.2.2 + (coef_len : Int))

/-- the inner loop writes one block. -/
theorem flag_inner (bs : Basis K) (hT : bs.T ≠ 0) (t : K) (R C : Nat) (F : Nat → Nat → K) (fo l co : Nat)
    (hR : fo + l ≤ R) (hC : co + bs.N ≤ C) :
    List.foldlM (flagInnerStep bs t (fo : Int) (co : Int))
      (natMat R C F) (PyFlat.product (PyArith.range 0 (bs.N : Int)) (PyArith.range 0 (l : Int)))
      = .ok (natMat R C fun r c => if fo ≤ r ∧ r < fo + l ∧ co ≤ c ∧ c < co + bs.N
          then bs.evalDN (c - co) (r - fo) t else F r c) := by
  have h0 : natMat R C F = natMat R C (fill bs t F fo l co 0 0) := by
    congr 1
    funext r c
    have : ¬ (fo ≤ r ∧ r < fo + l ∧ co ≤ c ∧ (c < co + 0 ∨ (c = co + 0 ∧ r < fo + 0))) := by omega
    simp only [fill, this, if_false]
  have hN : (natMat R C fun r c => if fo ≤ r ∧ r < fo + l ∧ co ≤ c ∧ c < co + bs.N
      then bs.evalDN (c - co) (r - fo) t else F r c) = natMat R C (fill bs t F fo l co bs.N 0) := by
    congr 1
    funext r c
    have : (fo ≤ r ∧ r < fo + l ∧ co ≤ c ∧ (c < co + bs.N ∨ (c = co + bs.N ∧ r < fo + 0)))
        ↔ (fo ≤ r ∧ r < fo + l ∧ co ≤ c ∧ c < co + bs.N) := by omega
    simp only [fill, this]
  rw [h0, hN]
  apply foldlM_product_stages (P := fun J k => natMat R C (fill bs t F fo l co J k))
  · intro J _
    show natMat R C (fill bs t F fo l co J l) = natMat R C (fill bs t F fo l co (J + 1) 0)
    congr 1
    funext r c
    have : (fo ≤ r ∧ r < fo + l ∧ co ≤ c ∧ (c < co + J ∨ (c = co + J ∧ r < fo + l)))
        ↔ (fo ≤ r ∧ r < fo + l ∧ co ≤ c ∧ (c < co + (J + 1) ∨ (c = co + (J + 1) ∧ r < fo + 0))) := by omega
    simp only [fill, this]
  · intro J k hJ hk
    have e1 : (fo : Int) + (k : Int) = ((fo + k : Nat) : Int) := by push_cast; rfl
    have e2 : (co : Int) + (J : Int) = ((co + J : Nat) : Int) := by push_cast; rfl
    simp only [flagInnerStep, basisEvalDeriv_ok bs hT J k hJ t, Except.bind, e1, e2,
      setItem_natMat R C _ (fo + k) (co + J) (by omega) (by omega), pure, Except.pure]
    congr 2
    funext r c
    simp only [fill]
    by_cases h : r = fo + k ∧ c = co + J
    · obtain ⟨rfl, rfl⟩ := h
      have h1 : fo ≤ fo + k ∧ fo + k < fo + l ∧ co ≤ co + J
          ∧ (co + J < co + J ∨ (co + J = co + J ∧ fo + k < fo + (k + 1))) := by omega
      rw [if_pos ⟨rfl, rfl⟩, if_pos h1]
      simp only [Nat.add_sub_cancel_left]
    · have : (fo ≤ r ∧ r < fo + l ∧ co ≤ c ∧ (c < co + J ∨ (c = co + J ∧ r < fo + (k + 1))))
          ↔ (fo ≤ r ∧ r < fo + l ∧ co ≤ c ∧ (c < co + J ∨ (c = co + J ∧ r < fo + k))) := by omega
      simp only [h, if_false, this]

/-- one pass of the outer loop: a block at the running offsets, both offsets advanced. -/
theorem flagStep_apply (bs : Basis K) (hT : bs.T ≠ 0) (t : K) (R C : Nat) (F : Nat → Nat → K) (fo l co : Nat)
    (i : Int) (hR : fo + l ≤ R) (hC : co + bs.N ≤ C) :
    flagStep bs t (natMat R C F, (fo : Int), (co : Int)) (i, (l : Int))
      = .ok (natMat R C (fun r c => if fo ≤ r ∧ r < fo + l ∧ co ≤ c ∧ c < co + bs.N
          then bs.evalDN (c - co) (r - fo) t else F r c), ((fo + l : Nat) : Int), ((co + bs.N : Nat) : Int)) := by
  unfold flagStep
  simp only [generated_varNcoefs_eq, Except.ok_bind']
  rw [flag_inner bs hT t R C F fo l co hR hC]
  simp only [Except.ok_bind', pure, Except.pure]
  push_cast
  rfl

/-- the outer loop of `_basis_flag_matrix` over the flag lengths `ls` (positions counted from `k0`) is the
model's `flagLoop`. -/
theorem flag_outer (bs : Basis K) (hT : bs.T ≠ 0) (t : K) (R C : Nat) :
    ∀ (ls : List Nat) (k0 : Nat) (F : Nat → Nat → K) (fo co : Nat),
      fo + ls.sum ≤ R → co + ls.length * bs.N ≤ C →
      List.foldlM (flagStep bs t) (natMat R C F, (fo : Int), (co : Int))
        ((ls.zipIdx k0).map fun p => ((p.2 : Int), (p.1 : Int)))
        = .ok (natMat R C (flagLoop bs t ls fo co F), ((fo + ls.sum : Nat) : Int), ((co + ls.length * bs.N : Nat) : Int))
  | [], k0, F, fo, co, _, _ => by
    simp [flagLoop, pure, Except.pure]
  | l :: ls, k0, F, fo, co, hR, hC => by
    simp only [List.sum_cons, List.length_cons] at hR hC
    have hC' : co + bs.N + ls.length * bs.N ≤ C := by
      have : (ls.length + 1) * bs.N = ls.length * bs.N + bs.N := Nat.succ_mul _ _
      omega
    rw [List.zipIdx_cons, List.map_cons, List.foldlM_cons, flagStep_apply bs hT t R C F fo l co _ (by omega) (by omega)]
    simp only [bind, Except.ok_bind']
    rw [flag_outer bs hT t R C ls (k0 + 1) _ (fo + l) (co + bs.N) (by omega) hC', flagLoop]
    congr 3
    · simp only [List.sum_cons]; push_cast; ring
    · simp only [List.length_cons, Nat.succ_mul]; push_cast; ring

/-- the function the source text defines, with the two loop bodies named. -/
theorem basisFlagMatrix_unfold (m : Nat) (bs : Basis K) (flag : List (List K)) (t : K) :
    Generated.basisFlagMatrix m bs flag t
      = (List.mapM (fun (i : Int) => (Generated.basisVarNcoefs bs i).bind fun t1 => pure (t1 : Int))
          (PyArith.range 0 (m : Int))).bind fun t2 =>
        (PMat.zerosI (List.sum (List.map (fun (f : List K) => (f.length : Int)) flag)) (List.sum t2)).bind fun M =>
        (List.foldlM (flagStep bs t) (M, (0 : Int), (0 : Int))
          (PyFlat.enumerate (List.map (fun (f : List K) => (f.length : Int)) flag))).bind fun r => pure r.1 := rfl

/-- **`_basis_flag_matrix` as written in the source is the model's `flagMatrixM`**: for every number of
flat outputs, every list of flag lengths (`flag` has one array per flat output, `len i` entries in
the `i`-th), both basis families with `T ≠ 0`, every time `t`. -/
theorem generated_basisFlagMatrix_eq {m : Nat} (bs : Basis K) (hT : bs.T ≠ 0) (len : Fin m → Nat)
    (flag : List (List K)) (hflag : flag.map List.length = List.ofFn len) (t : K) :
    Generated.basisFlagMatrix m bs flag t = .ok ⟨∑ i, len i, m * bs.N, flagMatrixM bs len t⟩ := by
  have hshape : List.map (fun f : List K => (f.length : Int)) flag
      = (List.ofFn len).map (fun n : Nat => (n : Int)) := by
    rw [← hflag, List.map_map]
    rfl
  have hsum1 : ((List.ofFn len).map (fun n : Nat => (n : Int))).sum = ((∑ i, len i : Nat) : Int) := by
    rw [← List.sum_ofFn]
    induction (List.ofFn len) with
    | nil => rfl
    | cons a l ih => simp only [List.map_cons, List.sum_cons, ih]; push_cast; rfl
  have hmap : List.mapM (fun (i : Int) => (Generated.basisVarNcoefs bs i).bind fun t1 => pure (t1 : Int))
      (PyArith.range 0 (m : Int)) = .ok ((PyArith.range 0 (m : Int)).map fun _ => (bs.N : Int)) :=
    mapM_ok_of_forall _ _ (fun i => by rw [generated_varNcoefs_eq]; rfl) _
  have hsum2 : ((PyArith.range 0 (m : Int)).map fun _ => (bs.N : Int)).sum = ((m * bs.N : Nat) : Int) := by
    have h : ∀ l : List Int, (l.map fun _ => (bs.N : Int)).sum = (l.length : Int) * bs.N := by
      intro l
      induction l with
      | nil => simp
      | cons a l ih => simp only [List.map_cons, List.sum_cons, ih, List.length_cons]; push_cast; ring
    rw [h]
    simp [PyArith.range]
  have henum : PyFlat.enumerate ((List.ofFn len).map (fun n : Nat => (n : Int)))
      = ((List.ofFn len).zipIdx 0).map fun p => ((p.2 : Int), (p.1 : Int)) := by
    unfold PyFlat.enumerate
    rw [List.zipIdx_map, List.map_map]
    rfl
  rw [basisFlagMatrix_unfold, hmap, hshape, hsum1]
  simp only [Except.ok_bind', hsum2, PMat.zerosI_natCast, henum]
  have hloop := flag_outer bs hT t (∑ i, len i) (m * bs.N) (List.ofFn len) 0 (fun _ _ => 0) 0 0
    (by rw [List.sum_ofFn]; omega) (by simp)
  show (List.foldlM (flagStep bs t) (natMat (∑ i, len i) (m * bs.N) (fun _ _ => 0), ((0 : Nat) : Int), ((0 : Nat) : Int))
    _).bind _ = _
  rw [hloop]
  rfl

/-- one flat output (a `LinearFlatSystem`): the flag matrix of `Model/Flat.lean`. -/
theorem generated_basisFlagMatrix_siso (bs : Basis K) (hT : bs.T ≠ 0) {l : Nat} (z : Fin l → K) (t : K) :
    Generated.basisFlagMatrix 1 bs [List.ofFn z] t = .ok ⟨l, bs.N, flagMatrix bs l t⟩ := by
  rw [generated_basisFlagMatrix_eq bs hT (fun _ : Fin 1 => l) [List.ofFn z] (by simp) t]
  congr 1
  refine PMat.ext' (by simp) (by simp) ?_
  ext r c
  have h := flagMatrixM_entry bs (fun _ : Fin 1 => l) t 0 r 0 c
  rw [if_pos rfl] at h
  simp only [PMat.retype, Matrix.submatrix_apply, flagMatrix]
  rw [← h]
  congr 1
  · apply Fin.ext
    rw [rowIdx_val]
    simp

end ordered

/-! non-vacuity (ℚ): two flat outputs with flags of length 2 and 1, three monomials each: the generated
function returns a `3 × 6` array -/
example : ∃ X, Generated.basisFlagMatrix 2 (.poly 3 (1 : ℚ)) [[0, 0], [0]] 2 = .ok X ∧ X.r = 3 ∧ X.c = 6 :=
  ⟨_, generated_basisFlagMatrix_eq (.poly 3 1) (by decide) ![2, 1] _ (by decide) 2, by decide, by decide⟩

end CtrlVerif.C20GenFlat
