/-
Source-text tie of C01 (DESIGN §10.3, notes/NOTES-py2lean-tf.md), part 6: the core of the
`TransferFunction` constructor.

`Generated/TFCtor.lean` is rewritten on every run from control/xferfcn.py of the tree under check by
`harness/core/py2lean_tf.py`:

* `initChecks` — ONE statement of `TransferFunction.__init__`, the loop `for i in range(self.noutputs):`
  (for every entry: scan the denominator, `raise ValueError("… zero denominator")` if it is all zeros;
  scan the numerator, replace the denominator by `ones(1)` if the numerator is all zeros), as a function
  of the arrays `num`, `den` it works on (its result: the arrays afterwards).  The rest of `__init__`
  (argument processing, `_clean_part`, names, timebase, shape checks) is outside this tie.
* `truncatecoeff` — `_truncatecoeff` (for both arrays and every entry: scan for the first non-zero
  coefficient with `break`, then `zeros(1)` or the slice `[nonzero:]`), as a function of the four fields of
  `self` it reads; its result is what it stores into `self.num_array, self.den_array`.

Theorems, for arrays of any shape with arbitrary coefficient lists over any field:
`generated_truncatecoeff_eq` (every entry becomes `trim`), `generated_initChecks_eq` (raises `zeroDen`
iff some denominator is all zeros, else denominators of zero numerators become `[1]`), and
`generated_ctor_core_eq`: run one after the other — as the constructor does — they compute exactly the
model's constructor `TFM.mk'` (`Frac.norm`), the function every operator theorem of `Props/C01.lean`
ends in and that `Model/PyTF.lean` uses as the meaning of `TransferFunction(num, den, dt)`
(`generated_ctor_mkTF`).
-/
import CtrlVerif.Generated.TFCtor
import CtrlVerif.Lemmas.C01GenCtor
import CtrlVerif.Props.C01

namespace CtrlVerif.C01Gen
open CtrlVerif

variable {K : Type} [Field K] [DecidableEq K]

theorem generated_truncatecoeff_eq (p m : Nat) (a b : Nat → Nat → List K) :
    Generated.TF.truncatecoeff (tabArr p m a) (tabArr p m b) (p : Int) (m : Int)
      = .ok (tabArr p m (fun r c => trim (a r c)), tabArr p m (fun r c => trim (b r c))) := by
  unfold Generated.TF.truncatecoeff
  dsimp only
  rw [show ([tabArr p m a, tabArr p m b] : List (PyTF.PolyArr K)).length = 2 from rfl]
  let x : Nat → Nat → Nat → List K := fun k => if k = 0 then a else b
  let F : Nat → List (PyTF.PolyArr K) := fun k =>
    [if 0 < k then tabArr p m (fun r c => trim (a r c)) else tabArr p m a,
     if 1 < k then tabArr p m (fun r c => trim (b r c)) else tabArr p m b]
  rw [PyTF.foldlM_range_eq 2 _ F _ (by simp [F])]
  · rfl
  · intro k hk
    have hlen : k < (F k).length := by simp [F]; omega
    have hget : (F k)[k] = tabArr p m (x k) := by
      interval_cases k <;> simp [F, x]
    have hnext : F (k + 1) = (F k).set k (tabArr p m (fun r c => trim (x k r c))) := by
      interval_cases k <;> simp [F, x]
    rw [hnext]
    generalize F k = data at hlen hget ⊢
    generalize x k = xk at hget ⊢
    clear hnext
    let X : PyTF.PolyArr K := tabArr p m xk
    let t : Nat → Nat → List K := fun r c => trim (xk r c)
    have hset0 : data.set k X = data := by
      show data.set k (tabArr p m xk) = data
      rw [← hget]; exact List.set_getElem_self hlen
    rw [PyTF.foldlM_range_eq p _ (fun i => data.set k (PyTF.fillTo X t i 0)) _
      (by rw [PyTF.fillTo_zero, hset0])]
    · rw [fillTo_tabArr_full]
    · intro i hi
      rw [PyTF.foldlM_range_eq m _ (fun j => data.set k (PyTF.fillTo X t i j)) _ rfl]
      · rw [show PyTF.fillTo X t i m = PyTF.fillTo X t (i + 1) 0 from PyTF.fillTo_row_end X t i]
      · intro j hj
        have hk' : k < (data.set k (PyTF.fillTo X t i j)).length := by simpa using hlen
        have hD : PyArith.getItem (data.set k (PyTF.fillTo X t i j)) (k : Int)
            = .ok (PyTF.fillTo X t i j) := PyTF.getItem_set_self data hlen _
        have hv : (PyTF.fillTo X t i j).getItem (i : Int) (j : Int) = .ok (xk i j) :=
          PyTF.PolyArr.getItem_nat _ hi hj (by rw [PyTF.fillTo_get_here]; exact tabArr_get p m xk hi hj)
        simp only [hD, hv, PyArith.ok_bind]
        generalize hvv : xk i j = v
        have ht : t i j = trim v := by simp only [t, hvv]
        rw [PyTF.foldlM_range_eq v.length _ (nzState v) _ (by simp [nzState])]
        · -- after the scan
          rw [PyArith.ok_bind]
          have hfin : ∀ w, w = trim v →
              (do let t12 ← (PyTF.fillTo X t i j).setItem (i : Int) (j : Int) w
                  PyArith.setItem (data.set k (PyTF.fillTo X t i j)) (k : Int) t12)
                = Except.ok (data.set k (PyTF.fillTo X t i (j + 1))) := by
            intro w hw
            rw [hw, ← ht, PyTF.fillTo_setItem X t hi hj, PyArith.ok_bind,
              PyArith.setItem_nat _ hk', List.set_set]
          by_cases hz : lz v < v.length
          · simp only [nzState, hz, if_true]
            exact hfin _ (by rw [sliceFrom_nat, trim_not_all_zero v hz])
          · simp only [nzState, hz, if_false]
            exact hfin _ (trim_all_zero v (by have := lz_le v; omega)).symm
        · intro k' hk'
          by_cases hb : lz v < k'
          · have hb' : lz v < k' + 1 := by omega
            simp only [nzState, hb, hb', if_true]
            rfl
          · simp only [nzState, hb, if_false, Bool.false_eq_true]
            rw [PyArith.getItem_nat v hk', PyArith.ok_bind]
            by_cases hne : v[k'] ≠ 0
            · have e : lz v = k' := (ne_zero_iff_lz v (by omega) hk').mp hne
              have hb' : lz v < k' + 1 := by omega
              simp only [hne, if_true, e, ne_eq, not_false_eq_true, Nat.lt_succ_self]
              rfl
            · have e : ¬ lz v = k' := fun h => hne ((ne_zero_iff_lz v (by omega) hk').mpr h)
              have hb' : ¬ lz v < k' + 1 := by omega
              simp only [hne, hb', if_false]
              rfl

theorem generated_initChecks_eq (p m : Nat) (a b : Nat → Nat → List K) :
    Generated.TF.initChecks (p : Int) (m : Int) (tabArr p m a) (tabArr p m b)
      = if ∃ r, r < p ∧ ∃ c, c < m ∧ isZero (b r c) = true then .error .zeroDen
        else .ok (tabArr p m a,
          tabArr p m (fun r c => if isZero (a r c) = true then [1] else b r c)) := by
  unfold Generated.TF.initChecks
  dsimp only
  let D : PyTF.PolyArr K := tabArr p m b
  let d' : Nat → Nat → List K := fun r c => if isZero (a r c) = true then [1] else b r c
  refine PyTF.foldlM_range_inv_err_bind p _ (fun i s => s = PyTF.fillTo D d' i 0)
    (fun i => ∃ c, c < m ∧ isZero (b i c) = true) .zeroDen _ _ (fun x => x = _)
    (PyTF.fillTo_zero D d').symm ?hstep ?hok ?herr
  case hok =>
    intro s hs hno
    have hc : ¬ ∃ r, r < p ∧ ∃ c, c < m ∧ isZero (b r c) = true := by
      rintro ⟨r, hr, hE⟩; exact hno r hr hE
    rw [if_neg hc, hs, fillTo_tabArr_full]
    rfl
  case herr =>
    rintro ⟨i, hi, hE⟩
    rw [if_pos ⟨i, hi, hE⟩]
  case hstep =>
    intro i hi s hs
    subst hs
    refine PyTF.foldlM_range_inv_err m _ (fun j s => s = PyTF.fillTo D d' i j)
      (fun j => isZero (b i j) = true) .zeroDen _
      (fun x => (∃ s', x = .ok s' ∧ s' = PyTF.fillTo D d' (i + 1) 0 ∧
          ¬ ∃ c, c < m ∧ isZero (b i c) = true) ∨
        (x = .error .zeroDen ∧ ∃ c, c < m ∧ isZero (b i c) = true)) rfl ?jstep ?jok ?jerr
    case jok =>
      intro s hs hno
      refine Or.inl ⟨s, rfl, ?_, ?_⟩
      · rw [hs]; exact PyTF.fillTo_row_end D d' i
      · rintro ⟨c, hc, hE⟩; exact hno c hc hE
    case jerr =>
      intro h
      exact Or.inr ⟨rfl, h⟩
    case jstep =>
      intro j hj s hs
      subst hs
      have hden : (PyTF.fillTo D d' i j).getItem (i : Int) (j : Int) = .ok (b i j) :=
        PyTF.PolyArr.getItem_nat _ hi hj (by rw [PyTF.fillTo_get_here]; exact tabArr_get p m b hi hj)
      have hnum : (tabArr p m a).getItem (i : Int) (j : Int) = .ok (a i j) :=
        PyTF.PolyArr.getItem_nat _ hi hj (tabArr_get p m a hi hj)
      simp only [hden, hnum, PyArith.ok_bind]
      -- the scan `for k in v: if np.any(k): flag = False; break` computes `isZero v`
      have scanStep : ∀ (V : List K) (k : Nat) (hk : k < V.length),
          (if (isZero (V.take k), !isZero (V.take k)).2 = true then
              (pure ((isZero (V.take k), !isZero (V.take k)).1, (isZero (V.take k), !isZero (V.take k)).2)
                : Except Err (Bool × Bool))
            else if V[k] ≠ 0 then pure (false, true)
            else pure ((isZero (V.take k), !isZero (V.take k)).1, (isZero (V.take k), !isZero (V.take k)).2))
          = .ok (isZero (V.take (k + 1)), !isZero (V.take (k + 1))) := by
        intro V k hk
        dsimp only
        by_cases hz : isZero (List.take k V) = true
        · simp only [hz, Bool.not_true, Bool.false_eq_true, if_false, isZero_take_succ V hk,
            Bool.true_and]
          by_cases hv : V[k] = 0
          · simp [hv]; rfl
          · simp [hv]; rfl
        · have hz' : isZero (List.take k V) = false := by simpa using hz
          simp only [hz', Bool.not_false, if_true, isZero_take_succ V hk, Bool.false_and]
          rfl
      rw [PyTF.foldlM_list_eq (b i j) _
        (fun k => (isZero ((b i j).take k), !isZero ((b i j).take k))) _ (by simp [isZero])
        (fun k hk => scanStep (b i j) k hk)]
      rw [List.take_length, PyArith.ok_bind]
      dsimp only
      by_cases hzd : isZero (b i j) = true
      · rw [if_pos hzd]
        exact Or.inr ⟨rfl, hzd⟩
      · rw [if_neg hzd]
        refine Or.inl ?_
        rw [PyTF.foldlM_list_eq (a i j) _
          (fun k => (isZero ((a i j).take k), !isZero ((a i j).take k))) _ (by simp [isZero])
          (fun k hk => scanStep (a i j) k hk)]
        rw [List.take_length, PyArith.ok_bind]
        dsimp only
        by_cases hzn : isZero (a i j) = true
        · rw [if_pos hzn]
          have hd' : d' i j = [1] := by simp [d', hzn]
          rw [← hd', PyTF.fillTo_setItem D d' hi hj]
          exact ⟨_, rfl, rfl, hzd⟩
        · rw [if_neg hzn]
          have hd' : d' i j = b i j := by simp [d', hzn]
          refine ⟨_, rfl, ?_, hzd⟩
          exact (fillTo_succ_same D d' hi hj (by rw [hd']; exact tabArr_get p m b hi hj)).symm

/-- **the core of the constructor as the source text writes it is the model's constructor**: for the
object under construction `S` (any shape, any coefficient lists, not yet normalised), the zero checks
of `__init__` followed by `_truncatecoeff` raise `zeroDen` exactly when `TFM.mk'` does, and otherwise
leave exactly the arrays of the system `TFM.mk'` returns. -/
theorem generated_ctor_core_eq (p m : Nat) (raw : Fin p → Fin m → Frac K) (dt : Dt) :
    (do let r ← Generated.TF.initChecks (p : Int) (m : Int)
                  (PyTF.numArray ⟨p, m, ⟨raw⟩, dt⟩) (PyTF.denArray ⟨p, m, ⟨raw⟩, dt⟩)
        Generated.TF.truncatecoeff r.1 r.2 (p : Int) (m : Int))
      = (do let s ← TFM.mk' raw
            pure (PyTF.numArray ⟨p, m, s, dt⟩, PyTF.denArray ⟨p, m, s, dt⟩)) := by
  let S : DTF K := ⟨p, m, ⟨raw⟩, dt⟩
  rw [numArray_eq_tabArr S, denArray_eq_tabArr S]
  show (do let r ← Generated.TF.initChecks (p : Int) (m : Int)
                  (tabArr p m fun r c => (entryD S r c).num) (tabArr p m fun r c => (entryD S r c).den)
           Generated.TF.truncatecoeff r.1 r.2 (p : Int) (m : Int)) = _
  rw [generated_initChecks_eq]
  unfold TFM.mk'
  by_cases hz : ∃ i j, isZero (raw i j).den = true
  · obtain ⟨i, j, hij⟩ := hz
    have hc : ∃ r, r < p ∧ ∃ c, c < m ∧ isZero (entryD S r c).den = true :=
      ⟨i, i.isLt, j, j.isLt, by rw [entryD_lt S i.isLt j.isLt]; exact hij⟩
    rw [if_pos hc, if_pos ⟨i, j, hij⟩]
    rfl
  · have hc : ¬ ∃ r, r < p ∧ ∃ c, c < m ∧ isZero (entryD S r c).den = true := by
      rintro ⟨r, hr, c, hc, h⟩
      exact hz ⟨⟨r, hr⟩, ⟨c, hc⟩, by rw [entryD_lt S hr hc] at h; exact h⟩
    rw [if_neg hc, if_neg hz, PyArith.ok_bind, PyArith.ok_bind]
    dsimp only
    rw [generated_truncatecoeff_eq]
    let S' : DTF K := ⟨p, m, ⟨fun i j => (raw i j).norm⟩, dt⟩
    rw [numArray_eq_tabArr S', denArray_eq_tabArr S']
    have e : ∀ r c, r < p → c < m → entryD S' r c = (entryD S r c).norm := by
      intro r c hr hc
      rw [entryD_lt S' hr hc, entryD_lt S hr hc]
    congr 2
    · apply PyTF.PolyArr.ext'
      · rfl
      · rfl
      intro r c
      simp only [tabArr]
      have hp' : S'.p = p := rfl
      have hm' : S'.m = m := rfl
      by_cases h : r < p ∧ c < m
      · simp only [hp', hm', h, and_self, if_true, e r c h.1 h.2, norm_two_pass]
      · simp only [hp', hm', h, if_false]
    · apply PyTF.PolyArr.ext'
      · rfl
      · rfl
      intro r c
      simp only [tabArr]
      have hp' : S'.p = p := rfl
      have hm' : S'.m = m := rfl
      by_cases h : r < p ∧ c < m
      · simp only [hp', hm', h, and_self, if_true, e r c h.1 h.2, norm_two_pass]
      · simp only [hp', hm', h, if_false]

/-- hence the trusted meaning of `TransferFunction(num, den, dt)` (`PyTF.mkTF`) is what the source
text of the constructor's core computes. -/
theorem generated_ctor_mkTF (p m : Nat) (raw : Fin p → Fin m → Frac K) (dt : Dt) :
    (do let R ← PyTF.mkTF (PyTF.numArray ⟨p, m, ⟨raw⟩, dt⟩) (PyTF.denArray ⟨p, m, ⟨raw⟩, dt⟩) dt
        pure (PyTF.numArray R, PyTF.denArray R))
      = (do let r ← Generated.TF.initChecks (p : Int) (m : Int)
                  (PyTF.numArray ⟨p, m, ⟨raw⟩, dt⟩) (PyTF.denArray ⟨p, m, ⟨raw⟩, dt⟩)
            Generated.TF.truncatecoeff r.1 r.2 (p : Int) (m : Int)) := by
  rw [generated_ctor_core_eq]
  let S : DTF K := ⟨p, m, ⟨raw⟩, dt⟩
  rw [PyTF.mkTF_of_get (PyTF.numArray S) (PyTF.denArray S) dt raw rfl rfl]
  · change ((TFM.mk' raw >>= fun s => (pure ⟨p, m, s, dt⟩ : Except Err (DTF K))) >>=
      fun R => pure (PyTF.numArray R, PyTF.denArray R)) = _
    cases TFM.mk' raw <;> rfl
  · intro (i : Fin p) (j : Fin m)
    simp [PyTF.numArray, S, PyTF.entry?_lt (⟨p, m, ⟨raw⟩, dt⟩ : DTF K) i.isLt j.isLt]
  · intro (i : Fin p) (j : Fin m)
    simp [PyTF.denArray, S, PyTF.entry?_lt (⟨p, m, ⟨raw⟩, dt⟩ : DTF K) i.isLt j.isLt]

/-! non-vacuity: `[0, 0, 1, 2] / [0, 3, 1]` is normalised to `[1, 2] / [3, 1]`, a zero numerator gets
the denominator `[1]`, a zero denominator raises. -/

example : Generated.TF.truncatecoeff (tabArr 1 1 fun _ _ => ([0, 0, 1, 2] : List ℚ))
    (tabArr 1 1 fun _ _ => ([0, 3, 1] : List ℚ)) 1 1
    = .ok (tabArr 1 1 fun _ _ => [1, 2], tabArr 1 1 fun _ _ => [3, 1]) := by
  have h := generated_truncatecoeff_eq (K := ℚ) 1 1 (fun _ _ => [0, 0, 1, 2]) (fun _ _ => [0, 3, 1])
  have e1 : trim ([0, 0, 1, 2] : List ℚ) = [1, 2] := by decide
  have e2 : trim ([0, 3, 1] : List ℚ) = [3, 1] := by decide
  simpa [e1, e2] using h

example : Generated.TF.initChecks 1 1 (tabArr 1 1 fun _ _ => ([1] : List ℚ))
    (tabArr 1 1 fun _ _ => ([0, 0] : List ℚ)) = .error .zeroDen := by
  have h := generated_initChecks_eq (K := ℚ) 1 1 (fun _ _ => [1]) (fun _ _ => [0, 0])
  have c : ∃ r, r < 1 ∧ ∃ c, c < 1 ∧ isZero ([0, 0] : List ℚ) = true := ⟨0, by omega, 0, by omega, by decide⟩
  rw [if_pos c] at h
  exact_mod_cast h

end CtrlVerif.C01Gen
