/-
Source-text tie of C06, part 3: the discrete-time branch of `forced_response` - the shift of the time
vector, the two sampling-time checks, `n_samples`, the sample-count work-around (repairs 788f86e,
69fa8d6: `if floor(spT[-1] / sys_dt) + 1 < n_samples: spT[-1] = ...; while ...: nextafter`), the call
of `scipy.signal.dlsim`, `inc = int(round(dt / sys_dt))`, the decimation `[::inc]` and the final
transpositions.  `Generated/TimeRespDisc.lean` is rewritten from control/timeresp.py on every run
(harness/core/py2lean_tr.py), once per kind of `sys.dt`; `dlsim`, `np.nextafter` and the number of
`while` iterations are parameters.  Given the contract `DlsimSpec` of `dlsim`, the model's `decimation`
followed by `simDiscrete` is proved EQUAL to it.
-/
import CtrlVerif.Generated.TimeRespDisc
import CtrlVerif.Lemmas.PyTR

namespace CtrlVerif.C06Gen

open Matrix CtrlVerif TimeResp

/-- **contract of `scipy.signal.dlsim`** (the external routine is a PARAMETER `f` of the generated
function; this is what is assumed of it, SciPy's documented behaviour in exact arithmetic): called with
sampling time `h > 0` and a time vector that starts at 0 and is equally spaced with `inc ≥ 1` sampling
times per step, it takes `floor(t[-1] / h) + 1 = (len - 1) inc + 1` samples at the times `j h`,
interpolates the input linearly at those times (`make_interp_spline(t, u, k=1)`: the model's `interp`)
and runs `x[j+1] = A x[j] + B u[j]`, `y[j] = C x[j] + D u[j]` (the model's `dStates`, `outputs`).
Inhabited: `dlsimSpec_nonvacuous`. -/
structure DlsimSpec (f : DlsimFun ℚ) : Prop where
  grid : ∀ (n m p : Nat) (G : SS (Fin n) (Fin m) (Fin p) ℚ) (h : ℚ) (inc : Nat) (us : List (Fin m → ℚ))
    (x0 : Fin n → ℚ), 0 < h → 1 ≤ inc → us ≠ [] →
    f n m p G h us ((List.range us.length).map fun (j : Nat) => (j : ℚ) * ((inc : ℚ) * h)) x0
      = .ok ((List.range ((us.length - 1) * inc + 1)).map (fun (j : Nat) => (j : ℚ) * h),
          outputs G (dStates G x0 (interp inc us)) (interp inc us),
          dStates G x0 (interp inc us))

/-- the discrete-time branch on a grid whose step is `inc` sampling times: both sampling-time checks
pass, `n_samples = (n_steps - 1) inc + 1`, the sample-count work-around is not entered (in exact
arithmetic `floor(spT[-1] / h) + 1 = n_samples`; for every `fuel` and every `nextafter`), `dlsim` is
called with the four matrices, `h`, the transposed input, the shifted time vector and `X0`, and its
results are decimated by `inc`. -/
theorem disc_core (f : DlsimFun ℚ) (hS : DlsimSpec f) (na : ℚ → ℚ) (fuel : Nat) (G : DSS ℚ) (h : ℚ) (inc : Nat)
    (h0 : 0 < h) (hinc : 1 ≤ inc) (T : List ℚ) (hg : gridStep T = .ok ((inc : ℚ) * h))
    (x0 : Fin G.n → ℚ) (us : List (Fin G.m → ℚ)) (hlen : us.length = T.length) :
    Generated.frDisc f na fuel (PySS.A G) (PySS.B G) (PySS.C G) (PySS.D G) (.disc h) ((inc : ℚ) * h) us.length T
        ⟨G.n, x0⟩ ⟨G.m, us⟩
      = .ok (T, ⟨G.p, (simDiscrete G.sys inc x0 us).2⟩, ⟨G.n, (simDiscrete G.sys inc x0 us).1⟩, ⟨G.m, us⟩) := by
  obtain ⟨t0, ht0, hsp⟩ := PyTR.grid_of_gridStep_q T _ hg
  have hT2 : 2 ≤ T.length := (C06.gridStep_ok T _ hg).1
  have hne : us ≠ [] := by intro e; simp [e] at hlen; omega
  obtain ⟨X, hX⟩ := setCol_zeros_ok G.n us.length (by omega) x0
  unfold Generated.frDisc
  simp only [bind, Except.bind, pure, Except.pure]
  have hA : (PySS.A G).r = G.n := rfl
  simp only [hA, hX, ht0]
  have c1 : ¬ ((inc : ℚ) * h < h ∧ ¬ PyTR.isclose ((inc : ℚ) * h) h) := by
    intro ⟨hlt, _⟩
    have : (1 : ℚ) ≤ inc := by exact_mod_cast hinc
    nlinarith
  have hlast : PyArith.getItem (PyTR.subNum T t0) (-1) = .ok (((T.length - 1 : Nat) : ℚ) * ((inc : ℚ) * h)) := by
    rw [hsp, getItem_last_map_range _ _ (by omega)]
  have hdiv2 : PyArith.div (((T.length - 1 : Nat) : ℚ) * ((inc : ℚ) * h)) h
      = .ok ((((T.length - 1) * inc : Nat)) : ℚ) := by
    rw [PyArith.div_ok _ h0.ne']
    congr 1
    push_cast
    field_simp
  have hcond : ¬ (PyTR.floorInt ((((T.length - 1) * inc : Nat)) : ℚ) + 1
      < ((us.length : Int) - 1) * PyTR.roundInt (inc : ℚ) + 1) := by
    rw [PyTR.floorInt_natCast, PyTR.roundInt_natCast]
    have : ((T.length - 1 : Nat) : Int) = (us.length : Int) - 1 := by omega
    push_cast
    rw [this]
    omega
  have hcall : PyTR.callDlsim f (PySS.A G) (PySS.B G) (PySS.C G) (PySS.D G) h (PSig.T ⟨G.m, us⟩)
      (PyTR.subNum T t0) ⟨G.n, x0⟩
      = .ok ((List.range ((us.length - 1) * inc + 1)).map (fun (j : Nat) => (j : ℚ) * h),
          ⟨G.p, outputs G.sys (dStates G.sys x0 (interp inc us)) (interp inc us)⟩,
          ⟨G.n, dStates G.sys x0 (interp inc us)⟩) := by
    rw [hsp, ← hlen]
    show PyTR.callDlsim f (PySS.A G) (PySS.B G) (PySS.C G) (PySS.D G) h ⟨G.m, us⟩ _ ⟨G.n, x0⟩ = _
    rw [PyTR.callDlsim_sys, hS.grid _ _ _ G.sys h inc us x0 h0 hinc hne]
    rfl
  simp only [c1, if_false, fmod_mul inc h h0, div_mul inc h h0, hlast, hdiv2, hcond, hcall]
  have hz : PyTR.isclose (0 : ℚ) 0 := rfl
  simp only [hz, if_true, not_true_eq_false, if_false, PyTR.roundInt_natCast, stepRows_pos _ _ inc hinc]
  rfl

/-- a step that is smaller than the sampling time or not a multiple of it: `ValueError`. -/
theorem disc_reject (f : DlsimFun ℚ) (na : ℚ → ℚ) (fuel : Nat) (G : DSS ℚ) (h dt : ℚ) (h0 : 0 < h) (e : Err)
    (hd : decimation (.disc h) dt = .error e) (T : List ℚ) (hT : 0 < T.length) (k : Nat) (hk : 0 < k)
    (x0 : Fin G.n → ℚ) (U : PSig ℚ) :
    Generated.frDisc f na fuel (PySS.A G) (PySS.B G) (PySS.C G) (PySS.D G) (.disc h) dt k T ⟨G.n, x0⟩ U
      = .error .badArg := by
  obtain ⟨X, hX⟩ := setCol_zeros_ok G.n k hk x0
  have ht0 := PyArith.getItem_zero T hT
  have hA : (PySS.A G).r = G.n := rfl
  unfold Generated.frDisc
  simp only [bind, Except.bind, pure, Except.pure, hA, hX, ht0]
  have hno : ¬ (0 < h ∧ (dt / h).den = 1 ∧ 1 ≤ dt / h) := by
    intro hc
    simp [decimation, hc] at hd
  by_cases hlt : dt < h
  · have : dt < h ∧ ¬ PyTR.isclose dt h := ⟨hlt, fun e => by unfold PyTR.isclose at e; linarith⟩
    simp only [this, if_true]
    rfl
  · have c1 : ¬ (dt < h ∧ ¬ PyTR.isclose dt h) := fun hc => hlt hc.1
    have hr : 1 ≤ dt / h := by rw [le_div_iff₀ h0]; linarith
    have hden : (dt / h).den ≠ 1 := fun hden => hno ⟨h0, hden, hr⟩
    have hv0 : ¬ PyTR.isclose (dt - h * ((⌊dt / h⌋ : Int) : ℚ)) 0 := fun e =>
      hden ((PyTR.fmod_val_zero_iff dt h h0).1 e)
    have hvh : ¬ PyTR.isclose (dt - h * ((⌊dt / h⌋ : Int) : ℚ)) h := PyTR.fmod_val_ne dt h h0
    simp only [c1, if_false, PyTR.fmod_pos dt h h0, hv0, hvh, decide_false]
    rfl

/-- `dt = True` / `dt = None`: the system is run at the step of the grid, nothing is decimated. -/
theorem unspec_core (f : DlsimFun ℚ) (hS : DlsimSpec f) (na : ℚ → ℚ) (fuel : Nat) (G : DSS ℚ) (d : Dt)
    (hd : d = .dtrue ∨ d = .none) (dt : ℚ) (h0 : 0 < dt) (T : List ℚ) (hg : gridStep T = .ok dt)
    (x0 : Fin G.n → ℚ) (us : List (Fin G.m → ℚ)) (hlen : us.length = T.length) :
    Generated.frDisc f na fuel (PySS.A G) (PySS.B G) (PySS.C G) (PySS.D G) d dt us.length T ⟨G.n, x0⟩ ⟨G.m, us⟩
      = .ok (T, ⟨G.p, (simDiscrete G.sys 1 x0 us).2⟩, ⟨G.n, (simDiscrete G.sys 1 x0 us).1⟩, ⟨G.m, us⟩) := by
  have hg' : gridStep T = .ok (((1 : Nat) : ℚ) * dt) := by simpa using hg
  obtain ⟨t0, ht0, hsp⟩ := PyTR.grid_of_gridStep_q T _ hg'
  have hT2 : 2 ≤ T.length := (C06.gridStep_ok T _ hg).1
  have hne : us ≠ [] := by intro e; simp [e] at hlen; omega
  obtain ⟨X, hX⟩ := setCol_zeros_ok G.n us.length (by omega) x0
  have hA : (PySS.A G).r = G.n := rfl
  have hdd : PyArith.div dt dt = .ok ((1 : Nat) : ℚ) := by
    rw [PyArith.div_ok _ h0.ne', div_self h0.ne']; simp
  have hlast : PyArith.getItem (PyTR.subNum T t0) (-1) = .ok (((T.length - 1 : Nat) : ℚ) * (((1 : Nat) : ℚ) * dt)) := by
    rw [hsp, getItem_last_map_range _ _ (by omega)]
  have hdiv2 : PyArith.div (((T.length - 1 : Nat) : ℚ) * (((1 : Nat) : ℚ) * dt)) dt
      = .ok ((((T.length - 1) * 1 : Nat)) : ℚ) := by
    rw [PyArith.div_ok _ h0.ne']
    congr 1
    push_cast
    field_simp
  have hcond : ¬ (PyTR.floorInt ((((T.length - 1) * 1 : Nat)) : ℚ) + 1
      < ((us.length : Int) - 1) * PyTR.roundInt ((1 : Nat) : ℚ) + 1) := by
    rw [PyTR.floorInt_natCast, PyTR.roundInt_natCast]
    have : ((T.length - 1 : Nat) : Int) = (us.length : Int) - 1 := by omega
    push_cast
    rw [this]
    omega
  have hcall : PyTR.callDlsim f (PySS.A G) (PySS.B G) (PySS.C G) (PySS.D G) dt (PSig.T ⟨G.m, us⟩)
      (PyTR.subNum T t0) ⟨G.n, x0⟩
      = .ok ((List.range ((us.length - 1) * 1 + 1)).map (fun (j : Nat) => (j : ℚ) * dt),
          ⟨G.p, outputs G.sys (dStates G.sys x0 (interp 1 us)) (interp 1 us)⟩,
          ⟨G.n, dStates G.sys x0 (interp 1 us)⟩) := by
    rw [hsp, ← hlen]
    show PyTR.callDlsim f (PySS.A G) (PySS.B G) (PySS.C G) (PySS.D G) dt ⟨G.m, us⟩ _ ⟨G.n, x0⟩ = _
    rw [PyTR.callDlsim_sys, hS.grid _ _ _ G.sys dt 1 us x0 h0 le_rfl hne]
    rfl
  rcases hd with rfl | rfl <;>
  · unfold Generated.frDisc
    simp only [bind, Except.bind, pure, Except.pure, hA, hX, ht0, hdd, hlast, hdiv2, hcond, if_false, hcall]
    simp only [PyTR.roundInt_natCast, stepRows_pos _ _ 1 le_rfl]
    rfl

/-- **the discrete-time branch, numeric sampling time**: for every `dlsim` that meets its contract,
every `nextafter`, every `fuel`, every system with sampling time `h > 0`, every accepted time grid
(`gridStep T = .ok dt`, any `dt`, also non-positive), initial state and input samples (one per time
point): the function the source text defines raises exactly when the model's `decimation` does (same
exception class) and otherwise returns the time vector, the input, and states / outputs EQUAL to the
model's `simDiscrete` with the model's decimation factor. -/
theorem generated_disc_eq (f : DlsimFun ℚ) (hS : DlsimSpec f) (na : ℚ → ℚ) (fuel : Nat) (G : DSS ℚ) (h dt : ℚ)
    (h0 : 0 < h) (T : List ℚ) (hg : gridStep T = .ok dt) (x0 : Fin G.n → ℚ) (us : List (Fin G.m → ℚ))
    (hlen : us.length = T.length) :
    Generated.frDisc f na fuel (PySS.A G) (PySS.B G) (PySS.C G) (PySS.D G) (.disc h) dt us.length T
        ⟨G.n, x0⟩ ⟨G.m, us⟩
      = (decimation (.disc h) dt).bind fun inc =>
          .ok (T, ⟨G.p, (simDiscrete G.sys inc x0 us).2⟩, ⟨G.n, (simDiscrete G.sys inc x0 us).1⟩, ⟨G.m, us⟩) := by
  have hT2 : 2 ≤ T.length := (C06.gridStep_ok T _ hg).1
  cases hd : decimation (.disc h) dt with
  | error e =>
    have he : e = .badArg := by
      simp only [decimation] at hd
      split at hd
      · cases hd
      · injection hd with hd; exact hd.symm
    subst he
    exact disc_reject f na fuel G h dt h0 _ hd T (by omega) us.length (by omega) x0 _
  | ok inc =>
    obtain ⟨_, hinc, rfl⟩ := C06.decimation_disc h dt inc hd
    exact disc_core f hS na fuel G h inc h0 hinc T hg x0 us hlen

/-- **the discrete-time branch, `dt = True` / `dt = None`** on an increasing grid (`0 < dt`): equal to
the model (`decimation = 1`, `simDiscrete` at the step of the grid).
NOT covered (outside the property, which quantifies over increasing grids): `dt = 0` - the code
divides by zero (`generated_disc_unspecified_zero`), the model rejects the grid; `dt < 0` - the model
rejects the grid, the code calls `dlsim` with a negative sampling time (no contract). -/
theorem generated_disc_unspecified_eq (f : DlsimFun ℚ) (hS : DlsimSpec f) (na : ℚ → ℚ) (fuel : Nat) (G : DSS ℚ)
    (d : Dt) (hd : d = .dtrue ∨ d = .none) (dt : ℚ) (h0 : 0 < dt) (T : List ℚ) (hg : gridStep T = .ok dt)
    (x0 : Fin G.n → ℚ) (us : List (Fin G.m → ℚ)) (hlen : us.length = T.length) :
    Generated.frDisc f na fuel (PySS.A G) (PySS.B G) (PySS.C G) (PySS.D G) d dt us.length T ⟨G.n, x0⟩ ⟨G.m, us⟩
      = (decimation d dt).bind fun inc =>
          .ok (T, ⟨G.p, (simDiscrete G.sys inc x0 us).2⟩, ⟨G.n, (simDiscrete G.sys inc x0 us).1⟩, ⟨G.m, us⟩) := by
  rw [unspec_core f hS na fuel G d hd dt h0 T hg x0 us hlen]
  rcases hd with rfl | rfl <;> simp [decimation, h0, Except.bind]

/-- a constant "grid" (`dt = 0`) with `dt = True / None`: both raise (the code: division by zero). -/
theorem generated_disc_unspecified_zero (f : DlsimFun ℚ) (na : ℚ → ℚ) (fuel : Nat) (G : DSS ℚ)
    (d : Dt) (hd : d = .dtrue ∨ d = .none) (T : List ℚ) (hT : 0 < T.length) (k : Nat) (hk : 0 < k)
    (x0 : Fin G.n → ℚ) (U : PSig ℚ) :
    Generated.frDisc f na fuel (PySS.A G) (PySS.B G) (PySS.C G) (PySS.D G) d 0 k T ⟨G.n, x0⟩ U
      = .error .zeroDen ∧ decimation d 0 = .error .badArg := by
  obtain ⟨X, hX⟩ := setCol_zeros_ok G.n k hk x0
  have ht0 := PyArith.getItem_zero T hT
  have hA : (PySS.A G).r = G.n := rfl
  rcases hd with rfl | rfl <;>
  · refine ⟨?_, by simp [decimation]⟩
    unfold Generated.frDisc
    simp only [bind, Except.bind, pure, Except.pure, hA, hX, ht0, PyArith.div_zero]

/-- a continuous-time system never reaches the discrete branch (`isctime(sys, strict=True)`); the
generated function has no arm for it. -/
theorem generated_disc_cont (f : DlsimFun ℚ) (na : ℚ → ℚ) (fuel : Nat) (A B C D : PMat ℚ) (dt : ℚ) (k : Nat)
    (T : List ℚ) (X0 : PVec ℚ) (U : PSig ℚ) :
    Generated.frDisc f na fuel A B C D .cont dt k T X0 U = .error .badArg := rfl

/-! ### the contract is satisfiable -/

/-- a function that meets the contract: on the time vectors the contract speaks about it returns what
the contract says, everything else is rejected. -/
noncomputable def dlsimOfSpec : DlsimFun ℚ := fun n m p G h us t x0 =>
  open Classical in
  if hx : ∃ inc : Nat, 1 ≤ inc ∧ t = (List.range us.length).map fun (j : Nat) => (j : ℚ) * ((inc : ℚ) * h) then
    .ok ((List.range ((us.length - 1) * (Classical.choose hx) + 1)).map (fun (j : Nat) => (j : ℚ) * h),
      outputs G (dStates G x0 (interp (Classical.choose hx) us)) (interp (Classical.choose hx) us),
      dStates G x0 (interp (Classical.choose hx) us))
  else .error .badArg

theorem dlsimSpec_nonvacuous : DlsimSpec dlsimOfSpec := by
  refine ⟨fun n m p G h inc us x0 h0 hinc hne => ?_⟩
  have hx : ∃ inc' : Nat, 1 ≤ inc' ∧ (List.range us.length).map (fun (j : Nat) => (j : ℚ) * ((inc : ℚ) * h))
      = (List.range us.length).map fun (j : Nat) => (j : ℚ) * ((inc' : ℚ) * h) := ⟨inc, hinc, rfl⟩
  unfold dlsimOfSpec
  rw [dif_pos hx]
  obtain ⟨h1, h2⟩ := Classical.choose_spec hx
  generalize Classical.choose hx = inc' at h1 h2
  by_cases hl : 2 ≤ us.length
  · have := congrArg (fun l => l[1]?) h2
    simp only [List.getElem?_map, List.getElem?_range hl, Option.map_some, Option.some.injEq] at this
    have : (inc : ℚ) = inc' := by
      have h3 : (inc : ℚ) * h = inc' * h := by simpa using this
      exact mul_right_cancel₀ h0.ne' h3
    have : inc = inc' := by exact_mod_cast this
    subst this
    rfl
  · obtain ⟨u, rfl⟩ : ∃ u, us = [u] := by
      match us, hne, hl with
      | [u], _, _ => exact ⟨u, rfl⟩
      | [], hne, _ => exact absurd rfl hne
      | _ :: _ :: _, _, hl => exact absurd (by simp) hl
    simp [interp]

/-- non-vacuity of `generated_disc_eq` / the contract: with the contract's own instance, `x⁺ = 2x + u`
at sampling time `1/10` on the grid `0, 1/5` (two sampling times per step), input `2, 4`: the
generated branch returns, decimation 2, the states `0, 7` of `Props/C06.lean`'s example. -/
example : ∃ (xs ys : List (Fin 1 → ℚ)), Generated.frDisc dlsimOfSpec id 0 ⟨1, 1, !![2]⟩ ⟨1, 1, !![1]⟩ ⟨1, 1, !![1]⟩
    ⟨1, 1, !![0]⟩ (.disc (1/10)) (1/5) 2 [0, 1/5] ⟨1, ![0]⟩ ⟨1, [![2], ![4]]⟩
      = .ok ([0, 1/5], ⟨1, ys⟩, ⟨1, xs⟩, ⟨1, [![2], ![4]]⟩) ∧
    xs.map (fun v => v 0) = [0, 7] := by
  have hd : decimation (.disc (1/10)) (1/5) = .ok 2 := by decide +kernel
  have hg : gridStep [0, 1/5] = .ok (1/5) := by decide +kernel
  have := generated_disc_eq dlsimOfSpec dlsimSpec_nonvacuous id 0
    ⟨1, 1, 1, ⟨!![2], !![1], !![1], !![0]⟩, .disc (1/10)⟩ (1/10) (1/5) (by norm_num) [0, 1/5] hg ![0]
    [![2], ![4]] rfl
  rw [hd] at this
  refine ⟨_, _, this, ?_⟩
  show (simDiscrete (⟨!![2], !![1], !![1], !![0]⟩ : SS (Fin 1) (Fin 1) (Fin 1) ℚ) 2 ![0] [![2], ![4]]).1.map
    (fun v => v 0) = [0, 7]
  decide +kernel

/-- a step that is not a multiple of the sampling time raises. -/
example : Generated.frDisc dlsimOfSpec id 0 ⟨1, 1, !![2]⟩ ⟨1, 1, !![1]⟩ ⟨1, 1, !![1]⟩ ⟨1, 1, !![0]⟩
    (.disc (1/10)) (3/20) 2 [0, 3/20] ⟨1, ![0]⟩ ⟨1, [![2], ![4]]⟩ = .error .badArg :=
  disc_reject dlsimOfSpec id 0 ⟨1, 1, 1, ⟨!![2], !![1], !![1], !![0]⟩, .disc (1/10)⟩ (1/10) (3/20) (by norm_num) .badArg
    (by decide +kernel) [0, 3/20] (by simp) 2 (by norm_num) ![0] _

end CtrlVerif.C06Gen
