/-
Source-text tie of C20, part 4: the boundary-condition statements of `point_to_point`
(control/flatsys/flatsys.py) for a call without cost and constraints.
-/
import CtrlVerif.Generated.FlatP2P
import CtrlVerif.Props.C20GenFlatMaps
import CtrlVerif.Props.C20GenFlatMat
import CtrlVerif.Props.C20Cert
import Mathlib.LinearAlgebra.Matrix.ToLinearEquiv
import Mathlib.LinearAlgebra.Matrix.DotProduct

namespace CtrlVerif.C20GenFlat

open Matrix CtrlVerif PyFlat

variable {K : Type} [Field K] [DecidableEq K] [LinearOrder K] [IsStrictOrderedRing K] {n : Nat}

/-- the `SystemTrajectory` object of a linear flat system of order `n` with the coefficients `α`. -/
def trajOf (n : Nat) (bs : Basis K) (α : Fin bs.N → K) : PyTraj K :=
  ⟨n, 1, bs, [List.ofFn α], [((n + 1 : Nat) : Int)]⟩

theorem vcat_stackM (bs : Basis K) (T0 Tf : K) :
    PMat.vcat (⟨n + 1, bs.N, flagMatrix bs (n + 1) T0⟩ : PMat K) ⟨n + 1, bs.N, flagMatrix bs (n + 1) Tf⟩
      = .ok ⟨(n + 1) + (n + 1), bs.N, stackM (n := n) bs T0 Tf⟩ := by
  rw [PMat.vcat_mk]
  congr 2
  ext r c
  refine Fin.addCases (fun i => ?_) (fun i => ?_) r
  · simp only [stackM, Matrix.submatrix_apply, id, finSumFinEquiv_symm_apply_castAdd, Matrix.fromRows_apply_inl,
      PMat.retype_rfl]
    exact (congrFun (Fin.append_left _ _ i) c).symm
  · simp only [stackM, Matrix.submatrix_apply, id, finSumFinEquiv_symm_apply_natAdd, Matrix.fromRows_apply_inr,
      PMat.retype_rfl]
    exact (congrFun (Fin.append_right _ _ i) c).symm

theorem sliceList_full {m : Nat} (a : Fin m → K) :
    sliceList (List.ofFn a) (some (0 : Int)) (some ((0 : Int) + (m : Int))) = List.ofFn a := by
  have e1 : PMat.sliceBound (List.ofFn a).length 0 (some (0 : Int)) = 0 := by simp [PMat.sliceBound]
  have e2 : PMat.sliceBound (List.ofFn a).length (List.ofFn a).length (some ((0 : Int) + (m : Int))) = m := by
    simp [PMat.sliceBound]
  simp only [sliceList, e1, e2, List.drop_zero, Nat.sub_zero]
  rw [List.take_of_length_le (by simp)]

/-- **the assembly of the boundary-condition system**: the generated statements hand the model's stacked
matrix `stackM` and stacked flag `stackZ` to `lstsq` — whatever `lstsq` is — and slice its answer into
the coefficient list of the one flat output. -/
theorem generated_p2p_assembly (lstsq : LstsqFn K) (L : LinFlat n K) (C : Matrix (Fin 1) (Fin n) K)
    (D : Matrix (Fin 1) (Fin 1) K) (dt : Dt) (bs : Basis K) (hT : bs.T ≠ 0) (hN : 2 * (n + 1) ≤ bs.N)
    (T0 Tf : K) (x0 : Fin n → K) (u0 : K) (xf : Fin n → K) (uf : K) (α : Fin bs.N → K) (rk : Int)
    (hl : lstsq ⟨(n + 1) + (n + 1), bs.N, stackM (n := n) bs T0 Tf⟩
        (List.ofFn (stackZ (L.forward x0 u0) (L.forward xf uf))) = .ok (List.ofFn α, rk)) :
    Generated.pointToPointBlock lstsq n 1 (Generated.linflatForward (L.toPy C D dt)) bs
      (List.ofFn x0) [u0] (List.ofFn xf) [uf] T0 Tf = .ok (trajOf n bs α) := by
  have hZ : List.flatten [List.flatten [List.ofFn (L.forward x0 u0)], List.flatten [List.ofFn (L.forward xf uf)]]
      = List.ofFn (stackZ (L.forward x0 u0) (L.forward xf uf)) := by
    simp only [List.flatten_cons, List.flatten_nil, List.append_nil]
    rw [stackZ, List.ofFn_fin_append]
  have hsmall : ¬ ((bs.N : Int) < 2 * (((n + 1 : Nat)) : Int)) := by omega
  unfold Generated.pointToPointBlock
  simp only [generated_varNcoefs_eq, generated_forward_eq, generated_basisFlagMatrix_siso bs hT, vcat_stackM, hZ, hl,
    bind, Except.bind, pure, Except.pure]
  have hr1 : PyArith.range 0 ((1 : Nat) : Int) = [0] := by simp [PyArith.range]
  have hsum : ¬ ((bs.N : Int) < 2 * ((n : Int) + ((1 : Nat) : Int))) := by push_cast; omega
  have hlen : (((List.ofFn (L.forward x0 u0)).length : Nat) : Int) = ((n + 1 : Nat) : Int) := by simp
  simp only [hr1, List.mapM_cons, List.mapM_nil, bind, Except.bind, pure, Except.pure, List.sum_cons, List.sum_nil,
    add_zero, hsum, if_false, List.foldlM_cons, List.foldlM_nil, getItem_singleton, sliceList_full, List.nil_append, hlen]
  rfl

/-- `ncoefs = sum([basis.var_ncoefs(i) for i in range(sys.ninputs)])` is `ninputs · N`. -/
theorem ncoefs_eq (bs : Basis K) (m : Nat) :
    List.mapM (fun (i : Int) => (Generated.basisVarNcoefs bs i).bind fun t1 => pure (t1 : Int))
      (PyArith.range 0 (m : Int)) = .ok ((PyArith.range 0 (m : Int)).map fun _ => (bs.N : Int))
    ∧ ((PyArith.range 0 (m : Int)).map fun _ => (bs.N : Int)).sum = ((m * bs.N : Nat) : Int) := by
  refine ⟨mapM_ok_of_forall _ _ (fun i => by rw [generated_varNcoefs_eq]; rfl) _, ?_⟩
  have h : ∀ l : List Int, (l.map fun _ => (bs.N : Int)).sum = (l.length : Int) * bs.N := by
    intro l
    induction l with
    | nil => simp
    | cons a l ih => simp only [List.map_cons, List.sum_cons, ih, List.length_cons]; push_cast; ring
  rw [h]
  simp [PyArith.range]

/-- **"basis set is too small"**: with fewer than `2 (nstates + ninputs)` coefficients the statements raise
(`ValueError`) before anything else is looked at — for every system, every `forward`, every `lstsq`. -/
theorem generated_p2p_too_small (lstsq : LstsqFn K) (ns m : Nat)
    (fwd : List K → List K → Except Err (List (List K))) (bs : Basis K) (x0 u0 xf uf : List K) (T0 Tf : K)
    (h : m * bs.N < 2 * (ns + m)) :
    Generated.pointToPointBlock lstsq ns m fwd bs x0 u0 xf uf T0 Tf = .error .badArg := by
  have hlt : ((m * bs.N : Nat) : Int) < 2 * ((ns : Int) + (m : Int)) := by push_cast; omega
  unfold Generated.pointToPointBlock
  simp only [bind]
  rw [(ncoefs_eq bs m).1]
  simp only [Except.ok_bind', (ncoefs_eq bs m).2, hlt, if_true]
  rfl

/-! ### `numpy.linalg.lstsq`: the minimum-norm contract -/

/-- the minimum-norm solution of `M α = Z` for a matrix of full row rank: `Mᵀ (M Mᵀ)⁻¹ Z`. -/
def minNormSol {r c : Nat} (M : Matrix (Fin r) (Fin c) K) (Z : Fin r → K) : Fin c → K :=
  Mᵀ *ᵥ (SS.invQ (M * Mᵀ) *ᵥ Z)

/-- the contract of `numpy.linalg.lstsq(M, Z, rcond=None)` the theorems use: for a matrix of full row
rank (`det (M Mᵀ) ≠ 0`) it returns the minimum-norm solution and the rank `r`. -/
def LstsqMinNorm (lstsq : LstsqFn K) : Prop :=
  ∀ (r c : Nat) (M : Matrix (Fin r) (Fin c) K) (Z : Fin r → K), (M * Mᵀ).det ≠ 0 →
    lstsq ⟨r, c, M⟩ (List.ofFn Z) = .ok (List.ofFn (minNormSol M Z), (r : Int))

/-- the contract is not vacuous. -/
theorem lstsqMinNorm_nonvacuous : ∃ lstsq : LstsqFn K, LstsqMinNorm lstsq := by
  refine ⟨fun X zs => if h : zs.length = X.r
    then .ok (List.ofFn (minNormSol X.M fun i => zs.get (Fin.cast h.symm i)), (X.r : Int))
    else .error .shape, ?_⟩
  intro r c M Z _
  have h : (List.ofFn Z).length = r := by simp
  simp only [h, dite_true]
  congr 3
  funext i
  simp

theorem mul_minNormSol {r c : Nat} (M : Matrix (Fin r) (Fin c) K) (Z : Fin r → K) (h : (M * Mᵀ).det ≠ 0) :
    M *ᵥ minNormSol M Z = Z := by
  unfold minNormSol
  rw [Matrix.mulVec_mulVec, Matrix.mulVec_mulVec, (invQ_two_sided _ h).1, Matrix.one_mulVec]

/-- a solution in the row space is the minimum-norm solution. -/
theorem eq_minNormSol {r c : Nat} (M : Matrix (Fin r) (Fin c) K) (Z lam : Fin r → K) (h : (M * Mᵀ).det ≠ 0)
    (hs : M *ᵥ (Mᵀ *ᵥ lam) = Z) : Mᵀ *ᵥ lam = minNormSol M Z := by
  unfold minNormSol
  congr 1
  rw [← hs, Matrix.mulVec_mulVec, Matrix.mulVec_mulVec, Matrix.mul_assoc, (invQ_two_sided _ h).2, Matrix.one_mulVec]

/-- the boundary matrix has full row rank: its Gram matrix is invertible (Hermite interpolation,
`C20Cert.boundary_matrix_full_row_rank`, and `v ⬝ v = 0 → v = 0` in an ordered field). -/
theorem stackM_gram_det_ne_zero (bs : Basis K) (hT : bs.T ≠ 0) (hN : 2 * (n + 1) ≤ bs.N) (T0 Tf : K)
    (h0f : T0 ≠ Tf) : (stackM (n := n) bs T0 Tf * (stackM (n := n) bs T0 Tf)ᵀ).det ≠ 0 := by
  intro hdet
  obtain ⟨v, hv0, hv⟩ := Matrix.exists_vecMul_eq_zero_iff.mpr hdet
  apply hv0
  apply C20Cert.boundary_matrix_full_row_rank bs hT hN T0 Tf h0f v
  apply dotProduct_self_eq_zero.mp
  have h1 : (v ᵥ* (stackM (n := n) bs T0 Tf * (stackM (n := n) bs T0 Tf)ᵀ)) ⬝ᵥ v = 0 := by
    rw [hv, zero_dotProduct]
  rw [← Matrix.vecMul_vecMul, ← Matrix.dotProduct_mulVec, Matrix.mulVec_transpose] at h1
  exact h1

/-- **under the minimum-norm contract the generated statements return the minimum-norm solution of the
model's boundary system**, for every order, both families (`T ≠ 0`, `N ≥ 2(n+1)`), `T0 ≠ Tf`, all
boundary data — and that solution solves the system. -/
theorem generated_p2p_eq (lstsq : LstsqFn K) (hl : LstsqMinNorm lstsq) (L : LinFlat n K)
    (C : Matrix (Fin 1) (Fin n) K) (D : Matrix (Fin 1) (Fin 1) K) (dt : Dt) (bs : Basis K) (hT : bs.T ≠ 0)
    (hN : 2 * (n + 1) ≤ bs.N) (T0 Tf : K) (h0f : T0 ≠ Tf) (x0 : Fin n → K) (u0 : K) (xf : Fin n → K) (uf : K) :
    Generated.pointToPointBlock lstsq n 1 (Generated.linflatForward (L.toPy C D dt)) bs
        (List.ofFn x0) [u0] (List.ofFn xf) [uf] T0 Tf
      = .ok (trajOf n bs (minNormSol (stackM (n := n) bs T0 Tf) (stackZ (L.forward x0 u0) (L.forward xf uf))))
    ∧ stackM (n := n) bs T0 Tf *ᵥ minNormSol (stackM (n := n) bs T0 Tf) (stackZ (L.forward x0 u0) (L.forward xf uf))
      = stackZ (L.forward x0 u0) (L.forward xf uf) :=
  ⟨generated_p2p_assembly lstsq L C D dt bs hT hN T0 Tf x0 u0 xf uf _ _
      (hl _ _ _ _ (stackM_gram_det_ne_zero bs hT hN T0 Tf h0f)),
    mul_minNormSol _ _ (stackM_gram_det_ne_zero bs hT hN T0 Tf h0f)⟩

/-- whatever the model's `p2p` returns (its Gauss–Jordan candidate passed the check `M α = Z`) is the
minimum-norm solution. -/
theorem p2p_ok_minNorm {L : LinFlat n K} {bs : Basis K} {T0 Tf : K} (h0f : T0 ≠ Tf) {x0 : Fin n → K} {u0 : K}
    {xf : Fin n → K} {uf : K} {α : Fin bs.N → K} (h : p2p L bs T0 Tf x0 u0 xf uf = .ok α) :
    α = minNormSol (stackM (n := n) bs T0 Tf) (stackZ (L.forward x0 u0) (L.forward xf uf)) := by
  obtain ⟨_, hN, hT⟩ := C20.p2p_solves h
  have hdet := stackM_gram_det_ne_zero (n := n) bs hT hN T0 Tf h0f
  unfold p2p at h
  rw [if_neg (by omega), if_neg hT] at h
  simp only [untab_tab, untabV_tabV] at h
  split at h
  · rename_i hc
    have hα := Except.ok.inj h
    rw [← hα]
    exact eq_minNormSol _ _ _ hdet hc
  · exact absurd h (by simp)

/-- **the model's `p2p` and the generated statements agree whenever the model returns** (PARTIAL: the full
equation `generated = (p2p …).map trajOf` for all arguments would need that the model's unverified
Gauss–Jordan solve never fails its certificate `cert "lstsq"`, which is the recorded gap of C20;
`C20Cert.p2p_code` shows that this is the only way the model can fail for `N ≥ 2(n+1)`, `T ≠ 0`). -/
theorem generated_p2p_model_partial (lstsq : LstsqFn K) (hl : LstsqMinNorm lstsq) (L : LinFlat n K)
    (C : Matrix (Fin 1) (Fin n) K) (D : Matrix (Fin 1) (Fin 1) K) (dt : Dt) (bs : Basis K)
    (T0 Tf : K) (h0f : T0 ≠ Tf) (x0 : Fin n → K) (u0 : K) (xf : Fin n → K) (uf : K) (α : Fin bs.N → K)
    (h : p2p L bs T0 Tf x0 u0 xf uf = .ok α) :
    Generated.pointToPointBlock lstsq n 1 (Generated.linflatForward (L.toPy C D dt)) bs
        (List.ofFn x0) [u0] (List.ofFn xf) [uf] T0 Tf = .ok (trajOf n bs α) := by
  obtain ⟨_, hN, hT⟩ := C20.p2p_solves h
  rw [p2p_ok_minNorm h0f h]
  exact (generated_p2p_eq lstsq hl L C D dt bs hT hN T0 Tf h0f x0 u0 xf uf).1

/-! non-vacuity (ℚ): first-order system `L1`, four monomials on `[0, 1]` -/

example : (Basis.poly 4 (1 : ℚ)).T ≠ 0 ∧ 2 * (1 + 1) ≤ (Basis.poly 4 (1 : ℚ)).N ∧ (0 : ℚ) ≠ 1 := by decide +kernel

/-- the model's `p2p` returns on this problem (hypothesis of `generated_p2p_model_partial`) … -/
example : (match p2p L1 (.poly 4 1) 0 1 ![1] 0 ![0] 0 with | .ok _ => true | .error _ => false) = true := by
  decide +kernel

/-- … and under the (non-vacuous) contract the generated statements return a trajectory object. -/
example : ∃ (lstsq : LstsqFn ℚ) (traj : PyTraj ℚ),
    Generated.pointToPointBlock lstsq 1 1 (Generated.linflatForward (L1.toPy !![1] !![0] .cont)) (.poly 4 1)
      (List.ofFn ![1]) [0] (List.ofFn ![0]) [0] 0 1 = .ok traj := by
  obtain ⟨lstsq, hl⟩ := lstsqMinNorm_nonvacuous (K := ℚ)
  exact ⟨lstsq, _, (generated_p2p_eq lstsq hl L1 !![1] !![0] .cont (.poly 4 1) (by decide +kernel) (by decide)
    0 1 (by decide +kernel) ![1] 0 ![0] 0).1⟩

/-- three monomials are too few for a first-order system. -/
example (lstsq : LstsqFn ℚ) (fwd : List ℚ → List ℚ → Except Err (List (List ℚ))) :
    Generated.pointToPointBlock lstsq 1 1 fwd (.poly 3 1) [1] [0] [0] [0] 0 1 = .error .badArg :=
  generated_p2p_too_small lstsq 1 1 fwd (.poly 3 1) _ _ _ _ 0 1 (by decide)

end CtrlVerif.C20GenFlat
