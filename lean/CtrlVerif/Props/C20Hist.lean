/-
C20, history class — the flat-system maps are mutually inverse *every time they are asked*.

`Model/FlatHist.lean` is the model of a caller that keeps the objects it passes to and gets from
`LinearFlatSystem.forward` / `reverse` and uses them again (`HStore`, `HCall`, `HStore.run`).
Theorems, for every order `n ≥ 1`, every field, every valid flat structure, every store and EVERY
history (any number of calls of any kind between the ones named):

* `step_keeps`, `run_keeps`, `run_length_le` — a call appends one register; no register the caller holds is ever
  changed by any later call (what the in-place `u -= F z` on a view of the caller's flag breaks);
* `run_append` — histories compose;
* `hist_reverse_forward` — a flag obtained as `forward(x, u)` gives back `(x, u)` under `reverse` after
  any number of intermediate calls, in particular at its second, third, … use;
* `hist_forward_reverse` — a pair obtained as `reverse(z)` gives back `z` under `forward`, likewise;
* `hist_reverse_again` — two reverses of the same flag object, any calls in between, give the same pair;
* `hist_forward_again` — the same for `forward`;
* `hist_total` — a history whose indices name existing registers never fails.
-/
import CtrlVerif.Model.FlatHist
import CtrlVerif.Lemmas.C20Cert
import CtrlVerif.Props.C20

namespace CtrlVerif.C20Hist

open CtrlVerif HStore

variable {K : Type} [Field K] [DecidableEq K] {n : Nat}

/-- the tabulated result registers are the values of `reverse` / `forward`. -/
theorem revReg_eq (L : LinFlat n K) (z : Fin (n + 1) → K) : revReg L z = L.reverse z := by
  simp [revReg, untabV_tabV]

theorem fwdReg_eq (L : LinFlat n K) (xu : (Fin n → K) × K) : fwdReg L xu = L.forward xu.1 xu.2 := by
  simp [fwdReg, untabV_tabV]

/-- one call leaves every register the caller already holds as it is (and appends one). -/
theorem step_keeps (L : LinFlat n K) {st st' : HStore n K} {c : HCall} (h : st.step L c = .ok st') :
    (∀ i, i < st.S.length → st'.S[i]? = st.S[i]?) ∧ (∀ i, i < st.F.length → st'.F[i]? = st.F[i]?) ∧
    st.S.length ≤ st'.S.length ∧ st.F.length ≤ st'.F.length := by
  cases c with
  | fwd s =>
    simp only [step] at h
    split at h
    · exact absurd h (by simp)
    · injection h with h
      subst h
      refine ⟨fun i _ => rfl, fun i hi => ?_, le_refl _, ?_⟩
      · simp [List.getElem?_append_left hi]
      · simp
  | rev f =>
    simp only [step] at h
    split at h
    · exact absurd h (by simp)
    · injection h with h
      subst h
      refine ⟨fun i hi => ?_, fun i _ => rfl, ?_, le_refl _⟩
      · simp [List.getElem?_append_left hi]
      · simp

/-- no call of a history changes a register that existed before it. -/
theorem run_keeps (L : LinFlat n K) (cs : List HCall) {st st' : HStore n K} (h : st.run L cs = .ok st') :
    (∀ i, i < st.S.length → st'.S[i]? = st.S[i]?) ∧ (∀ i, i < st.F.length → st'.F[i]? = st.F[i]?) ∧
    st.S.length ≤ st'.S.length ∧ st.F.length ≤ st'.F.length := by
  induction cs generalizing st with
  | nil =>
    simp only [run] at h
    injection h with h
    subst h
    exact ⟨fun _ _ => rfl, fun _ _ => rfl, le_refl _, le_refl _⟩
  | cons c cs ih =>
    simp only [run] at h
    split at h
    · exact absurd h (by simp)
    · rename_i st1 h1
      obtain ⟨a1, a2, a3, a4⟩ := step_keeps L h1
      obtain ⟨b1, b2, b3, b4⟩ := ih h
      exact ⟨fun i hi => (b1 i (lt_of_lt_of_le hi a3)).trans (a1 i hi),
        fun i hi => (b2 i (lt_of_lt_of_le hi a4)).trans (a2 i hi), le_trans a3 b3, le_trans a4 b4⟩

theorem run_length_le (L : LinFlat n K) (cs : List HCall) {st st' : HStore n K}
    (h : st.run L cs = .ok st') : st.S.length ≤ st'.S.length ∧ st.F.length ≤ st'.F.length :=
  ⟨(run_keeps L cs h).2.2.1, (run_keeps L cs h).2.2.2⟩

/-- histories compose. -/
theorem run_append (L : LinFlat n K) (cs ds : List HCall) (st : HStore n K) :
    st.run L (cs ++ ds) = (match st.run L cs with
      | .error e => .error e
      | .ok st' => st'.run L ds) := by
  induction cs generalizing st with
  | nil => simp [run]
  | cons c cs ih =>
    simp only [List.cons_append, run]
    cases hstep : st.step L c with
    | error e => simp
    | ok st1 => simpa using ih st1

/-- the shape of a history `c :: ds ++ [e]` that succeeds. -/
theorem run_cons_snoc (L : LinFlat n K) (c e : HCall) (ds : List HCall) {st st' : HStore n K}
    (h : st.run L (c :: ds ++ [e]) = .ok st') :
    ∃ st1 st2, st.step L c = .ok st1 ∧ st1.run L ds = .ok st2 ∧ st2.step L e = .ok st' := by
  simp only [List.cons_append, run] at h
  cases h1 : st.step L c with
  | error e1 => rw [h1] at h; exact absurd h (by simp)
  | ok st1 =>
    rw [h1] at h
    simp only at h
    rw [run_append] at h
    cases h2 : st1.run L ds with
    | error e2 => rw [h2] at h; exact absurd h (by simp)
    | ok st2 =>
      rw [h2] at h
      simp only [run] at h
      refine ⟨st1, st2, rfl, h2, ?_⟩
      cases h3 : st2.step L e with
      | error e3 => rw [h3] at h; exact absurd h (by simp)
      | ok st3 =>
        rw [h3] at h
        simp only at h
        exact h

/-- **reverse ∘ forward, every time.**  In any store `st` (the state after an arbitrary history), take
a pair `(x, u)` the caller holds, compute its flag, make any calls `ds` whatever (other forwards,
reverses of this very flag, …), then reverse the flag: the result is `(x, u)`. -/
theorem hist_reverse_forward (L : LinFlat n K) (hV : L.Valid) (hn : 0 < n) (st st' : HStore n K)
    (ds : List HCall) (s : Nat) (xu : (Fin n → K) × K) (hs : st.S[s]? = some xu)
    (h : st.run L (.fwd s :: ds ++ [.rev st.F.length]) = .ok st') :
    st'.S.getLast? = some xu := by
  obtain ⟨st1, st2, h1, h2, h3⟩ := run_cons_snoc L _ _ ds h
  simp only [step, hs] at h1
  injection h1 with h1
  have hz1 : st1.F[st.F.length]? = some (fwdReg L xu) := by
    subst h1
    simp
  have hlen : st.F.length < st1.F.length := by
    subst h1
    simp
  have hz2 : st2.F[st.F.length]? = some (fwdReg L xu) :=
    ((run_keeps L ds h2).2.1 _ hlen).trans hz1
  simp only [step, hz2] at h3
  injection h3 with h3
  subst h3
  rw [revReg_eq, fwdReg_eq, C20.flat_inverse_left L hV hn]
  simp

/-- **forward ∘ reverse, every time.**  Take a flag `z` the caller holds, reverse it, make any calls
whatever, then compute the flag of the pair that was returned: the result is `z`. -/
theorem hist_forward_reverse (L : LinFlat n K) (hV : L.Valid) (hn : 0 < n) (st st' : HStore n K)
    (ds : List HCall) (f : Nat) (z : Fin (n + 1) → K) (hf : st.F[f]? = some z)
    (h : st.run L (.rev f :: ds ++ [.fwd st.S.length]) = .ok st') :
    st'.F.getLast? = some z := by
  obtain ⟨st1, st2, h1, h2, h3⟩ := run_cons_snoc L _ _ ds h
  simp only [step, hf] at h1
  injection h1 with h1
  have hz1 : st1.S[st.S.length]? = some (revReg L z) := by
    subst h1
    simp
  have hlen : st.S.length < st1.S.length := by
    subst h1
    simp
  have hz2 : st2.S[st.S.length]? = some (revReg L z) :=
    ((run_keeps L ds h2).1 _ hlen).trans hz1
  simp only [step, hz2] at h3
  injection h3 with h3
  subst h3
  rw [fwdReg_eq, revReg_eq, C20.flat_inverse_right L hV hn]
  simp

/-- two reverses of the same flag object, any calls in between: the same pair (no hypothesis on the
flat structure: `reverse` is a function of the value of its argument, and that value stays). -/
theorem hist_reverse_again (L : LinFlat n K) (st st' : HStore n K) (ds : List HCall) (f : Nat)
    (h : st.run L (.rev f :: ds ++ [.rev f]) = .ok st') :
    st'.S.getLast? = st'.S[st.S.length]? ∧ st.S.length + 1 < st'.S.length := by
  obtain ⟨st1, st2, h1, h2, h3⟩ := run_cons_snoc L _ _ ds h
  cases hf : st.F[f]? with
  | none => simp [step, hf] at h1
  | some z =>
    simp only [step, hf] at h1
    injection h1 with h1
    have hz1 : st1.S[st.S.length]? = some (revReg L z) := by
      subst h1
      simp
    have hlenS : st.S.length < st1.S.length := by
      subst h1
      simp
    have hF1 : st1.F[f]? = some z := by
      subst h1
      exact hf
    have hfl : f < st1.F.length := by
      have := List.getElem?_eq_some_iff.mp hF1
      exact this.1
    have hz2 : st2.S[st.S.length]? = some (revReg L z) :=
      ((run_keeps L ds h2).1 _ hlenS).trans hz1
    have hF2 : st2.F[f]? = some z := ((run_keeps L ds h2).2.1 _ hfl).trans hF1
    have hl2 : st.S.length < st2.S.length := lt_of_lt_of_le hlenS (run_keeps L ds h2).2.2.1
    simp only [step, hF2] at h3
    injection h3 with h3
    subst h3
    refine ⟨?_, by simp; omega⟩
    rw [List.getElem?_append_left hl2, hz2]
    simp

/-- two forwards of the same pair object, any calls in between: the same flag. -/
theorem hist_forward_again (L : LinFlat n K) (st st' : HStore n K) (ds : List HCall) (s : Nat)
    (h : st.run L (.fwd s :: ds ++ [.fwd s]) = .ok st') :
    st'.F.getLast? = st'.F[st.F.length]? ∧ st.F.length + 1 < st'.F.length := by
  obtain ⟨st1, st2, h1, h2, h3⟩ := run_cons_snoc L _ _ ds h
  cases hs : st.S[s]? with
  | none => simp [step, hs] at h1
  | some xu =>
    simp only [step, hs] at h1
    injection h1 with h1
    have hz1 : st1.F[st.F.length]? = some (fwdReg L xu) := by
      subst h1
      simp
    have hlenF : st.F.length < st1.F.length := by
      subst h1
      simp
    have hS1 : st1.S[s]? = some xu := by
      subst h1
      exact hs
    have hsl : s < st1.S.length := (List.getElem?_eq_some_iff.mp hS1).1
    have hz2 : st2.F[st.F.length]? = some (fwdReg L xu) :=
      ((run_keeps L ds h2).2.1 _ hlenF).trans hz1
    have hS2 : st2.S[s]? = some xu := ((run_keeps L ds h2).1 _ hsl).trans hS1
    have hl2 : st.F.length < st2.F.length := lt_of_lt_of_le hlenF (run_keeps L ds h2).2.2.2
    simp only [step, hS2] at h3
    injection h3 with h3
    subst h3
    refine ⟨?_, by simp; omega⟩
    rw [List.getElem?_append_left hl2, hz2]
    simp

/-- the index a call refers to. -/
def callOk (st : HStore n K) : HCall → Prop
  | .fwd s => s < st.S.length
  | .rev f => f < st.F.length

/-- a call whose index names a register the caller holds succeeds. -/
theorem step_total (L : LinFlat n K) (st : HStore n K) (c : HCall) (h : callOk st c) :
    ∃ st', st.step L c = .ok st' := by
  cases c with
  | fwd s =>
    have : s < st.S.length := h
    simp [step, List.getElem?_eq_getElem this]
  | rev f =>
    have : f < st.F.length := h
    simp [step, List.getElem?_eq_getElem this]

/-- a history all of whose calls refer to registers of the INITIAL store never fails (registers are
never removed). -/
theorem hist_total (L : LinFlat n K) (cs : List HCall) (st : HStore n K)
    (h : ∀ c ∈ cs, callOk st c) : ∃ st', st.run L cs = .ok st' := by
  induction cs generalizing st with
  | nil => exact ⟨st, rfl⟩
  | cons c cs ih =>
    obtain ⟨st1, h1⟩ := step_total L st c (h c (by simp))
    obtain ⟨a1, a2, a3, a4⟩ := step_keeps L h1
    have h' : ∀ d ∈ cs, callOk st1 d := by
      intro d hd
      have := h d (by simp [hd])
      cases d with
      | fwd s => exact lt_of_lt_of_le this a3
      | rev f => exact lt_of_lt_of_le this a4
    obtain ⟨st', h2⟩ := ih st1 h'
    exact ⟨st', by simp [run, h1, h2]⟩

/-! ### non-vacuity: the history of the seeded demonstration on a concrete valid structure -/

/-- the double integrator `x₁' = x₂, x₂' = u` in flat form. -/
def exL : LinFlat 2 ℚ where
  A := !![0, 1; 0, 0]
  b := ![0, 1]
  F := ![0, 0]
  T := !![1, 0; 0, 1]
  Tinv := !![1, 0; 0, 1]
  Cf := ![1, 0]

example : exL.Valid := by
  rw [← LinFlat.validB_iff]
  decide +kernel

/-- `z = forward(x, u); reverse(z); reverse(z); forward(reverse(z))` runs, and the second reverse
returns `(x, u) = ((1, -2), 3)` again. -/
example : (match (HStore.mk [((![1, -2] : Fin 2 → ℚ), (3 : ℚ))] []).run exL
      [.fwd 0, .rev 0, .rev 0, .fwd 1, .rev 0] with
    | .ok st => (st.S.length, st.F.length,
        (st.S.getLast?.map fun xu => (xu.1 0, xu.1 1, xu.2)), (st.F.getLast?.map fun z => (z 0, z 1, z 2)))
    | .error _ => (0, 0, none, none)) = (4, 2, some (1, -2, 3), some (1, -2, 3)) := by
  decide +kernel

end CtrlVerif.C20Hist
