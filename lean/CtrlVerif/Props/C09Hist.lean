/-
C09 — histories: FRD operator calls over objects that are made once and used many times.

The property quantifies over "expression trees of the operators".  A Python program does not
evaluate one tree: it keeps objects (`G`, `H`, earlier results) and calls operators on them again
and again, the same object on either side, twice in one call, in later calls.  The statement about
VALUES then has a second half that a single tree never exercises: a call reads its operands and
leaves them as they were.  `Model/C09Hist.lean` is the model of such a session (`Store`, `Step`,
`runH`: an object IS its value, the store only grows); this file proves what the correspondence
check relies on when it compares a generated history step by step with python-control run on live
objects (driver family `frdhist`, which executes `stepE`):

* `hist_length`, `hist_prefix`, `hist_operand_unchanged` — after ANY history every object that
  existed before still holds the value it had (no operator call writes to an operand, however the
  operand is used: left, right, feedback path, both sides at once);
* `hist_append`, `hist_result_final` — a result, once made, is not changed by later calls;
* `hist_slot` — the object made by step `j` is that step's tree evaluated over the store the
  earlier steps left;
* `hist_sound` — so (tree theorem) its matrices are, at every grid index, the pointwise value of
  the step's tree in the algebra of complex matrices, over the STORED values of its operands;
* `hist_repeat` — the same call on the same operands gives the same object, whatever was called
  in between (in particular `G.feedback(H, 1)` twice);
* `evalModel_bind`, `sig_bind`, `evalSem_bind` — a result used as an operand may be replaced by
  the tree that made it: a history is one expression tree with shared subtrees, and the tree
  theorems of `Props/C09Tree.lean` apply to the unfolded tree.
-/
import CtrlVerif.Model.C09Hist
import CtrlVerif.Props.C09Tree
import Mathlib.Tactic.FinCases
import Mathlib.Tactic.NormNum

namespace CtrlVerif.C09

open CtrlVerif CtrlVerif.FRDTree Matrix

variable {K : Type} [Field K] [DecidableEq K]

/-! ### the store only grows -/

theorem hist_length (E : Env K) (st : Store K) (steps : List (Step K)) :
    (runH E st steps).length = st.length + steps.length := by
  induction steps generalizing st with
  | nil => simp [runH]
  | cons s rest ih => simp [runH, ih]; omega

/-- Every object that exists keeps its value through any history. -/
theorem hist_prefix (E : Env K) (st : Store K) (steps : List (Step K)) :
    st <+: runH E st steps := by
  induction steps generalizing st with
  | nil => exact List.prefix_refl _
  | cons s rest ih => exact (List.prefix_append st _).trans (ih _)

private lemma prefix_getElem? {α : Type} {l₁ l₂ : List α} (h : l₁ <+: l₂) {i : Nat}
    (hi : i < l₁.length) : l₂[i]? = l₁[i]? := by
  rw [List.prefix_iff_getElem?.mp h i hi, List.getElem?_eq_getElem hi]

/-- Slot by slot: object `i` reads the same before and after. -/
theorem hist_operand_unchanged (E : Env K) (st : Store K) (steps : List (Step K)) (i : Nat)
    (hi : i < st.length) : (runH E st steps)[i]? = st[i]? :=
  prefix_getElem? (hist_prefix E st steps) hi

theorem hist_append (E : Env K) (st : Store K) (s1 s2 : List (Step K)) :
    runH E st (s1 ++ s2) = runH E (runH E st s1) s2 := by
  induction s1 generalizing st with
  | nil => rfl
  | cons s rest ih => simp [runH, ih]

/-- Later calls do not change what earlier calls returned. -/
theorem hist_result_final (E : Env K) (st : Store K) (s1 s2 : List (Step K)) :
    runH E st s1 <+: runH E st (s1 ++ s2) := by
  rw [hist_append]
  exact hist_prefix E _ s2

/-- The object made by step `j`: the step's tree, evaluated by the run-time layer over the
store as the steps before it left it. -/
theorem hist_slot (E : Env K) (st : Store K) (steps : List (Step K)) (j : Nat)
    (hj : j < steps.length) :
    (runH E st steps)[st.length + j]? =
      some (stepH E (runH E st (steps.take j)) steps[j]) := by
  have hsplit : steps = steps.take j ++ steps[j] :: steps.drop (j + 1) := by
    rw [List.getElem_cons_drop, List.take_append_drop]
  have hlen : (runH E st (steps.take j)).length = st.length + j := by
    rw [hist_length, List.length_take, Nat.min_eq_left (Nat.le_of_lt hj)]
  conv_lhs => rw [hsplit, hist_append]
  have hp : runH E st (steps.take j) ++ [stepH E (runH E st (steps.take j)) steps[j]] <+:
      runH E (runH E st (steps.take j)) (steps[j] :: steps.drop (j + 1)) :=
    hist_prefix E _ _
  have hlt : st.length + j <
      (runH E st (steps.take j) ++ [stepH E (runH E st (steps.take j)) steps[j]]).length := by
    simp [hlen]
  rw [prefix_getElem? hp hlt, ← hlen]
  simp

/-- Soundness of a history: when step `j` leaves an object, it is an FRD `R` returned by the
run-time layer for the step's tree `e` over the stored values, with the predicted shape / grid /
`smooth` flag, and at EVERY grid index the stored frequency and matrix of `R` are the pointwise
value of `e` in the algebra of matrices. -/
theorem hist_sound (E : Env K) (st : Store K) (steps : List (Step K)) (j : Nat)
    (hj : j < steps.length) (x : FOperand K)
    (hx : (runH E st steps)[st.length + j]? = some (some x)) :
    ∃ (n : Nat) (e : Expr K n) (R : DFRD K n),
      steps[j] (runH E st (steps.take j)) = some ⟨n, e⟩ ∧ x = .frd n R ∧
      e.evalModel E = .ok R ∧ e.sig = .ok ⟨R.p, R.m, R.smooth, R.sys.omega⟩ ∧
      ∀ k, e.evalSem E k = some ⟨R.sys.omega k, R.p, R.m, R.sys.data k⟩ := by
  rw [hist_slot E st steps j hj] at hx
  have hx' : stepH E (runH E st (steps.take j)) steps[j] = some x := by simpa using hx
  unfold stepH stepE at hx'
  cases hs : steps[j] (runH E st (steps.take j)) with
  | none => rw [hs] at hx'; simp [slotOf] at hx'
  | some ne =>
    obtain ⟨n, e⟩ := ne
    rw [hs] at hx'
    cases hR : e.evalModel E with
    | error err => simp [slotOf, hR] at hx'
    | ok R =>
      simp only [Option.map_some, slotOf, hR] at hx'
      obtain ⟨h1, h2⟩ := tree_sound E e R hR
      exact ⟨n, e, R, rfl, (Option.some.inj hx').symm, hR, h1, h2⟩

/-- The same call on the same operands gives the same object, whatever was called in between:
if steps `i ≤ j` are the same call and it names only objects that existed before step `i`,
the two slots are equal. -/
theorem hist_repeat (E : Env K) (st : Store K) (steps : List (Step K)) (i j k : Nat)
    (hij : i ≤ j) (hj : j < steps.length) (hk : k ≤ st.length + i)
    (hsame : steps[i]'(Nat.lt_of_le_of_lt hij hj) = steps[j])
    (hread : (steps[j]).ReadsOnly k) :
    (runH E st steps)[st.length + i]? = (runH E st steps)[st.length + j]? := by
  have hi : i < steps.length := Nat.lt_of_le_of_lt hij hj
  rw [hist_slot E st steps i hi, hist_slot E st steps j hj, hsame]
  congr 1
  unfold stepH stepE
  have hpre : runH E st (steps.take i) <+: runH E st (steps.take j) := by
    have : steps.take j = steps.take i ++ (steps.take j).drop i := by
      conv_lhs => rw [← List.take_append_drop i (steps.take j)]
      rw [List.take_take, Nat.min_eq_left hij]
    rw [this]
    exact hist_result_final E st _ _
  have hlen : (runH E st (steps.take i)).length = st.length + i := by
    rw [hist_length, List.length_take, Nat.min_eq_left (Nat.le_of_lt hi)]
  have htake : (runH E st (steps.take i)).take k = (runH E st (steps.take j)).take k := by
    obtain ⟨t, ht⟩ := hpre
    rw [← ht, List.take_append_of_le_length (by omega)]
  rw [hread _ _ htake]

/-! ### a history is a tree with shared subtrees -/

variable {n : Nat}

/-- Replacing operands by the trees that made them does not change what the run-time layer
returns (nor which error it raises). -/
theorem evalModel_bind (E : Env K) (σ : DFRD K n → Expr K n) (e : Expr K n)
    (hσ : ∀ F ∈ e.leaves, (σ F).evalModel E = .ok F) :
    (e.bind σ).evalModel E = e.evalModel E := by
  induction e with
  | leaf F => exact hσ F (by simp [Expr.leaves])
  | neg a ih | binV op a v ih | rbin op v a ih | pow a k ih | fbV a v s ih | fbL v h a s ih
  | appendV a v h ih | sel a r c ih =>
    simp only [Expr.leaves] at hσ
    simp [Expr.bind, Expr.evalModel, ih hσ]
  | bin op a b iha ihb | fb a b s iha ihb | append a b iha ihb =>
    simp only [Expr.leaves, List.mem_append] at hσ
    simp [Expr.bind, Expr.evalModel, iha fun F h => hσ F (Or.inl h),
      ihb fun F h => hσ F (Or.inr h)]

/-- … nor the predicted shape, grid and `smooth` flag … -/
theorem sig_bind (E : Env K) (σ : DFRD K n → Expr K n) (e : Expr K n)
    (hσ : ∀ F ∈ e.leaves, (σ F).evalModel E = .ok F) :
    (e.bind σ).sig = e.sig := by
  induction e with
  | leaf F => exact ((tree_spec E (σ F)).ok F (hσ F (by simp [Expr.leaves]))).1
  | neg a ih | binV op a v ih | rbin op v a ih | pow a k ih | fbV a v s ih | fbL v h a s ih
  | appendV a v h ih | sel a r c ih =>
    simp only [Expr.leaves] at hσ
    simp [Expr.bind, Expr.sig, ih hσ]
  | bin op a b iha ihb | fb a b s iha ihb | append a b iha ihb =>
    simp only [Expr.leaves, List.mem_append] at hσ
    simp [Expr.bind, Expr.sig, iha fun F h => hσ F (Or.inl h),
      ihb fun F h => hσ F (Or.inr h)]

theorem evalSemE_bind (E : Env K) (σ : DFRD K n → Expr K n) (k : Fin n) (e : Expr K n)
    (hσ : ∀ F ∈ e.leaves, (σ F).evalModel E = .ok F) :
    (e.bind σ).evalSemE E k = e.evalSemE E k := by
  induction e with
  | leaf F => exact ((tree_spec E (σ F)).ok F (hσ F (by simp [Expr.leaves]))).2 k
  | neg a ih | binV op a v ih | rbin op v a ih | pow a j ih | fbV a v s ih | fbL v h a s ih
  | appendV a v h ih | sel a r c ih =>
    simp only [Expr.leaves] at hσ
    simp [Expr.bind, Expr.evalSemE, ih hσ]
  | bin op a b iha ihb | fb a b s iha ihb | append a b iha ihb =>
    simp only [Expr.leaves, List.mem_append] at hσ
    simp [Expr.bind, Expr.evalSemE, iha fun F h => hσ F (Or.inl h),
      ihb fun F h => hσ F (Or.inr h)]

/-- … nor the pointwise value at any grid index: the tree theorems apply to the unfolded
history. -/
theorem evalSem_bind (E : Env K) (σ : DFRD K n → Expr K n) (k : Fin n) (e : Expr K n)
    (hσ : ∀ F ∈ e.leaves, (σ F).evalModel E = .ok F) :
    (e.bind σ).evalSem E k = e.evalSem E k := by
  unfold Expr.evalSem
  rw [evalSemE_bind E σ k e hσ]

/-! ### non-vacuity: a concrete session over `ℚ` -/

section nonvacuity

/-- `G(jω_k) = k + 1` on the grid `ω = 1, 2`. -/
def hG : DFRD ℚ 2 := ⟨1, 1, ⟨fun k => k.val + 1, fun k => !![(k.val : ℚ) + 1]⟩, false⟩
/-- the feedback path `H = 1/4`. -/
def hH : DFRD ℚ 2 := ⟨1, 1, ⟨fun k => k.val + 1, fun _ => !![1 / 4]⟩, false⟩
/-- the session starts with the two objects. -/
def hSt : Store ℚ := [some (.frd 2 hG), some (.frd 2 hH)]
/-- `G.feedback(H, 1)` — positive feedback, on the live objects 0 and 1. -/
def sFb : Step ℚ := fun st => do
  let G ← st.frd? 2 0
  let H ← st.frd? 2 1
  pure ⟨2, .fb (.leaf G) (.leaf H) 1⟩
/-- `-H` -/
def sNegH : Step ℚ := fun st => do
  let H ← st.frd? 2 1
  pure ⟨2, .neg (.leaf H)⟩
/-- `-T` for the object `T` made by the first step (slot 2). -/
def sNegT : Step ℚ := fun st => do
  let T ← st.frd? 2 2
  pure ⟨2, .neg (.leaf T)⟩

/-- the history `T = G.feedback(H, 1); N = -H; T2 = G.feedback(H, 1); Q = -T`. -/
def hSteps : List (Step ℚ) := [sFb, sNegH, sFb, sNegT]

lemma frd?_take (st : Store ℚ) (k i : Nat) (hi : i < k) :
    Store.frd? 2 (st.take k) i = Store.frd? 2 st i := by
  unfold Store.frd?
  rw [List.getElem?_take_of_lt hi]

lemma sFb_readsOnly : sFb.ReadsOnly 2 := by
  intro st st' h
  unfold sFb
  rw [← frd?_take st 2 0 (by omega), ← frd?_take st 2 1 (by omega), h,
    frd?_take st' 2 0 (by omega), frd?_take st' 2 1 (by omega)]

/-- the closed loop at the grid index `k`: `(k+1) (1 - (k+1)/4)⁻¹`, i.e. `4/3` and `4`. -/
lemma hFb_sem (k : Fin 2) : (Expr.fb (.leaf hG) (.leaf hH) (1 : ℚ)).evalSem exE k =
    some ⟨k.val + 1, 1, 1, (!![(k.val : ℚ) + 1] : Matrix (Fin 1) (Fin 1) ℚ) *
      (1 - (1 : ℚ) • ((!![1 / 4] : Matrix (Fin 1) (Fin 1) ℚ) * !![(k.val : ℚ) + 1]))⁻¹⟩ := by
  unfold Expr.evalSem
  have h : (Expr.fb (.leaf hG) (.leaf hH) (1 : ℚ)).evalSemE exE k = .ok ⟨k.val + 1, 1, 1,
      (!![(k.val : ℚ) + 1] : Matrix (Fin 1) (Fin 1) ℚ) *
      (1 - (1 : ℚ) • ((!![1 / 4] : Matrix (Fin 1) (Fin 1) ℚ) * !![(k.val : ℚ) + 1]))⁻¹⟩ := by
    show PVal.convert exE (pt hH k).w 1 1 (.pv (pt hH k)) >>=
      (fun B => PVal.feedbackCore (pt hG k) B 1) = _
    rw [sem_convert_same]
    refine (sem_feedback_matrix _ _ 1 1 !![(k.val : ℚ) + 1] !![1 / 4] 1).trans ?_
    rw [if_neg]
    · rfl
    · fin_cases k <;> norm_num [Matrix.det_fin_one]
  rw [h]
  rfl

/-- the first positive-feedback call returns, with the closed-loop values. -/
lemma hFb_ok : ∃ R, (Expr.fb (.leaf hG) (.leaf hH) (1 : ℚ)).evalModel exE = .ok R ∧
    ∀ k, pt R k = ⟨k.val + 1, 1, 1, (!![(k.val : ℚ) + 1] : Matrix (Fin 1) (Fin 1) ℚ) *
      (1 - (1 : ℚ) • ((!![1 / 4] : Matrix (Fin 1) (Fin 1) ℚ) * !![(k.val : ℚ) + 1]))⁻¹⟩ := by
  obtain ⟨R, hR, _, hpt⟩ := tree_complete exE (Expr.fb (.leaf hG) (.leaf hH) (1 : ℚ))
    ⟨1, 1, false, fun k => k.val + 1⟩ rfl _ hFb_sem
  exact ⟨R, hR, hpt⟩

lemma frd?_of_getElem? (st : Store ℚ) (i : Nat) (R : DFRD ℚ 2)
    (h : st[i]? = some (some (.frd 2 R))) : Store.frd? 2 st i = some R := by
  unfold Store.frd?
  rw [h]
  simp

/-- The history theorems are not vacuous.  In the session
`T = G.feedback(H, 1); N = -H; T2 = G.feedback(H, 1); Q = -T` over `G_k = k + 1`, `H = 1/4`:
the two objects still hold their values at the end (`hist_operand_unchanged`); the first
positive-feedback call returns the closed loop `G_k (1 - H G_k)⁻¹` (`hist_slot`, `hist_sound`);
the second call — after `H` was used by another operator — returns the SAME object
(`hist_repeat`; a `feedback` that negated `H.frdata` in place would return `G_k (1 + H G_k)⁻¹`
here); and a later step that uses the first result as its operand sees that result
(`hist_result_final`). -/
example : ∃ R : DFRD ℚ 2,
    (runH exE hSt hSteps)[0]? = some (some (.frd 2 hG)) ∧
    (runH exE hSt hSteps)[1]? = some (some (.frd 2 hH)) ∧
    (runH exE hSt hSteps)[2]? = some (some (.frd 2 R)) ∧
    (runH exE hSt hSteps)[4]? = some (some (.frd 2 R)) ∧
    (∀ k, pt R k = ⟨k.val + 1, 1, 1, (!![(k.val : ℚ) + 1] : Matrix (Fin 1) (Fin 1) ℚ) *
      (1 - (1 : ℚ) • ((!![1 / 4] : Matrix (Fin 1) (Fin 1) ℚ) * !![(k.val : ℚ) + 1]))⁻¹⟩) ∧
    (runH exE hSt hSteps)[5]? = some (some (.frd 2 R.neg)) := by
  obtain ⟨R, hR, hpt⟩ := hFb_ok
  have h2 : (runH exE hSt hSteps)[2]? = some (some (.frd 2 R)) := by
    have h := hist_slot exE hSt hSteps 0 (by decide)
    rw [show hSt.length + 0 = 2 from rfl] at h
    rw [h]
    show some (slotOf (K := ℚ) (some ⟨2, (Expr.fb (.leaf hG) (.leaf hH) (1 : ℚ)).evalModel exE⟩)) = _
    rw [hR]
    rfl
  have h4 : (runH exE hSt hSteps)[4]? = (runH exE hSt hSteps)[2]? :=
    (hist_repeat exE hSt hSteps 0 2 2 (by decide) (by decide) (by decide) rfl sFb_readsOnly).symm
  have h5 : (runH exE hSt hSteps)[5]? = some (some (.frd 2 R.neg)) := by
    have h := hist_slot exE hSt hSteps 3 (by decide)
    rw [show hSt.length + 3 = 5 from rfl] at h
    rw [h]
    have hpre : (runH exE hSt (hSteps.take 3))[2]? = some (some (.frd 2 R)) := by
      have := hist_result_final exE hSt (hSteps.take 3) (hSteps.drop 3)
      rw [List.take_append_drop] at this
      rw [← h2]
      exact (prefix_getElem? this (by rw [hist_length]; decide)).symm
    show some (slotOf (K := ℚ) (stepE exE (runH exE hSt (hSteps.take 3)) sNegT)) = _
    unfold stepE sNegT
    rw [frd?_of_getElem? _ 2 R hpre]
    rfl
  exact ⟨R, hist_operand_unchanged exE hSt hSteps 0 (by decide),
    hist_operand_unchanged exE hSt hSteps 1 (by decide), h2, h4.trans h2, hpt, h5⟩

/-- unfolding: in `Q = -T` the operand `T` may be replaced by the tree `G.feedback(H, 1)` that
made it (`evalModel_bind`: its hypothesis is satisfiable by a substitution that is not the
identity, and the conclusion is the value of `-(G.feedback(H, 1))`). -/
example : ∃ R : DFRD ℚ 2,
    (Expr.neg (Expr.fb (.leaf hG) (.leaf hH) (1 : ℚ))).evalModel exE = .ok R.neg ∧
    (Expr.neg (.leaf R)).evalModel exE = .ok R.neg := by
  obtain ⟨R, hR, _⟩ := hFb_ok
  refine ⟨R, ?_, rfl⟩
  have := evalModel_bind exE (fun _ => Expr.fb (.leaf hG) (.leaf hH) (1 : ℚ)) (.neg (.leaf R))
    (by intro F hF; simp [Expr.leaves] at hF; rw [hF]; exact hR)
  exact this

end nonvacuity

end CtrlVerif.C09
