/-
Source-text tie of C01 (DESIGN §10.3, notes/NOTES-py2lean-tf.md): index and the remaining
corollaries.

On every run of the C01 check `harness/core/py2lean_tf.py` rewrites `Generated/TF*.lean` from the
text of the arithmetic methods of `class TransferFunction` (control/xferfcn.py) of the tree under
check.  The equality theorems — the run-time operators of the hand-written model
(`Model/TFDyn.lean`, the layer the driver executes and all other C01 theorems lead up to) EQUAL the
generated methods — are in

  `Props/C01GenNeg.lean`  `generated_neg_eq`                                    (`__neg__`)
  `Props/C01GenAdd.lean`  `generated_addSiso_eq`, `generated_add_eq`, `generated_radd_eq`,
                          `generated_sub_eq`, `generated_rsub_scalar/_array/_tf`
                                          (`_add_siso`, `__add__`, `__radd__`, `__sub__`, `__rsub__`)
  `Props/C01GenMul.lean`  `generated_mul_eq`, `generated_rmul_eq`, `generated_rmul_ones`
                                                                        (`__mul__`, `__rmul__`)
  `Props/C01GenDiv.lean`  `generated_truediv_eq`, `generated_pow_eq`, `generated_rtruediv_eq`
                                                     (`__truediv__`, `__pow__`, `__rtruediv__`)
  `Props/C01GenFb.lean`   `generated_feedback_eq`                                   (`feedback`)
  `Props/C01GenCtor.lean` `generated_initChecks_eq`, `generated_truncatecoeff_eq`,
                          `generated_ctor_core_eq`, `generated_ctor_mkTF`
                               (the zero-check loop of `__init__` and `_truncatecoeff` = `TFM.mk'`)

each with the `…_ss / …_foreign` companions for the operand kinds outside the model's `Operand`
type.  This file transports the remaining headline theorems of `Props/C01.lean` (÷ and feedback,
with their error cases) to the functions the source text defines; those for `-`, `+`, `−`, `×` are
beside the equality theorems (`generated_neg_sem`, `generated_add_sem`, `generated_sub_sem`,
`generated_mul_sem`, `generated_rmul_sem`, `…_shape_error`).
-/
import CtrlVerif.Props.C01GenDiv
import CtrlVerif.Props.C01GenFb
import CtrlVerif.Props.C01GenCtor

namespace CtrlVerif.C01Gen
open CtrlVerif

variable {K : Type} [Field K] [DecidableEq K]

/-- SISO division of the generated `__truediv__`: defined exactly when the divisor is not the zero
function; the result denotes the quotient. -/
theorem generated_truediv_sem (G H : DTF K) (hGs : G.isSiso = true) (hHs : H.isSiso = true)
    (hG : G.sys.WF) (hH : H.sys.WF) (dt : Dt) (hdt : common G.dt H.dt = .ok dt)
    (hne : H.frac00.sem ≠ 0) :
    ∃ s : TFM (Fin 1) (Fin 1) K, Generated.TF.truediv G (.tf H) = .ok ⟨1, 1, s, dt⟩ ∧ s.WF ∧
      s.sem 0 0 = G.frac00.sem / H.frac00.sem := by
  obtain ⟨hGp, hGm⟩ := (isSiso_iff G).mp hGs
  obtain ⟨hHp, hHm⟩ := (isSiso_iff H).mp hHs
  obtain ⟨R, h1, h2, h3⟩ := C01.sem_truediv (TFM.siso G.frac00) (TFM.siso H.frac00)
    (siso_wf _ (frac00_wf G hGs hG)) (siso_wf _ (frac00_wf H hHs hH)) (by rwa [siso_sem])
  refine ⟨R, ?_, h2, by rw [h3, siso_sem, siso_sem]⟩
  rw [generated_truediv_tf G H (by omega) (by omega)]
  simp [DTF.truedivCore, DTF.divSisoCore, hGs, hHs, hdt, h1, bind, Except.bind, pure, Except.pure]

/-- division by the zero function raises `ValueError` (zero denominator). -/
theorem generated_truediv_zero_raises (G H : DTF K) (hGs : G.isSiso = true) (hHs : H.isSiso = true)
    (hG : G.sys.WF) (hH : H.sys.WF) (dt : Dt) (hdt : common G.dt H.dt = .ok dt)
    (hz : H.frac00.sem = 0) :
    Generated.TF.truediv G (.tf H) = .error .zeroDen := by
  obtain ⟨hGp, hGm⟩ := (isSiso_iff G).mp hGs
  obtain ⟨hHp, hHm⟩ := (isSiso_iff H).mp hHs
  have h1 := C01.truediv_zero_raises (TFM.siso G.frac00) (TFM.siso H.frac00)
    (siso_wf _ (frac00_wf G hGs hG)) (siso_wf _ (frac00_wf H hHs hH)) (by rwa [siso_sem])
  rw [generated_truediv_tf G H (by omega) (by omega)]
  simp [DTF.truedivCore, DTF.divSisoCore, hGs, hHs, hdt, h1, bind, Except.bind]

/-- the generated `feedback`: `G / (1 - sign·H·G)` whenever that function exists. -/
theorem generated_feedback_sem (G H : DTF K) (sign : K) (hGs : G.isSiso = true)
    (hHs : H.isSiso = true) (hG : G.sys.WF) (hH : H.sys.WF) (dt : Dt)
    (hdt : common G.dt H.dt = .ok dt)
    (hne : 1 - RatFunc.C sign * H.frac00.sem * G.frac00.sem ≠ 0) :
    ∃ s : TFM (Fin 1) (Fin 1) K, Generated.TF.feedback G (.tf H) sign = .ok ⟨1, 1, s, dt⟩ ∧ s.WF ∧
      s.sem 0 0 = G.frac00.sem / (1 - RatFunc.C sign * H.frac00.sem * G.frac00.sem) := by
  obtain ⟨hGp, hGm⟩ := (isSiso_iff G).mp hGs
  obtain ⟨hHp, hHm⟩ := (isSiso_iff H).mp hHs
  obtain ⟨R, h1, h2, h3⟩ := C01.sem_feedback (TFM.siso G.frac00) (TFM.siso H.frac00) sign
    (siso_wf _ (frac00_wf G hGs hG)) (siso_wf _ (frac00_wf H hHs hH)) (by rwa [siso_sem, siso_sem])
  refine ⟨R, ?_, h2, by rw [h3, siso_sem, siso_sem]⟩
  rw [generated_feedback_tf G H sign (by omega) (by omega)]
  simp [DTF.feedbackCore, hGs, hHs, hdt, h1, bind, Except.bind, pure, Except.pure]

/-- a singular loop (`1 - sign·H·G ≡ 0`) raises. -/
theorem generated_feedback_singular_raises (G H : DTF K) (sign : K) (hGs : G.isSiso = true)
    (hHs : H.isSiso = true) (hG : G.sys.WF) (hH : H.sys.WF) (dt : Dt)
    (hdt : common G.dt H.dt = .ok dt)
    (hz : 1 - RatFunc.C sign * H.frac00.sem * G.frac00.sem = 0) :
    Generated.TF.feedback G (.tf H) sign = .error .zeroDen := by
  obtain ⟨hGp, hGm⟩ := (isSiso_iff G).mp hGs
  obtain ⟨hHp, hHm⟩ := (isSiso_iff H).mp hHs
  have h1 := C01.feedback_singular_raises (TFM.siso G.frac00) (TFM.siso H.frac00) sign
    (siso_wf _ (frac00_wf G hGs hG)) (siso_wf _ (frac00_wf H hHs hH)) (by rwa [siso_sem, siso_sem])
  rw [generated_feedback_tf G H sign (by omega) (by omega)]
  simp [DTF.feedbackCore, hGs, hHs, hdt, h1, bind, Except.bind]

/-- MIMO feedback is `ControlMIMONotImplemented`. -/
theorem generated_feedback_mimo (G H : DTF K) (sign : K) (hG : 0 < G.p ∧ 0 < G.m)
    (hH : 0 < H.p ∧ 0 < H.m) (h : G.isSiso = false ∨ H.isSiso = false) :
    Generated.TF.feedback G (.tf H) sign = .error .notImplemented := by
  rw [generated_feedback_tf G H sign hG hH]
  rcases h with h | h <;> simp [DTF.feedbackCore, h]

/-! non-vacuity: unit feedback around `(s + 2) / (s² + 3)` exists; `1 / (g - g)`-style zero
divisors and singular loops are covered by the examples of `Props/C01.lean` through the equalities. -/

example : ∃ s : TFM (Fin 1) (Fin 1) ℚ,
    Generated.TF.feedback (⟨1, 1, C01.exG1.1, .cont⟩ : DTF ℚ) (.tf ⟨1, 1, TFM.siso Frac.zero, .none⟩) 1
      = .ok ⟨1, 1, s, .cont⟩ ∧ s.WF := by
  obtain ⟨s, h1, h2, _⟩ := generated_feedback_sem (⟨1, 1, C01.exG1.1, .cont⟩ : DTF ℚ)
    ⟨1, 1, TFM.siso Frac.zero, .none⟩ 1 rfl rfl C01.exG1.2 (siso_wf _ Frac.wf_zero) .cont rfl
    (by simp [DTF.frac00, TFM.siso])
  exact ⟨s, h1, h2⟩

example : Generated.TF.feedback (⟨1, 1, TFM.siso Frac.one, .none⟩ : DTF ℚ)
    (.tf ⟨1, 1, TFM.siso Frac.one, .none⟩) 1 = .error .zeroDen :=
  generated_feedback_singular_raises _ _ 1 rfl rfl (siso_wf _ Frac.wf_one) (siso_wf _ Frac.wf_one)
    .none rfl (by simp [DTF.frac00, TFM.siso, Frac.sem_one])

example : Generated.TF.truediv (⟨1, 1, C01.exG1.1, .cont⟩ : DTF ℚ)
    (.tf ⟨1, 1, TFM.siso Frac.zero, .none⟩) = .error .zeroDen :=
  generated_truediv_zero_raises _ _ rfl rfl C01.exG1.2 (siso_wf _ Frac.wf_zero) .cont rfl
    (by simp [DTF.frac00, TFM.siso])

end CtrlVerif.C01Gen
