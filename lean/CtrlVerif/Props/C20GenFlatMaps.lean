/-
Source-text tie of C20, part 2: `LinearFlatSystem.forward` and `LinearFlatSystem.reverse`
(control/flatsys/linflat.py).
-/
import CtrlVerif.Generated.FlatForward
import CtrlVerif.Generated.FlatReverse
import CtrlVerif.Lemmas.PyFlat

namespace CtrlVerif.C20GenFlat

open Matrix CtrlVerif PyFlat

variable {K : Type} [Field K] [DecidableEq K] {n : Nat}

/-- the state of the loop of `forward` after `k` passes: `H = Cf A^k`, the flag filled up to entry `k`. -/
def fwdStage (L : LinFlat n K) (x : Fin n → K) (u : K) (k : Nat) : List (List K) × PMat K :=
  ([List.ofFn fun i : Fin (n + 1) => if i.val ≤ k then L.forward x u i else 0],
    ⟨1, n, rowMat (L.rowPow k)⟩)

theorem fwdStage_zero (L : LinFlat n K) (x : Fin n → K) (u : K) :
    fwdStage L x u 0 = ([List.ofFn fun i : Fin (n + 1) =>
        if i.val = 0 then (rowMat L.Cf * of fun i (_ : Fin 1) => x i) 0 0 else 0], ⟨1, n, rowMat L.Cf⟩) := by
  unfold fwdStage
  congr 3
  funext i
  by_cases h : i.val = 0
  · simp [h, LinFlat.forward, rowMat_mul_col]
  · have : ¬ i.val ≤ 0 := by omega
    simp [h, this]

theorem fwdStage_step (L : LinFlat n K) (x : Fin n → K) (u : K) (k : Nat) (hk : k < n) :
    (List.ofFn fun i : Fin (n + 1) => if i.val = k + 1 then
        (rowMat (L.rowPow k) * (L.A * (of fun i (_ : Fin 1) => x i) + colMat L.b * of fun (_ : Fin 1) (_ : Fin 1) => u)) 0 0
      else if i.val ≤ k then L.forward x u i else 0)
      = List.ofFn fun i : Fin (n + 1) => if i.val ≤ k + 1 then L.forward x u i else 0 := by
  congr 1
  funext i
  by_cases h : i.val = k + 1
  · have h1 : i.val ≤ k + 1 := by omega
    have h2 : ¬ i.val = 0 := by omega
    have h3 : i.val - 1 = k := by omega
    simp only [h, if_true, le_refl]
    rw [mul_col_add, rowMat_mul_col]
    simp only [LinFlat.forward, h, Nat.add_eq_zero_iff, one_ne_zero, and_false, if_false, Nat.add_sub_cancel]
  · by_cases h2 : i.val ≤ k
    · have : i.val ≤ k + 1 := by omega
      simp [h, h2, this]
    · have : ¬ i.val ≤ k + 1 := by omega
      simp [h, h2, this]

theorem generated_forward_eq (L : LinFlat n K) (C : Matrix (Fin 1) (Fin n) K) (D : Matrix (Fin 1) (Fin 1) K)
    (dt : Dt) (x : Fin n → K) (u : K) :
    Generated.linflatForward (L.toPy C D dt) (List.ofFn x) [u] = .ok [List.ofFn (L.forward x u)] := by
  have hloop : ∀ f : List (List K) × PMat K → Int → Except Err (List (List K) × PMat K),
      (∀ k, k < n → f (fwdStage L x u k) (1 + (k : Int)) = .ok (fwdStage L x u (k + 1))) →
      List.foldlM f (fwdStage L x u 0) (PyArith.range 1 ((n : Int) + 1)) = .ok (fwdStage L x u n) := by
    intro f hf
    have := foldlM_range_stages f 1 n (fwdStage L x u) hf
    rwa [add_comm (1 : Int)] at this
  have hset0 : ∀ v : K, PyArith.setItem (List.ofFn fun _ : Fin (n + 1) => (0 : K)) (0 : Int) v
      = .ok (List.ofFn fun i : Fin (n + 1) => if i.val = 0 then v else 0) :=
    fun v => setItem_ofFn _ 0 (Nat.succ_pos n) v
  unfold Generated.linflatForward
  simp only [LinFlat.toPy, colOf_ofFn, rowOf_singleton, PySS.A, PySS.B, zeros1_succ, bind, Except.bind,
    PMat.matmul_mk, item_mk, getItem_singleton, setItem_singleton, hset0]
  rw [← fwdStage_zero, hloop]
  · simp only [fwdStage, pure, Except.pure]
    congr 3
    funext i
    have := i.isLt
    rw [if_pos (by omega)]
  · intro k hk
    have e : (1 : Int) + (k : Int) = ((k + 1 : Nat) : Int) := by push_cast; ring
    have hs := fun (f : Fin (n + 1) → K) (v : K) => setItem_ofFn f (k + 1) (by omega : k + 1 < n + 1) v
    simp only [fwdStage, PMat.add_mk, PMat.matmul_mk, item_mk, getItem_singleton, setItem_singleton, e,
      hs, fwdStage_step L x u k hk, rowMat_mul, pure, Except.pure]
    rfl

/-- a state of the wrong length: `self.Cf @ x` raises (`ValueError`). -/
theorem generated_forward_shape_x (L : LinFlat n K) (C : Matrix (Fin 1) (Fin n) K) (D : Matrix (Fin 1) (Fin 1) K)
    (dt : Dt) (xs us : List K) (h : xs.length ≠ n) :
    Generated.linflatForward (L.toPy C D dt) xs us = .error .shape := by
  have hm : PMat.matmul (⟨1, n, rowMat L.Cf⟩ : PMat K) (colOf xs) = .error .shape :=
    PMat.matmul_shape_ne (by simpa [colOf] using h)
  unfold Generated.linflatForward
  simp only [LinFlat.toPy, zeros1_succ, bind, Except.bind, hm]

/-- an input with other than one entry and at least one state: `A @ x + B @ u` has the wrong shape
(NumPy broadcasts, `.item()` then raises `ValueError`). -/
theorem generated_forward_shape_u (L : LinFlat n K) (C : Matrix (Fin 1) (Fin n) K) (D : Matrix (Fin 1) (Fin 1) K)
    (dt : Dt) (x : Fin n → K) (us : List K) (hn : 0 < n) (h : us.length ≠ 1) :
    Generated.linflatForward (L.toPy C D dt) (List.ofFn x) us = .error .shape := by
  have hset0 : ∀ v : K, PyArith.setItem (List.ofFn fun _ : Fin (n + 1) => (0 : K)) (0 : Int) v
      = .ok (List.ofFn fun i : Fin (n + 1) => if i.val = 0 then v else 0) :=
    fun v => setItem_ofFn _ 0 (Nat.succ_pos n) v
  have hadd : ∀ M : Matrix (Fin n) (Fin 1) K, ∀ N : Matrix (Fin n) (Fin us.length) K,
      PMat.add (⟨n, 1, M⟩ : PMat K) ⟨n, us.length, N⟩ = .error .shape :=
    fun M N => PMat.add_shape_ne (by simp only [not_and]; intro _; exact h)
  unfold Generated.linflatForward
  simp only [LinFlat.toPy, colOf_ofFn, PySS.A, PySS.B, zeros1_succ, bind, Except.bind,
    PMat.matmul_mk, item_mk, getItem_singleton, setItem_singleton, hset0]
  rw [range_cons 1 ((n : Int) + 1) (by omega), foldlM_cons_error _ _ _ _ .shape]
  simp only [rowOf, PMat.matmul_mk, hadd]

/-- a system without states: the loop is not entered, the input is not looked at. -/
theorem generated_forward_no_states (L : LinFlat 0 K) (C : Matrix (Fin 1) (Fin 0) K) (D : Matrix (Fin 1) (Fin 1) K)
    (dt : Dt) (us : List K) :
    Generated.linflatForward (L.toPy C D dt) [] us = .ok [[0]] := by
  have e : PyArith.range 1 (((0 : Nat) : Int) + 1) = [] := by simp [PyArith.range]
  have hc : colOf ([] : List K) = ⟨0, 1, Matrix.of fun i _ => Fin.elim0 i⟩ := by
    have := colOf_ofFn (K := K) (m := 0) (fun i => Fin.elim0 i)
    simpa using this
  unfold Generated.linflatForward
  simp only [LinFlat.toPy, hc, zeros1_succ, bind, Except.bind, PMat.matmul_mk, item_mk, getItem_singleton,
    setItem_singleton, e, List.foldlM_nil, pure, Except.pure]
  simp [PyArith.setItem, PyArith.normIdx, Matrix.mul_apply]

/-- `reverse` on a flag with one array of `n + 1` entries. -/
theorem generated_reverse_eq (L : LinFlat n K) (C : Matrix (Fin 1) (Fin n) K) (D : Matrix (Fin 1) (Fin 1) K)
    (dt : Dt) (z : Fin (n + 1) → K) (rest : List (List K)) :
    Generated.linflatReverse (L.toPy C D dt) (List.ofFn z :: rest)
      = .ok (List.ofFn (L.reverse z).1, [(L.reverse z).2]) := by
  unfold Generated.linflatReverse
  simp only [LinFlat.toPy, getItem_cons_zero, sliceList_init, matVec_ofFn, getItem_ofFn_last, dot_ofFn,
    reshapeVec_ofFn, reshapeNum_one, bind, Except.bind, pure, Except.pure]
  rfl

/-- an empty flag list: `zflag[0]` raises `IndexError`. -/
theorem generated_reverse_nil (L : LinFlat n K) (C : Matrix (Fin 1) (Fin n) K) (D : Matrix (Fin 1) (Fin 1) K)
    (dt : Dt) : Generated.linflatReverse (L.toPy C D dt) [] = .error .indexRange := by
  unfold Generated.linflatReverse
  simp only [getItem_nil, bind, Except.bind]

/-- a flag array of the wrong length raises: `self.Tinv @ z` does not fit (`ValueError`) — except that
an EMPTY array for a system without states gets as far as `zflag[0][-1]` (`IndexError`). -/
theorem generated_reverse_shape (L : LinFlat n K) (C : Matrix (Fin 1) (Fin n) K) (D : Matrix (Fin 1) (Fin 1) K)
    (dt : Dt) (z0 : List K) (rest : List (List K)) (h : z0.length ≠ n + 1) :
    Generated.linflatReverse (L.toPy C D dt) (z0 :: rest)
      = .error (if z0.length = 0 ∧ n = 0 then .indexRange else .shape) := by
  unfold Generated.linflatReverse
  simp only [LinFlat.toPy, getItem_cons_zero, bind, Except.bind]
  by_cases h0 : z0.length = 0 ∧ n = 0
  · obtain ⟨hz, hn⟩ := h0
    subst hn
    have hz' : z0 = [] := List.eq_nil_of_length_eq_zero hz
    subst hz'
    simp [sliceList, matVec, getItem_nil]
  · rw [if_neg h0, matVec_shape]
    rw [sliceList_init_length]
    omega

/-! non-vacuity (ℚ): the first-order system `x' = -2 x + u` with flat output `z = x`
(`Cf = T = Tinv = 1`, `F = -2`) -/

def L1 : LinFlat 1 ℚ := ⟨!![-2], ![1], ![-2], !![1], !![1], ![1]⟩

/-- the generated maps compute: `forward(3, 5) = [[3, -1]]`, `reverse([[3, -1]]) = (3, 5)`. -/
example : Generated.linflatForward (L1.toPy !![1] !![0] .cont) [3] [5] = .ok [[3, -1]] := by
  have h := generated_forward_eq L1 !![1] !![0] .cont ![3] 5
  have e : List.ofFn (L1.forward ![3] 5) = [3, -1] := by decide +kernel
  rw [e] at h
  exact h

example : Generated.linflatReverse (L1.toPy !![1] !![0] .cont) [[3, -1]] = .ok ([3], [5]) := by
  have h := generated_reverse_eq L1 !![1] !![0] .cont ![3, -1] []
  have e1 : List.ofFn (L1.reverse ![3, -1]).1 = [3] := by decide +kernel
  have e2 : (L1.reverse ![3, -1]).2 = 5 := by decide +kernel
  rw [e1, e2] at h
  exact h

/-- … and raise on a state of the wrong length, an input with two entries, a flag of the wrong length. -/
example : Generated.linflatForward (L1.toPy !![1] !![0] .cont) [3, 4] [5] = .error .shape :=
  generated_forward_shape_x L1 _ _ _ _ _ (by decide)

example : Generated.linflatForward (L1.toPy !![1] !![0] .cont) [3] [5, 6] = .error .shape :=
  generated_forward_shape_u L1 !![1] !![0] .cont ![3] [5, 6] (by decide) (by decide)

example : Generated.linflatReverse (L1.toPy !![1] !![0] .cont) [[3, -1, 0]] = .error .shape :=
  generated_reverse_shape L1 _ _ _ [3, -1, 0] [] (by decide)

end CtrlVerif.C20GenFlat
