/-
Source-text tie of C14, discretisation, part 3: the state-space branch of
`scipy.signal.cont2discrete` — NOT a file of /repo: the source is
scipy/signal/_lti_conversion.py of the SciPy installation the implementation imports
(`harness/core/py2lean_c2d.py: scipy_path()`).  `Generated/C2dScipy.lean` is rewritten from that
text on every run; the theorems below prove that the function it defines has the meaning the model
gives to `cont2discrete` (`C2dSSMeaning`: `DSS.sampleCore` — `gbtAlpha`, `SS.gbt` with the certified
inverse of `I - αhA`, the zero-order hold from the blocks of `expm`), so that the hypothesis of
`generated_sample_eq` is discharged by SciPy's own source text.
-/
import CtrlVerif.Generated.C2dScipy
import CtrlVerif.Generated.C2dSS
import CtrlVerif.Lemmas.C2dTie
import CtrlVerif.Props.C14GenSample

namespace CtrlVerif.C14GenSample

open CtrlVerif Matrix

section scipy

variable {K : Type} [Field K] [LinearOrder K] [IsStrictOrderedRing K]

/-- **SciPy's generalised bilinear formulas** (`method='gbt'`): validation of `alpha`,
`ima = I - αhA`, `ad = solve(ima, I + (1-α)hA)`, `bd = solve(ima, hB)`,
`cd = solve(imaᵀ, Cᵀ)ᵀ`, `dd = D + α C bd` — is the model's `gbtCore` (`SS.gbt` with
`W = (I - αhA)⁻¹`, `illPosed` for a singular `I - αhA`, `badArg` for `alpha` missing or outside
`[0, 1]`), for every system, step and `alpha`. -/
theorem generated_scipy_gbt_eq (G : DSS K) (h : K) (alpha : Option K) :
    Generated.scipyC2dGbt (PySS.A G, PySS.B G, PySS.C G, PySS.D G) h alpha =
      (match DSS.gbtCore G 0 h .gbt alpha with
        | .error e => .error e
        | .ok R => .ok (tuple5 R h)) := by
  obtain ⟨n, p, m, ⟨A, B, C, D⟩, dt⟩ := G
  unfold Generated.scipyC2dGbt DSS.gbtCore
  cases alpha with
  | none => rfl
  | some a =>
    simp only [gbtAlpha, PySS.A, PySS.B, PySS.C, PySS.D]
    by_cases ha : a < 0 ∨ a > 1
    · simp [ha, throw, throwThe, MonadExceptOf.throw]
    · have ha' : ¬ (a < 0 ∨ 1 < a) := ha
      simp only [ha, ha', if_false, PMat.eye_def, PMat.smul_mk, PMat.sub_mk, PMat.add_mk, PMat.T_mk,
        bind, Except.bind, PMat.solve_mk, Matrix.det_transpose, SS.gbtIma]
      by_cases hd : (1 - (a * h) • A).det = 0
      · simp [hd]
      · simp only [hd, if_false, PMat.matmul_mk, PMat.add_mk, PMat.smul_mk, PMat.T_mk, pure, Except.pure,
          tuple5, PySS.A, PySS.B, PySS.C, PySS.D, SS.gbt, inverse_transpose, PMat.inverse_eq_invQ]
        have key : (SS.invQ (1 - (a * h) • Aᵀ))ᵀ = SS.invQ (1 - (a * h) • A) := by
          have e : 1 - (a * h) • Aᵀ = (1 - (a * h) • A)ᵀ := by simp
          rw [e, ← PMat.inverse_eq_invQ, inverse_transpose, Matrix.transpose_transpose]
          rfl
        simp [Matrix.transpose_mul, key]

/-! ### the whole state-space branch: method dispatch, zero-order hold -/

/-- SciPy's zero-order-hold statements (`hstack`, `vstack`, `expm(dt * em)`, the three slices) on the
matrices of `G`, given what `expm` returns. -/
theorem scipy_zoh_steps (expm : PMat K → Except Err (PMat K)) (G : DSS K) (h : K)
    (E : Matrix (Fin G.n ⊕ Fin G.m) (Fin G.n ⊕ Fin G.m) K) (hE : expm (zohArg G h) = .ok (flat E)) :
    (do
      let em_upper ← PMat.hcat (PySS.A G) (PySS.B G)
      let em_lower ← PMat.hcat (PMat.zeros (PySS.B G).c (PySS.A G).r) (PMat.zeros (PySS.B G).c (PySS.B G).c)
      let em ← PMat.vcat em_upper em_lower
      let ms ← expm (PMat.smul h em)
      let ms : PMat K := (PMat.sliceRows ms none (some ((PySS.A G).r : Int)))
      let ad : PMat K := (PMat.sliceCols ms (some (0 : Int)) (some ((PySS.A G).c : Int)))
      let bd : PMat K := (PMat.sliceCols ms (some ((PySS.A G).c : Int)) none)
      let cd : PMat K := PySS.C G
      let dd : PMat K := PySS.D G
      pure (ad, bd, cd, dd, h)) =
    .ok (tuple5 ⟨G.n, G.p, G.m, G.sys.zoh E, .disc 0⟩ h) := by
  obtain ⟨n, p, m, ⟨A, B, C, D⟩, dt⟩ := G
  simp only [PySS.A, PySS.B, PySS.C, PySS.D, PMat.zeros_def, PMat.hcat_mk, PMat.vcat_mk, bind, Except.bind,
    PMat.vcat_hcat_blocks]
  have harg : (PMat.smul h ⟨n + m, n + m,
      (fromBlocks A B (0 : Matrix (Fin m) (Fin n) K) (0 : Matrix (Fin m) (Fin m) K)).submatrix
        finSumFinEquiv.symm finSumFinEquiv.symm⟩ : PMat K)
      = zohArg ⟨n, p, m, ⟨A, B, C, D⟩, dt⟩ h := rfl
  rw [harg, hE]
  simp only [flat, PMat.sliceRows_prefix, sliceCols_prefix0, PMat.sliceCols_suffix, pure, Except.pure, tuple5,
    PySS.A, PySS.B, PySS.C, PySS.D, SS.zoh]
  have e1 : ((E.submatrix finSumFinEquiv.symm finSumFinEquiv.symm).submatrix (Fin.castAdd m) id).submatrix id
      (Fin.castAdd m) = E.toBlocks₁₁ := by
    ext i j
    simp [Matrix.toBlocks₁₁]
  have e2 : ((E.submatrix finSumFinEquiv.symm finSumFinEquiv.symm).submatrix (Fin.castAdd m) id).submatrix id
      (Fin.natAdd n) = E.toBlocks₁₂ := by
    ext i j
    simp [Matrix.toBlocks₁₂]
  rw [e1, e2]

/-- **`scipy.signal.cont2discrete` on a state-space 4-tuple has the model's meaning**: the function
SciPy's source text defines — dispatch on the method string, the recursive calls with
`alpha = 0.5 / 0.0 / 1.0`, the generalised bilinear formulas, the zero-order hold through `expm`,
`ValueError` for an unknown method — is `DSS.sampleCore` on the matrices of `G`, for every step and
`alpha`; for `'zoh'` given that `expm` agrees with the model's hold (`ExpmAgrees`); `'foh'` /
`'impulse'` are outside the property (`notImplemented` on both sides). -/
theorem generated_scipy_eq (expm : PMat K → Except Err (PMat K)) (G : DSS K) (h : K) (method : String)
    (alpha : Option K) (ext : Option (Matrix (Fin G.n ⊕ Fin G.m) (Fin G.n ⊕ Fin G.m) K))
    (hz : methodOf method = .zoh → ExpmAgrees expm G h ext) :
    Generated.scipyC2d expm (PySS.A G, PySS.B G, PySS.C G, PySS.D G) h method alpha =
      (match DSS.sampleCore G 0 h (methodOf method) alpha ext with
        | .error e => .error e
        | .ok R => .ok (tuple5 R h)) := by
  obtain ⟨f1, f2, f3, f4, f5⟩ := gbtCore_family G 0 h alpha
  unfold Generated.scipyC2d
  by_cases h0 : method = "gbt"
  · subst h0
    have hm : methodOf "gbt" = .gbt := by decide
    simp only [if_true, hm, DSS.sampleCore]
    exact generated_scipy_gbt_eq G h alpha
  simp only [h0, if_false]
  unfold Generated.scipyC2dRest
  by_cases h1 : method = "bilinear"
  · subst h1
    have hm : methodOf "bilinear" = .bilinear := by decide
    simp only [true_or, if_true, hm, DSS.sampleCore, f1]
    exact generated_scipy_gbt_eq G h _
  by_cases h2 : method = "tustin"
  · subst h2
    have hm : methodOf "tustin" = .tustin := by decide
    simp only [or_true, if_true, hm, DSS.sampleCore, f2]
    exact generated_scipy_gbt_eq G h _
  by_cases h3 : method = "euler"
  · subst h3
    have hm : methodOf "euler" = .euler := by decide
    simp only [h1, h2, or_self, if_false, true_or, if_true, hm, DSS.sampleCore, f3]
    exact generated_scipy_gbt_eq G h _
  by_cases h4 : method = "forward_diff"
  · subst h4
    have hm : methodOf "forward_diff" = .forwardDiff := by decide
    simp only [h1, h2, h3, or_self, if_false, or_true, if_true, hm, DSS.sampleCore, f4]
    exact generated_scipy_gbt_eq G h _
  by_cases h5 : method = "backward_diff"
  · subst h5
    have hm : methodOf "backward_diff" = .backwardDiff := by decide
    simp only [h1, h2, h3, h4, or_self, if_false, if_true, hm, DSS.sampleCore, f5]
    exact generated_scipy_gbt_eq G h _
  by_cases h6 : method = "zoh"
  · subst h6
    have hm : methodOf "zoh" = .zoh := by decide
    obtain ⟨E, hE, hcore⟩ := hz hm
    simp only [h1, h2, h3, h4, h5, or_self, if_false, if_true, hm, DSS.sampleCore, hcore]
    exact scipy_zoh_steps expm G h E hE
  by_cases h7 : method = "foh"
  · subst h7
    have hm : methodOf "foh" = .foh := by decide
    simp only [h1, h2, h3, h4, h5, h6, or_self, if_false, if_true, hm, DSS.sampleCore]
    rfl
  by_cases h8 : method = "impulse"
  · subst h8
    have hm : methodOf "impulse" = .impulse := by decide
    simp only [h1, h2, h3, h4, h5, h6, h7, or_self, if_false, if_true, hm, DSS.sampleCore]
    rfl
  have hm : methodOf method = .matched ∨ methodOf method = .unknown := by
    unfold methodOf
    split <;> simp_all
  simp only [h1, h2, h3, h4, h5, h6, h7, h8, or_self, if_false]
  rcases hm with hm | hm <;> rw [hm] <;> rfl

/-- hence SciPy's function satisfies the hypothesis of `generated_sample_eq`. -/
theorem generated_scipy_meaning (expm : PMat K → Except Err (PMat K)) (G : DSS K) (method : String)
    (ext : Option (Matrix (Fin G.n ⊕ Fin G.m) (Fin G.n ⊕ Fin G.m) K))
    (hz : methodOf method = .zoh → ∀ h, ExpmAgrees expm G h ext) :
    C2dSSMeaning (Generated.scipyC2d expm) G ext method :=
  fun h alpha => generated_scipy_eq expm G h method alpha ext (fun hm => hz hm h)

/-- **End to end**: `StateSpace.sample` as python-control's source text defines it, calling
`cont2discrete` as SciPy's source text defines it, is the model `sampleModel` (`DSS.sampleP` +
`sampleNames`) — for every method string (for `'zoh'`: given that `expm` agrees with the model's
hold at every step). -/
theorem generated_sample_scipy_eq (expm : PMat K → Except Err (PMat K)) (tan : K → K) (G : DSS K)
    (src : Names) (P : Period) (method : String) (alpha pwf : Option K) (name : Option String) (copy : Bool)
    (kw : PyC2d.LabelKw) (ext : Option (Matrix (Fin G.n ⊕ Fin G.m) (Fin G.n ⊕ Fin G.m) K))
    (hz : methodOf method = .zoh → ∀ h, ExpmAgrees expm G h ext)
    (hP : 0 < P.val) (hN : NamesFit G src)
    (hw : pwf = some 0 → prewarpApplies (methodOf method) alpha = false) :
    Generated.ssSample (Generated.scipyC2d expm) tan ⟨G, src⟩ P method alpha pwf name copy kw =
      sampleModel tan G src P method alpha pwf name copy kw ext :=
  generated_sample_eq _ tan G src P method alpha pwf name copy kw ext
    (generated_scipy_meaning expm G method ext hz) hP hN hw

/-! ### non-vacuity -/

section examples

/-- SciPy's function RETURNS on the 2-state example system (`'tustin'`, step `3/2`; `expm` is not
called), and raises for `'gbt'` without `alpha` and for an unknown method. -/
example : ∃ R, Generated.scipyC2d (fun _ => .error .missing)
      (PySS.A C14.exD, PySS.B C14.exD, PySS.C C14.exD, PySS.D C14.exD) (3 / 2 : ℚ) "tustin" none = .ok R := by
  rw [generated_scipy_eq _ C14.exD _ _ _ none (by intro h; exact absurd h (by decide))]
  obtain ⟨R, h1, -⟩ := okAnd_spec (r := DSS.sampleCore C14.exD 0 (3 / 2 : ℚ) (methodOf "tustin") none none)
    (p := fun _ => true) (by decide +kernel)
  rw [h1]
  exact ⟨_, rfl⟩
example : Generated.scipyC2d (fun _ => .error .missing)
      (PySS.A C14.exD, PySS.B C14.exD, PySS.C C14.exD, PySS.D C14.exD) (3 / 2 : ℚ) "gbt" none = .error .badArg := by
  rw [generated_scipy_eq _ C14.exD _ _ _ none (by intro h; exact absurd h (by decide))]
  rfl
example : Generated.scipyC2d (fun _ => .error .missing)
      (PySS.A C14.exD, PySS.B C14.exD, PySS.C C14.exD, PySS.D C14.exD) (3 / 2 : ℚ) "Tustin" none = .error .badArg := by
  rw [generated_scipy_eq _ C14.exD _ _ _ none (by intro h; exact absurd h (by decide))]
  rfl

/-- an integrator (`A = 0`: nilpotent): an `expm` that returns the exact series blocks agrees with
the model's hold, so the zero-order-hold hypothesis `ExpmAgrees` is satisfiable. -/
def exInt : DSS ℚ := ⟨1, 1, 1, ⟨0, 1, 1, 0⟩, .cont⟩
example (h : ℚ) : ExpmAgrees (fun _ => .ok (flat (fromBlocks (SS.zohAd h exInt.sys.A 1)
    (SS.zohBd h exInt.sys.A exInt.sys.B 1) 0 1))) exInt h none :=
  expmAgrees_of_nilpotent _ _ _ _ (pow_one _) rfl

end examples

end scipy

end CtrlVerif.C14GenSample
