/-
C07, source-text tie, part 3: the operator forms of `NonlinearIOSystem` (control/nlsys.py: `__add__`,
`__radd__`, `__sub__`, `__rsub__`, `__mul__`, `__rmul__`, `__neg__`, `feedback`, and
`InterconnectedSystem.set_connect_map`) as regenerated from the tree under check
(`Generated/ICOps.lean`) equal the model (`IC.opAdd`, `opSub`, `opSeries`, `opNeg`, `opFeedback`): the
three NumPy arrays of the resulting object are `toMat` of the model's entry lists, and the size checks
raise in the same cases.  The generated functions call the generated `__init__` slice, so these
theorems rest on `generated_init_eq`.
-/
import CtrlVerif.Generated.ICOps
import CtrlVerif.Props.C07GenInit
import CtrlVerif.Lemmas.ICOps
import CtrlVerif.Lemmas.PyMat

namespace CtrlVerif.C07Gen

open CtrlVerif.IC CtrlVerif.PyIC

variable {K : Type} [Field K] [DecidableEq K]

/-! ### the index tuples the operators write, tokenised -/

theorem tok_pair (a i : Nat) :
    tokenize (.tuple [.int (a : Int), .int (i : Int)] : Val K) = some (pairSpec a i) := rfl

theorem tok_triple_int (a i : Nat) (g : Int) :
    tokenize (.tuple [.int (a : Int), .int (i : Int), .int g] : Val K) = some (tripleSpec a i (g : K)) := rfl

theorem mapM_some_map {α β : Type} (f : α → Option β) (g : α → β) (l : List α) (h : ∀ a ∈ l, f a = some (g a)) :
    l.mapM f = some (l.map g) := by
  induction l with
  | nil => rfl
  | cons a l ih =>
    simp [List.mapM_cons, h a (by simp), ih fun b hb => h b (by simp [hb])]

omit [Field K] [DecidableEq K] in
theorem rangeNat_map {β : Type} (n : Nat) (f : Int → β) :
    (rangeNat n).map f = (List.range n).map fun (i : Nat) => f (Int.ofNat i) := by
  simp only [rangeNat, List.map_map]; rfl

/-- the constructor call of the operator forms: no connections, `inplist` / `outlist` given as lists,
no `inputs=` / `outputs=` keywords. -/
theorem init_ops (sigs : List SysSig) (es os : List (Val K)) (il ol : List (List (Spec K)))
    (m0 : Maps K) (hb : buildMaps sigs [] il ol es.length os.length = .ok m0)
    (ti : es.mapM tokEntry = some il) (tO : os.mapM tokEntry = some ol) :
    Generated.icInit sigs .none (.list es) (.list os) .none .none = .ok (Maps.mats m0) := by
  have h := generated_init_eq sigs .none (.list es) (.list os) .none .none [] es os [] il ol
    es.length os.length rfl (.inr rfl) (.inr rfl) rfl ti tO (by simp [countOf]) (by simp [countOf])
  have hc : m0.connect = [] := by
    simp only [buildMaps, List.mapM_nil, pure_eq_ok] at hb
    split at hb
    · cases hb
    · split at hb
      · cases hb
      · split at hb
        · cases hb
        · split at hb
          · cases hb
          · injection hb with hb; subst hb; rfl
  rw [hb] at h
  have : checkConnect m0 = .ok m0 := by simp [checkConnect, hc]
  simp only [ok_bind', this] at h
  exact eq_ok_of_toOption h
where
  ok_bind' : ∀ (m : Maps K), (Except.ok m).bind checkConnect = checkConnect m := fun _ => rfl

theorem mapM_map_some {α β γ : Type} (tok : β → Option γ) (l : List α) (v : α → β) (g : α → γ)
    (h : ∀ i, tok (v i) = some (g i)) : (l.map v).mapM tok = some (l.map g) := by
  induction l with
  | nil => rfl
  | cons a l ih => simp [List.mapM_cons, h a, ih]

/-! ### `+`, `-` (parallel forms) -/

/-- the parallel form with the second subsystem's outputs written by `osec`. -/
theorem parallel_core (S₁ S₂ : SysSig) (g : Option K) (osec : Int → Val K)
    (hsec : ∀ i : Nat, tokenize (osec (Int.ofNat i)) = some (secondSpec g i))
    (h2 : S₁.nin = S₂.nin) (h4 : S₁.nout = S₂.nout) :
    Generated.icInit [S₁, S₂] Val.none
        (Val.list ((rangeNat S₁.nin).map fun i =>
          Val.list [Val.tuple [Val.int 0, Val.int i], Val.tuple [Val.int 1, Val.int i]]))
        (Val.list ((rangeNat S₁.nout).map fun i =>
          Val.list [Val.tuple [Val.int 0, Val.int i], osec i])) Val.none Val.none
      = (opParallel S₁ S₂ g).map Maps.mats := by
  have hok := opParallel_ok S₁ S₂ S₁.nin S₁.nout rfl h2.symm rfl h4.symm g
  have hc : ¬ (S₁.nin ≠ S₂.nin ∨ S₁.nout ≠ S₂.nout) := by simp [h2, h4]
  rw [hok]
  simp only [opParallel, hc, if_false] at hok
  rw [init_ops [S₁, S₂] _ _ _ _ _ (by simpa [rangeNat] using hok)
    (by
      rw [rangeNat_map]
      exact mapM_map_some tokEntry _ _ (fun i => [pairSpec 0 i, pairSpec 1 i]) (fun i => rfl))
    (by
      rw [rangeNat_map]
      refine mapM_map_some tokEntry _ _ (fun i => [pairSpec 0 i, secondSpec g i]) (fun i => ?_)
      simp only [tokEntry, tokList, List.mapM_cons, List.mapM_nil, hsec i]
      rfl)]
  rfl

omit [Field K] [DecidableEq K] in
theorem guard2_false {a b c d : Nat} (h1 : a = b) (h2 : c = d) :
    (decide (a ≠ b) || decide (c ≠ d)) = false := by simp [h1, h2]

/-- **`NonlinearIOSystem.__add__` as the source text defines it is the model's `opAdd`.** -/
theorem generated_add_eq (S₁ S₂ : SysSig) :
    Generated.icAdd (K := K) S₁ S₂ = (opAdd S₁ S₂).map Maps.mats := by
  unfold opAdd
  by_cases hc : S₁.nin ≠ S₂.nin ∨ S₁.nout ≠ S₂.nout
  · rcases hc with h | h <;> simp [Generated.icAdd, opParallel, h]
  · have h2 : S₁.nin = S₂.nin := by by_contra h; exact hc (.inl h)
    have h4 : S₁.nout = S₂.nout := by by_contra h; exact hc (.inr h)
    simp only [Generated.icAdd, guard2_false h2 h4, Bool.false_eq_true, if_false, pure_eq_ok, ok_bind]
    rw [parallel_core (K := K) S₁ S₂ none (fun i => Val.tuple [Val.int 1, Val.int i]) (fun i => rfl) h2 h4]

/-- **`__radd__`**: the other operand first. -/
theorem generated_radd_eq (S O : SysSig) :
    Generated.icRadd (K := K) S O = (opAdd O S).map Maps.mats := by
  unfold opAdd
  by_cases hc : S.nin ≠ O.nin ∨ S.nout ≠ O.nout
  · rcases hc with h | h <;> simp [Generated.icRadd, opParallel, h, Ne.symm h]
  · have h2 : S.nin = O.nin := by by_contra h; exact hc (.inl h)
    have h4 : S.nout = O.nout := by by_contra h; exact hc (.inr h)
    simp only [Generated.icRadd, guard2_false h2 h4, Bool.false_eq_true, if_false, pure_eq_ok, ok_bind]
    rw [parallel_core (K := K) O S none (fun i => Val.tuple [Val.int 1, Val.int i]) (fun i => rfl)
      h2.symm h4.symm]

/-- **`__sub__`**: the outputs of the second subsystem enter with gain `-1`. -/
theorem generated_sub_eq (S₁ S₂ : SysSig) :
    Generated.icSub (K := K) S₁ S₂ = (opSub S₁ S₂).map Maps.mats := by
  unfold opSub
  by_cases hc : S₁.nin ≠ S₂.nin ∨ S₁.nout ≠ S₂.nout
  · rcases hc with h | h <;> simp [Generated.icSub, opParallel, h]
  · have h2 : S₁.nin = S₂.nin := by by_contra h; exact hc (.inl h)
    have h4 : S₁.nout = S₂.nout := by by_contra h; exact hc (.inr h)
    simp only [Generated.icSub, guard2_false h2 h4, Bool.false_eq_true, if_false, pure_eq_ok, ok_bind]
    rw [parallel_core (K := K) S₁ S₂ (some (-1))
      (fun i => Val.tuple [Val.int 1, Val.int i, Val.int (-1)])
      (fun i => by
        show some (tripleSpec 1 i (((-1 : Int) : K))) = some (tripleSpec 1 i (-1))
        simp) h2 h4]

/-- **`__rsub__`** is `other - self`. -/
theorem generated_rsub_eq (S O : SysSig) :
    Generated.icRsub (K := K) S O = (opSub O S).map Maps.mats := by
  simp only [Generated.icRsub, generated_sub_eq]

/-- **`__neg__`**. -/
theorem generated_neg_eq (S : SysSig) :
    Generated.icNeg (K := K) S = (opNeg S).map Maps.mats := by
  have hok := opNeg_ok (K := K) S S.nin S.nout rfl rfl
  rw [hok]
  simp only [opNeg] at hok
  simp only [Generated.icNeg, pure_eq_ok]
  rw [init_ops [S] _ _ _ _ _ (by simpa [rangeNat] using hok)
    (by
      rw [rangeNat_map]
      exact mapM_map_some tokEntry _ _ (fun i => [pairSpec 0 i]) (fun i => rfl))
    (by
      rw [rangeNat_map]
      refine mapM_map_some tokEntry _ _ (fun i => [tripleSpec 0 i (-1)]) (fun i => ?_)
      show some [tripleSpec 0 i (((-1 : Int) : K))] = some [tripleSpec 0 i (-1)]
      simp)]
  rfl

/-! ### `*`, `feedback`: the connection map is written as `np.block` of `np.eye` / `np.zeros` -/

open Matrix in
/-- `np.block([[0, s * eye(a, d)], [eye(b, c), 0]])` is `toMat` of the two `eyeEntries` lists. -/
theorem block_eyes (a b c d : Nat) (s : K) :
    PMat.block [[PMat.zeros a c, PMat.smul s (eyeRect a d)], [eyeRect b c, PMat.zeros b d]]
      = .ok ⟨a + b, c + d, toMat (a + b) (c + d)
          (eyeEntries 0 c (min a d) s ++ eyeEntries a 0 (min b c) 1)⟩ := by
  simp only [PMat.zeros, eyeRect, PMat.smul, PMat.block22_mk]
  congr 2
  funext i j
  rw [IC.toMat_append', Matrix.add_apply, toMat_eyeEntries, toMat_eyeEntries]
  refine Fin.addCases (fun i' => ?_) (fun i' => ?_) i <;>
    refine Fin.addCases (fun j' => ?_) (fun j' => ?_) j <;>
    (have := i'.isLt
     have := j'.isLt
     simp only [Matrix.submatrix_apply, finSumFinEquiv_symm_apply_castAdd,
       finSumFinEquiv_symm_apply_natAdd, Matrix.fromBlocks_apply₁₁, Matrix.fromBlocks_apply₁₂,
       Matrix.fromBlocks_apply₂₁, Matrix.fromBlocks_apply₂₂, Fin.coe_castAdd, Fin.coe_natAdd,
       Matrix.zero_apply, Matrix.smul_apply, Matrix.of_apply, smul_eq_mul]
     split_ifs <;> first
       | omega
       | (simp; done)
       | (by_cases h : (i' : Nat) = j' <;> first
           | omega
           | (show s * (if (i' : Nat) = (j' : Nat) then (1 : K) else 0) = _
              simp [h])))

/-- `np.block([[0, 0], [eye(b, c), 0]])`. -/
theorem block_eye (a b c d : Nat) :
    PMat.block [[PMat.zeros a c, PMat.zeros a d], [eyeRect b c, PMat.zeros b d]]
      = .ok (⟨a + b, c + d, toMat (a + b) (c + d) (eyeEntries a 0 (min b c) 1)⟩ : PMat K) := by
  have h0 : (PMat.zeros a d : PMat K) = PMat.smul 0 (eyeRect a d) := by
    simp only [PMat.zeros, PMat.smul, eyeRect]
    congr 1
    ext i j
    show (0 : K) = 0 * (if (i : Nat) = (j : Nat) then (1 : K) else 0)
    simp
  rw [h0, block_eyes]
  congr 2
  funext i j
  rw [IC.toMat_append', Matrix.add_apply, toMat_eyeEntries]
  simp

/-- the series form: subsystems `(S₁, S₂)`, inputs of `S₁`, outputs of `S₂`, connection map by
`np.block`. -/
theorem series_core (S₁ S₂ : SysSig) (h : S₁.nout = S₂.nin) :
    (do
      let newsys ← Generated.icInit [S₁, S₂] Val.none
        (Val.list ((rangeNat S₁.nin).map fun i => Val.tuple [Val.int 0, Val.int i]))
        (Val.list ((rangeNat S₂.nout).map fun i => Val.tuple [Val.int 1, Val.int i])) Val.none Val.none
      let t2 ← PMat.block [[PMat.zeros S₁.nin S₁.nout, PMat.zeros S₁.nin S₂.nout],
        [eyeRect S₂.nin S₁.nout, PMat.zeros S₂.nin S₂.nout]]
      let t3 ← Generated.icSetConnectMap newsys.1 t2
      Except.ok (t3, newsys.2.1, newsys.2.2))
      = (opSeries (K := K) S₁ S₂).map Maps.mats := by
  have hok := opSeries_ok (K := K) S₁ S₂ S₁.nin S₂.nin S₂.nout rfl h rfl rfl
  rw [hok]
  have hb := buildMaps_first_to (K := K) S₁ S₂ 1 S₂ rfl S₁.nin S₂.nout rfl rfl
  rw [init_ops [S₁, S₂] _ _ _ _ _ (by simpa [rangeNat] using hb)
    (by
      rw [rangeNat_map]
      exact mapM_map_some tokEntry _ _ (fun i => [pairSpec 0 i]) (fun i => rfl))
    (by
      rw [rangeNat_map]
      exact mapM_map_some tokEntry _ _ (fun i => [pairSpec 1 i]) (fun i => rfl))]
  have h' : S₁.outputs.length = S₂.inputs.length := h
  simp only [ok_bind, block_eye, Generated.icSetConnectMap, pure_eq_ok, Maps.mats, map_ok,
    SysSig.nin, SysSig.nout, offset_one, SysSig.labels, h', Nat.min_self]
  clear hok hb h
  revert h'
  generalize S₁.outputs.length = q
  intro h'
  subst h'
  rfl

/-- **`NonlinearIOSystem.__mul__` as the source text defines it is the model's `opSeries`** (the right
factor `other` is the first subsystem). -/
theorem generated_mul_eq (S O : SysSig) :
    Generated.icMul (K := K) S O = (opSeries O S).map Maps.mats := by
  by_cases hc : O.nout = S.nin
  · have hd : decide (O.nout ≠ S.nin) = false := by simp [hc]
    simp only [Generated.icMul, hd, Bool.false_eq_true, if_false, pure_eq_ok, ok_bind]
    exact series_core O S hc
  · simp [Generated.icMul, opSeries, hc]

/-- **`__rmul__`**: `self` is the first subsystem. -/
theorem generated_rmul_eq (S O : SysSig) :
    Generated.icRmul (K := K) S O = (opSeries S O).map Maps.mats := by
  by_cases hc : S.nout = O.nin
  · have hd : decide (S.nout ≠ O.nin) = false := by simp [hc]
    simp only [Generated.icRmul, hd, Bool.false_eq_true, if_false, pure_eq_ok, ok_bind]
    exact series_core S O hc
  · simp [Generated.icRmul, opSeries, hc]

/-- **`NonlinearIOSystem.feedback` as the source text defines it is the model's `opFeedback`**, any
`sign` (also `0`). -/
theorem generated_feedback_eq (S₁ S₂ : SysSig) (sign : K) :
    Generated.icFeedback S₁ S₂ sign = (opFeedback S₁ S₂ sign).map Maps.mats := by
  by_cases hc : S₁.nout ≠ S₂.nin ∨ S₂.nout ≠ S₁.nin
  · rcases hc with h | h <;> simp [Generated.icFeedback, opFeedback, h]
  · have h2 : S₁.nout = S₂.nin := by by_contra h; exact hc (.inl h)
    have h4 : S₂.nout = S₁.nin := by by_contra h; exact hc (.inr h)
    simp only [Generated.icFeedback, guard2_false h2 h4, Bool.false_eq_true, if_false, pure_eq_ok, ok_bind]
    have hok := opFeedback_ok (K := K) S₁ S₂ S₁.nin S₁.nout sign rfl rfl h2.symm h4
    rw [hok]
    have hb := buildMaps_first_to (K := K) S₁ S₂ 0 S₁ rfl S₁.nin S₁.nout rfl rfl
    rw [init_ops [S₁, S₂] _ _ _ _ _ (by simpa [rangeNat] using hb)
      (by
        rw [rangeNat_map]
        exact mapM_map_some tokEntry _ _ (fun i => [pairSpec 0 i]) (fun i => rfl))
      (by
        rw [rangeNat_map]
        exact mapM_map_some tokEntry _ _ (fun i => [pairSpec 0 i]) (fun i => rfl))]
    have h2' : S₂.inputs.length = S₁.outputs.length := h2.symm
    have h4' : S₂.outputs.length = S₁.inputs.length := h4
    simp only [ok_bind, block_eyes, Generated.icSetConnectMap, pure_eq_ok, Maps.mats, map_ok,
      SysSig.nin, SysSig.nout, offset_zero, SysSig.labels, h2', h4', Nat.min_self]
    clear hok hb h2 h4 hc
    revert h2' h4'
    generalize S₂.inputs.length = q
    generalize S₂.outputs.length = r
    intro h2' h4'
    subst h2' h4'
    rfl

end CtrlVerif.C07Gen
