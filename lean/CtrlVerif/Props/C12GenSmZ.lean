/-
Source-text tie of `stability_margins` (C12), part 4: discrete time.  The model of C12 covers
`epsw = 0` (then `w >= epsw` holds for every point `_z_filter` keeps and `w > epsw` is `im z > 0`), labels
its crossings by the point `z` on the unit circle and sorts them by an exact key that is monotone in
`angle(z)`; the code works with `w = angle(z)/dt`.  Under the contracts of `np.abs` and `np.angle`
(`Lemmas/PyMarg.lean: CabsSpec, AngleSpec`) and `dt > 0` both agree.
-/
import CtrlVerif.Props.C12GenSmTop

namespace CtrlVerif.C12GenSel
open CtrlVerif CtrlVerif.Margins CtrlVerif.PyMarg

section
variable {K : Type} [Field K] [LinearOrder K] [IsStrictOrderedRing K] [FloorRing K]

theorem mergeSort_congr {β : Type} (l : List β) (r s : β → β → Bool)
    (h : ∀ a ∈ l, ∀ b ∈ l, r a b = s a b) : l.mergeSort r = l.mergeSort s := by
  have := List.map_mergeSort (r := r) (s := s) (f := id) (l := l) (by simpa using h)
  simpa using this

/-- sorting by `angle(z)/dt` is the model's sorting by `angKey` on points of the upper half plane. -/
theorem sortByW_map_eq_sortByAng (P : Prims K) (ha : AngleSpec P) (dt : K) (hdt : 0 < dt) {β γ : Type}
    (N : List (Cx K × β)) (f : Cx K × β → γ) (hN : ∀ c ∈ N, upperHalf c.1 = true) :
    sortByW (N.map fun c => (P.angle c.1 / dt, f c)) = (sortByAng N).map fun c => (P.angle c.1 / dt, f c) := by
  unfold sortByW sortByAng
  rw [← List.map_mergeSort (r := fun a b => decide (P.angle a.1 / dt ≤ P.angle b.1 / dt))
    (fun a _ b _ => rfl)]
  congr 1
  apply mergeSort_congr
  intro a haN b hbN
  rw [Bool.eq_iff_iff]
  simp only [decide_eq_true_eq]
  rw [div_le_div_iff_of_pos_right hdt]
  exact ha.mono _ _ (hN a haN) (hN b hbN)

theorem upperHalf_of_mem_zFilter {eps : K} {roots : List (Cx K)} {z : Cx K} (h : z ∈ zFilter eps roots) :
    upperHalf z = true := by
  simp only [zFilter, List.mem_filter, Bool.and_eq_true] at h
  exact h.2.2

theorem sortByAng_map_snd {β γ : Type} (L : List (Cx K × β)) (f : β → γ) :
    (sortByAng L).map (fun c => (c.1, f c.2)) = sortByAng (L.map fun c => (c.1, f c.2)) := by
  unfold sortByAng
  exact List.map_mergeSort (fun a _ b _ => rfl)

theorem zPhaseCrossings_bridge (P : Prims K) (ha : AngleSpec P) (dt : K) (hdt : 0 < dt)
    (num den : List K) (eps : K) (roots : List (Cx K)) :
    sortByW ((((zFilter eps roots).map fun z => P.angle z / dt).zip
        ((zFilter eps roots).map (respAt num den))).filter fun c => cle0 c.2)
      = (zPhaseCrossings num den eps roots).map fun c => (P.angle c.1 / dt, some c.2) := by
  -- the model's list before sorting, with `some` put back
  have e1 := filterMap_sel_eq ((zFilter eps roots).map fun z => (z, respAt num den z))
  have e2 : (sortByAng (((zFilter eps roots).map fun z => (z, respAt num den z)).filter
      fun c => cle0 c.2)).map (fun c => (P.angle c.1 / dt, c.2))
      = (zPhaseCrossings num den eps roots).map fun c => (P.angle c.1 / dt, some c.2) := by
    unfold zPhaseCrossings zRealAxisCandidates
    rw [← e1, ← sortByAng_map_snd, List.map_map]
    rfl
  rw [← e2, ← sortByW_map_eq_sortByAng P ha dt hdt _ (fun c => c.2)]
  · rw [zip_map_map, List.filter_map, List.filter_map, List.map_map]
    rfl
  · intro c hc
    rw [List.mem_filter, List.mem_map] at hc
    obtain ⟨⟨z, hz, rfl⟩, _⟩ := hc
    exact upperHalf_of_mem_zFilter hz

theorem zGainCrossings_bridge (P : Prims K) (ha : AngleSpec P) (dt : K) (hdt : 0 < dt)
    (num den : List K) (eps : K) (roots : List (Cx K)) :
    sortByW ((((zFilter eps roots).filter fun z => 0 < z.im).map fun z => P.angle z / dt).zip
        (((zFilter eps roots).filter fun z => 0 < z.im).map (respAt num den)))
      = (zGainCrossings num den eps roots).map fun c => (P.angle c.1 / dt, c.2) := by
  unfold zGainCrossings
  rw [← sortByW_map_eq_sortByAng P ha dt hdt _ (fun c => c.2)]
  · rw [zip_map_map, List.map_map]
    rfl
  · intro c hc
    rw [List.mem_map] at hc
    obtain ⟨z, hz, rfl⟩ := hc
    exact upperHalf_of_mem_zFilter (List.mem_filter.mp hz).1

/-- what `returnall=True` returns in discrete time, from the model's lists (labelled by `z`) and the
stability-margin candidates `(w, L(z))` the minimiser supplied. -/
def smAllOfZ (P : Prims K) (dt : K) (A : List (Cx K × Cx K)) (B : List (Cx K × Option (Cx K)))
    (S : List (K × Option (Cx K))) : SmOut K :=
  .all (A.map fun c => gmVal P (some c.2)) (B.map fun c => pmVal P c.2) (S.map fun c => smVal P c.2)
    (A.map fun c => P.angle c.1 / dt) (B.map fun c => P.angle c.1 / dt) (S.map Prod.fst)

/-- the candidate part for `epsw = 0`, `dt > 0`. -/
theorem generated_smCand_discrete_zero (P : Prims K) (hc : CabsSpec P) (ha : AngleSpec P)
    (sysEval : Cx K → Option (Cx K)) (iw : (List K × List K) × (List K × List K))
    (num den : List K) (dt : K) (zs : List (Cx K)) (ws : List K) (hdt : 0 < dt)
    (hp : num.length ≤ den.length)
    (heps1 : zEps P (zRealP2 num den) ≤ 1) (heps2 : zEps P (zMag1P2 den) ≤ 1) :
    Generated.smCand P sysEval false iw num den dt (zs, ws) 0
      = .ok
          ((zFilter (zEps P (zRealP2 num den)) (P.npRoots (zRealCrossingPoly num den))).map
              (fun z => P.angle z / dt),
           ((zFilter (zEps P (zMag1P2 den)) (P.npRoots (zMag1Poly num den))).filter
                fun z => 0 < z.im).map (fun z => P.angle z / dt),
           ws,
           (zFilter (zEps P (zRealP2 num den)) (P.npRoots (zRealCrossingPoly num den))).map sysEval,
           ((zFilter (zEps P (zMag1P2 den)) (P.npRoots (zMag1Poly num den))).filter
                fun z => 0 < z.im).map sysEval,
           zs.map sysEval) := by
  rw [generated_smCand_discrete P hc ha sysEval iw num den dt zs ws 0 (ne_of_gt hdt) heps1 heps2,
    zreal_epsw_zero P ha _ dt hdt heps1, zmag1_epsw_zero P ha _ dt hdt]
  simp [zProper, not_lt.mpr hp, bind, Except.bind]

/-- **discrete time, `returnall=True`, `epsw = 0`**: for a proper loop with sampling time `dt > 0` the
function the source text defines returns the model's `zPhaseCrossings` / `zGainCrossings` (roots of
the model's two discrete test polynomials that pass the model's `zFilter`, tolerance
`finfo.eps ** (1/len(p2))` from the model's `p2`), the frequencies being `angle(z)/dt`, and the
minimiser's candidates sorted by frequency. -/
theorem generated_sm_discrete_all (P : Prims K) (hc : CabsSpec P) (ha : AngleSpec P)
    (iw : (List K × List K) × (List K × List K)) (num den : List K) (dt : K) (zs : List (Cx K))
    (ws : List K) (hdt : 0 < dt) (hp : num.length ≤ den.length) (hzw : ws.length = zs.length)
    (heps1 : zEps P (zRealP2 num den) ≤ 1) (heps2 : zEps P (zMag1P2 den) ≤ 1) :
    Generated.stabilityMarginsSel P (respAt num den) false iw num den dt (zs, ws) true 0
      = .ok (smAllOfZ P dt
          (zPhaseCrossings num den (zEps P (zRealP2 num den)) (P.npRoots (zRealCrossingPoly num den)))
          (zGainCrossings num den (zEps P (zMag1P2 den)) (P.npRoots (zMag1Poly num den)))
          (sortByW (ws.zip (zs.map (respAt num den))))) := by
  unfold Generated.stabilityMarginsSel
  rw [generated_smCand_discrete_zero P hc ha _ iw num den dt zs ws hdt hp heps1 heps2, ok_bind']
  simp only []
  rw [generated_smSelect_eq P _ _ _ _ _ _ (by simp) (by simp) (by simp [hzw]), ok_bind']
  simp only [generated_smReturn_all, zPhaseCrossings_bridge P ha dt hdt, zGainCrossings_bridge P ha dt hdt,
    smAllOfZ, List.map_map, Function.comp_def]

/-- **discrete time, `returnall=False`, `epsw = 0`**: `gm, pm, sm, wpc, wgc, wms` of the model's default
selection on `zPhaseCrossings`, `zGainCrossings` and the minimiser's candidates. -/
theorem generated_sm_discrete_mins (P : Prims K) (hc : CabsSpec P) (ha : AngleSpec P)
    (hd : AngleDegSpec P) (hl : LogSpec P)
    (iw : (List K × List K) × (List K × List K)) (num den : List K) (dt : K) (zs : List (Cx K))
    (ws : List K) (hdt : 0 < dt) (hp : num.length ≤ den.length) (hzw : ws.length = zs.length)
    (heps1 : zEps P (zRealP2 num den) ≤ 1) (heps2 : zEps P (zMag1P2 den) ≤ 1)
    (Bs : List (Cx K × Cx K)) (Ss : List (K × Cx K))
    (hB : allSome (zGainCrossings num den (zEps P (zMag1P2 den)) (P.npRoots (zMag1Poly num den))) = some Bs)
    (hS : allSome (sortByW (ws.zip (zs.map (respAt num den)))) = some Ss) :
    Generated.stabilityMarginsSel P (respAt num den) false iw num den dt (zs, ws) false 0
      = .ok (smMins P (fun z => P.angle z / dt) (fun z => P.angle z / dt) id
          (defaultGm (zPhaseCrossings num den (zEps P (zRealP2 num den))
            (P.npRoots (zRealCrossingPoly num den))))
          (defaultPm Bs) (defaultSm Ss)) := by
  unfold Generated.stabilityMarginsSel
  rw [generated_smCand_discrete_zero P hc ha _ iw num den dt zs ws hdt hp heps1 heps2, ok_bind']
  simp only []
  rw [generated_smSelect_eq P _ _ _ _ _ _ (by simp) (by simp) (by simp [hzw]), ok_bind']
  simp only [zPhaseCrossings_bridge P ha dt hdt, zGainCrossings_bridge P ha dt hdt,
    allSome_eq_some _ _ hB, allSome_eq_some _ _ hS, List.map_map, Function.comp_def]
  exact generated_smReturn_mins P hc hd hl (fun z => P.angle z / dt) (fun z => P.angle z / dt) id _ _ _

end
end CtrlVerif.C12GenSel
