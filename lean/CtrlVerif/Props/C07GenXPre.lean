/-
C07, source-text tie (tag py2lean-interconnect), part B: statement groups of `interconnect()`
(control/nlsys.py), as regenerated from the tree under check (`Generated/ICXPre.lean`), equal the
model (`Model/Interconnect.lean`):

* `icxImplicit`   the implicit-connection loop                 = `implicitConnections` (after tokenisation)
* `icxNormalize`  a flat list of str / tuple is ONE connection = `normConns`
* `icxCheckInputs / icxCheckOutputs`  "`inputs` incompatible with `inplist`" = `countOK`
* `icxAddUnused`  the appended list entries AND labels of `add_unused` = `pairSpec` entries and
  `unusedLabels`, in matching order (repair e311818); `added_*_wired_and_named` transported.

Proof method as in `C07GenXFind.lean`: loops are rewritten by "body is pointwise …" lemmas whose side
conditions are discharged by evaluating the body on a generic element; nothing refers to the text of
the generated functions.
-/
import CtrlVerif.Generated.ICXPre
import CtrlVerif.Props.C07GenXFind
import CtrlVerif.Props.C07

namespace CtrlVerif.C07GenX

open CtrlVerif.IC CtrlVerif.PyIC CtrlVerif.PyICX

variable {K : Type} [Field K] [DecidableEq K]

/-! ### the implicit-connection loop -/

/-- the list of connections `connections=None` stands for, as Python values (dotted names). -/
def implicitVals (sigs : List SysSig) : List (List (Val K)) :=
  sigs.flatMap fun S => S.inputs.flatMap fun l =>
    if (dotted S.name l :: (sigs.filter fun T => labelIn l T.outputs).map fun T => dotted (K := K) T.name l).length > 1
    then [dotted S.name l :: (sigs.filter fun T => labelIn l T.outputs).map fun T => dotted T.name l]
    else []

theorem flatMap_ite_singleton {α β : Type} (l : List α) (p : α → Bool) (f : α → β) :
    l.flatMap (fun x => if p x then [f x] else []) = (l.filter p).map f := by
  induction l with
  | nil => rfl
  | cons a l ih => by_cases h : p a <;> simp [List.flatMap_cons, List.filter_cons, h, ih]

theorem filterMap_eq_flatMap {α β : Type} (f : α → Option β) (l : List α) :
    l.filterMap f = l.flatMap fun a => (f a).toList := by
  induction l with
  | nil => rfl
  | cons a l ih =>
    rw [List.filterMap_cons, List.flatMap_cons, ih]
    cases f a <;> rfl

/-- **the implicit-connection loop of the source text computes `implicitVals`** (for every list of
subsystems; it cannot raise). -/
theorem generated_implicit_vals (sigs : List SysSig) :
    Generated.icxImplicit (K := K) sigs = .ok (implicitVals sigs) := by
  unfold Generated.icxImplicit
  simp only [pure_eq_ok, ok_bind]
  rw [foldlM_append (h := fun S => S.inputs.flatMap fun l =>
    if (dotted S.name l :: (sigs.filter fun T => labelIn l T.outputs).map fun T => dotted (K := K) T.name l).length > 1
    then [dotted S.name l :: (sigs.filter fun T => labelIn l T.outputs).map fun T => dotted T.name l]
    else [])]
  · simp [implicitVals]
  · intro acc S _
    simp only [inputIndex]
    rw [foldlM_append (h := fun l =>
      if (dotted S.name l :: (sigs.filter fun T => labelIn l T.outputs).map fun T => dotted (K := K) T.name l).length > 1
      then [dotted S.name l :: (sigs.filter fun T => labelIn l T.outputs).map fun T => dotted T.name l]
      else [])]
    intro acc l _
    rw [foldlM_append (h := fun T => if labelIn l T.outputs then [dotted (K := K) T.name l] else [])]
    · simp only [ok_bind, flatMap_ite_singleton, List.singleton_append]
      split <;> simp_all
    · intro acc T _
      simp only [outputIndex]
      split <;> simp_all

/-- a system name / label the harness tokenises as a name: non-empty, no leading '-'. -/
def NameOK (nm : String) : Prop :=
  nm.toList.isEmpty = false ∧ Str.neg ⟨nm, .exact nm, []⟩ = false

theorem tokenize_dotted (nm : String) (l : Label) (h1 : NameOK nm) (h2 : NameOK l.raw) :
    tokenize (dotted nm l : Val K) = some (namedSpec nm l none) := by
  obtain ⟨e1, n1⟩ := h1
  obtain ⟨e2, n2⟩ := h2
  have n1' : Str.neg ⟨nm, .base nm, []⟩ = false := n1
  have n2' : Str.neg ⟨l.raw, l.tok, []⟩ = false := n2
  simp [dotted, tokenize, tokTriple, emptyStr, e1, e2, tokSys, tokSig, tokGain, n1', n2', Str.unsigned,
    namedSpec]

/-- all names of a list of subsystems are tokenisable names. -/
def NamesOK (sigs : List SysSig) : Prop :=
  ∀ S ∈ sigs, NameOK S.name ∧ ∀ l ∈ S.inputs, NameOK l.raw

/-- **`generated_implicit_eq`: the connections the source text builds for `connections=None`,
tokenised, are the model's `implicitConnections`.** -/
theorem generated_implicit_eq (sigs : List SysSig) (hok : NamesOK sigs) :
    ∃ cs : List (List (Val K)), Generated.icxImplicit sigs = .ok cs ∧
      cs.map (·.map tokenize) = (implicitConnections sigs).map (·.map some) := by
  refine ⟨implicitVals sigs, generated_implicit_vals sigs, ?_⟩
  unfold implicitVals implicitConnections
  rw [List.map_flatMap, List.map_flatMap]
  refine List.flatMap_congr fun S hS => ?_
  obtain ⟨hn, hl⟩ := hok S hS
  have key : ∀ l ∈ S.inputs,
      (dotted (K := K) S.name l :: (sigs.filter fun T => labelIn l T.outputs).map fun T => dotted T.name l).map tokenize
        = ((namedSpec S.name l none ::
            (sigs.filter fun T => T.outputs.any fun m => m.raw == l.raw).map
              fun T => namedSpec T.name l none) : List (Spec K)).map some := by
    intro l hlm
    simp only [List.map_cons, tokenize_dotted S.name l hn (hl l hlm), List.map_map, labelIn]
    congr 1
    refine List.map_congr_left fun T hT => ?_
    exact tokenize_dotted T.name l (hok T (List.mem_of_mem_filter hT)).1 (hl l hlm)
  rw [filterMap_eq_flatMap, List.map_flatMap, List.map_flatMap]
  refine List.flatMap_congr fun l hlm => ?_
  have kl := key l hlm
  have hlen := congrArg List.length kl
  simp only [List.length_map, List.length_cons] at hlen
  simp only [List.length_cons, List.length_map]
  by_cases hgt : (sigs.filter fun T => labelIn l T.outputs).length + 1 > 1
  · rw [if_pos hgt, if_pos (by omega)]
    simp only [List.map_cons, List.map_nil, Option.toList_some, kl]
  · rw [if_neg hgt, if_neg (by omega)]
    rfl

/-- non-vacuity: `P` (input `u`, output `y`), `C` (input `y`, output `u`): two implicit connections. -/
example :
    Generated.icxImplicit (K := ℚ) [⟨"P", [⟨"u", none⟩], [⟨"y", none⟩]⟩, ⟨"C", [⟨"y", none⟩], [⟨"u", none⟩]⟩]
      = .ok [[dotted "P" ⟨"u", none⟩, dotted "C" ⟨"u", none⟩], [dotted "C" ⟨"y", none⟩, dotted "P" ⟨"y", none⟩]] := by
  rw [generated_implicit_vals]
  rfl

/-- a list all of whose elements tokenise. -/
theorem mapM_of_map_eq {α β : Type} (f : α → Option β) (l : List α) (r : List β)
    (h : l.map f = r.map some) : l.mapM f = some r := by
  induction l generalizing r with
  | nil =>
    cases r with
    | nil => rfl
    | cons b r => simp at h
  | cons a l ih =>
    cases r with
    | nil => simp at h
    | cons b r =>
      simp only [List.map_cons, List.cons.injEq] at h
      simp [List.mapM_cons, h.1, ih r h.2]

/-! ### normalisation of `connections` -/

/-- **the normalisation statement, on a list**: a non-empty list all of whose elements are str /
tuple becomes a one-element list. -/
theorem generated_normalize_list (l : List (Val K)) :
    Generated.icxNormalize (.list l) =
      .ok (if !l.isEmpty && l.all (fun c => isinstance c [.str, .tuple]) then .list [.list l] else .list l) := by
  unfold Generated.icxNormalize
  cases l with
  | nil => simp [isinstance, isinstance1]
  | cons a l =>
    have : ((↑(a :: l).length : Int) > ((0 : Nat) : Int)) := by simp
    simp only [isinstance_list_single, len_list, iter_list, ok_bind, pure_eq_ok, this, decide_true, if_true,
      List.isEmpty_cons, Bool.not_false, Bool.true_and]
    split <;> rfl

/-- anything that is not a list is left alone. -/
theorem generated_normalize_other (v : Val K) (h : isinstance v [.list] = false) :
    Generated.icxNormalize v = .ok v := by
  unfold Generated.icxNormalize
  simp [h]

/-- an element of the `connections` argument as the harness tokenises it. -/
def tokConn : Val K → Option (ConnEntry K)
  | .list c => (c.mapM tokenize).map .list
  | .str s => (tokenize (.str s)).map .atom
  | .tuple t => (tokenize (.tuple t)).map .atom
  | _ => none

/-- how the pre-processing loop reads an element of the normalised list ("invalid connection …:
should be a list"). -/
def readConn : Val K → Except Err (List (Spec K))
  | .list c =>
    match c.mapM tokenize with
    | some ss => .ok ss
    | none => .error .notImplemented
  | _ => .error .badArg

theorem tokConn_atom {v : Val K} {e : ConnEntry K} (h : tokConn v = some e) :
    isinstance v [.str, .tuple] = e.isAtom ∧ readConn v = e.asList := by
  cases v with
  | list c =>
    simp only [tokConn, Option.map_eq_some_iff] at h
    obtain ⟨ss, hss, rfl⟩ := h
    simp [isinstance, isinstance1, ConnEntry.isAtom, readConn, hss, ConnEntry.asList]
  | str s =>
    simp only [tokConn, Option.map_eq_some_iff] at h
    obtain ⟨ss, hss, rfl⟩ := h
    simp [isinstance, isinstance1, ConnEntry.isAtom, readConn, ConnEntry.asList]
  | tuple t =>
    simp only [tokConn, Option.map_eq_some_iff] at h
    obtain ⟨ss, hss, rfl⟩ := h
    simp [isinstance, isinstance1, ConnEntry.isAtom, readConn, ConnEntry.asList]
  | none => simp [tokConn] at h
  | int i => simp [tokConn] at h
  | num x => simp [tokConn] at h
  | other => simp [tokConn] at h

theorem tokConn_all {l : List (Val K)} {es : List (ConnEntry K)} (h : l.mapM tokConn = some es) :
    l.all (fun c => isinstance c [.str, .tuple]) = es.all ConnEntry.isAtom ∧
      l.mapM readConn = es.mapM ConnEntry.asList ∧ l.length = es.length := by
  induction l generalizing es with
  | nil =>
    simp at h
    subst h
    simp
  | cons a l ih =>
    rw [List.mapM_cons] at h
    cases ha : tokConn a with
    | none => simp [ha] at h
    | some e =>
      cases hl : l.mapM tokConn with
      | none => simp [ha, hl] at h
      | some es' =>
        simp [ha, hl] at h
        subst h
        obtain ⟨h1, h2, h3⟩ := ih hl
        obtain ⟨a1, a2⟩ := tokConn_atom ha
        simp [List.mapM_cons, h1, h2, h3, a1, a2]

theorem tokConn_atoms {l : List (Val K)} {es : List (ConnEntry K)} (h : l.mapM tokConn = some es)
    (hall : es.all ConnEntry.isAtom = true) :
    l.mapM tokenize = some (es.filterMap fun e => match e with | .atom s => some s | .list _ => none) := by
  induction l generalizing es with
  | nil =>
    simp at h
    subst h
    rfl
  | cons a l ih =>
    rw [List.mapM_cons] at h
    cases ha : tokConn a with
    | none => simp [ha] at h
    | some e =>
      cases hl : l.mapM tokConn with
      | none => simp [ha, hl] at h
      | some es' =>
        simp [ha, hl] at h
        subst h
        simp only [List.all_cons, Bool.and_eq_true] at hall
        have ih' := ih hl hall.2
        cases e with
        | list c => simp [ConnEntry.isAtom] at hall
        | atom s =>
          have : tokenize a = some s := by
            cases a with
            | list c => simp [tokConn] at ha
            | str s' => simpa [tokConn] using ha
            | tuple t => simpa [tokConn] using ha
            | none => simp [tokConn] at ha
            | int i => simp [tokConn] at ha
            | num x => simp [tokConn] at ha
            | other => simp [tokConn] at ha
          simp [List.mapM_cons, this, ih']

/-- **`generated_normalize_eq`: the normalisation of the source text, followed by the list check of
the pre-processing loop, is the model's `normConns`**, for every tokenisable `connections` list. -/
theorem generated_normalize_eq (l : List (Val K)) (es : List (ConnEntry K))
    (h : l.mapM tokConn = some es) :
    ∃ cs, Generated.icxNormalize (.list l) = .ok (.list cs) ∧ cs.mapM readConn = normConns es := by
  obtain ⟨h1, h2, h3⟩ := tokConn_all h
  rw [generated_normalize_list]
  have hemp : l.isEmpty = es.isEmpty := by
    cases l <;> cases es <;> simp_all
  by_cases he : es.isEmpty = true
  · have : l = [] := by simpa using (hemp.trans he)
    subst this
    have : es = [] := by simpa using he
    subst this
    exact ⟨[], by simp, by simp [normConns]⟩
  · by_cases ha : es.all ConnEntry.isAtom = true
    · refine ⟨[.list l], by simp [hemp, he, h1, ha], ?_⟩
      simp [normConns, he, ha, List.mapM_cons, readConn, tokConn_atoms h ha]
      rfl
    · refine ⟨l, by simp [h1, ha], ?_⟩
      simp [normConns, he, ha, h2]

/-- non-vacuity: `[('P.u', 'C.y')]`-style flat list of two strings is one connection; a list of
lists is left alone. -/
example :
    let a : Val ℚ := .str ⟨"P.u", .exact "P.u", [("P", .base "P"), ("u", .base "u")]⟩
    let b : Val ℚ := .str ⟨"C.y", .exact "C.y", [("C", .base "C"), ("y", .base "y")]⟩
    Generated.icxNormalize (.list [a, b]) = .ok (.list [.list [a, b]]) ∧
    Generated.icxNormalize (.list [.list [a, b]]) = .ok (.list [.list [a, b]]) ∧
    Generated.icxNormalize (.list ([] : List (Val ℚ))) = .ok (.list []) := by
  refine ⟨?_, ?_, ?_⟩ <;> rw [generated_normalize_list] <;> simp [isinstance, isinstance1]

/-! ### "`inputs` incompatible with `inplist`" -/

/-- the `inputs` / `outputs` value as a count (`none` = not given); defined on `None`, a
non-negative `int`, a list or a tuple of names (a single name — a string — is not a count). -/
def countOf : Val K → Option (Option Nat)
  | .none => some none
  | .int n => if 0 ≤ n then some (some n.toNat) else none
  | .list l => some (some l.length)
  | .tuple l => some (some l.length)
  | _ => none

/-- **the check of the source text is the model's `countOK`** (a count of 0 / an empty list is
"not given"). -/
theorem generated_checkInputs_eq (v : Val K) (c : Option Nat) (inl : List (Val K))
    (h : countOf v = some c) :
    Generated.icxCheckInputs v inl = if countOK c inl.length then .ok () else .error .badArg := by
  unfold Generated.icxCheckInputs
  cases v with
  | none => simp [countOf] at h; subst h; simp [truthy, countOK]
  | int i =>
    simp only [countOf] at h
    split at h
    · next hi =>
      simp at h
      subst h
      by_cases h0 : i = 0
      · subst h0; simp [truthy, countOK]
      · have h1 : i.toNat ≠ 0 := by omega
        have e : (i == (inl.length : Int)) = (i.toNat == inl.length) := by
          rw [Bool.eq_iff_iff]; simp; omega
        have e' : ((inl.length : Int) == i) = (i.toNat == inl.length) := by
          rw [Bool.eq_iff_iff]; simp; omega
        simp [truthy, countOK, h0, isinstance, isinstance1, toInt, h1, e, e']
        split <;> rfl
    · cases h
  | list l =>
    simp [countOf] at h; subst h
    cases l with
    | nil => simp [truthy, countOK]
    | cons a l =>
      simp [truthy, countOK, isinstance, isinstance1, len]
      by_cases hh : l.length + 1 = inl.length
      · have : (l.length : Int) + 1 = inl.length := by omega
        simp [hh, this]
      · have : ¬ (l.length : Int) + 1 = inl.length := by omega
        have this' : ¬ (inl.length : Int) = (l.length : Int) + 1 := by omega
        simp [hh, this, this']
  | tuple l =>
    simp [countOf] at h; subst h
    cases l with
    | nil => simp [truthy, countOK]
    | cons a l =>
      simp [truthy, countOK, isinstance, isinstance1, len]
      by_cases hh : l.length + 1 = inl.length
      · have : (l.length : Int) + 1 = inl.length := by omega
        simp [hh, this]
      · have : ¬ (l.length : Int) + 1 = inl.length := by omega
        have this' : ¬ (inl.length : Int) = (l.length : Int) + 1 := by omega
        simp [hh, this, this']
  | str s => simp [countOf] at h
  | num x => simp [countOf] at h
  | other => simp [countOf] at h

theorem generated_checkOutputs_eq (v : Val K) (c : Option Nat) (outl : List (Val K))
    (h : countOf v = some c) :
    Generated.icxCheckOutputs v outl = if countOK c outl.length then .ok () else .error .badArg := by
  unfold Generated.icxCheckOutputs
  cases v with
  | none => simp [countOf] at h; subst h; simp [truthy, countOK]
  | int i =>
    simp only [countOf] at h
    split at h
    · next hi =>
      simp at h
      subst h
      by_cases h0 : i = 0
      · subst h0; simp [truthy, countOK]
      · have h1 : i.toNat ≠ 0 := by omega
        have e : (i == (outl.length : Int)) = (i.toNat == outl.length) := by
          rw [Bool.eq_iff_iff]; simp; omega
        have e' : ((outl.length : Int) == i) = (i.toNat == outl.length) := by
          rw [Bool.eq_iff_iff]; simp; omega
        simp [truthy, countOK, h0, isinstance, isinstance1, toInt, h1, e, e']
        split <;> rfl
    · cases h
  | list l =>
    simp [countOf] at h; subst h
    cases l with
    | nil => simp [truthy, countOK]
    | cons a l =>
      simp [truthy, countOK, isinstance, isinstance1, len]
      by_cases hh : l.length + 1 = outl.length
      · have : (l.length : Int) + 1 = outl.length := by omega
        simp [hh, this]
      · have : ¬ (l.length : Int) + 1 = outl.length := by omega
        have this' : ¬ (outl.length : Int) = (l.length : Int) + 1 := by omega
        simp [hh, this, this']
  | tuple l =>
    simp [countOf] at h; subst h
    cases l with
    | nil => simp [truthy, countOK]
    | cons a l =>
      simp [truthy, countOK, isinstance, isinstance1, len]
      by_cases hh : l.length + 1 = outl.length
      · have : (l.length : Int) + 1 = outl.length := by omega
        simp [hh, this]
      · have : ¬ (l.length : Int) + 1 = outl.length := by omega
        have this' : ¬ (outl.length : Int) = (l.length : Int) + 1 := by omega
        simp [hh, this, this']
  | str s => simp [countOf] at h
  | num x => simp [countOf] at h
  | other => simp [countOf] at h

/-- non-vacuity: three names for two list entries raise; a count of 0 is "not given". -/
example :
    Generated.icxCheckInputs (.list [.other, .other, .other] : Val ℚ) [.other, .other] = .error .badArg ∧
    Generated.icxCheckInputs (.int 2 : Val ℚ) [.other, .other] = .ok () ∧
    Generated.icxCheckOutputs (.int 0 : Val ℚ) [.other, .other] = .ok () ∧
    Generated.icxCheckOutputs (.none : Val ℚ) [.other] = .ok () := by
  refine ⟨?_, ?_, ?_, ?_⟩
  · rw [generated_checkInputs_eq _ (some 3) _ rfl]; rfl
  · rw [generated_checkInputs_eq _ (some 2) _ rfl]; rfl
  · rw [generated_checkOutputs_eq _ (some 0) _ rfl]; rfl
  · rw [generated_checkOutputs_eq _ none _ rfl]; rfl

/-! ### `add_unused`: the appended list entries and their labels -/

/-- a loop that appends `f x` to one list and the result of `g x` (which may raise) to another. -/
theorem foldlM_pair {α β γ : Type} (F : List β × List γ → α → Except Err (List β × List γ))
    (f : α → β) (g : α → Except Err γ)
    (hF : ∀ st x, F st x = (g x).map fun t => (st.1 ++ [f x], st.2 ++ [t])) (l : List α)
    (a : List β) (b : List γ) :
    l.foldlM F (a, b) = (l.mapM g).map fun ts => (a ++ l.map f, b ++ ts) := by
  induction l generalizing a b with
  | nil => simp
  | cons x l ih =>
    rw [List.foldlM_cons, hF, List.mapM_cons]
    cases g x with
    | error e => rfl
    | ok t =>
      simp only [map_ok, ok_bind, ih]
      cases l.mapM g with
      | error e => rfl
      | ok ts => simp

/-- the same with the two lists held in the other order. -/
theorem foldlM_pairSwap {α β γ : Type} (F : List γ × List β → α → Except Err (List γ × List β))
    (f : α → β) (g : α → Except Err γ)
    (hF : ∀ st x, F st x = (g x).map fun t => (st.1 ++ [t], st.2 ++ [f x])) (l : List α)
    (a : List β) (b : List γ) :
    l.foldlM F (b, a) = (l.mapM g).map fun ts => (b ++ ts, a ++ l.map f) := by
  induction l generalizing a b with
  | nil => simp
  | cons x l ih =>
    rw [List.foldlM_cons, hF, List.mapM_cons]
    cases g x with
    | error e => rfl
    | ok t =>
      simp only [map_ok, ok_bind, ih]
      cases l.mapM g with
      | error e => rfl
      | ok ts => simp

/-- **the two `add_unused` loops of the source text**: the `k`-th dropped signal `(isys, isig)` is
appended to `inplist` (`outlist`) and, AT THE SAME POSITION, its label
`syslist[isys].input_labels[isig]` (`output_labels`) to `inputs` (`outputs`); a pair outside the
subsystems raises IndexError. -/
theorem generated_addUnused_eq (sigs : List SysSig) (inl outl : List (Val K)) (ins outs : List String)
    (di dout : List (Nat × Nat)) :
    Generated.icxAddUnused sigs inl ins outl outs di dout =
      (di.mapM (labelAt sigs .input)).bind fun li =>
        (dout.mapM (labelAt sigs .output)).map fun lo =>
          (inl ++ di.map pairVal, ins ++ li, outl ++ dout.map pairVal, outs ++ lo) := by
  unfold Generated.icxAddUnused
  first
    | rw [foldlM_pair (f := pairVal) (g := labelAt sigs .input)]
    | rw [foldlM_pairSwap (f := pairVal) (g := labelAt sigs .input)]
  · cases di.mapM (labelAt sigs .input) with
    | error e => rfl
    | ok li =>
      simp only [map_ok, ok_bind]
      first
        | rw [foldlM_pair (f := pairVal) (g := labelAt sigs .output)]
        | rw [foldlM_pairSwap (f := pairVal) (g := labelAt sigs .output)]
      · cases dout.mapM (labelAt sigs .output) with
        | error e => rfl
        | ok lo => rfl
      · intro st x
        obtain ⟨a, b⟩ := st
        obtain ⟨i, j⟩ := x
        cases h : labelAt sigs .output (i, j) <;> simp [h]
  · intro st x
    obtain ⟨a, b⟩ := st
    obtain ⟨i, j⟩ := x
    cases h : labelAt sigs .input (i, j) <;> simp [h]

/-- for existing ports `labelAt` never raises and the labels are the model's `unusedLabels`. -/
theorem mapM_labelAt (sigs : List SysSig) (d : IC.Dict) (ps : List (Nat × Nat))
    (hv : ∀ p ∈ ps, ∃ S, sigs[p.1]? = some S ∧ p.2 < (S.labels d).length) :
    ps.mapM (labelAt sigs d) = .ok (unusedLabels sigs d ps) := by
  induction ps with
  | nil => rfl
  | cons p ps ih =>
    obtain ⟨S, hS, hi⟩ := hv p (List.mem_cons_self ..)
    have hl : (S.labels d)[p.2]? = some (S.labels d)[p.2] := List.getElem?_eq_getElem hi
    rw [List.mapM_cons, C07.unusedLabels_cons sigs d p ps S _ hS hl,
      ih fun q hq => hv q (List.mem_cons_of_mem _ hq)]
    simp [labelAt, hS, hl]

/-- `(isys, isig)` is tokenised as the model's `pairSpec`. -/
theorem tokenize_pairVal (p : Nat × Nat) : tokenize (pairVal p : Val K) = some (pairSpec p.1 p.2) := by
  simp [pairVal, tokenize, tokTriple, emptyStr, tokSys, tokSig, tokGain, pairSpec]

/-- **`generated_addUnused_model`: on the dropped signals the model computes (`unusedInputs` /
`unusedOutputs` of the first construction), the source-text loops append exactly the model's
`pairSpec` entries and the model's `unusedLabels`, in the same order.** -/
theorem generated_addUnused_model (sigs : List SysSig) (m : Maps K) (inl outl : List (Val K))
    (ins outs : List String) :
    Generated.icxAddUnused sigs inl ins outl outs (unusedInputs sigs m) (unusedOutputs sigs m) =
      .ok (inl ++ (unusedInputs sigs m).map pairVal, ins ++ unusedLabels sigs .input (unusedInputs sigs m),
           outl ++ (unusedOutputs sigs m).map pairVal, outs ++ unusedLabels sigs .output (unusedOutputs sigs m)) ∧
      ((unusedInputs sigs m).map (pairVal (K := K))).map tokenize =
        (unusedInputs sigs m).map (fun p => some (pairSpec p.1 p.2)) ∧
      ((unusedOutputs sigs m).map (pairVal (K := K))).map tokenize =
        (unusedOutputs sigs m).map (fun p => some (pairSpec p.1 p.2)) := by
  refine ⟨?_, ?_, ?_⟩
  · rw [generated_addUnused_eq,
      mapM_labelAt sigs .input _ fun p hp => by
        obtain ⟨S, hS, hi, _⟩ := C07.unusedInputs_spec sigs m p hp
        exact ⟨S, hS, hi⟩,
      mapM_labelAt sigs .output _ fun p hp => by
        obtain ⟨S, hS, hi, _⟩ := C07.unusedOutputs_spec sigs m p hp
        exact ⟨S, hS, hi⟩]
    rfl
  · simp [List.map_map, Function.comp_def, tokenize_pairVal]
  · simp [List.map_map, Function.comp_def, tokenize_pairVal]

/-- **`added_input_wired_and_named`, transported**: the `k`-th entry the source-text loop appends to
`inplist` for an unused subsystem input, and the `k`-th label it appends to `inputs`, are that port's
`pairSpec` (writing exactly one `1` into `input_map`, in a row that was zero) and that port's label. -/
theorem generated_added_input_wired_and_named (sigs : List SysSig) (m : Maps K) (inl outl : List (Val K))
    (ins outs : List String) :
    ∃ r, Generated.icxAddUnused sigs inl ins outl outs (unusedInputs sigs m) (unusedOutputs sigs m) = .ok r ∧
      r.1.length = inl.length + (unusedInputs sigs m).length ∧
      r.2.1.length = ins.length + (unusedInputs sigs m).length ∧
      ∀ k (hk : k < (unusedInputs sigs m).length),
        let p := (unusedInputs sigs m)[k]
        r.1[inl.length + k]? = some (pairVal p) ∧
        ∃ S l, sigs[p.1]? = some S ∧ S.inputs[p.2]? = some l ∧
          r.2.1[ins.length + k]? = some l.raw ∧
          inpEntries (K := K) sigs (inl.length + k) [pairSpec p.1 p.2]
            = .ok [(offset sigs .input p.1 + p.2, inl.length + k, 1)] ∧
          rowUsed m.inp (offset sigs .input p.1 + p.2) = false ∧
          rowUsed m.connect (offset sigs .input p.1 + p.2) = false := by
  obtain ⟨h, -, -⟩ := generated_addUnused_model sigs m inl outl ins outs
  have hal := C07.unusedLabels_aligned sigs .input (unusedInputs sigs m) fun p hp => by
    obtain ⟨S, hS, hi, _⟩ := C07.unusedInputs_spec sigs m p hp
    exact ⟨S, hS, hi⟩
  have hlen := hal.length_eq
  refine ⟨_, h, by simp, by simp [← hlen], ?_⟩
  intro k hk p
  have hp : p ∈ unusedInputs sigs m := List.getElem_mem hk
  obtain ⟨S, l, hS, hl, hE, hU, h1, h2⟩ := C07.added_input_wired_and_named sigs m p hp (inl.length + k)
  refine ⟨by simp [List.getElem?_append_right, hk, p], S, l, hS, hl, ?_, hE, h1, h2⟩
  have hk' : k < (unusedLabels sigs .input (unusedInputs sigs m)).length := by omega
  obtain ⟨S', l', hS', hl', hname⟩ := List.forall₂_iff_get.mp hal |>.2 k hk hk'
  simp only [List.get_eq_getElem] at hS' hl' hname
  have : S' = S := by
    have := hS'.symm.trans hS
    simpa using this
  subst this
  have : l' = l := by
    have := hl'.symm.trans hl
    simpa using this
  subst this
  simp [List.getElem?_append_right, hk', hname]

/-- idem for outputs. -/
theorem generated_added_output_wired_and_named (sigs : List SysSig) (m : Maps K) (inl outl : List (Val K))
    (ins outs : List String) :
    ∃ r, Generated.icxAddUnused sigs inl ins outl outs (unusedInputs sigs m) (unusedOutputs sigs m) = .ok r ∧
      r.2.2.1.length = outl.length + (unusedOutputs sigs m).length ∧
      r.2.2.2.length = outs.length + (unusedOutputs sigs m).length ∧
      ∀ k (hk : k < (unusedOutputs sigs m).length),
        let p := (unusedOutputs sigs m)[k]
        r.2.2.1[outl.length + k]? = some (pairVal p) ∧
        ∃ S l, sigs[p.1]? = some S ∧ S.outputs[p.2]? = some l ∧
          r.2.2.2[outs.length + k]? = some l.raw ∧
          outEntries (K := K) sigs (outl.length + k) [pairSpec p.1 p.2]
            = .ok [(outl.length + k, offset sigs .output p.1 + p.2, 1)] ∧
          colUsed m.out (offset sigs .output p.1 + p.2) = false ∧
          colUsed m.connect (offset sigs .output p.1 + p.2) = false := by
  obtain ⟨h, -, -⟩ := generated_addUnused_model sigs m inl outl ins outs
  have hal := C07.unusedLabels_aligned sigs .output (unusedOutputs sigs m) fun p hp => by
    obtain ⟨S, hS, hi, _⟩ := C07.unusedOutputs_spec sigs m p hp
    exact ⟨S, hS, hi⟩
  have hlen := hal.length_eq
  refine ⟨_, h, by simp, by simp [← hlen], ?_⟩
  intro k hk p
  have hp : p ∈ unusedOutputs sigs m := List.getElem_mem hk
  obtain ⟨S, l, hS, hl, hE, hU, h1, h2⟩ := C07.added_output_wired_and_named sigs m p hp (outl.length + k)
  refine ⟨by simp [List.getElem?_append_right, hk, p], S, l, hS, hl, ?_, hE, h1, h2⟩
  have hk' : k < (unusedLabels sigs .output (unusedOutputs sigs m)).length := by omega
  obtain ⟨S', l', hS', hl', hname⟩ := List.forall₂_iff_get.mp hal |>.2 k hk hk'
  simp only [List.get_eq_getElem] at hS' hl' hname
  have : S' = S := by
    have := hS'.symm.trans hS
    simpa using this
  subst this
  have : l' = l := by
    have := hl'.symm.trans hl
    simpa using this
  subst this
  simp [List.getElem?_append_right, hk', hname]

/-- non-vacuity (the shape of the seeded failing input of repair e311818): `P` with inputs
`u, d1, d2`, `C` with inputs `ff, e`; the dropped inputs `(0,1), (0,2), (1,0)` are appended in this
order and named `d1, d2, ff`. -/
example :
    Generated.icxAddUnused (K := ℚ) C07.sigsUn [] ["r"] [] [] [(0, 1), (0, 2), (1, 0)] [(1, 1)] =
      .ok ([pairVal (0, 1), pairVal (0, 2), pairVal (1, 0)], ["r", "d1", "d2", "ff"],
           [pairVal (1, 1)], ["mon"]) := by
  rw [generated_addUnused_eq]
  rfl

end CtrlVerif.C07GenX
