/-
Source-text tie of C20, part 5: `SystemTrajectory.eval` (control/flatsys/systraj.py).
-/
import CtrlVerif.Generated.FlatEval
import CtrlVerif.Props.C20GenFlatP2P

namespace CtrlVerif.C20GenFlat

open Matrix CtrlVerif PyFlat

variable {K : Type} [Field K] [DecidableEq K] [LinearOrder K] [IsStrictOrderedRing K] {n : Nat}

/-- the innermost statement of `eval`: `zflag[i][k] += self.coeffs[i][j] * self.basis.eval_deriv(j, k, t, var=i)`. -/
def evalK (bs : Basis K) (coeffs : List (List K)) (t : K) (i j : Int) (zflag : List (List K)) (k : Int) :
    Except Err (List (List K)) :=
  (PyArith.getItem zflag i).bind fun t5 => (PyArith.getItem t5 k).bind fun t6 =>
  (PyArith.getItem coeffs i).bind fun t7 => (PyArith.getItem t7 j).bind fun t8 =>
  (Generated.basisEvalDeriv bs j k t).bind fun t9 => (PyArith.getItem zflag i).bind fun t10 =>
  (PyArith.setItem t10 k (t6 + (t8 * t9))).bind fun t11 => PyArith.setItem zflag i t11

/-- the loop over the coefficients `j` (inside: the loop over the derivative orders `k`). -/
def evalJ (bs : Basis K) (coeffs : List (List K)) (t : K) (i flag_len : Int) (zflag : List (List K)) (j : Int) :
    Except Err (List (List K)) :=
  List.foldlM (evalK bs coeffs t i j) zflag (PyArith.range 0 flag_len)

/-- the loop over the flat outputs `i`. -/
def evalI (self : PyTraj K) (t : K) (zflag : List (List K)) (i : Int) : Except Err (List (List K)) :=
  (PyArith.getItem self.flaglen i).bind fun flag_len => (PyFlat.zeros1 flag_len).bind fun t3 =>
  (Generated.basisVarNcoefs self.basis i).bind fun t4 =>
    List.foldlM (evalJ self.basis self.coeffs t i flag_len) (zflag ++ [t3]) (PyArith.range 0 (t4 : Int))

/-- one time point: build the flag, call `reverse`, store the two columns. -/
def evalT (reverse : List (List K) → Except Err (List K × List K)) (self : PyTraj K) (t2 : PMat K × PMat K)
    (t1 : Int × K) : Except Err (PMat K × PMat K) :=
  (List.foldlM (evalI self t1.2) ([] : List (List K)) (PyArith.range 0 (self.ninputs : Int))).bind fun zflag =>
  (reverse zflag).bind fun r => (PyFlat.setCol t2.1 t1.1 r.1).bind fun xd => (PyFlat.setCol t2.2 t1.1 r.2).bind fun ud =>
    pure (xd, ud)

/-- the function the source text defines, with the loop bodies named. -/
theorem systrajEval_unfold (reverse : List (List K) → Except Err (List K × List K)) (self : PyTraj K) (ts : List K) :
    Generated.systrajEval reverse self ts
      = (List.foldlM (evalT reverse self) (PMat.zeros self.nstates ts.length, PMat.zeros self.ninputs ts.length)
          (PyFlat.enumerate ts)).bind fun r => pure (r.1, r.2) := rfl

/-- a coefficient by its position (`0` beyond the end, never read). -/
def coefN {N : Nat} (α : Fin N → K) (j : Nat) : K := if h : j < N then α ⟨j, h⟩ else 0

/-- the flag entry `k` after the coefficients `0 … j-1` have been accumulated. -/
def psum (bs : Basis K) (α : Fin bs.N → K) (t : K) (j k : Nat) : K :=
  ∑ j' ∈ Finset.range j, coefN α j' * bs.evalDN j' k t

/-- the flag while coefficient `j` is being accumulated: done for the derivative orders below `k'`. -/
def accStage (bs : Basis K) (α : Fin bs.N → K) (t : K) (l j k' : Nat) : List (List K) :=
  [List.ofFn fun k : Fin l => psum bs α t j k.val + if k.val < k' then coefN α j * bs.evalDN j k.val t else 0]

theorem evalK_step (bs : Basis K) (hT : bs.T ≠ 0) (α : Fin bs.N → K) (t : K) (l j k' : Nat) (hj : j < bs.N)
    (hk : k' < l) :
    evalK bs [List.ofFn α] t 0 (j : Int) (accStage bs α t l j k') (k' : Int) = .ok (accStage bs α t l j (k' + 1)) := by
  unfold evalK accStage
  simp only [getItem_singleton, getItem_ofFn _ k' hk, getItem_ofFn _ j hj, basisEvalDeriv_ok bs hT j k' hj t,
    setItem_ofFn _ k' hk, setItem_singleton, Except.ok_bind', lt_self_iff_false, if_false, add_zero]
  congr 3
  funext k
  have hc : coefN α j = α ⟨j, hj⟩ := by simp [coefN, hj]
  by_cases h : k.val = k'
  · have : k.val < k' + 1 := by omega
    simp only [h, if_true, hc, lt_add_one]
  · by_cases h2 : k.val < k'
    · have : k.val < k' + 1 := by omega
      simp only [h, if_false, h2, if_true, this]
    · have : ¬ k.val < k' + 1 := by omega
      simp only [h, if_false, h2, this]

/-- the two inner loops of `eval` compute the flag `Σ_j α_j φ_j^{(k)}(t)` of the model. -/
theorem evalJ_loop (bs : Basis K) (hT : bs.T ≠ 0) (α : Fin bs.N → K) (t : K) (l : Nat) :
    List.foldlM (evalJ bs [List.ofFn α] t 0 (l : Int)) [List.ofFn fun _ : Fin l => (0 : K)]
      (PyArith.range 0 (bs.N : Int)) = .ok [List.ofFn (trajFlag bs α l t)] := by
  have h0 : [List.ofFn fun _ : Fin l => (0 : K)] = accStage bs α t l 0 0 := by
    simp [accStage, psum]
  have hN : [List.ofFn (trajFlag bs α l t)] = accStage bs α t l bs.N 0 := by
    unfold accStage
    congr 2
    funext k
    simp only [psum, Nat.not_lt_zero, if_false, add_zero, trajFlag, flagMatrix, mulVec, dotProduct]
    rw [Finset.sum_range]
    refine Finset.sum_congr rfl fun j _ => ?_
    simp [coefN, Basis.evalDN, mul_comm]
  rw [h0, hN]
  apply foldlM_range0_stages (P := fun J => accStage bs α t l J 0)
  intro J hJ
  have hrow : accStage bs α t l J l = accStage bs α t l (J + 1) 0 := by
    unfold accStage
    congr 2
    funext k
    simp only [psum, Finset.sum_range_succ, k.isLt, if_true, Nat.not_lt_zero, if_false, add_zero]
  show evalJ bs [List.ofFn α] t 0 (l : Int) (accStage bs α t l J 0) (J : Int) = _
  unfold evalJ
  rw [← hrow]
  exact foldlM_range0_stages (evalK bs [List.ofFn α] t 0 (J : Int)) l (fun k' => accStage bs α t l J k')
    (fun k' hk => evalK_step bs hT α t l J k' hJ hk)

theorem evalI_siso (bs : Basis K) (hT : bs.T ≠ 0) (α : Fin bs.N → K) (t : K) :
    List.foldlM (evalI (trajOf n bs α) t) ([] : List (List K)) (PyArith.range 0 ((1 : Nat) : Int))
      = .ok [List.ofFn (trajFlag bs α (n + 1) t)] := by
  have hr1 : PyArith.range 0 ((1 : Nat) : Int) = [0] := by simp [PyArith.range]
  rw [hr1, List.foldlM_cons]
  unfold evalI trajOf
  simp only [getItem_singleton, zeros1_natCast, generated_varNcoefs_eq, Except.ok_bind', List.nil_append,
    evalJ_loop bs hT α t (n + 1), bind, List.foldlM_nil]
  rfl

theorem setCol_mk {r c : Nat} (M : Matrix (Fin r) (Fin c) K) (q : Nat) (hq : q < c) (v : Fin r → K) :
    setCol ⟨r, c, M⟩ (q : Int) (List.ofFn v)
      = .ok ⟨r, c, Matrix.of fun i j => if j.val = q then v i else M i j⟩ := by
  have h1 : (0 : Int) ≤ (q : Int) ∧ (q : Int) < (c : Int) := by omega
  have h2 : (List.ofFn v).length = r := by simp
  simp only [setCol, PyArith.normIdx, h1, and_self, if_true, Int.toNat_natCast, h2, dite_true]
  congr 3
  funext i j
  simp

/-- the two result arrays after `q` time points. -/
def evalStage (L : LinFlat n K) (bs : Basis K) (α : Fin bs.N → K) (ts : List K) (q : Nat) : PMat K × PMat K :=
  (⟨n, ts.length, Matrix.of fun i j => if j.val < q then (trajEval L bs α (ts.get j)).1 i else 0⟩,
    ⟨1, ts.length, Matrix.of fun _ j => if j.val < q then (trajEval L bs α (ts.get j)).2 else 0⟩)

theorem evalT_step (L : LinFlat n K) (C : Matrix (Fin 1) (Fin n) K) (D : Matrix (Fin 1) (Fin 1) K) (dt : Dt)
    (bs : Basis K) (hT : bs.T ≠ 0) (α : Fin bs.N → K) (ts : List K) (q : Nat) (hq : q < ts.length) :
    evalT (Generated.linflatReverse (L.toPy C D dt)) (trajOf n bs α) (evalStage L bs α ts q) ((q : Int), ts[q])
      = .ok (evalStage L bs α ts (q + 1)) := by
  have h1 : [(trajEval L bs α ts[q]).2] = List.ofFn fun _ : Fin 1 => (trajEval L bs α ts[q]).2 := by simp
  unfold evalT
  have hI := evalI_siso (n := n) bs hT α ts[q]
  simp only [trajOf] at hI ⊢
  simp only [hI, Except.ok_bind', generated_reverse_eq, evalStage]
  rw [show (L.reverse (trajFlag bs α (n + 1) ts[q])) = trajEval L bs α ts[q] from rfl, h1,
    setCol_mk _ q hq, Except.ok_bind', setCol_mk _ q hq, Except.ok_bind']
  simp only [pure, Except.pure]
  have hg : ∀ j : Fin ts.length, j.val = q → ts.get j = ts[q] := by
    intro j h
    subst h
    rfl
  congr 3
  · funext i j
    simp only [Matrix.of_apply]
    by_cases h : j.val = q
    · rw [if_pos h, if_pos (by omega), hg j h]
    · by_cases h2 : j.val < q
      · rw [if_neg h, if_pos h2, if_pos (by omega)]
      · rw [if_neg h, if_neg h2, if_neg (by omega)]
  · funext i j
    simp only [Matrix.of_apply]
    by_cases h : j.val = q
    · rw [if_pos h, if_pos (by omega), hg j h]
    · by_cases h2 : j.val < q
      · rw [if_neg h, if_pos h2, if_pos (by omega)]
      · rw [if_neg h, if_neg h2, if_neg (by omega)]

/-- **`SystemTrajectory.eval` as written in the source is the model's `trajEval` at every time of the
list**: for the trajectory object of a linear flat system of any order, both basis families with `T ≠ 0`,
every coefficient vector and every list of times, it returns the `n × len` array of the states and the
`1 × len` array of the inputs of the model. -/
theorem generated_trajEval_eq (L : LinFlat n K) (C : Matrix (Fin 1) (Fin n) K) (D : Matrix (Fin 1) (Fin 1) K)
    (dt : Dt) (bs : Basis K) (hT : bs.T ≠ 0) (α : Fin bs.N → K) (ts : List K) :
    Generated.systrajEval (Generated.linflatReverse (L.toPy C D dt)) (trajOf n bs α) ts
      = .ok (⟨n, ts.length, Matrix.of fun i j => (trajEval L bs α (ts.get j)).1 i⟩,
          ⟨1, ts.length, Matrix.of fun _ j => (trajEval L bs α (ts.get j)).2⟩) := by
  have hlen : (PyFlat.enumerate ts).length = ts.length := by simp [PyFlat.enumerate]
  have hloop := foldlM_stages (evalT (Generated.linflatReverse (L.toPy C D dt)) (trajOf n bs α))
    (PyFlat.enumerate ts) (evalStage L bs α ts) (fun q hq => by
      rw [hlen] at hq
      have e : (PyFlat.enumerate ts)[q] = ((q : Int), ts[q]) := by simp [PyFlat.enumerate]
      rw [e]
      exact evalT_step L C D dt bs hT α ts q hq)
  rw [systrajEval_unfold]
  have h0 : ((PMat.zeros (trajOf n bs α).nstates ts.length, PMat.zeros (trajOf n bs α).ninputs ts.length)
      : PMat K × PMat K) = evalStage L bs α ts 0 := by
    simp only [evalStage, Nat.not_lt_zero, if_false]
    rfl
  rw [h0, hloop, hlen, Except.ok_bind']
  simp only [evalStage, pure, Except.pure]
  congr 3
  · funext i j
    simp [j.isLt]
  · funext i j
    simp [j.isLt]

end CtrlVerif.C20GenFlat
