/-
Source-text tie of C20, part 1: `LinearFlatSystem.__init__` (control/flatsys/linflat.py).
-/
import CtrlVerif.Generated.FlatInit
import CtrlVerif.Lemmas.PyFlat
import CtrlVerif.Props.C15GenReach
import CtrlVerif.Props.C20Cert

namespace CtrlVerif.C20GenFlat

open Matrix CtrlVerif PyFlat

variable {K : Type} [Field K] [DecidableEq K]

/-- the model of `LinearFlatSystem(linsys)` on a run-time `StateSpace` object: the kind checks
(`flatKindCheck`), then `LinFlat.construct` on the pair `(A, b)`; the object keeps `linsys` as its
StateSpace part. -/
def initModel (G : DSS K) : Except FlatErr (PyLinFlat K) :=
  match flatKindCheck G.dt G.p G.m with
  | .error e => .error e
  | .ok () =>
    if h : G.p = 1 ∧ G.m = 1 then
      (LinFlat.construct (G.sys.castIO h.1 h.2).A (fun i => (G.sys.castIO h.1 h.2).B i 0)).map
        fun L => L.toPy (G.sys.castIO h.1 h.2).C (G.sys.castIO h.1 h.2).D G.dt
    else .error (.py .notImplemented)

theorem reverse_ofFn {α : Type} {m : Nat} (f : Fin m → α) :
    (List.ofFn f).reverse = List.ofFn fun i => f (Fin.rev i) := by
  apply List.ext_getElem
  · simp
  · intro i h1 h2
    simp only [List.getElem_reverse, List.getElem_ofFn, List.length_ofFn]
    congr 1
    apply Fin.ext
    simp only [Fin.val_rev]
    simp only [List.length_reverse, List.length_ofFn] at h1
    omega

theorem reachableForm_no_states (p m : Nat) (S : SS (Fin 0) (Fin m) (Fin p) K) (dt : Dt) (h : p = 1 ∧ m = 1) :
    Generated.reachableForm (⟨0, p, m, S, dt⟩ : DSS K) = .error .indexRange := by
  rw [C15Gen.generated_reachable_form_eq]
  simp [DSS.reachableForm, Except.map, h]

/-- the constructor on a SISO system with a continuous timebase. -/
theorem init_siso [CharZero K] (n : Nat) (A : Matrix (Fin n) (Fin n) K) (B : Matrix (Fin n) (Fin 1) K)
    (C : Matrix (Fin 1) (Fin n) K) (D : Matrix (Fin 1) (Fin 1) K) (dt : Dt) (hdt : DtPred.isctime false dt = true) :
    (Generated.linflatInit (⟨n, 1, 1, ⟨A, B, C, D⟩, dt⟩ : DSS K)).mapError FlatErr.py
      = (LinFlat.construct A (fun i => B i 0)).map fun L => L.toPy C D dt := by
  have hs : PySS.issiso (⟨n, 1, 1, ⟨A, B, C, D⟩, dt⟩ : DSS K) = true := rfl
  have hct : DtPred.isctimeFn (SysArg.sys dt) Dt.none false = .ok true := by
    simp [DtPred.isctimeFn, DtPred.dispatch, hdt]
  unfold Generated.linflatInit
  simp only [hct, hs, bind, Except.bind, not_true_eq_false, if_false]
  by_cases hn : n = 0
  · subst hn
    rw [reachableForm_no_states 1 1 _ _ ⟨rfl, rfl⟩]
    simp [LinFlat.construct, Except.mapError, Except.map]
  · have hn' : 0 < n := Nat.pos_of_ne_zero hn
    have hB : colMat (fun i => B i 0) = B := by
      ext i j
      simp [colMat, Fin.fin_one_eq_zero j]
    have hcb : ctrb A (fun i => B i 0) = SS.ctrb1 A B := by rw [ctrb_eq_ctrb1, hB]
    rw [C15Gen.generated_reachable_form_eq, C15Gen.reachableForm_closed n dt A B C D hn]
    by_cases hd : (SS.ctrb1 A B).det = 0
    · rw [if_pos hd, construct_unreachable hn' A _ (by rw [hcb]; exact hd)]
      rfl
    · obtain ⟨Wi, Ti, hc, hval, hW⟩ := construct_ok hn' A (fun i => B i 0) (by rw [hcb]; exact hd)
      rw [hcb] at hW
      rw [hc]
      -- the inverse of the reachability matrix
      have hWi : Wi = SS.invQ (SS.ctrb1 A B) := by
        obtain ⟨_, h4⟩ := invQ_two_sided (SS.ctrb1 A B) hd
        calc Wi = (SS.invQ (SS.ctrb1 A B) * SS.ctrb1 A B) * Wi := by rw [h4, Matrix.one_mul]
          _ = SS.invQ (SS.ctrb1 A B) := by rw [Matrix.mul_assoc, hW, Matrix.mul_one]
      -- the coefficients of the characteristic polynomial
      have ha : SS.companionR n (fun k => (PyCanon.charpolyList A).getD k 0) = SS.companionR n (charCoeff A) := by
        ext i j
        have hj := j.isLt
        simp only [SS.companionR]
        rw [PyCanon.charpolyList_getD A (j.val + 1) (by omega), PyCanon.charpolyList_getD A 0 (by omega),
          charCoeff_eq A (j.val + 1) (by omega), charCoeff_eq A 0 (by omega)]
      have hT : SS.reachT (fun k => (PyCanon.charpolyList A).getD k 0) (SS.invQ (SS.ctrb1 A B))
          = SS.reachT (charCoeff A) Wi := by
        unfold SS.reachT
        rw [ha, hWi]
      have ha0 : charCoeff A 0 ≠ 0 := by rw [charCoeff_zero]; exact one_ne_zero
      have hM : SS.hornerMat A (charCoeff A) n * B = 0 := by rw [hornerMat_charCoeff_card, Matrix.zero_mul]
      obtain ⟨-, hq⟩ := SS.reachT_inv A B (charCoeff A) ha0 hM Wi hW
      have hz : ¬ (SS.reachT (charCoeff A) Wi).det = 0 := det_ne_zero_of_mul_eq_one _ _ hq
      have hfz : ¬ (flipRows (SS.reachT (charCoeff A) Wi)).det = 0 := flipRows_det_ne_zero _ _ hq
      have hTm : ctrb (companion fun k : Fin (n + 1) => charCoeff A k.val) (e0vec n) * Wi
          = SS.reachT (charCoeff A) Wi := by
        rw [companion_eq, ctrb_eq_ctrb1, colMat_e0]
        rfl
      have hTT : flipRows (SS.reachT (charCoeff A) Wi) * Ti = 1 := by
        have := hval.1
        simpa only [assemble, hTm] using this
      have hTi : SS.invQ (flipRows (SS.reachT (charCoeff A) Wi)) = Ti := by
        obtain ⟨_, h4⟩ := invQ_two_sided _ hfz
        calc SS.invQ (flipRows (SS.reachT (charCoeff A) Wi))
            = SS.invQ (flipRows (SS.reachT (charCoeff A) Wi)) * (flipRows (SS.reachT (charCoeff A) Wi) * Ti) := by
              rw [hTT, Matrix.mul_one]
          _ = Ti := by rw [← Matrix.mul_assoc, h4, Matrix.one_mul]
      have hset : PyCanon.setItem (⟨1, n, 0⟩ : PMat K) 0 0 ((1 : Int) : K)
          = .ok ⟨1, n, Matrix.of fun i j => if i.val = 0 ∧ j.val = 0 then ((1 : Int) : K) else 0⟩ := by
        rw [PyCanon.setItem_nonneg _ _ _ _ _ _ (le_refl _) (le_refl _) (by omega) (by omega)]
        rfl
      rw [if_neg hd, hT, if_neg hz]
      simp only [PySS.A, PySS.C, row_mk_zero _ hn', flipRows_mk, PMat.inv_mk, hfz, if_false, PMat.zeros_def, hset,
        PMat.matmul_mk, PMat.inverse_eq_invQ, hTi, pure, Except.pure, Except.mapError, Except.map, ha, reverse_ofFn]
      have hCf : (Matrix.of fun (i : Fin 1) (j : Fin n) => if i.val = 0 ∧ j.val = 0 then ((1 : Int) : K) else 0)
          * flipRows (SS.reachT (charCoeff A) Wi) = rowMat (flipRows (SS.reachT (charCoeff A) Wi) ⟨0, hn'⟩) := by
        ext i j
        rw [Matrix.mul_apply, Finset.sum_eq_single (⟨0, hn'⟩ : Fin n)]
        · simp [rowMat, Fin.fin_one_eq_zero i]
        · intro k _ hk
          have : ¬ k.val = 0 := fun h => hk (Fin.ext h)
          simp [this]
        · intro h; exact absurd (Finset.mem_univ _) h
      have hTm' := hTm
      rw [companion_eq] at hTm'
      simp only [LinFlat.toPy, assemble, hB, companion_eq, hTm', hCf]

/-- after the timebase test: the SISO test, then `init_siso`. -/
theorem init_rest [CharZero K] (n p m : Nat) (A : Matrix (Fin n) (Fin n) K) (B : Matrix (Fin n) (Fin m) K)
    (C : Matrix (Fin p) (Fin n) K) (D : Matrix (Fin p) (Fin m) K) (dt : Dt)
    (hdt : DtPred.isctime false dt = true) (hk : ∀ p m, flatKindCheck dt p m = if p = 1 ∧ m = 1 then .ok () else .error (.py .notImplemented)) :
    (Generated.linflatInit (⟨n, p, m, ⟨A, B, C, D⟩, dt⟩ : DSS K)).mapError FlatErr.py
      = initModel ⟨n, p, m, ⟨A, B, C, D⟩, dt⟩ := by
  by_cases h : p = 1 ∧ m = 1
  · obtain ⟨rfl, rfl⟩ := h
    rw [init_siso n A B C D dt hdt]
    simp only [initModel, hk, and_self, if_true, dite_true, SS.castIO_rfl]
  · have hs : ¬ (PySS.issiso (⟨n, p, m, ⟨A, B, C, D⟩, dt⟩ : DSS K) = true) := by
      simp only [PySS.issiso, Bool.and_eq_true, beq_iff_eq]
      exact h
    have hct : DtPred.isctimeFn (SysArg.sys dt) Dt.none false = .ok true := by
      simp [DtPred.isctimeFn, DtPred.dispatch, hdt]
    unfold Generated.linflatInit
    simp only [hct, hs, bind, Except.bind, not_true_eq_false, not_false_eq_true, if_false, if_true, initModel, hk, h]
    rfl

theorem generated_init_eq [CharZero K] (G : DSS K) (hv : G.dt.valid) :
    (Generated.linflatInit G).mapError FlatErr.py = initModel G := by
  obtain ⟨n, p, m, ⟨A, B, C, D⟩, dt⟩ := G
  unfold Generated.linflatInit initModel
  cases dt with
  | dtrue =>
    simp [flatKindCheck, DtPred.isctimeFn, DtPred.dispatch, DtPred.isctime, bind, Except.bind, Except.mapError]
    rfl
  | disc h =>
    have h0 : ¬ h = 0 := by
      have : 0 < h := hv
      exact ne_of_gt this
    simp [flatKindCheck, DtPred.isctimeFn, DtPred.dispatch, DtPred.isctime, bind, Except.bind, Except.mapError, h0]
    rfl
  | none => exact init_rest n p m A B C D .none rfl (fun _ _ => rfl)
  | cont => exact init_rest n p m A B C D .cont rfl (fun _ _ => rfl)

/-- **the constructor the source text defines returns exactly on continuous-time (`dt` `None` or `0`) SISO
systems with at least one state whose pair `(A, b)` is reachable**; it raises on everything else. -/
theorem generated_init_ok_iff [CharZero K] (G : DSS K) (hv : G.dt.valid) :
    (∃ P, Generated.linflatInit G = .ok P)
      ↔ DtPred.isctime false G.dt = true ∧ ∃ h : G.p = 1 ∧ G.m = 1, 0 < G.n
          ∧ (ctrb (G.sys.castIO h.1 h.2).A (fun i => (G.sys.castIO h.1 h.2).B i 0)).det ≠ 0 := by
  have he := generated_init_eq G hv
  obtain ⟨n, p, m, ⟨A, B, C, D⟩, dt⟩ := G
  have hgen : (∃ P, Generated.linflatInit (⟨n, p, m, ⟨A, B, C, D⟩, dt⟩ : DSS K) = .ok P)
      ↔ ∃ P, initModel (⟨n, p, m, ⟨A, B, C, D⟩, dt⟩ : DSS K) = .ok P := by
    rw [← he]
    cases Generated.linflatInit (⟨n, p, m, ⟨A, B, C, D⟩, dt⟩ : DSS K) <;> simp [Except.mapError]
  rw [hgen]
  simp only [initModel]
  cases dt with
  | dtrue => simp [flatKindCheck, DtPred.isctime]
  | disc h =>
    have h0 : ¬ h = 0 := ne_of_gt (show 0 < h from hv)
    simp [flatKindCheck, DtPred.isctime, h0]
  | none =>
    by_cases hs : p = 1 ∧ m = 1
    · obtain ⟨rfl, rfl⟩ := hs
      simp only [flatKindCheck, and_self, if_true, dite_true, SS.castIO_rfl, DtPred.isctime, Bool.not_false, true_and,
        exists_true_left]
      rcases Nat.eq_zero_or_pos n with h0 | hn
      · subst h0
        simp [C20.construct_zero_states, Except.map]
      · rw [← C20Cert.linflat_ok_iff hn]
        simp only [hn, true_and]
        cases LinFlat.construct A (fun i => B i 0) <;> simp [Except.map]
    · have : ¬ ∃ h : p = 1 ∧ m = 1, True := fun ⟨h, _⟩ => hs h
      simp [flatKindCheck, hs]
  | cont =>
    by_cases hs : p = 1 ∧ m = 1
    · obtain ⟨rfl, rfl⟩ := hs
      simp only [flatKindCheck, and_self, if_true, dite_true, SS.castIO_rfl, DtPred.isctime, true_and,
        exists_true_left]
      rcases Nat.eq_zero_or_pos n with h0 | hn
      · subst h0
        simp [C20.construct_zero_states, Except.map]
      · rw [← C20Cert.linflat_ok_iff hn]
        simp only [hn, true_and]
        cases LinFlat.construct A (fun i => B i 0) <;> simp [Except.map]
    · have : ¬ ∃ h : p = 1 ∧ m = 1, True := fun ⟨h, _⟩ => hs h
      simp [flatKindCheck, hs]

/-! non-vacuity (ℚ): the third-order chain of `Props/C20Cert.lean` -/

/-- `StateSpace([[0,1,0],[0,0,1],[-1,-2,-3]], [[0],[0],[2]], [[1,0,0]], [[0]])` (continuous time). -/
def G3 : DSS ℚ := ⟨3, 1, 1, ⟨C20Cert.A3, colMat C20Cert.b3, !![1, 0, 0], !![0]⟩, .cont⟩

example : G3.dt.valid := trivial

/-- the constructor the source text defines returns on it … -/
theorem G3_returns : ∃ P, Generated.linflatInit G3 = .ok P :=
  (generated_init_ok_iff G3 trivial).mpr ⟨rfl, ⟨rfl, rfl⟩, by decide, by
    simp only [G3, SS.castIO_rfl]
    decide +kernel⟩

/-- … and raises for the same matrices in discrete time and for an unreachable input matrix. -/
example : ¬ ∃ P, Generated.linflatInit (⟨3, 1, 1, G3.sys, .disc 1⟩ : DSS ℚ) = .ok P := by
  rw [generated_init_ok_iff _ (by decide)]
  simp [DtPred.isctime]

example : ¬ ∃ P, Generated.linflatInit
    (⟨3, 1, 1, ⟨!![1, 0, 0; 0, 0, 1; 0, -2, -3], !![0; 0; 1], !![1, 0, 0], !![0]⟩, .none⟩ : DSS ℚ) = .ok P := by
  rw [generated_init_ok_iff _ (show Dt.valid .none from trivial)]
  rintro ⟨-, hs, -, h⟩
  simp only [SS.castIO_rfl] at h
  exact h (by decide +kernel)

end CtrlVerif.C20GenFlat
