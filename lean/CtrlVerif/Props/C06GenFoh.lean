/-
Source-text tie of C06, part 1: the general continuous-time algorithm of `forced_response`
(first-order hold).  `Generated/TimeRespFoh.lean` is rewritten from control/timeresp.py on every run
(harness/core/py2lean_tr.py); the theorems below prove the model's `fohMFin`, `fohBlocksFin`, `simFOH`
(`Model/TimeResp.lean`) EQUAL to what the generated function computes, for every external `expm`, all
sizes, entries, steps and input lists.
-/
import CtrlVerif.Generated.TimeRespFoh
import CtrlVerif.Lemmas.PyTR

namespace CtrlVerif.C06Gen

open Matrix CtrlVerif TimeResp

variable {K : Type} [Field K] [DecidableEq K]

/-- the blocks the model cuts out of `expm(M)` for the system `G` and the step `dt`. -/
def blocksOf (expm : SqFun K) (G : DSS K) (dt : K) :
    Matrix (Fin G.n) (Fin G.n) K × Matrix (Fin G.n) (Fin G.m) K × Matrix (Fin G.n) (Fin G.m) K :=
  fohBlocksFin (expm (G.n + G.m + G.m) (fohMFin G.sys.A G.sys.B dt))

/-- **the general continuous-time algorithm** (`frFoh`: allocation of `xout`, `xout[:, 0] = X0`, the
`np.block` matrix `M`, `expM = expm(M)`, the three slices, the loop, `yout = C @ xout + D @ U`): for
every external function `expm`, every system (all sizes), step, initial state and non-empty list of
input samples, the function the source text defines returns the time vector unchanged, the input
unchanged, and states / outputs EQUAL to the model's `simFOH` run with the blocks the model cuts out
of `expm` applied to the model's `fohMFin`. -/
theorem generated_foh_eq (expm : SqFun K) (G : DSS K) (dt : K) (T : List K) (x0 : Fin G.n → K)
    (us : List (Fin G.m → K)) (hne : us ≠ []) :
    Generated.frFoh expm (PySS.A G) (PySS.B G) (PySS.C G) (PySS.D G) dt us.length T ⟨G.n, x0⟩ ⟨G.m, us⟩
      = .ok (T,
          ⟨G.p, (simFOH G.sys (blocksOf expm G dt).1 (blocksOf expm G dt).2.1 (blocksOf expm G dt).2.2 x0 us).2⟩,
          ⟨G.n, (simFOH G.sys (blocksOf expm G dt).1 (blocksOf expm G dt).2.1 (blocksOf expm G dt).2.2 x0 us).1⟩,
          ⟨G.m, us⟩) := by
  obtain ⟨n, p, m, ⟨A, B, C, D⟩, dtG⟩ := G
  simp only [blocksOf, PySS.A, PySS.B, PySS.C, PySS.D, simFOH]
  generalize hE : expm (n + m + m) (fohMFin A B dt) = E
  set L := fohStates (fohBlocksFin E).1 (fohBlocksFin E).2.1 (fohBlocksFin E).2.2 x0 us with hL
  have hlen : L.length = us.length := fohStates_length _ _ _ _ _
  have hpos : 0 < us.length := List.length_pos_iff.mpr hne
  have h0 : L[0]'(by omega) = x0 := fohStates_getElem_zero _ _ _ _ _ _
  unfold Generated.frFoh
  simp only [PMat.mulNum_mk, PMat.smul_mk, PMat.zeros_def, PMat.identity_def, bind, Except.bind, pure, Except.pure]
  have hset : (PSig.zeros n us.length).setCol 0 ⟨n, x0⟩ = .ok (PSig.partial n L 1) := by
    have := PSig.partial_one n L (by omega)
    rwa [h0, hlen] at this
  have hM : expm (n + (m + m)) (((fromBlocks (fromBlocks (dt • A) (dt • B) 0 0) (fromRows 0 1) 0 0).submatrix
      (eFoh n m).symm (eFoh n m).symm).submatrix (Fin.cast (Nat.add_assoc n m m).symm)
      (Fin.cast (Nat.add_assoc n m m).symm))
      = E.submatrix (Fin.cast (Nat.add_assoc n m m).symm) (Fin.cast (Nat.add_assoc n m m).symm) := by
    exact (SqFun.cast_nat expm (Nat.add_assoc n m m).symm (fohMFin A B dt)).trans (by rw [hE])
  simp only [hset]
  rw [block_foh' n m _ _ ?h2 ?h3]
  case h2 => omega
  case h3 => omega
  simp only [PMat.applySq_mk, hM]
  rw [foh_slice_Ad n m E _ _ ?a1 ?a2, foh_slice_Bd1 n m E _ _ ?b1 ?b2, foh_slice_mid n m E _ _ _ ?c1 ?c2 ?c3]
  case a1 => omega
  case a2 => omega
  case b1 => omega
  case b2 => omega
  case c1 => omega
  case c2 => omega
  case c3 => omega
  simp only [PMat.sub_mk]
  rw [foldlM_fill n L _ ?step (by omega) _ (by rw [hlen])]
  case step =>
    intro j hj
    have e1 : ((j + 1 : Nat) : Int) - 1 = (j : Int) := by omega
    have hj' : j + 1 < us.length := by omega
    simp only [e1]
    rw [PSig.partial_getCol n L (j + 1) j (by omega) (by omega) _ rfl]
    simp only [PMat.matvec_mk, PSig.getCol_nat m us (show j < us.length by omega),
      PSig.getCol_nat m us hj', PVec.add_mk]
    exact PSig.partial_setCol n L (j + 1) hj _ rfl _
      (fohStates_getElem_succ _ _ _ _ _ j (by rw [fohStates_length]; omega)).symm
  simp only [PMat.matsig_mk]
  rw [PSig.add_mk _ _ _ (by simp [hlen])]
  simp only [outputs, List.zipWith_map_left, List.zipWith_map_right]
  rfl

/-- without time points the allocation `xout[:, 0] = X0` raises (`IndexError`); the model's
`gridStep` has rejected such a grid before. -/
theorem generated_foh_no_steps (expm : SqFun K) (A B C D : PMat K) (dt : K) (T : List K) (X0 : PVec K)
    (U : PSig K) : Generated.frFoh expm A B C D dt 0 T X0 U = .error .indexRange := by
  unfold Generated.frFoh
  simp [PSig.setCol, PSig.zeros, PyArith.normIdx, bind, Except.bind]

/-- non-vacuity: the integrator `x' = u` (over ℚ, `expm` the second-order truncation of the series,
which is exact here) on two time points with the ramp input `0, 1` is simulated: `x = 0, 1/2`. -/
example : ∃ R, Generated.frFoh (K := ℚ) (fun _ M => expSum 2 M) ⟨1, 1, !![0]⟩ ⟨1, 1, !![1]⟩ ⟨1, 1, !![1]⟩
    ⟨1, 1, !![0]⟩ 1 2 [0, 1] ⟨1, ![0]⟩ ⟨1, [![0], ![1]]⟩ = .ok R ∧ R.2.2.1.cols.length = 2 := by
  have := generated_foh_eq (K := ℚ) (fun _ M => expSum 2 M) ⟨1, 1, 1, ⟨!![0], !![1], !![1], !![0]⟩, .cont⟩ 1
    [0, 1] ![0] [![0], ![1]] (by simp)
  exact ⟨_, this, by simp [simFOH]⟩

end CtrlVerif.C06Gen
