/-
Source-text tie of C06: the headline theorems of the property transported to the functions that are
regenerated from control/timeresp.py on every run (`Generated/TimeResp*.lean`), and the model's
`forced` expressed through them.  With `Props/C06GenFoh / Free / Cont / Disc / Grid` (generated = model)
the chain  source text → model → solution of the ODE / of the difference equation  is closed for the
translated statements of `forced_response`:

* `generated_forced_response_exact`, `generated_forced_is_the_solution` — over ℝ with Mathlib's matrix
  exponential as `expm`: what the general continuous-time algorithm OF THE SOURCE TEXT returns are the
  samples of THE solution of `x' = A x + B u(t)` under the piecewise-linear input, outputs `C x + D u`
  (`C06Exp.forced_response_exact`);
* `generated_initial_response_exact` — the fast path of the source text returns the samples of the
  solution of `x' = A x` (`C06Exp.initial_response_exact`);
* `generated_cont_is_the_solution` — the whole continuous-time branch, test included, whatever the
  input (the fast path is only an optimisation);
* `generated_foh_recursion` — over any field, for any `expm`: the loop invariant `C06.foh_exact`;
* `generated_discrete_exact`, `generated_discrete_exact_decimated` — the discrete branch of the source
  text, given the contract of `dlsim`: `x[0] = x0`, `x[k+1] = A x[k] + B u[k]`, `y = C x + D u` at the
  requested times (`C06.discrete_exact`, `discrete_exact_decimated`, `discrete_decimated_outputs`);
* `model_forced_cont_generated`, `model_forced_disc_generated` — the model's `forced` (the function all
  theorems of `Props/C06.lean` about argument handling are about) returns exactly what the generated
  grid test followed by the generated branch returns on the converted arguments.
-/
import CtrlVerif.Props.C06GenCont
import CtrlVerif.Props.C06GenDisc
import CtrlVerif.Props.C06GenGrid
import CtrlVerif.Props.C06Exp

namespace CtrlVerif.C06Gen

open Matrix CtrlVerif TimeResp NormedSpace ExpODE Filter Topology Set

/-! ### continuous time over ℝ: `expm` = the matrix exponential -/

/-- the matrix exponential as an external function on square matrices of every size. -/
noncomputable def realExpm : SqFun ℝ := fun _ M => exp M

/-- the exponential commutes with re-indexing along a bijection. -/
theorem exp_submatrix_equiv {τ κ : Type*} [Fintype τ] [DecidableEq τ] [Fintype κ] [DecidableEq κ] (e : κ ≃ τ)
    (X : Matrix τ τ ℝ) : exp (X.submatrix e e) = (exp X).submatrix e e := by
  have h1 := tendsto_expSum (X.submatrix e e)
  have h2 := tendsto_linear_expSum (Matrix.reindexLinearEquiv ℝ ℝ e.symm e.symm).toLinearMap X
  simp only [LinearEquiv.coe_coe, Matrix.coe_reindexLinearEquiv, Matrix.reindex_apply, Equiv.symm_symm] at h2
  simp only [expSum_submatrix_equiv] at h1
  exact tendsto_nhds_unique h1 h2

/-- with `expm = exp` the blocks the model cuts out of `expm(fohMFin A B dt)` (run-time sizes) are the
blocks of `exp(fohM A B dt)` of `Props/C06Exp.lean`. -/
theorem blocksOf_realExpm (G : DSS ℝ) (dt : ℝ) :
    blocksOf realExpm G dt = (fohAd (exp (fohM G.sys.A G.sys.B dt)), fohBd0 (exp (fohM G.sys.A G.sys.B dt)),
      fohBd1 (exp (fohM G.sys.A G.sys.B dt))) := by
  have : (exp (fohMFin G.sys.A G.sys.B dt)).submatrix (eFoh G.n G.m) (eFoh G.n G.m)
      = exp (fohM G.sys.A G.sys.B dt) := by
    rw [fohMFin, exp_submatrix_equiv, Matrix.submatrix_submatrix]
    simp
  simp only [blocksOf, realExpm, fohBlocksFin, this]

/-- **`forced_response_exact` for the function the source text defines.**  For every system with real
coefficients, every grid `t0 + k dt` (`dt > 0`), every non-empty list of input samples and every
trajectory `x` that solves `x' = A x + B u(t)` on `[t0, t_last]` under an input `u` that interpolates
the samples linearly: the general continuous-time algorithm of `forced_response` (as regenerated from
the source), run with `expm = exp` from `x(t0)`, returns the time vector and the input unchanged, the
states `x(t0 + k dt)` and the outputs `C x(t0 + k dt) + D us[k]`. -/
theorem generated_forced_response_exact (G : DSS ℝ) (dt : ℝ) (hdt : 0 < dt) (t0 : ℝ) (T : List ℝ)
    (us : List (Fin G.m → ℝ)) (hne : us ≠ []) (u : ℝ → Fin G.m → ℝ) (x : ℝ → Fin G.n → ℝ)
    (hu : ∀ k (hk : k + 1 < us.length), ∀ t ∈ Icc (grid t0 dt k) (grid t0 dt (k + 1)),
      u t = us[k] + ((t - grid t0 dt k) / dt) • (us[k + 1] - us[k]))
    (hx : SolvesOn G.sys.A G.sys.B u x t0 (grid t0 dt (us.length - 1))) :
    ∃ xs ys, Generated.frFoh realExpm (PySS.A G) (PySS.B G) (PySS.C G) (PySS.D G) dt us.length T
        ⟨G.n, x t0⟩ ⟨G.m, us⟩ = .ok (T, ⟨G.p, ys⟩, ⟨G.n, xs⟩, ⟨G.m, us⟩) ∧
      xs = (List.range us.length).map (fun k => x (grid t0 dt k)) ∧
      ∀ k (hk : k < us.length), ys[k]? = some (G.sys.C *ᵥ x (grid t0 dt k) + G.sys.D *ᵥ us[k]) := by
  refine ⟨_, _, generated_foh_eq realExpm G dt T (x t0) us hne, ?_, ?_⟩
  · rw [blocksOf_realExpm]
    exact (C06Exp.forced_response_exact G.sys dt hdt t0 us u x hu hx).1
  · rw [blocksOf_realExpm]
    exact (C06Exp.forced_response_exact G.sys dt hdt t0 us u x hu hx).2

/-- existence and uniqueness included: started at ANY `x0`, the generated algorithm returns the
samples of a solution from `x0` under the piecewise-linear interpolation `pwlInput` of the samples, and
every solution from `x0` coincides with it on `[t0, t_last]`. -/
theorem generated_forced_is_the_solution (G : DSS ℝ) (dt : ℝ) (hdt : 0 < dt) (t0 : ℝ) (T : List ℝ)
    (us : List (Fin G.m → ℝ)) (hne : us ≠ []) (x0 : Fin G.n → ℝ) :
    ∃ (x : ℝ → Fin G.n → ℝ) (ys : List (Fin G.p → ℝ)), x t0 = x0 ∧
      SolvesOn G.sys.A G.sys.B (pwlInput t0 dt us) x t0 (grid t0 dt (us.length - 1)) ∧
      (∀ y : ℝ → Fin G.n → ℝ, y t0 = x0 →
        SolvesOn G.sys.A G.sys.B (pwlInput t0 dt us) y t0 (grid t0 dt (us.length - 1)) →
        EqOn y x (Icc t0 (grid t0 dt (us.length - 1)))) ∧
      Generated.frFoh realExpm (PySS.A G) (PySS.B G) (PySS.C G) (PySS.D G) dt us.length T ⟨G.n, x0⟩ ⟨G.m, us⟩
        = .ok (T, ⟨G.p, ys⟩, ⟨G.n, (List.range us.length).map (fun k => x (grid t0 dt k))⟩, ⟨G.m, us⟩) := by
  obtain ⟨x, h0, hx, huniq, hs⟩ := C06Exp.forced_response_is_the_solution G.sys dt hdt t0 us x0
  refine ⟨x, (simFOH G.sys (fohAd (exp (fohM G.sys.A G.sys.B dt))) (fohBd0 (exp (fohM G.sys.A G.sys.B dt)))
    (fohBd1 (exp (fohM G.sys.A G.sys.B dt))) x0 us).2, h0, hx, huniq, ?_⟩
  rw [generated_foh_eq realExpm G dt T x0 us hne, blocksOf_realExpm, hs]

/-- **the fast path of the source text** with `expm = exp`: the samples of any solution of `x' = A x`,
outputs `C x` (`C06Exp.initial_response_exact`). -/
theorem generated_initial_response_exact (G : DSS ℝ) (dt : ℝ) (hdt : 0 < dt) (t0 : ℝ) (T : List ℝ) (k : ℕ)
    (hk : 0 < k) (U : PSig ℝ) (x : ℝ → Fin G.n → ℝ)
    (hx : SolvesOn G.sys.A G.sys.B (fun _ => 0) x t0 (grid t0 dt (k - 1))) :
    Generated.frFree realExpm (PySS.A G) (PySS.B G) (PySS.C G) (PySS.D G) dt k T ⟨G.n, x t0⟩ U
      = .ok (T, ⟨G.p, (List.range k).map (fun j => G.sys.C *ᵥ x (grid t0 dt j))⟩,
          ⟨G.n, (List.range k).map (fun j => x (grid t0 dt j))⟩, U) := by
  rw [generated_free_eq realExpm G dt T (x t0) U k hk]
  have := C06Exp.initial_response_exact G.sys dt hdt t0 k x hx
  simp only [realExpm, this]

/-- **the whole continuous-time branch of the source text** (zero-input test included), `expm = exp`:
whatever the input - zero, tiny or not - the returned states are the samples of THE solution from
`x0` under the piecewise-linear input. -/
theorem generated_cont_is_the_solution (G : DSS ℝ) (dt : ℝ) (hdt : 0 < dt) (t0 : ℝ) (T : List ℝ)
    (us : List (Fin G.m → ℝ)) (hne : us ≠ []) (x0 : Fin G.n → ℝ) :
    ∃ (x : ℝ → Fin G.n → ℝ) (ys : List (Fin G.p → ℝ)), x t0 = x0 ∧
      SolvesOn G.sys.A G.sys.B (pwlInput t0 dt us) x t0 (grid t0 dt (us.length - 1)) ∧
      (∀ y : ℝ → Fin G.n → ℝ, y t0 = x0 →
        SolvesOn G.sys.A G.sys.B (pwlInput t0 dt us) y t0 (grid t0 dt (us.length - 1)) →
        EqOn y x (Icc t0 (grid t0 dt (us.length - 1)))) ∧
      Generated.frCont realExpm (PySS.A G) (PySS.B G) (PySS.C G) (PySS.D G) dt us.length T ⟨G.n, x0⟩ ⟨G.m, us⟩
        = .ok (T, ⟨G.p, ys⟩, ⟨G.n, (List.range us.length).map (fun k => x (grid t0 dt k))⟩, ⟨G.m, us⟩) := by
  obtain ⟨x, h0, hx, huniq, hs⟩ := C06Exp.forced_response_is_the_solution G.sys dt hdt t0 us x0
  by_cases hz : PSig.allZero ⟨G.m, us⟩ = true
  · refine ⟨x, (simFree G.sys (realExpm G.n (dt • G.sys.A)) x0 us.length).2, h0, hx, huniq, ?_⟩
    rw [generated_cont_eq realExpm G dt T x0 us hne, if_pos hz]
    have hus : us = List.replicate us.length 0 := by
      rw [List.eq_replicate_iff]
      exact ⟨rfl, fun b hb => funext fun j => (generated_allZero_iff G.m us).1 hz b hb j⟩
    have h1 := (C06.initial_eq_forced G.sys (fohAd (exp (fohM G.sys.A G.sys.B dt)))
      (fohBd0 (exp (fohM G.sys.A G.sys.B dt))) (fohBd1 (exp (fohM G.sys.A G.sys.B dt))) x0 us.length).1
    rw [← hus] at h1
    have h2 : realExpm G.n (dt • G.sys.A) = fohAd (exp (fohM G.sys.A G.sys.B dt)) := (fohAd_exp _ _ _).symm
    rw [h2, ← h1, hs]
  · refine ⟨x, (simFOH G.sys (fohAd (exp (fohM G.sys.A G.sys.B dt))) (fohBd0 (exp (fohM G.sys.A G.sys.B dt)))
      (fohBd1 (exp (fohM G.sys.A G.sys.B dt))) x0 us).2, h0, hx, huniq, ?_⟩
    rw [generated_cont_eq realExpm G dt T x0 us hne, if_neg hz, blocksOf_realExpm, hs]

/-! ### any field, any `expm`: the loop invariant -/

/-- **`foh_exact` for the function the source text defines**: it returns one state per input sample,
`x[0] = X0`, `x[k+1] = Ad x[k] + Bd0 u[k] + Bd1 u[k+1]` with the blocks cut out of `expm(M)`, and
`y[k] = C x[k] + D u[k]`. -/
theorem generated_foh_recursion {K : Type} [Field K] [DecidableEq K] (expm : SqFun K) (G : DSS K) (dt : K)
    (T : List K) (x0 : Fin G.n → K) (us : List (Fin G.m → K)) (hne : us ≠ []) :
    ∃ xs ys, Generated.frFoh expm (PySS.A G) (PySS.B G) (PySS.C G) (PySS.D G) dt us.length T
        ⟨G.n, x0⟩ ⟨G.m, us⟩ = .ok (T, ⟨G.p, ys⟩, ⟨G.n, xs⟩, ⟨G.m, us⟩) ∧
      xs.length = us.length ∧ xs[0]? = some x0 ∧
      (∀ (k : ℕ) x u v, xs[k]? = some x → us[k]? = some u → us[k + 1]? = some v →
        xs[k + 1]? = some ((blocksOf expm G dt).1 *ᵥ x + (blocksOf expm G dt).2.1 *ᵥ u
          + (blocksOf expm G dt).2.2 *ᵥ v)) ∧
      (∀ (k : ℕ) x u, xs[k]? = some x → us[k]? = some u → ys[k]? = some (G.sys.C *ᵥ x + G.sys.D *ᵥ u)) := by
  refine ⟨_, _, generated_foh_eq expm G dt T x0 us hne, ?_⟩
  obtain ⟨hl, h0, hs⟩ := C06.foh_exact (blocksOf expm G dt).1 (blocksOf expm G dt).2.1 (blocksOf expm G dt).2.2 x0 us
  have hpos : 0 < us.length := List.length_pos_iff.mpr hne
  simp only [simFOH]
  refine ⟨hl, ?_, ?_, ?_⟩
  · rw [List.getElem?_eq_getElem (by omega), h0 (by omega)]
  · intro k x u v hx hu hv
    have hk1 : k + 1 < us.length := by
      by_contra hc
      rw [List.getElem?_eq_none (by omega)] at hv
      cases hv
    rw [List.getElem?_eq_getElem (by omega)] at hx hu hv ⊢
    rw [hs k (by omega)]
    simp only [Option.some.injEq] at hx hu hv
    rw [hx, hu, hv]
  · intro k x u hx hu
    simp only [outputs, List.getElem?_zipWith, hx, hu]
    rfl

/-! ### discrete time, given the contract of `dlsim` -/

/-- **`discrete_exact_decimated` for the function the source text defines** (numeric sampling time `h`,
grid step `dt = inc h`): one state and one output per requested time; the returned state `j` is state
`j inc` of the recursion `x⁺ = A x + B u` at the sampling rate driven by the linearly interpolated
input, which agrees with the given input at the requested times; `y[j] = C x[j] + D u[j]` there. -/
theorem generated_discrete_exact_decimated (f : DlsimFun ℚ) (hS : DlsimSpec f) (na : ℚ → ℚ) (fuel : Nat)
    (G : DSS ℚ) (h dt : ℚ) (h0 : 0 < h) (inc : ℕ) (hd : decimation (.disc h) dt = .ok inc) (T : List ℚ)
    (hg : gridStep T = .ok dt) (x0 : Fin G.n → ℚ) (us : List (Fin G.m → ℚ)) (hlen : us.length = T.length) :
    ∃ xs ys, Generated.frDisc f na fuel (PySS.A G) (PySS.B G) (PySS.C G) (PySS.D G) (.disc h) dt us.length T
        ⟨G.n, x0⟩ ⟨G.m, us⟩ = .ok (T, ⟨G.p, ys⟩, ⟨G.n, xs⟩, ⟨G.m, us⟩) ∧
      dt = inc * h ∧ 1 ≤ inc ∧ xs.length = us.length ∧ ys.length = us.length ∧
      (∀ j : ℕ, xs[j]? = (dStates G.sys x0 (interp inc us))[j * inc]?) ∧
      (∀ j : ℕ, (interp inc us)[j * inc]? = us[j]?) ∧
      (∀ (j : ℕ) x u, xs[j]? = some x → us[j]? = some u → ys[j]? = some (G.sys.C *ᵥ x + G.sys.D *ᵥ u)) := by
  obtain ⟨_, hinc, hdt⟩ := C06.decimation_disc h dt inc hd
  have := generated_disc_eq f hS na fuel G h dt h0 T hg x0 us hlen
  rw [hd] at this
  obtain ⟨h1, _, h3, h4, h5⟩ := C06.discrete_exact_decimated G.sys inc hinc x0 us
  exact ⟨_, _, this, hdt, hinc, h4, h5, h1, h3,
    fun j x u hx hu => C06.discrete_decimated_outputs G.sys inc hinc x0 us j x u hx hu⟩

/-- **`discrete_exact` for the function the source text defines** (grid at the sampling time, or
`dt = True / None` on an increasing grid): `x[0] = x0`, `x[k+1] = A x[k] + B u[k]`,
`y[k] = C x[k] + D u[k]`, one state per sample. -/
theorem generated_discrete_exact (f : DlsimFun ℚ) (hS : DlsimSpec f) (na : ℚ → ℚ) (fuel : Nat)
    (G : DSS ℚ) (d : Dt) (dt : ℚ) (hd : d = .disc dt ∨ d = .dtrue ∨ d = .none) (h0 : 0 < dt) (T : List ℚ)
    (hg : gridStep T = .ok dt) (x0 : Fin G.n → ℚ) (us : List (Fin G.m → ℚ)) (hlen : us.length = T.length) :
    Generated.frDisc f na fuel (PySS.A G) (PySS.B G) (PySS.C G) (PySS.D G) d dt us.length T ⟨G.n, x0⟩ ⟨G.m, us⟩
      = .ok (T, ⟨G.p, outputs G.sys (dStates G.sys x0 us) us⟩, ⟨G.n, dStates G.sys x0 us⟩, ⟨G.m, us⟩) ∧
    (dStates G.sys x0 us).length = us.length ∧
    (∀ hp : 0 < (dStates G.sys x0 us).length, (dStates G.sys x0 us)[0] = x0) ∧
    (∀ (k : ℕ) (hk : k + 1 < (dStates G.sys x0 us).length),
      (dStates G.sys x0 us)[k + 1] = G.sys.A *ᵥ ((dStates G.sys x0 us)[k]'(by omega))
        + G.sys.B *ᵥ (us[k]'(by simp at hk; omega))) := by
  refine ⟨?_, C06.discrete_exact G.sys x0 us⟩
  have hone : decimation (.disc dt) dt = .ok 1 := by
    have := C06.decimation_disc_ok dt 1 h0 le_rfl
    simpa using this
  rcases hd with rfl | hd
  · rw [generated_disc_eq f hS na fuel G dt dt h0 T hg x0 us hlen, hone]
    simp only [Except.bind, C06.discrete_inc_one]
  · rw [unspec_core f hS na fuel G d hd dt h0 T hg x0 us hlen, C06.discrete_inc_one]

/-! ### the model's `forced` through the generated functions -/

/-- the zero-input test of the source on the converted input is the model's `allZero`. -/
theorem allZero_get {m : ℕ} (us : List (Vector ℚ m)) :
    PSig.allZero ⟨m, us.map Vector.get⟩ = allZero us := by
  rw [Bool.eq_iff_iff, generated_allZero_iff, TimeResp.allZero_iff]
  simp

/-- the arrays of a model trace, as the generated functions return them. -/
def traceArrays {n p m : ℕ} (r : Trace n p m) : List ℚ × PSig ℚ × PSig ℚ × PSig ℚ :=
  (r.t, ⟨p, r.y.map Vector.get⟩, ⟨n, r.x.map Vector.get⟩, ⟨m, r.u.map Vector.get⟩)

/-- **the model's `forced`, continuous time, through the generated functions.**  When the model accepts
the arguments (`gridStep`, `convertX0`, `convertU`: argument validation, not tied) and is handed
`expA = expm(dt A)`, `expM = expm(fohMFin A B dt)`, then the generated grid test returns
`(len T, dt)` and the generated continuous-time branch, run on the converted arguments, returns exactly
the four arrays of the trace the model returns.  So every theorem of `Props/C06.lean` about `forced`
for continuous-time systems is a theorem about the source text of these statements. -/
theorem model_forced_cont_generated (expm : SqFun ℚ) (G : DSS ℚ) (T : List ℚ) (U X0 : Arr)
    (e : ExpmVals G.n G.m) (hdt : G.dt = .cont) (dt : ℚ) (x0 : Vector ℚ G.n) (us : List (Vector ℚ G.m))
    (hg : gridStep T = .ok dt) (hx : convertX0 G.n X0 = .ok x0) (hu : convertU G.m T.length U = .ok us)
    (hA : e.expA = expm G.n (dt • G.sys.A))
    (hM : e.expM = expm (G.n + G.m + G.m) (fohMFin G.sys.A G.sys.B dt)) :
    Generated.frGrid T = .ok (T.length, dt) ∧
    Generated.frCont expm (PySS.A G) (PySS.B G) (PySS.C G) (PySS.D G) dt T.length T ⟨G.n, x0.get⟩
        ⟨G.m, us.map Vector.get⟩
      = (forced G (some T) U X0 (some e)).map traceArrays := by
  have hlen := convertU_length G.m T.length U us hu
  have hT2 : 2 ≤ T.length := (C06.gridStep_ok T dt hg).1
  refine ⟨(generated_grid_ok_iff T _ _).2 ⟨hg, rfl⟩, ?_⟩
  rw [C06.forced_cont_branches G T U X0 e hdt dt x0 us hg hx hu]
  have hne : us.map Vector.get ≠ [] := by
    intro h; rw [List.map_eq_nil_iff] at h; simp [h] at hlen; omega
  have := generated_cont_eq expm G dt T x0.get (us.map Vector.get) hne
  rw [List.length_map, hlen] at this
  rw [this, allZero_get]
  simp only [Except.map]
  congr 1
  split
  · simp only [traceArrays, hA]
    have h := simFreeV_refines G.sys (expm G.n (dt • G.sys.A)) x0 T.length
    rw [← h]
  · simp only [traceArrays, blocksOf, ← hM]
    have h := simFOHV_refines G.sys (fohBlocksFin e.expM).1 (fohBlocksFin e.expM).2.1 (fohBlocksFin e.expM).2.2 x0 us
    rw [← h]

/-- **the model's `forced`, discrete time, through the generated functions** (sampling time `h > 0`, or
`dt = True / None` on an increasing grid; `dlsim` under its contract, any `nextafter`, any `fuel`):
the generated branch returns the arrays of the model's trace, and raises when the model does. -/
theorem model_forced_disc_generated (f : DlsimFun ℚ) (hS : DlsimSpec f) (na : ℚ → ℚ) (fuel : Nat) (G : DSS ℚ)
    (T : List ℚ) (U X0 : Arr) (ex : Option (ExpmVals G.n G.m)) (dt : ℚ) (x0 : Vector ℚ G.n)
    (us : List (Vector ℚ G.m))
    (hd : (∃ h, G.dt = .disc h ∧ 0 < h) ∨ ((G.dt = .dtrue ∨ G.dt = .none) ∧ 0 < dt))
    (hg : gridStep T = .ok dt) (hx : convertX0 G.n X0 = .ok x0) (hu : convertU G.m T.length U = .ok us) :
    Generated.frGrid T = .ok (T.length, dt) ∧
    Generated.frDisc f na fuel (PySS.A G) (PySS.B G) (PySS.C G) (PySS.D G) G.dt dt T.length T ⟨G.n, x0.get⟩
        ⟨G.m, us.map Vector.get⟩
      = (forced G (some T) U X0 ex).map traceArrays := by
  have hlen := convertU_length G.m T.length U us hu
  refine ⟨(generated_grid_ok_iff T _ _).2 ⟨hg, rfl⟩, ?_⟩
  have hlen' : (us.map Vector.get).length = T.length := by simpa using hlen
  have hforced : forced G (some T) U X0 ex = (decimation G.dt dt).bind fun inc =>
      .ok ⟨T, (simDiscreteV G.sys inc x0 us).1, (simDiscreteV G.sys inc x0 us).2, us⟩ := by
    simp only [forced, timeVector, hg, hx, hu, Bind.bind, Except.bind, Pure.pure, Except.pure]
    rcases hd with ⟨h, hh, _⟩ | ⟨hh | hh, _⟩ <;> rw [hh]
  have hgen : Generated.frDisc f na fuel (PySS.A G) (PySS.B G) (PySS.C G) (PySS.D G) G.dt dt T.length T
      ⟨G.n, x0.get⟩ ⟨G.m, us.map Vector.get⟩ = (decimation G.dt dt).bind fun inc =>
        .ok (T, ⟨G.p, (simDiscrete G.sys inc x0.get (us.map Vector.get)).2⟩,
          ⟨G.n, (simDiscrete G.sys inc x0.get (us.map Vector.get)).1⟩, ⟨G.m, us.map Vector.get⟩) := by
    rw [← hlen']
    rcases hd with ⟨h, hh, h0⟩ | ⟨hh, h0⟩
    · rw [hh]
      exact generated_disc_eq f hS na fuel G h dt h0 T hg x0.get _ hlen'
    · exact generated_disc_unspecified_eq f hS na fuel G G.dt hh dt h0 T hg x0.get _ hlen'
  rw [hgen, hforced]
  cases decimation G.dt dt with
  | error e => rfl
  | ok inc =>
    simp only [Except.bind, Except.map, traceArrays]
    have h := simDiscreteV_refines G.sys inc x0 us
    rw [← h]

/-- non-vacuity of `model_forced_cont_generated`: the integrator `x' = u` on `[0, 1]` with the ramp
`0, 1` and `expm` = the (here exact) second-order truncation: all hypotheses hold. -/
example : Generated.frCont (K := ℚ) (fun _ M => expSum 2 M) ⟨1, 1, !![0]⟩ ⟨1, 1, !![1]⟩ ⟨1, 1, !![1]⟩ ⟨1, 1, !![0]⟩
      1 2 [0, 1] ⟨1, (Vector.replicate 1 (0 : ℚ)).get⟩
      ⟨1, [Vector.replicate 1 (0 : ℚ), Vector.replicate 1 1].map Vector.get⟩
    = (forced (⟨1, 1, 1, ⟨!![0], !![1], !![1], !![0]⟩, .cont⟩ : DSS ℚ) (some [0, 1]) (.d1 [0, 1]) (.scalar 0)
        (some ⟨expSum 2 ((1 : ℚ) • (!![0] : Matrix (Fin 1) (Fin 1) ℚ)),
          expSum 2 (fohMFin (!![0] : Matrix (Fin 1) (Fin 1) ℚ) (!![1] : Matrix (Fin 1) (Fin 1) ℚ) 1)⟩)).map
        traceArrays :=
  (model_forced_cont_generated (fun _ M => expSum 2 M)
    (⟨1, 1, 1, ⟨!![0], !![1], !![1], !![0]⟩, .cont⟩ : DSS ℚ) [0, 1] (.d1 [0, 1]) (.scalar 0)
    ⟨expSum 2 ((1 : ℚ) • (!![0] : Matrix (Fin 1) (Fin 1) ℚ)),
      expSum 2 (fohMFin (!![0] : Matrix (Fin 1) (Fin 1) ℚ) (!![1] : Matrix (Fin 1) (Fin 1) ℚ) 1)⟩
    rfl 1 (Vector.replicate 1 0) [Vector.replicate 1 0, Vector.replicate 1 1]
    (by decide +kernel) rfl (by decide +kernel) rfl rfl).2

/-- non-vacuity of `model_forced_disc_generated` / `generated_discrete_exact`: `x⁺ = 2x + u`, `dt = True`,
grid `0, 1, 2`. -/
example : Generated.frDisc dlsimOfSpec id 0 ⟨1, 1, !![2]⟩ ⟨1, 1, !![1]⟩ ⟨1, 1, !![1]⟩ ⟨1, 1, !![0]⟩ .dtrue 1 3
      [0, 1, 2] ⟨1, ![1]⟩ ⟨1, [![1], ![0], ![3]]⟩
    = .ok ([0, 1, 2], ⟨1, outputs (⟨!![2], !![1], !![1], !![0]⟩ : SS (Fin 1) (Fin 1) (Fin 1) ℚ)
          (dStates ⟨!![2], !![1], !![1], !![0]⟩ ![1] [![1], ![0], ![3]]) [![1], ![0], ![3]]⟩,
        ⟨1, dStates ⟨!![2], !![1], !![1], !![0]⟩ ![1] [![1], ![0], ![3]]⟩, ⟨1, [![1], ![0], ![3]]⟩) :=
  (generated_discrete_exact dlsimOfSpec dlsimSpec_nonvacuous id 0
    (⟨1, 1, 1, ⟨!![2], !![1], !![1], !![0]⟩, .dtrue⟩ : DSS ℚ) .dtrue 1 (Or.inr (Or.inl rfl)) one_pos [0, 1, 2]
    (by decide +kernel) ![1] [![1], ![0], ![3]] rfl).1

end CtrlVerif.C06Gen
