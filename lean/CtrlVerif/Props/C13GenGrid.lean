/-
C13 — source-text tie of `_default_frequency_range` (`control/freqplot.py`): the function regenerated from the source text
on every run (`Generated/GridRange.lean`, translator `harness/core/py2lean_grid.py`) equals the hand-written model of the
default grid (`Model/NyquistGrid.lean`: `featureBranch`, `rangeExponents`, `peripheryParam`), and the theorems of
`Props/C13Grid.lean` hold of the generated function.

`contribution` spells out what the model's comment says the harness does "exactly as the code does it": the features and
the interesting frequencies one system adds, by `featureBranch` of its timebase.
-/
import CtrlVerif.Generated.GridRange
import CtrlVerif.Lemmas.PyGrid
import CtrlVerif.Props.C13Grid

namespace CtrlVerif.C13GenGrid

open CtrlVerif CtrlVerif.Nyquist CtrlVerif.PyGrid CtrlVerif.PyGridLemmas

variable {K : Type} [Field K] [LinearOrder K] [IsStrictOrderedRing K] [FloorRing K]

/-- features and interesting frequencies one system contributes (`d` = the periphery in decades) -/
def contribution (E : PyGrid.Ext K) (d : K) (s : PyGrid.Sys K) : Except Err (List K × List K) :=
  if s.frd then
    match s.omega with
    | [] => .error .badArg
    | a :: t => .ok ([minL a t * E.pow10 d, maxL a t / E.pow10 d], [])
  else
    match featureBranch s.dt with
    | .continuous => .ok ((s.absPoles ++ s.absZeros).filter (fun x => !PyGrid.isclose x 0), [])
    | .discrete =>
      .ok (((s.absPoles ++ s.absZeros).filter
              (fun x => !(decide (x ≤ 0) || decide (|x - 1| < 1 / 10000000000)))).map
            (fun x => |E.ln x / dtValue s.dt|),
          [E.pi / dtValue s.dt * (9 / 10)])
    | .skipped => .ok ([], [])

/-- one iteration of the model: append the contribution -/
def step (E : PyGrid.Ext K) (d : K) (st : List K × List K) (s : PyGrid.Sys K) : Except Err (List K × List K) :=
  (contribution E d s).map fun c => (st.1 ++ c.1, st.2 ++ c.2)

/-- all systems, from the left -/
def collect (E : PyGrid.Ext K) (d : K) (l : List (PyGrid.Sys K)) : Except Err (List K × List K) :=
  l.foldlM (step E d) ([], [])

/-- the systems the loop visits: a single system is wrapped -/
def sysList : PyGrid.SysArg K → List (PyGrid.Sys K)
  | .one s => [s]
  | .many l => l

/-- the number of samples: an explicit value wins over the configured one; `None` / `0`: NumPy's 50 -/
def numSamples (cfg arg : Option ℕ) : ℕ :=
  match PyGrid.getParamO cfg arg with
  | some n => if n = 0 then 50 else n
  | none => 50

/-- the model's grid: `logspace` of the exponents `rangeExponents` of the collected features -/
def modelRange (E : PyGrid.Ext K) (syslist : PyGrid.SysArg K) (num : Option ℕ) (dArg : Option K) : Except Err (List K) := do
  let cfg := E.cfgK "freqplot.feature_periphery_decades" 1
  let c ← collect E (peripheryParam cfg dArg) (sysList syslist)
  let e := determineExponents cfg dArg (c.1.map E.log10) (c.2.map E.log10)
  pure (PyGrid.logspace E.pow10 e.1 e.2 (numSamples (E.cfgN "freqplot.number_of_samples") num))

/-! ### the loop body -/

/-- **the loop body of the source text is the model's per-system step**: every system record, every carried state,
every periphery; FRD / continuous / discrete / unspecified timebase / the swallowed `NotImplementedError`. -/
theorem generated_rangeLoop_eq (E : PyGrid.Ext K) (d : K) (st : List K × List K) (s : PyGrid.Sys K) :
    Generated.defaultFrequencyRangeLoop E d st s = step E d st s := by
  obtain ⟨f, i⟩ := st
  unfold Generated.defaultFrequencyRangeLoop step contribution
  simp only [filter_of_any]
  by_cases hfrd : s.frd = true
  · simp only [hfrd, if_true]
    cases hom : s.omega with
    | nil => simp [minOf_nil, bind, Except.bind, Except.map]
    | cons a t => simp [minOf_cons, maxOf_cons, bind, Except.bind, Except.map, pure, Except.pure]
  · simp only [hfrd, if_false, Bool.false_eq_true]
    cases hdt : s.dt with
    | none =>
      simp [featureBranch, DtPred.isctime, PyGrid.catchNotImpl, filter_of_any, bind, Except.bind, Except.map,
        pure, Except.pure]
    | cont =>
      simp [featureBranch, DtPred.isctime, PyGrid.catchNotImpl, filter_of_any, bind, Except.bind, Except.map,
        pure, Except.pure]
    | dtrue =>
      simp [featureBranch, DtPred.isctime, DtPred.isdtime, PyGrid.catchNotImpl, filter_of_any, PyGrid.dtNum,
        PyGrid.pdiv, PyGrid.absDivJ, dtValue, isclose_zero_zero, bind, Except.bind, Except.map, pure, Except.pure]
    | disc h =>
      by_cases h0 : h = 0
      · subst h0
        simp [featureBranch, DtPred.isctime, PyGrid.catchNotImpl, filter_of_any, bind, Except.bind, Except.map,
          pure, Except.pure]
      · by_cases hp : 0 < h
        · have hK : (h : K) ≠ 0 := Rat.cast_ne_zero.2 h0
          simp [featureBranch, DtPred.isctime, DtPred.isdtime, PyGrid.catchNotImpl, filter_of_any, PyGrid.dtNum,
            PyGrid.pdiv, PyGrid.absDivJ, dtValue, isclose_zero_zero, h0, hp, hK, bind, Except.bind, Except.map,
            pure, Except.pure]
        · simp [featureBranch, DtPred.isctime, DtPred.isdtime, PyGrid.catchNotImpl, h0, hp, bind, Except.bind,
            Except.map, pure, Except.pure]

/-! ### the whole function -/

omit [IsStrictOrderedRing K] [FloorRing K] in
theorem getParam_eq (c : K) (o : Option K) : PyGrid.getParam c o = peripheryParam c o := by
  cases o <;> rfl

theorem loop_eq (E : PyGrid.Ext K) (d : K) : Generated.defaultFrequencyRangeLoop E d = step E d := by
  funext st s
  exact generated_rangeLoop_eq E d st s

/-- **`_default_frequency_range` of the source text is the model's default range** (`Hz` false / `None`): every system
or sequence of systems, every `number_of_samples` and `feature_periphery_decades` (given or `None`), every
configuration; `np.log10` any monotone map with `log10 1 = 0`, `10 ** x`, `np.log`, `math.pi` arbitrary.
The source takes `log10 (min freq_interesting)` where the model takes the least of the logarithms: equal by
monotonicity. -/
theorem generated_defaultRange_eq (E : PyGrid.Ext K) (hmono : Monotone E.log10) (hlog1 : E.log10 1 = 0)
    (syslist : PyGrid.SysArg K) (num : Option ℕ) (dArg : Option K) :
    Generated.defaultFrequencyRange E syslist false num dArg = modelRange E syslist num dArg := by
  unfold Generated.defaultFrequencyRange modelRange collect determineExponents
  simp only [loop_eq, getParam_eq]
  have hmin : ∀ (a : K) (t : List K), E.log10 (List.foldl min a t) = List.foldl min (E.log10 a) (t.map E.log10) :=
    fun a t => minL_map hmono a t
  have hmax : ∀ (a : K) (t : List K), E.log10 (List.foldl max a t) = List.foldl max (E.log10 a) (t.map E.log10) :=
    fun a t => maxL_map hmono a t
  cases syslist
  all_goals
    simp only [PyGrid.hasIter, PyGrid.single, PyGrid.iter, sysList, bind, Except.bind, pure, Except.pure,
      Bool.not_false, Bool.not_true, if_true, if_false, Bool.false_eq_true]
    generalize peripheryParam (E.cfgK "freqplot.feature_periphery_decades" 1) dArg = d
    generalize List.foldlM (step E d) ([], []) _ = c
    generalize hn : PyGrid.getParamO (E.cfgN "freqplot.number_of_samples") num = n
    rcases c with e | ⟨f, i⟩
    · rfl
    · simp only [numSamples, hn]
      rcases f with _ | ⟨a, t⟩ <;> rcases i with _ | ⟨b, u⟩ <;> rcases n with _ | n
      all_goals
        simp [minOf_cons, maxOf_cons, rangeExponents, round0_eq, hmin, hmax, hlog1,
          PyGrid.truthyN, PyGrid.natOf, minL, maxL]
      all_goals
        try (by_cases h0 : n = 0 <;> simp [h0])

end CtrlVerif.C13GenGrid