/-
C10 (stability half) — the closed loop returned by `care` / `dare` is stable: a THEOREM whenever
the solver's `X` is positive definite and the closed-loop weight `Q + GᵀRG − SG − GᵀSᵀ` is
positive definite, for continuous AND discrete time, standard AND generalised (`E`) problems.

Part 1 (pure linear algebra over `Matrix n n ℂ`, all sizes): the Lyapunov argument on an
eigenvector.  `X ≻ 0`, `W ≻ 0` (or `W ≽ 0` with `W v ≠ 0` on the eigenvector — the observability
variant) and `Aclᴴ X E + Eᴴ X Acl + W = 0` force every eigenvalue `μ` of the pencil `(Acl, E)`
(`Acl v = μ E v`, `v ≠ 0`; equivalently `det (μ E − Acl) = 0`) into the open left half plane,
`Aclᴴ X Acl − Eᴴ X E + W = 0` into the open unit disc; the pencil has no infinite eigenvalue
(`E` is invertible — a conclusion, not a hypothesis).  `E = 1` gives the standard statements
`lyap_eigen_re_neg`, `dlyap_eigen_abs_lt_one`.  Real-matrix corollaries through
`Matrix.map (algebraMap ℝ ℂ)` (complex eigenvalues of real matrices).

Part 2 (the model of control/mateqn.py, `K = ℝ`): `dare_closed_loop_lyapunov` (any field; the
discrete counterpart of `C10.care_closed_loop_lyapunov`), then `care_stable` / `dare_stable`: for
what the MODEL's `care` / `dare` return (`X`, gain `G`, pencil `(A − B G, E)` handed to the
eigenvalue routine), if `X` solves the documented equation, `X ≻ 0` and
`Q + GᵀRG − SG − GᵀSᵀ ≻ 0`, then every eigenvalue of the returned pencil has negative real part /
modulus `< 1`.  `isCareSol_hurwitz` / `isDareSol_schur` discharge the `stab` field of the SciPy
contract of Props/C10.lean (`IsCareSol Stab …`) with the concrete `Stab = Hurwitz` / `Schur`.

What REMAINS SciPy's contract: (a) that the returned `X` solves the equation and is symmetric
(`CareSolver.spec` / `DareSolver.spec`, hypothesis `hEq` here); (b) stability when `X` or the
closed-loop weight is only positive SEMIdefinite and the observability side condition
(`W v ≠ 0` on closed-loop eigenvectors) is not known — there the equation has several symmetric
solutions and that SciPy picks the stabilising one is its contract
(`C10.care_closed_loop_stable`); (c) the eigenvalue routine itself (`numpy.linalg.eig`).
-/
import CtrlVerif.Props.C10
import CtrlVerif.Lemmas.C10Stable

namespace CtrlVerif.C10

open CtrlVerif Matrix MatEqn ComplexOrder CtrlVerif.C10Stable

/-! ## Part 1: the Lyapunov argument over ℂ -/

section complex

variable {n : Type*} [Fintype n]

/-- (4, generalised `E`) continuous time: `X ≻ 0`, `W ≻ 0`, `Aclᴴ X E + Eᴴ X Acl + W = 0`; every
eigenvalue `μ` of the pencil `(Acl, E)` has `Re μ < 0` (`2 Re μ · (Ev)*X(Ev) = − v*Wv`).  No
assumption on `E`. -/
theorem lyap_pencil_eigen_re_neg (Acl E X W : Matrix n n ℂ) (hX : X.PosDef) (hW : W.PosDef)
    (h : Aclᴴ * X * E + Eᴴ * X * Acl + W = 0) (μ : ℂ) (v : n → ℂ) (hv : v ≠ 0)
    (hev : Acl *ᵥ v = μ • (E *ᵥ v)) : μ.re < 0 :=
  (lyap_core Acl E X W hX h v μ hev (hW.dotProduct_mulVec_pos hv)).2

/-- semidefinite / observability variant: `W ≽ 0` and `W v ≠ 0` on the eigenvector. -/
theorem lyap_pencil_eigen_re_neg_semidef (Acl E X W : Matrix n n ℂ) (hX : X.PosDef)
    (hW : W.PosSemidef) (h : Aclᴴ * X * E + Eᴴ * X * Acl + W = 0) (μ : ℂ) (v : n → ℂ)
    (hobs : W *ᵥ v ≠ 0) (hev : Acl *ᵥ v = μ • (E *ᵥ v)) : μ.re < 0 :=
  (lyap_core Acl E X W hX h v μ hev (posSemidef_form_pos hW v hobs)).2

/-- the pencil of a Lyapunov-certified closed loop has no infinite eigenvalue: `E` is
invertible (a conclusion). -/
theorem lyap_pencil_E_det_ne_zero [DecidableEq n] (Acl E X W : Matrix n n ℂ) (hW : W.PosDef)
    (h : Aclᴴ * X * E + Eᴴ * X * Acl + W = 0) : E.det ≠ 0 := by
  intro hdet
  obtain ⟨v, hv, hEv⟩ := Matrix.exists_mulVec_eq_zero_iff.mpr hdet
  have h0 : star v ⬝ᵥ ((Aclᴴ * X * E + Eᴴ * X * Acl + W) *ᵥ v) = 0 := by
    rw [h, Matrix.zero_mulVec, dotProduct_zero]
  rw [sesq_add, sesq_add, Matrix.mul_assoc, Matrix.mul_assoc, sesq_conjTranspose_mul,
    sesq_conjTranspose_mul, sesq_mul, hEv, Matrix.mulVec_zero, dotProduct_zero, star_zero,
    zero_dotProduct, zero_add, zero_add] at h0
  exact (hW.dotProduct_mulVec_pos hv).ne' h0

/-- (1) `lyap_eigen_re_neg`: `X` Hermitian positive definite, `W` positive definite,
`Aclᴴ X + X Acl + W = 0`, `Acl v = μ v`, `v ≠ 0` ⟹ `Re μ < 0`. -/
theorem lyap_eigen_re_neg [DecidableEq n] (Acl X W : Matrix n n ℂ) (hX : X.PosDef)
    (hW : W.PosDef) (h : Aclᴴ * X + X * Acl + W = 0) (μ : ℂ) (v : n → ℂ) (hv : v ≠ 0)
    (hev : Acl *ᵥ v = μ • v) : μ.re < 0 :=
  lyap_pencil_eigen_re_neg Acl 1 X W hX hW (by simpa using h) μ v hv (by simpa using hev)

/-- (1, semidefinite / observable variant) `W ≽ 0` and `W v ≠ 0` on the eigenvector. -/
theorem lyap_eigen_re_neg_semidef [DecidableEq n] (Acl X W : Matrix n n ℂ) (hX : X.PosDef)
    (hW : W.PosSemidef) (h : Aclᴴ * X + X * Acl + W = 0) (μ : ℂ) (v : n → ℂ)
    (hobs : W *ᵥ v ≠ 0) (hev : Acl *ᵥ v = μ • v) : μ.re < 0 :=
  lyap_pencil_eigen_re_neg_semidef Acl 1 X W hX hW (by simpa using h) μ v hobs
    (by simpa using hev)

/-- determinant form: every root `μ` of `det (μ E − Acl)` has `Re μ < 0`. -/
theorem lyap_pencil_det_re_neg [DecidableEq n] (Acl E X W : Matrix n n ℂ) (hX : X.PosDef)
    (hW : W.PosDef) (h : Aclᴴ * X * E + Eᴴ * X * Acl + W = 0) (μ : ℂ)
    (hdet : (μ • E - Acl).det = 0) : μ.re < 0 := by
  obtain ⟨v, hv, hev⟩ := (pencil_det_iff Acl E μ).mp hdet
  exact lyap_pencil_eigen_re_neg Acl E X W hX hW h μ v hv hev

/-- (4, generalised `E`) discrete time: `X ≻ 0`, `W ≻ 0`, `Aclᴴ X Acl − Eᴴ X E + W = 0`; every
eigenvalue of the pencil `(Acl, E)` has modulus `< 1` (`(|μ|² − 1)·(Ev)*X(Ev) = − v*Wv`). -/
theorem dlyap_pencil_eigen_abs_lt_one (Acl E X W : Matrix n n ℂ) (hX : X.PosDef) (hW : W.PosDef)
    (h : Aclᴴ * X * Acl - Eᴴ * X * E + W = 0) (μ : ℂ) (v : n → ℂ) (hv : v ≠ 0)
    (hev : Acl *ᵥ v = μ • (E *ᵥ v)) : ‖μ‖ < 1 :=
  (dlyap_core Acl E X W hX h v μ hev (hW.dotProduct_mulVec_pos hv)).2

theorem dlyap_pencil_eigen_abs_lt_one_semidef (Acl E X W : Matrix n n ℂ) (hX : X.PosDef)
    (hW : W.PosSemidef) (h : Aclᴴ * X * Acl - Eᴴ * X * E + W = 0) (μ : ℂ) (v : n → ℂ)
    (hobs : W *ᵥ v ≠ 0) (hev : Acl *ᵥ v = μ • (E *ᵥ v)) : ‖μ‖ < 1 :=
  (dlyap_core Acl E X W hX h v μ hev (posSemidef_form_pos hW v hobs)).2

/-- (2) `dlyap_eigen_abs_lt_one`: `Aclᴴ X Acl − X + W = 0` with `X`, `W` positive definite ⟹
`‖μ‖ < 1` for every eigenvalue `μ` of `Acl`. -/
theorem dlyap_eigen_abs_lt_one [DecidableEq n] (Acl X W : Matrix n n ℂ) (hX : X.PosDef)
    (hW : W.PosDef) (h : Aclᴴ * X * Acl - X + W = 0) (μ : ℂ) (v : n → ℂ) (hv : v ≠ 0)
    (hev : Acl *ᵥ v = μ • v) : ‖μ‖ < 1 :=
  dlyap_pencil_eigen_abs_lt_one Acl 1 X W hX hW (by simpa using h) μ v hv (by simpa using hev)

theorem dlyap_eigen_abs_lt_one_semidef [DecidableEq n] (Acl X W : Matrix n n ℂ) (hX : X.PosDef)
    (hW : W.PosSemidef) (h : Aclᴴ * X * Acl - X + W = 0) (μ : ℂ) (v : n → ℂ)
    (hobs : W *ᵥ v ≠ 0) (hev : Acl *ᵥ v = μ • v) : ‖μ‖ < 1 :=
  dlyap_pencil_eigen_abs_lt_one_semidef Acl 1 X W hX hW (by simpa using h) μ v hobs
    (by simpa using hev)

theorem dlyap_pencil_det_abs_lt_one [DecidableEq n] (Acl E X W : Matrix n n ℂ) (hX : X.PosDef)
    (hW : W.PosDef) (h : Aclᴴ * X * Acl - Eᴴ * X * E + W = 0) (μ : ℂ)
    (hdet : (μ • E - Acl).det = 0) : ‖μ‖ < 1 := by
  obtain ⟨v, hv, hev⟩ := (pencil_det_iff Acl E μ).mp hdet
  exact dlyap_pencil_eigen_abs_lt_one Acl E X W hX hW h μ v hv hev

/-- the discrete pencil has no infinite eigenvalue either. -/
theorem dlyap_pencil_E_det_ne_zero [DecidableEq n] (Acl E X W : Matrix n n ℂ) (hX : X.PosDef)
    (hW : W.PosDef) (h : Aclᴴ * X * Acl - Eᴴ * X * E + W = 0) : E.det ≠ 0 := by
  intro hdet
  obtain ⟨v, hv, hEv⟩ := Matrix.exists_mulVec_eq_zero_iff.mpr hdet
  have h0 : star v ⬝ᵥ ((Aclᴴ * X * Acl - Eᴴ * X * E + W) *ᵥ v) = 0 := by
    rw [h, Matrix.zero_mulVec, dotProduct_zero]
  rw [sesq_add, sesq_sub, Matrix.mul_assoc, Matrix.mul_assoc, sesq_conjTranspose_mul,
    sesq_conjTranspose_mul, sesq_mul, hEv, star_zero, zero_dotProduct, sub_zero] at h0
  have h1 : 0 ≤ star (Acl *ᵥ v) ⬝ᵥ (X *ᵥ (Acl *ᵥ v)) := hX.posSemidef.dotProduct_mulVec_nonneg _
  have h2 := hW.dotProduct_mulVec_pos hv
  have : (0 : ℂ) < star (Acl *ᵥ v) ⬝ᵥ (X *ᵥ (Acl *ᵥ v)) + star v ⬝ᵥ (W *ᵥ v) :=
    add_pos_of_nonneg_of_pos h1 h2
  exact this.ne' h0

/-! ### real matrices, complex eigenvalues -/

/-- real-matrix corollary of (1)/(4): real `Acl, E, X, W` with `X`, `W` symmetric positive
definite and `Aclᵀ X E + Eᵀ X Acl + W = 0`; every complex eigenvalue of the pencil has
`Re μ < 0`. -/
theorem lyap_pencil_eigen_re_neg_real (Acl E X W : Matrix n n ℝ) (hX : X.PosDef) (hW : W.PosDef)
    (h : Aclᵀ * X * E + Eᵀ * X * Acl + W = 0) (μ : ℂ) (v : n → ℂ) (hv : v ≠ 0)
    (hev : Acl.map (algebraMap ℝ ℂ) *ᵥ v = μ • (E.map (algebraMap ℝ ℂ) *ᵥ v)) : μ.re < 0 :=
  lyap_pencil_eigen_re_neg (toC Acl) (toC E) (toC X) (toC W) (toC_posDef hX) (toC_posDef hW)
    (toC_lyap_eq Acl E X W h) μ v hv hev

theorem lyap_eigen_re_neg_real [DecidableEq n] (Acl X W : Matrix n n ℝ) (hX : X.PosDef)
    (hW : W.PosDef) (h : Aclᵀ * X + X * Acl + W = 0) (μ : ℂ) (v : n → ℂ) (hv : v ≠ 0)
    (hev : Acl.map (algebraMap ℝ ℂ) *ᵥ v = μ • v) : μ.re < 0 :=
  lyap_pencil_eigen_re_neg_real Acl 1 X W hX hW (by simpa using h) μ v hv
    (by rw [show (1 : Matrix n n ℝ).map (algebraMap ℝ ℂ) = 1 from toC_one]; simpa using hev)

/-- semidefinite / observable real variant. -/
theorem lyap_pencil_eigen_re_neg_semidef_real (Acl E X W : Matrix n n ℝ) (hX : X.PosDef)
    (hW : W.PosSemidef) (h : Aclᵀ * X * E + Eᵀ * X * Acl + W = 0) (μ : ℂ) (v : n → ℂ)
    (hobs : W.map (algebraMap ℝ ℂ) *ᵥ v ≠ 0)
    (hev : Acl.map (algebraMap ℝ ℂ) *ᵥ v = μ • (E.map (algebraMap ℝ ℂ) *ᵥ v)) : μ.re < 0 :=
  lyap_pencil_eigen_re_neg_semidef (toC Acl) (toC E) (toC X) (toC W) (toC_posDef hX)
    (toC_posSemidef hW) (toC_lyap_eq Acl E X W h) μ v hobs hev

/-- real-matrix corollary of (2)/(4), discrete time. -/
theorem dlyap_pencil_eigen_abs_lt_one_real (Acl E X W : Matrix n n ℝ) (hX : X.PosDef)
    (hW : W.PosDef) (h : Aclᵀ * X * Acl - Eᵀ * X * E + W = 0) (μ : ℂ) (v : n → ℂ) (hv : v ≠ 0)
    (hev : Acl.map (algebraMap ℝ ℂ) *ᵥ v = μ • (E.map (algebraMap ℝ ℂ) *ᵥ v)) : ‖μ‖ < 1 :=
  dlyap_pencil_eigen_abs_lt_one (toC Acl) (toC E) (toC X) (toC W) (toC_posDef hX) (toC_posDef hW)
    (toC_dlyap_eq Acl E X W h) μ v hv hev

theorem dlyap_eigen_abs_lt_one_real [DecidableEq n] (Acl X W : Matrix n n ℝ) (hX : X.PosDef)
    (hW : W.PosDef) (h : Aclᵀ * X * Acl - X + W = 0) (μ : ℂ) (v : n → ℂ) (hv : v ≠ 0)
    (hev : Acl.map (algebraMap ℝ ℂ) *ᵥ v = μ • v) : ‖μ‖ < 1 :=
  dlyap_pencil_eigen_abs_lt_one_real Acl 1 X W hX hW (by simpa using h) μ v hv
    (by rw [show (1 : Matrix n n ℝ).map (algebraMap ℝ ℂ) = 1 from toC_one]; simpa using hev)

theorem dlyap_pencil_eigen_abs_lt_one_semidef_real (Acl E X W : Matrix n n ℝ) (hX : X.PosDef)
    (hW : W.PosSemidef) (h : Aclᵀ * X * Acl - Eᵀ * X * E + W = 0) (μ : ℂ) (v : n → ℂ)
    (hobs : W.map (algebraMap ℝ ℂ) *ᵥ v ≠ 0)
    (hev : Acl.map (algebraMap ℝ ℂ) *ᵥ v = μ • (E.map (algebraMap ℝ ℂ) *ᵥ v)) : ‖μ‖ < 1 :=
  dlyap_pencil_eigen_abs_lt_one_semidef (toC Acl) (toC E) (toC X) (toC W) (toC_posDef hX)
    (toC_posSemidef hW) (toC_dlyap_eq Acl E X W h) μ v hobs hev

end complex

/-! ## Part 2: the model of `care` / `dare` -/

section model

variable {n m : Type*} [Fintype n] [Fintype m] [DecidableEq n] [DecidableEq m]

/-- the closed-loop weight `Q + GᵀRG − SG − GᵀSᵀ` (`= [I; −G]ᵀ [Q S; Sᵀ R] [I; −G]`). -/
def clWeight {K : Type*} [Field K] (Q : Matrix n n K) (R : Matrix m m K) (S : Matrix n m K)
    (G : Matrix m n K) : Matrix n n K :=
  Q + Gᵀ * R * G - S * G - Gᵀ * Sᵀ

/-- discrete counterpart of `care_closed_loop_lyapunov` (any field, all sizes, generalised `E`):
for symmetric `X` solving the DARE and the documented gain `G = (BᵀXB + R)⁻¹(BᵀXA + Sᵀ)`,
`(A − BG)ᵀ X (A − BG) − EᵀXE + Q + GᵀRG − SG − GᵀSᵀ = 0`. -/
theorem dare_closed_loop_lyapunov {K : Type*} [Field K] (A : Matrix n n K) (B : Matrix n m K)
    (Q : Matrix n n K) (R : Matrix m m K) (S : Matrix n m K) (E X : Matrix n n K)
    (hdet : (Bᵀ * X * B + R).det ≠ 0) (hX : Xᵀ = X) (hEq : DareEq A B Q R S E X) :
    (A - B * dareGainDoc A B R S X)ᵀ * X * (A - B * dareGainDoc A B R S X) - Eᵀ * X * E
      + (Q + (dareGainDoc A B R S X)ᵀ * R * dareGainDoc A B R S X - S * dareGainDoc A B R S X
          - (dareGainDoc A B R S X)ᵀ * Sᵀ) = 0 := by
  have hu : IsUnit (Bᵀ * X * B + R).det := isUnit_iff_ne_zero.mpr hdet
  have hG : (Bᵀ * X * B + R) * dareGainDoc A B R S X = Bᵀ * X * A + Sᵀ := by
    unfold dareGainDoc
    rw [← Matrix.mul_assoc, Matrix.mul_nonsing_inv _ hu, Matrix.one_mul]
  have hWt : (Bᵀ * X * A + Sᵀ)ᵀ = Aᵀ * X * B + S := by
    simp [Matrix.transpose_mul, hX, Matrix.mul_assoc]
  refine dare_closed_loop_algebra A E X Q B S R _ _ (Bᵀ * X * A + Sᵀ) rfl rfl hWt hG ?_
  unfold DareEq at hEq
  rw [hWt]
  unfold dareGainDoc
  rw [← Matrix.mul_assoc]
  exact hEq

/-- "every eigenvalue of the real pencil `(Acl, E)` — every complex root of `det (μE − Acl)` —
has negative real part": the concrete meaning of the abstract `Stab` of Props/C10.lean in
continuous time. -/
def Hurwitz (Acl E : Matrix n n ℝ) : Prop :=
  ∀ μ : ℂ, (μ • E.map (algebraMap ℝ ℂ) - Acl.map (algebraMap ℝ ℂ)).det = 0 → μ.re < 0

/-- discrete time: every eigenvalue of the pencil lies in the open unit disc. -/
def Schur (Acl E : Matrix n n ℝ) : Prop :=
  ∀ μ : ℂ, (μ • E.map (algebraMap ℝ ℂ) - Acl.map (algebraMap ℝ ℂ)).det = 0 → ‖μ‖ < 1

/-- `Hurwitz` in eigenvector form. -/
theorem hurwitz_iff (Acl E : Matrix n n ℝ) :
    Hurwitz Acl E ↔ ∀ (μ : ℂ) (v : n → ℂ), v ≠ 0 →
      Acl.map (algebraMap ℝ ℂ) *ᵥ v = μ • (E.map (algebraMap ℝ ℂ) *ᵥ v) → μ.re < 0 := by
  unfold Hurwitz
  constructor
  · intro h μ v hv hev
    exact h μ ((pencil_det_iff _ _ μ).mpr ⟨v, hv, hev⟩)
  · intro h μ hdet
    obtain ⟨v, hv, hev⟩ := (pencil_det_iff _ _ μ).mp hdet
    exact h μ v hv hev

theorem schur_iff (Acl E : Matrix n n ℝ) :
    Schur Acl E ↔ ∀ (μ : ℂ) (v : n → ℂ), v ≠ 0 →
      Acl.map (algebraMap ℝ ℂ) *ᵥ v = μ • (E.map (algebraMap ℝ ℂ) *ᵥ v) → ‖μ‖ < 1 := by
  unfold Schur
  constructor
  · intro h μ v hv hev
    exact h μ ((pencil_det_iff _ _ μ).mpr ⟨v, hv, hev⟩)
  · intro h μ hdet
    obtain ⟨v, hv, hev⟩ := (pencil_det_iff _ _ μ).mp hdet
    exact h μ v hv hev

/-- a real Lyapunov certificate makes the pencil Hurwitz … -/
theorem hurwitz_of_lyapunov (Acl E X W : Matrix n n ℝ) (hX : X.PosDef) (hW : W.PosDef)
    (h : Aclᵀ * X * E + Eᵀ * X * Acl + W = 0) : Hurwitz Acl E :=
  (hurwitz_iff Acl E).mpr (lyap_pencil_eigen_re_neg_real Acl E X W hX hW h)

/-- … resp. Schur. -/
theorem schur_of_lyapunov (Acl E X W : Matrix n n ℝ) (hX : X.PosDef) (hW : W.PosDef)
    (h : Aclᵀ * X * Acl - Eᵀ * X * E + W = 0) : Schur Acl E :=
  (schur_iff Acl E).mpr (dlyap_pencil_eigen_abs_lt_one_real Acl E X W hX hW h)

/-- the `stab` field of SciPy's contract is a theorem for a positive definite solution:
`X` solves the CARE, `X ≻ 0`, `R` symmetric invertible, `Q + GᵀRG − SG − GᵀSᵀ ≻ 0` ⟹ `X` is a
symmetric stabilising solution in the sense of Props/C10.lean with `Stab = Hurwitz`
(generalised `E`, no assumption on `E`). -/
theorem isCareSol_hurwitz (A : Matrix n n ℝ) (B : Matrix n m ℝ) (Q : Matrix n n ℝ)
    (R : Matrix m m ℝ) (S : Matrix n m ℝ) (E X : Matrix n n ℝ) (hR : Rᵀ = R) (hdet : R.det ≠ 0)
    (hEq : CareEq A B Q R S E X) (hX : X.PosDef)
    (hW : (clWeight Q R S (careGainDoc B R S E X)).PosDef) :
    IsCareSol Hurwitz A B Q R S E X := by
  have hXt := real_posDef_transpose hX
  refine ⟨hEq, hXt, ?_⟩
  exact hurwitz_of_lyapunov _ E X _ hX hW
    (care_closed_loop_lyapunov A B Q R S E X hR hdet hXt hEq)

/-- the same for the DARE with `Stab = Schur`. -/
theorem isDareSol_schur (A : Matrix n n ℝ) (B : Matrix n m ℝ) (Q : Matrix n n ℝ)
    (R : Matrix m m ℝ) (S : Matrix n m ℝ) (E X : Matrix n n ℝ)
    (hdet : (Bᵀ * X * B + R).det ≠ 0) (hEq : DareEq A B Q R S E X) (hX : X.PosDef)
    (hW : (clWeight Q R S (dareGainDoc A B R S X)).PosDef) :
    IsDareSol Schur A B Q R S E X := by
  have hXt := real_posDef_transpose hX
  refine ⟨hEq, hXt, ?_⟩
  exact schur_of_lyapunov _ E X _ hX hW
    (dare_closed_loop_lyapunov A B Q R S E X hdet hXt hEq)

/-- when `care` returns, `R` was invertible. -/
theorem care_ok_det {K : Type*} [Field K] [DecidableEq K] (solve : AreCall n m K → Matrix n n K)
    (A : Matrix n n K) (B : Matrix n m K) (Q : Matrix n n K) (R : Matrix m m K)
    (S : Option (Matrix n m K)) (E : Option (Matrix n n K)) {r : AreResult n m K}
    (hr : care solve A B Q R S E = .ok r) : R.det ≠ 0 := by
  intro h
  rw [((care_raises_iff solve A B Q R S E).1).mpr h] at hr
  cases hr

/-- when `dare` returns, `BᵀXB + R` was invertible for the returned `X`. -/
theorem dare_ok_det {K : Type*} [Field K] [DecidableEq K] (solve : AreCall n m K → Matrix n n K)
    (A : Matrix n n K) (B : Matrix n m K) (Q : Matrix n n K) (R : Matrix m m K)
    (S : Option (Matrix n m K)) (E : Option (Matrix n n K)) {r : AreResult n m K}
    (hr : dare solve A B Q R S E = .ok r) : (Bᵀ * r.X * B + R).det ≠ 0 := by
  unfold dare at hr
  by_cases h : (dareF B R (solve (dareCall A B Q R S E))).det = 0
  · simp [h] at hr
  · simp only [h, if_false, Except.ok.injEq] at hr
    subst hr
    exact h

/-- the standard LQR weights make the closed-loop weight positive definite: `S = 0`, `Q ≻ 0`,
`R ≽ 0` give `Q + GᵀRG ≻ 0` for every gain `G`. -/
theorem clWeight_posDef (Q : Matrix n n ℝ) (R : Matrix m m ℝ) (G : Matrix m n ℝ)
    (hQ : Q.PosDef) (hR : R.PosSemidef) : (clWeight Q R (0 : Matrix n m ℝ) G).PosDef := by
  have h : clWeight Q R (0 : Matrix n m ℝ) G = Q + Gᴴ * R * G := by
    simp [clWeight, Matrix.conjTranspose_eq_transpose_of_trivial]
  rw [h]
  exact hQ.add_posSemidef (hR.conjTranspose_mul_mul_same G)

variable [DecidableEq ℝ]

/-- (3) `care_stable`: whatever the solver, if the `X` that the MODEL's `care` returns solves the
documented equation, is (symmetric) positive definite, and the closed-loop weight
`Q + GᵀRG − SG − GᵀSᵀ` with the RETURNED gain `G` is positive definite (`R` symmetric), then
every eigenvalue of the RETURNED pencil `(A − B G, E)` has negative real part.  Both branches
(standard: `S = E = None`; generalised: `E` arbitrary — (4)). -/
theorem care_stable (solve : AreCall n m ℝ → Matrix n n ℝ) (A : Matrix n n ℝ) (B : Matrix n m ℝ)
    (Q : Matrix n n ℝ) (R : Matrix m m ℝ) (S : Option (Matrix n m ℝ)) (E : Option (Matrix n n ℝ))
    (hR : Rᵀ = R) {r : AreResult n m ℝ} (hr : care solve A B Q R S E = .ok r)
    (hEq : CareEq A B Q R (sOf S) (eOf E) r.X) (hX : r.X.PosDef)
    (hW : (clWeight Q R (sOf S) r.G).PosDef) : Hurwitz r.Acl (eOf r.Ecl) := by
  obtain ⟨h1, h2⟩ := care_closed_loop_pencil solve A B Q R S E hr
  obtain ⟨_, h4⟩ := care_gain solve A B Q R S E hr
  rw [h1, h2, h4]
  rw [h4] at hW
  exact (isCareSol_hurwitz A B Q R (sOf S) (eOf E) r.X hR (care_ok_det solve A B Q R S E hr)
    hEq hX hW).stab

/-- `care_stable`, standard problem (`E = None`), eigenvector form: every complex eigenvalue of
the returned closed-loop matrix `A − B G` has negative real part. -/
theorem care_stable_eigvec (solve : AreCall n m ℝ → Matrix n n ℝ) (A : Matrix n n ℝ)
    (B : Matrix n m ℝ) (Q : Matrix n n ℝ) (R : Matrix m m ℝ) (S : Option (Matrix n m ℝ))
    (hR : Rᵀ = R) {r : AreResult n m ℝ} (hr : care solve A B Q R S none = .ok r)
    (hEq : CareEq A B Q R (sOf S) 1 r.X) (hX : r.X.PosDef)
    (hW : (clWeight Q R (sOf S) r.G).PosDef) (μ : ℂ) (v : n → ℂ) (hv : v ≠ 0)
    (hev : (A - B * r.G).map (algebraMap ℝ ℂ) *ᵥ v = μ • v) : μ.re < 0 := by
  have h := care_stable solve A B Q R S none hR hr hEq hX hW
  obtain ⟨h1, h2⟩ := care_closed_loop_pencil solve A B Q R S none hr
  rw [h1, h2] at h
  refine (hurwitz_iff _ _).mp h μ v hv ?_
  rw [show (eOf (none : Option (Matrix n n ℝ))).map (algebraMap ℝ ℂ) = 1 from toC_one,
    Matrix.one_mulVec]
  exact hev

/-- with SciPy's contract supplying the equation and the symmetry (any `Stab`, e.g. `fun _ _ =>
True`): positive definiteness of the returned `X` and of the closed-loop weight make stability
of the returned pencil a theorem instead of a contract clause. -/
theorem care_stable_contract {Stab : Matrix n n ℝ → Matrix n n ℝ → Prop}
    (Sv : CareSolver n m ℝ Stab) (A : Matrix n n ℝ) (B : Matrix n m ℝ) (Q : Matrix n n ℝ)
    (R : Matrix m m ℝ) (S : Option (Matrix n m ℝ)) (E : Option (Matrix n n ℝ)) (hR : Rᵀ = R)
    (hsol : ∃ X, IsCareSol Stab A B Q R (sOf S) (eOf E) X)
    {r : AreResult n m ℝ} (hr : care Sv.solve A B Q R S E = .ok r) (hX : r.X.PosDef)
    (hW : (clWeight Q R (sOf S) r.G).PosDef) : Hurwitz r.Acl (eOf r.Ecl) :=
  care_stable Sv.solve A B Q R S E hR hr (care_residual Sv A B Q R S E hsol hr).eq hX hW

/-- (3) `dare_stable`: the discrete counterpart — every eigenvalue of the pencil `(A − B G, E)`
that the MODEL's `dare` returns has modulus `< 1`. -/
theorem dare_stable (solve : AreCall n m ℝ → Matrix n n ℝ) (A : Matrix n n ℝ) (B : Matrix n m ℝ)
    (Q : Matrix n n ℝ) (R : Matrix m m ℝ) (S : Option (Matrix n m ℝ)) (E : Option (Matrix n n ℝ))
    {r : AreResult n m ℝ} (hr : dare solve A B Q R S E = .ok r)
    (hEq : DareEq A B Q R (sOf S) (eOf E) r.X) (hX : r.X.PosDef)
    (hW : (clWeight Q R (sOf S) r.G).PosDef) : Schur r.Acl (eOf r.Ecl) := by
  obtain ⟨h1, h2⟩ := dare_closed_loop_pencil solve A B Q R S E hr
  obtain ⟨_, h4⟩ := dare_gain solve A B Q R S E hr
  rw [h1, h2, h4]
  rw [h4] at hW
  exact (isDareSol_schur A B Q R (sOf S) (eOf E) r.X (dare_ok_det solve A B Q R S E hr)
    hEq hX hW).stab

theorem dare_stable_eigvec (solve : AreCall n m ℝ → Matrix n n ℝ) (A : Matrix n n ℝ)
    (B : Matrix n m ℝ) (Q : Matrix n n ℝ) (R : Matrix m m ℝ) (S : Option (Matrix n m ℝ))
    {r : AreResult n m ℝ} (hr : dare solve A B Q R S none = .ok r)
    (hEq : DareEq A B Q R (sOf S) 1 r.X) (hX : r.X.PosDef)
    (hW : (clWeight Q R (sOf S) r.G).PosDef) (μ : ℂ) (v : n → ℂ) (hv : v ≠ 0)
    (hev : (A - B * r.G).map (algebraMap ℝ ℂ) *ᵥ v = μ • v) : ‖μ‖ < 1 := by
  have h := dare_stable solve A B Q R S none hr hEq hX hW
  obtain ⟨h1, h2⟩ := dare_closed_loop_pencil solve A B Q R S none hr
  rw [h1, h2] at h
  refine (schur_iff _ _).mp h μ v hv ?_
  rw [show (eOf (none : Option (Matrix n n ℝ))).map (algebraMap ℝ ℂ) = 1 from toC_one,
    Matrix.one_mulVec]
  exact hev

theorem dare_stable_contract {Stab : Matrix n n ℝ → Matrix n n ℝ → Prop}
    (Sv : DareSolver n m ℝ Stab) (A : Matrix n n ℝ) (B : Matrix n m ℝ) (Q : Matrix n n ℝ)
    (R : Matrix m m ℝ) (S : Option (Matrix n m ℝ)) (E : Option (Matrix n n ℝ))
    (hsol : ∃ X, IsDareSol Stab A B Q R (sOf S) (eOf E) X)
    {r : AreResult n m ℝ} (hr : dare Sv.solve A B Q R S E = .ok r) (hX : r.X.PosDef)
    (hW : (clWeight Q R (sOf S) r.G).PosDef) : Schur r.Acl (eOf r.Ecl) :=
  dare_stable Sv.solve A B Q R S E hr (dare_residual Sv A B Q R S E hsol hr).eq hX hW

/-- the LQR case: `S = None`, `Q ≻ 0`, `R ≻ 0` (any `E`): a positive definite returned solution
makes the returned closed-loop pencil Hurwitz — no hypothesis on the gain is left. -/
theorem care_stable_lqr (solve : AreCall n m ℝ → Matrix n n ℝ) (A : Matrix n n ℝ)
    (B : Matrix n m ℝ) (Q : Matrix n n ℝ) (R : Matrix m m ℝ) (E : Option (Matrix n n ℝ))
    (hQ : Q.PosDef) (hR : R.PosDef) {r : AreResult n m ℝ}
    (hr : care solve A B Q R none E = .ok r) (hEq : CareEq A B Q R 0 (eOf E) r.X)
    (hX : r.X.PosDef) : Hurwitz r.Acl (eOf r.Ecl) :=
  care_stable solve A B Q R none E (real_posDef_transpose hR) hr hEq hX
    (clWeight_posDef Q R r.G hQ hR.posSemidef)

/-- discrete LQR case. -/
theorem dare_stable_lqr (solve : AreCall n m ℝ → Matrix n n ℝ) (A : Matrix n n ℝ)
    (B : Matrix n m ℝ) (Q : Matrix n n ℝ) (R : Matrix m m ℝ) (E : Option (Matrix n n ℝ))
    (hQ : Q.PosDef) (hR : R.PosSemidef) {r : AreResult n m ℝ}
    (hr : dare solve A B Q R none E = .ok r) (hEq : DareEq A B Q R 0 (eOf E) r.X)
    (hX : r.X.PosDef) : Schur r.Acl (eOf r.Ecl) :=
  dare_stable solve A B Q R none E hr hEq hX (clWeight_posDef Q R r.G hQ hR)

/-- the precondition of SciPy's contract (read with the concrete `Stab = Hurwitz`) is discharged
by proof whenever SOME positive definite solution with positive definite closed-loop weight
exists: then what `care` returns through a contract-keeping solver has a Hurwitz closed loop. -/
theorem care_hurwitz_of_posDef_solution (Sv : CareSolver n m ℝ Hurwitz) (A : Matrix n n ℝ)
    (B : Matrix n m ℝ) (Q : Matrix n n ℝ) (R : Matrix m m ℝ) (S : Option (Matrix n m ℝ))
    (E : Option (Matrix n n ℝ)) (hR : Rᵀ = R) (X0 : Matrix n n ℝ)
    (hEq0 : CareEq A B Q R (sOf S) (eOf E) X0) (hX0 : X0.PosDef)
    (hW0 : (clWeight Q R (sOf S) (careGainDoc B R (sOf S) (eOf E) X0)).PosDef)
    {r : AreResult n m ℝ} (hr : care Sv.solve A B Q R S E = .ok r) :
    Hurwitz r.Acl (eOf r.Ecl) :=
  care_closed_loop_stable Sv A B Q R S E
    ⟨X0, isCareSol_hurwitz A B Q R (sOf S) (eOf E) X0 hR (care_ok_det Sv.solve A B Q R S E hr)
      hEq0 hX0 hW0⟩ hr

theorem dare_schur_of_posDef_solution (Sv : DareSolver n m ℝ Schur) (A : Matrix n n ℝ)
    (B : Matrix n m ℝ) (Q : Matrix n n ℝ) (R : Matrix m m ℝ) (S : Option (Matrix n m ℝ))
    (E : Option (Matrix n n ℝ)) (X0 : Matrix n n ℝ) (hdet0 : (Bᵀ * X0 * B + R).det ≠ 0)
    (hEq0 : DareEq A B Q R (sOf S) (eOf E) X0) (hX0 : X0.PosDef)
    (hW0 : (clWeight Q R (sOf S) (dareGainDoc A B R (sOf S) X0)).PosDef)
    {r : AreResult n m ℝ} (hr : dare Sv.solve A B Q R S E = .ok r) :
    Schur r.Acl (eOf r.Ecl) :=
  dare_closed_loop_stable Sv A B Q R S E
    ⟨X0, isDareSol_schur A B Q R (sOf S) (eOf E) X0 hdet0 hEq0 hX0 hW0⟩ hr

end model

/-! ## Non-vacuity: concrete 2 × 2 instances meeting the hypotheses -/

section nonvacuity

set_option linter.unnecessarySeqFocus false

/-- `lyap_eigen_re_neg(_real)`, `lyap_pencil_det_re_neg`: a non-normal closed loop (companion
matrix of `(s+1)(s+2)`), `X = [[5,1],[1,1]] ≻ 0`, `W = 4 I`, eigenpair `(−1, (1,−1))`. -/
example : ∃ (Acl X W : Matrix (Fin 2) (Fin 2) ℝ) (μ : ℂ) (v : Fin 2 → ℂ),
    X.PosDef ∧ W.PosDef ∧ Aclᵀ * X + X * Acl + W = 0 ∧ v ≠ 0 ∧
      Acl.map (algebraMap ℝ ℂ) *ᵥ v = μ • v := by
  refine ⟨!![0, 1; -2, -3], !![5, 1; 1, 1], !![4, 0; 0, 4], -1, ![1, -1],
    posDef_two 5 1 1 (by norm_num) (by norm_num), posDef_two 4 0 4 (by norm_num) (by norm_num),
    ?_, vec2_ne_zero (by simp), ?_⟩
  · ext i j
    fin_cases i <;> fin_cases j <;> simp [Matrix.mul_apply, Fin.sum_univ_two] <;> norm_num
  · funext i
    fin_cases i <;> simp [Matrix.mulVec, dotProduct, Fin.sum_univ_two] <;> norm_num

/-- the same with a genuinely complex eigenvalue of a real matrix: `Acl = [[−1,2],[−2,−1]]`,
`X = I`, `W = 2 I`, eigenpair `(−1 + 2i, (1, i))`. -/
example : ∃ (Acl X W : Matrix (Fin 2) (Fin 2) ℝ) (μ : ℂ) (v : Fin 2 → ℂ),
    X.PosDef ∧ W.PosDef ∧ Aclᵀ * X + X * Acl + W = 0 ∧ v ≠ 0 ∧ μ.im ≠ 0 ∧
      Acl.map (algebraMap ℝ ℂ) *ᵥ v = μ • v := by
  refine ⟨!![-1, 2; -2, -1], !![1, 0; 0, 1], !![2, 0; 0, 2], -1 + 2 * Complex.I,
    ![1, Complex.I],
    posDef_two 1 0 1 (by norm_num) (by norm_num), posDef_two 2 0 2 (by norm_num) (by norm_num),
    ?_, vec2_ne_zero (by simp), by simp, ?_⟩
  · ext i j
    fin_cases i <;> fin_cases j <;> simp [Matrix.mul_apply, Fin.sum_univ_two] <;> norm_num
  · funext i
    fin_cases i <;> simp [Matrix.mulVec, dotProduct, Fin.sum_univ_two] <;> ring_nf <;>
      simp <;> ring

/-- semidefinite / observable variant (`lyap_eigen_re_neg_semidef`,
`lyap_pencil_eigen_re_neg_semidef_real`): `W = diag(12, 0) ≽ 0` is singular, `W v ≠ 0`. -/
example : ∃ (Acl E X W : Matrix (Fin 2) (Fin 2) ℝ) (μ : ℂ) (v : Fin 2 → ℂ),
    X.PosDef ∧ W.PosSemidef ∧ W.det = 0 ∧ Aclᵀ * X * E + Eᵀ * X * Acl + W = 0 ∧
      W.map (algebraMap ℝ ℂ) *ᵥ v ≠ 0 ∧
      Acl.map (algebraMap ℝ ℂ) *ᵥ v = μ • (E.map (algebraMap ℝ ℂ) *ᵥ v) := by
  refine ⟨!![0, 1; -2, -3], 1, !![11, 3; 3, 1], !![12, 0; 0, 0], -1, ![1, -1],
    posDef_two 11 3 1 (by norm_num) (by norm_num), ?_, by simp [Matrix.det_fin_two], ?_, ?_, ?_⟩
  · refine Matrix.PosSemidef.of_dotProduct_mulVec_nonneg ?_ ?_
    · ext i j; fin_cases i <;> fin_cases j <;> simp [Matrix.conjTranspose_apply]
    · intro x
      have : star x ⬝ᵥ ((!![12, 0; 0, 0] : Matrix (Fin 2) (Fin 2) ℝ) *ᵥ x) = 12 * (x 0 * x 0) := by
        simp [dotProduct, Matrix.mulVec, Fin.sum_univ_two]; ring
      rw [this]; nlinarith [mul_self_nonneg (x 0)]
  · ext i j
    fin_cases i <;> fin_cases j <;> simp [Matrix.mul_apply, Fin.sum_univ_two] <;> norm_num
  · intro h
    have := congrFun h 0
    simp [Matrix.mulVec, dotProduct, Fin.sum_univ_two] at this
  · rw [show (1 : Matrix (Fin 2) (Fin 2) ℝ).map (algebraMap ℝ ℂ) = 1 from toC_one,
      Matrix.one_mulVec]
    funext i
    fin_cases i <;> simp [Matrix.mulVec, dotProduct, Fin.sum_univ_two] <;> norm_num

/-- generalised pencil (`lyap_pencil_eigen_re_neg(_real)`, `hurwitz_of_lyapunov`) with `E ≠ I`
not symmetric: `E = [[1,−1],[1,0]]`, `Acl = E · diag(−1,−2)`, `X = I`, `W = [[4,−3],[−3,4]] ≻ 0`,
pencil eigenpair `(−1, e₁)`. -/
example : ∃ (Acl E X W : Matrix (Fin 2) (Fin 2) ℝ) (μ : ℂ) (v : Fin 2 → ℂ),
    X.PosDef ∧ W.PosDef ∧ Aclᵀ * X * E + Eᵀ * X * Acl + W = 0 ∧ v ≠ 0 ∧
      Acl.map (algebraMap ℝ ℂ) *ᵥ v = μ • (E.map (algebraMap ℝ ℂ) *ᵥ v) := by
  refine ⟨!![-1, 2; -1, 0], !![1, -1; 1, 0], !![1, 0; 0, 1], !![4, -3; -3, 4], -1, ![1, 0],
    posDef_two 1 0 1 (by norm_num) (by norm_num), posDef_two 4 (-3) 4 (by norm_num) (by norm_num),
    ?_, vec2_ne_zero (by simp), ?_⟩
  · ext i j
    fin_cases i <;> fin_cases j <;> simp [Matrix.mul_apply, Fin.sum_univ_two] <;> norm_num
  · funext i
    fin_cases i <;> simp [Matrix.mulVec, dotProduct, Fin.sum_univ_two]

/-- `dlyap_eigen_abs_lt_one(_real)`: a non-normal `Acl = [[1/2,1],[0,1/2]]`, `X = diag(4,16)`,
`W = [[3,−2],[−2,8]] ≻ 0`, eigenpair `(1/2, e₁)`. -/
example : ∃ (Acl X W : Matrix (Fin 2) (Fin 2) ℝ) (μ : ℂ) (v : Fin 2 → ℂ),
    X.PosDef ∧ W.PosDef ∧ Aclᵀ * X * Acl - X + W = 0 ∧ v ≠ 0 ∧
      Acl.map (algebraMap ℝ ℂ) *ᵥ v = μ • v := by
  refine ⟨!![1/2, 1; 0, 1/2], !![4, 0; 0, 16], !![3, -2; -2, 8], 1/2, ![1, 0],
    posDef_two 4 0 16 (by norm_num) (by norm_num), posDef_two 3 (-2) 8 (by norm_num) (by norm_num),
    ?_, vec2_ne_zero (by simp), ?_⟩
  · ext i j
    fin_cases i <;> fin_cases j <;> simp [Matrix.mul_apply, Fin.sum_univ_two] <;> norm_num
  · funext i
    fin_cases i <;> simp [Matrix.mulVec, dotProduct, Fin.sum_univ_two]

/-- discrete, complex eigenvalue `i/2` of the real rotation-like `Acl = [[0,1/2],[−1/2,0]]`,
`X = I`, `W = (3/4) I`. -/
example : ∃ (Acl X W : Matrix (Fin 2) (Fin 2) ℝ) (μ : ℂ) (v : Fin 2 → ℂ),
    X.PosDef ∧ W.PosDef ∧ Aclᵀ * X * Acl - X + W = 0 ∧ v ≠ 0 ∧ μ.im ≠ 0 ∧
      Acl.map (algebraMap ℝ ℂ) *ᵥ v = μ • v := by
  refine ⟨!![0, 1/2; -1/2, 0], !![1, 0; 0, 1], !![3/4, 0; 0, 3/4], Complex.I / 2,
    ![1, Complex.I],
    posDef_two 1 0 1 (by norm_num) (by norm_num),
    posDef_two (3/4) 0 (3/4) (by norm_num) (by norm_num),
    ?_, vec2_ne_zero (by simp), by simp, ?_⟩
  · ext i j
    fin_cases i <;> fin_cases j <;> simp [Matrix.mul_apply, Fin.sum_univ_two] <;> norm_num
  · funext i
    fin_cases i <;> simp [Matrix.mulVec, dotProduct, Fin.sum_univ_two] <;> ring_nf <;>
      simp <;> ring

/-- discrete generalised pencil (`dlyap_pencil_eigen_abs_lt_one(_real)`, `schur_of_lyapunov`):
`E = [[1,−1],[1,0]]`, `Acl = E · diag(1/2, 0)`, `X = I`, `W = EᵀE − AclᵀAcl ≻ 0`. -/
example : ∃ (Acl E X W : Matrix (Fin 2) (Fin 2) ℝ) (μ : ℂ) (v : Fin 2 → ℂ),
    X.PosDef ∧ W.PosDef ∧ Aclᵀ * X * Acl - Eᵀ * X * E + W = 0 ∧ v ≠ 0 ∧
      Acl.map (algebraMap ℝ ℂ) *ᵥ v = μ • (E.map (algebraMap ℝ ℂ) *ᵥ v) := by
  refine ⟨!![1/2, 0; 1/2, 0], !![1, -1; 1, 0], !![1, 0; 0, 1], !![3/2, -1; -1, 1], 1/2, ![1, 0],
    posDef_two 1 0 1 (by norm_num) (by norm_num),
    posDef_two (3/2) (-1) 1 (by norm_num) (by norm_num),
    ?_, vec2_ne_zero (by simp), ?_⟩
  · ext i j
    fin_cases i <;> fin_cases j <;> simp [Matrix.mul_apply, Fin.sum_univ_two] <;> norm_num
  · funext i
    fin_cases i <;> simp [Matrix.mulVec, dotProduct, Fin.sum_univ_two]

/-- `care_stable` / `isCareSol_hurwitz`: `A = 0`, `B = Q = R = I` (standard branch): `care` of the
model returns `X = I` (from a solver that returns it), `G = I`, closed loop `−I`; the equation
holds, `X ≻ 0`, the closed-loop weight `Q + GᵀRG = 2 I ≻ 0`. -/
example [DecidableEq ℝ] : ∃ r : AreResult (Fin 2) (Fin 2) ℝ,
    care (fun _ => (1 : Matrix (Fin 2) (Fin 2) ℝ)) 0 1 1 1 none none = .ok r ∧
      CareEq (0 : Matrix (Fin 2) (Fin 2) ℝ) (1 : Matrix (Fin 2) (Fin 2) ℝ) 1 1
        (sOf none) (eOf none) r.X ∧ r.X.PosDef ∧
      (clWeight (1 : Matrix (Fin 2) (Fin 2) ℝ) (1 : Matrix (Fin 2) (Fin 2) ℝ) (sOf none)
        r.G).PosDef := by
  refine ⟨careFinish 0 1 none none 1 (SS.invQ 1), by simp [care], ?_, ?_, ?_⟩
  · simp [careFinish, CareEq, sOf, eOf]
  · simpa [careFinish] using (Matrix.PosDef.one : (1 : Matrix (Fin 2) (Fin 2) ℝ).PosDef)
  · have h : clWeight (1 : Matrix (Fin 2) (Fin 2) ℝ) (1 : Matrix (Fin 2) (Fin 2) ℝ) (sOf none)
        (careFinish (0 : Matrix (Fin 2) (Fin 2) ℝ) (1 : Matrix (Fin 2) (Fin 2) ℝ) none none 1
          (SS.invQ 1)).G = 1 + 1 := by
      simp [clWeight, careFinish, careGainRhs, sOf, SS.invQ]
    rw [h]
    exact Matrix.PosDef.one.add Matrix.PosDef.one

/-- `dare_stable` / `isDareSol_schur`: `A = 0`, `B = Q = R = I`: `X = I`, `G = 0`, closed loop `0`,
closed-loop weight `Q = I ≻ 0`. -/
example [DecidableEq ℝ] : ∃ r : AreResult (Fin 2) (Fin 2) ℝ,
    dare (fun _ => (1 : Matrix (Fin 2) (Fin 2) ℝ)) 0 1 1 1 none none = .ok r ∧
      DareEq (0 : Matrix (Fin 2) (Fin 2) ℝ) (1 : Matrix (Fin 2) (Fin 2) ℝ) 1 1
        (sOf none) (eOf none) r.X ∧ r.X.PosDef ∧
      (clWeight (1 : Matrix (Fin 2) (Fin 2) ℝ) (1 : Matrix (Fin 2) (Fin 2) ℝ) (sOf none)
        r.G).PosDef := by
  have hd : ((1 : Matrix (Fin 2) (Fin 2) ℝ) + 1).det ≠ 0 := by
    simp [Matrix.det_fin_two, Matrix.add_apply]
  refine ⟨dareFinish 0 1 none none 1 (SS.invQ (1 + 1)), by simp [dare, dareF, hd],
    ?_, ?_, ?_⟩
  · simp [dareFinish, DareEq, sOf, eOf]
  · simpa [dareFinish] using (Matrix.PosDef.one : (1 : Matrix (Fin 2) (Fin 2) ℝ).PosDef)
  · have h : clWeight (1 : Matrix (Fin 2) (Fin 2) ℝ) (1 : Matrix (Fin 2) (Fin 2) ℝ) (sOf none)
        (dareFinish (0 : Matrix (Fin 2) (Fin 2) ℝ) (1 : Matrix (Fin 2) (Fin 2) ℝ) none none 1
          (SS.invQ (1 + 1))).G = 1 := by
      simp [clWeight, dareFinish, dareGainRhs, sOf]
    rw [h]
    exact Matrix.PosDef.one

/-- `care_hurwitz_of_posDef_solution` / `care_stable_lqr`: a contract-keeping solver for the
concrete `Stab = Hurwitz` exists, and on `A = 0`, `B = Q = R = I` the positive definite solution
`X₀ = I` has the positive definite closed-loop weight `2 I` (and `Q`, `R` are positive definite). -/
noncomputable example : CareSolver (Fin 2) (Fin 2) ℝ Hurwitz := CareSolver.ofChoice Hurwitz
noncomputable example : DareSolver (Fin 2) (Fin 2) ℝ Schur := DareSolver.ofChoice Schur
example : CareEq (0 : Matrix (Fin 2) (Fin 2) ℝ) (1 : Matrix (Fin 2) (Fin 2) ℝ) 1 1
      (sOf none) (eOf none) 1 ∧ (1 : Matrix (Fin 2) (Fin 2) ℝ).PosDef ∧
    (clWeight (1 : Matrix (Fin 2) (Fin 2) ℝ) (1 : Matrix (Fin 2) (Fin 2) ℝ) (sOf none)
      (careGainDoc (1 : Matrix (Fin 2) (Fin 2) ℝ) 1 (sOf none) (eOf none) 1)).PosDef := by
  refine ⟨by simp [CareEq, sOf, eOf], Matrix.PosDef.one, ?_⟩
  have h : clWeight (1 : Matrix (Fin 2) (Fin 2) ℝ) (1 : Matrix (Fin 2) (Fin 2) ℝ) (sOf none)
      (careGainDoc (1 : Matrix (Fin 2) (Fin 2) ℝ) 1 (sOf none) (eOf none) 1) = 1 + 1 := by
    simp [clWeight, careGainDoc, sOf, eOf]
  rw [h]
  exact Matrix.PosDef.one.add Matrix.PosDef.one

end nonvacuity

end CtrlVerif.C10
