/-
Non-vacuity of the contracts of the source-text tie of C12 (`Lemmas/PyMarg.lean: CabsSpec, AngleSpec,
AngleDegSpec, LogSpec`): over `ℝ` they are met by the real functions NumPy approximates — `np.abs` of a
complex number = `√(re² + im²)`, `np.angle` = `Complex.arg`, `np.angle(·, deg=True)` = `arg·180/π`,
`np.log` = `Real.log`.  In particular the exact ordering keys of the hand-written model
(`pmKey = re·|re|/|z|²`, `angKey`, `gmKey`) order exactly as `|PM|`, `angle(z)`, `|log GM|` computed with
`atan2` / `log` (the link that `notes/NOTES-C12.md` lists as not proved in Lean).
-/
import CtrlVerif.Lemmas.PyMarg
import Mathlib.Analysis.SpecialFunctions.Complex.Arg
import Mathlib.Analysis.SpecialFunctions.Log.Basic
import Mathlib.Analysis.SpecialFunctions.Pow.Real

namespace CtrlVerif.C12GenSel
open CtrlVerif CtrlVerif.Margins CtrlVerif.PyMarg

/-- the complex number a `Cx ℝ` stands for. -/
def toC (z : Cx ℝ) : ℂ := ⟨z.re, z.im⟩

/-- the real transcendental functions (`np.roots` stays a parameter). -/
noncomputable def realPrims (roots : List ℝ → List (Cx ℝ)) : Prims ℝ where
  npRoots := roots
  cabs z := Real.sqrt (normSq z)
  angle z := Complex.arg (toC z)
  angleDeg z := Complex.arg (toC z) * 180 / Real.pi
  log := Real.log
  pi := Real.pi
  epsPow x := Real.rpow (2 ^ (-52 : ℤ)) x
  pow10 x := Real.rpow 10 x
  expj x := ⟨Real.cos x, Real.sin x⟩

theorem sgnsq_le_iff (a b : ℝ) : a * |a| ≤ b * |b| ↔ a ≤ b := by
  constructor
  · intro h
    by_contra hc
    have hc := not_le.mp hc
    rcases le_or_gt 0 b with hb | hb
    · have ha : 0 ≤ a := le_trans hb (le_of_lt hc)
      rw [abs_of_nonneg ha, abs_of_nonneg hb] at h
      nlinarith
    · rcases le_or_gt 0 a with ha | ha
      · rw [abs_of_nonneg ha, abs_of_neg hb] at h
        nlinarith
      · rw [abs_of_neg ha, abs_of_neg hb] at h
        nlinarith
  · intro h
    rcases le_or_gt 0 a with ha | ha
    · have hb : 0 ≤ b := le_trans ha h
      rw [abs_of_nonneg ha, abs_of_nonneg hb]
      nlinarith
    · rcases le_or_gt 0 b with hb | hb
      · rw [abs_of_neg ha, abs_of_nonneg hb]
        nlinarith
      · rw [abs_of_neg ha, abs_of_neg hb]
        nlinarith

theorem norm_toC_sq (z : Cx ℝ) : ‖toC z‖ * ‖toC z‖ = normSq z := by
  rw [← sq, Complex.sq_norm, Complex.normSq_apply]
  rfl

theorem toC_ne_zero {z : Cx ℝ} (h : normSq z ≠ 0) : toC z ≠ 0 := by
  intro h0
  apply h
  have := congrArg (fun w => ‖w‖ * ‖w‖) h0
  simp only [norm_toC_sq, norm_zero, mul_zero] at this
  exact this

/-- `re·|re| / |z|²` is the signed square of `cos(arg z)`. -/
theorem key_eq_cos (z : Cx ℝ) (h : normSq z ≠ 0) :
    z.re * |z.re| / normSq z = Real.cos (Complex.arg (toC z)) * |Real.cos (Complex.arg (toC z))| := by
  have hz := toC_ne_zero h
  have hn : 0 < ‖toC z‖ := norm_pos_iff.mpr hz
  rw [Complex.cos_arg hz, ← norm_toC_sq, abs_div, abs_of_pos hn]
  show z.re * |z.re| / _ = z.re / _ * (|z.re| / _)
  field_simp

theorem cos_arg_le_iff (z z' : Cx ℝ) :
    Real.cos (Complex.arg (toC z)) ≤ Real.cos (Complex.arg (toC z')) ↔
      |Complex.arg (toC z')| ≤ |Complex.arg (toC z)| := by
  rw [← Real.cos_abs (Complex.arg (toC z)), ← Real.cos_abs (Complex.arg (toC z'))]
  exact Real.strictAntiOn_cos.le_iff_ge ⟨abs_nonneg _, Complex.abs_arg_le_pi _⟩
    ⟨abs_nonneg _, Complex.abs_arg_le_pi _⟩

theorem pmKey_le_one (z : Cx ℝ) : pmKey z ≤ 1 := by
  unfold pmKey
  split
  · exact le_refl _
  · rename_i h
    have hpos : 0 < normSq z := lt_of_le_of_ne (normSq_nonneg z) (Ne.symm h)
    rw [div_le_one hpos]
    have : z.re * |z.re| ≤ z.re * z.re := by
      rcases le_or_gt 0 z.re with h1 | h1
      · rw [abs_of_nonneg h1]
      · rw [abs_of_neg h1]; nlinarith
    unfold normSq
    nlinarith [mul_self_nonneg z.im]

theorem pmKey_eq_one_iff (z : Cx ℝ) : pmKey z = 1 ↔ Complex.arg (toC z) = 0 := by
  rw [Complex.arg_eq_zero_iff]
  show _ ↔ 0 ≤ z.re ∧ z.im = 0
  unfold pmKey
  split
  · rename_i h
    have := (normSq_eq_zero_iff z).mp h
    subst this
    simp
  · rename_i h
    have hpos : 0 < normSq z := lt_of_le_of_ne (normSq_nonneg z) (Ne.symm h)
    rw [div_eq_one_iff_eq h]
    unfold normSq
    constructor
    · intro he
      rcases le_or_gt 0 z.re with h1 | h1
      · rw [abs_of_nonneg h1] at he
        refine ⟨h1, ?_⟩
        have : z.im * z.im = 0 := by linarith
        exact mul_self_eq_zero.mp this
      · rw [abs_of_neg h1] at he
        nlinarith [mul_self_nonneg z.im, mul_self_pos.mpr (ne_of_lt h1)]
    · rintro ⟨h1, h2⟩
      rw [abs_of_nonneg h1, h2]; ring

theorem realPrims_cabs (roots : List ℝ → List (Cx ℝ)) : CabsSpec (realPrims roots) where
  nonneg z := Real.sqrt_nonneg _
  sq z := Real.mul_self_sqrt (normSq_nonneg z)

theorem realPrims_log (roots : List ℝ → List (Cx ℝ)) : LogSpec (realPrims roots) where
  abs_le x y hx hy := by
    have key : ∀ t : ℝ, 0 < t → |Real.log t| = Real.log (max t t⁻¹) := by
      intro t ht
      rcases le_total t⁻¹ t with h | h
      · rw [max_eq_left h]
        have : 0 ≤ Real.log t := by
          have := Real.log_le_log (inv_pos.mpr ht) h
          rw [Real.log_inv] at this
          linarith
        exact abs_of_nonneg this
      · rw [max_eq_right h, Real.log_inv]
        have : Real.log t ≤ 0 := by
          have := Real.log_le_log ht h
          rw [Real.log_inv] at this
          linarith
        exact abs_of_nonpos this
    show |Real.log x| ≤ |Real.log y| ↔ _
    rw [key x hx, key y hy]
    exact Real.log_le_log_iff (lt_of_lt_of_le hx (le_max_left _ _)) (lt_of_lt_of_le hy (le_max_left _ _))

theorem realPrims_angleDeg (roots : List ℝ → List (Cx ℝ)) : AngleDegSpec (realPrims roots) where
  range z := by
    show -180 < Complex.arg (toC z) * 180 / Real.pi ∧ Complex.arg (toC z) * 180 / Real.pi ≤ 180
    have hpi := Real.pi_pos
    have h1 := Complex.neg_pi_lt_arg (toC z)
    have h2 := Complex.arg_le_pi (toC z)
    constructor
    · rw [lt_div_iff₀ hpi]; nlinarith
    · rw [div_le_iff₀ hpi]; nlinarith
  abs_anti z z' := by
    show |Complex.arg (toC z') * 180 / Real.pi| ≤ |Complex.arg (toC z) * 180 / Real.pi| ↔ _
    have hpi := Real.pi_pos
    have hs : ∀ a : ℝ, |a * 180 / Real.pi| = |a| * (180 / Real.pi) := by
      intro a
      rw [mul_div_assoc, abs_mul, abs_of_pos (div_pos (by norm_num) hpi)]
    rw [hs, hs, mul_le_mul_iff_of_pos_right (div_pos (by norm_num) hpi)]
    by_cases hz : normSq z = 0
    · -- `z = 0`: `arg z = 0`, `pmKey z = 1`
      have hz0 := (normSq_eq_zero_iff z).mp hz
      subst hz0
      have : Complex.arg (toC 0) = 0 := by
        have : toC 0 = 0 := rfl
        rw [this, Complex.arg_zero]
      rw [this, abs_zero]
      have h1 : pmKey (0 : Cx ℝ) = 1 := by simp [pmKey, normSq]
      rw [h1]
      constructor
      · intro h
        have : Complex.arg (toC z') = 0 := abs_eq_zero.mp (le_antisymm h (abs_nonneg _))
        exact le_of_eq ((pmKey_eq_one_iff z').mpr this).symm
      · intro h
        have : pmKey z' = 1 := le_antisymm (pmKey_le_one z') h
        rw [(pmKey_eq_one_iff z').mp this, abs_zero]
    · by_cases hz' : normSq z' = 0
      · have hz0 := (normSq_eq_zero_iff z').mp hz'
        subst hz0
        have : Complex.arg (toC 0) = 0 := by
          have : toC 0 = 0 := rfl
          rw [this, Complex.arg_zero]
        rw [this, abs_zero]
        have h1 : pmKey (0 : Cx ℝ) = 1 := by simp [pmKey, normSq]
        rw [h1]
        exact ⟨fun _ => pmKey_le_one z, fun _ => abs_nonneg _⟩
      · rw [← cos_arg_le_iff, ← sgnsq_le_iff, ← key_eq_cos z hz, ← key_eq_cos z' hz']
        simp [pmKey, hz, hz']

theorem realPrims_angle (roots : List ℝ → List (Cx ℝ)) : AngleSpec (realPrims roots) where
  upper z hz := by
    show (0 ≤ Complex.arg (toC z) ∧ Complex.arg (toC z) < Real.pi) ↔ upperHalf z = true
    have hne : ¬ (z.re = 0 ∧ z.im = 0) := by
      rintro ⟨h1, h2⟩
      apply hz
      ext <;> simp [h1, h2]
    rw [Complex.arg_nonneg_iff, lt_iff_le_and_ne, Ne, Complex.arg_eq_pi_iff]
    simp only [Complex.arg_le_pi, true_and, upperHalf, Bool.or_eq_true, Bool.and_eq_true, decide_eq_true_eq]
    show 0 ≤ z.im ∧ ¬(z.re < 0 ∧ z.im = 0) ↔ _
    constructor
    · rintro ⟨h1, h2⟩
      rcases lt_or_eq_of_le h1 with h | h
      · exact Or.inl h
      · right
        refine ⟨h.symm, ?_⟩
        by_contra hc
        have hc := not_lt.mp hc
        rcases lt_or_eq_of_le hc with h3 | h3
        · exact h2 ⟨h3, h.symm⟩
        · exact hne ⟨h3, h.symm⟩
    · rintro (h | ⟨h1, h2⟩)
      · exact ⟨le_of_lt h, fun hc => by linarith [hc.2]⟩
      · exact ⟨le_of_eq h1.symm, fun hc => by linarith [hc.1]⟩
  mono z z' hu hu' := by
    show Complex.arg (toC z) ≤ Complex.arg (toC z') ↔ _
    have nz : ∀ w : Cx ℝ, upperHalf w = true → normSq w ≠ 0 ∧ 0 ≤ Complex.arg (toC w) := by
      intro w hw
      simp only [upperHalf, Bool.or_eq_true, Bool.and_eq_true, decide_eq_true_eq] at hw
      constructor
      · intro h0
        have := (normSq_eq_zero_iff w).mp h0
        subst this
        simp at hw
      · rw [Complex.arg_nonneg_iff]
        show 0 ≤ w.im
        rcases hw with h | h
        · exact le_of_lt h
        · exact le_of_eq h.1.symm
    obtain ⟨h1, a1⟩ := nz z hu
    obtain ⟨h2, a2⟩ := nz z' hu'
    unfold angKey
    rw [neg_le_neg_iff, key_eq_cos z h1, key_eq_cos z' h2, sgnsq_le_iff, cos_arg_le_iff,
      abs_of_nonneg a1, abs_of_nonneg a2]
  pos z hu := by
    show 0 < Complex.arg (toC z) ↔ 0 < z.im
    simp only [upperHalf, Bool.or_eq_true, Bool.and_eq_true, decide_eq_true_eq] at hu
    have h0 : 0 ≤ Complex.arg (toC z) := by
      rw [Complex.arg_nonneg_iff]
      show 0 ≤ z.im
      rcases hu with h | h
      · exact le_of_lt h
      · exact le_of_eq h.1.symm
    rw [lt_iff_le_and_ne, Ne, eq_comm, Complex.arg_eq_zero_iff]
    simp only [h0, true_and]
    show ¬(0 ≤ z.re ∧ z.im = 0) ↔ _
    constructor
    · intro h
      rcases hu with h1 | h1
      · exact h1
      · exact absurd ⟨le_of_lt h1.2, h1.1⟩ h
    · intro h hc
      linarith [hc.2]

end CtrlVerif.C12GenSel
