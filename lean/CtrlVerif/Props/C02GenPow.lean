/-
Source-text tie of C02, part 5: `StateSpace.__pow__`, `__rtruediv__`, `__truediv__`.
`Generated/SSPow.lean` is rewritten from control/statesp.py on every run
(harness/core/py2lean_ss.py); the theorems below prove the run-time model operators `DSS.pow`,
`DSS.rtruediv`, `DSS.truediv` (`Model/SSDyn.lean`: `inv`, `powNat`, `mulSS`) EQUAL to the generated
functions for all sizes, entries, exponents, operand kinds and timebases - UP TO THE TAG OF THE
ERROR in two places where the code catches an exception and answers `NotImplemented` (so Python
raises `TypeError`) while the model keeps the tag of the cause:
* `powErr`: `except LinAlgError: return NotImplemented` in `__pow__` (singular `D`; model: `illPosed`);
* `divErr`: `except ValueError: return NotImplemented` in `__truediv__` (model: `shape`, `timebase`,
  `illPosed`).
Whether a result is returned, and which, is the same on both sides (`*_ok_iff`).  The recursion of
`__pow__` (`(self**-1)**(-k)`, `self * self**(k-1)`) is well-founded recursion in the generated
function and is proved equal to the model's `powNat` by induction.  `self / ndarray` is not
modelled (on either side).
-/
import CtrlVerif.Generated.SSPow
import CtrlVerif.Props.C02GenMul
import CtrlVerif.Props.C02Glue

namespace CtrlVerif.C02Gen

open Matrix CtrlVerif CtrlVerif.C02.RT

variable {K : Type} [Field K] [DecidableEq K]

/-- the error tag after `except LinAlgError: return NotImplemented`. -/
def powErr : Err → Err
  | .illPosed => .notImplemented
  | e => e

/-- the error tag after `except ValueError: return NotImplemented`. -/
def divErr (e : Err) : Err := if PySS.isValueError e then .notImplemented else e

theorem generated_pow_not_square (G : DSS K) (k : Int) (h : G.m ≠ G.p) :
    Generated.ssPow G k = .error .notImplemented := by
  rw [Generated.ssPow]
  simp [h, throw, throwThe, MonadExceptOf.throw]

theorem generated_pow_neg_one (G : DSS K) (h : G.m = G.p) :
    Generated.ssPow G (-1) = (G.inv).mapError powErr := by
  rw [Generated.ssPow, DSS.inv_eq]
  obtain ⟨n, p, m, ⟨A, B, C, D⟩, dt⟩ := G
  simp only at h
  subst h
  simp only [PySS.A, PySS.B, PySS.C, PySS.D, PMat.inv_mk, DSS.sqD]
  simp only [↓reduceDIte, submatrix_id_id, DSS.submatrix_cast_rfl]
  by_cases hd : D.det = 0
  · simp [hd, Except.mapError, powErr, PySS.isLinAlgError, bind, Except.bind, throw, throwThe,
      MonadExceptOf.throw]
  · simp [hd, Except.mapError, bind, Except.bind, pure, Except.pure, SS.inv, PMat.inverse_eq_invQ]

theorem generated_pow_zero (G : DSS K) (h : G.m = G.p) :
    Generated.ssPow G 0 = G.powNat 0 := by
  rw [Generated.ssPow]
  simp [h, DSS.powNat, PySS.mkStatic, SS.static]
  rfl

theorem generated_pow_one (G : DSS K) (h : G.m = G.p) :
    Generated.ssPow G 1 = G.powNat 1 := by
  rw [Generated.ssPow]
  simp [h, DSS.powNat]

theorem generated_pow_succ (G : DSS K) (h : G.m = G.p) (k : Nat) (hk : 1 ≤ k) :
    Generated.ssPow G ((k + 1 : Nat) : Int) = (Generated.ssPow G (k : Int)).bind fun r => DSS.mulSS G r := by
  rw [Generated.ssPow]
  have h1 : ¬ ((k + 1 : Nat) : Int) < -1 := by omega
  have h2 : ¬ ((k + 1 : Nat) : Int) = -1 := by omega
  have h3 : ¬ ((k + 1 : Nat) : Int) = 0 := by omega
  have h4 : ¬ ((k + 1 : Nat) : Int) = 1 := by omega
  have h5 : ((k + 1 : Nat) : Int) > 1 := by omega
  have h6 : ((k + 1 : Nat) : Int) - 1 = (k : Int) := by omega
  simp only [h, ne_eq, not_true_eq_false, ↓reduceDIte, h1, h2, h3, h4, h5, h6, bind, generated_mul_eq,
    DSS.mul]

theorem generated_pow_nat (G : DSS K) (h : G.m = G.p) : ∀ k : Nat,
    Generated.ssPow G (k : Int) = G.powNat k
  | 0 => generated_pow_zero G h
  | 1 => generated_pow_one G h
  | k + 2 => by
    have e := generated_pow_succ G h (k + 1) (by omega)
    rw [generated_pow_nat G h (k + 1)] at e
    rw [DSS.powNat_succ G (k + 1) (by omega)]
    exact e

theorem generated_pow_lt (G : DSS K) (h : G.m = G.p) (k : Int) (hk : k < -1) :
    Generated.ssPow G k = (Generated.ssPow G (-1)).bind fun t => Generated.ssPow t (-k) := by
  rw [Generated.ssPow]
  simp only [h, ne_eq, not_true_eq_false, ↓reduceDIte, hk, bind]

theorem powNat_mapError (G : DSS K) (h : G.m = G.p) (k : Nat) :
    (G.powNat k).mapError powErr = G.powNat k := by
  obtain ⟨R, hR, -⟩ := powNat_ok G h k
  rw [hR]; rfl

/-- **`__pow__`** -/
theorem generated_pow_eq (G : DSS K) (k : Int) :
    Generated.ssPow G k = (DSS.pow G k).mapError powErr := by
  by_cases h : G.m = G.p
  · cases k with
    | ofNat j =>
      rw [Int.ofNat_eq_natCast, generated_pow_nat G h j, pow_ofNat h j, powNat_mapError G h j]
    | negSucc j =>
      rw [pow_negSucc h j]
      cases j with
      | zero =>
        rw [show Int.negSucc 0 = -1 from rfl, generated_pow_neg_one G h]
        cases hi : G.inv with
        | error e => rfl
        | ok gi => rfl
      | succ j =>
        rw [generated_pow_lt G h _ (by omega), generated_pow_neg_one G h]
        cases hi : G.inv with
        | error e => rfl
        | ok gi =>
          obtain ⟨-, -, hp, hm, -⟩ := inv_shape hi
          have hsq : gi.m = gi.p := by omega
          have : -Int.negSucc (j + 1) = ((j + 1 + 1 : Nat) : Int) := by omega
          simp only [Except.mapError, Except.bind, this]
          rw [generated_pow_nat gi hsq]
          exact (powNat_mapError gi hsq _).symm
  · rw [generated_pow_not_square G k h]
    unfold DSS.pow
    simp [h, Except.mapError, powErr]


/-! ### no `illPosed` from products -/

/-- a computation that never fails with `illPosed` (so re-tagging that error changes nothing). -/
def NoIll {α : Type} (x : Except Err α) : Prop := x.mapError powErr = x

theorem NoIll.ok {α : Type} (a : α) : NoIll (.ok a : Except Err α) := rfl
theorem NoIll.error {α : Type} {e : Err} (h : e ≠ .illPosed) : NoIll (.error e : Except Err α) := by
  cases e <;> first | rfl | exact absurd rfl h
theorem NoIll.bind {α β : Type} {x : Except Err α} {f : α → Except Err β} (hx : NoIll x)
    (hf : ∀ a, NoIll (f a)) : NoIll (x.bind f) := by
  cases x with
  | error e =>
    have he : powErr e = e := by
      have := hx
      simp only [NoIll, Except.mapError] at this
      exact Except.error.inj this
    show Except.mapError powErr (Except.error e) = Except.error e
    simp only [Except.mapError, he]
  | ok a => exact hf a
theorem NoIll.ite {α : Type} {c : Prop} [Decidable c] {x y : Except Err α} (hx : NoIll x) (hy : NoIll y) :
    NoIll (if c then x else y) := by split <;> assumption

theorem noIll_common (a b : Dt) : NoIll (common a b) := by
  unfold common
  split <;> (try split) <;> first | exact NoIll.ok _ | exact NoIll.error (by decide)

theorem noIll_append (G H : DSS K) : NoIll (G.append H) := by
  rw [DSS.append_eq]
  exact (noIll_common _ _).bind fun _ => NoIll.ok _

theorem noIll_appendN (g : DSS K) : ∀ k, NoIll (g.appendN k)
  | 0 => NoIll.error (by decide)
  | 1 => NoIll.ok _
  | k + 2 => by
    rw [DSS.appendN_succ g (k + 1) (by omega)]
    exact (noIll_appendN g (k + 1)).bind fun a => noIll_append a g

theorem noIll_mulCore (G H : DSS K) : NoIll (G.mulCore H) := by
  unfold DSS.mulCore
  split
  · exact (noIll_common _ _).bind fun _ => NoIll.ok _
  · exact NoIll.error (by decide)

theorem noIll_mulSS (G H : DSS K) : NoIll (G.mulSS H) := by
  rw [DSS.mulSS_eq]
  exact (NoIll.ite (noIll_appendN _ _) (NoIll.ok _)).bind fun _ =>
    (NoIll.ite (noIll_appendN _ _) (NoIll.ok _)).bind fun _ => noIll_mulCore _ _

theorem noIll_rmul (G : DSS K) (x : SOperand K) : NoIll (G.rmul x) := by
  cases x with
  | sys H =>
    simp only [DSS.rmul, rmulSS_eq_mulSS]
    exact noIll_mulSS _ _
  | scalar c => exact NoIll.ok _
  | array q r M =>
    simp only [DSS.rmul, DSS.rmulArray_eq]
    refine (NoIll.ite (noIll_appendN _ _) (NoIll.ok _)).bind fun G' => ?_
    unfold DSS.rmulArrayCore
    split
    · exact NoIll.ok _
    · exact NoIll.error (by decide)


/-! ### `__rtruediv__`, `__truediv__` -/

theorem mulScalar_one (G : DSS K) : G.mulScalar 1 = G := by
  obtain ⟨n, p, m, ⟨A, B, C, D⟩, dt⟩ := G
  simp [DSS.mulScalar, SS.smulRight]

theorem mapError_bind {α β : Type} (x : Except Err α) (f : α → Except Err β) (hf : ∀ a, NoIll (f a)) :
    (x.bind f).mapError powErr = (x.mapError powErr).bind f := by
  cases x with
  | error e => rfl
  | ok a => exact hf a

/-- **`__rtruediv__`**: `other * self ** -1`, dispatched by the kind of `other`. -/
theorem generated_rtruediv_eq (G : DSS K) (x : SOperand K) :
    Generated.ssRtruediv G x = (DSS.rtruediv G x).mapError powErr := by
  have key : (DSS.rtruediv G x).mapError powErr
      = ((G.pow (-1)).mapError powErr).bind fun gi => gi.rmul x :=
    mapError_bind _ _ fun gi => noIll_rmul gi x
  rw [key, ← generated_pow_eq]
  cases x with
  | sys H =>
    simp only [Generated.ssRtruediv, bind, generated_mul_eq, DSS.mul, DSS.rmul, rmulSS_eq_mulSS]
  | scalar c => simp only [Generated.ssRtruediv, bind, generated_rmul_eq]
  | array q r M => simp only [Generated.ssRtruediv, bind, generated_rmul_eq, PMat.toOperand_mk]

theorem divErr_powErr (e : Err) : divErr (powErr e) = divErr e := by
  cases e <;> rfl

/-- **`__truediv__`** by a number or a system: `self * (1 / other)`; `ValueError`s become
`NotImplemented`. -/
theorem generated_truediv_eq (G : DSS K) (x : SOperand K) (hx : x.kind ≠ .array) :
    Generated.ssTruediv G x = (DSS.truediv G x).mapError divErr := by
  cases x with
  | array q r M => exact absurd rfl hx
  | scalar c =>
    simp only [Generated.ssTruediv, DSS.truediv, PyNum.div, generated_mul_eq, DSS.mul]
    by_cases hc : c = 0
    · simp [hc, Except.mapError, divErr, PySS.isValueError, bind, Except.bind, throw, throwThe,
        MonadExceptOf.throw]
    · simp [hc, Except.mapError, bind, Except.bind, pure, Except.pure]
  | sys H =>
    simp only [Generated.ssTruediv, DSS.truediv, generated_rtruediv_eq, generated_mul_eq, DSS.mul]
    have h1 : (DSS.rtruediv H (.scalar ((1 : Int) : K))).mapError powErr = (H.pow (-1)).mapError powErr := by
      unfold DSS.rtruediv
      cases H.pow (-1) with
      | error e => rfl
      | ok gi => simp [bind, Except.bind, DSS.rmul, mulScalar_one, Except.mapError, pure, Except.pure]
    rw [h1]
    cases H.pow (-1) with
    | error e =>
      cases e <;> rfl
    | ok hi =>
      simp only [Except.mapError, bind, Except.bind]
      cases G.mulSS hi with
      | error e =>
        simp only [divErr, throw, throwThe, MonadExceptOf.throw]
        split <;> rfl
      | ok R => rfl

/-- a result is returned by the generated `__pow__` exactly when the model returns it. -/
theorem generated_pow_ok_iff (G : DSS K) (k : Int) (R : DSS K) :
    Generated.ssPow G k = .ok R ↔ DSS.pow G k = .ok R := by
  rw [generated_pow_eq]
  cases DSS.pow G k <;> simp [Except.mapError]

theorem generated_rtruediv_ok_iff (G : DSS K) (x : SOperand K) (R : DSS K) :
    Generated.ssRtruediv G x = .ok R ↔ DSS.rtruediv G x = .ok R := by
  rw [generated_rtruediv_eq]
  cases DSS.rtruediv G x <;> simp [Except.mapError]

theorem generated_truediv_ok_iff (G : DSS K) (x : SOperand K) (hx : x.kind ≠ .array) (R : DSS K) :
    Generated.ssTruediv G x = .ok R ↔ DSS.truediv G x = .ok R := by
  rw [generated_truediv_eq G x hx]
  cases DSS.truediv G x <;> simp [Except.mapError]

end CtrlVerif.C02Gen
