/-
Source-text tie of C02 (tag py2lean-ss): the headline theorems of the property, stated OF THE
FUNCTIONS THE SOURCE TEXT DEFINES.

`Generated/SS*.lean` are rewritten from `control/statesp.py` of the tree under check on every run
(`harness/core/py2lean_ss.py`, primitives: `Model/PyMat.lean`).  The equality theorems are in
`Props/C02GenBasic.lean` (`__neg__`, `append`), `C02GenMul.lean` (`__mul__`, `__rmul__`),
`C02GenAdd.lean` (`__add__`, `__radd__`, `__sub__`, `__rsub__`), `C02GenFeedback.lean` (`feedback`),
`C02GenPow.lean` (`__pow__`, `__truediv__`, `__rtruediv__`), `C02GenLft.lean` (`lft`):
`Generated.<method> self other … = DSS.<model operator> self other …` for all sizes, entries,
operand kinds and timebases.  Here the response theorems of `Props/C02Glue.lean` /
`C02GlueTree.lean` (namespace `C02.RT`) are transported along these equalities: whenever the
function defined by the source text returns `R`, `R` responds with the sum / product / feedback
loop / … of the responses of the operands.
-/
import CtrlVerif.Props.C02GenAdd
import CtrlVerif.Props.C02GenFeedback
import CtrlVerif.Props.C02GenPow
import CtrlVerif.Props.C02GenLft
import CtrlVerif.Props.C02GlueTree
import CtrlVerif.Lemmas.C02GlueEx

namespace CtrlVerif.C02Gen

open Matrix CtrlVerif CtrlVerif.DSS CtrlVerif.C02.RT

variable {K : Type} [Field K] [DecidableEq K]

/-- `-G` as the source text computes it responds with `-Y`. -/
theorem generated_neg_resp {G R : DSS K} {s : K} {p m : Nat} {Y : Matrix (Fin p) (Fin m) K}
    (hG : G.Resp s p m Y) (hR : Generated.ssNeg G = .ok R) : R.Resp s p m (-Y) := by
  rw [generated_neg_eq, Except.ok.injEq] at hR
  subst hR
  exact neg_resp hG

/-- `G + x` as the source text computes it responds with `Y₁ + Y₂`. -/
theorem generated_add_resp {G R : DSS K} {x : SOperand K} {s : K} {p m : Nat}
    {Y₁ Y₂ : Matrix (Fin p) (Fin m) K} (hG : G.Resp s p m Y₁) (hx : (toSys x).Resp s p m Y₂)
    (hR : Generated.ssAdd G x = .ok R) : R.Resp s p m (Y₁ + Y₂) :=
  add_resp hG hx (generated_add_eq G x ▸ hR)

/-- … a SISO / scalar right operand is broadcast. -/
theorem generated_add_resp_bcR {G R : DSS K} {x : SOperand K} {s : K} {p m : Nat}
    {Y₁ : Matrix (Fin p) (Fin m) K} {y : Matrix (Fin 1) (Fin 1) K} (hG : G.Resp s p m Y₁)
    (hk : x.kind ≠ .array) (hx : (toSys x).Resp s 1 1 y) (hR : Generated.ssAdd G x = .ok R) :
    R.Resp s p m (Y₁ + bc p m y) :=
  add_resp_bcR hG hk hx (generated_add_eq G x ▸ hR)

/-- … a SISO left operand is broadcast. -/
theorem generated_add_resp_bcL {G R : DSS K} {x : SOperand K} {s : K} {p m : Nat}
    {y : Matrix (Fin 1) (Fin 1) K} {Y₂ : Matrix (Fin p) (Fin m) K} (hG : G.Resp s 1 1 y)
    (hx : (toSys x).Resp s p m Y₂) (hR : Generated.ssAdd G x = .ok R) : R.Resp s p m (bc p m y + Y₂) :=
  add_resp_bcL hG hx (generated_add_eq G x ▸ hR)

/-- `G - x` as the source text computes it responds with `Y₁ - Y₂`. -/
theorem generated_sub_resp {G R : DSS K} {x : SOperand K} {s : K} {p m : Nat}
    {Y₁ Y₂ : Matrix (Fin p) (Fin m) K} (hG : G.Resp s p m Y₁) (hx : (toSys x).Resp s p m Y₂)
    (hR : Generated.ssSub G x = .ok R) : R.Resp s p m (Y₁ - Y₂) :=
  sub_resp hG hx (generated_sub_eq G x ▸ hR)

/-- `x - G` as the source text computes it responds with `Y₁ - Y₂` (operand order). -/
theorem generated_rsub_resp {G R : DSS K} {x : SOperand K} {s : K} {p m : Nat}
    {Y₁ Y₂ : Matrix (Fin p) (Fin m) K} (hx : (toSys x).Resp s p m Y₁) (hG : G.Resp s p m Y₂)
    (hR : Generated.ssRsub G x = .ok R) : R.Resp s p m (Y₁ - Y₂) :=
  rsub_resp hx hG (generated_rsub_eq G x ▸ hR)

/-- `G * x` as the source text computes it responds with `Y₁ * Y₂`. -/
theorem generated_mul_resp {G R : DSS K} {x : SOperand K} {s : K} {p k m : Nat}
    {Y₁ : Matrix (Fin p) (Fin k) K} {Y₂ : Matrix (Fin k) (Fin m) K} (hG : G.Resp s p k Y₁)
    (hx : (toSys x).Resp s k m Y₂) (hR : Generated.ssMul G x = .ok R) : R.Resp s p m (Y₁ * Y₂) :=
  mul_resp hG hx (generated_mul_eq G x ▸ hR)

/-- … a SISO / scalar right factor is broadcast (`y • Y₁`). -/
theorem generated_mul_resp_bcR {G R : DSS K} {x : SOperand K} {s : K} {p m : Nat}
    {Y₁ : Matrix (Fin p) (Fin m) K} {y : Matrix (Fin 1) (Fin 1) K} (hG : G.Resp s p m Y₁)
    (hk : x.kind ≠ .array) (hx : (toSys x).Resp s 1 1 y) (hR : Generated.ssMul G x = .ok R) :
    R.Resp s p m (y 0 0 • Y₁) :=
  mul_resp_bcR hG hk hx (generated_mul_eq G x ▸ hR)

/-- … a SISO left factor is broadcast. -/
theorem generated_mul_resp_bcL {G R : DSS K} {x : SOperand K} {s : K} {p m : Nat}
    {y : Matrix (Fin 1) (Fin 1) K} {Y₂ : Matrix (Fin p) (Fin m) K} (hG : G.Resp s 1 1 y)
    (hx : (toSys x).Resp s p m Y₂) (hR : Generated.ssMul G x = .ok R) : R.Resp s p m (y 0 0 • Y₂) :=
  mul_resp_bcL hG hx (generated_mul_eq G x ▸ hR)

/-- `x * G` as the source text computes it responds with `Y₁ * Y₂` (operand order). -/
theorem generated_rmul_resp {G R : DSS K} {x : SOperand K} {s : K} {p k m : Nat}
    {Y₁ : Matrix (Fin p) (Fin k) K} {Y₂ : Matrix (Fin k) (Fin m) K}
    (hx : (toSys x).Resp s p k Y₁) (hG : G.Resp s k m Y₂) (hR : Generated.ssRmul G x = .ok R) :
    R.Resp s p m (Y₁ * Y₂) :=
  rmul_resp hx hG (generated_rmul_eq G x ▸ hR)

/-- `G.append(x)` as the source text computes it responds with the block diagonal. -/
theorem generated_append_resp {G R : DSS K} {x : SOperand K} {s : K} {p m p' m' : Nat}
    {Y : Matrix (Fin p) (Fin m) K} {Y' : Matrix (Fin p') (Fin m') K} (hG : G.Resp s p m Y)
    (hx : (toSys x).Resp s p' m' Y') (hR : Generated.ssAppend G x = .ok R) :
    R.Resp s (p + p') (m + m') (bdiag Y Y') :=
  append_resp hG hx (generated_append_eq G x ▸ hR)

/-- `G.feedback(x, sign)` as the source text computes it responds with `Y₁ N` for every right
inverse `N` of `I - sign Y₂ Y₁`. -/
theorem generated_feedback_resp {G R : DSS K} {x : SOperand K} {sign s : K} {p m : Nat}
    {Y₁ : Matrix (Fin p) (Fin m) K} {Y₂ : Matrix (Fin m) (Fin p) K} (hG : G.Resp s p m Y₁)
    (hx : (toSys x).Resp s m p Y₂) (N : Matrix (Fin m) (Fin m) K)
    (hN : (1 - sign • (Y₂ * Y₁)) * N = 1) (hR : Generated.ssFeedback G x sign = .ok R) :
    R.Resp s p m (Y₁ * N) :=
  feedback_resp hG hx N hN (generated_feedback_eq G x sign ▸ hR)

/-- the generated `feedback` raises on a system in the feedback path exactly when the model says
so: incompatible shapes, incompatible timebases, or `det (I - sign D₂ D₁) = 0`. -/
theorem generated_feedback_error_iff (G H : DSS K) (sign : K) (e : Err) :
    Generated.ssFeedback G (.sys H) sign = .error e ↔
      (¬(G.m = H.p ∧ G.p = H.m) ∧ e = .shape) ∨
      (∃ h : G.m = H.p ∧ G.p = H.m, common G.dt H.dt = .error e ∨
        ((∃ d, common G.dt H.dt = .ok d) ∧ (fbF G H h sign).det = 0 ∧ e = .illPosed)) := by
  rw [generated_feedback_eq]
  exact feedbackSS_error_iff G H sign e

/-- `G ** k` as the source text computes it responds with `Y ^ k`. -/
theorem generated_pow_resp {G R : DSS K} {s : K} {n : Nat} {Y : Matrix (Fin n) (Fin n) K}
    (hG : G.Resp s n n Y) (k : Int) (hk : 0 ≤ k ∨ IsUnit Y.det) (hR : Generated.ssPow G k = .ok R) :
    R.Resp s n n (Y ^ k) :=
  pow_resp hG k hk ((generated_pow_ok_iff G k R).1 hR)

/-- `G / x` (a number or a system) as the source text computes it responds with `Y₁ Y₂⁻¹`. -/
theorem generated_truediv_resp {G R : DSS K} {x : SOperand K} {s : K} {p k : Nat}
    {Y₁ : Matrix (Fin p) (Fin k) K} {Y₂ Y₂' : Matrix (Fin k) (Fin k) K} (hG : G.Resp s p k Y₁)
    (hk : x.kind ≠ .array) (hx : (toSys x).Resp s k k Y₂) (hY : Y₂ * Y₂' = 1)
    (hR : Generated.ssTruediv G x = .ok R) : R.Resp s p k (Y₁ * Y₂') :=
  truediv_resp hG hx hY ((generated_truediv_ok_iff G x hk R).1 hR)

/-- `G.lft(x, nu, ny)` (with the `-1` defaults) as the source text computes it responds with the lower
LFT of the responses, partitioned as the code slices them. -/
theorem generated_lft_resp {G R : DSS K} {x : SOperand K} {s : K} {p m p' m' : Nat}
    {Y : Matrix (Fin p) (Fin m) K} {Yb : Matrix (Fin p') (Fin m') K} (hG : G.Resp s p m Y)
    (hx : (toSys x).Resp s p' m' Yb) (nu ny : Int) (nuN nyN : Nat)
    (hnu : lftRes p' m nu = nuN) (hny : lftRes m' p ny = nyN)
    (hu : nuN ≤ m) (hu' : nuN ≤ p') (hy : nyN ≤ p) (hy' : nyN ≤ m')
    (N : Matrix (Fin nyN) (Fin nyN) K)
    (hN : (1 - (splitUpper Y nuN nyN hu hy).toBlocks₂₂
              * (splitLower Yb nuN nyN hu' hy').toBlocks₁₁) * N = 1)
    (hR : Generated.ssLft G x nu ny = .ok R) :
    R.Resp s ((p - nyN) + (p' - nuN)) ((m - nuN) + (m' - nyN))
      (flatMat (Expr.lftMat (splitUpper Y nuN nyN hu hy) (splitLower Yb nuN nyN hu' hy') N)) :=
  lft_resp hG hx nu ny nuN nyN hnu hny hu hu' hy hy' N hN ((generated_lft_ok_iff G x nu ny R).1 hR)

/-! ### non-vacuity: the generated functions return on concrete non-square systems over ℚ and the
hypotheses of the response theorems are met (`G21` 2×1 plant, `K12` 1×2 static gain, `S11` SISO,
`Q22`, `U22` 2×2; `Lemmas/C02GlueEx.lean`) -/

section examples
open DSS.Ex

example : (∃ R, Generated.ssNeg G21 = .ok R) ∧
    (∃ R, Generated.ssAdd G21 (.sys S11) = .ok R ∧ R.n = 2 ∧ R.p = 2 ∧ R.m = 1) ∧
    (∃ R, Generated.ssMul G21 (.array 1 2 !![1, 1]) = .ok R ∧ R.p = 2 ∧ R.m = 2) ∧
    (∃ R, Generated.ssRmul G21 (.sys S11) = .ok R ∧ R.n = 3) ∧
    (∃ R, Generated.ssSub G21 (.scalar 3) = .ok R) ∧
    Generated.ssAdd G21 (.sys K12) = .error .shape ∧
    Generated.ssMul G21 (.sys G21) = .error .shape ∧
    Generated.ssRsub G21 (.array 1 2 !![1, 1]) = .error .shape ∧
    G21.Resp 0 2 1 !![1; 3] ∧ S11.Resp 0 1 1 !![2] := by
  rw [generated_neg_eq, generated_add_eq, generated_mul_eq, generated_rmul_eq, generated_sub_eq,
    generated_add_eq, generated_mul_eq, generated_rsub_eq]
  exact ⟨⟨_, rfl⟩, ⟨_, rfl, rfl, rfl, rfl⟩, ⟨_, rfl, rfl, rfl⟩, ⟨_, rfl, rfl⟩, ⟨_, rfl⟩, rfl, rfl, rfl,
    G21_resp, S11_resp⟩

/-- `feedback`: the loop `feedback(2 * G21, np.array([[1, 1]]), -1)` is well posed and returned; the
hypothesis `hN` of `generated_feedback_resp` is met by `N = 1/9` at `s = 0`. -/
example : (∃ R, Generated.ssFeedback (G21.mulScalar 2) (.array 1 2 !![1, 1]) (-1) = .ok R) ∧
    ((1 : Matrix (Fin 1) (Fin 1) ℚ) - (-1 : ℚ) • ((!![1, 1] : Matrix (Fin 1) (Fin 2) ℚ)
      * ((2 : ℚ) • (!![1; 3] : Matrix (Fin 2) (Fin 1) ℚ)))) * !![1/9] = 1 := by
  constructor
  · rw [generated_feedback_eq]
    refine exists_ok fun err h => ?_
    rcases (feedbackSS_error_iff _ _ _ err).mp h with ⟨h', -⟩ | ⟨_, h' | ⟨-, h', -⟩⟩
    · exact h' ⟨rfl, rfl⟩
    · simp [G21, mulScalar, ofMatrix, toSys, common] at h'
    · have : fbF (G21.mulScalar 2) (ofMatrix 1 2 !![1, 1]) ⟨rfl, rfl⟩ (-1)
          = 1 - (-1 : ℚ) • ((!![1, 1] : Matrix (Fin 1) (Fin 2) ℚ)
            * ((2 : ℚ) • (!![0; 1] : Matrix (Fin 2) (Fin 1) ℚ))) := fbF_mk _ _ _ _ _ _
      change Matrix.det (fbF (G21.mulScalar 2) (ofMatrix 1 2 !![1, 1]) ⟨rfl, rfl⟩ (-1)) = 0 at h'
      rw [this] at h'
      change Matrix.det ((1 : Matrix (Fin 1) (Fin 1) ℚ) - (-1 : ℚ) • ((!![1, 1] : Matrix (Fin 1) (Fin 2) ℚ)
            * ((2 : ℚ) • (!![0; 1] : Matrix (Fin 2) (Fin 1) ℚ)))) = 0 at h'
      simp [Matrix.det_fin_one, Matrix.mul_apply] at h'
      norm_num at h'
  · ext i j; fin_cases i; fin_cases j
    simp [Matrix.mul_apply]
    norm_num

/-- `**`, `/`: `S11 ** -2`, `G21 / S11`, `G21 / 2` are returned (`S11` has the direct term `1`);
`G21 ** 2` is not square: `NotImplemented`; `G21 / 0`: `ZeroDivisionError`. -/
example : (∃ R, Generated.ssPow S11 (-2) = .ok R) ∧
    (∃ R, Generated.ssTruediv G21 (.sys S11) = .ok R) ∧
    (∃ R, Generated.ssTruediv G21 (.scalar 2) = .ok R) ∧
    Generated.ssPow G21 2 = .error .notImplemented ∧
    Generated.ssTruediv G21 (.scalar 0) = .error .zeroDen := by
  have hS : (sqD S11 rfl).det ≠ 0 := by
    have : sqD S11 rfl = !![1] := sqD_mk _ _ _
    rw [this]
    show Matrix.det (!![1] : Matrix (Fin 1) (Fin 1) ℚ) ≠ 0
    simp [Matrix.det_fin_one]
  have h1 : ∃ R, S11.pow (-2) = .ok R := exists_ok fun e h => by
    rcases (pow_error_iff _ _ e).mp h with ⟨h', -⟩ | ⟨-, _, h', -⟩
    · exact h' rfl
    · exact hS h'
  have h2 : ∃ R, G21.truediv (.sys S11) = .ok R := by
    obtain ⟨hi, hhi⟩ : ∃ hi, S11.pow (-1) = .ok hi := exists_ok fun e h => by
      rcases (pow_error_iff _ _ e).mp h with ⟨h', -⟩ | ⟨-, _, h', -⟩
      · exact h' rfl
      · exact hS h'
    obtain ⟨-, -, hp, hm, hdt⟩ := pow_shape hhi
    have hs : hi.isSiso = true := (isSiso_iff hi).mpr ⟨hp, hm⟩
    obtain ⟨R, hR⟩ : ∃ R, mulSS G21 hi = .ok R := exists_ok fun e h => by
      have := (mulSS_error_iff _ _ e).mp h
      rw [hs, hdt] at this
      simp [G21, S11, isSiso, common] at this
    exact ⟨R, by rw [truediv_sys, hhi]; exact hR⟩
  obtain ⟨R1, hR1⟩ := h1
  obtain ⟨R2, hR2⟩ := h2
  refine ⟨⟨R1, (generated_pow_ok_iff _ _ _).2 hR1⟩,
    ⟨R2, (generated_truediv_ok_iff _ _ (by decide) _).2 hR2⟩,
    ⟨_, (generated_truediv_ok_iff _ _ (by decide) _).2 (by rw [truediv_scalar, if_neg (by norm_num)])⟩,
    ?_, ?_⟩
  · rw [generated_pow_not_square]; simp [G21]
  · rw [generated_truediv_eq _ _ (by decide), truediv_scalar, if_pos rfl]; rfl

/-- `lft`: upper `U22`, lower `L22` (static), `nu = ny = 1` and the `-1` defaults are valid partitions,
the generated function returns for `nu = ny = 1`; `nu = 3` is not valid and raises. -/
example : (∃ R, Generated.ssLft U22 (.sys L22) 1 1 = .ok R) ∧ LftValid U22 (.sys L22) 1 1 ∧
    LftValid U22 (.sys L22) (-1) (-1) ∧ ¬LftValid U22 (.sys L22) 3 1 ∧
    (∃ e, Generated.ssLft U22 (.sys L22) 3 1 = .error e) := by
  have hdt : common U22.dt (toSys (.sys L22)).dt = .ok .cont := by
    simp [U22, L22, toSys, common, close, Dt.num]
  have hok : ∃ R, U22.lft (.sys L22) 1 1 = .ok R := exists_ok fun e h => by
    rw [lft_resolved U22 (.sys L22) 1 1 1 1 rfl rfl .cont hdt,
      dif_pos (show 1 ≤ U22.m ∧ 1 ≤ (toSys (.sys L22)).p ∧ 1 ≤ U22.p ∧ 1 ≤ (toSys (.sys L22)).m
        from by decide), lftSS_error_iff, SS.det_lftF] at h
    have h0 : (lftUpper U22 1 1 (by decide) (by decide)).D = 0 := by
      ext i j; rfl
    have hz : (0 : Matrix (Fin (U22.p - 1) ⊕ Fin 1) (Fin (U22.m - 1) ⊕ Fin 1) ℚ).toBlocks₂₂ = 0 := by
      ext i j; rfl
    rw [h0, hz, Matrix.zero_mul] at h
    simp at h
  have hinv : ¬LftValid U22 (.sys L22) 3 1 := by
    simp [LftValid, lftRes, U22, L22, toSys]
  obtain ⟨R, hR⟩ := hok
  obtain ⟨e, he, -⟩ := generated_lft_invalid U22 (.sys L22) 3 1 hinv
  exact ⟨⟨R, (generated_lft_ok_iff _ _ _ _ _).2 hR⟩, by simp [LftValid, lftRes, U22, L22, toSys],
    by simp [LftValid, lftRes, U22, L22, toSys], hinv, ⟨e, he⟩⟩

end examples

end CtrlVerif.C02Gen
