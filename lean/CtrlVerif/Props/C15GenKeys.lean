/-
Source-text tie of C15, part 4: the keep / elim processing of `model_reduction`
(control/modelsimp.py: the nested functions `_process_elim_or_keep`, `_expand_key`, `_resolve`).
`Generated/CanonReduceKeys.lean` is rewritten from the source text on every run
(harness/core/py2lean_canon.py; Python values are `PyVal` with the primitives of `Model/PyVal.lean`,
index arrays are `List Int` with the primitives of `Model/PyCanon.lean`).  For every key of the model
(`Reduce.Key`: `None`, an offset, a name, a list of offsets / names, a `slice`) as the Python object it
stands for (`PyCanon.toPy`), every label list and every recursion bound `fuel ≥ 2`:
`_expand_key` + `np.atleast_1d` is `Reduce.expandKey` (`labels.index` = `resolveAtom`,
`range(n)[slice]` = the model's own slice arithmetic `pySlice`, proved equal to `slice.indices`);
`_resolve` (`np.arange(n)[idx]`, `np.unique`) is `normIdx` + `canonIdx`; `_process_elim_or_keep` returns
the model's `(elim, keep)` lists or raises with it (`generated_processElimOrKeep_eq`, up to WHICH of
two invalid arguments is reported).  `keep_elim_partition` is transported.
-/
import CtrlVerif.Generated.CanonReduceKeys
import CtrlVerif.Lemmas.PyCanonKeys
import CtrlVerif.Props.C15

namespace CtrlVerif.C15Gen

open CtrlVerif PyCanon Reduce

/-- what the model does with ONE keep / elim argument: expand names and slices
(`Reduce.expandKey`), resolve the offsets NumPy's way (`normIdx`), sort and drop repetitions
(`canonIdx`). -/
def resolveM (labels : List String) (k : Key) : Except Err (List Nat) :=
  (expandKey labels k).bind fun e => (e.mapM (normIdx labels.length)).map canonIdx

/-- an atom: any positive fuel suffices. -/
theorem generated_expandKey_atom (labels : List String) (fuel : Nat) (a : Atom) :
    Generated.expandKey labels (fuel + 1) (atomPy a) = (resolveAtom labels a).map PyVal.int := by
  cases a with
  | idx i =>
    simp [Generated.expandKey, atomPy, Py.isNone, Py.isinstance, Py.isinstance1, resolveAtom, Except.map, pure,
      Except.pure]
  | name s =>
    have h := indexStr_labels labels s
    simp only [Generated.expandKey, atomPy, Py.isNone, Py.isinstance, Py.isinstance1, List.any_cons, List.any_nil,
      Bool.or_false, Bool.false_eq_true, ↓reduceIte, h, bind, Except.bind]
    cases resolveAtom labels (.name s) <;> rfl

theorem mapM_expandKey_atoms (labels : List String) (fuel : Nat) (l : List Atom) :
    List.mapM (fun k => Generated.expandKey labels (fuel + 1) k) (l.map atomPy)
      = (l.mapM (resolveAtom labels)).map (List.map PyVal.int) := by
  induction l with
  | nil => rfl
  | cons a t ih =>
    rw [List.map_cons, List.mapM_cons, List.mapM_cons, ih, generated_expandKey_atom]
    cases resolveAtom labels a with
    | error e => rfl
    | ok i =>
      cases t.mapM (resolveAtom labels) with
      | error e => rfl
      | ok r => rfl

/-- **`_expand_key` + `np.atleast_1d`**: the index array the code works with is the model's
`expandKey` (names looked up, slices expanded), for every key of the model and fuel ≥ 2. -/
theorem generated_expandKey_eq (labels : List String) (fuel : Nat) (k : Key) :
    (Generated.expandKey labels (fuel + 2) (toPy k)).bind atleast1d = expandKey labels k := by
  cases k with
  | none =>
    simp [Generated.expandKey, toPy, Py.isNone, Except.bind, atleast1d, expandKey, pure, Except.pure]
  | atom a =>
    rw [toPy, generated_expandKey_atom]
    simp only [expandKey, bind, Except.bind]
    cases resolveAtom labels a with
    | error e => rfl
    | ok i => rfl
  | list l =>
    have h := mapM_expandKey_atoms labels fuel l
    rw [Generated.expandKey]
    simp only [toPy, Py.isNone, Py.isinstance, Py.isinstance1, List.any_cons, List.any_nil,
      Bool.or_false, Bool.false_eq_true, ↓reduceIte, Py.iter_list, bind, Except.bind, h, expandKey]
    cases l.mapM (resolveAtom labels) with
    | error e => rfl
    | ok r => exact atleast1d_ints r
  | slice a b c =>
    simp only [Generated.expandKey, toPy, Py.isNone, Py.isinstance, Py.isinstance1, List.any_cons, List.any_nil,
      Bool.or_false, Bool.false_eq_true, ↓reduceIte, Py.range1, Py.getitem_range_slice, Py.rangeLen_zero_one,
      expandKey, pySlice_eq]
    cases Index.sliceIndices a b c labels.length with
    | error e => rfl
    | ok r =>
      obtain ⟨a', b', c'⟩ := r
      simp [Except.map, Except.bind, atleast1d]

/-- **`_resolve`**: the function the source text defines is the model's resolution of one
argument, for every key of the model and fuel ≥ 2. -/
theorem generated_resolve_eq (labels : List String) (fuel : Nat) (k : Key) :
    Generated.resolve labels (fuel + 2) (toPy k) = (resolveM labels k).map castL := by
  have h := generated_expandKey_eq labels fuel k
  unfold Generated.resolve resolveM
  rw [← h]
  cases Generated.expandKey labels (fuel + 2) (toPy k) with
  | error e => rfl
  | ok v =>
    simp only [bind, Except.bind]
    cases atleast1d v with
    | error e => rfl
    | ok idx =>
      simp only [arangeTake_eq]
      by_cases hl : idx.length > 0
      · simp only [hl, ↓reduceIte]
        cases idx.mapM (normIdx labels.length) with
        | error e => rfl
        | ok r => simp [Except.map, pure, Except.pure, unique_castL]
      · have : idx = [] := by
          cases idx with
          | nil => rfl
          | cons a t => simp at hl
        subst this
        simp [Except.map, pure, Except.pure, canonIdx]

/-- **`_process_elim_or_keep`**: the function the source text defines is the model's
`processElimKeep` for every pair of keys of the model and fuel ≥ 2 — the same `(elim, keep)` lists
whenever either returns, and both raise otherwise — up to WHICH of two invalid arguments is
reported: the code resolves `elim` completely (names, then offsets) before it looks at `keep`, and
tests "can't provide both" last; the model expands both, tests "both", then resolves offsets.
All three exceptions are argument errors and are identified by `keyErr`.
(The literal equation without `mapError` is false, e.g. `elim=[7]` out of range and `keep=['nope']`
unknown: IndexError in the code, "unknown name" in the model.) -/
theorem generated_processElimOrKeep_eq (labels : List String) (fuel : Nat) (e k : Key) :
    (Generated.processElimOrKeep (fuel + 2) (toPy e) (toPy k) labels).mapError keyErr
      = ((processElimKeep labels e k).map fun r => (castL r.1, castL r.2)).mapError keyErr := by
  unfold Generated.processElimOrKeep processElimKeep
  simp only [generated_resolve_eq, resolveM]
  cases he : expandKey labels e with
  | error a => rfl
  | ok ev =>
    cases hk : expandKey labels k with
    | error b =>
      have hb := expandKey_error labels k b hk
      cases hm : ev.mapM (normIdx labels.length) with
      | error c =>
        have hc := mapM_normIdx_error _ _ _ hm
        subst hc
        simp only [bind, Except.bind, Except.map, Except.mapError, hm, hb]
        rfl
      | ok r => simp only [bind, Except.bind, Except.map, Except.mapError, hm]
    | ok kv =>
      have hlen : ∀ (l : List Int) (r : List Nat), l.mapM (normIdx labels.length) = .ok r → (r = [] ↔ l = []) := by
        intro l r h
        cases l with
        | nil => simp [pure, Except.pure] at h; simp [h]
        | cons a t =>
          rw [List.mapM_cons] at h
          cases ha : normIdx labels.length a with
          | error e => simp [ha, bind, Except.bind] at h
          | ok y =>
            cases ht : t.mapM (normIdx labels.length) with
            | error e => simp [ha, ht, bind, Except.bind] at h
            | ok ys =>
              simp [ha, ht, bind, Except.bind, pure, Except.pure] at h
              simp [← h]
      have hpos : ∀ l : List Nat, (castL (canonIdx l)).length > 0 ↔ l ≠ [] := by
        intro l
        rw [castL_length]
        exact List.length_pos_iff.trans (not_congr (canonIdx_eq_nil l))
      simp only [bind, Except.bind, Except.map]
      cases hme : ev.mapM (normIdx labels.length) with
      | error c =>
        have hc := mapM_normIdx_error _ _ _ hme
        subst hc
        have hev : ev ≠ [] := by rintro rfl; simp [pure, Except.pure] at hme
        by_cases hkv : kv = []
        · subst hkv
          simp [hev, hme, Except.mapError]
        · simp [hev, hkv, Except.mapError, keyErr]
      | ok re =>
        cases hmk : kv.mapM (normIdx labels.length) with
        | error c =>
          have hc := mapM_normIdx_error _ _ _ hmk
          subst hc
          have hkv : kv ≠ [] := by rintro rfl; simp [pure, Except.pure] at hmk
          by_cases hev : ev = []
          · subst hev
            simp [hkv, hmk, Except.mapError]
          · simp [hev, hkv, Except.mapError, keyErr]
        | ok rk =>
          have h1 := hlen ev re hme
          have h2 := hlen kv rk hmk
          simp only [hpos]
          have hre : re ≠ [] ↔ ev ≠ [] := not_congr h1
          have hrk : rk ≠ [] ↔ kv ≠ [] := not_congr h2
          simp only [hre, hrk]
          by_cases hb : ev ≠ [] ∧ kv ≠ []
          · rw [if_pos hb, if_pos hb]
            rfl
          · rw [if_neg hb, if_neg hb]
            by_cases hkv : kv ≠ []
            · rw [if_pos hkv, if_pos hkv]
              simp only [pure, Except.pure, sortList_castL_canonIdx, rangeFilter_castL]
            · rw [if_neg hkv, if_neg hkv]
              simp only [pure, Except.pure, sortList_castL_canonIdx, rangeFilter_castL]

/-- the function the source text defines returns exactly when the model does, and then the same
lists (as Python ints). -/
theorem generated_processElimOrKeep_ok_iff (labels : List String) (fuel : Nat) (e k : Key)
    (R : List Int × List Int) :
    Generated.processElimOrKeep (fuel + 2) (toPy e) (toPy k) labels = .ok R
      ↔ ∃ el kp, processElimKeep labels e k = .ok (el, kp) ∧ R = (castL el, castL kp) := by
  have h := generated_processElimOrKeep_eq labels fuel e k
  cases hg : Generated.processElimOrKeep (fuel + 2) (toPy e) (toPy k) labels with
  | error a =>
    cases hm : processElimKeep labels e k with
    | error b => simp
    | ok r => simp [hg, hm, Except.map, Except.mapError] at h
  | ok r =>
    cases hm : processElimKeep labels e k with
    | error b => simp [hg, hm, Except.map, Except.mapError] at h
    | ok r' =>
      simp only [hg, hm, Except.map, Except.mapError, Except.ok.injEq] at h
      subst h
      obtain ⟨el, kp⟩ := r'
      constructor
      · intro h
        exact ⟨el, kp, rfl, by simpa using h.symm⟩
      · rintro ⟨el', kp', h1, h2⟩
        simp only [Except.ok.injEq, Prod.mk.injEq] at h1
        obtain ⟨rfl, rfl⟩ := h1
        simp [h2]

/-- **`keep_elim_partition` of the function the source text defines**: whatever the spelling
(offsets, negative offsets, names, slices, repetitions, any order), the lists `_process_elim_or_keep`
returns are duplicate free, within `0 … n-1`, and partition `0 … n-1`. -/
theorem generated_keep_elim_partition (labels : List String) (fuel : Nat) (e k : Key) (el kp : List Int)
    (h : Generated.processElimOrKeep (fuel + 2) (toPy e) (toPy k) labels = .ok (el, kp)) :
    el.Nodup ∧ kp.Nodup ∧ (∀ x ∈ el, 0 ≤ x ∧ x < labels.length) ∧ (∀ x ∈ kp, 0 ≤ x ∧ x < labels.length)
      ∧ ∀ x : Int, 0 ≤ x → x < labels.length → (x ∈ kp ↔ x ∉ el) := by
  obtain ⟨el', kp', hm, hR⟩ := (generated_processElimOrKeep_ok_iff labels fuel e k (el, kp)).mp h
  simp only [Prod.mk.injEq] at hR
  obtain ⟨rfl, rfl⟩ := hR
  obtain ⟨h1, h2, h3, h4, h5⟩ := C15.keep_elim_partition labels e k el' kp' hm
  have hinj : Function.Injective (fun (k : Nat) => (k : Int)) := fun a b h => by simpa using h
  refine ⟨List.Nodup.map hinj h1, List.Nodup.map hinj h2, ?_, ?_, ?_⟩
  · intro x hx
    obtain ⟨y, hy, rfl⟩ := List.mem_map.mp hx
    exact ⟨by omega, by exact_mod_cast h3 y hy⟩
  · intro x hx
    obtain ⟨y, hy, rfl⟩ := List.mem_map.mp hx
    exact ⟨by omega, by exact_mod_cast h4 y hy⟩
  · intro x hx0 hxn
    obtain ⟨y, rfl⟩ := Int.eq_ofNat_of_zero_le hx0
    have hy : y < labels.length := by exact_mod_cast hxn
    have := h5 y hy
    simp only [castL, List.mem_map, Nat.cast_inj, exists_eq_right]
    exact this

/-- non-vacuity: labels `a b c`; `keep = ['c', -3]` (a name and a negative offset), `elim = None`:
the function the source text defines returns `elim = [1]`, `keep = [0, 2]`; giving both raises. -/
example :
    Generated.processElimOrKeep 2 (toPy .none) (toPy (.list [.name "c", .idx (-3)])) ["a", "b", "c"]
      = .ok ([1], [0, 2])
    ∧ ∃ e, Generated.processElimOrKeep 2 (toPy (.atom (.idx 0))) (toPy (.atom (.idx 1))) ["a", "b", "c"]
      = .error e := by
  have hc : canonIdx [2, 0] = [0, 2] :=
    canonIdx_eq_of_sorted _ _ (by decide) (fun x => by simp [or_comm])
  refine ⟨?_, ?_⟩
  · rw [generated_processElimOrKeep_ok_iff ["a", "b", "c"] 0]
    refine ⟨[1], [0, 2], ?_, rfl⟩
    have hm : [(2 : Int), -3].mapM (normIdx 3) = .ok [2, 0] := by decide
    simp only [processElimKeep, expandKey, List.mapM_cons, List.mapM_nil, resolveAtom, bind, Except.bind, pure,
      Except.pure, List.length_cons, List.length_nil]
    have h2 : List.idxOf "c" ["a", "b", "c"] = 2 := by decide
    simp only [h2]
    simp [hm, hc, complIdx]
    decide
  · cases hg : Generated.processElimOrKeep 2 (toPy (.atom (.idx 0))) (toPy (.atom (.idx 1))) ["a", "b", "c"] with
    | error e => exact ⟨e, rfl⟩
    | ok R =>
      obtain ⟨el, kp, hm, _⟩ := (generated_processElimOrKeep_ok_iff ["a", "b", "c"] 0 _ _ R).mp hg
      simp [processElimKeep, expandKey, resolveAtom, bind, Except.bind, pure, Except.pure] at hm

end CtrlVerif.C15Gen
