/-
Source-text tie of C15, part 3: `observable_form` (control/canonical.py), the dual of
`Props/C15GenReach.lean`.  `Generated/CanonObservable.lean` is rewritten from the source text on every
run; `DSS.observableForm` (fed with the coefficients of the characteristic polynomial) is proved EQUAL
to the generated function for every system.  Proved on the way: the loop builds `companionO`; `obsv` on
one output is `obsv1`; `solve(Wrz, Wrx)` is `Wrz⁻¹ Wrx`; `obsv(A_o, e₁ᵀ)` is unit triangular
(`det = 1`, `Lemmas/PyCanon: det_obsv1_companionO`), so the model's "cannot happen" branch is dead and
the function returns exactly on observable SISO systems with states.  `observable_form_correct` is
transported to the function the source text defines.
-/
import CtrlVerif.Generated.CanonObservable
import CtrlVerif.Lemmas.PyCanon
import CtrlVerif.Props.C15

namespace CtrlVerif.C15Gen

open Matrix CtrlVerif PyCanon

variable {K : Type} [Field K] [DecidableEq K]

theorem generated_observable_form_eq (G : DSS K) :
    Generated.observableForm G = (G.observableForm (charpolyList G.sys.A)).map canonOut := by
  obtain ⟨n, p, m, ⟨A, B, C, D⟩, dt⟩ := G
  unfold Generated.observableForm DSS.observableForm
  simp only [PySS.A, PySS.B, PySS.C, PySS.D]
  by_cases h : p = 1 ∧ m = 1
  · obtain ⟨rfl, rfl⟩ := h
    have hs : PySS.issiso (⟨n, 1, 1, ⟨A, B, C, D⟩, dt⟩ : DSS K) = true := rfl
    simp only [hs, not_true_eq_false, ↓reduceIte, and_self, ↓reduceDIte, zerosLike_mk]
    by_cases hn : n = 0
    · subst hn
      simp [setItem_empty_cols, bind, Except.bind, Except.map]
    · generalize hap : charpolyList A = ap
      have hl : ap.length = n + 1 := by rw [← hap]; simp
      have ha0 : ap.getD 0 0 ≠ 0 := by rw [← hap, charpolyList_head]; exact one_ne_zero
      have hlen : ¬ (ap.length ≠ n + 1) := by simp [hl]
      have hB : setItem (⟨1, n, 0⟩ : PMat K) 0 0 1 = .ok ⟨1, n, SS.e1row n⟩ := by
        rw [setItem_nonneg _ _ _ _ _ _ (le_refl _) (le_refl _) (by omega) (by omega)]
        congr 2
        ext i j
        simp [SS.e1row, Fin.val_eq_zero i]
      simp only [Int.cast_one, hB, poly_mk, hn, ne_eq, not_false_eq_true, ↓reduceIte, bind, Except.bind, hap]
      rw [companionO_loop n (fun k => ap.getD k 0)]
      · have hl' : ¬ (¬ ap.length = n + 1) := by simp [hl]
        have hr : ∀ F : Matrix (Fin n) (Fin n) K, (¬ (⟨n, n, F⟩ : PMat K).rank = n) ↔ F.det = 0 :=
          fun F => PMat.rank_mk_ne_iff F
        simp only [obsv_mk1, PMat.solve_mk, SS.castIO_rfl, certInv_eq, Mat.ofTab_tab', hl', ha0, ↓reduceIte]
        by_cases hd : (SS.obsv1 (SS.companionO n fun k => ap.getD k 0) (SS.e1row n)).det = 0
        · simp only [hd, ↓reduceIte]
          rfl
        · simp only [hd, ↓reduceIte, hr, PMat.inverse_eq_invQ]
          by_cases hz : (SS.invQ (SS.obsv1 (SS.companionO n fun k => ap.getD k 0) (SS.e1row n))
              * SS.obsv1 A C).det = 0
          · simp only [hz, ↓reduceIte]
            rfl
          · simp only [hz, ↓reduceIte, PMat.matmul_mk, PySS.mk_mk, pure, Except.pure, Except.map, canonOut,
              Mat.ofTab_tab', SS.castIO_rfl]
      · intro k hk
        have ha0' : ¬ ap.getD 0 0 = 0 := ha0
        by_cases hk1 : (k : Int) + 1 < (n : Int)
        · simp (disch := omega) only [getItem_nonneg, setItem_nonneg, PyNum.div, ha0', hk1, ↓reduceIte,
            Int.toNat_zero, Int.toNat_natCast_add_one, Int.toNat_natCast]
          congr 2
          ext i j
          simp only [partialO, SS.companionO, of_apply]
          have hi := i.isLt
          have hj := j.isLt
          split_ifs <;> first | rfl | (exfalso; omega) | simp_all
        · simp (disch := omega) only [getItem_nonneg, setItem_nonneg, PyNum.div, ha0', hk1, ↓reduceIte,
            Int.toNat_zero, Int.toNat_natCast_add_one, Int.toNat_natCast, pure, Except.pure]
          congr 2
          ext i j
          simp only [partialO, SS.companionO, of_apply]
          have hi := i.isLt
          have hj := j.isLt
          split_ifs <;> first | rfl | (exfalso; omega) | simp_all
  · have hs : ¬ (PySS.issiso (⟨n, p, m, ⟨A, B, C, D⟩, dt⟩ : DSS K) = true) := by
      simp only [PySS.issiso, Bool.and_eq_true, beq_iff_eq]
      exact h
    simp only [hs, not_false_eq_true, ↓reduceIte, h, ↓reduceDIte]
    rfl

/-- the model on a SISO system with states, fed with the coefficients of the characteristic
polynomial, in closed form: `Wrz = obsv(A_o, e₁ᵀ)` is unit triangular (`det = 1`), so its branch
"cannot happen" indeed never happens and the certified inverse is the inverse. -/
theorem observableForm_closed (n : Nat) (dt : Dt) (A : Matrix (Fin n) (Fin n) K) (B : Matrix (Fin n) (Fin 1) K)
    (C : Matrix (Fin 1) (Fin n) K) (D : Matrix (Fin 1) (Fin 1) K) (hn : n ≠ 0) :
    (DSS.observableForm ⟨n, 1, 1, ⟨A, B, C, D⟩, dt⟩ (charpolyList A)).map canonOut
      = if (SS.obsT A C (SS.invQ (SS.obsv1 (SS.companionO n fun k => (charpolyList A).getD k 0)
            (SS.e1row n)))).det = 0 then .error .illPosed
        else .ok (⟨n, 1, 1, ⟨SS.companionO n (fun k => (charpolyList A).getD k 0),
            SS.obsT A C (SS.invQ (SS.obsv1 (SS.companionO n fun k => (charpolyList A).getD k 0) (SS.e1row n))) * B,
            SS.e1row n, D⟩, dt⟩,
            ⟨n, n, SS.obsT A C (SS.invQ (SS.obsv1 (SS.companionO n fun k => (charpolyList A).getD k 0)
              (SS.e1row n)))⟩) := by
  have hl' : ¬ (¬ (charpolyList A).length = n + 1) := by simp
  have ha0 : ¬ (charpolyList A).getD 0 0 = 0 := by rw [charpolyList_head]; exact one_ne_zero
  have hd : ¬ (SS.obsv1 (SS.companionO n fun k => (charpolyList A).getD k 0) (SS.e1row n)).det = 0 := by
    rw [det_obsv1_companionO]; exact one_ne_zero
  have hoT : SS.invQ (SS.obsv1 (SS.companionO n fun k => (charpolyList A).getD k 0) (SS.e1row n))
      * SS.obsv1 A C
      = SS.obsT A C (SS.invQ (SS.obsv1 (SS.companionO n fun k => (charpolyList A).getD k 0) (SS.e1row n))) := rfl
  unfold DSS.observableForm
  simp only [and_self, ↓reduceDIte, hn, ↓reduceIte, ne_eq, hl', ha0, SS.castIO_rfl, certInv_eq, Mat.ofTab_tab',
    hd, hoT]
  by_cases hz : (SS.obsT A C (SS.invQ (SS.obsv1 (SS.companionO n fun k => (charpolyList A).getD k 0)
      (SS.e1row n)))).det = 0
  · simp only [hz, ↓reduceIte]
    rfl
  · simp only [hz, ↓reduceIte, pure, Except.pure, Except.map, canonOut, Mat.ofTab_tab', SS.castIO_rfl]
    rfl

/-- the contract of `numpy.poly` holds for the primitive `PyCanon.poly` (Cayley–Hamilton). -/
theorem charpolyList_contract_dual {n : Nat} (A : Matrix (Fin n) (Fin n) K) :
    SS.hornerMat Aᵀ (fun k => (charpolyList A).getD k 0) n = 0 ∧ (charpolyList A).getD 0 0 ≠ 0 :=
  let h := C15.charpoly_contract A (charpolyList A) (charpolyList_length A) (toPoly_charpolyList A)
  ⟨h.2.1, h.2.2⟩

/-- **the function the source text defines returns exactly on observable SISO systems with at
least one state.** -/
theorem generated_observable_form_ok_iff (G : DSS K) :
    (∃ R, Generated.observableForm G = .ok R)
      ↔ ∃ h : G.p = 1 ∧ G.m = 1, G.n ≠ 0
          ∧ (SS.obsv1 (G.sys.castIO h.1 h.2).A (G.sys.castIO h.1 h.2).C).det ≠ 0 := by
  rw [generated_observable_form_eq]
  obtain ⟨n, p, m, ⟨A, B, C, D⟩, dt⟩ := G
  by_cases h : p = 1 ∧ m = 1
  · obtain ⟨rfl, rfl⟩ := h
    simp only [and_self, SS.castIO_rfl, exists_true_left]
    by_cases hn : n = 0
    · subst hn
      simp [DSS.observableForm, Except.map]
    · rw [observableForm_closed n dt A B C D hn]
      have hW := (invQ_two_sided (SS.obsv1 (SS.companionO n fun k => (charpolyList A).getD k 0) (SS.e1row n))
        (by rw [det_obsv1_companionO]; exact one_ne_zero)).2
      have hiff : (SS.obsT A C (SS.invQ (SS.obsv1 (SS.companionO n fun k => (charpolyList A).getD k 0)
          (SS.e1row n)))).det = 0 ↔ (SS.obsv1 A C).det = 0 :=
        C15.observable_form_T_singular_iff ⟨A, B, C, D⟩ (fun k => (charpolyList A).getD k 0) _ hW
      by_cases hd : (SS.obsv1 A C).det = 0
      · rw [if_pos (hiff.mpr hd)]
        simp [hd]
      · rw [if_neg (fun h => hd (hiff.mp h))]
        exact ⟨fun _ => ⟨hn, hd⟩, fun _ => ⟨_, rfl⟩⟩
  · have : ¬ ∃ h : p = 1 ∧ m = 1, True := fun ⟨h', _⟩ => h h'
    simp [DSS.observableForm, h, Except.map]

/-- **`observable_form_correct` of the function the source text defines.**  Whenever
`observable_form(G)` returns `(Z, T)`: `G` is SISO, `Z` has the companion structure of the
characteristic polynomial (`A_o`: first column `-a_k / a_0`, unit super-diagonal, zeros; `C_o = e₁ᵀ`),
`T` is square of the size of the state and invertible, `T A = A_o T`, `B_o = T B`, `C_o T = C`, `D` and
the timebase are unchanged, and `Z` has the same transfer function as `G`. -/
theorem generated_observable_form_correct {G Z : DSS K} {T : PMat K}
    (hR : Generated.observableForm G = .ok (Z, T)) :
    ∃ (hp : G.p = 1) (hm : G.m = 1) (Zs : SS (Fin G.n) (Fin 1) (Fin 1) K)
      (Tz : Matrix (Fin G.n) (Fin G.n) K),
      Z = ⟨G.n, 1, 1, Zs, G.dt⟩ ∧ T = ⟨G.n, G.n, Tz⟩
        ∧ Zs.A = SS.companionO G.n (fun k => (charpolyList G.sys.A).getD k 0) ∧ Zs.C = SS.e1row G.n
        ∧ Tz * (G.sys.castIO hp hm).A = Zs.A * Tz ∧ Tz * (G.sys.castIO hp hm).B = Zs.B
        ∧ Zs.C * Tz = (G.sys.castIO hp hm).C ∧ Zs.D = (G.sys.castIO hp hm).D ∧ IsUnit Tz.det
        ∧ ∀ s Y, Zs.Resp s Y ↔ (G.sys.castIO hp hm).Resp s Y := by
  rw [generated_observable_form_eq] at hR
  obtain ⟨n, p, m, ⟨A, B, C, D⟩, dt⟩ := G
  by_cases h : p = 1 ∧ m = 1
  · obtain ⟨rfl, rfl⟩ := h
    refine ⟨rfl, rfl, ?_⟩
    simp only [SS.castIO_rfl]
    by_cases hn : n = 0
    · subst hn
      simp [DSS.observableForm, Except.map] at hR
    · rw [observableForm_closed n dt A B C D hn] at hR
      have hW := (invQ_two_sided (SS.obsv1 (SS.companionO n fun k => (charpolyList A).getD k 0) (SS.e1row n))
        (by rw [det_obsv1_companionO]; exact one_ne_zero)).2
      by_cases hz : (SS.obsT A C (SS.invQ (SS.obsv1 (SS.companionO n fun k => (charpolyList A).getD k 0)
          (SS.e1row n)))).det = 0
      · rw [if_pos hz] at hR
        exact absurd hR (by simp)
      · obtain ⟨hM, ha0⟩ := charpolyList_contract_dual A
        have hM' : SS.hornerMat Aᵀ (fun k => (charpolyList A).getD k 0) n * Cᵀ = 0 := by
          rw [hM, Matrix.zero_mul]
        simp only [hz, ↓reduceIte, Except.ok.injEq, Prod.mk.injEq] at hR
        obtain ⟨rfl, rfl⟩ := hR
        obtain ⟨h1, h2, h3, h4, _, h6⟩ := C15.observable_form_correct ⟨A, B, C, D⟩
          (fun k => (charpolyList A).getD k 0) _ ha0 hM' hW
        have hTi := (invQ_two_sided _ hz).1
        exact ⟨_, _, rfl, rfl, rfl, rfl, h1, h2, h3, h4, (isUnit_iff_ne_zero.mpr hz), h6 _ hTi⟩
  · simp [DSS.observableForm, h, Except.map] at hR

/-- … in the run-time form of the response relation: same transfer function. -/
theorem generated_observable_form_resp {G Z : DSS K} {T : PMat K}
    (hR : Generated.observableForm G = .ok (Z, T)) (s : K) (p m : Nat) (Y : Matrix (Fin p) (Fin m) K) :
    Z.Resp s p m Y ↔ G.Resp s p m Y := by
  obtain ⟨hp, hm, Zs, Tz, rfl, -, -, -, -, -, -, -, -, hresp⟩ := generated_observable_form_correct hR
  obtain ⟨n, p', m', S, dt⟩ := G
  simp only at hp hm
  subst hp hm
  simp only [SS.castIO_rfl] at hresp
  unfold DSS.Resp
  simp only
  constructor
  · rintro ⟨h1, h2, h⟩
    exact ⟨h1, h2, (hresp s _).mp h⟩
  · rintro ⟨h1, h2, h⟩
    exact ⟨h1, h2, (hresp s _).mpr h⟩

/-- an unobservable system, a MIMO system and a system without states raise. -/
theorem generated_observable_form_raises (G : DSS K)
    (h : ¬ (G.p = 1 ∧ G.m = 1) ∨ G.n = 0
      ∨ ∃ h : G.p = 1 ∧ G.m = 1, (SS.obsv1 (G.sys.castIO h.1 h.2).A (G.sys.castIO h.1 h.2).C).det = 0) :
    ∃ e, Generated.observableForm G = .error e := by
  cases hg : Generated.observableForm G with
  | error e => exact ⟨e, rfl⟩
  | ok R =>
    exfalso
    obtain ⟨hs, hn, hd⟩ := (generated_observable_form_ok_iff G).mp ⟨R, hg⟩
    rcases h with h | h | ⟨_, h⟩
    · exact h hs
    · exact hn h
    · exact hd h

/-- non-vacuity (ℚ): `A = [[0, 1], [-2, -3]]`, `C = (1, 0)` is observable, the function the source
text defines returns; with `C = 0` it raises. -/
example :
    (∃ R, Generated.observableForm (K := ℚ) ⟨2, 1, 1, ⟨!![0, 1; -2, -3], !![0; 1], !![1, 0], !![2]⟩, .cont⟩ = .ok R)
    ∧ ¬ (∃ R, Generated.observableForm (K := ℚ) ⟨2, 1, 1, ⟨!![0, 1; -2, -3], !![0; 1], !![0, 0], !![2]⟩, .cont⟩ = .ok R) := by
  constructor
  · refine (generated_observable_form_ok_iff _).mpr ⟨⟨rfl, rfl⟩, by decide, ?_⟩
    simp only [SS.castIO_rfl]
    decide +kernel
  · intro h
    obtain ⟨_, _, h⟩ := (generated_observable_form_ok_iff _).mp h
    simp only [SS.castIO_rfl] at h
    exact h (by decide +kernel)

end CtrlVerif.C15Gen
