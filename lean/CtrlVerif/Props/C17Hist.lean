/-
C17 over call histories: selector objects kept by the caller and used again (Model/IndexHist.lean).

* `hist_store_unchanged`  — indexing never changes the caller's selector objects, whatever the calls
  return or raise;
* `hist_results`          — every call of a history is the indexing operation applied to what the
  caller wrote into the variable (not to anything an earlier call left there);
* `hist_reuse_by_name`    — a list of names used on a first system and then on a second one selects,
  on the second system, the channels that carry those names *there* (= the index list of the names in
  the second system), whatever the first system is and whether or not the first call raised;
* `hist_reuse_name`       — the same for a single name;
* `hist_reuse_unknown_name_raises` — … and a name the second system does not have raises there, even
  if the first system had it.
-/
import CtrlVerif.Model.IndexHist
import CtrlVerif.Props.C17

namespace CtrlVerif.C17

open CtrlVerif CtrlVerif.Index

theorem hist_store_unchanged {ρ : Type} (st : Store) (cs : List (Call ρ)) :
    (runHist st cs).2 = st := by
  induction cs generalizing st with
  | nil => rfl
  | cons c cs ih => simp [runHist, callStep, ih]

theorem hist_results {ρ : Type} (st : Store) (cs : List (Call ρ)) :
    (runHist st cs).1 = cs.map fun c => c.run (st.read c.rowVar) (st.read c.colVar) := by
  induction cs generalizing st with
  | nil => rfl
  | cons c cs ih => simp [runHist, callStep, ih]

/-- the `k`-th call of a history sees the caller's own selector objects. -/
theorem hist_call {ρ : Type} (st : Store) (cs : List (Call ρ)) (k : Nat) (hk : k < cs.length) :
    (runHist st cs).1[k]? =
      some ((cs[k]).run (st.read (cs[k]).rowVar) (st.read (cs[k]).colVar)) := by
  simp [hist_results, hk]

/-- A list of names kept in variable `v`, used in a first call (on any system of any class, returning
or raising: `first` is arbitrary) and then on `S₂`: the second call selects by name in `S₂`, i.e. it
is the selection by the indices those names have in `S₂`; the caller's objects are as before.
`f` is what the caller does with the result (the driver prints it). -/
theorem hist_reuse_by_name {P : Nat → Nat → Type} {ρ : Type} (f : Except Err (Sys P) → ρ)
    (ctor : Ctor P) (cfg : Cfg) (S₂ : Sys P) (ho : Function.Injective S₂.outs)
    (l : List (Fin S₂.p)) (st : Store) (v w : Nat)
    (hv : st.read v = .list (l.map fun i => Item.name (S₂.outs i))) (first : Call ρ) :
    (runHist st [first, ⟨fun r c => f (getitem ctor cfg S₂ r c), v, w⟩]).1[1]? =
        some (f (getitem ctor cfg S₂ (.list (l.map fun i => Item.idx (i.val : Int))) (st.read w))) ∧
    (runHist st [first, ⟨fun r c => f (getitem ctor cfg S₂ r c), v, w⟩]).2 = st := by
  have key : getitem ctor cfg S₂ (st.read v) (st.read w) =
      getitem ctor cfg S₂ (.list (l.map fun i => Item.idx (i.val : Int))) (st.read w) := by
    rw [hv]; unfold getitem; rw [parse_name_list S₂.outs ho l]
  refine ⟨?_, hist_store_unchanged _ _⟩
  simp [hist_results, key]

/-- a single name kept by the caller and used on a second system selects by name there. -/
theorem hist_reuse_name {P : Nat → Nat → Type} {ρ : Type} (f : Except Err (Sys P) → ρ)
    (ctor : Ctor P) (cfg : Cfg) (S₂ : Sys P) (ho : Function.Injective S₂.outs) (i : Fin S₂.p)
    (st : Store) (v w : Nat) (hv : st.read v = .name (S₂.outs i)) (first : Call ρ) :
    (runHist st [first, ⟨fun r c => f (getitem ctor cfg S₂ r c), v, w⟩]).1[1]? =
      some (f (getitem ctor cfg S₂ (.idx (i.val : Int)) (st.read w))) := by
  have h1 : parseSel S₂.outs (.name (S₂.outs i)) = parseSel S₂.outs (.idx (i.val : Int)) := by
    simp [parseSel, labelIndex_of_injective S₂.outs ho i, bind, Except.bind, pure, Except.pure]
  have key : getitem ctor cfg S₂ (st.read v) (st.read w) =
      getitem ctor cfg S₂ (.idx (i.val : Int)) (st.read w) := by
    rw [hv]; unfold getitem; rw [h1]
  simp [hist_results, key]

/-- a name the second system does not carry raises on the second system (it is not looked up among
the indices an earlier call resolved it to). -/
theorem hist_reuse_unknown_name_raises {P : Nat → Nat → Type} {ρ : Type}
    (f : Except Err (Sys P) → ρ) (ctor : Ctor P) (cfg : Cfg)
    (S₂ : Sys P) (s : String) (hs : ∀ i, S₂.outs i ≠ s) (l : List Item) (hl : Item.name s ∈ l)
    (st : Store) (v w : Nat) (hv : st.read v = .list l) (first : Call ρ) :
    ∃ e, (runHist st [first, ⟨fun r c => f (getitem ctor cfg S₂ r c), v, w⟩]).1[1]? =
      some (f (.error e)) := by
  have h := unknown_name_in_list_raises S₂.outs l s hl hs
  cases hg : getitem ctor cfg S₂ (Sel.list l) (st.read w) with
  | error e => exact ⟨e, by simp [hist_results, hv, hg]⟩
  | ok R =>
    exfalso
    obtain ⟨rows, cols, body, h1, _⟩ := (getitem_spec ctor cfg S₂ _ _ R).mp hg
    rw [h] at h1
    cases h1

/-! ### histories in which the caller also edits its selector objects -/

/-- only the caller's own edits change the caller's objects. -/
theorem events_store {ρ : Type} (st : Store) (es : List (Event ρ)) :
    (runEvents st es).2 =
      es.foldl (fun s e => match e with | .call _ => s | .write v x => s.set v x) st := by
  induction es generalizing st with
  | nil => rfl
  | cons e es ih =>
    cases e with
    | call c => simp [runEvents, callStep, ih]
    | write v x => simp [runEvents, ih]

/-- a history without edits is a plain call history. -/
theorem events_calls_only {ρ : Type} (st : Store) (cs : List (Call ρ)) :
    runEvents st (cs.map Event.call) = runHist st cs := by
  induction cs generalizing st with
  | nil => rfl
  | cons c cs ih => simp [runEvents, runHist, callStep, ih]

/-- a call made after an edit sees the edited object (and an earlier call saw the earlier content):
nothing about a selector object is remembered between calls. -/
theorem events_call_after_write {ρ : Type} (st : Store) (c₁ c₂ : Call ρ) (v : Nat) (x : Sel) :
    (runEvents st [.call c₁, .write v x, .call c₂]).1 =
      [c₁.run (st.read c₁.rowVar) (st.read c₁.colVar),
       c₂.run (Store.read (st.set v x) c₂.rowVar) (Store.read (st.set v x) c₂.colVar)] := by
  simp [runEvents, callStep]

/-- reading a variable after an edit: the edited one holds the new selector, the others are untouched. -/
theorem read_set (st : Store) (v w : Nat) (x : Sel) (hv : v < st.length) :
    Store.read (st.set v x) w = if w = v then x else st.read w := by
  unfold Store.read
  by_cases h : w = v
  · subst h; simp [List.getD_eq_getElem?_getD, hv]
  · have h' : ¬ v = w := fun e => h e.symm
    simp [h, h', List.getD_eq_getElem?_getD, List.getElem?_set]

example :
    runEvents [Sel.list [.name "b"]]
      [.call ⟨fun r _ => resolve (n := 2) (fun i => if i = 0 then "a" else "b") r, 0, 0⟩,
       .write 0 (.list [.name "b", .name "a"]),
       .call ⟨fun r _ => resolve (n := 2) (fun i => if i = 0 then "a" else "b") r, 0, 0⟩]
      = ([.ok [1], .ok [1, 0]], [Sel.list [.name "b", .name "a"]]) := by decide

/-! non-vacuity: the list `['b', 'a']` kept by the caller, used on a system with outputs `a, b` and
then on one with outputs `b, a, c`: channels `[1, 0]` on the first, `[0, 1]` on the second, and the
list is still `['b', 'a']`. -/
example :
    runHist [Sel.list [.name "b", .name "a"]]
      [⟨fun r _ => resolve (n := 2) (fun i => if i = 0 then "a" else "b") r, 0, 0⟩,
       ⟨fun r _ => (resolve (n := 3) (fun i => if i = 0 then "b" else if i = 1 then "a" else "c") r).map
          (fun l => l.map fun i => (⟨i.val % 2, by omega⟩ : Fin 2)), 0, 0⟩]
      = ([.ok [1, 0], .ok [0, 1]], [Sel.list [.name "b", .name "a"]]) := by decide

end CtrlVerif.C17
