/-
C20 (certificate half) — the code-following flat-system construction of `Model/Flat.lean`
(`LinFlat.construct`: Faddeev–LeVerrier coefficients = `numpy.poly`, companion matrix, the two
reachability matrices, `Tzx = Wrz Wrx⁻¹`, row flip, `F`, `T`, `Tinv`, `Cf`) **always passes its
run-time certificate on a reachable pair**, and the trajectory theorems of `Props/C20.lean` hold for
the code-following definitions themselves, with no `Valid` hypothesis.

Every order `n ≥ 1`; every field of characteristic zero (the Faddeev–LeVerrier recursion, like
`numpy.poly`'s exact counterpart, divides by `1 … n`); feasibility over `ℝ`.
-/
import CtrlVerif.Props.C20
import CtrlVerif.Lemmas.C20Cert

namespace CtrlVerif.C20Cert

open CtrlVerif Matrix LinFlat Polynomial

variable {K : Type} [Field K] [DecidableEq K] {n : Nat}

/-! ### (0) the pieces: `numpy.poly`, Cayley–Hamilton for the computed coefficients -/

/-- the exact counterpart of `numpy.poly(A)` in the model (Faddeev–LeVerrier recursion
`M' = A M + a I`, `a' = -tr(A M')/(k+1)`) returns the coefficients of the characteristic
polynomial, highest power first. -/
theorem charCoeff_is_charpoly [CharZero K] (A : Matrix (Fin n) (Fin n) K) (k : Nat) (hk : k ≤ n) :
    charCoeff A k = A.charpoly.coeff (n - k) :=
  CtrlVerif.charCoeff_eq A k hk

/-- Jacobi's formula for the characteristic matrix (used for the trace step of the recursion):
`(det (X - A))' = tr adj (X - A)`, over every commutative ring and every finite index type. -/
theorem charpoly_derivative {m : Type*} [Fintype m] [DecidableEq m] {R : Type*} [CommRing R]
    (A : Matrix m m R) : derivative A.charpoly = (adjugate (charmatrix A)).trace :=
  CtrlVerif.derivative_charpoly A

/-- the computed coefficients annihilate `A` (the hypothesis `hM` of C15's
`reachable_form_correct` is discharged for the model's own `numpy.poly`). -/
theorem charCoeff_cayley_hamilton [CharZero K] (A : Matrix (Fin n) (Fin n) K) :
    SS.hornerMat A (charCoeff A) n = 0 ∧ charCoeff A 0 = 1 :=
  ⟨hornerMat_charCoeff_card A, rfl⟩

/-- the certified inverse of the model: succeeds exactly on invertible matrices, and whatever it
returns is an inverse (so `solve` / `inv` of the model raise exactly when NumPy's exact
counterpart would). -/
theorem invCert_total (F : Matrix (Fin n) (Fin n) K) :
    (F.det ≠ 0 → ∃ X, invCert F = .ok X ∧ F * X = 1) ∧
    (F.det = 0 → invCert F = .error .illPosed) ∧
    (∀ X, invCert F = .ok X → F * X = 1) :=
  ⟨fun h => invCert_ok h, fun h => invCert_singular h, fun _ h => invCert_spec h⟩

/-! ### (1) the certificate cannot fail on reachable input -/

/-- **`linflat_valid`.**  For every SISO pair `(A, b)` of order `n ≥ 1` whose reachability matrix
is invertible, the code-following construction returns a structure (it raises nothing and its
certificate `validB` passes), and that structure satisfies the chain-of-integrators equations. -/
theorem linflat_valid [CharZero K] (hn : 0 < n) (A : Matrix (Fin n) (Fin n) K) (b : Fin n → K)
    (h : (ctrb A b).det ≠ 0) :
    ∃ L : LinFlat n K, LinFlat.construct A b = .ok L ∧ L.Valid ∧ L.A = A ∧ L.b = b := by
  obtain ⟨Wi, Ti, hc, hv, -⟩ := construct_ok hn A b h
  exact ⟨_, hc, hv, rfl, rfl⟩

/-- on an unreachable pair the construction raises, as linflat.py does through `reachable_form`
(`ValueError: System not controllable to working precision`). -/
theorem linflat_unreachable_raises (hn : 0 < n) (A : Matrix (Fin n) (Fin n) K) (b : Fin n → K)
    (h : (ctrb A b).det = 0) : LinFlat.construct A b = .error (.py .illPosed) :=
  construct_unreachable hn A b h

/-- the construction succeeds exactly on reachable pairs. -/
theorem linflat_ok_iff [CharZero K] (hn : 0 < n) (A : Matrix (Fin n) (Fin n) K) (b : Fin n → K) :
    (∃ L, LinFlat.construct A b = .ok L) ↔ (ctrb A b).det ≠ 0 := by
  constructor
  · rintro ⟨L, hL⟩ hdet
    rw [linflat_unreachable_raises hn A b hdet] at hL
    exact absurd hL (by simp)
  · intro h
    obtain ⟨L, hL, -⟩ := linflat_valid hn A b h
    exact ⟨L, hL⟩

/-- **the run-time certificate is dead code**: for no input of any order does the construction end
in `FlatErr.cert` (the driver's `model-error`). -/
theorem linflat_never_cert [CharZero K] (A : Matrix (Fin n) (Fin n) K) (b : Fin n → K)
    (s : String) : LinFlat.construct A b ≠ .error (.cert s) := by
  rcases Nat.eq_zero_or_pos n with h0 | hn
  · subst h0
    rw [C20.construct_zero_states]
    simp
  · by_cases h : (ctrb A b).det = 0
    · rw [linflat_unreachable_raises hn A b h]
      simp
    · obtain ⟨L, hL, -⟩ := linflat_valid hn A b h
      rw [hL]
      simp

/-- **what the construction computes**: the result is the Brunovsky structure of the last row `q`
of the inverse reachability matrix — `Cf = q`, `T_i = q Aⁱ`, `F_i = -coeff_i (charpoly A)`,
`Tinv = T⁻¹` (no characteristic hypothesis: this uses the certificate). -/
theorem linflat_is_brunovsky (hn : 0 < n) {A : Matrix (Fin n) (Fin n) K} {b : Fin n → K}
    {L : LinFlat n K} (h : LinFlat.construct A b = .ok L) :
    L = brunovsky A b ((ctrb A b)⁻¹ ⟨n - 1, by omega⟩) := by
  obtain ⟨hv, -, hA, hb⟩ := C20.construct_valid h
  have hdet : (ctrb A b).det ≠ 0 := by
    intro hd
    rw [linflat_unreachable_raises hn A b hd] at h
    exact absurd h (by simp)
  have e := LinFlat.Valid.eq_brunovsky hv hn
  have hc := LinFlat.Valid.Cf_eq hv hn (by rw [hA, hb]; exact hdet)
  rw [hc] at e
  rw [e]
  simp only [hA, hb]

/-- uniqueness: any two structures for the same system that satisfy the chain-of-integrators
equations and have the same flat output row coincide. -/
theorem valid_unique (hn : 0 < n) (L M : LinFlat n K) (hL : L.Valid) (hM : M.Valid)
    (hA : L.A = M.A) (hb : L.b = M.b) (hC : L.Cf = M.Cf) : L = M := by
  rw [LinFlat.Valid.eq_brunovsky hL hn, LinFlat.Valid.eq_brunovsky hM hn, hA, hb, hC]

/-! ### (2) the flat maps of the code-following construction are mutually inverse -/

/-- **`flat_inverse_code`.**  For a reachable pair the code-following construction returns `L` and
`reverse (forward (x, u)) = (x, u)`, `forward (reverse z) = z` — no `Valid` hypothesis, no
run-time check. -/
theorem flat_inverse_code [CharZero K] (hn : 0 < n) (A : Matrix (Fin n) (Fin n) K) (b : Fin n → K)
    (h : (ctrb A b).det ≠ 0) :
    ∃ L : LinFlat n K, LinFlat.construct A b = .ok L ∧
      (∀ x u, L.reverse (L.forward x u) = (x, u)) ∧
      (∀ z, L.forward (L.reverse z).1 (L.reverse z).2 = z) := by
  obtain ⟨L, hL, hv, -, -⟩ := linflat_valid hn A b h
  exact ⟨L, hL, C20.flat_inverse_left L hv hn, C20.flat_inverse_right L hv hn⟩

/-! ### (3) point-to-point: end points, and solvability of the boundary system -/

/-- **`point_to_point_endpoints_code`.**  For a reachable pair, the flat structure `L` of the
code-following construction, a polynomial or Bezier basis, and *any* coefficient vector `α` that
solves the boundary system `vstack([M(T0), M(Tf)]) α = hstack([forward(x0,u0), forward(xf,uf)])`
built by `_basis_flag_matrix` (whatever solver produced it), `SystemTrajectory.eval` returns
`(x0, u0)` at `T0` and `(xf, uf)` at `Tf`. -/
theorem point_to_point_endpoints_code [CharZero K] (hn : 0 < n) (A : Matrix (Fin n) (Fin n) K)
    (b : Fin n → K) (h : (ctrb A b).det ≠ 0) :
    ∃ L : LinFlat n K, LinFlat.construct A b = .ok L ∧
      ∀ (bs : Basis K) (α : Fin bs.N → K) (T0 Tf : K) (x0 : Fin n → K) (u0 : K)
        (xf : Fin n → K) (uf : K),
        stackM (n := n) bs T0 Tf *ᵥ α = stackZ (L.forward x0 u0) (L.forward xf uf) →
        trajEval L bs α T0 = (x0, u0) ∧ trajEval L bs α Tf = (xf, uf) := by
  obtain ⟨L, hL, hv, -, -⟩ := linflat_valid hn A b h
  exact ⟨L, hL, fun bs α T0 Tf x0 u0 xf uf hs =>
    C20.endpoints_of_solution L hv hn bs α T0 Tf x0 u0 xf uf hs⟩

/-- **full row rank of the boundary matrix** (Hermite interpolation at two points): for
`PolyFamily(N, T)` and `BezierFamily(N, T)` with `T ≠ 0`, at least `2(n+1)` basis functions and
`T0 ≠ Tf`, the rows of `vstack([M(T0), M(Tf)])` are linearly independent. -/
theorem boundary_matrix_full_row_rank [CharZero K] (bs : Basis K) (hT : bs.T ≠ 0)
    (hN : 2 * (n + 1) ≤ bs.N) (T0 Tf : K) (h0f : T0 ≠ Tf)
    (v : Fin ((n + 1) + (n + 1)) → K) (hv : v ᵥ* stackM (n := n) bs T0 Tf = 0) : v = 0 :=
  stackM_rowIndep bs hT hN T0 Tf h0f v hv

/-- the same as a statement about `Matrix.rank`. -/
theorem boundary_matrix_rank [CharZero K] (bs : Basis K) (hT : bs.T ≠ 0)
    (hN : 2 * (n + 1) ≤ bs.N) (T0 Tf : K) (h0f : T0 ≠ Tf) :
    (stackM (n := n) bs T0 Tf).rank = (n + 1) + (n + 1) := by
  have hinj : Function.Injective (stackM (n := n) bs T0 Tf).vecMul := by
    intro v w hvw
    have hvw' : v ᵥ* stackM (n := n) bs T0 Tf = w ᵥ* stackM (n := n) bs T0 Tf := hvw
    have : (v - w) ᵥ* stackM (n := n) bs T0 Tf = 0 := by rw [sub_vecMul, hvw', sub_self]
    exact sub_eq_zero.mp (boundary_matrix_full_row_rank bs hT hN T0 Tf h0f _ this)
  rw [(Matrix.vecMul_injective_iff.mp hinj).rank_matrix, Fintype.card_fin]

/-- **the boundary system is solvable** for every right-hand side (in particular for the flags of
any two boundary conditions), for both basis families. -/
theorem boundary_system_solvable [CharZero K] (bs : Basis K) (hT : bs.T ≠ 0)
    (hN : 2 * (n + 1) ≤ bs.N) (T0 Tf : K) (h0f : T0 ≠ Tf) (z : Fin ((n + 1) + (n + 1)) → K) :
    ∃ α : Fin bs.N → K, stackM (n := n) bs T0 Tf *ᵥ α = z :=
  mulVec_surjective_of_vecMul_injective _
    (fun v hv => boundary_matrix_full_row_rank bs hT hN T0 Tf h0f v hv) z

/-- **a point-to-point trajectory exists** between any two state/input pairs of a reachable
system, for both basis families with enough functions: there are coefficients solving the
boundary system, and every such solution meets both end points. -/
theorem point_to_point_exists [CharZero K] (hn : 0 < n) (A : Matrix (Fin n) (Fin n) K)
    (b : Fin n → K) (h : (ctrb A b).det ≠ 0) (bs : Basis K) (hT : bs.T ≠ 0)
    (hN : 2 * (n + 1) ≤ bs.N) (T0 Tf : K) (h0f : T0 ≠ Tf)
    (x0 : Fin n → K) (u0 : K) (xf : Fin n → K) (uf : K) :
    ∃ (L : LinFlat n K) (α : Fin bs.N → K), LinFlat.construct A b = .ok L ∧
      stackM (n := n) bs T0 Tf *ᵥ α = stackZ (L.forward x0 u0) (L.forward xf uf) ∧
      trajEval L bs α T0 = (x0, u0) ∧ trajEval L bs α Tf = (xf, uf) := by
  obtain ⟨L, hL, hv, -, -⟩ := linflat_valid hn A b h
  obtain ⟨α, hα⟩ := boundary_system_solvable (n := n) bs hT hN T0 Tf h0f
    (stackZ (L.forward x0 u0) (L.forward xf uf))
  exact ⟨L, α, hL, hα, C20.endpoints_of_solution L hv hn bs α T0 Tf x0 u0 xf uf hα⟩

/-- `point_to_point` of the model never reports "basis set is too small" or a zero scaling in
this regime; its only remaining failure is the certificate of the unverified Gauss–Jordan solve
(`.cert "lstsq"`), and whenever it answers, the answer meets both end points. -/
theorem p2p_code [CharZero K] (hn : 0 < n) (A : Matrix (Fin n) (Fin n) K) (b : Fin n → K)
    (h : (ctrb A b).det ≠ 0) :
    ∃ L : LinFlat n K, LinFlat.construct A b = .ok L ∧
      ∀ (bs : Basis K) (T0 Tf : K) (x0 : Fin n → K) (u0 : K) (xf : Fin n → K) (uf : K),
        (∀ α, p2p L bs T0 Tf x0 u0 xf uf = .ok α →
          trajEval L bs α T0 = (x0, u0) ∧ trajEval L bs α Tf = (xf, uf)) ∧
        (2 * (n + 1) ≤ bs.N → bs.T ≠ 0 →
          (∃ α, p2p L bs T0 Tf x0 u0 xf uf = .ok α) ∨
            p2p L bs T0 Tf x0 u0 xf uf = .error (.cert "lstsq")) := by
  obtain ⟨L, hL, hv, -, -⟩ := linflat_valid hn A b h
  refine ⟨L, hL, fun bs T0 Tf x0 u0 xf uf => ⟨fun α hα => C20.endpoints hL hα, fun hN hT => ?_⟩⟩
  unfold p2p
  rw [if_neg (by omega), if_neg hT]
  simp only
  split
  · exact Or.inl ⟨_, rfl⟩
  · exact Or.inr rfl

/-! ### (4) feasibility for the code-following definitions -/

/-- **`feasible_code`.**  Over `ℝ`, for a reachable pair, the flat structure of the code-following
construction, a polynomial or Bezier basis with `T ≠ 0` and *any* coefficient vector: the state
returned by `SystemTrajectory.eval` is differentiable in `t` and `ẋ(t) = A x(t) + b u(t)` at
every time `t`. -/
theorem feasible_code (hn : 0 < n) (A : Matrix (Fin n) (Fin n) ℝ) (b : Fin n → ℝ)
    (h : (ctrb A b).det ≠ 0) :
    ∃ L : LinFlat n ℝ, LinFlat.construct A b = .ok L ∧
      ∀ (bs : Basis ℝ), bs.T ≠ 0 → ∀ (α : Fin bs.N → ℝ) (t : ℝ) (i : Fin n),
        HasDerivAt (fun s => (trajEval L bs α s).1 i)
          ((A *ᵥ (trajEval L bs α t).1 + (trajEval L bs α t).2 • b) i) t := by
  obtain ⟨L, hL, hv, hA, hb⟩ := linflat_valid hn A b h
  refine ⟨L, hL, fun bs hT α t i => ?_⟩
  have := C20.feasible L hv hn bs hT α t i
  rwa [hA, hb] at this

/-- the whole property for the code-following definitions over `ℝ`: a reachable system, two
boundary conditions, an interval `T0 ≠ Tf`, a polynomial or Bezier basis with `N ≥ 2(n+1)`:
coefficients solving the boundary system exist, and for every such solution the trajectory starts
at `(x0,u0)`, ends at `(xf,uf)` and satisfies `ẋ = A x + b u` at every time. -/
theorem point_to_point_feasible_code (hn : 0 < n) (A : Matrix (Fin n) (Fin n) ℝ) (b : Fin n → ℝ)
    (h : (ctrb A b).det ≠ 0) (bs : Basis ℝ) (hT : bs.T ≠ 0) (hN : 2 * (n + 1) ≤ bs.N)
    (T0 Tf : ℝ) (h0f : T0 ≠ Tf) (x0 : Fin n → ℝ) (u0 : ℝ) (xf : Fin n → ℝ) (uf : ℝ) :
    ∃ L : LinFlat n ℝ, LinFlat.construct A b = .ok L ∧
      (∃ α : Fin bs.N → ℝ,
        stackM (n := n) bs T0 Tf *ᵥ α = stackZ (L.forward x0 u0) (L.forward xf uf)) ∧
      ∀ α : Fin bs.N → ℝ,
        stackM (n := n) bs T0 Tf *ᵥ α = stackZ (L.forward x0 u0) (L.forward xf uf) →
        trajEval L bs α T0 = (x0, u0) ∧ trajEval L bs α Tf = (xf, uf) ∧
        ∀ t i, HasDerivAt (fun s => (trajEval L bs α s).1 i)
          ((A *ᵥ (trajEval L bs α t).1 + (trajEval L bs α t).2 • b) i) t := by
  obtain ⟨L, hL, hv, hA, hb⟩ := linflat_valid hn A b h
  refine ⟨L, hL, boundary_system_solvable (n := n) bs hT hN T0 Tf h0f _, fun α hα => ?_⟩
  obtain ⟨e0, ef⟩ := C20.endpoints_of_solution L hv hn bs α T0 Tf x0 u0 xf uf hα
  refine ⟨e0, ef, fun t i => ?_⟩
  have := C20.feasible L hv hn bs hT α t i
  rwa [hA, hb] at this

/-- **feasibility over every field of characteristic zero** (polynomial form): for a valid flat
structure, the states and the input of the evaluated trajectory are the values of polynomials
`x_i(t)`, `u(t)`, and `x_i' = Σ_l A_il x_l + b_i u` holds as an identity of polynomials
(`'` = formal derivative). -/
theorem feasible_poly [CharZero K] (L : LinFlat n K) (hv : L.Valid) (hn : 0 < n) (bs : Basis K)
    (hT : bs.T ≠ 0) (α : Fin bs.N → K) (i : Fin n) :
    (∀ t, eval t (statePoly L bs α i) = (trajEval L bs α t).1 i) ∧
    (∀ t, eval t (inputPoly L bs α) = (trajEval L bs α t).2) ∧
    derivative (statePoly L bs α i)
      = ∑ l : Fin n, C (L.A i l) * statePoly L bs α l + C (L.b i) * inputPoly L bs α := by
  refine ⟨eval_statePoly L bs hT α i, eval_inputPoly L bs hT α, ?_⟩
  apply Polynomial.funext
  intro t
  have hc := congrFun (C20.feasible_core L hv hn (trajFlag bs α (n + 1) t)) i
  have hr : eval t (∑ l : Fin n, C (L.A i l) * statePoly L bs α l + C (L.b i) * inputPoly L bs α)
      = (L.A *ᵥ (L.reverse (trajFlag bs α (n + 1) t)).1
          + (L.reverse (trajFlag bs α (n + 1) t)).2 • L.b) i := by
    simp only [eval_add, eval_finsetSum, eval_mul, eval_C, eval_statePoly L bs hT,
      eval_inputPoly L bs hT, trajEval, Pi.add_apply, Pi.smul_apply, smul_eq_mul, mulVec,
      dotProduct]
    ring
  rw [hr, hc]
  simp only [statePoly, derivative_sum, derivative_C_mul, derivative_flagPoly, eval_finsetSum,
    eval_mul, eval_C, mulVec, dotProduct, flagTail]
  refine Finset.sum_congr rfl fun l _ => ?_
  have := eval_flagPoly bs hT α (n + 1) l.succ t
  rw [Fin.val_succ] at this
  rw [this]

/-- the same for the code-following construction on a reachable pair. -/
theorem feasible_poly_code [CharZero K] (hn : 0 < n) (A : Matrix (Fin n) (Fin n) K) (b : Fin n → K)
    (h : (ctrb A b).det ≠ 0) :
    ∃ L : LinFlat n K, LinFlat.construct A b = .ok L ∧
      ∀ (bs : Basis K), bs.T ≠ 0 → ∀ (α : Fin bs.N → K) (i : Fin n),
        (∀ t, eval t (statePoly L bs α i) = (trajEval L bs α t).1 i) ∧
        (∀ t, eval t (inputPoly L bs α) = (trajEval L bs α t).2) ∧
        derivative (statePoly L bs α i)
          = ∑ l : Fin n, C (A i l) * statePoly L bs α l + C (b i) * inputPoly L bs α := by
  obtain ⟨L, hL, hv, hA, hb⟩ := linflat_valid hn A b h
  refine ⟨L, hL, fun bs hT α i => ?_⟩
  have := feasible_poly L hv hn bs hT α i
  rwa [hA, hb] at this

/-! ### non-vacuity: a third-order chain -/

/-- a chain of three integrators with feedback into the last one, input gain 2. -/
def A3 : Matrix (Fin 3) (Fin 3) ℚ := !![0, 1, 0; 0, 0, 1; -1, -2, -3]
def b3 : Fin 3 → ℚ := ![0, 0, 2]

/-- the hypotheses of `linflat_valid` hold: the pair is reachable … -/
example : (ctrb A3 b3).det ≠ 0 := by decide +kernel

/-- … and the construction indeed returns the Brunovsky data `Cf = (1/2, 0, 0)`,
`F = (-1, -2, -3)`. -/
example : (match LinFlat.construct A3 b3 with
    | .ok L => decide (L.Cf = ![1/2, 0, 0] ∧ L.F = ![-1, -2, -3]) | .error _ => false) = true := by
  decide +kernel

/-- the conclusion of `linflat_valid` is not vacuous in this instance. -/
example : ∃ L : LinFlat 3 ℚ, LinFlat.construct A3 b3 = .ok L ∧ L.Valid ∧ L.A = A3 ∧ L.b = b3 :=
  linflat_valid (by decide) A3 b3 (by decide +kernel)

/-- an unreachable third-order pair (the input does not reach the first state). -/
example : (ctrb (!![1, 0, 0; 0, 0, 1; 0, -2, -3] : Matrix (Fin 3) (Fin 3) ℚ) ![0, 0, 1]).det = 0 := by
  decide +kernel

example : LinFlat.construct (!![1, 0, 0; 0, 0, 1; 0, -2, -3] : Matrix (Fin 3) (Fin 3) ℚ) ![0, 0, 1]
    = .error (.py .illPosed) :=
  linflat_unreachable_raises (by decide) _ _ (by decide +kernel)

/-- the Faddeev–LeVerrier coefficients of the chain: `s³ + 3 s² + 2 s + 1`. -/
example : (fun k : Fin 4 => charCoeff A3 k.val) = ![1, 3, 2, 1] := by decide +kernel

/-- the hypotheses of the rank theorem hold for order 3 with eight monomials / Bernstein
polynomials on `[0, 2]`, and the model's `point_to_point` answers on that problem. -/
example : (Basis.poly 8 (2 : ℚ)).T ≠ 0 ∧ 2 * (3 + 1) ≤ (Basis.poly 8 (2 : ℚ)).N ∧ (0 : ℚ) ≠ 2 := by
  decide +kernel

example : (match LinFlat.construct A3 b3 with
    | .ok L => (match p2p L (.poly 8 2) 0 2 ![1, 0, -1] 1 ![0, 2, 0] 0 with
      | .ok _ => true | .error _ => false)
    | .error _ => false) = true := by
  decide +kernel

example : ∃ (L : LinFlat 3 ℚ) (α : Fin (Basis.bezier 9 (2 : ℚ)).N → ℚ),
    LinFlat.construct A3 b3 = .ok L ∧
    stackM (n := 3) (.bezier 9 2) 0 2 *ᵥ α
      = stackZ (L.forward ![1, 0, -1] 1) (L.forward ![0, 2, 0] 0) ∧
    trajEval L (.bezier 9 2) α 0 = (![1, 0, -1], 1) ∧ trajEval L (.bezier 9 2) α 2 = (![0, 2, 0], 0) :=
  point_to_point_exists (by decide) A3 b3 (by decide +kernel) (.bezier 9 2) (by decide +kernel)
    (by decide) 0 2 (by decide +kernel) _ _ _ _

/-- the same chain over `ℝ` is reachable, so `feasible_code` applies to it. -/
noncomputable def A3R : Matrix (Fin 3) (Fin 3) ℝ := !![0, 1, 0; 0, 0, 1; -1, -2, -3]
noncomputable def b3R : Fin 3 → ℝ := ![0, 0, 2]

example : (ctrb A3R b3R).det ≠ 0 := by
  have : (ctrb A3R b3R).det = -8 := by
    simp [ctrb, A3R, b3R, Matrix.det_fin_three, pow_succ, Matrix.mulVec, dotProduct,
      Fin.sum_univ_three, Matrix.mul_apply]
    norm_num
  rw [this]
  norm_num

end CtrlVerif.C20Cert
