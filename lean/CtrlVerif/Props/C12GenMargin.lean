/-
Source-text tie of `margin` and `phase_crossover_frequencies` (C12; DESIGN §10.3,
notes/NOTES-py2lean-margins.md).  `Generated/MargMargin.lean` and `Generated/MargPcf.lean` are rewritten on
every run from the text of these two functions of control/margins.py of the tree under check by
`harness/core/py2lean_marg.py`.
-/
import CtrlVerif.Generated.MargMargin
import CtrlVerif.Generated.MargPcf
import CtrlVerif.Props.C12GenSel

namespace CtrlVerif.C12GenSel
open CtrlVerif CtrlVerif.Margins CtrlVerif.PyMarg

section margin
variable {K : Type} [Field K] [LinearOrder K]

/-- the six floats `stability_margins` returns by default. -/
abbrev X6 (K : Type) := XF K × XF K × XF K × XF K × XF K × XF K

/-- `margin(*args)` (specification): one argument — `stability_margins(sys)`; three arguments —
`stability_margins((mag, phase, omega))`; anything else raises `ValueError`; the result is
`gm, pm, wpc, wgc` = items 0, 1, 3, 4 of what `stability_margins` returns. -/
def marginModel {α : Type} (sm : SysData α → Except Err (X6 K)) (args : List α) :
    Except Err (XF K × XF K × XF K × XF K) :=
  match args with
  | [a] => (sm (.obj a)).map fun m => (m.1, m.2.1, m.2.2.2.1, m.2.2.2.2.1)
  | [_, _, _] => (sm (.seq args)).map fun m => (m.1, m.2.1, m.2.2.2.1, m.2.2.2.2.1)
  | _ => .error .badArg

/-- `margin` as written is `marginModel`, for every argument list and every `stability_margins`. -/
theorem generated_margin_eq (P : Prims K) {α : Type} (sm : SysData α → Except Err (X6 K)) (args : List α) :
    Generated.smMargin P sm args = marginModel sm args := by
  unfold Generated.smMargin marginModel
  match args with
  | [] => simp [bind, Except.bind]
  | [a] =>
    simp only [List.length_cons, List.length_nil, PyArith.getItem, PyArith.normIdx]
    cases h : sm (.obj a) <;> simp [h, bind, Except.bind, pure, Except.pure, Except.map]
  | [a, b] => simp [bind, Except.bind]
  | [a, b, c] =>
    simp only [List.length_cons, List.length_nil]
    cases h : sm (.seq [a, b, c]) <;> simp [h, bind, Except.bind, pure, Except.pure, Except.map]
  | a :: b :: c :: d :: l =>
    have hlen : ((((a :: b :: c :: d :: l).length : Nat) : Int)) = (l.length : Int) + 4 := by
      simp only [List.length_cons]; omega
    simp only [hlen]
    split_ifs <;> first | omega | rfl

/-- `margin(sys)` returns `gm, pm, wpc, wgc` of the default return of `stability_margins(sys)`. -/
theorem generated_margin_one (P : Prims K) {α : Type} (sm : SysData α → Except Err (X6 K)) (a : α)
    (gm pm s wpc wgc wms : XF K) (h : sm (.obj a) = .ok (gm, pm, s, wpc, wgc, wms)) :
    Generated.smMargin P sm [a] = .ok (gm, pm, wpc, wgc) := by
  rw [generated_margin_eq]; simp [marginModel, h, Except.map]

/-- a wrong number of arguments raises. -/
theorem generated_margin_raises (P : Prims K) {α : Type} (sm : SysData α → Except Err (X6 K)) (args : List α)
    (h1 : args.length ≠ 1) (h3 : args.length ≠ 3) : Generated.smMargin P sm args = .error .badArg := by
  rw [generated_margin_eq]
  match args with
  | [] => rfl
  | [a] => simp at h1
  | [a, b] => rfl
  | [a, b, c] => simp at h3
  | a :: b :: c :: d :: l => rfl

end margin

section pcf
variable {K : Type} [Field K] [LinearOrder K] [IsStrictOrderedRing K]

/-- a system that is not SISO is rejected. -/
theorem generated_pcf_mimo (P : Prims K) (sysEval : Cx K → Option (Cx K)) (ctime : Bool)
    (iw : (List K × List K) × (List K × List K)) (n0 d0 : List K) (dt0 : K) :
    Generated.phaseCrossoverFrequencies P sysEval false ctime iw n0 d0 dt0 = .error .notImplemented := by
  unfold Generated.phaseCrossoverFrequencies
  simp

/-- `phase_crossover_frequencies`, continuous time: the model's `realAxisCandidates` with `epsw = 0`
(real roots `w ≥ 0` of the model's test polynomial with the loop response there), returned as the
frequencies and `np.real` of the responses. -/
theorem generated_pcf_continuous (P : Prims K) (num den n0 d0 : List K) (dt0 : K) :
    Generated.phaseCrossoverFrequencies P (respAt num den) true true (polyIw num, polyIw den) n0 d0 dt0
      = .ok ((realAxisCandidates num den 0 (P.npRoots (realCrossingPoly num den))).map Prod.fst,
             (realAxisCandidates num den 0 (P.npRoots (realCrossingPoly num den))).map
                fun c => rreal c.2) := by
  unfold Generated.phaseCrossoverFrequencies realAxisCandidates
  simp only [not_true_eq_false, if_false, if_true, generated_iwrealSel_eq, ok_bind', pure_bind',
    List.map_map, Function.comp_def, pure_eq_ok']
  simp

/-- `phase_crossover_frequencies`, discrete time with `dt > 0`: a non-proper system is rejected,
otherwise the model's `zRealAxisCandidates`, the frequencies being `angle(z)/dt`. -/
theorem generated_pcf_discrete (P : Prims K) (hc : CabsSpec P) (ha : AngleSpec P)
    (iw : (List K × List K) × (List K × List K)) (num den : List K) (dt : K) (hdt : 0 < dt)
    (heps : zEps P (zRealP2 num den) ≤ 1) :
    Generated.phaseCrossoverFrequencies P (respAt num den) true false iw num den dt
      = (zProper num den).bind fun _ => .ok
          ((zRealAxisCandidates num den (zEps P (zRealP2 num den))
              (P.npRoots (zRealCrossingPoly num den))).map (fun c => P.angle c.1 / dt),
           (zRealAxisCandidates num den (zEps P (zRealP2 num den))
              (P.npRoots (zRealCrossingPoly num den))).map fun c => rreal c.2) := by
  unfold Generated.phaseCrossoverFrequencies zRealAxisCandidates
  simp only [not_true_eq_false, if_false, Bool.false_eq_true, C12Gen.generated_zinvz_eq]
  unfold zProper
  by_cases h : num.length > den.length
  · simp only [h, if_true]; rfl
  · simp only [h, if_false, Except.map, ok_bind',
      generated_zrealSel_eq P hc ha num den dt 0 (ne_of_gt hdt) heps,
      zreal_epsw_zero P ha _ dt hdt heps, pure_bind', pure_eq_ok', List.map_map, Function.comp_def]
    rfl

end pcf
end CtrlVerif.C12GenSel
