/-
C18 — Response objects follow the documented shape and squeeze conventions.

Property theorems only (helper lemmas live in `Lemmas/Shape.lean`).  Arrays are
`NDArr α = (shape, flat row-major data)` over an arbitrary element type `α`, of arbitrary
shape; `a.get? idx` is the entry at a full multi-index, `a.WF` says that the data has as many
entries as the shape.  `Sq.resolve arg cfg` is the squeeze value in force (keyword/attribute
`arg`, package default `cfg`).  The rule table:

* squeeze `False`   — nothing is dropped (`time_squeeze_false`, `freq_squeeze_false`);
* squeeze `True`    — every length-one axis is dropped, nothing else changes
                      (`time_squeeze_true`, `freq_squeeze_true`, `values_squeeze`);
* squeeze unset     — SISO: output/input (and trace) axes dropped (`time_squeeze_none_siso*`,
                      `freq_squeeze_none_siso`), the state axis kept (`states_axis_kept*`);
                      not SISO: nothing dropped (`*_squeeze_none_mimo`);
* transpose         — time becomes the first axis (`transpose_time_first`);
* tuple unpacking   — `tuple_unpack*`, `freq_tuple_unpack`;
* values            — every processed entry is the raw entry at an explicit multi-index
                      (`values_*`), and processing commutes with any elementwise map
                      (`process_time_natural`, `process_freq_natural`);
* default routes    — argument, attribute and configuration default agree (`default_route_*`,
                      `return_x_route`, `freq_default_route`, `freqresp_data_config_independent`);
* names             — `name_index_same`, `name_pair_same`, `name_squeezed_whole`,
                      `unknown_name_raises`.
-/
import CtrlVerif.Lemmas.Shape

namespace CtrlVerif.C18

open CtrlVerif NDArr

variable {α β : Type}

/-! ## `_process_time_response` -/

/-- squeeze=False (by any route): every axis and every entry is kept. -/
theorem time_squeeze_false (a : NDArr α) (issiso : Bool) (arg cfg : Sq)
    (h : arg.resolve cfg = .false) : processTime a issiso false arg cfg = .ok a := by
  simp [processTime, h, squeezeTime, Except.bind]

example : processTime (⟨[1, 1, 2], [7, 8]⟩ : NDArr Nat) true false .none .false
    = .ok ⟨[1, 1, 2], [7, 8]⟩ := rfl

/-- squeeze=True: the result has exactly the axes of length ≠ 1, in order, and the same flat
data; in particular no axis of length one is left. -/
theorem time_squeeze_true (a : NDArr α) (issiso : Bool) (arg cfg : Sq)
    (h : arg.resolve cfg = .true) :
    ∃ r, processTime a issiso false arg cfg = .ok r ∧ r.shape = a.shape.filter (· ≠ 1) ∧
      r.data = a.data ∧ ∀ d ∈ r.shape, d ≠ 1 := by
  refine ⟨a.squeeze, by simp [processTime, h, squeezeTime, Except.bind], rfl, rfl, ?_⟩
  intro d hd
  simpa [NDArr.squeeze] using (List.mem_filter.mp hd).2

example : processTime (⟨[2, 1, 3], [1, 2, 3, 4, 5, 6]⟩ : NDArr Nat) false false .true .none
    = .ok ⟨[2, 3], [1, 2, 3, 4, 5, 6]⟩ := rfl

/-- squeeze unset, SISO, 3-D data `(1, 1, T)`: output and trace axes are dropped. -/
theorem time_squeeze_none_siso3 (a : NDArr α) (T : Nat) (arg cfg : Sq)
    (h : arg.resolve cfg = .none) (hs : a.shape = [1, 1, T]) (hw : a.WF) :
    processTime a true false arg cfg = .ok ⟨[T], a.data⟩ := by
  have h1 := index0_one hs hw
  have hw1 : (⟨[1, T], a.data⟩ : NDArr α).WF := by
    have : a.data.length = a.shape.prod := hw
    simp [NDArr.WF, this, hs]
  have h2 := index0_one (a := (⟨[1, T], a.data⟩ : NDArr α)) rfl hw1
  simp [processTime, h, squeezeTime, NDArr.ndim, hs, h1, h2, Except.bind]

example : processTime (⟨[1, 1, 3], [4, 5, 6]⟩ : NDArr Nat) true false .none .none
    = .ok ⟨[3], [4, 5, 6]⟩ := rfl

/-- squeeze unset, SISO, 2-D data `(1, T)`: the signal axis is dropped. -/
theorem time_squeeze_none_siso2 (a : NDArr α) (T : Nat) (arg cfg : Sq)
    (h : arg.resolve cfg = .none) (hs : a.shape = [1, T]) (hw : a.WF) :
    processTime a true false arg cfg = .ok ⟨[T], a.data⟩ := by
  have h1 := index0_one hs hw
  simp [processTime, h, squeezeTime, NDArr.ndim, hs, h1, Except.bind]

/-- squeeze unset, not SISO: nothing is dropped. -/
theorem time_squeeze_none_mimo (a : NDArr α) (arg cfg : Sq) (h : arg.resolve cfg = .none) :
    processTime a false false arg cfg = .ok a := by
  simp [processTime, h, squeezeTime, Except.bind]

/-- a configured value that is none of None/True/False raises. -/
theorem time_squeeze_other_raises (a : NDArr α) (issiso tr : Bool) (arg cfg : Sq)
    (h : arg.resolve cfg = .other) : processTime a issiso tr arg cfg = .error .badArg := by
  simp [processTime, h, squeezeTime, Except.bind]

example : processTime (⟨[1, 3], [4, 5, 6]⟩ : NDArr Nat) true false .none .other
    = .error .badArg := rfl

/-- transpose is applied after the squeeze rule, to its result. -/
theorem time_transpose_after_squeeze (a : NDArr α) (issiso : Bool) (arg cfg : Sq) :
    processTime a issiso true arg cfg =
      (processTime a issiso false arg cfg).bind NDArr.timeFirst :=
  processTime_untransposed a issiso arg cfg

/-- transpose moves time (the last axis) to the first place, keeps the order of the other axes,
and entry `(t, i…)` of the result is entry `(i…, t)` of the argument; it never fails on a
well-formed array. -/
theorem transpose_time_first (a : NDArr α) (pre : List Nat) (T : Nat)
    (hs : a.shape = pre ++ [T]) (hw : a.WF) :
    ∃ r, a.timeFirst = .ok r ∧ r.WF ∧ r.shape = T :: pre ∧
      ∀ (t : Nat) (is : List Nat) (j : Nat), t < T → flatIdx pre is = some j →
        r.get? (t :: is) = a.get? (is ++ [t]) := by
  obtain ⟨r, hr, hrw⟩ := timeFirst_ok hw
  refine ⟨r, hr, hrw, (timeFirst_spec hs hr).1, ?_⟩
  intro t is j ht hj
  exact get?_timeFirst hs hr t is ht hj

example : (⟨[2, 3], [1, 2, 3, 4, 5, 6]⟩ : NDArr Nat).timeFirst
    = .ok ⟨[3, 2], [1, 4, 2, 5, 3, 6]⟩ := by decide

/-- a 0-d or 1-D array is not changed by transpose. -/
theorem transpose_1d (a : NDArr α) (T : Nat) (hs : a.shape = [T]) (hw : a.WF) :
    a.timeFirst = .ok a := by
  obtain ⟨r, hr, hrw, hsh, hg⟩ := transpose_time_first a [] T (by simpa using hs) hw
  rw [hr]
  congr 1
  obtain ⟨_, hlen, hk⟩ := timeFirst_spec (pre := []) (by simpa using hs) hr
  cases r with
  | mk rs rd =>
    cases a with
    | mk as ad =>
      simp only at hsh hs hlen hk
      subst hsh hs
      congr 1
      apply List.ext_getElem?
      intro k
      have hal : ad.length = T := by simpa [NDArr.WF] using hw
      by_cases hkT : k < T
      · have := hk k (by simpa using hkT)
        simpa [Nat.mod_one] using this
      · simp only [List.prod_nil, mul_one] at hlen
        rw [List.getElem?_eq_none (by omega), List.getElem?_eq_none (by omega)]

/-! ## values: every processed entry is a raw entry at an explicit multi-index -/

/-- `np.squeeze`: entry `js` of the result is the raw entry at `js` with a `0` re-inserted at
every dropped axis. -/
theorem values_squeeze (a : NDArr α) (js : List Nat) (v : α) (h : a.squeeze.get? js = some v) :
    a.get? (expand a.shape js) = some v := get?_squeeze a js v h

example : expand [2, 1, 3, 1] [1, 2] = [1, 0, 2, 0] := rfl

/-- `a[0]`: entry `is` of the result is the raw entry `(0, is…)`. -/
theorem values_index0 (a r : NDArr α) (h : a.index0 = .ok r) (is : List Nat) :
    r.get? is = a.get? (0 :: is) := get?_index0 h is

/-- `x[:, 0, :]`: entry `(i, t)` of the result is the raw entry `(i, 0, t)`. -/
theorem values_drop_trace (a r : NDArr α) (n m T : Nat) (hs : a.shape = [n, m, T])
    (h : a.dropTrace = .ok r) (i t : Nat) (hi : i < n) (ht : t < T) :
    r.get? [i, t] = a.get? [i, 0, t] := get?_dropTrace hs h i t hi ht

/-- processing commutes with every elementwise function: where an entry ends up does not depend
on its value (so magnitude and phase follow the rule table of the complex data). -/
theorem process_time_natural (g : α → β) (a : NDArr α) (issiso tr : Bool) (arg cfg : Sq) :
    processTime (a.map g) issiso tr arg cfg =
      (processTime a issiso tr arg cfg).map (NDArr.map g) := processTime_map g a issiso tr arg cfg

theorem process_freq_natural (g : α → β) (issiso : Bool) (nd : Nat) (a : NDArr α) (arg cfg : Sq) :
    processFreq issiso nd (a.map g) arg cfg =
      (processFreq issiso nd a arg cfg).map (NDArr.map g) := processFreq_map g issiso nd a arg cfg

/-! ## TimeResponseData -/

/-- squeeze unset, SISO, one trace: `states` drops the trace axis and keeps the state axis;
entry `(i, t)` is the stored `x[i, 0, t]`. -/
theorem states_axis_kept (r : TRD α) (cfg : Cfg) (x : NDArr α) (n T : Nat)
    (hx : r.x = some x) (hs : x.shape = [n, 1, T]) (hw : x.WF) (hsiso : r.issiso = true)
    (htr : r.ntraces = 1) (hsq : r.squeeze.resolve cfg.sqTime = .none)
    (htp : r.transpose = false) :
    ∃ x', r.states cfg = .ok (some x') ∧ x'.shape = [n, T] ∧
      ∀ i t, i < n → t < T → x'.get? [i, t] = x.get? [i, 0, t] := by
  obtain ⟨x', hx', _, hsh⟩ := dropTrace_ok hs (by decide) hw
  refine ⟨x', ?_, hsh, fun i t hi ht => get?_dropTrace hs hx' i t hi ht⟩
  simp only [TRD.states, hx, hsq, hsiso, htr, NDArr.ndim, hs, htp, hx']
  have : Sq.resolve .none cfg.sqTime = .none := by
    unfold Sq.resolve at hsq ⊢
    split at hsq
    · simpa using hsq
    · rename_i hne; exact absurd hsq hne
  simp [processTime, this, squeezeTime, Except.bind, bind, pure, Except.pure]

/-- the same with transpose: shape `(T, n)`, entry `(t, i)` is the stored `x[i, 0, t]`. -/
theorem states_axis_kept_transposed (r : TRD α) (cfg : Cfg) (x : NDArr α) (n T : Nat)
    (hx : r.x = some x) (hs : x.shape = [n, 1, T]) (hw : x.WF) (hsiso : r.issiso = true)
    (htr : r.ntraces = 1) (hsq : r.squeeze.resolve cfg.sqTime = .none)
    (htp : r.transpose = true) :
    ∃ x', r.states cfg = .ok (some x') ∧ x'.shape = [T, n] ∧
      ∀ i t, i < n → t < T → x'.get? [t, i] = x.get? [i, 0, t] := by
  obtain ⟨x0, hx0, hw0, hsh0⟩ := dropTrace_ok hs (by decide) hw
  obtain ⟨x', hx', _, hsh', hg⟩ := transpose_time_first x0 [n] T (by simpa using hsh0) hw0
  refine ⟨x', ?_, hsh', ?_⟩
  · have : Sq.resolve .none cfg.sqTime = .none := by
      unfold Sq.resolve at hsq ⊢
      split at hsq
      · simpa using hsq
      · rename_i hne; exact absurd hsq hne
    simp only [TRD.states, hx, hsq, hsiso, htr, NDArr.ndim, hs, htp, hx0]
    simp [processTime, this, squeezeTime, Except.bind, bind, pure, Except.pure, hx']
  · intro i t hi ht
    have := hg t [i] i ht (by simp [flatIdx, hi])
    rw [this]
    exact get?_dropTrace hs hx0 i t hi ht

/-- squeeze=False (by any route) keeps the trace axis of the states. -/
theorem states_squeeze_false (r : TRD α) (cfg : Cfg) (x : NDArr α) (hx : r.x = some x)
    (hsq : r.squeeze.resolve cfg.sqTime = .false) (htp : r.transpose = false) :
    r.states cfg = .ok (some x) := by
  have h2 : (Sq.false).resolve cfg.sqTime = .false := rfl
  simp [TRD.states, hx, hsq, htp, processTime, h2, squeezeTime, Except.bind, bind, pure, Except.pure]

/-- no state data: `states` is `None` (and so is the legacy state). -/
theorem states_none (r : TRD α) (cfg : Cfg) (hx : r.x = none) :
    r.states cfg = .ok none ∧ r.legacyStates = .ok none := by
  simp [TRD.states, TRD.legacyStates, hx, pure, Except.pure]

/-- the squeeze value given as attribute (`response(squeeze=s)`) and the same value given as
package default act identically on outputs, states and inputs. -/
theorem default_route_time (r : TRD α) (s : Sq) (cfg : Cfg) (hc : cfg.sqTime = .none) :
    (r.call (some s) none none).outputs cfg
        = (r.call (some .none) none none).outputs { cfg with sqTime := s } ∧
    (r.call (some s) none none).states cfg
        = (r.call (some .none) none none).states { cfg with sqTime := s } ∧
    (r.call (some s) none none).inputs cfg
        = (r.call (some .none) none none).inputs { cfg with sqTime := s } := by
  have h1 : s.resolve cfg.sqTime = (Sq.none).resolve s := by
    cases s <;> simp [Sq.resolve, hc]
  have h3 : ∀ q : Sq, (s.resolve cfg.sqTime).resolve q = s.resolve cfg.sqTime ∨ s = .none := by
    intro q; cases s <;> simp [Sq.resolve, hc]
  refine ⟨?_, ?_, ?_⟩
  · simp only [TRD.outputs, TRD.call, Option.getD, processTime, h1]
    rfl
  · simp only [TRD.states, TRD.call, Option.getD, h1]
    cases r.x with
    | none => rfl
    | some x =>
      simp only [processTime]
      have : ((Sq.none).resolve s).resolve cfg.sqTime = ((Sq.none).resolve s).resolve s := by
        cases s <;> simp [Sq.resolve, hc]
      rw [this]
      rfl
  · simp only [TRD.inputs, TRD.call, Option.getD, processTime, h1]
    rfl

/-- tuple unpacking without `return_x`: `(time, outputs)`. -/
theorem tuple_unpack (r : TRD α) (cfg : Cfg) (y : NDArr α) (hrx : r.returnX = false)
    (hy : r.outputs cfg = .ok y) : r.iter cfg = .ok [some r.t, some y] ∧ r.len = 2 := by
  simp [TRD.iter, TRD.len, hrx, hy, TRD.time, bind, Except.bind, pure, Except.pure]

/-- tuple unpacking with `return_x`: `(time, outputs, states)` where the states are the legacy
ones, which do not depend on `squeeze`. -/
theorem tuple_unpack_states (r : TRD α) (cfg : Cfg) (y : NDArr α) (x : Option (NDArr α))
    (hrx : r.returnX = true) (hy : r.outputs cfg = .ok y) (hx : r.legacyStates = .ok x) :
    r.iter cfg = .ok [some r.t, some y, x] ∧ r.len = 3 ∧
      ∀ s, (r.call (some s) none none).legacyStates = .ok x := by
  refine ⟨?_, ?_, ?_⟩
  · simp [TRD.iter, hrx, hy, hx, TRD.time, bind, Except.bind, pure, Except.pure]
  · simp [TRD.len, hrx]
  · intro s; exact hx

/-- integer indexing agrees with tuple unpacking. -/
theorem getitem_agrees (r : TRD α) (cfg : Cfg) :
    r.getitem cfg 0 = .ok (some r.t) ∧ r.getitem cfg 1 = (r.outputs cfg).map some ∧
      r.getitem cfg 2 = r.legacyStates ∧ ∀ k, r.getitem cfg (k + 3) = .error .indexRange := by
  refine ⟨rfl, ?_, rfl, fun k => rfl⟩
  simp only [TRD.getitem, bind, Except.bind, pure, Except.pure, Except.map]

/-- `forced_response`: `return_x` not given and `forced_response.return_x = b` is the same as
`return_x=b`; the other response functions ignore that default. -/
theorem return_x_route (fn : TFn) (p m n T : Nat) (inp out : Option Nat) (u1d : Bool)
    (t y : NDArr α) (x u : Option (NDArr α)) (sq : Sq) (tr b : Bool) (cfg : Cfg) :
    (fn = .forced →
      timeResponse fn p m n T inp out u1d t y x u sq tr none { cfg with returnX := b }
        = timeResponse fn p m n T inp out u1d t y x u sq tr (some b) cfg) ∧
    (fn ≠ .forced →
      timeResponse fn p m n T inp out u1d t y x u sq tr none { cfg with returnX := b }
        = timeResponse fn p m n T inp out u1d t y x u sq tr (some false) cfg) := by
  constructor
  · intro h; subst h; simp [timeResponse]
  · intro h; simp [timeResponse, h]

/-! ## `_process_frequency_response`, FrequencyResponseData, `sys(x)` -/

theorem freq_squeeze_false (issiso : Bool) (nd : Nat) (out : NDArr α) (arg cfg : Sq)
    (hnd : 1 ≤ nd) (h : arg.resolve cfg = .false) :
    processFreq issiso nd out arg cfg = .ok out := by
  have : ¬ nd < 1 := by omega
  simp [processFreq, this, h, squeezeFreq, Except.bind]

theorem freq_squeeze_true (issiso : Bool) (nd : Nat) (out : NDArr α) (arg cfg : Sq)
    (hnd : 1 ≤ nd) (h : arg.resolve cfg = .true) :
    ∃ r, processFreq issiso nd out arg cfg = .ok r ∧ r.shape = out.shape.filter (· ≠ 1) ∧
      r.data = out.data ∧ ∀ d ∈ r.shape, d ≠ 1 := by
  have : ¬ nd < 1 := by omega
  refine ⟨out.squeeze, by simp [processFreq, this, h, squeezeFreq, Except.bind], rfl, rfl, ?_⟩
  intro d hd
  simpa [NDArr.squeeze] using (List.mem_filter.mp hd).2

/-- squeeze unset, SISO: the output and input axes are dropped, the frequency axis is kept. -/
theorem freq_squeeze_none_siso (nd N : Nat) (out : NDArr α) (arg cfg : Sq) (hnd : 1 ≤ nd)
    (h : arg.resolve cfg = .none) (hs : out.shape = [1, 1, N]) (hw : out.WF) :
    processFreq true nd out arg cfg = .ok ⟨[N], out.data⟩ := by
  have : ¬ nd < 1 := by omega
  have h1 := index0_one hs hw
  have hw1 : (⟨[1, N], out.data⟩ : NDArr α).WF := by
    have : out.data.length = out.shape.prod := hw
    simp [NDArr.WF, this, hs]
  have h2 := index0_one (a := (⟨[1, N], out.data⟩ : NDArr α)) rfl hw1
  simp [processFreq, this, h, squeezeFreq, h1, h2, Except.bind]

theorem freq_squeeze_none_mimo (nd : Nat) (out : NDArr α) (arg cfg : Sq) (hnd : 1 ≤ nd)
    (h : arg.resolve cfg = .none) : processFreq false nd out arg cfg = .ok out := by
  have : ¬ nd < 1 := by omega
  simp [processFreq, this, h, squeezeFreq, Except.bind]

/-- a scalar evaluation point: the frequency axis is dropped first, then the same rule applies
to the `(outputs, inputs)` array. -/
theorem freq_scalar_point (issiso : Bool) (p m : Nat) (out : NDArr α) (arg cfg : Sq)
    (hs : out.shape = [p, m, 1]) :
    processFreq issiso 0 out arg cfg = squeezeFreq ⟨[p, m], out.data⟩ issiso (arg.resolve cfg) := by
  simp [processFreq, NDArr.squeezeAxis, hs, Except.bind]

example : processFreq true 0 (⟨[1, 1, 1], [5]⟩ : NDArr Nat) .none .none = .ok ⟨[], [5]⟩ := rfl
example : processFreq false 0 (⟨[2, 1, 1], [5, 6]⟩ : NDArr Nat) .false .none
    = .ok ⟨[2, 1], [5, 6]⟩ := rfl

/-- tuple unpacking of a frequency response: `(magnitude, phase, omega)` resp.
`(omega, complex)`, all from the same processed array. -/
theorem freq_tuple_unpack (F : RespFRD α) (cfg : Cfg) (a : NDArr α) (h : F.processed cfg = .ok a) :
    (F.returnMagphase = true → F.iter cfg = .ok [.mag a, .phase a, .omega]) ∧
    (F.returnMagphase = false → F.iter cfg = .ok [.omega, .cplx a]) ∧
    F.magnitude cfg = .ok (.mag a) ∧ F.phase cfg = .ok (.phase a) ∧
    F.complex cfg = .ok (.cplx a) := by
  refine ⟨fun hm => ?_, fun hm => ?_, ?_, ?_, ?_⟩ <;>
    simp [RespFRD.iter, RespFRD.magnitude, RespFRD.phase, RespFRD.complex, h, *, bind, Except.bind, pure, Except.pure]

/-- attribute route = configuration route for frequency responses. -/
theorem freq_default_route (F : RespFRD α) (s : Sq) (hF : F.squeeze = .none) :
    (F.callCopy s none).processed { sqFreq := .none } = F.processed { sqFreq := s } := by
  cases s <;> simp [RespFRD.callCopy, RespFRD.processed, RespFRD.issiso, RespFRD.noutputs, RespFRD.ninputs, hF,
    processFreq, Sq.resolve] <;> rfl

/-- `sys.frequency_response`: the stored data (and the whole object) does not depend on the
configured squeeze default. -/
theorem freqresp_data_config_independent (p m N : Nat) (horner : NDArr α) (sq : Sq)
    (cfg cfg' : Cfg) : ltiFreqResp p m N horner sq cfg = ltiFreqResp p m N horner sq cfg' := by
  simp [ltiFreqResp, ltiCall, processFreq, Sq.resolve, squeezeFreq]

/-- `sys.frequency_response` of a `p × m` system on `N` frequencies stores the full
`(p, m, N)` array. -/
theorem freqresp_stores_full (p m N : Nat) (horner : NDArr α) (sq : Sq) (cfg : Cfg)
    (hs : horner.shape = [p, m, N]) (hsq : sq ≠ .other) :
    ltiFreqResp p m N horner sq cfg = .ok ⟨horner, N, sq, true⟩ := by
  cases horner with
  | mk sh d =>
    simp only at hs
    subst hs
    simp [ltiFreqResp, ltiCall, processFreq, Sq.resolve, squeezeFreq, RespFRD.init, NDArr.atleast1d,
      NDArr.ndim, bind, Except.bind, pure, Except.pure, hsq]

/-- a 2-D list of evaluation points is rejected. -/
theorem lti_call_2d_raises (p m a b : Nat) (rest : List Nat) (horner : NDArr α) (sq : Sq)
    (cfg : Cfg) : ltiCall p m (a :: b :: rest) horner sq cfg = .error .badArg := rfl

/-! ## NamedSignal -/

/-- a signal name selects what its position selects (data with at least two axes). -/
theorem name_index_same (ns : NamedSignal α) (l : List String) (s : String) (i : Nat)
    (hl : ns.signalLabels = some l) (hi : l.idxOf? s = some i) (hnd : 2 ≤ ns.arr.ndim) :
    ns.getitem (.name s) = ns.getitem (.int i) := by
  have : ¬ ns.arr.ndim < 2 := by omega
  simp [NamedSignal.getitem, NamedSignal.parseKey, NamedSignal.lookup, hl, hi, this, bind,
    Except.bind, pure, Except.pure]

/-- the same for an (output name, input name) pair on data with three axes. -/
theorem name_pair_same (ns : NamedSignal α) (l lt : List String) (s t : String) (i j : Nat)
    (hl : ns.signalLabels = some l) (hlt : ns.traceLabels = some lt)
    (hi : l.idxOf? s = some i) (hj : lt.idxOf? t = some j) (hnd : 3 ≤ ns.arr.ndim) :
    ns.getitem (.pair (.name s) (.name t)) = ns.getitem (.pair (.int i) (.int j)) := by
  have : ¬ ns.arr.ndim < 3 := by omega
  simp [NamedSignal.getitem, NamedSignal.parseKey, NamedSignal.parseElem, NamedSignal.lookup,
    NamedSignal.Key.isName, hl, hlt, hi, hj, this, bind, Except.bind, pure, Except.pure]

/-- on squeezed (0-d or 1-D) data a known name returns the whole signal. -/
theorem name_squeezed_whole (ns : NamedSignal α) (l : List String) (s : String) (i : Nat)
    (hl : ns.signalLabels = some l) (hi : l.idxOf? s = some i) (hnd : ns.arr.ndim < 2) :
    ns.getitem (.name s) = .ok ns.arr := by
  simp [NamedSignal.getitem, NamedSignal.parseKey, NamedSignal.lookup, hl, hi, hnd,
    NamedSignal.indexMany, bind, Except.bind, pure, Except.pure]

theorem unknown_name_raises (ns : NamedSignal α) (l : List String) (s : String)
    (hl : ns.signalLabels = some l) (hi : l.idxOf? s = none) :
    ns.getitem (.name s) = .error .unknownName := by
  simp [NamedSignal.getitem, NamedSignal.parseKey, NamedSignal.lookup, hl, hi, bind, Except.bind,
    throw, throwThe, MonadExceptOf.throw]

example : (⟨⟨[2, 3], [1, 2, 3, 4, 5, 6]⟩, some ["y0", "y1"], none⟩ : NamedSignal Nat).getitem
    (.name "y1") = .ok ⟨[3], [4, 5, 6]⟩ := by decide

end CtrlVerif.C18
