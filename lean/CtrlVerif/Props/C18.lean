/-
C18 — Response objects follow the documented shape and squeeze conventions.

Property theorems only (helper lemmas live in `Lemmas/Shape.lean`).  Arrays are
`NDArr α = (shape, flat row-major data)` over an arbitrary element type `α`, of arbitrary
shape; `a.get? idx` is the entry at a full multi-index, `a.WF` says that the data has as many
entries as the shape.  `Sq.resolve arg cfg` is the squeeze value in force (keyword/attribute
`arg`, package default `cfg`).  The rule table:

* squeeze `False`   — nothing is dropped (`time_squeeze_false`, `freq_squeeze_false`);
* squeeze `True`    — every length-one axis is dropped, nothing else changes
                      (`time_squeeze_true`, `freq_squeeze_true`, `values_squeeze`);
* squeeze unset     — SISO: output/input (and trace) axes dropped (`time_squeeze_none_siso*`,
                      `freq_squeeze_none_siso`), the state axis kept (`states_axis_kept*`);
                      not SISO: nothing dropped (`*_squeeze_none_mimo`);
* transpose         — time becomes the first axis (`transpose_time_first`);
* tuple unpacking   — `tuple_unpack*`, `freq_tuple_unpack`;
* values            — every processed entry is the raw entry at an explicit multi-index
                      (`values_*`), and processing commutes with any elementwise map
                      (`process_time_natural`, `process_freq_natural`);
* default routes    — argument, attribute and configuration default agree (`default_route_*`,
                      `return_x_route`, `freq_default_route`, `freqresp_data_config_independent`);
* constructor       — its keywords are the attributes `response(...)` replaces
                      (`ctor_keyword_is_call`, `ctor_squeeze_other_raises`);
* names             — `name_index_same`, `name_pair_same`, `name_squeezed_whole`,
                      `unknown_name_raises`;
* lists of systems  — the call with a list/tuple of systems is, element by element, the
                      single-system call with the same keywords (`list_call_elementwise`,
                      `list_call_raises`, `list_call_squeeze_forwarded`, `freq_list_call_elementwise`);
* histories         — on one response object, every read reports the setting in force at that
                      read, whatever was read before (`history_read_stateless`,
                      `history_compose`, `history_reads_erasable`, `history_read_reports_current`,
                      `history_read_independent_of_reads`, `history_copy_leaves_original`,
                      `time_history_routes_agree`, `freq_history_routes_agree`).
-/
import CtrlVerif.Lemmas.Shape
import CtrlVerif.Lemmas.History
import CtrlVerif.Lemmas.C18Eval

namespace CtrlVerif.C18

open CtrlVerif NDArr

variable {α β : Type}

/-! ## `_process_time_response` -/

/-- squeeze=False (by any route): every axis and every entry is kept. -/
theorem time_squeeze_false (a : NDArr α) (issiso : Bool) (arg cfg : Sq)
    (h : arg.resolve cfg = .false) : processTime a issiso false arg cfg = .ok a := by
  simp [processTime, h, squeezeTime, Except.bind]

example : processTime (⟨[1, 1, 2], [7, 8]⟩ : NDArr Nat) true false .none .false
    = .ok ⟨[1, 1, 2], [7, 8]⟩ := rfl

/-- squeeze=True: the result has exactly the axes of length ≠ 1, in order, and the same flat
data; in particular no axis of length one is left. -/
theorem time_squeeze_true (a : NDArr α) (issiso : Bool) (arg cfg : Sq)
    (h : arg.resolve cfg = .true) :
    ∃ r, processTime a issiso false arg cfg = .ok r ∧ r.shape = a.shape.filter (· ≠ 1) ∧
      r.data = a.data ∧ ∀ d ∈ r.shape, d ≠ 1 := by
  refine ⟨a.squeeze, by simp [processTime, h, squeezeTime, Except.bind], rfl, rfl, ?_⟩
  intro d hd
  simpa [NDArr.squeeze] using (List.mem_filter.mp hd).2

example : processTime (⟨[2, 1, 3], [1, 2, 3, 4, 5, 6]⟩ : NDArr Nat) false false .true .none
    = .ok ⟨[2, 3], [1, 2, 3, 4, 5, 6]⟩ := rfl

/-- squeeze unset, SISO, 3-D data `(1, 1, T)`: output and trace axes are dropped. -/
theorem time_squeeze_none_siso3 (a : NDArr α) (T : Nat) (arg cfg : Sq)
    (h : arg.resolve cfg = .none) (hs : a.shape = [1, 1, T]) (hw : a.WF) :
    processTime a true false arg cfg = .ok ⟨[T], a.data⟩ := by
  have h1 := index0_one hs hw
  have hw1 : (⟨[1, T], a.data⟩ : NDArr α).WF := by
    have : a.data.length = a.shape.prod := hw
    simp [NDArr.WF, this, hs]
  have h2 := index0_one (a := (⟨[1, T], a.data⟩ : NDArr α)) rfl hw1
  simp [processTime, h, squeezeTime, NDArr.ndim, hs, h1, h2, Except.bind]

example : processTime (⟨[1, 1, 3], [4, 5, 6]⟩ : NDArr Nat) true false .none .none
    = .ok ⟨[3], [4, 5, 6]⟩ := rfl

/-- squeeze unset, SISO, 2-D data `(1, T)`: the signal axis is dropped. -/
theorem time_squeeze_none_siso2 (a : NDArr α) (T : Nat) (arg cfg : Sq)
    (h : arg.resolve cfg = .none) (hs : a.shape = [1, T]) (hw : a.WF) :
    processTime a true false arg cfg = .ok ⟨[T], a.data⟩ := by
  have h1 := index0_one hs hw
  simp [processTime, h, squeezeTime, NDArr.ndim, hs, h1, Except.bind]

/-- squeeze unset, not SISO: nothing is dropped. -/
theorem time_squeeze_none_mimo (a : NDArr α) (arg cfg : Sq) (h : arg.resolve cfg = .none) :
    processTime a false false arg cfg = .ok a := by
  simp [processTime, h, squeezeTime, Except.bind]

/-- a configured value that is none of None/True/False raises. -/
theorem time_squeeze_other_raises (a : NDArr α) (issiso tr : Bool) (arg cfg : Sq)
    (h : arg.resolve cfg = .other) : processTime a issiso tr arg cfg = .error .badArg := by
  simp [processTime, h, squeezeTime, Except.bind]

example : processTime (⟨[1, 3], [4, 5, 6]⟩ : NDArr Nat) true false .none .other
    = .error .badArg := rfl

/-- transpose is applied after the squeeze rule, to its result. -/
theorem time_transpose_after_squeeze (a : NDArr α) (issiso : Bool) (arg cfg : Sq) :
    processTime a issiso true arg cfg =
      (processTime a issiso false arg cfg).bind NDArr.timeFirst :=
  processTime_untransposed a issiso arg cfg

/-- transpose moves time (the last axis) to the first place, keeps the order of the other axes,
and entry `(t, i…)` of the result is entry `(i…, t)` of the argument; it never fails on a
well-formed array. -/
theorem transpose_time_first (a : NDArr α) (pre : List Nat) (T : Nat)
    (hs : a.shape = pre ++ [T]) (hw : a.WF) :
    ∃ r, a.timeFirst = .ok r ∧ r.WF ∧ r.shape = T :: pre ∧
      ∀ (t : Nat) (is : List Nat) (j : Nat), t < T → flatIdx pre is = some j →
        r.get? (t :: is) = a.get? (is ++ [t]) := by
  obtain ⟨r, hr, hrw⟩ := timeFirst_ok hw
  refine ⟨r, hr, hrw, (timeFirst_spec hs hr).1, ?_⟩
  intro t is j ht hj
  exact get?_timeFirst hs hr t is ht hj

example : (⟨[2, 3], [1, 2, 3, 4, 5, 6]⟩ : NDArr Nat).timeFirst
    = .ok ⟨[3, 2], [1, 4, 2, 5, 3, 6]⟩ := by decide

/-- a 0-d or 1-D array is not changed by transpose. -/
theorem transpose_1d (a : NDArr α) (T : Nat) (hs : a.shape = [T]) (hw : a.WF) :
    a.timeFirst = .ok a := by
  obtain ⟨r, hr, hrw, hsh, hg⟩ := transpose_time_first a [] T (by simpa using hs) hw
  rw [hr]
  congr 1
  obtain ⟨_, hlen, hk⟩ := timeFirst_spec (pre := []) (by simpa using hs) hr
  cases r with
  | mk rs rd =>
    cases a with
    | mk as ad =>
      simp only at hsh hs hlen hk
      subst hsh hs
      congr 1
      apply List.ext_getElem?
      intro k
      have hal : ad.length = T := by simpa [NDArr.WF] using hw
      by_cases hkT : k < T
      · have := hk k (by simpa using hkT)
        simpa [Nat.mod_one] using this
      · simp only [List.prod_nil, mul_one] at hlen
        rw [List.getElem?_eq_none (by omega), List.getElem?_eq_none (by omega)]

/-! ## values: every processed entry is a raw entry at an explicit multi-index -/

/-- `np.squeeze`: entry `js` of the result is the raw entry at `js` with a `0` re-inserted at
every dropped axis. -/
theorem values_squeeze (a : NDArr α) (js : List Nat) (v : α) (h : a.squeeze.get? js = some v) :
    a.get? (expand a.shape js) = some v := get?_squeeze a js v h

example : expand [2, 1, 3, 1] [1, 2] = [1, 0, 2, 0] := rfl

/-- `a[0]`: entry `is` of the result is the raw entry `(0, is…)`. -/
theorem values_index0 (a r : NDArr α) (h : a.index0 = .ok r) (is : List Nat) :
    r.get? is = a.get? (0 :: is) := get?_index0 h is

/-- `x[:, 0, :]`: entry `(i, t)` of the result is the raw entry `(i, 0, t)`. -/
theorem values_drop_trace (a r : NDArr α) (n m T : Nat) (hs : a.shape = [n, m, T])
    (h : a.dropTrace = .ok r) (i t : Nat) (hi : i < n) (ht : t < T) :
    r.get? [i, t] = a.get? [i, 0, t] := get?_dropTrace hs h i t hi ht

/-- processing commutes with every elementwise function: where an entry ends up does not depend
on its value (so magnitude and phase follow the rule table of the complex data). -/
theorem process_time_natural (g : α → β) (a : NDArr α) (issiso tr : Bool) (arg cfg : Sq) :
    processTime (a.map g) issiso tr arg cfg =
      (processTime a issiso tr arg cfg).map (NDArr.map g) := processTime_map g a issiso tr arg cfg

theorem process_freq_natural (g : α → β) (issiso : Bool) (nd : Nat) (a : NDArr α) (arg cfg : Sq) :
    processFreq issiso nd (a.map g) arg cfg =
      (processFreq issiso nd a arg cfg).map (NDArr.map g) := processFreq_map g issiso nd a arg cfg

/-! ## TimeResponseData -/

/-- squeeze unset, SISO, one trace: `states` drops the trace axis and keeps the state axis;
entry `(i, t)` is the stored `x[i, 0, t]`. -/
theorem states_axis_kept (r : TRD α) (cfg : Cfg) (x : NDArr α) (n T : Nat)
    (hx : r.x = some x) (hs : x.shape = [n, 1, T]) (hw : x.WF) (hsiso : r.issiso = true)
    (htr : r.ntraces = 1) (hsq : r.squeeze.resolve cfg.sqTime = .none)
    (htp : r.transpose = false) :
    ∃ x', r.states cfg = .ok (some x') ∧ x'.shape = [n, T] ∧
      ∀ i t, i < n → t < T → x'.get? [i, t] = x.get? [i, 0, t] := by
  obtain ⟨x', hx', _, hsh⟩ := dropTrace_ok hs (by decide) hw
  refine ⟨x', ?_, hsh, fun i t hi ht => get?_dropTrace hs hx' i t hi ht⟩
  simp only [TRD.states, hx, hsq, hsiso, htr, NDArr.ndim, hs, htp, hx']
  have : Sq.resolve .none cfg.sqTime = .none := by
    unfold Sq.resolve at hsq ⊢
    split at hsq
    · simpa using hsq
    · rename_i hne; exact absurd hsq hne
  simp [processTime, this, squeezeTime, Except.bind, bind, pure, Except.pure]

/-- the same with transpose: shape `(T, n)`, entry `(t, i)` is the stored `x[i, 0, t]`. -/
theorem states_axis_kept_transposed (r : TRD α) (cfg : Cfg) (x : NDArr α) (n T : Nat)
    (hx : r.x = some x) (hs : x.shape = [n, 1, T]) (hw : x.WF) (hsiso : r.issiso = true)
    (htr : r.ntraces = 1) (hsq : r.squeeze.resolve cfg.sqTime = .none)
    (htp : r.transpose = true) :
    ∃ x', r.states cfg = .ok (some x') ∧ x'.shape = [T, n] ∧
      ∀ i t, i < n → t < T → x'.get? [t, i] = x.get? [i, 0, t] := by
  obtain ⟨x0, hx0, hw0, hsh0⟩ := dropTrace_ok hs (by decide) hw
  obtain ⟨x', hx', _, hsh', hg⟩ := transpose_time_first x0 [n] T (by simpa using hsh0) hw0
  refine ⟨x', ?_, hsh', ?_⟩
  · have : Sq.resolve .none cfg.sqTime = .none := by
      unfold Sq.resolve at hsq ⊢
      split at hsq
      · simpa using hsq
      · rename_i hne; exact absurd hsq hne
    simp only [TRD.states, hx, hsq, hsiso, htr, NDArr.ndim, hs, htp, hx0]
    simp [processTime, this, squeezeTime, Except.bind, bind, pure, Except.pure, hx']
  · intro i t hi ht
    have := hg t [i] i ht (by simp [flatIdx, hi])
    rw [this]
    exact get?_dropTrace hs hx0 i t hi ht

/-- squeeze=False (by any route) keeps the trace axis of the states. -/
theorem states_squeeze_false (r : TRD α) (cfg : Cfg) (x : NDArr α) (hx : r.x = some x)
    (hsq : r.squeeze.resolve cfg.sqTime = .false) (htp : r.transpose = false) :
    r.states cfg = .ok (some x) := by
  have h2 : (Sq.false).resolve cfg.sqTime = .false := rfl
  simp [TRD.states, hx, hsq, htp, processTime, h2, squeezeTime, Except.bind, bind, pure, Except.pure]

/-- no state data: `states` is `None` (and so is the legacy state). -/
theorem states_none (r : TRD α) (cfg : Cfg) (hx : r.x = none) :
    r.states cfg = .ok none ∧ r.legacyStates = .ok none := by
  simp [TRD.states, TRD.legacyStates, hx, pure, Except.pure]

/-- the squeeze value given as attribute (`response(squeeze=s)`) and the same value given as
package default act identically on outputs, states and inputs. -/
theorem default_route_time (r : TRD α) (s : Sq) (cfg : Cfg) (hc : cfg.sqTime = .none) :
    (r.call (some s) none none).outputs cfg
        = (r.call (some .none) none none).outputs { cfg with sqTime := s } ∧
    (r.call (some s) none none).states cfg
        = (r.call (some .none) none none).states { cfg with sqTime := s } ∧
    (r.call (some s) none none).inputs cfg
        = (r.call (some .none) none none).inputs { cfg with sqTime := s } := by
  have h1 : s.resolve cfg.sqTime = (Sq.none).resolve s := by
    cases s <;> simp [Sq.resolve, hc]
  have h3 : ∀ q : Sq, (s.resolve cfg.sqTime).resolve q = s.resolve cfg.sqTime ∨ s = .none := by
    intro q; cases s <;> simp [Sq.resolve, hc]
  refine ⟨?_, ?_, ?_⟩
  · simp only [TRD.outputs, TRD.call, Option.getD, processTime, h1]
    rfl
  · simp only [TRD.states, TRD.call, Option.getD, h1]
    cases r.x with
    | none => rfl
    | some x =>
      simp only [processTime]
      have : ((Sq.none).resolve s).resolve cfg.sqTime = ((Sq.none).resolve s).resolve s := by
        cases s <;> simp [Sq.resolve, hc]
      rw [this]
      rfl
  · simp only [TRD.inputs, TRD.call, Option.getD, processTime, h1]
    rfl

/-- tuple unpacking without `return_x`: `(time, outputs)`. -/
theorem tuple_unpack (r : TRD α) (cfg : Cfg) (y : NDArr α) (hrx : r.returnX = false)
    (hy : r.outputs cfg = .ok y) : r.iter cfg = .ok [some r.t, some y] ∧ r.len = 2 := by
  simp [TRD.iter, TRD.len, hrx, hy, TRD.time, bind, Except.bind, pure, Except.pure]

/-- tuple unpacking with `return_x`: `(time, outputs, states)` where the states are the legacy
ones, which do not depend on `squeeze`. -/
theorem tuple_unpack_states (r : TRD α) (cfg : Cfg) (y : NDArr α) (x : Option (NDArr α))
    (hrx : r.returnX = true) (hy : r.outputs cfg = .ok y) (hx : r.legacyStates = .ok x) :
    r.iter cfg = .ok [some r.t, some y, x] ∧ r.len = 3 ∧
      ∀ s, (r.call (some s) none none).legacyStates = .ok x := by
  refine ⟨?_, ?_, ?_⟩
  · simp [TRD.iter, hrx, hy, hx, TRD.time, bind, Except.bind, pure, Except.pure]
  · simp [TRD.len, hrx]
  · intro s; exact hx

/-- integer indexing agrees with tuple unpacking. -/
theorem getitem_agrees (r : TRD α) (cfg : Cfg) :
    r.getitem cfg 0 = .ok (some r.t) ∧ r.getitem cfg 1 = (r.outputs cfg).map some ∧
      r.getitem cfg 2 = r.legacyStates ∧ ∀ k, r.getitem cfg (k + 3) = .error .indexRange := by
  refine ⟨rfl, ?_, rfl, fun k => rfl⟩
  simp only [TRD.getitem, bind, Except.bind, pure, Except.pure, Except.map]

/-- `forced_response`: `return_x` not given and `forced_response.return_x = b` is the same as
`return_x=b`; the other response functions ignore that default. -/
theorem return_x_route (fn : TFn) (p m n T : Nat) (inp out : Option Nat) (u1d : Bool)
    (t y : NDArr α) (x u : Option (NDArr α)) (sq : Sq) (tr b : Bool) (cfg : Cfg) :
    (fn = .forced →
      timeResponse fn p m n T inp out u1d t y x u sq tr none { cfg with returnX := b }
        = timeResponse fn p m n T inp out u1d t y x u sq tr (some b) cfg) ∧
    (fn ≠ .forced →
      timeResponse fn p m n T inp out u1d t y x u sq tr none { cfg with returnX := b }
        = timeResponse fn p m n T inp out u1d t y x u sq tr (some false) cfg) := by
  constructor
  · intro h; subst h; simp [timeResponse]
  · intro h; simp [timeResponse, h]

/-! ## `_process_frequency_response`, FrequencyResponseData, `sys(x)` -/

theorem freq_squeeze_false (issiso : Bool) (nd : Nat) (out : NDArr α) (arg cfg : Sq)
    (hnd : 1 ≤ nd) (h : arg.resolve cfg = .false) :
    processFreq issiso nd out arg cfg = .ok out := by
  have : ¬ nd < 1 := by omega
  simp [processFreq, this, h, squeezeFreq, Except.bind]

theorem freq_squeeze_true (issiso : Bool) (nd : Nat) (out : NDArr α) (arg cfg : Sq)
    (hnd : 1 ≤ nd) (h : arg.resolve cfg = .true) :
    ∃ r, processFreq issiso nd out arg cfg = .ok r ∧ r.shape = out.shape.filter (· ≠ 1) ∧
      r.data = out.data ∧ ∀ d ∈ r.shape, d ≠ 1 := by
  have : ¬ nd < 1 := by omega
  refine ⟨out.squeeze, by simp [processFreq, this, h, squeezeFreq, Except.bind], rfl, rfl, ?_⟩
  intro d hd
  simpa [NDArr.squeeze] using (List.mem_filter.mp hd).2

/-- squeeze unset, SISO: the output and input axes are dropped, the frequency axis is kept. -/
theorem freq_squeeze_none_siso (nd N : Nat) (out : NDArr α) (arg cfg : Sq) (hnd : 1 ≤ nd)
    (h : arg.resolve cfg = .none) (hs : out.shape = [1, 1, N]) (hw : out.WF) :
    processFreq true nd out arg cfg = .ok ⟨[N], out.data⟩ := by
  have : ¬ nd < 1 := by omega
  have h1 := index0_one hs hw
  have hw1 : (⟨[1, N], out.data⟩ : NDArr α).WF := by
    have : out.data.length = out.shape.prod := hw
    simp [NDArr.WF, this, hs]
  have h2 := index0_one (a := (⟨[1, N], out.data⟩ : NDArr α)) rfl hw1
  simp [processFreq, this, h, squeezeFreq, h1, h2, Except.bind]

theorem freq_squeeze_none_mimo (nd : Nat) (out : NDArr α) (arg cfg : Sq) (hnd : 1 ≤ nd)
    (h : arg.resolve cfg = .none) : processFreq false nd out arg cfg = .ok out := by
  have : ¬ nd < 1 := by omega
  simp [processFreq, this, h, squeezeFreq, Except.bind]

/-- a scalar evaluation point: the frequency axis is dropped first, then the same rule applies
to the `(outputs, inputs)` array. -/
theorem freq_scalar_point (issiso : Bool) (p m : Nat) (out : NDArr α) (arg cfg : Sq)
    (hs : out.shape = [p, m, 1]) :
    processFreq issiso 0 out arg cfg = squeezeFreq ⟨[p, m], out.data⟩ issiso (arg.resolve cfg) := by
  simp [processFreq, NDArr.squeezeAxis, hs, Except.bind]

example : processFreq true 0 (⟨[1, 1, 1], [5]⟩ : NDArr Nat) .none .none = .ok ⟨[], [5]⟩ := rfl
example : processFreq false 0 (⟨[2, 1, 1], [5, 6]⟩ : NDArr Nat) .false .none
    = .ok ⟨[2, 1], [5, 6]⟩ := rfl

/-- tuple unpacking of a frequency response: `(magnitude, phase, omega)` resp.
`(omega, complex)`, all from the same processed array. -/
theorem freq_tuple_unpack (F : RespFRD α) (cfg : Cfg) (a : NDArr α) (h : F.processed cfg = .ok a) :
    (F.returnMagphase = true → F.iter cfg = .ok [.mag a, .phase a, .omega]) ∧
    (F.returnMagphase = false → F.iter cfg = .ok [.omega, .cplx a]) ∧
    F.magnitude cfg = .ok (.mag a) ∧ F.phase cfg = .ok (.phase a) ∧
    F.complex cfg = .ok (.cplx a) := by
  refine ⟨fun hm => ?_, fun hm => ?_, ?_, ?_, ?_⟩ <;>
    simp [RespFRD.iter, RespFRD.magnitude, RespFRD.phase, RespFRD.complex, h, *, bind, Except.bind, pure, Except.pure]

/-- attribute route = configuration route for frequency responses. -/
theorem freq_default_route (F : RespFRD α) (s : Sq) (hF : F.squeeze = .none) :
    (F.callCopy s none).processed { sqFreq := .none } = F.processed { sqFreq := s } := by
  cases s <;> simp [RespFRD.callCopy, RespFRD.processed, RespFRD.issiso, RespFRD.noutputs, RespFRD.ninputs, hF,
    processFreq, Sq.resolve] <;> rfl

/-- `sys.frequency_response`: the stored data (and the whole object) does not depend on the
configured squeeze default. -/
theorem freqresp_data_config_independent (p m N : Nat) (horner : NDArr α) (sq : Sq)
    (cfg cfg' : Cfg) : ltiFreqResp p m N horner sq cfg = ltiFreqResp p m N horner sq cfg' := by
  simp [ltiFreqResp, ltiCall, processFreq, Sq.resolve, squeezeFreq]

/-- `sys.frequency_response` of a `p × m` system on `N` frequencies stores the full
`(p, m, N)` array. -/
theorem freqresp_stores_full (p m N : Nat) (horner : NDArr α) (sq : Sq) (cfg : Cfg)
    (hs : horner.shape = [p, m, N]) (hsq : sq ≠ .other) :
    ltiFreqResp p m N horner sq cfg = .ok ⟨horner, N, sq, true⟩ := by
  cases horner with
  | mk sh d =>
    simp only at hs
    subst hs
    simp [ltiFreqResp, ltiCall, processFreq, Sq.resolve, squeezeFreq, RespFRD.init, NDArr.atleast1d,
      NDArr.ndim, bind, Except.bind, pure, Except.pure, hsq]

/-- a 2-D list of evaluation points is rejected. -/
theorem lti_call_2d_raises (p m a b : Nat) (rest : List Nat) (horner : NDArr α) (sq : Sq)
    (cfg : Cfg) : ltiCall p m (a :: b :: rest) horner sq cfg = .error .badArg := rfl

/-- the constructor keywords are the attributes `response(...)` replaces: a response built with
`squeeze=s', transpose=tr', return_x=rx'` is the one built with any other legal keywords and
then called with `(squeeze=s', transpose=tr', return_x=rx')`; the arrays and counts do not
depend on the keywords. -/
theorem ctor_keyword_is_call (time outputs : NDArr α) (states inputs : Option (NDArr α))
    (issiso : Option Bool) (tr rx tr' rx' : Bool) (sq sq' : Sq) (multi : Bool) (r : TRD α)
    (h : TRD.init time outputs states inputs issiso tr rx sq multi = .ok r) (hs : sq' ≠ .other) :
    TRD.init time outputs states inputs issiso tr' rx' sq' multi
      = .ok (r.call (some sq') (some tr') (some rx')) := by
  obtain ⟨c, hc, _, hr⟩ := TRD.init_ok_iff.mp h
  subst hr
  exact TRD.init_ok_iff.mpr ⟨c, hc, hs, rfl⟩

/-- a squeeze value that is none of `None`, `True`, `False` is rejected by the constructor. -/
theorem ctor_squeeze_other_raises (time outputs : NDArr α) (states inputs : Option (NDArr α))
    (issiso : Option Bool) (tr rx : Bool) (multi : Bool) :
    ∃ e, TRD.init time outputs states inputs issiso tr rx .other multi = .error e := by
  cases h : TRD.init time outputs states inputs issiso tr rx .other multi with
  | error e => exact ⟨e, rfl⟩
  | ok r =>
    obtain ⟨_, _, hne, _⟩ := TRD.init_ok_iff.mp h
    exact absurd rfl hne

example : (TRD.init (⟨[2], [8, 9]⟩ : NDArr Nat) ⟨[1, 2], [0, 1]⟩ none (some ⟨[1, 2], [4, 5]⟩)
    none true false .false false).map (fun r => (r.squeeze, r.transpose, r.noutputs))
    = .ok (.false, true, 1) := rfl

/-! ## lists of systems -/

/-- a time-response function called with a list of systems returns, at every position, what the
call for that system alone returns with the same `input`/`output` selection and the same
`squeeze`, `transpose`, `return_x` keywords (and as many responses as there are systems). -/
theorem list_call_elementwise (fn : TFn) (T : Nat) (inp out : Option Nat) (u1d : Bool)
    (t : NDArr α) (systems : List (SysRaw α)) (sq : Sq) (tr : Bool) (rx : Option Bool) (cfg : Cfg)
    (rs : List (TRD α))
    (h : timeResponseList fn T inp out u1d t systems sq tr rx cfg = .ok rs) :
    rs.length = systems.length ∧
    ∀ (i : Nat) (s : SysRaw α), systems[i]? = some s → ∃ r, rs[i]? = some r ∧
      timeResponse fn s.p s.m s.n T inp out u1d t s.y s.x s.u sq tr rx cfg = .ok r := by
  have hf := (listCall_ok_iff _ _ _).mp h
  exact ⟨forall₂_length hf, fun i s hs => forall₂_getElem? hf i s hs⟩

/-- conversely, when every single-system call succeeds the list call returns exactly these
results. -/
theorem list_call_of_single (fn : TFn) (T : Nat) (inp out : Option Nat) (u1d : Bool)
    (t : NDArr α) (systems : List (SysRaw α)) (sq : Sq) (tr : Bool) (rx : Option Bool) (cfg : Cfg)
    (single : SysRaw α → TRD α)
    (h : ∀ s ∈ systems,
      timeResponse fn s.p s.m s.n T inp out u1d t s.y s.x s.u sq tr rx cfg = .ok (single s)) :
    timeResponseList fn T inp out u1d t systems sq tr rx cfg = .ok (systems.map single) := by
  refine (listCall_ok_iff _ _ _).mpr ?_
  induction systems with
  | nil => exact .nil
  | cons s l ih =>
    exact .cons (h s (List.mem_cons_self ..)) (ih fun a ha => h a (List.mem_cons_of_mem _ ha))

/-- the list call raises exactly when the call for some system raises, with the error of the
first such system. -/
theorem list_call_raises (fn : TFn) (T : Nat) (inp out : Option Nat) (u1d : Bool)
    (t : NDArr α) (systems : List (SysRaw α)) (sq : Sq) (tr : Bool) (rx : Option Bool) (cfg : Cfg)
    (e : Err) :
    timeResponseList fn T inp out u1d t systems sq tr rx cfg = .error e ↔
      ∃ pre s post, systems = pre ++ s :: post ∧
        (∀ a ∈ pre, ∃ r, timeResponse fn a.p a.m a.n T inp out u1d t a.y a.x a.u sq tr rx cfg
          = .ok r) ∧
        timeResponse fn s.p s.m s.n T inp out u1d t s.y s.x s.u sq tr rx cfg = .error e :=
  listCall_error_iff _ _ _

/-- in particular the `squeeze` keyword reaches every response of the list: each one carries
the attribute `squeeze = sq` (and `transpose = tr`), so its outputs are processed with it. -/
theorem list_call_squeeze_forwarded (fn : TFn) (T : Nat) (inp out : Option Nat) (u1d : Bool)
    (t : NDArr α) (systems : List (SysRaw α)) (sq : Sq) (tr : Bool) (rx : Option Bool) (cfg : Cfg)
    (rs : List (TRD α))
    (h : timeResponseList fn T inp out u1d t systems sq tr rx cfg = .ok rs) :
    ∀ r ∈ rs, r.squeeze = sq ∧ r.transpose = tr ∧
      r.outputs cfg = processTime r.y r.issiso tr sq cfg.sqTime := by
  have hf := (listCall_ok_iff _ _ _).mp h
  intro r hr
  obtain ⟨i, hi⟩ := List.getElem?_of_mem hr
  obtain ⟨s, hs, hrs⟩ := forall₂_getElem?_right hf i r hi
  have hattr := timeResponse_attrs hrs
  exact ⟨hattr.1, hattr.2, by simp [TRD.outputs, hattr.1, hattr.2]⟩

example : ∃ r0 r1, timeResponseList (α := Nat) .impulse 2 none none false ⟨[2], [30, 31]⟩
    [⟨1, 1, 1, ⟨[1, 1, 2], [0, 1]⟩, some ⟨[1, 1, 2], [10, 11]⟩, some ⟨[1, 1, 2], [20, 21]⟩⟩,
     ⟨2, 1, 1, ⟨[2, 1, 2], [0, 1, 2, 3]⟩, some ⟨[1, 1, 2], [10, 11]⟩, some ⟨[1, 1, 2], [20, 21]⟩⟩]
    .false false none {} = .ok [r0, r1] ∧
    r0.outputs {} = .ok ⟨[1, 1, 2], [0, 1]⟩ ∧ r1.outputs {} = .ok ⟨[2, 1, 2], [0, 1, 2, 3]⟩ :=
  ⟨_, _, rfl, rfl, rfl⟩

/-- `ct.frequency_response([sys₁, …], omega, squeeze=…)`: element by element the single-system
frequency response with the same `squeeze`. -/
theorem freq_list_call_elementwise (N : Nat) (systems : List (SysHorner α)) (sq : Sq) (cfg : Cfg)
    (rs : List (RespFRD α)) (h : freqResponseList N systems sq cfg = .ok rs) :
    rs.length = systems.length ∧
    ∀ (i : Nat) (s : SysHorner α), systems[i]? = some s → ∃ F, rs[i]? = some F ∧
      ltiFreqResp s.p s.m N s.horner sq cfg = .ok F := by
  have hf := (listCall_ok_iff _ _ _).mp h
  exact ⟨forall₂_length hf, fun i s hs => forall₂_getElem? hf i s hs⟩

/-! ## histories on one response object

Generic in the class of objects (`ops`): `trdOps α` for `TimeResponseData`, `frdOps α` for
`FrequencyResponseData`. -/

section history

variable {Obj Obs Reading CU SU GU : Type} (ops : HistOps Obj Obs Reading CU SU GU)

/-- reading a property returns the observation of the object under the configuration in force,
and changes neither any object nor the configuration. -/
theorem history_read_stateless (s : HState Obj) (j : Nat) (o : Obs) (r : Obj)
    (h : s.objs[j]? = some r) :
    s.step ops (.read j o) = .ok (s, some (ops.observe r s.cfg o)) :=
  HState.step_read ops s j o r h

/-- histories compose. -/
theorem history_compose (s : HState Obj) (h₁ h₂ : List (HStep Obs CU SU GU)) :
    s.run ops (h₁ ++ h₂) =
      match s.run ops h₁ with
      | .error e => .error e
      | .ok (r₁, s₁) =>
        match s₁.run ops h₂ with
        | .error e => .error e
        | .ok (r₂, s₂) => .ok (r₁ ++ r₂, s₂) :=
  HState.run_append ops s h₁ h₂

/-- the objects and the configuration a history ends with are those of the history with every
read erased: reads leave no trace. -/
theorem history_reads_erasable (s sf : HState Obj) (h : List (HStep Obs CU SU GU))
    (rds : List Reading) (hr : s.run ops h = .ok (rds, sf)) :
    s.run ops (h.filter fun st => !st.isRead) = .ok ([], sf) :=
  HState.run_erase_reads ops s sf h rds hr

/-- after any history, a read of object `j` reports the observation of that object (as the
copies and assignments of the history left it) under the configuration the history left. -/
theorem history_read_reports_current (s sf : HState Obj) (h : List (HStep Obs CU SU GU))
    (rds : List Reading) (j : Nat) (o : Obs) (r : Obj)
    (hr : s.run ops h = .ok (rds, sf)) (hj : sf.objs[j]? = some r) :
    s.run ops (h ++ [.read j o]) = .ok (rds ++ [ops.observe r sf.cfg o], sf) := by
  rw [HState.run_append, hr]
  simp [HState.run_cons, HState.step, hj]

/-- two histories from the same state that differ only in their reads (which properties were
read, how often, in which order, between which changes) make a final read report the same
thing. -/
theorem history_read_independent_of_reads (s s₁ s₂ : HState Obj)
    (h₁ h₂ : List (HStep Obs CU SU GU)) (r₁ r₂ : List Reading) (j : Nat) (o : Obs)
    (hsame : (h₁.filter fun st => !st.isRead) = (h₂.filter fun st => !st.isRead))
    (hr₁ : s.run ops h₁ = .ok (r₁, s₁)) (hr₂ : s.run ops h₂ = .ok (r₂, s₂)) :
    s₁ = s₂ ∧ ∀ x, s.run ops (h₁ ++ [.read j o]) = .ok (r₁ ++ [x], s₁) →
      s.run ops (h₂ ++ [.read j o]) = .ok (r₂ ++ [x], s₂) := by
  have e1 := HState.run_erase_reads ops s s₁ h₁ r₁ hr₁
  have e2 := HState.run_erase_reads ops s s₂ h₂ r₂ hr₂
  rw [hsame, e2] at e1
  have hs : s₂ = s₁ := by
    injection e1 with e1
    injection e1
  subst hs
  refine ⟨rfl, fun x hx => ?_⟩
  rw [HState.run_append, hr₁] at hx
  rw [HState.run_append, hr₂]
  simp only [HState.run_cons, HState.step] at hx ⊢
  cases hj : s₂.objs[j]? with
  | none => rw [hj] at hx; cases hx
  | some r =>
    rw [hj] at hx
    simp only [HState.run_nil, Option.toList, List.append_nil] at hx ⊢
    injection hx with hx
    injection hx with hx _
    have := List.append_cancel_left hx
    rw [this]

/-- `objs[j](**kw)` adds the copy as a new object and leaves every existing object (in
particular `objs[j]`) as it was. -/
theorem history_copy_leaves_original (s : HState Obj) (j : Nat) (kw : CU) (r : Obj)
    (h : s.objs[j]? = some r) :
    ∃ s', s.step ops (.copy j kw) = .ok (s', none) ∧ s'.cfg = s.cfg ∧
      s'.objs[s.objs.length]? = some (ops.copy r kw) ∧
      ∀ k, k < s.objs.length → s'.objs[k]? = s.objs[k]? := by
  refine ⟨{ s with objs := s.objs ++ [ops.copy r kw] }, by simp [HState.step, h], rfl, by simp, ?_⟩
  intro k hk
  simp [List.getElem?_append_left hk]

end history

/-- the three routes by which a squeeze value `v` comes into force on a time response whose
attribute is unset — `response(squeeze=v)`, `response.squeeze = v`, and
`config.defaults['control.squeeze_time_response'] = v` — make `outputs`, `states`, `inputs`,
tuple unpacking, `len` and indexing report the same thing. -/
theorem time_history_routes_agree (r : TRD α) (v : Sq) (cfg : Cfg) (o : TObs)
    (hr : r.squeeze = .none) (hc : cfg.sqTime = .none) :
    ((trdOps α).copy r { squeeze := some v }).observe cfg o
        = ((trdOps α).set r (.squeeze v)).observe cfg o ∧
    ((trdOps α).set r (.squeeze v)).observe cfg o
        = r.observe ((trdOps α).config cfg v) o := by
  refine ⟨rfl, ?_⟩
  have hrr : r.call (some .none) none none = r := by
    cases r; simp_all [TRD.call]
  have key := default_route_time r v cfg hc
  rw [hrr] at key
  have hset : (trdOps α).set r (.squeeze v) = r.call (some v) none none := by
    simp [trdOps, TRD.setAttr, TRD.call]
  have hcfg : (trdOps α).config cfg v = { cfg with sqTime := v } := rfl
  rw [hset, hcfg]
  obtain ⟨k1, k2, k3⟩ := key
  have hlegacy : (r.call (some v) none none).legacyStates = r.legacyStates := rfl
  have hrx : (r.call (some v) none none).returnX = r.returnX := rfl
  cases o with
  | time => rfl
  | outputs => simp only [TRD.observe, k1]
  | states => simp only [TRD.observe, k2]
  | inputs => simp only [TRD.observe, k3]
  | iter => simp only [TRD.observe, TRD.iter, k1, hlegacy, hrx]; rfl
  | len => rfl
  | get i =>
    match i with
    | 0 => rfl
    | 1 => simp only [TRD.observe, TRD.getitem, k1]
    | 2 => rfl
    | _ + 3 => rfl

/-- the same for a frequency response: `F(squeeze=v)`, `F.squeeze = v` and
`config.defaults['control.squeeze_frequency_response'] = v` agree on magnitude, phase, complex,
tuple unpacking (and none touches the stored data). -/
theorem freq_history_routes_agree (F : RespFRD α) (v : Sq) (cfg : Cfg) (o : FObs)
    (hF : F.squeeze = .none) (hc : cfg.sqFreq = .none) :
    ((frdOps α).copy F { squeeze := v }).observe cfg o
        = ((frdOps α).set F (.squeeze v)).observe cfg o ∧
    ((frdOps α).set F (.squeeze v)).observe cfg o
        = F.observe ((frdOps α).config cfg v) o := by
  have hcopy : (frdOps α).copy F { squeeze := v } = (frdOps α).set F (.squeeze v) := by
    cases v <;> simp [frdOps, RespFRD.callCopy, RespFRD.setAttr, hF]
  refine ⟨by rw [hcopy], ?_⟩
  have hp : ((frdOps α).set F (.squeeze v)).processed cfg
      = F.processed ((frdOps α).config cfg v) := by
    cases v <;> simp [frdOps, RespFRD.setAttr, RespFRD.processed, RespFRD.issiso, RespFRD.noutputs,
      RespFRD.ninputs, Cfg.setSqFreq, hF, hc, processFreq, Sq.resolve] <;> rfl
  have hrm : ((frdOps α).set F (.squeeze v)).returnMagphase = F.returnMagphase := rfl
  cases o with
  | magnitude => simp only [RespFRD.observe, RespFRD.magnitude, hp]
  | phase => simp only [RespFRD.observe, RespFRD.phase, hp]
  | complex => simp only [RespFRD.observe, RespFRD.complex, hp]
  | iter => simp only [RespFRD.observe, RespFRD.iter, hp, hrm]
  | frdata => rfl

/-- non-vacuity: read `magnitude` (shape `(3)`), change the setting by each route, read again:
every read shows the setting in force — `(1,1,3)` after `F(squeeze=False)` on the copy, `(3)`
still on the original, `(1,1,3)` after the package default is set to `False`. -/
example :
    (HState.run (frdOps Nat) ⟨[⟨⟨[1, 1, 3], [5, 6, 7]⟩, 3, .none, true⟩], {}⟩
      [.read 0 .magnitude, .copy 0 { squeeze := .false }, .read 1 .magnitude, .read 0 .magnitude,
       .config .false, .read 0 .magnitude]).map
      (fun x => x.1.map fun
        | .item (.ok (.mag a)) => a.shape
        | _ => [])
    = .ok [[3], [1, 1, 3], [3], [1, 1, 3]] := rfl

example :
    (HState.run (trdOps Nat)
      ⟨[⟨⟨[2], [8, 9]⟩, ⟨[1, 1, 2], [0, 1]⟩, none, some ⟨[1, 1, 2], [4, 5]⟩, true, 1, 1, 0, 1,
         .none, false, false⟩], {}⟩
      [.read 0 .outputs, .set 0 (.squeeze .false), .read 0 .outputs, .set 0 (.squeeze .none),
       .config .true, .read 0 .outputs, .read 0 .len]).map
      (fun x => x.1.map fun
        | .arr (.ok (some a)) => a.shape
        | .nat n => [n]
        | _ => [])
    = .ok [[2], [1, 1, 2], [2], [2]] := rfl

/-! ## NamedSignal -/

/-- a signal name selects what its position selects (data with at least two axes). -/
theorem name_index_same (ns : NamedSignal α) (l : List String) (s : String) (i : Nat)
    (hl : ns.signalLabels = some l) (hi : l.idxOf? s = some i) (hnd : 2 ≤ ns.arr.ndim) :
    ns.getitem (.name s) = ns.getitem (.int i) := by
  have : ¬ ns.arr.ndim < 2 := by omega
  simp [NamedSignal.getitem, NamedSignal.parseKey, NamedSignal.lookup, hl, hi, this, bind,
    Except.bind, pure, Except.pure]

/-- the same for an (output name, input name) pair on data with three axes. -/
theorem name_pair_same (ns : NamedSignal α) (l lt : List String) (s t : String) (i j : Nat)
    (hl : ns.signalLabels = some l) (hlt : ns.traceLabels = some lt)
    (hi : l.idxOf? s = some i) (hj : lt.idxOf? t = some j) (hnd : 3 ≤ ns.arr.ndim) :
    ns.getitem (.pair (.name s) (.name t)) = ns.getitem (.pair (.int i) (.int j)) := by
  have : ¬ ns.arr.ndim < 3 := by omega
  simp [NamedSignal.getitem, NamedSignal.parseKey, NamedSignal.parseElem, NamedSignal.lookup,
    NamedSignal.Key.isName, hl, hlt, hi, hj, this, bind, Except.bind, pure, Except.pure]

/-- on squeezed (0-d or 1-D) data a known name returns the whole signal. -/
theorem name_squeezed_whole (ns : NamedSignal α) (l : List String) (s : String) (i : Nat)
    (hl : ns.signalLabels = some l) (hi : l.idxOf? s = some i) (hnd : ns.arr.ndim < 2) :
    ns.getitem (.name s) = .ok ns.arr := by
  simp [NamedSignal.getitem, NamedSignal.parseKey, NamedSignal.lookup, hl, hi, hnd,
    NamedSignal.indexMany, bind, Except.bind, pure, Except.pure]

theorem unknown_name_raises (ns : NamedSignal α) (l : List String) (s : String)
    (hl : ns.signalLabels = some l) (hi : l.idxOf? s = none) :
    ns.getitem (.name s) = .error .unknownName := by
  simp [NamedSignal.getitem, NamedSignal.parseKey, NamedSignal.lookup, hl, hi, bind, Except.bind,
    throw, throwThe, MonadExceptOf.throw]

example : (⟨⟨[2, 3], [1, 2, 3, 4, 5, 6]⟩, some ["y0", "y1"], none⟩ : NamedSignal Nat).getitem
    (.name "y1") = .ok ⟨[3], [4, 5, 6]⟩ := by decide

/-! ## `FrequencyResponseData.eval` / `F(x)` / `evalfr(F, x)` at requested points

`F.evalAt stored omega offAxis squeeze cfg` is the evaluation of a non-interpolating FRD whose
stored frequency list is `stored` (any list: unsorted, with duplicates) at the points `omega`
(an array of frequency values of any type `ω` with decidable equality; 0-d = scalar point). -/

section evalAt

variable {ω : Type} [DecidableEq ω]

/-- **the frequency axis follows the evaluation points**: if every requested frequency is stored,
the evaluation at a 1-D list of points `req` (any order, repeats allowed) with squeeze resolved to
`False` returns a well-formed `(p, m, len req)` array — one entry on the last axis per requested
point — and entry `(i, j, k)` is the stored entry `(i, j, q)` where `q` is the position of the
(first) occurrence of the `k`-th requested frequency in the stored list. -/
theorem eval_axis_follows_points (F : RespFRD α) (stored req : List ω) (p m : Nat) (arg : Sq)
    (cfg : Cfg) (hs : F.frdata.shape = [p, m, stored.length]) (hw : F.frdata.WF)
    (hreq : ∀ w ∈ req, w ∈ stored) (h : arg.resolve cfg.sqFreq = .false) :
    ∃ r, F.evalAt stored ⟨[req.length], req⟩ false arg cfg = .ok r ∧ r.WF ∧
      r.shape = [p, m, req.length] ∧
      ∀ (i j k : Nat) (hk : k < req.length), i < p → j < m →
        ∃ q, stored.idxOf? req[k] = some q ∧ r.get? [i, j, k] = F.frdata.get? [i, j, q] := by
  obtain ⟨ks, hks⟩ := RespFRD.lookupFreqs_ok_of_mem hreq
  have hlen := RespFRD.lookupFreqs_length hks
  obtain ⟨r, hr, hrw, hrs⟩ := selectLast_ok hs hw (RespFRD.lookupFreqs_lt hks)
  refine ⟨r, ?_, hrw, by rw [hrs, hlen], ?_⟩
  · have h1 : ¬ ((⟨[req.length], req⟩ : NDArr ω).ndim > 1) := by simp [NDArr.ndim]
    have h2 : ¬ ((⟨[req.length], req⟩ : NDArr ω).ndim < 1) := by simp [NDArr.ndim]
    simp [RespFRD.evalAt, h1, hks, hr, processFreq, h2, h, squeezeFreq, bind, Except.bind]
  · intro i j k hk hi hj
    have hk' : k < ks.length := by rw [hlen]; exact hk
    exact ⟨ks[k], RespFRD.lookupFreqs_getElem hks k hk, get?_selectLast hs hr i j k hi hj hk'⟩

/-- the squeeze rule is applied to the full `(p, m, len req)` array (resp. the full `(p, m)`
array for a scalar point): the evaluation under any squeeze setting is the evaluation with
`squeeze=False` followed by the squeeze stage of `_process_frequency_response`. -/
theorem eval_squeeze_rule (F : RespFRD α) (stored : List ω) (omega : NDArr ω) (off : Bool)
    (arg : Sq) (cfg : Cfg) :
    F.evalAt stored omega off arg cfg =
      (F.evalAt stored omega off .false cfg).bind
        fun full => squeezeFreq full F.issiso (arg.resolve cfg.sqFreq) := by
  unfold RespFRD.evalAt
  by_cases h1 : omega.ndim > 1
  · simp [h1, bind, Except.bind, throw, throwThe, MonadExceptOf.throw]
  · cases off
    · cases hl : RespFRD.lookupFreqs stored omega.data with
      | error e => simp [h1, hl, bind, Except.bind]
      | ok ks =>
        cases hsel : F.frdata.selectLast ks with
        | error e => simp [h1, hl, hsel, bind, Except.bind]
        | ok out =>
          simp only [h1, hl, hsel, bind, Except.bind, if_false, Bool.false_eq_true, processFreq,
            Sq.resolve]
          cases (if omega.ndim < 1 then out.squeezeAxis 2 else Except.ok out) with
          | error e => rfl
          | ok o => simp [squeezeFreq]
    · simp [h1, bind, Except.bind, throw, throwThe, MonadExceptOf.throw]

/-- the array evaluation is the scalar evaluation, point by point: under the hypotheses of
`eval_axis_follows_points`, the scalar evaluation at the `k`-th requested point returns the
`(p, m)` array whose entry `(i, j)` is entry `(i, j, k)` of the array evaluation. -/
theorem eval_point_is_scalar_eval (F : RespFRD α) (stored req : List ω) (p m : Nat)
    (cfg : Cfg) (hs : F.frdata.shape = [p, m, stored.length]) (hw : F.frdata.WF)
    (hreq : ∀ w ∈ req, w ∈ stored) (r : NDArr α)
    (hr : F.evalAt stored ⟨[req.length], req⟩ false .false cfg = .ok r)
    (k : Nat) (hk : k < req.length) :
    ∃ s, F.evalAt stored ⟨[], [req[k]]⟩ false .false cfg = .ok s ∧ s.shape = [p, m] ∧
      ∀ i j, i < p → j < m → s.get? [i, j] = r.get? [i, j, k] := by
  obtain ⟨r', hr', _, _, hent⟩ :=
    eval_axis_follows_points F stored req p m .false cfg hs hw hreq (by simp [Sq.resolve])
  rw [hr] at hr'
  injection hr' with hr'
  subst hr'
  have hmem : req[k] ∈ stored := hreq _ (List.getElem_mem hk)
  cases hq : stored.idxOf? req[k] with
  | none => exact absurd hmem (List.idxOf?_eq_none_iff.mp hq)
  | some q =>
    have hqlt : q < stored.length := (List.idxOf?_eq_some_iff.mp hq).1
    have hl : RespFRD.lookupFreqs stored [req[k]] = .ok [q] := by
      rw [RespFRD.lookupFreqs_cons, hq, RespFRD.lookupFreqs_nil]; rfl
    obtain ⟨o, ho, how, hos⟩ := selectLast_ok (ks := [q]) hs hw (by simpa using hqlt)
    have hos' : o.shape = [p, m, 1] := by simpa using hos
    have hsq : o.squeezeAxis 2 = .ok ⟨[p, m], o.data⟩ := by
      simp [NDArr.squeezeAxis, hos']
    refine ⟨⟨[p, m], o.data⟩, ?_, rfl, ?_⟩
    · simp [RespFRD.evalAt, NDArr.ndim, hl, ho, processFreq, hsq, squeezeFreq, Sq.resolve, bind,
        Except.bind]
    · intro i j hi hj
      obtain ⟨q', hq', he⟩ := hent i j k hk hi hj
      rw [hq] at hq'
      injection hq' with hq'
      subst hq'
      rw [he, (get?_squeezeAxis2 hos' hsq i j hi hj).2,
        get?_selectLast hs ho i j 0 hi hj (by simp)]
      simp

/-- a requested frequency that is not stored raises (scalar or 1-D points). -/
theorem eval_missing_raises (F : RespFRD α) (stored : List ω) (omega : NDArr ω) (arg : Sq)
    (cfg : Cfg) (hnd : omega.ndim ≤ 1) (h : ∃ w ∈ omega.data, w ∉ stored) :
    F.evalAt stored omega false arg cfg = .error .missing := by
  have h1 : ¬ omega.ndim > 1 := by omega
  simp [RespFRD.evalAt, h1, RespFRD.lookupFreqs_missing h, bind, Except.bind]

/-- a 2-D (or higher) array of points is rejected ("input list must be 1D"), and so is a point
that is not a real frequency. -/
theorem eval_bad_points_raise (F : RespFRD α) (stored : List ω) (omega : NDArr ω) (off : Bool)
    (arg : Sq) (cfg : Cfg) (h : omega.ndim > 1 ∨ off = true) :
    F.evalAt stored omega off arg cfg = .error .badArg := by
  unfold RespFRD.evalAt
  by_cases h1 : omega.ndim > 1
  · simp [h1, bind, Except.bind, throw, throwThe, MonadExceptOf.throw]
  · have : off = true := by rcases h with h | h; exact absurd h h1; exact h
    simp [h1, this, bind, Except.bind, throw, throwThe, MonadExceptOf.throw]

/-- evaluation at values = evaluation at the looked-up positions (`RespFRD.eval`). -/
theorem eval_values_eq_positions (F : RespFRD α) (stored : List ω) (omega : NDArr ω)
    (ks : List Nat) (arg : Sq) (cfg : Cfg) (hnd : omega.ndim ≤ 1)
    (hl : RespFRD.lookupFreqs stored omega.data = .ok ks) :
    F.evalAt stored omega false arg cfg = F.eval ks (decide (omega.ndim = 0)) arg cfg := by
  have h1 : ¬ omega.ndim > 1 := by omega
  rcases Nat.eq_zero_or_pos omega.ndim with h0 | h0
  · simp [RespFRD.evalAt, RespFRD.eval, h1, hl, h0, bind, Except.bind]
  · have h2 : omega.ndim = 1 := by omega
    simp [RespFRD.evalAt, RespFRD.eval, hl, h2, bind, Except.bind]

/-- in particular a repeated point is repeated on the frequency axis, and a permuted request
permutes the frequency axis: the look-up is pointwise (`List.map`), so it commutes with
concatenation. -/
theorem eval_lookup_append (stored req₁ req₂ : List ω) (ks₁ ks₂ : List Nat)
    (h₁ : RespFRD.lookupFreqs stored req₁ = .ok ks₁)
    (h₂ : RespFRD.lookupFreqs stored req₂ = .ok ks₂) :
    RespFRD.lookupFreqs stored (req₁ ++ req₂) = .ok (ks₁ ++ ks₂) := by
  rw [RespFRD.lookupFreqs_ok_iff] at *
  simp [h₁, h₂]

-- repeated and descending points; stored list [1, 10, 100], data 7 8 9
example : (⟨⟨[1, 1, 3], [7, 8, 9]⟩, 3, .none, false⟩ : RespFRD Nat).evalAt [1, 10, 100]
    ⟨[3], [10, 10, 1]⟩ false .false {} = .ok ⟨[1, 1, 3], [8, 8, 7]⟩ := by decide
example : (⟨⟨[1, 1, 3], [7, 8, 9]⟩, 3, .none, false⟩ : RespFRD Nat).evalAt [1, 10, 100]
    ⟨[3], [100, 10, 1]⟩ false .none {} = .ok ⟨[3], [9, 8, 7]⟩ := by decide
-- 2 x 1 system, four points for three stored frequencies
example : (⟨⟨[2, 1, 3], [1, 2, 3, 4, 5, 6]⟩, 3, .none, false⟩ : RespFRD Nat).evalAt [1, 10, 100]
    ⟨[4], [10, 1, 10, 1]⟩ false .none {} = .ok ⟨[2, 1, 4], [2, 1, 2, 1, 5, 4, 5, 4]⟩ := by decide
-- unsorted stored list with a duplicate: the first match
example : (⟨⟨[1, 1, 3], [7, 8, 9]⟩, 3, .none, false⟩ : RespFRD Nat).evalAt [5, 5, 2]
    ⟨[2], [2, 5]⟩ false .true {} = .ok ⟨[2], [9, 7]⟩ := by decide
-- scalar point, missing point, empty list of points
example : (⟨⟨[1, 1, 3], [7, 8, 9]⟩, 3, .none, false⟩ : RespFRD Nat).evalAt [1, 10, 100]
    ⟨[], [10]⟩ false .none {} = .ok ⟨[], [8]⟩ := by decide
example : (⟨⟨[1, 1, 3], [7, 8, 9]⟩, 3, .none, false⟩ : RespFRD Nat).evalAt [1, 10, 100]
    ⟨[2], [10, 3]⟩ false .none {} = .error .missing := by decide
example : (⟨⟨[2, 1, 3], [1, 2, 3, 4, 5, 6]⟩, 3, .none, false⟩ : RespFRD Nat).evalAt [1, 10, 100]
    ⟨[0], []⟩ false .none {} = .ok ⟨[2, 1, 0], []⟩ := by decide

end evalAt

end CtrlVerif.C18
