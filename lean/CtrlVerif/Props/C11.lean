/-
C11 — State-feedback and estimator synthesis achieve the stated specification.

Over an arbitrary field `K`; state dimension arbitrary (`Fin (N+1)` for Ackermann, arbitrary
finite index types elsewhere).  The Riccati routines `care` / `dare` (control/mateqn.py, property
C10; SciPy underneath) and `scipy.signal.place_poles` are *parameters* with recorded contracts
(`CareSpec`, `DareSpec`, `EigSpec`), never axioms.
-/
import CtrlVerif.Lemmas.StateFbk
import CtrlVerif.Lemmas.Index
import CtrlVerif.Model.StateFbkDyn
import Mathlib.LinearAlgebra.Matrix.Charpoly.Eigs
import Mathlib.Algebra.Polynomial.Roots

namespace CtrlVerif.C11

open CtrlVerif CtrlVerif.StateFbk Matrix Polynomial

variable {K : Type*} [Field K]

/-! ## `ctrb`, `obsv` -/

section Gram
variable {n m p : Type*} [Fintype n] [DecidableEq n]

/-- `ctrb(A, B, t)` is `[B, AB, …, A^{t-1}B]`: column `j` of block `k` is column `j` of `A^k B`. -/
theorem ctrb_apply (A : Matrix n n K) (B : Matrix n m K) (t : ℕ) (i : n) (k : Fin t) (j : m) :
    ctrb A B t i (k, j) = (A ^ (k : ℕ) * B) i j := by
  simp [ctrb, ctrbBlock_eq_pow]

/-- `obsv(A, C, t)` is `[C; CA; …; CA^{t-1}]`. -/
theorem obsv_apply (A : Matrix n n K) (C : Matrix p n K) (t : ℕ) (k : Fin t) (i : p) (j : n) :
    obsv A C t (k, i) j = (C * A ^ (k : ℕ)) i j := by
  simp [obsv, obsvBlock_eq_pow]

/-- duality: `obsv(A, C) = ctrb(Aᵀ, Cᵀ)ᵀ`. -/
theorem obsv_eq_ctrb_transpose (A : Matrix n n K) (C : Matrix p n K) (t : ℕ) :
    obsv A C t = (ctrb Aᵀ Cᵀ t)ᵀ := by
  ext ⟨k, i⟩ j
  rw [obsv_apply, Matrix.transpose_apply, ctrb_apply, ← Matrix.transpose_pow,
    ← Matrix.transpose_mul, Matrix.transpose_apply]

/-- the horizon is clipped to the number of states (`t is None or t > n` gives `n`). -/
theorem horizon_spec (nn : ℕ) : horizon nn none = nn ∧ ∀ t, horizon nn (some t) = min t nn := by
  refine ⟨rfl, fun t => ?_⟩
  simp only [horizon]
  split_ifs with h <;> omega

/-- what the controllability matrix is for: after `t` steps of `x⁺ = A x + B u` from `x = 0` with
inputs `u_{t-1-k}` in block `k`, the state is `ctrb · u`. -/
theorem ctrb_mulVec [Fintype m] (A : Matrix n n K) (B : Matrix n m K) (t : ℕ)
    (u : Fin t × m → K) :
    ctrb A B t *ᵥ u = ∑ k : Fin t, (A ^ (k : ℕ) * B) *ᵥ (fun j => u (k, j)) := by
  ext i
  simp only [Matrix.mulVec, dotProduct, Fintype.sum_prod_type, Finset.sum_apply]
  refine Finset.sum_congr rfl fun k _ => Finset.sum_congr rfl fun j _ => ?_
  rw [ctrb_apply]

end Gram

/-! ## `place_acker` -/

section Acker
variable {N : ℕ}

/-- `pmat` evaluates the requested polynomial at `A`. -/
theorem pmat_eq_aeval (A : Matrix (Fin N) (Fin N) K) (p : List K) :
    pmat A p = aeval A (toPoly p) := by
  induction p with
  | nil => simp [pmat]
  | cons a p ih =>
    rw [pmat, ih, toPoly_cons]
    simp [Algebra.smul_def]

variable (A : Matrix (Fin (N + 1)) (Fin (N + 1)) K) (b : Fin (N + 1) → K)

/-- the last row of the inverse controllability matrix. -/
def qrow : Fin (N + 1) → K := fun l => SS.invQ (ctrbVec A b) (Fin.last N) l

/-- `q = eₙᵀ ctrb⁻¹` has Markov parameters `q A^j b = δ_{j,n-1}` (`j < n`). -/
theorem acker_markov (hreach : (ctrbVec A b).det ≠ 0) (j : ℕ) (hj : j < N + 1) :
    (qrow A b ᵥ* A ^ j) ⬝ᵥ b = if j = N then 1 else 0 := by
  have h := congrFun (congrFun (invQ_mul (ctrbVec A b) hreach) (Fin.last N)) ⟨j, hj⟩
  rw [← Matrix.dotProduct_mulVec]
  have : qrow A b ⬝ᵥ (A ^ j *ᵥ b) = (SS.invQ (ctrbVec A b) * ctrbVec A b) (Fin.last N) ⟨j, hj⟩ := by
    simp only [Matrix.mul_apply, dotProduct, qrow]
    refine Finset.sum_congr rfl fun l _ => ?_
    rw [ctrbVec_apply]
  rw [this, h, Matrix.one_apply]
  simp [Fin.ext_iff, eq_comm]

/-- the gain is `q p(A)`. -/
theorem ackerGain_eq (p : List K) :
    ackerGain A b p = qrow A b ᵥ* aeval A (toPoly p) := by
  ext j
  simp [ackerGain, ackerGainOf, qrow, pmat_eq_aeval, Matrix.mul_apply, Matrix.vecMul, dotProduct]

/-- **Ackermann's formula places the characteristic polynomial.**  For a reachable single-input
pair `(A, b)` and a monic requested polynomial `p` of degree `n`, the gain
`K = [0 … 0 1] ctrb(A,b)⁻¹ p(A)` that `place_acker` computes gives
`charpoly (A - b K) = p` — the requested eigenvalues, with multiplicities. -/
theorem acker_charpoly (p : List K) (hreach : (ctrbVec A b).det ≠ 0)
    (hmonic : (toPoly p).Monic) (hdeg : (toPoly p).natDegree = N + 1) :
    (A - vecMulVec b (ackerGain A b p)).charpoly = toPoly p := by
  have h0 : ∀ j, j + 1 < N + 1 → (qrow A b ᵥ* A ^ j) ⬝ᵥ b = 0 := by
    intro j hj
    rw [acker_markov A b hreach j (by omega), if_neg (by omega)]
  have h1 : (qrow A b ᵥ* A ^ N) ⬝ᵥ b = 1 := by
    rw [acker_markov A b hreach N (by omega), if_pos rfl]
  apply charpoly_eq_of_cyclic _ (qrow A b) _ hmonic hdeg
  · rw [krylovRows_cl A b _ (qrow A b) h0]
    exact krylovRows_det_ne_zero A b (qrow A b) h0 h1
  · exact acker_annihilates A b _ (qrow A b) _ hmonic hdeg h0 h1 (ackerGain_eq A b p)

/-- the model's `place_acker` returns exactly when the pair is reachable and the polynomial has
`n + 1` coefficients, and then returns Ackermann's gain. -/
theorem placeAcker_ok_iff [DecidableEq K] (p : List K) (k : Fin (N + 1) → K) :
    placeAcker A b p = .ok k ↔
      (ctrbVec A b).det ≠ 0 ∧ p.length = N + 2 ∧ k = ackerGain A b p := by
  unfold placeAcker placeAckerOf
  split_ifs with h1 h2
  · simp [h1]
  · simp [h1, h2]
  · have h2' : p.length = N + 2 := not_not.mp h2
    simp only [Except.ok.injEq, ne_eq, h1, not_false_eq_true, h2', true_and]
    exact eq_comm

/-- an unreachable pair raises (`"System not reachable; pole placement invalid"`). -/
theorem acker_unreachable_raises [DecidableEq K] (p : List K) (h : (ctrbVec A b).det = 0) :
    placeAcker A b p = .error .illPosed := by
  simp [placeAcker, placeAckerOf, h]

/-- a requested polynomial of the wrong degree is rejected rather than answered with a gain that
cannot have the requested eigenvalues. -/
theorem acker_wrong_count_raises [DecidableEq K] (p : List K) (h : (ctrbVec A b).det ≠ 0)
    (hp : p.length ≠ N + 2) : placeAcker A b p = .error .badArg := by
  simp [placeAcker, placeAckerOf, h, hp]

/-- a coefficient list `1 :: r` denotes a monic polynomial of degree `|r|`. -/
theorem toPoly_one_cons (r : List K) :
    (toPoly (1 :: r)).Monic ∧ (toPoly (1 :: r)).natDegree = r.length := by
  have hlt := toPoly_degree_lt r
  rw [toPoly_cons, map_one, one_mul]
  exact ⟨monic_X_pow_add hlt, by
    rw [add_comm]; exact natDegree_add_eq_right_of_degree_lt (by rwa [degree_X_pow])
      |>.trans (natDegree_X_pow _)⟩

/-- `numpy.poly`: the coefficient list of `∏ (X - r)`. -/
theorem toPoly_polyFromRoots (roots : List K) :
    toPoly (polyFromRoots roots) = (roots.map fun r => X - C r).prod := by
  have gen : ∀ (l : List K) (a : List K),
      toPoly (l.foldl (fun a z => polymul a [1, -z]) a)
        = toPoly a * (l.map fun r => X - C r).prod := by
    intro l
    induction l with
    | nil => intro a; simp
    | cons z l ih =>
      intro a
      rw [List.foldl_cons, ih, toPoly_polymul, List.map_cons, List.prod_cons, mul_assoc]
      congr 2
      simp [toPoly_cons, sub_eq_add_neg]
  have := gen roots [1]
  simpa [polyFromRoots, toPoly_cons] using this

/-- **requested (real) poles.**  When `place_acker` returns for `n` requested poles in `K`, the
closed-loop characteristic polynomial is `∏ (X - λᵢ)`: the eigenvalues of `A - b K` are exactly
the requested ones, with multiplicities. -/
theorem acker_poles [DecidableEq K] (poles : List K) (hlen : poles.length = N + 1)
    (k : Fin (N + 1) → K) (hk : placeAcker A b (polyFromRoots poles) = .ok k) :
    (A - vecMulVec b k).charpoly = (poles.map fun r => X - C r).prod ∧
      (A - vecMulVec b k).charpoly.roots = (poles : Multiset K) := by
  obtain ⟨hreach, -, rfl⟩ := (placeAcker_ok_iff A b _ k).mp hk
  have hP := toPoly_polyFromRoots poles
  have hmonic : (toPoly (polyFromRoots poles)).Monic := by
    rw [hP]; exact listProd_monic poles
  have hdeg : (toPoly (polyFromRoots poles)).natDegree = N + 1 := by
    rw [hP, listProd_natDegree, hlen]
  have hc := acker_charpoly A b _ hreach hmonic hdeg
  refine ⟨hc.trans hP, ?_⟩
  rw [hc, hP, listProd_roots]

/-- eigenvalue form: `μ` is in the spectrum of the closed loop iff it is a root of the requested
polynomial. -/
theorem acker_eigenvalues (p : List K) (hreach : (ctrbVec A b).det ≠ 0)
    (hmonic : (toPoly p).Monic) (hdeg : (toPoly p).natDegree = N + 1) (μ : K) :
    μ ∈ spectrum K (A - vecMulVec b (ackerGain A b p)) ↔ (toPoly p).IsRoot μ := by
  rw [Matrix.mem_spectrum_iff_isRoot_charpoly, acker_charpoly A b p hreach hmonic hdeg]

/-- **complex requested poles.**  `L` is any field extension of `K` (ℂ over ℝ, ℚ(i) over ℚ).  If the
real polynomial `p = np.real(np.poly(poles))` is the polynomial with the requested roots (true
when the pole set is closed under conjugation — the contract of `numpy.poly`), then over `L` the
closed loop has exactly the requested eigenvalues with multiplicities. -/
theorem acker_complex_poles {L : Type*} [Field L] [Algebra K L] (p : List K) (poles : List L)
    (hreach : (ctrbVec A b).det ≠ 0) (hlen : poles.length = N + 1)
    (hp : (toPoly p).map (algebraMap K L) = (poles.map fun r => X - C r).prod) :
    ((A - vecMulVec b (ackerGain A b p)).map (algebraMap K L)).charpoly
        = (poles.map fun r => X - C r).prod ∧
      ((A - vecMulVec b (ackerGain A b p)).map (algebraMap K L)).charpoly.roots
        = (poles : Multiset L) := by
  have hinj : Function.Injective (algebraMap K L) := (algebraMap K L).injective
  have hmonic : (toPoly p).Monic := by
    have : ((toPoly p).map (algebraMap K L)).Monic := by
      rw [hp]; exact listProd_monic poles
    exact monic_of_injective hinj this
  have hdeg : (toPoly p).natDegree = N + 1 := by
    rw [← natDegree_map_eq_of_injective hinj, hp, listProd_natDegree, hlen]
  have hc := acker_charpoly A b p hreach hmonic hdeg
  have hc' : ((A - vecMulVec b (ackerGain A b p)).map (algebraMap K L)).charpoly
      = (poles.map fun r => X - C r).prod := by
    rw [Matrix.charpoly_map, hc, hp]
  refine ⟨hc', ?_⟩
  rw [hc', listProd_roots]

/-- **uniqueness** (why `place` must agree with `place_acker` on single-input pairs): any gain
that gives the closed loop the characteristic polynomial `p` is Ackermann's gain. -/
theorem acker_unique (p : List K) (hreach : (ctrbVec A b).det ≠ 0)
    (hmonic : (toPoly p).Monic) (hdeg : (toPoly p).natDegree = N + 1) (k : Fin (N + 1) → K)
    (hk : (A - vecMulVec b k).charpoly = toPoly p) : k = ackerGain A b p := by
  have h0 : ∀ j, j + 1 < N + 1 → (qrow A b ᵥ* A ^ j) ⬝ᵥ b = 0 := by
    intro j hj
    rw [acker_markov A b hreach j (by omega), if_neg (by omega)]
  have h1 : (qrow A b ᵥ* A ^ N) ⬝ᵥ b = 1 := by
    rw [acker_markov A b hreach N (by omega), if_pos rfl]
  have hz : qrow A b ᵥ* aeval (A - vecMulVec b k) (toPoly p) = 0 := by
    rw [← hk, aeval_self_charpoly, Matrix.vecMul_zero]
  rw [acker_identity A b k (qrow A b) _ hmonic hdeg h0 h1, sub_eq_zero] at hz
  rw [ackerGain_eq, hz]

end Acker

/-! ## `lqr`, `dlqr`, `lqe`, `dlqe`: plumbing around `care` / `dare` -/

section LQ
variable {n m q o g ε : Type*} [Fintype n] [DecidableEq n] [Fintype m] [DecidableEq m]
  [Fintype q] [DecidableEq q] [Fintype o] [DecidableEq o] [Fintype g]

/-- the cross weight actually used (`None` means zero). -/
def S0 (S : Option (Matrix n m K)) : Matrix n m K := S.getD 0

/-- recorded contract of `care` (control/mateqn.py → `scipy.linalg.solve_continuous_are`): whenever
it returns `(X, L, G)`, `X` solves the Riccati equation and `G = R⁻¹(BᵀX + Sᵀ)`. -/
structure CareSpec (ric : Riccati n m ε K) : Prop where
  riccati : ∀ A B Q R S X L G, ric A B Q R S = .ok (X, L, G) →
    Aᵀ * X + X * A - (X * B + S0 S) * G + Q = 0
  gain : ∀ A B Q R S X L G, ric A B Q R S = .ok (X, L, G) → R * G = Bᵀ * X + (S0 S)ᵀ

/-- recorded contract of `dare` (→ `scipy.linalg.solve_discrete_are`). -/
structure DareSpec (ric : Riccati n m ε K) : Prop where
  riccati : ∀ A B Q R S X L G, ric A B Q R S = .ok (X, L, G) →
    Aᵀ * X * A - X - (Aᵀ * X * B + S0 S) * G + Q = 0
  gain : ∀ A B Q R S X L G, ric A B Q R S = .ok (X, L, G) →
    (Bᵀ * X * B + R) * G = Bᵀ * X * A + (S0 S)ᵀ

/-- recorded contract of the eigenvalue output of `care`/`dare`: `L = eig(A - B G)`
(`eigs` stands for `numpy.linalg.eig`). -/
structure EigSpec (ric : Riccati n m ε K) (eigs : Matrix n n K → ε) : Prop where
  eig : ∀ A B Q R S X L G, ric A B Q R S = .ok (X, L, G) → L = eigs (A - B * G)

/-- `lqr`/`dlqr` return exactly the Riccati routine's `(G, X, L)` for the data they were given. -/
theorem lqr_consistent (ric : Riccati n m ε K) (A : Matrix n n K) (B : Matrix n m K)
    (Q : Matrix n n K) (R : Matrix m m K) (Nc : Option (Matrix n m K))
    (Kg : Matrix m n K) (S : Matrix n n K) (E : ε) :
    lqr ric A B Q R Nc = .ok (Kg, S, E) ↔ ric A B Q R Nc = .ok (S, E, Kg) := by
  unfold lqr
  cases h : ric A B Q R Nc with
  | error e => simp [Except.map]
  | ok r =>
    obtain ⟨X, L, G⟩ := r
    simp only [Except.map, Except.ok.injEq, Prod.mk.injEq]
    tauto

/-- with `integral_action = C` the routine is called on `[[A, 0], [C, J]]`, `[[B], [0]]`
(`J = 0` in `lqr`, `J = I` in `dlqr`) and the returned triple is its `(G, X, L)`. -/
theorem lqrInt_consistent (ric : Riccati (n ⊕ q) m ε K) (A : Matrix n n K) (B : Matrix n m K)
    (C : Matrix q n K) (J : Matrix q q K) (Q : Matrix (n ⊕ q) (n ⊕ q) K) (R : Matrix m m K)
    (Nc : Option (Matrix (n ⊕ q) m K)) (Kg : Matrix m (n ⊕ q) K) (S : Matrix (n ⊕ q) (n ⊕ q) K)
    (E : ε) :
    lqrInt ric A B C J Q R Nc = .ok (Kg, S, E) ↔
      ric (fromBlocks A 0 C J) (fromRows B 0) Q R Nc = .ok (S, E, Kg) :=
  lqr_consistent ric _ _ Q R Nc Kg S E

/-- `lqr`: the returned `(K, S)` satisfy the continuous Riccati equation with the given weights
(cross weight included) and `R K = Bᵀ S + Nᵀ`. -/
theorem lqr_riccati (ric : Riccati n m ε K) (hc : CareSpec ric) (A : Matrix n n K)
    (B : Matrix n m K) (Q : Matrix n n K) (R : Matrix m m K) (Nc : Option (Matrix n m K))
    (Kg : Matrix m n K) (S : Matrix n n K) (E : ε) (h : lqr ric A B Q R Nc = .ok (Kg, S, E)) :
    Aᵀ * S + S * A - (S * B + S0 Nc) * Kg + Q = 0 ∧ R * Kg = Bᵀ * S + (S0 Nc)ᵀ :=
  have h' := (lqr_consistent ric A B Q R Nc Kg S E).mp h
  ⟨hc.riccati _ _ _ _ _ _ _ _ h', hc.gain _ _ _ _ _ _ _ _ h'⟩

/-- `lqr` without cross weight: `S` certifies the closed loop through the Lyapunov equation
`(A - B K)ᵀ S + S (A - B K) + Q + Kᵀ R K = 0`. -/
theorem lqr_closed_loop_lyapunov (ric : Riccati n m ε K) (hc : CareSpec ric) (A : Matrix n n K)
    (B : Matrix n m K) (Q : Matrix n n K) (R : Matrix m m K)
    (Kg : Matrix m n K) (S : Matrix n n K) (E : ε) (h : lqr ric A B Q R none = .ok (Kg, S, E)) :
    (A - B * Kg)ᵀ * S + S * (A - B * Kg) + Q + Kgᵀ * R * Kg = 0 := by
  obtain ⟨h1, h2⟩ := lqr_riccati ric hc A B Q R none Kg S E h
  simp only [S0, Option.getD_none, add_zero, Matrix.transpose_zero] at h1 h2
  rw [Matrix.mul_assoc Kgᵀ, h2, ← h1]
  simp only [Matrix.transpose_sub, Matrix.transpose_mul, Matrix.sub_mul, Matrix.mul_sub,
    Matrix.mul_assoc]
  abel

/-- `dlqr`: the discrete Riccati equation and gain relation for the returned `(K, S)`. -/
theorem dlqr_riccati (ric : Riccati n m ε K) (hd : DareSpec ric) (A : Matrix n n K)
    (B : Matrix n m K) (Q : Matrix n n K) (R : Matrix m m K) (Nc : Option (Matrix n m K))
    (Kg : Matrix m n K) (S : Matrix n n K) (E : ε) (h : lqr ric A B Q R Nc = .ok (Kg, S, E)) :
    Aᵀ * S * A - S - (Aᵀ * S * B + S0 Nc) * Kg + Q = 0 ∧
      (Bᵀ * S * B + R) * Kg = Bᵀ * S * A + (S0 Nc)ᵀ :=
  have h' := (lqr_consistent ric A B Q R Nc Kg S E).mp h
  ⟨hd.riccati _ _ _ _ _ _ _ _ h', hd.gain _ _ _ _ _ _ _ _ h'⟩

/-- `dlqr` with zero cross weight (what `dlqr` passes when `N` is omitted): the discrete Lyapunov
equation `(A - B K)ᵀ S (A - B K) - S + Q + Kᵀ R K = 0` of the closed loop. -/
theorem dlqr_closed_loop_lyapunov (ric : Riccati n m ε K) (hd : DareSpec ric) (A : Matrix n n K)
    (B : Matrix n m K) (Q : Matrix n n K) (R : Matrix m m K)
    (Kg : Matrix m n K) (S : Matrix n n K) (E : ε)
    (h : lqr ric A B Q R (some 0) = .ok (Kg, S, E)) :
    (A - B * Kg)ᵀ * S * (A - B * Kg) - S + Q + Kgᵀ * R * Kg = 0 := by
  obtain ⟨h1, h2⟩ := dlqr_riccati ric hd A B Q R (some 0) Kg S E h
  simp only [S0, Option.getD_some, add_zero, Matrix.transpose_zero] at h1 h2
  have h3 : Kgᵀ * R * Kg = Kgᵀ * (Bᵀ * S * A) - Kgᵀ * (Bᵀ * S * B * Kg) := by
    rw [← h2]; simp only [Matrix.add_mul, Matrix.mul_add, Matrix.mul_assoc]; abel
  rw [h3, ← h1]
  simp only [Matrix.transpose_sub, Matrix.transpose_mul, Matrix.sub_mul, Matrix.mul_sub,
    Matrix.mul_assoc]
  abel

/-- `lqe`/`dlqe` solve the dual problem: `L = Gᵀ` of `care(Aᵀ, Cᵀ, G QN Gᵀ, RN)`. -/
theorem lqe_dual (ric : Riccati n o ε K) (A : Matrix n n K) (G : Matrix n g K) (C : Matrix o n K)
    (QN : Matrix g g K) (RN : Matrix o o K) (L : Matrix n o K) (P : Matrix n n K) (E : ε) :
    lqe ric A G C QN RN = .ok (L, P, E) ↔
      ∃ LT, ric Aᵀ Cᵀ (G * QN * Gᵀ) RN none = .ok (P, E, LT) ∧ L = LTᵀ := by
  unfold lqe
  cases h : ric Aᵀ Cᵀ (G * QN * Gᵀ) RN none with
  | error e => simp [Except.map]
  | ok r =>
    obtain ⟨X, Lc, Gc⟩ := r
    simp only [Except.map, Except.ok.injEq, Prod.mk.injEq]
    constructor
    · rintro ⟨rfl, rfl, rfl⟩; exact ⟨Gc, ⟨rfl, rfl, rfl⟩, rfl⟩
    · rintro ⟨LT, ⟨rfl, rfl, rfl⟩, rfl⟩; exact ⟨rfl, rfl, rfl⟩

/-- `lqe`: the filter Riccati equation `A P + P Aᵀ - P Cᵀ Lᵀ + G QN Gᵀ = 0` with `RN Lᵀ = C P`
(so `L = P Cᵀ RN⁻¹` for symmetric `P`, `RN`). -/
theorem lqe_riccati (ric : Riccati n o ε K) (hc : CareSpec ric) (A : Matrix n n K)
    (G : Matrix n g K) (C : Matrix o n K) (QN : Matrix g g K) (RN : Matrix o o K)
    (L : Matrix n o K) (P : Matrix n n K) (E : ε) (h : lqe ric A G C QN RN = .ok (L, P, E)) :
    A * P + P * Aᵀ - P * Cᵀ * Lᵀ + G * QN * Gᵀ = 0 ∧ RN * Lᵀ = C * P := by
  obtain ⟨LT, h', rfl⟩ := (lqe_dual ric A G C QN RN L P E).mp h
  have h1 := hc.riccati _ _ _ _ _ _ _ _ h'
  have h2 := hc.gain _ _ _ _ _ _ _ _ h'
  simp only [S0, Option.getD_none, add_zero, Matrix.transpose_zero, Matrix.transpose_transpose]
    at h1 h2
  exact ⟨by simpa using h1, by simpa using h2⟩

/-- `lqe`: the error dynamics `A - L C` satisfy the Lyapunov equation
`(A - L C) P + P (A - L C)ᵀ + G QN Gᵀ + L RN Lᵀ = 0`. -/
theorem lqe_error_lyapunov (ric : Riccati n o ε K) (hc : CareSpec ric) (A : Matrix n n K)
    (G : Matrix n g K) (C : Matrix o n K) (QN : Matrix g g K) (RN : Matrix o o K)
    (L : Matrix n o K) (P : Matrix n n K) (E : ε) (h : lqe ric A G C QN RN = .ok (L, P, E)) :
    (A - L * C) * P + P * (A - L * C)ᵀ + G * QN * Gᵀ + L * RN * Lᵀ = 0 := by
  obtain ⟨h1, h2⟩ := lqe_riccati ric hc A G C QN RN L P E h
  rw [Matrix.mul_assoc L, h2, ← h1]
  simp only [Matrix.transpose_sub, Matrix.transpose_mul, Matrix.sub_mul, Matrix.mul_sub,
    Matrix.mul_assoc]
  abel

/-- the eigenvalues `lqe` returns are those of `Aᵀ - Cᵀ Lᵀ = (A - L C)ᵀ`. -/
theorem lqe_eigs (ric : Riccati n o ε K) (eigs : Matrix n n K → ε) (he : EigSpec ric eigs)
    (A : Matrix n n K) (G : Matrix n g K) (C : Matrix o n K) (QN : Matrix g g K)
    (RN : Matrix o o K) (L : Matrix n o K) (P : Matrix n n K) (E : ε)
    (h : lqe ric A G C QN RN = .ok (L, P, E)) : E = eigs (A - L * C)ᵀ := by
  obtain ⟨LT, h', rfl⟩ := (lqe_dual ric A G C QN RN L P E).mp h
  rw [he.eig _ _ _ _ _ _ _ _ h']
  simp [Matrix.transpose_sub, Matrix.transpose_mul]

end LQ

/-! ## dispatch on the timebase -/

/-- a (strictly) discrete-time system handed to `lqr`/`lqe` is routed to the discrete routine … -/
theorem dispatch_discrete (d : Dt) (h : isdtimeStrict d = true) :
    route .lqr (some d) = .ok .dare ∧ route .lqe (some d) = .ok .dare := by
  simp [route, h]

/-- … any other system, and the call with matrices, to the continuous one. -/
theorem dispatch_continuous (d : Dt) (h : isdtimeStrict d = false) :
    route .lqr (some d) = .ok .care ∧ route .lqe (some d) = .ok .care ∧
      route .lqr none = .ok .care ∧ route .lqe none = .ok .care := by
  simp [route, h]

/-- `dlqr`/`dlqe` refuse a continuous-time system and otherwise use the discrete routine. -/
theorem dispatch_dlqr (d : Dt) :
    (isctimeStrict d = true → route .dlqr (some d) = .error .badArg ∧
        route .dlqe (some d) = .error .badArg) ∧
      (isctimeStrict d = false → route .dlqr (some d) = .ok .dare ∧
        route .dlqe (some d) = .ok .dare) ∧
      route .dlqr none = .ok .dare ∧ route .dlqe none = .ok .dare := by
  refine ⟨fun h => ?_, fun h => ?_, rfl, rfl⟩ <;> simp [route, h]

/-- the integrator block follows the routine: `zeros` for `care`, `eye` for `dare`. -/
theorem intBlock_spec {F : Type} [Field F] [DecidableEq F] {q : Type*} [DecidableEq q] :
    intBlock (K := F) (q := q) .care = 0 ∧ intBlock (K := F) (q := q) .dare = 1 := ⟨rfl, rfl⟩

/-! ## `create_statefbk_iosystem` -/

section Ctrl
variable {n m q ε : Type*} [Fintype n] [DecidableEq n] [Fintype m] [DecidableEq m]
  [Fintype q] [DecidableEq q]

/-- the controller realises the documented law `u = u_d - K_p (x - x_d) - K_i z`,
`ż (or z⁺ - z) = C (x - x_d)`. -/
theorem ctrl_law (ct : Bool) (C : Matrix q n K) (Kg : Matrix m (n ⊕ q) K)
    (xd x : n → K) (ud : m → K) (z : q → K) :
    (ctrl ct C Kg).C *ᵥ z + (ctrl ct C Kg).D *ᵥ (Sum.elim (Sum.elim xd ud) x)
        = ud - Kp Kg *ᵥ (x - xd) - Ki Kg *ᵥ z ∧
      (ctrl ct C Kg).B *ᵥ (Sum.elim (Sum.elim xd ud) x) = C *ᵥ (x - xd) := by
  constructor
  · simp only [ctrl, Matrix.fromCols_mulVec_sumElim, Matrix.neg_mulVec, Matrix.one_mulVec,
      Matrix.mulVec_sub]
    abel
  · simp only [ctrl, Matrix.fromCols_mulVec_sumElim, Matrix.neg_mulVec, Matrix.zero_mulVec,
      Matrix.mulVec_sub]
    abel

/-- **closed-loop matrix.**  For a plant with full-state output the A-matrix of the closed loop
assembled from the controller is `A_aug - B_aug K`, with the same augmented matrices
(`J = 0` continuous, `J = I` discrete) that `lqr`/`dlqr` design for, in the same state order. -/
theorem closed_loop_matrix (ct : Bool) (A : Matrix n n K) (B : Matrix n m K) (C : Matrix q n K)
    (Kg : Matrix m (n ⊕ q) K) :
    (closedLoop A B (1 : Matrix n n K) (ctrl ct C Kg)).A
      = augA A C (if ct then 0 else 1) - augB B * Kg := by
  have hK : Kg = fromCols (Kp Kg) (Ki Kg) := by
    ext i (j | j) <;> simp [Kp, Ki]
  conv_rhs => rw [hK]
  simp only [closedLoop, ctrl, augA, augB, Matrix.fromRows_mul_fromCols, Matrix.zero_mul]
  rw [sub_eq_add_neg, Matrix.fromBlocks_neg, Matrix.fromBlocks_add]
  congr 1
  · ext i j; simp [Matrix.mul_apply, Matrix.neg_apply, sub_eq_add_neg]
  · ext i j; simp [Matrix.mul_apply]
  · ext i j; simp
  · split_ifs <;> simp

/-- hence the assembled closed loop has the characteristic polynomial of `A_aug - B_aug K`. -/
theorem closed_loop_charpoly (ct : Bool) (A : Matrix n n K) (B : Matrix n m K) (C : Matrix q n K)
    (Kg : Matrix m (n ⊕ q) K) :
    (closedLoop A B (1 : Matrix n n K) (ctrl ct C Kg)).A.charpoly
      = (augA A C (if ct then 0 else 1) - augB B * Kg).charpoly := by
  rw [closed_loop_matrix]

/-- **the returned eigenvalues are those of the assembled closed loop.**  If `lqr` (continuous
plant, `ct = true`, `J = 0`) or `dlqr` (discrete plant, `J = I`) with integral action returned
`(K, S, E)` and the Riccati routine reports `L = eig(A - B G)`, then `E` is `eig` of the A-matrix
of the closed loop `create_statefbk_iosystem` builds from `K`. -/
theorem statefbk_closed_loop_eigs (ric : Riccati (n ⊕ q) m ε K)
    (eigs : Matrix (n ⊕ q) (n ⊕ q) K → ε) (he : EigSpec ric eigs) (ct : Bool)
    (A : Matrix n n K) (B : Matrix n m K) (C : Matrix q n K) (Q : Matrix (n ⊕ q) (n ⊕ q) K)
    (R : Matrix m m K) (Nc : Option (Matrix (n ⊕ q) m K)) (Kg : Matrix m (n ⊕ q) K)
    (S : Matrix (n ⊕ q) (n ⊕ q) K) (E : ε)
    (h : lqrInt ric A B C (if ct then 0 else 1) Q R Nc = .ok (Kg, S, E)) :
    E = eigs (closedLoop A B (1 : Matrix n n K) (ctrl ct C Kg)).A := by
  rw [closed_loop_matrix]
  have h' := (lqrInt_consistent ric A B C _ Q R Nc Kg S E).mp h
  exact he.eig _ _ _ _ _ _ _ _ h'

end Ctrl

/-! ## `create_statefbk_iosystem` with `control_indices` (the controller drives a selection of the
plant inputs, in the order given) -/

section Wire
variable {l mt m : Type*} [Fintype mt] [DecidableEq mt]

/-- wiring by name picks the columns `B[:, control_indices]`, in the order of `control_indices`. -/
theorem mul_wire (B : Matrix l mt K) (sel : m → mt) :
    B * wire sel = B.submatrix id sel := by
  ext i j
  simp [wire, Matrix.mul_apply]

/-- the default selector (all inputs, in order) connects output `j` to input `j`. -/
theorem wire_id : wire (K := K) (id : mt → mt) = 1 := by
  ext i j
  simp [wire, Matrix.one_apply, eq_comm]

end Wire

section Sel
variable {n mt m r q ε : Type*} [Fintype n] [DecidableEq n] [Fintype mt] [DecidableEq mt]
  [Fintype m] [DecidableEq m] [Fintype q] [DecidableEq q]

/-- with the default selector the loop is the plain closed loop. -/
theorem closed_loop_sel_default {o : Type*} [Fintype o] (A : Matrix n n K) (B : Matrix n m K)
    (Cp : Matrix o n K) (rest : r → m) (c : SS q ((n ⊕ m) ⊕ o) m K) :
    (closedLoopSel A B Cp id rest c).A = (closedLoop A B Cp c).A ∧
      (closedLoopSel A B Cp id rest c).C = (closedLoop A B Cp c).C ∧
      (closedLoopSel A B Cp id rest c).B.submatrix id Sum.inl = (closedLoop A B Cp c).B ∧
      (closedLoopSel A B Cp id rest c).D.submatrix id Sum.inl = (closedLoop A B Cp c).D := by
  simp only [closedLoopSel, wire_id, Matrix.mul_one]
  refine ⟨trivial, trivial, ?_, ?_⟩ <;> ext i j <;> simp

/-- **closed-loop matrix with `control_indices`.**  The A-matrix of the closed loop is
`A_aug - B_aug[:, control_indices] K`: row `j` of the gain acts through plant input
`control_indices[j]`, i.e. the loop is the one a design for `B[:, control_indices]` (columns in
the given order) assumes. -/
theorem closed_loop_sel_matrix (ct : Bool) (A : Matrix n n K) (B : Matrix n mt K)
    (C : Matrix q n K) (sel : m → mt) (rest : r → mt) (Kg : Matrix m (n ⊕ q) K) :
    (closedLoopSel A B (1 : Matrix n n K) sel rest (ctrl ct C Kg)).A
      = augA A C (if ct then 0 else 1) - augB (B.submatrix id sel) * Kg := by
  simp only [closedLoopSel, mul_wire]
  exact closed_loop_matrix ct A (B.submatrix id sel) C Kg

theorem closed_loop_sel_charpoly (ct : Bool) (A : Matrix n n K) (B : Matrix n mt K)
    (C : Matrix q n K) (sel : m → mt) (rest : r → mt) (Kg : Matrix m (n ⊕ q) K) :
    (closedLoopSel A B (1 : Matrix n n K) sel rest (ctrl ct C Kg)).A.charpoly
      = (augA A C (if ct then 0 else 1) - augB (B.submatrix id sel) * Kg).charpoly := by
  rw [closed_loop_sel_matrix]

/-- **returned eigenvalues, with `control_indices`.**  If `lqr`/`dlqr` (with integral action) was
run on `(A, B[:, control_indices])` and returned `(K, S, E)`, then `E` is `eig` of the closed loop
that `create_statefbk_iosystem(sys, K, control_indices=…)` assembles on the full plant. -/
theorem statefbk_sel_closed_loop_eigs (ric : Riccati (n ⊕ q) m ε K)
    (eigs : Matrix (n ⊕ q) (n ⊕ q) K → ε) (he : EigSpec ric eigs) (ct : Bool)
    (A : Matrix n n K) (B : Matrix n mt K) (C : Matrix q n K) (sel : m → mt) (rest : r → mt)
    (Q : Matrix (n ⊕ q) (n ⊕ q) K) (R : Matrix m m K) (Nc : Option (Matrix (n ⊕ q) m K))
    (Kg : Matrix m (n ⊕ q) K) (S : Matrix (n ⊕ q) (n ⊕ q) K) (E : ε)
    (h : lqrInt ric A (B.submatrix id sel) C (if ct then 0 else 1) Q R Nc = .ok (Kg, S, E)) :
    E = eigs (closedLoopSel A B (1 : Matrix n n K) sel rest (ctrl ct C Kg)).A := by
  simp only [closedLoopSel, mul_wire]
  exact statefbk_closed_loop_eigs ric eigs he ct A (B.submatrix id sel) C Q R Nc Kg S E h

/-- listing the controlled inputs in another order together with the rows of the gain in that
order gives the same loop: only the pairing (row of `K`, plant input) matters. -/
theorem closed_loop_sel_perm (ct : Bool) (A : Matrix n n K) (B : Matrix n mt K)
    (C : Matrix q n K) (sel : m → mt) (rest : r → mt) (Kg : Matrix m (n ⊕ q) K) (σ : m ≃ m) :
    (closedLoopSel A B (1 : Matrix n n K) (sel ∘ σ) rest (ctrl ct C (Kg.submatrix σ id))).A
      = (closedLoopSel A B (1 : Matrix n n K) sel rest (ctrl ct C Kg)).A := by
  rw [closed_loop_sel_matrix, closed_loop_sel_matrix]
  congr 1
  have : augB (q := q) (B.submatrix id (sel ∘ σ)) = (augB (B.submatrix id sel)).submatrix id σ := by
    ext (i | i) j <;> simp [augB]
  rw [this, Matrix.submatrix_mul_equiv, Matrix.submatrix_id_id]

/-- the plant inputs the controller does not drive stay inputs of the closed loop: input `j` of
that group enters the plant states through column `rest j` of `B`, does not enter the integrators
and has no direct path to the outputs. -/
theorem closed_loop_sel_unused {o : Type*} [Fintype o] (A : Matrix n n K) (B : Matrix n mt K)
    (Cp : Matrix o n K) (sel : m → mt) (rest : r → mt) (c : SS q ((n ⊕ m) ⊕ o) m K) :
    (closedLoopSel A B Cp sel rest c).B.submatrix id Sum.inr
        = fromRows (B.submatrix id rest) 0 ∧
      (closedLoopSel A B Cp sel rest c).D.submatrix id Sum.inr = 0 := by
  constructor
  · ext (i | i) j <;> simp [closedLoopSel, mul_wire]
  · ext i j
    simp [closedLoopSel]

end Sel

/-! ### run-time layer: `_process_indices`, the names of the controller outputs -/

section SelDyn
open CtrlVerif.Index

/-- no `control_indices`: all plant inputs, in order. -/
theorem processIndices_default {len : Nat} (labels : Fin len → String) :
    processIndices labels none = .ok ((List.range len).map Int.ofNat) := rfl

/-- a list of integers that is not longer than the number of plant inputs is taken as given:
the same entries in the same order (no sorting, no de-duplication). -/
theorem processIndices_int_list {len : Nat} (labels : Fin len → String) (l : List Int)
    (h : l.length ≤ len) :
    processIndices labels (some (.list (l.map Item.idx))) = .ok l := by
  have hm : (l.map Item.idx).mapM (parseItem labels) = .ok l := by
    have := mapM_ok_of_forall (parseItem labels)
      (fun it => match it with | .idx i => i | .name _ => 0) (l.map Item.idx) (by
        intro a ha
        obtain ⟨i, _, rfl⟩ := List.mem_map.mp ha
        rfl)
    rw [this]
    simp [Function.comp_def]
  have hl : ¬ len < (l.map Item.idx).length := by simp; omega
  simp only [processIndices, hl, if_false, hm]

/-- a list longer than the number of plant inputs raises. -/
theorem processIndices_too_long {len : Nat} (labels : Fin len → String) (l : List Item)
    (h : len < l.length) : processIndices labels (some (.list l)) = .error .badArg := by
  simp [processIndices, h]

/-- a positive integer `k` selects the first `k` inputs, a slice what the slice selects. -/
theorem processIndices_int_slice {len : Nat} (labels : Fin len → String) :
    (∀ k : Int, 0 < k →
      processIndices labels (some (.idx k)) = .ok ((List.range k.toNat).map Int.ofNat)) ∧
    (∀ a b c, processIndices labels (some (.slice a b c))
      = (sliceList a b c len).map fun l => l.map fun i => (i.val : Int)) := by
  refine ⟨fun k hk => ?_, fun a b c => rfl⟩
  simp [processIndices, hk]

/-- **order and pairing are kept.**  When the names of the controller outputs can be formed,
output `k` of the controller is plant input `control_indices[k]` (negative entries counted from
the end), and no plant input is named twice. -/
theorem selChannels_spec {mt : Nat} (l : List Int) (s : List (Fin mt))
    (h : selChannels mt l = .ok s) :
    s.Nodup ∧ s.length = l.length ∧
      ∀ (k : Nat) (h1 : k < l.length) (h2 : k < s.length), normIdx mt l[k] = .ok s[k] := by
  unfold selChannels at h
  cases hm : l.mapM (normIdx mt) with
  | error e => simp [hm, bind, Except.bind] at h
  | ok s' =>
    simp only [hm, bind, Except.bind] at h
    split_ifs at h with hn
    · cases h
      obtain ⟨hlen, hk⟩ := mapM_ok_inv _ _ _ hm
      exact ⟨hn, hlen, hk⟩

/-- an entry outside `-mt … mt-1` raises (`IndexError`). -/
theorem selChannels_out_of_range {mt : Nat} (l : List Int)
    (h : ∃ i ∈ l, i < -(mt : Int) ∨ (mt : Int) ≤ i) :
    selChannels mt l = .error .indexRange := by
  have : l.mapM (normIdx mt) = .error .indexRange := by
    apply mapM_error_of_exists
    · intro a _ e he
      exact normIdx_error_kind he
    · obtain ⟨i, hi, hr⟩ := h
      exact ⟨i, hi, _, normIdx_err hr⟩
  simp [selChannels, this, bind, Except.bind]

/-- the free inputs are exactly the plant inputs that are not driven, each once. -/
theorem restChannels_spec {mt : Nat} (s : List (Fin mt)) :
    (restChannels mt s).Nodup ∧ ∀ i, i ∈ restChannels mt s ↔ i ∉ s := by
  refine ⟨(List.nodup_finRange mt).filter _, fun i => ?_⟩
  simp [restChannels]

example : processIndices (len := 3) (fun _ => "") (some (.list [.idx 2, .idx 0])) = .ok [2, 0] := by
  decide
example : processIndices (len := 3) ![("b" : String), "a", "thr"] (some (.list [.name "thr", .idx (-3)]))
    = .ok [2, -3] := by decide
example : processIndices (len := 3) (fun _ => "") (some (.idx (-2))) = .ok [1, 2] := by decide
example : processIndices (len := 3) (fun _ => "") (some (.idx 4)) = .ok [0, 1, 2, 3] := by decide
example : processIndices (len := 3) (fun _ => "") (some (.slice none none (some (-1)))) = .ok [2, 1, 0] := by
  decide
example : selChannels 3 [2, 0] = .ok [2, 0] := by decide
example : selChannels 3 [2, -3] = .ok [2, 0] := by decide
example : selChannels 3 [-1, 2] = .error .badArg := by decide
example : selChannels 3 [0, 1, 2, 3] = .error .indexRange :=
  selChannels_out_of_range _ ⟨3, by decide, by decide⟩
example : restChannels 3 [2, 0] = [1] := by decide

end SelDyn

section SelE2E
open CtrlVerif.Index
variable {F : Type} [Field F] [DecidableEq F]

theorem fbkSelBuild_ok (dt : Dt) (n mt : Nat) (A : Matrix (Fin n) (Fin n) F)
    (B : Matrix (Fin n) (Fin mt) F) (Cp : Matrix (Fin n) (Fin n) F) (Kg Cint : DM F)
    (s : List (Fin mt)) (R : FbkSel F n mt) (h : fbkSelBuild dt n mt A B Cp Kg Cint s = .ok R) :
    R.sel = s ∧ R.rest = restChannels mt R.sel ∧
      R.cl = closedLoopSel A B Cp R.sel.get R.rest.get R.ctrl := by
  unfold fbkSelBuild at h
  split_ifs at h with hc
  simp only [Except.ok.injEq] at h
  subst h
  exact ⟨rfl, rfl, rfl⟩

/-- **what the run-time layer returns.**  When `create_statefbk_iosystem(sys, K, integral_action,
control_indices)` returns, the driven inputs are `_process_indices` followed by the name lookup, the
gain has one row per selected input, the free inputs are the remaining ones, and the closed loop is
`closedLoopSel` of the returned controller for exactly these two lists (the object the theorems
`closed_loop_sel_*` are about). -/
theorem fbkSelDyn_ok (dt : Dt) (n mt : Nat) (A : Matrix (Fin n) (Fin n) F)
    (B : Matrix (Fin n) (Fin mt) F) (Cp : Matrix (Fin n) (Fin n) F) (labels : Fin mt → String)
    (ci : Option Sel) (Kg : DM F) (Ci : Option (DM F)) (R : FbkSel F n mt)
    (h : fbkSelDyn dt n mt A B Cp labels ci Kg Ci = .ok R) :
    (∃ raw, processIndices labels ci = .ok raw ∧ selChannels mt raw = .ok R.sel ∧
        Kg.r = raw.length) ∧
      R.rest = restChannels mt R.sel ∧
      R.cl = closedLoopSel A B Cp R.sel.get R.rest.get R.ctrl := by
  unfold fbkSelDyn at h
  cases hp : processIndices labels ci with
  | error e => simp [hp, bind, Except.bind] at h
  | ok raw =>
    cases hi : intAction n Ci with
    | error e => simp [hp, hi, bind, Except.bind] at h
    | ok Cint =>
      simp only [hp, hi, bind, Except.bind] at h
      split_ifs at h with hK
      cases hs : selChannels mt raw with
      | error e => simp [hs] at h
      | ok s =>
        simp only [hs] at h
        obtain ⟨h1, h2, h3⟩ := fbkSelBuild_ok _ _ _ _ _ _ _ _ _ _ h
        exact ⟨⟨raw, rfl, h1 ▸ hs, hK.1⟩, h2, h3⟩

/-- a selector that names a plant input twice, or an input that does not exist, raises. -/
theorem fbkSelDyn_bad_selector (dt : Dt) (n mt : Nat) (A : Matrix (Fin n) (Fin n) F)
    (B : Matrix (Fin n) (Fin mt) F) (Cp : Matrix (Fin n) (Fin n) F) (labels : Fin mt → String)
    (ci : Option Sel) (Kg : DM F) (Ci : Option (DM F)) (raw : List Int) (e : Err)
    (hp : processIndices labels ci = .ok raw) (hs : selChannels mt raw = .error e) :
    ∃ e', fbkSelDyn dt n mt A B Cp labels ci Kg Ci = .error e' := by
  unfold fbkSelDyn
  cases hi : intAction n Ci with
  | error e => exact ⟨e, by simp [hp, bind, Except.bind]⟩
  | ok Cint =>
    simp only [hp, bind, Except.bind]
    split_ifs
    · exact ⟨e, by simp [hs]⟩
    · exact ⟨_, rfl⟩

end SelE2E


/-! ## non-vacuity: concrete instances meeting the hypotheses -/

section Examples

/-- the double-integrator-like pair of the `place_acker` doctest. -/
def exA : Matrix (Fin 2) (Fin 2) ℚ := !![0, 1; -2, -3]
def exb : Fin 2 → ℚ := ![0, 1]

example : (exA - vecMulVec exb (ackerGain exA exb [1, 7, 10])).charpoly = toPoly [1, 7, 10] :=
  acker_charpoly exA exb _ (by decide +kernel) (toPoly_one_cons _).1 (toPoly_one_cons _).2
example : ackerGain exA exb [1, 7, 10] = ![8, 4] := by decide +kernel
example : ackerGain exA exb [1, 2, 5] = ![3, -1] := by decide +kernel      -- poles -1 ± 2i
example : ∀ μ : ℚ, μ ∈ spectrum ℚ (exA - vecMulVec exb (ackerGain exA exb [1, 7, 10])) ↔
    (toPoly [1, 7, 10]).IsRoot μ :=
  acker_eigenvalues exA exb _ (by decide +kernel) (toPoly_one_cons _).1 (toPoly_one_cons _).2
example : placeAcker exA ![0, 0] [1, 7, 10] = .error .illPosed :=
  acker_unreachable_raises exA _ _ (by decide +kernel)
example : placeAcker exA exb [1, 7, 10, 3] = .error .badArg :=
  acker_wrong_count_raises exA exb _ (by decide +kernel) (by decide)

/-- a Riccati routine that knows one scalar problem: `A = 0`, `B = Q = R = 1`, `X = G = 1`. -/
def exRic : Riccati Unit Unit Unit ℚ := fun A B Q R S =>
  if A = 0 ∧ B = 1 ∧ Q = 1 ∧ R = 1 ∧ S = none then .ok (1, (), 1) else .error .illPosed

/-- the contract `CareSpec` is satisfiable by a routine that does return. -/
theorem careSpec_nonvacuous : CareSpec exRic ∧ lqr exRic 0 1 1 1 none = .ok (1, 1, ()) := by
  refine ⟨?_, by simp [lqr, exRic, Except.map]⟩
  constructor <;>
  · intro A B Q R S X L G h
    simp only [exRic] at h
    split_ifs at h with hc
    obtain ⟨rfl, rfl, rfl, rfl, rfl⟩ := hc
    cases h
    simp [S0]

example : ((0 : Matrix Unit Unit ℚ) - 1 * 1)ᵀ * 1 + 1 * (0 - 1 * 1) + 1 + (1 : Matrix Unit Unit ℚ)ᵀ * 1 * 1
    = 0 :=
  lqr_closed_loop_lyapunov exRic careSpec_nonvacuous.1 0 1 1 1 1 1 () careSpec_nonvacuous.2

example : route .lqr (some (.disc (1 / 10))) = .ok .dare :=
  (dispatch_discrete _ (by decide +kernel)).1
example : route .lqr (some .dtrue) = .ok .dare := (dispatch_discrete _ (by decide)).1
example : route .lqr (some .none) = .ok .care := (dispatch_continuous _ (by decide)).1
example : route .dlqr (some .cont) = .error .badArg := ((dispatch_dlqr _).1 (by decide)).1

end Examples

/-! non-vacuity: the order of `control_indices` is significant -/
section SelExamples

def exA2 : Matrix (Fin 2) (Fin 2) ℚ := !![0, 1; 0, 0]
def exB2 : Matrix (Fin 2) (Fin 2) ℚ := !![1, 0; 0, 1]
def exK2 : Matrix (Fin 2) (Fin 2 ⊕ Fin 0) ℚ := Matrix.of fun i j =>
  match j with | .inl j => !![1, 2; 3, 4] i j | .inr j => j.elim0
def exC0 : Matrix (Fin 0) (Fin 2) ℚ := 0

/-- the same gain with `control_indices = [1, 0]` and `[0, 1]` gives different closed loops … -/
example : (closedLoopSel exA2 exB2 1 ![1, 0] Fin.elim0 (ctrl true exC0 exK2)).A
    ≠ (closedLoopSel exA2 exB2 1 ![0, 1] Fin.elim0 (ctrl true exC0 exK2)).A := by
  intro h
  have := congrFun (congrFun h (.inl 0)) (.inl 0)
  revert this
  simp only [closed_loop_sel_matrix]
  decide +kernel

/-- … and with the rows of the gain swapped as well, the same one. -/
example : (closedLoopSel exA2 exB2 1 (![0, 1] ∘ Equiv.swap 0 1) Fin.elim0
      (ctrl true exC0 (exK2.submatrix (Equiv.swap 0 1) id))).A
    = (closedLoopSel exA2 exB2 1 ![0, 1] Fin.elim0 (ctrl true exC0 exK2)).A :=
  closed_loop_sel_perm true exA2 exB2 exC0 ![0, 1] Fin.elim0 exK2 (Equiv.swap 0 1)

end SelExamples
end CtrlVerif.C11
