/-
The complex-root instance of the source-text tie of `TransferFunction.minreal` (C15).

The driver runs the model on Gaussian-rational roots with the test `Minreal.closeQI`, which
compares squares (`|z - p|² < t²`) because `abs` of a Gaussian rational is not rational.  Here the
test of the *source text* (`abs(z - p) < tol or 1000 * max(eps, abs(z) * sqrt_eps)`, translated in
`Generated/TFMinreal.lean`) is instantiated over the reals with `abs w = √(re² + im²)`,
`eps = 2⁻⁵²`, `sqrt_eps = 2⁻²⁶`, and proved equal to `closeQI` for every tolerance argument —
negative ones included (proving this exposed that the earlier `closeQI` accepted them).
-/
import CtrlVerif.Props.C15GenMinreal
import Mathlib.Analysis.Real.Sqrt

namespace CtrlVerif.C15GenMinreal

open PyMin Minreal

/-- the external functions over `ℚ(i)` with real magnitudes. -/
noncomputable def extQI (roots : List QI → List QI) : Ext QI ℝ :=
  ⟨roots, fun w => Real.sqrt ((normSqQI w : ℚ) : ℝ), ((eps : ℚ) : ℝ), id⟩

theorem normSqQI_nonneg (w : QI) : 0 ≤ normSqQI w := by
  unfold normSqQI; exact add_nonneg (mul_self_nonneg _) (mul_self_nonneg _)

theorem sq_max_of_nonneg {a b : ℝ} (ha : 0 ≤ a) (hb : 0 ≤ b) : (max a b) ^ 2 = max (a ^ 2) (b ^ 2) := by
  rcases le_total a b with h | h
  · rw [max_eq_right h, max_eq_right (pow_le_pow_left₀ ha h 2)]
  · rw [max_eq_left h, max_eq_left (pow_le_pow_left₀ hb h 2)]

/-- the default tolerance, squared, is the model's `tolSqOf none`. -/
theorem default_tol_sq (z : QI) :
    (1000 * max ((eps : ℚ) : ℝ) (Real.sqrt ((normSqQI z : ℚ) : ℝ) * ((sqrtEps : ℚ) : ℝ))) ^ 2
      = ((tolSqOf none z : ℚ) : ℝ) := by
  have hn : (0 : ℝ) ≤ ((normSqQI z : ℚ) : ℝ) := by exact_mod_cast normSqQI_nonneg z
  have he : (0 : ℝ) ≤ ((eps : ℚ) : ℝ) := by unfold eps; positivity
  have hs : (0 : ℝ) ≤ ((sqrtEps : ℚ) : ℝ) := by unfold sqrtEps; positivity
  have hss : (((sqrtEps : ℚ) : ℝ)) ^ 2 = ((eps : ℚ) : ℝ) := by unfold sqrtEps eps; norm_num
  rw [mul_pow, sq_max_of_nonneg he (mul_nonneg (Real.sqrt_nonneg _) hs), mul_pow, Real.sq_sqrt hn, hss]
  unfold tolSqOf
  push_cast
  ring_nf

theorem default_tol_pos (z : QI) :
    (0 : ℝ) < 1000 * max ((eps : ℚ) : ℝ) (Real.sqrt ((normSqQI z : ℚ) : ℝ) * ((sqrtEps : ℚ) : ℝ)) := by
  have he : (0 : ℝ) < ((eps : ℚ) : ℝ) := by unfold eps; positivity
  exact mul_pos (by norm_num) (lt_max_of_lt_left he)

/-- **the tolerance test of the source text, over the reals, is the model's `closeQI`** — for
`tol = None`, `0`, positive and negative numbers. -/
theorem generated_close_eq_closeQI (roots : List QI → List QI) (tol : Option ℚ) (z p : QI) :
    closeOf (extQI roots) (tol.map fun t => ((t : ℚ) : ℝ)) ((sqrtEps : ℚ) : ℝ) z p = closeQI tol z p := by
  have hdef : decide (Real.sqrt ((normSqQI (z - p) : ℚ) : ℝ)
        < 1000 * max ((eps : ℚ) : ℝ) (Real.sqrt ((normSqQI z : ℚ) : ℝ) * ((sqrtEps : ℚ) : ℝ)))
      = decide (normSqQI (z - p) < tolSqOf none z) := by
    rw [decide_eq_decide, Real.sqrt_lt' (default_tol_pos z), default_tol_sq]
    exact_mod_cast Iff.rfl
  unfold closeOf closeQI extQI tolOr
  cases tol with
  | none => simpa using hdef
  | some t =>
    by_cases h0 : t = 0
    · subst h0
      have : tolSqOf (some 0) z = tolSqOf none z := by simp [tolSqOf]
      simpa [this] using hdef
    · have h0' : ((t : ℚ) : ℝ) ≠ 0 := by exact_mod_cast h0
      by_cases hneg : t < 0
      · have hneg' : ((t : ℚ) : ℝ) < 0 := by exact_mod_cast hneg
        have : ¬ Real.sqrt ((normSqQI (z - p) : ℚ) : ℝ) < ((t : ℚ) : ℝ) :=
          not_lt.mpr (le_trans hneg'.le (Real.sqrt_nonneg _))
        simp [h0', hneg, this]
      · have hpos : (0 : ℝ) < ((t : ℚ) : ℝ) := by
          have : 0 < t := lt_of_le_of_ne (not_lt.mp hneg) (Ne.symm h0)
          exact_mod_cast this
        have hsq : tolSqOf (some t) z = t * t := by simp [tolSqOf, h0]
        simp only [Option.map_some, h0', if_false, hneg, hsq]
        rw [decide_eq_decide, Real.sqrt_lt' hpos]
        rw [show ((t : ℚ) : ℝ) ^ 2 = ((t * t : ℚ) : ℝ) by push_cast; ring]
        exact_mod_cast Iff.rfl

end CtrlVerif.C15GenMinreal
