/-
C07, source-text tie (tag py2lean-iolist), part 5: `inplist` / `outlist` OMITTED — the statements
`inplist_none, outlist_none = False, False; if inplist is None: inplist = inputs or []; inplist_none = True` (idem
`outlist`) of `interconnect()` (control/nlsys.py) as regenerated from the tree under check
(`Generated/ICLNone.lean`), and — composed with the `inplist` group — the REWRITING OF `inputs`: when `inplist`
is omitted the names in `inputs` are the entries, and the new `inputs` is a list of as many labels as the model
counts (`IC.finalCount true added _ = some added`).
-/
import CtrlVerif.Generated.ICLNone
import CtrlVerif.Props.C07GenXListModel

namespace CtrlVerif.C07GenXL

open CtrlVerif.IC CtrlVerif.PyIC CtrlVerif.PyICX CtrlVerif.PyIOL CtrlVerif.C07Gen CtrlVerif.C07GenX

variable {K : Type} [Field K] [DecidableEq K]

/-- `v or []` -/
def orEmpty (v : Val K) : Val K := if truthy v then v else .list []

/-- **`generated_listNone_eq`: the group as the source text says it**, for ALL values: an omitted list is
replaced by `inputs or []` (`outputs or []`) and its flag is set; a given list is left alone, flag `False`. -/
theorem generated_listNone_eq (inplist inputs outlist outputs : Val K) :
    Generated.icxListNone inplist inputs outlist outputs =
      .ok (if isNone inplist then orEmpty inputs else inplist, isNone inplist,
           if isNone outlist then orEmpty outputs else outlist, isNone outlist) := by
  unfold Generated.icxListNone orEmpty
  cases hi : isNone inplist <;> cases ho : isNone outlist <;> simp

theorem orEmpty_list (l : List (Val K)) : orEmpty (.list l : Val K) = .list l := by
  cases l <;> simp [orEmpty, truthy]

/-- **`generated_omitted_inplist_agree`: `inplist` omitted, `inputs` a list of names** — the two groups of the
source text composed (`icxListNone`, then `icxInList` on its results) against the model (`preList (preInEntry
sigs)` on the tokenised names, `finalCount true`): the names in `inputs` are the entries; both raise, or the new
`inplist` tokenises to the model's list and the new `inputs` is a list of exactly `finalCount true added given`
labels. -/
theorem generated_omitted_inplist_agree (sigs : List SysSig) (l : List (Val K)) (es : List (IOEntry K))
    (hl : List.Forall₂ EntryReads l es) (outlist outputs : Val K) (given : Option Nat) :
    ∃ ol on, Generated.icxListNone .none (.list l) outlist outputs = .ok (.list l, true, ol, on) ∧
      Agree (fun (r : Val K × Val K) (m : List (List (Spec K)) × Nat) =>
          (∃ vs, r.1 = .list vs ∧ vs.map readEntry = m.1.map some) ∧
          ∃ ls, r.2 = .list ls ∧ some ls.length = finalCount true m.2 given)
        (Generated.icxInList sigs (.list l) (.list l) true) (preList (preInEntry sigs) es) := by
  refine ⟨if isNone outlist then orEmpty outputs else outlist, isNone outlist,
    by rw [generated_listNone_eq]; simp [orEmpty_list], ?_⟩
  have hg : true = true → ∀ i, i < l.length → ∃ x, getItem (.list l : Val K) ((i : Nat) : Int) = .ok x := by
    intro _ i hi
    exact ⟨l[i], by simpa using seqGet_natCast l i l[i] (by simp [hi])⟩
  rcases generated_inList_agree sigs l es hl (.list l) true hg with ⟨r, m, hr, hm, h1, h2⟩ | ⟨e, e', hr, hm⟩
  · refine Or.inl ⟨r, m, hr, hm, h1, ?_⟩
    obtain ⟨ls, hls, hlen⟩ := (by simpa using h2 : ∃ ls, r.2 = .list ls ∧ ls.length = m.2)
    exact ⟨ls, hls, by simp [finalCount, hlen]⟩
  · exact Or.inr ⟨e, e', hr, hm⟩

/-- `inplist` GIVEN: the flag is `False`, `inputs` reaches the constructor untouched (`finalCount false _ given =
given`: the model keeps the given count). -/
theorem generated_given_inplist_agree (sigs : List SysSig) (l : List (Val K)) (es : List (IOEntry K))
    (hl : List.Forall₂ EntryReads l es) (inputs outlist outputs : Val K) :
    ∃ ol on, Generated.icxListNone (.list l) inputs outlist outputs = .ok (.list l, false, ol, on) ∧
      Agree (fun (r : Val K × Val K) (m : List (List (Spec K)) × Nat) =>
          (∃ vs, r.1 = .list vs ∧ vs.map readEntry = m.1.map some) ∧ r.2 = inputs)
        (Generated.icxInList sigs (.list l) inputs false) (preList (preInEntry sigs) es) := by
  refine ⟨if isNone outlist then orEmpty outputs else outlist, isNone outlist,
    by rw [generated_listNone_eq]; simp, ?_⟩
  rcases generated_inList_agree sigs l es hl inputs false (by simp) with ⟨r, m, hr, hm, h1, h2⟩ | ⟨e, e', hr, hm⟩
  · exact Or.inl ⟨r, m, hr, hm, h1, by simpa using h2⟩
  · exact Or.inr ⟨e, e', hr, hm⟩

/-- non-vacuity: `interconnect([P, C], inputs=['u'])` — `inplist` omitted. -/
example : Generated.icxListNone (K := ℚ) .none (.list [.str strU]) .none .none =
    .ok (.list [.str strU], true, .list [], true) := rfl

end CtrlVerif.C07GenXL
