/-
Source-text tie of C08 (control/nlsys.py), umbrella module: imports every `Props/C08Gen*.lean`
(notes/NOTES-py2lean-nlsys.md).  The theorems live in the imported files (namespace `CtrlVerif.C08Gen`).
-/
import CtrlVerif.Props.C08GenUfun
import CtrlVerif.Props.C08GenLoop
import CtrlVerif.Props.C08GenGrid
import CtrlVerif.Props.C08GenVector
import CtrlVerif.Props.C08GenBroadcast
import CtrlVerif.Props.C08GenLin
import CtrlVerif.Props.C08GenOpSetup
import CtrlVerif.Props.C08GenOp
import CtrlVerif.Props.C08GenOpShort
import CtrlVerif.Props.C08GenParams
