/-
C07, source-text tie (tag py2lean-iolist), part 2: a BARE STRING in `inplist` / `outlist` (a `str` without
'.'): the loop over the subsystems of `interconnect()` (control/nlsys.py) as regenerated from the tree
under check (`icxInList_loop2 … loop6`, `icxOutList_loop2 … loop6`) equals the step `bareStepV` below, which
is the model's `IC.bareStep` on Python values: a subsystem NAME appends all its signals (one entry each); a
SIGNAL name found in a subsystem contributes all matching signals; the FIRST subsystem with a match opens
one entry per signal (and, when the list was omitted, names them: the labels of the subsystem when the
name expands to several signals, the user's name otherwise), EVERY further subsystem with a match is
added to those entries (`new_connections[i].append`, IndexError when it has more matches than entries).
-/
import CtrlVerif.Props.C07GenXList
import CtrlVerif.Lemmas.C07Spell

namespace CtrlVerif.C07GenXL

open CtrlVerif.IC CtrlVerif.PyIC CtrlVerif.PyICX CtrlVerif.PyIOL CtrlVerif.C07Gen CtrlVerif.C07GenX

variable {K : Type} [Field K] [DecidableEq K]

/-- `(isys, isig, gain)` with the gain `1` / `-1` of a bare string. -/
def tripleInt (k : Nat) (g : Int) (i : Nat) : Val K := .tuple [.int (k : Int), .int (Int.ofNat i), .int g]

/-- the loop state, in the order of the generated definitions (re-bound variables sorted by name):
`found_signal, found_system, new_connections, new_inplist, new_inputs`. -/
abbrev BareSt (K : Type) := Bool × Bool × List (List (Val K)) × List (Val K) × Val K

/-- the labels appended to `new_inputs` / `new_outputs` by the first subsystem in which the name is found. -/
def bareLabels (labels : List Label) (idxs : List Nat) (given : Val K) (pos : Int) (ni : Val K) :
    Except Err (Val K) :=
  if idxs.length != 1 then
    (idxs.mapM fun i => labelAtVal labels (.int (Int.ofNat i) : Val K)) >>= extend ni
  else getItem given pos >>= appendVal ni

/-- one subsystem `S` (number `k`) for the bare string `ss` with gain `g`: `IC.bareStep` on values. -/
def bareStepV (d : IC.Dict) (none_ : Bool) (given : Val K) (pos : Int) (ss : Str) (g : Int)
    (st : BareSt K) (k : Nat) (S : SysSig) : Except Err (BareSt K) :=
  if ss.raw == S.name then
    .ok (st.1, true, st.2.2.1, st.2.2.2.1 ++ (List.range (S.labels d).length).map (tripleInt k g), st.2.2.2.2)
  else
    match IC.findSignals (S.labels d) [ss.tok] with
    | Option.none => .ok st
    | some idxs =>
      if st.2.2.1.length == 0 then
        (if none_ then bareLabels (S.labels d) idxs given pos st.2.2.2.2 else .ok st.2.2.2.2).map fun ni =>
          (true, st.2.1, (idxs.map (tripleInt k g)).map fun c => [c], st.2.2.2.1, ni)
      else
        (zipAppendE st.2.2.1 (idxs.map (tripleInt k g))).map fun c => (true, st.2.1, c, st.2.2.2.1, st.2.2.2.2)

theorem findSignals_ne_nil (labels : List Label) (names : List NameTok) (r : List Nat)
    (h : IC.findSignals labels names = some r) : r ≠ [] := by
  unfold IC.findSignals at h
  simp only at h
  split at h
  · cases h
  · next hne =>
    have hl := IC.mapM_id_some _ _ h
    intro hr
    subst hr
    simp [hl] at hne

theorem bind_ok_eq_map {α β : Type} (x : Except Err α) (f : α → β) :
    (x >>= fun a => Except.ok (f a)) = x.map f := by
  cases x <;> rfl

theorem bind_congr_ex {α β : Type} (x : Except Err α) (f g : α → Except Err β) (h : ∀ a, f a = g a) :
    (x >>= f) = (x >>= g) := by
  cases x with
  | error e => rfl
  | ok a => exact h a

theorem exmap_map {α β γ : Type} (x : Except Err α) (f : α → β) (g : β → γ) :
    (x.map f).map g = x.map fun a => g (f a) := by
  cases x <;> rfl

/-! ### the inner loops -/

theorem inLoop3_eq (g : Int) (k : Nat) (acc : List (Val K)) (n : Nat) :
    (rangeNat n).foldlM (Generated.icxInList_loop3 g (k : Int)) acc =
      .ok (acc ++ (List.range n).map (tripleInt k g)) := by
  rw [foldlM_snoc (Generated.icxInList_loop3 g (k : Int))
    (fun i : Int => (.tuple [.int (k : Int), .int i, .int g] : Val K)) _ (fun _ _ => rfl)]
  simp [rangeNat, tripleInt, List.map_map, Function.comp_def]

theorem inLoop4_eq (g : Int) (k : Nat) (acc : List (Val K)) (idxs : List Nat) :
    (idxs.map fun i => (.int (Int.ofNat i) : Val K)).foldlM (Generated.icxInList_loop4 g (k : Int)) acc =
      .ok (acc ++ idxs.map (tripleInt k g)) := by
  rw [foldlM_snoc (Generated.icxInList_loop4 g (k : Int))
    (fun i : Val K => (.tuple [.int (k : Int), i, .int g] : Val K)) _ (fun _ _ => rfl)]
  simp [tripleInt, List.map_map, Function.comp_def]

theorem inLoop5_eq (acc : List (List (Val K))) (l : List (Val K)) :
    l.foldlM Generated.icxInList_loop5 acc = .ok (acc ++ l.map fun c => [c]) :=
  foldlM_snoc _ _ l (fun _ _ => rfl) acc

theorem inLoop6_eq (xs : List (List (Val K))) (ys : List (Val K)) :
    (PyIC.enumerate ys).foldlM Generated.icxInList_loop6 xs = zipAppendE xs ys := by
  rw [← foldlM_appendAt]
  congr 1

/-- **`generated_inBareStep_eq`: the body of `for isys, sys in enumerate(syslist):` of the `inplist` loop,
as the source text says it, is `bareStepV` on the subsystem INPUTS.** -/
theorem generated_inBareStep_eq (none_ : Bool) (inputs : Val K) (iinp : Int) (ss : Str) (g : Int)
    (st : BareSt K) (k : Nat) (S : SysSig) :
    Generated.icxInList_loop2 g iinp none_ inputs (.str ss) st ((k : Int), S) =
      bareStepV .input none_ inputs iinp ss g st k S := by
  obtain ⟨fsig, fsys, conns, lst, ni⟩ := st
  unfold Generated.icxInList_loop2 bareStepV
  simp only [findSignals_str, ok_bind, eqLit, inputIndex, SysSig.labels]
  by_cases hn : (ss.raw == S.name) = true
  · simp [hn, inLoop3_eq]
  · simp only [hn, Bool.false_eq_true, if_false, findVal]
    rcases Option.eq_none_or_eq_some (IC.findSignals S.inputs [ss.tok]) with hf | ⟨idxs, hf⟩
    · simp [hf, truthy]
    · simp only [hf]
      have hne := findSignals_ne_nil _ _ _ hf
      have hemp : idxs.isEmpty = false := by cases idxs <;> simp_all
      simp only [truthy, ofInts, List.isEmpty_map, hemp, Bool.not_false, if_true, iter_list, ok_bind,
        List.map_map, pure_eq_ok]
      have h4 : List.foldlM (Generated.icxInList_loop4 g (k : Int)) [] (List.map (Val.int ∘ Int.ofNat) idxs) =
          .ok (idxs.map (tripleInt (K := K) k g)) := by
        simpa [Function.comp_def] using inLoop4_eq (K := K) g k [] idxs
      rw [h4]
      simp only [ok_bind, List.length_map]
      by_cases hc : conns.length = 0
      · have hc' : conns = [] := List.length_eq_zero_iff.mp hc
        subst hc'
        simp only [List.length_nil, beq_self_eq_true, if_true, inLoop5_eq, ok_bind, List.nil_append]
        cases none_ with
        | false => simp
        | true =>
          simp only [if_true, bareLabels]
          by_cases h1 : idxs.length = 1
          · simp only [h1, bne_self_eq_false, Bool.false_eq_true, if_false, BEq.rfl, Bool.not_true]
            rcases hg : getItem inputs iinp with e | x <;> simp [hg, bind_ok_eq_map, exmap_map]
          · have h1' : (idxs.length == 1) = false := by simpa using h1
            have h1'' : (idxs.length != 1) = true := by simp [bne, h1']
            simp only [h1', h1'', Bool.not_false, if_true, List.mapM_map]
            rcases hg : (idxs.mapM fun i => labelAtVal S.inputs (.int (Int.ofNat i) : Val K)) with e | x
            · have hg' : List.mapM ((fun i => labelAtVal S.inputs i) ∘ (Val.int (K := K)) ∘ Int.ofNat) idxs = .error e := hg
              simp [hg']
            · have hg' : List.mapM ((fun i => labelAtVal S.inputs i) ∘ (Val.int (K := K)) ∘ Int.ofNat) idxs = .ok x := hg
              simp [hg', bind_ok_eq_map, exmap_map]
      · have hc0 : (conns.length == 0) = false := by simpa using hc
        simp only [hc0, Bool.false_eq_true, if_false, inLoop6_eq]
        simp [bind_ok_eq_map, exmap_map]

/-! ### the same for `outlist` -/

theorem outLoop3_eq (g : Int) (k : Nat) (acc : List (Val K)) (n : Nat) :
    (rangeNat n).foldlM (Generated.icxOutList_loop3 g (k : Int)) acc =
      .ok (acc ++ (List.range n).map (tripleInt k g)) := by
  rw [foldlM_snoc (Generated.icxOutList_loop3 g (k : Int))
    (fun i : Int => (.tuple [.int (k : Int), .int i, .int g] : Val K)) _ (fun _ _ => rfl)]
  simp [rangeNat, tripleInt, List.map_map, Function.comp_def]

theorem outLoop4_eq (g : Int) (k : Nat) (acc : List (Val K)) (idxs : List Nat) :
    (idxs.map fun i => (.int (Int.ofNat i) : Val K)).foldlM (Generated.icxOutList_loop4 g (k : Int)) acc =
      .ok (acc ++ idxs.map (tripleInt k g)) := by
  rw [foldlM_snoc (Generated.icxOutList_loop4 g (k : Int))
    (fun i : Val K => (.tuple [.int (k : Int), i, .int g] : Val K)) _ (fun _ _ => rfl)]
  simp [tripleInt, List.map_map, Function.comp_def]

theorem outLoop5_eq (acc : List (List (Val K))) (l : List (Val K)) :
    l.foldlM Generated.icxOutList_loop5 acc = .ok (acc ++ l.map fun c => [c]) :=
  foldlM_snoc _ _ l (fun _ _ => rfl) acc

theorem outLoop6_eq (xs : List (List (Val K))) (ys : List (Val K)) :
    (PyIC.enumerate ys).foldlM Generated.icxOutList_loop6 xs = zipAppendE xs ys := by
  rw [← foldlM_appendAt]
  congr 1

/-- **`generated_outBareStep_eq`: the body of `for isys, sys in enumerate(syslist):` of the `outlist` loop,
as the source text says it, is `bareStepV` on the subsystem OUTPUTS.** -/
theorem generated_outBareStep_eq (none_ : Bool) (outputs : Val K) (iout : Int) (ss : Str) (g : Int)
    (st : BareSt K) (k : Nat) (S : SysSig) :
    Generated.icxOutList_loop2 g iout none_ outputs (.str ss) st ((k : Int), S) =
      bareStepV .output none_ outputs iout ss g st k S := by
  obtain ⟨fsig, fsys, conns, lst, ni⟩ := st
  unfold Generated.icxOutList_loop2 bareStepV
  simp only [findSignals_str, ok_bind, eqLit, outputIndex, SysSig.labels]
  by_cases hn : (ss.raw == S.name) = true
  · simp [hn, outLoop3_eq]
  · simp only [hn, Bool.false_eq_true, if_false, findVal]
    rcases Option.eq_none_or_eq_some (IC.findSignals S.outputs [ss.tok]) with hf | ⟨idxs, hf⟩
    · simp [hf, truthy]
    · simp only [hf]
      have hne := findSignals_ne_nil _ _ _ hf
      have hemp : idxs.isEmpty = false := by cases idxs <;> simp_all
      simp only [truthy, ofInts, List.isEmpty_map, hemp, Bool.not_false, if_true, iter_list, ok_bind,
        List.map_map, pure_eq_ok]
      have h4 : List.foldlM (Generated.icxOutList_loop4 g (k : Int)) [] (List.map (Val.int ∘ Int.ofNat) idxs) =
          .ok (idxs.map (tripleInt (K := K) k g)) := by
        simpa [Function.comp_def] using outLoop4_eq (K := K) g k [] idxs
      rw [h4]
      simp only [ok_bind, List.length_map]
      by_cases hc : conns.length = 0
      · have hc' : conns = [] := List.length_eq_zero_iff.mp hc
        subst hc'
        simp only [List.length_nil, beq_self_eq_true, if_true, outLoop5_eq, ok_bind, List.nil_append]
        cases none_ with
        | false => simp
        | true =>
          simp only [if_true, bareLabels]
          by_cases h1 : idxs.length = 1
          · simp only [h1, bne_self_eq_false, Bool.false_eq_true, if_false, BEq.rfl, Bool.not_true]
            rcases hg : getItem outputs iout with e | x <;> simp [hg, bind_ok_eq_map, exmap_map]
          · have h1' : (idxs.length == 1) = false := by simpa using h1
            have h1'' : (idxs.length != 1) = true := by simp [bne, h1']
            simp only [h1', h1'', Bool.not_false, if_true, List.mapM_map]
            rcases hg : (idxs.mapM fun i => labelAtVal S.outputs (.int (Int.ofNat i) : Val K)) with e | x
            · have hg' : List.mapM ((fun i => labelAtVal S.outputs i) ∘ (Val.int (K := K)) ∘ Int.ofNat) idxs = .error e := hg
              simp [hg']
            · have hg' : List.mapM ((fun i => labelAtVal S.outputs i) ∘ (Val.int (K := K)) ∘ Int.ofNat) idxs = .ok x := hg
              simp [hg', bind_ok_eq_map, exmap_map]
      · have hc0 : (conns.length == 0) = false := by simpa using hc
        simp only [hc0, Bool.false_eq_true, if_false, outLoop6_eq]
        simp [bind_ok_eq_map, exmap_map]

/-- the three-way test after the loop over the subsystems. -/
def bareFinal (r : BareSt K) : Except Err (List (Val K) × Val K) :=
  if r.2.1 && r.1 then .error .badArg
  else if r.1 then .ok (r.2.2.2.1 ++ r.2.2.1.map Val.list, r.2.2.2.2)
  else if !r.2.1 then .error .unknownName
  else .ok (r.2.2.2.1, r.2.2.2.2)

/-- a bare string `s` in `inplist` (`d = .input`) / `outlist` (`d = .output`) at position `pos`: the new list
and the new label list. -/
def bareV (d : IC.Dict) (sigs : List SysSig) (none_ : Bool) (given : Val K) (pos : Int) (s : Str)
    (acc : List (Val K)) (ni : Val K) : Except Err (List (Val K) × Val K) :=
  (sigs.zipIdx.foldlM (fun st Sk => bareStepV d none_ given pos (if s.neg then s.tail else s)
      (if s.neg then (-1 : Int) else 1) st Sk.2 Sk.1) (false, false, [], acc, ni)) >>= bareFinal

/-- **`generated_inEntry_bare`: a bare string in `inplist`** (a `str` without '.', not empty), as the source
text says it: sign and name are split off, the loop over ALL subsystems is `bareStepV`, then the three-way
test (name of a subsystem AND of a signal: error; a signal: the collected entries are appended; neither:
"could not find signal"). -/
theorem generated_inEntry_bare (sigs : List SysSig) (inputs ni : Val K) (none_ : Bool) (iinp : Int)
    (acc : List (Val K)) (s : Str) (hp : s.parts.length ≤ 1) (hne : s.raw.toList.isEmpty = false) :
    Generated.icxInList_loop1 none_ inputs sigs (acc, ni) (iinp, .str s) =
      bareV .input sigs none_ inputs iinp s acc ni := by
  have hlen : (↑(if s.parts.isEmpty = true then [(Val.str s : Val K)]
      else s.parts.map fun p => Val.str ⟨p.1, p.2, []⟩).length : Int) = 1 := by
    cases hps : s.parts with
    | nil => simp
    | cons a b =>
      have : b = [] := by
        cases b with
        | nil => rfl
        | cons c d => simp [hps] at hp
      simp [this]
  obtain ⟨c, cs, hc⟩ : ∃ c cs, s.raw.toList = c :: cs := by
    cases h : s.raw.toList with
    | nil => simp [h] at hne
    | cons c cs => exact ⟨c, cs, rfl⟩
  have hneg : (String.singleton c == "-") = s.neg := by simp [Str.neg, hc]
  have hfold : ∀ (g : Int) (ss : Str) (st : BareSt K),
      List.foldlM (Generated.icxInList_loop2 g iinp none_ inputs (.str ss)) st (PyIC.enumerate sigs) =
        sigs.zipIdx.foldlM (fun st Sk => bareStepV .input none_ inputs iinp ss g st Sk.2 Sk.1) st := by
    intro g ss st
    rw [PyIC.enumerate, List.foldlM_map]
    congr 1
    funext st Sk
    exact generated_inBareStep_eq none_ inputs iinp ss g st Sk.2 Sk.1
  unfold Generated.icxInList_loop1 bareV
  simp only [isinstance_str_single, if_true, reSplitDot, ok_bind, len_list, hlen, pure_eq_ok, beq_self_eq_true,
    Nat.cast_one, getItem, seqGet, hc, Int.lt_irrefl, if_false, Int.toNat_zero, List.getElem?_cons_zero,
    map_ok, eqLit, Str.ofChar, hneg, le_refl, Int.le_refl]
  cases hn : s.neg with
  | true =>
    simp only [if_true, dropFrom_str_one, ok_bind, hfold, decide_true, bind_assoc]
    refine bind_congr_ex _ _ _ fun r => ?_
    obtain ⟨a, b, c', d, e'⟩ := r
    cases a <;> cases b <;> simp [bareFinal]
  | false =>
    simp only [Bool.false_eq_true, if_false, ok_bind, hfold, decide_true, if_true, bind_assoc]
    refine bind_congr_ex _ _ _ fun r => ?_
    obtain ⟨a, b, c', d, e'⟩ := r
    cases a <;> cases b <;> simp [bareFinal]

/-- **`generated_outEntry_bare`: a bare string in `outlist`** (a `str` without '.', not empty), as the source
text says it: sign and name are split off, the loop over ALL subsystems is `bareStepV`, then the three-way
test (name of a subsystem AND of a signal: error; a signal: the collected entries are appended; neither:
"could not find signal"). -/
theorem generated_outEntry_bare (sigs : List SysSig) (inputs ni : Val K) (none_ : Bool) (iinp : Int)
    (acc : List (Val K)) (s : Str) (hp : s.parts.length ≤ 1) (hne : s.raw.toList.isEmpty = false) :
    Generated.icxOutList_loop1 none_ inputs sigs (acc, ni) (iinp, .str s) =
      bareV .output sigs none_ inputs iinp s acc ni := by
  have hlen : (↑(if s.parts.isEmpty = true then [(Val.str s : Val K)]
      else s.parts.map fun p => Val.str ⟨p.1, p.2, []⟩).length : Int) = 1 := by
    cases hps : s.parts with
    | nil => simp
    | cons a b =>
      have : b = [] := by
        cases b with
        | nil => rfl
        | cons c d => simp [hps] at hp
      simp [this]
  obtain ⟨c, cs, hc⟩ : ∃ c cs, s.raw.toList = c :: cs := by
    cases h : s.raw.toList with
    | nil => simp [h] at hne
    | cons c cs => exact ⟨c, cs, rfl⟩
  have hneg : (String.singleton c == "-") = s.neg := by simp [Str.neg, hc]
  have hfold : ∀ (g : Int) (ss : Str) (st : BareSt K),
      List.foldlM (Generated.icxOutList_loop2 g iinp none_ inputs (.str ss)) st (PyIC.enumerate sigs) =
        sigs.zipIdx.foldlM (fun st Sk => bareStepV .output none_ inputs iinp ss g st Sk.2 Sk.1) st := by
    intro g ss st
    rw [PyIC.enumerate, List.foldlM_map]
    congr 1
    funext st Sk
    exact generated_outBareStep_eq none_ inputs iinp ss g st Sk.2 Sk.1
  unfold Generated.icxOutList_loop1 bareV
  simp only [isinstance_str_single, if_true, reSplitDot, ok_bind, len_list, hlen, pure_eq_ok, beq_self_eq_true,
    Nat.cast_one, getItem, seqGet, hc, Int.lt_irrefl, if_false, Int.toNat_zero, List.getElem?_cons_zero,
    map_ok, eqLit, Str.ofChar, hneg, le_refl, Int.le_refl]
  cases hn : s.neg with
  | true =>
    simp only [if_true, dropFrom_str_one, ok_bind, hfold, decide_true, bind_assoc]
    refine bind_congr_ex _ _ _ fun r => ?_
    obtain ⟨a, b, c', d, e'⟩ := r
    cases a <;> cases b <;> simp [bareFinal]
  | false =>
    simp only [Bool.false_eq_true, if_false, ok_bind, hfold, decide_true, if_true, bind_assoc]
    refine bind_congr_ex _ _ _ fun r => ?_
    obtain ⟨a, b, c', d, e'⟩ := r
    cases a <;> cases b <;> simp [bareFinal]

end CtrlVerif.C07GenXL
