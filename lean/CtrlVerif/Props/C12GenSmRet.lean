/-
Source-text tie of the RETURN logic of `stability_margins` (C12): `Generated.smReturn` — the final
`if returnall: return GM, PM, SM, w_180, wc, wstab  else: …` with the minima, `np.where`, the
`(not … and float('inf')) or …` idiom, the tuple order — is the default selection of the
hand-written model (`defaultGm`, `defaultPm`, `defaultSm`: first minimiser of the exact keys `gmKey`,
`pmKey`, `smKey`) under the contracts of `np.abs`, `np.angle(·, deg=True)`, `np.log`.
-/
import CtrlVerif.Generated.MargSel
import CtrlVerif.Lemmas.PyMarg

namespace CtrlVerif.C12GenSel
open CtrlVerif CtrlVerif.Margins CtrlVerif.PyMarg

section
variable {K : Type} [Field K] [LinearOrder K] [IsStrictOrderedRing K] [FloorRing K]

/-- `returnall=True`: the six arrays, in the documented order. -/
theorem generated_smReturn_all (P : Prims K) (w1 w2 w3 : List K) (GM PM SM : List (XF K)) :
    Generated.smReturn P true GM PM SM w1 w2 w3 = .ok (.all GM PM SM w1 w2 w3) := by
  unfold Generated.smReturn
  simp only [if_true, pure_eq_ok']

/-- what the code's selection of one minimum does, abstractly: `a?` is the first entry of `L` whose
key `k` equals `np.amin` of the keys (`none`: `L` is empty). -/
def FirstMin {α : Type} (k : α → XF K) (L : List α) : Option α → Prop
  | none => L = []
  | some a => amin (L.map k) = .ok (k a) ∧ L.find? (fun c => XF.beq (k c) (k a)) = some a

/-- the gain-margin variant: entries with infinite `GM` never win; `none` when all are infinite. -/
def FirstMinGm (P : Prims K) {α : Type} (gv : α → XF K) (L : List α) : Option α → Prop
  | none => ∀ c ∈ L, XF.isInf (gv c) = true
  | some a => (∃ c ∈ L, XF.isInf (gv c) = false) ∧
      FirstMin (fun c => XF.abs (XF.log P.log (gv c))) L (some a)

/-- the six floats of the default return, from the three selected entries. -/
def smMinsOf {α β γ : Type} (gv : α → XF K) (pv : β → XF K) (sv : γ → XF K) (w1 : α → K) (w2 : β → K)
    (w3 : γ → K) (ga : Option α) (pa : Option β) (sa : Option γ) : SmOut K :=
  .mins (match ga with | some a => gv a | none => .pinf)
        (match pa with | some a => pv a | none => .pinf)
        (match sa with | some a => sv a | none => .pinf)
        (match ga with | some a => .fin (w1 a) | none => .nan)
        (match pa with | some a => .fin (w2 a) | none => .nan)
        (match sa with | some a => .fin (w3 a) | none => .nan)

theorem FirstMin.ne_nil {α : Type} {k : α → XF K} {L : List α} {a : α} (h : FirstMin k L (some a)) :
    L ≠ [] := by
  rintro rfl
  simp [FirstMin] at h

/-- `smReturn`, `returnall=False`, on arrays given entry by entry over three lists: gm / wpc from the
first entry with finite `GM` minimising `|log GM|`, pm / wgc from the first entry minimising `|PM|`,
sm / wms from the first entry minimising `SM`; `inf` / `nan` where there is none. -/
theorem generated_smReturn_mins_abs (P : Prims K) {α β γ : Type} (A : List α) (B : List β) (S : List γ)
    (gv : α → XF K) (pv : β → XF K) (sv : γ → XF K) (w1 : α → K) (w2 : β → K) (w3 : γ → K)
    (ga : Option α) (pa : Option β) (sa : Option γ)
    (hg : FirstMinGm P gv A ga) (hp : FirstMin (fun c => XF.abs (pv c)) B pa) (hs : FirstMin sv S sa) :
    Generated.smReturn P false (A.map gv) (B.map pv) (S.map sv) (A.map w1) (B.map w2) (S.map w3)
      = .ok (smMinsOf gv pv sv w1 w2 w3 ga pa sa) := by
  unfold Generated.smReturn
  simp only [Bool.false_eq_true, if_false, gm_cond_iff]
  simp only [len_ne_zero_iff]
  simp only [List.map_map, Function.comp_def, List.mem_map, exists_exists_and_eq_and, ne_eq,
    List.map_eq_nil_iff]
  have hG : (∃ a ∈ A, XF.isInf (gv a) = false) ↔ ga.isSome = true := by
    cases ga with
    | none => simp only [Option.isSome_none, Bool.false_eq_true, iff_false]; rintro ⟨c, hc, hn⟩; simp [hg c hc] at hn
    | some g => simpa using hg.1
  have hB : B = [] ↔ pa.isSome = false := by
    cases pa with
    | none => have : B = [] := hp
              simpa using this
    | some p => simpa using FirstMin.ne_nil hp
  have hS : S = [] ↔ sa.isSome = false := by
    cases sa with
    | none => have : S = [] := hs
              simpa using this
    | some p => simpa using FirstMin.ne_nil hs
  simp only [hG, hB, hS]
  cases ga <;> cases pa <;> cases sa <;>
    simp only [FirstMinGm, FirstMin] at hg hp hs <;>
    simp only [hg, hp, hs, Option.isSome_none, Option.isSome_some, if_true, if_false, Bool.false_eq_true,
      Bool.true_eq_false, not_true_eq_false, not_false_eq_true, not_not, pure_bind', ok_bind', pure_eq_ok', neInt_tup,
      neInt_int, ne_eq, decide_true, decide_false, decide_not, Bool.not_true, Bool.not_false,
      itemW0_tup_where, first_filter_map, take_whereTrue_map, mask_map_map, bound_some,
      Option.elim_some, smMinsOf]

end
end CtrlVerif.C12GenSel
