/-
Source-text tie of C04 (DESIGN §10.3, notes/NOTES-py2lean-eval.md), part 4: the two `__call__`
methods, `LTI._dcgain` and the `dcgain` wrappers.

`Generated/EvalCall.lean` (`TransferFunction.__call__`, `StateSpace.__call__`: `horner`, then
`_process_frequency_response`, which only squeezes — C18) and `Generated/EvalDc.lean` (`LTI._dcgain`:
the evaluation point `0 if self.isctime() else 1`, the call, the test
`np.all(np.logical_or(np.isreal(z), np.isnan(z.imag)))`, `z.real` or `z`; `TransferFunction.dcgain`,
`StateSpace.dcgain`) are rewritten on every run from the text of control/xferfcn.py, statesp.py and
lti.py of the tree under check.  The model's `call` / `dcgainCode` (= `dcPost` of the value at the DC
point) is proved EQUAL to them on every valid timebase; `C04.dcgain_code_value`, `dcPost_real_iff`,
`dcgain_cont / _disc`, `dcgain_ss_pole` are transported.
-/
import CtrlVerif.Generated.EvalDc
import CtrlVerif.Props.C04GenTF
import CtrlVerif.Props.C04GenSS
import CtrlVerif.Props.C05PredUses

set_option linter.unusedSimpArgs false
set_option linter.unusedSectionVars false

namespace CtrlVerif.C04Gen
open CtrlVerif CtrlVerif.Eval CtrlVerif.PyEval

variable {K : Type} [Field K] [DecidableEq K]

/-! ### `__call__` -/

/-- `TransferFunction.__call__` as the source text computes it: `horner`, whatever `squeeze`. -/
theorem generated_tfCall_eq (P : Parts K) (G : DTF K) (x : XArg K) (sq : Option Bool) (w : Bool) :
    Generated.tfCall P G x sq w = .ok (tfTarget P G (atleast1dComplex x)) := by
  unfold Generated.tfCall
  rw [generated_tfHorner_eq]
  rfl

/-- `StateSpace.__call__` as the source text computes it. -/
theorem generated_ssCall_eq (P : Parts K) (G : DSS K) (x : XArg K) (sq : Option Bool) (w : Bool) :
    Generated.ssCall P G x sq w = .ok (ssTarget G (atleast1dComplex x)) := by
  unfold Generated.ssCall
  rw [generated_ssHorner_eq]
  rfl

/-- the array of the values `call1Cx P L x` of an LTI object at the points `xs`. -/
def ltiTarget (P : Parts K) (L : LTI K) (xs : List K) : Arr3 K :=
  NArr.ofFn L.p L.m xs.length fun i j k => call1Cx P L (xs.get k) i j

/-- **`sys(x)` as the source text computes it is the model's `call`**: point by point and entry by
entry the outcome class is `Eval.call L xs`. -/
theorem ltiTarget_cls (P : Parts K) (L : LTI K) (xs : List K) (i : Fin L.p) (j : Fin L.m)
    (k : Fin xs.length) :
    ((ltiTarget P L xs).get i j k).map Cx.cls
      = ((call L xs)[k]?).map fun M => M i j := by
  unfold ltiTarget
  rw [ofFn_get _ i.isLt j.isLt k.isLt]
  simp [call, C04.call1Cx_cls, List.getElem?_eq_getElem k.isLt]

theorem tfTarget_eq_lti (P : Parts K) (p m : Nat) (e : Fin p → Fin m → Frac K) (dt : Dt) (xs : List K) :
    tfTarget P ⟨p, m, ⟨e⟩, dt⟩ xs = ltiTarget P (.tf p m e dt) xs := rfl

theorem ssTarget_eq_lti (P : Parts K) (n p m : Nat) (S : SS (Fin n) (Fin m) (Fin p) K) (dt : Dt)
    (xs : List K) : ssTarget ⟨n, p, m, S, dt⟩ xs = ltiTarget P (.ss n p m S dt) xs := rfl

/-! ### `_dcgain` -/

/-- the evaluation point of `_dcgain` as the code computes it is the model's `dcPoint`. -/
theorem dcPoint_code {d : Dt} (hv : d.valid) :
    (((if DtPred.isctime false d = true then (0 : Int) else (1 : Int)) : Int) : K) = dcPoint d := by
  rw [C05Pred.eval_dcPoint hv]
  split <;> simp

/-- what `_dcgain` returns according to the model: the real array of real parts when every entry
passes the test, the complex array otherwise. -/
def dcModel (P : Parts K) (L : LTI K) : DcRes K :=
  if allPass P (call1Cx P L (dcPoint L.dt)) = true then
    .real (NArr.ofFn L.p L.m 1 fun i j _ => P.reCls (call1Cx P L (dcPoint L.dt) i j))
  else .cplx (NArr.ofFn L.p L.m 1 fun i j _ => call1Cx P L (dcPoint L.dt) i j)

/-- is the result a real array, and the outcome class of its entry `(i, j)`. -/
def _root_.CtrlVerif.PyEval.DcRes.isReal : DcRes K → Bool
  | .real _ => true
  | .cplx _ => false

/-- the outcome class of the entry `(i, j)` of the result. -/
def _root_.CtrlVerif.PyEval.DcRes.cls : DcRes K → Nat → Nat → Option (IVal K)
  | .real a, i, j => a.get i j 0
  | .cplx a, i, j => (a.get i j 0).map Cx.cls

/-- `dcModel` is the model's `dcgainCode` (`dcPost` of the value at the DC point). -/
theorem dcModel_spec (P : Parts K) (L : LTI K) :
    (dcModel P L).isReal = (dcgainCode P L).1 ∧
    ∀ (i : Fin L.p) (j : Fin L.m), (dcModel P L).cls i j = some ((dcgainCode P L).2 i j) := by
  unfold dcModel dcgainCode dcPost
  by_cases h : allPass P (call1Cx P L (dcPoint L.dt)) = true
  · rw [if_pos h, if_pos h]
    exact ⟨rfl, fun i j => ofFn_get _ i.isLt j.isLt (by omega)⟩
  · rw [if_neg h, if_neg h]
    refine ⟨rfl, fun i j => ?_⟩
    show ((NArr.ofFn L.p L.m 1 fun i j _ => call1Cx P L (dcPoint L.dt) i j).get i j 0).map Cx.cls = _
    rw [ofFn_get _ i.isLt j.isLt (by omega : 0 < 1)]
    rfl

/-- the post-processing of `_dcgain` on the array `sys(point)` returns. -/
theorem dcPost_code (P : Parts K) (L : LTI K) (z : K) :
    (do
      let t2 ← PyEval.logicalOr (PyEval.isreal P (ltiTarget P L [z])) (PyEval.isnanImag (ltiTarget P L [z]))
      let t3 ← PyEval.allB t2
      if (t3 = true) then pure (PyEval.DcRes.real (PyEval.realPart P (ltiTarget P L [z])))
      else pure (PyEval.DcRes.cplx (ltiTarget P L [z])) : Except Err (DcRes K))
      = .ok (if allPass P (call1Cx P L z) = true then
          .real (NArr.ofFn L.p L.m 1 fun i j _ => P.reCls (call1Cx P L z i j))
        else .cplx (NArr.ofFn L.p L.m 1 fun i j _ => call1Cx P L z i j)) := by
  unfold ltiTarget
  simp only [passes_ofFn, allB_ofFn, realPart_ofFn, bind, Except.bind, pure, Except.pure, List.length_singleton]
  have hiff : (∀ (i : Fin L.p) (j : Fin L.m) (k : Fin 1), P.passes (call1Cx P L ([z].get k) i j) = true)
      ↔ allPass P (call1Cx P L z) = true := by
    rw [C04.allPass_iff]
    constructor
    · intro h i j; exact h i j ⟨0, by omega⟩
    · intro h i j k
      have : [z].get k = z := by
        have hk : (k : Nat) = 0 := by omega
        simp [hk]
      rw [this]; exact h i j
  by_cases h : allPass P (call1Cx P L z) = true
  · rw [if_pos (by simpa using hiff.mpr h), if_pos h]
    congr 3
    funext i j k
    have hk : (k : Nat) = 0 := by omega
    simp [hk]
  · rw [if_neg (by simpa using fun h' => h (hiff.mp h')), if_neg h]
    congr 3
    funext i j k
    have hk : (k : Nat) = 0 := by omega
    simp [hk]

/-- **`LTI._dcgain` as the source text computes it is the model** (`dcgainCode`: evaluate at the DC
point, then `dcPost`), for transfer functions and state-space systems of all sizes, on every valid
timebase, whatever `warn_infinite`. -/
theorem generated_dcgain_eq (P : Parts K) (L : LTI K) (hv : L.dt.valid) (w : Bool) :
    Generated.ltiDcgain P L w = .ok (dcModel P L) := by
  unfold dcModel
  cases L with
  | tf p m e dt =>
    have hv' : dt.valid := hv
    unfold Generated.ltiDcgain
    simp only [C05Pred.generated_ioIsctime_eq, generated_tfCall_eq, PyArith.ok_bind, dcPoint_code hv',
      atleast1d_scalar, tfTarget_eq_lti]
    exact dcPost_code P (.tf p m e dt) (dcPoint dt)
  | ss n p m S dt =>
    have hv' : dt.valid := hv
    unfold Generated.ltiDcgain
    simp only [C05Pred.generated_ioIsctime_eq, generated_ssCall_eq, PyArith.ok_bind, dcPoint_code hv',
      atleast1d_scalar, ssTarget_eq_lti P]
    exact dcPost_code P (.ss n p m S dt) (dcPoint dt)

/-- `TransferFunction.dcgain` / `StateSpace.dcgain` call `_dcgain`. -/
theorem generated_tfDcgain_eq (P : Parts K) (G : DTF K) (hv : G.dt.valid) (w : Bool) :
    Generated.tfDcgain P G w = .ok (dcModel P (.tf G.p G.m G.sys.e G.dt)) := by
  unfold Generated.tfDcgain
  exact generated_dcgain_eq P (.tf G.p G.m G.sys.e G.dt) hv w

theorem generated_ssDcgain_eq (P : Parts K) (G : DSS K) (hv : G.dt.valid) (w : Bool) :
    Generated.ssDcgain P G w = .ok (dcModel P (.ss G.n G.p G.m G.sys G.dt)) := by
  unfold Generated.ssDcgain
  exact generated_dcgain_eq P (.ss G.n G.p G.m G.sys G.dt) hv w

/-- **`C04.dcgain_code_value` holds of the function the source text defines**: whatever mixture of
real, complex, infinite and NaN entries the zero-frequency response has, every entry of what
`_dcgain` returns has the class and value of the system at `s = 0` / `z = 1`. -/
theorem generated_dcgain_value (P : Parts K) (L : LTI K) (hv : L.dt.valid) (w : Bool)
    (i : Fin L.p) (j : Fin L.m) :
    ∃ r, Generated.ltiDcgain P L w = .ok r ∧ r.cls i j = some (dcgain L i j) := by
  refine ⟨_, generated_dcgain_eq P L hv w, ?_⟩
  rw [(dcModel_spec P L).2 i j, C04.dcgain_code_value]

/-- the result is a real array exactly when every entry of the gain matrix is real or has a NaN
imaginary component (`C04.dcPost_real_iff`): `np.all`, not `np.any`. -/
theorem generated_dcgain_real_iff (P : Parts K) (L : LTI K) (hv : L.dt.valid) (w : Bool) :
    ∃ r, Generated.ltiDcgain P L w = .ok r ∧
      (r.isReal = true ↔ ∀ i j, P.passes (call1Cx P L (dcPoint L.dt) i j) = true) := by
  refine ⟨_, generated_dcgain_eq P L hv w, ?_⟩
  rw [(dcModel_spec P L).1]
  exact C04.dcPost_real_iff P _

/-- the value is the value at `s = 0` for continuous time and `dt = None` (`C04.dcgain_cont`) … -/
theorem generated_dcgain_cont (P : Parts K) (L : LTI K) (h : L.dt = .cont ∨ L.dt = .none) (w : Bool)
    (i : Fin L.p) (j : Fin L.m) :
    ∃ r, Generated.ltiDcgain P L w = .ok r ∧ r.cls i j = some (call1 L 0 i j) := by
  have hv : L.dt.valid := by rcases h with h | h <;> rw [h] <;> trivial
  obtain ⟨r, h1, h2⟩ := generated_dcgain_value P L hv w i j
  exact ⟨r, h1, by rw [h2, C04.dcgain_cont L h]⟩

/-- … and at `z = 1` for discrete time (`C04.dcgain_disc`). -/
theorem generated_dcgain_disc (P : Parts K) (L : LTI K) (h : L.dt = .dtrue ∨ ∃ t, 0 < t ∧ L.dt = .disc t)
    (w : Bool) (i : Fin L.p) (j : Fin L.m) :
    ∃ r, Generated.ltiDcgain P L w = .ok r ∧ r.cls i j = some (call1 L 1 i j) := by
  have hv : L.dt.valid := by
    rcases h with h | ⟨t, ht, h⟩ <;> rw [h]
    · trivial
    · exact ht
  obtain ⟨r, h1, h2⟩ := generated_dcgain_value P L hv w i j
  refine ⟨r, h1, ?_⟩
  rw [h2, C04.dcgain_disc L (by rcases h with h | ⟨t, _, h⟩; exact Or.inl h; exact Or.inr ⟨t, h⟩)]

/-- an integrator never reports a finite DC gain (`C04.dcgain_ss_pole`). -/
theorem generated_dcgain_ss_pole (P : Parts K) {n p m : Nat} (S : SS (Fin n) (Fin m) (Fin p) K) (dt : Dt)
    (hv : dt.valid) (w : Bool)
    (hs : ¬ IsUnit (dcPoint (K := K) dt • (1 : Matrix (Fin n) (Fin n) K) - S.A)) (i : Fin p) (j : Fin m) :
    ∃ r, Generated.ltiDcgain P (.ss n p m S dt) w = .ok r ∧ ¬ ∃ z, r.cls i j = some (.fin z) := by
  obtain ⟨r, h1, h2⟩ := generated_dcgain_value P (.ss n p m S dt) hv w i j
  refine ⟨r, h1, ?_⟩
  rintro ⟨z, hz⟩
  rw [h2] at hz
  exact C04.dcgain_ss_pole S dt hs i j ⟨z, Option.some.inj hz⟩

/-- non-vacuity over `ℚ(i)`: `[1/(s+1), j/(s+2)]` has the complex gain matrix `[1, j/2]` (with `np.any`
the second entry would become `0`); `1/s` in discrete time `dt = 1/2` is evaluated at `z = 1`. -/
example :
    let e : Fin 1 → Fin 2 → Frac QI := fun _ j => if j = 0 then ⟨[1], [1, 1]⟩ else ⟨[QI.I], [1, 2]⟩
    ∃ r, Generated.ltiDcgain partsQI (.tf 1 2 e .cont) false = .ok r ∧ r.isReal = false ∧
      r.cls 0 0 = some (.fin 1) ∧ r.cls 0 1 = some (.fin ⟨0, 1 / 2⟩) := by
  intro e
  refine ⟨_, generated_dcgain_eq partsQI _ (by trivial) false, ?_, ?_, ?_⟩ <;> decide +kernel

example :
    let e : Fin 1 → Fin 1 → Frac QI := fun _ _ => ⟨[1], [1, 0]⟩
    ∃ r, Generated.ltiDcgain partsQI (.tf 1 1 e (.disc (1 / 2))) false = .ok r ∧ r.isReal = true ∧
      r.cls 0 0 = some (.fin 1) := by
  intro e
  refine ⟨_, generated_dcgain_eq partsQI _ (by decide +kernel) false, ?_, ?_⟩ <;> decide +kernel

end CtrlVerif.C04Gen
