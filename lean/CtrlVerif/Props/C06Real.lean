/-
C06, realisations — "a transfer function responds from rest like any of its state-space
realisations" as a theorem, and further theorems about the discrete-time response from rest.

Props/C06.lean proves `tf_from_rest_partial`: equal direct term and equal Markov parameters
`C A^j B` give equal outputs from rest.  This file supplies the missing link and the consequences:

* `markov_of_resp` — two state-space systems (any state dimensions, any finite input / output index
  types, over an infinite field) with the same transfer matrix in the `Resp` sense of
  Lemmas/SS.lean have the same direct term and the same Markov parameters; hence
  (`realisations_from_rest`) the same outputs from rest for every input.  `resp_of_markov` is the
  converse (any field, by Cayley–Hamilton), `markov_iff_resp` the equivalence.
* `tf_markov`, `tf_from_rest`, `tf2ss_from_rest` — the Markov parameters of ANY realisation of a SISO
  transfer function `num/den` are the long division of `num` by `den` (`tfImpulse`, defined by the
  recursion `a₀ h_k = b_k − Σ_{i≥1} a_i h_{k-i}`), the outputs from rest are the convolution
  `y_k = Σ_j h_j u_{k-j}` and satisfy the difference equation `Σ_i a_i y_{k-i} = Σ_i b_i u_{k-i}`;
  in particular for the realisation `tf2ssList` (= `scipy.signal.tf2ss`, controller canonical form)
  that python-control uses for a `TransferFunction`.
* `forced_from_rest`, `forced_tf_from_rest`, `step_cumsum_impulse_forced` — the same facts for the
  executable model's `forced` (what the driver runs) on grids at the sampling time.
* `time_invariance`, `causality`, `series_from_rest`, `step_cumsum_impulse` — shifting the input
  shifts the output; the first `m` outputs depend on the first `m` inputs only; the response of
  `SS.mul G₁ G₂` is the response of `G₁` driven by the response of `G₂`; the step response is
  `dt` times the running sum of the impulse response in the code's `1/dt` convention.

`K` is an arbitrary field; where two rational functions are identified from their values, `K` is
assumed infinite (`[Infinite K]`, e.g. characteristic 0) — over a finite field two different
rational functions can agree at every point, so the assumption cannot be dropped.
Continuous time (the exponential) is not covered here.
-/
import CtrlVerif.Lemmas.C06Real
import CtrlVerif.Props.C06
import CtrlVerif.Props.C03
import Mathlib.LinearAlgebra.Matrix.Notation
import Mathlib.Tactic.FinCases

namespace CtrlVerif.C06

open CtrlVerif Matrix TimeResp CtrlVerif.C06Real CtrlVerif.Convert
open Polynomial (aeval C X aeval_comp aeval_C aeval_X)

section General

variable {K : Type*} [Field K] {σ σ' ι o : Type*} [Fintype σ] [DecidableEq σ] [Fintype σ']
  [DecidableEq σ'] [Fintype ι]

/-! ### Realisations of one transfer matrix -/

/-- **`markov_of_resp`.**  If two state-space systems have the same transfer matrix — at every `s`
that is an eigenvalue of neither `A` nor `A'`, `Y` is a value of `G` at `s` iff it is a value of
`G'` at `s` — then `D = D'` and `C A^j B = C' A'^j B'` for every `j`.  (`K` infinite.) -/
theorem markov_of_resp [Infinite K] (G : SS σ ι o K) (G' : SS σ' ι o K)
    (h : ∀ s, IsUnit (s • (1 : Matrix σ σ K) - G.A) → IsUnit (s • (1 : Matrix σ' σ' K) - G'.A) →
      ∀ Y, G.Resp s Y ↔ G'.Resp s Y) :
    G.D = G'.D ∧ ∀ j : ℕ, G.C * G.A ^ j * G.B = G'.C * G'.A ^ j * G'.B := by
  have hm := markov_eq_of_resp G G' ∅ Set.finite_empty (fun s _ hu hu' =>
    ⟨_, SS.Resp.of_isUnit G s hu, (h s hu hu' _).mp (SS.Resp.of_isUnit G s hu)⟩)
  exact ⟨hm 0, fun j => hm (j + 1)⟩

/-- the same from less: it is enough that off a finite set `S` of points (and off both spectra) the
two systems have *a* common value. -/
theorem markov_of_resp_cofinite [Infinite K] (G : SS σ ι o K) (G' : SS σ' ι o K) (S : Set K)
    (hS : S.Finite)
    (h : ∀ s, s ∉ S → IsUnit (s • (1 : Matrix σ σ K) - G.A) →
      IsUnit (s • (1 : Matrix σ' σ' K) - G'.A) → ∃ Y, G.Resp s Y ∧ G'.Resp s Y) :
    G.D = G'.D ∧ ∀ j : ℕ, G.C * G.A ^ j * G.B = G'.C * G'.A ^ j * G'.B := by
  have hm := markov_eq_of_resp G G' S hS h
  exact ⟨hm 0, fun j => hm (j + 1)⟩

/-- **converse**: equal direct terms and Markov parameters give the same transfer matrix at every
`s` that is an eigenvalue of neither `A` nor `A'` (any field). -/
theorem resp_of_markov (G : SS σ ι o K) (G' : SS σ' ι o K) (hD : G.D = G'.D)
    (hM : ∀ j : ℕ, G.C * G.A ^ j * G.B = G'.C * G'.A ^ j * G'.B) (s : K)
    (hu : IsUnit (s • (1 : Matrix σ σ K) - G.A)) (hu' : IsUnit (s • (1 : Matrix σ' σ' K) - G'.A))
    (Y : Matrix o ι K) : G.Resp s Y ↔ G'.Resp s Y := by
  obtain ⟨r, hr, hr'⟩ := exists_common_inverse_poly _ _ hu hu'
  have hA : s • (1 : Matrix σ σ K) - G.A = aeval G.A (C s - X) := by
    rw [map_sub, aeval_C, aeval_X, Algebra.algebraMap_eq_smul_one]
  have hA' : s • (1 : Matrix σ' σ' K) - G'.A = aeval G'.A (C s - X) := by
    rw [map_sub, aeval_C, aeval_X, Algebra.algebraMap_eq_smul_one]
  have hY : G.Resp s (G.C * (aeval G.A (r.comp (C s - X)) * G.B) + G.D) := by
    refine ⟨aeval G.A (r.comp (C s - X)) * G.B, ?_, rfl⟩
    rw [aeval_comp, ← hA, ← Matrix.mul_assoc, hr, Matrix.one_mul]
  have hY' : G'.Resp s (G'.C * (aeval G'.A (r.comp (C s - X)) * G'.B) + G'.D) := by
    refine ⟨aeval G'.A (r.comp (C s - X)) * G'.B, ?_, rfl⟩
    rw [aeval_comp, ← hA', ← Matrix.mul_assoc, hr', Matrix.one_mul]
  rw [← Matrix.mul_assoc, sandwich_aeval G G' hM, hD, Matrix.mul_assoc] at hY
  exact resp_iff_of_common hu hu' hY hY' Y


/-- **the Markov parameters are a complete invariant of the transfer matrix** (`K` infinite for
the direction `markov_of_resp`). -/
theorem markov_iff_resp [Infinite K] (G : SS σ ι o K) (G' : SS σ' ι o K) :
    (G.D = G'.D ∧ ∀ j : ℕ, G.C * G.A ^ j * G.B = G'.C * G'.A ^ j * G'.B) ↔
    ∀ s, IsUnit (s • (1 : Matrix σ σ K) - G.A) → IsUnit (s • (1 : Matrix σ' σ' K) - G'.A) →
      ∀ Y, G.Resp s Y ↔ G'.Resp s Y :=
  ⟨fun h s hu hu' Y => resp_of_markov G G' h.1 h.2 s hu hu' Y, markov_of_resp G G'⟩

/-- **realisations respond alike**: state-space systems with the same transfer matrix produce the
same outputs from rest for every input sequence (discrete time). -/
theorem realisations_from_rest [Infinite K] (G : SS σ ι o K) (G' : SS σ' ι o K)
    (h : ∀ s, IsUnit (s • (1 : Matrix σ σ K) - G.A) → IsUnit (s • (1 : Matrix σ' σ' K) - G'.A) →
      ∀ Y, G.Resp s Y ↔ G'.Resp s Y) (us : List (ι → K)) :
    outputs G (dStates G 0 us) us = outputs G' (dStates G' 0 us) us :=
  tf_from_rest_partial G G' (markov_of_resp G G' h).1 (markov_of_resp G G' h).2 us

/-- … also on grids that are multiples of the sampling time (the discrete branch of
`forced_response` with decimation factor `inc`: input interpolated, every `inc`-th output). -/
theorem realisations_from_rest_decimated [Infinite K] (G : SS σ ι o K) (G' : SS σ' ι o K)
    (h : ∀ s, IsUnit (s • (1 : Matrix σ σ K) - G.A) → IsUnit (s • (1 : Matrix σ' σ' K) - G'.A) →
      ∀ Y, G.Resp s Y ↔ G'.Resp s Y) (inc : ℕ) (us : List (ι → K)) :
    (simDiscrete G inc 0 us).2 = (simDiscrete G' inc 0 us).2 := by
  simp only [simDiscrete]
  rw [realisations_from_rest G G' h]

/-- the response from rest is the convolution of the input with the sequence
`H_0 = D, H_{j+1} = C A^j B` (`markov`):  `y_k = Σ_{j ≤ k} H_j u_{k-j}`. -/
theorem from_rest_convolution (G : SS σ ι o K) (us : List (ι → K)) (k : ℕ) (hk : k < us.length) :
    (outputs G (dStates G 0 us) us)[k]? =
      some (∑ j ∈ Finset.range (k + 1), markov G j *ᵥ us.getD (k - j) 0) ∧
    markov G 0 = G.D ∧ ∀ j, markov G (j + 1) = G.C * G.A ^ j * G.B :=
  ⟨outputs_conv G us k hk, rfl, fun _ => rfl⟩

/-- variation of constants: `x[k] = A^k x0 + Σ_{j<k} A^j B u[k-1-j]`. -/
theorem discrete_variation_of_constants (G : SS σ ι o K) (x0 : σ → K) (us : List (ι → K)) (k : ℕ)
    (hk : k < us.length) :
    (dStates G x0 us)[k]? = some ((G.A ^ k) *ᵥ x0 +
      ∑ j ∈ Finset.range k, (G.A ^ j * G.B) *ᵥ us.getD (k - 1 - j) 0) :=
  dStates_conv G x0 us k hk

/-! ### Long division -/

/-- the defining recursion of the impulse-response sequence of `b/a`:
`h_k = (b_k − Σ_{i=1..k} a_i h_{k-i}) / a₀`; equivalently (`a₀ ≠ 0`) `Σ_{i ≤ k} a_i h_{k-i} = b_k`,
and that equation determines the sequence. -/
theorem impulseSeq_recursion (a b : ℕ → K) :
    (∀ k, impulseSeq a b k =
      (b k - ∑ i ∈ Finset.range k, a (i + 1) * impulseSeq a b (k - 1 - i)) / a 0) ∧
    (a 0 ≠ 0 → ∀ k, ∑ i ∈ Finset.range (k + 1), a i * impulseSeq a b (k - i) = b k) ∧
    (a 0 ≠ 0 → ∀ h : ℕ → K, (∀ k, ∑ i ∈ Finset.range (k + 1), a i * h (k - i) = b k) →
      ∀ k, h k = impulseSeq a b k) :=
  ⟨impulseSeq_eq a b, fun ha => impulseSeq_spec a b ha, fun ha h hs => impulseSeq_unique a b ha h hs⟩

/- `s / (s − 2) = 1 + 2/s + 4/s² + …`;  `1 / (s² − s − 1)`: Fibonacci numbers. -/
example : (List.range 6).map (impulseSeq (fun k => [(1 : ℚ), -2].getD k 0)
    (fun k => [(1 : ℚ), 0].getD k 0)) = [1, 2, 4, 8, 16, 32] := by decide +kernel
example : (List.range 7).map (impulseSeq (fun k => [(1 : ℚ), -1, -1].getD k 0)
    (fun k => [(0 : ℚ), 0, 1].getD k 0)) = [0, 0, 1, 1, 2, 3, 5] := by decide +kernel

/-- **Markov parameters of a realisation of `b/a`** (coefficient functions `a₀ … a_n`, `b₀ … b_n`,
highest power first, `a₀ ≠ 0`; any entry `(i, j)` of any system): if off a finite set the entry is
`b(s)/a(s)`, then `D_ij, (C B)_ij, (C A B)_ij, …` is the long division of `b` by `a`. -/
theorem tf_markov [Infinite K] (G : SS σ ι o K) (i : o) (j : ι) (a b : ℕ → K) (n : ℕ)
    (ha0 : a 0 ≠ 0) (ha : ∀ k, n < k → a k = 0) (hb : ∀ k, n < k → b k = 0)
    (S : Set K) (hS : S.Finite)
    (hreal : ∀ s, s ∉ S → pval a n s ≠ 0 → IsUnit (s • (1 : Matrix σ σ K) - G.A) →
      ∃ Y, G.Resp s Y ∧ Y i j = pval b n s / pval a n s) :
    G.D i j = impulseSeq a b 0 ∧ ∀ k, (G.C * G.A ^ k * G.B) i j = impulseSeq a b (k + 1) :=
  ⟨markov_of_tf G i j a b n ha0 ha hb S hS hreal 0,
    fun k => markov_of_tf G i j a b n ha0 ha hb S hS hreal (k + 1)⟩

/-! ### Time invariance, causality, series connection, step vs impulse -/

/-- **time invariance**: delaying the input by `d` samples (zero padding) delays the states and the
outputs from rest by `d` samples. -/
theorem time_invariance (G : SS σ ι o K) (d : ℕ) (us : List (ι → K)) :
    dStates G 0 (List.replicate d 0 ++ us) = List.replicate d 0 ++ dStates G 0 us ∧
    outputs G (dStates G 0 (List.replicate d 0 ++ us)) (List.replicate d 0 ++ us)
      = List.replicate d 0 ++ outputs G (dStates G 0 us) us :=
  ⟨dStates_shift G d us, outputs_shift G d us⟩

/-- **causality**: the first `m` states / outputs are those of the first `m` input samples. -/
theorem causality (G : SS σ ι o K) (x : σ → K) (us : List (ι → K)) (m : ℕ) :
    dStates G x (us.take m) = (dStates G x us).take m ∧
    outputs G (dStates G x (us.take m)) (us.take m) = (outputs G (dStates G x us) us).take m :=
  ⟨dStates_take G x us m, outputs_take G x us m⟩

/-- … so on a grid of fixed length the delayed input (last `d` samples dropped) gives the delayed
output (last `d` samples dropped). -/
theorem time_invariance_fixed_length (G : SS σ ι o K) (d : ℕ) (us : List (ι → K)) :
    outputs G (dStates G 0 ((List.replicate d 0 ++ us).take us.length))
        ((List.replicate d 0 ++ us).take us.length)
      = (List.replicate d 0 ++ outputs G (dStates G 0 us) us).take us.length := by
  rw [(causality G 0 _ _).2, (time_invariance G d us).2]

example : (outputs (⟨!![2], !![1], !![1], !![1]⟩ : SS (Fin 1) (Fin 1) (Fin 1) ℚ)
      (dStates ⟨!![2], !![1], !![1], !![1]⟩ 0 [![0], ![0], ![1], ![3]]) [![0], ![0], ![1], ![3]]).map
        (fun v => v 0) = [0, 0, 1, 4] := by decide +kernel

end General

section Series

variable {K : Type*} [Field K] {σ₁ σ₂ ι ι₁ o : Type*} [Fintype σ₁] [Fintype σ₂] [Fintype ι]
  [Fintype ι₁]

/-- **series connection** (`G₁ * G₂` of `StateSpace.__mul__`: `G₂` first): from the initial state
`(x₂, x₁)` the states of the product are the states of `G₂` driven by `u` paired with the states of
`G₁` driven by the output of `G₂`, and the output is the output of `G₁` driven by the output of
`G₂`; in particular from rest. -/
theorem series_response (G₁ : SS σ₁ ι₁ o K) (G₂ : SS σ₂ ι ι₁ K) (x₁ : σ₁ → K) (x₂ : σ₂ → K)
    (us : List (ι → K)) :
    dStates (SS.mul G₁ G₂) (Sum.elim x₂ x₁) us
      = List.zipWith Sum.elim (dStates G₂ x₂ us)
          (dStates G₁ x₁ (outputs G₂ (dStates G₂ x₂ us) us)) ∧
    outputs (SS.mul G₁ G₂) (dStates (SS.mul G₁ G₂) (Sum.elim x₂ x₁) us) us
      = outputs G₁ (dStates G₁ x₁ (outputs G₂ (dStates G₂ x₂ us) us))
          (outputs G₂ (dStates G₂ x₂ us) us) :=
  ⟨dStates_mul G₁ G₂ x₁ x₂ us, outputs_mul G₁ G₂ x₁ x₂ us⟩

theorem series_from_rest (G₁ : SS σ₁ ι₁ o K) (G₂ : SS σ₂ ι ι₁ K) (us : List (ι → K)) :
    outputs (SS.mul G₁ G₂) (dStates (SS.mul G₁ G₂) 0 us) us
      = outputs G₁ (dStates G₁ 0 (outputs G₂ (dStates G₂ 0 us) us))
          (outputs G₂ (dStates G₂ 0 us) us) := by
  have h := (series_response G₁ G₂ 0 0 us).2
  have h0 : (Sum.elim (0 : σ₂ → K) (0 : σ₁ → K)) = 0 := by ext (s | s) <;> rfl
  rwa [h0] at h

/- `1/(z-2)` after `1/(z-3)`: outputs of the product = cascade -/
example : (outputs (SS.mul (⟨!![2], !![1], !![1], !![0]⟩ : SS (Fin 1) (Fin 1) (Fin 1) ℚ)
      (⟨!![3], !![1], !![1], !![0]⟩ : SS (Fin 1) (Fin 1) (Fin 1) ℚ))
      (dStates (SS.mul ⟨!![2], !![1], !![1], !![0]⟩ ⟨!![3], !![1], !![1], !![0]⟩) 0
        [![1], ![0], ![0], ![0]]) [![1], ![0], ![0], ![0]]).map (fun v => v 0) = [0, 0, 1, 5] := by
  decide +kernel

end Series

section StepImpulse

variable {K : Type*} [Field K] {σ ι o : Type*} [Fintype σ] [DecidableEq σ] [Fintype ι]

/-- **step = running sum of the impulse response**, in the code's convention: the discrete impulse
has height `c = 1/dt` in the first sample (direction `v`, e.g. a unit vector `e_i`), the step has
height `1`; from rest `y_step[k] = c⁻¹ · Σ_{j ≤ k} y_impulse[j]` (`= dt · Σ …`), and
`y_impulse[k] = c H_k v`, `y_step[k] = Σ_{j ≤ k} H_j v`. -/
theorem step_cumsum_impulse (G : SS σ ι o K) (v : ι → K) (c : K) (hc : c ≠ 0) (N k : ℕ)
    (hk : k < N + 1) :
    (outputs G (dStates G 0 (List.replicate (N + 1) v)) (List.replicate (N + 1) v))[k]? =
      some (c⁻¹ • ((outputs G (dStates G 0 ((c • v) :: List.replicate N 0))
        ((c • v) :: List.replicate N 0)).take (k + 1)).sum) ∧
    (outputs G (dStates G 0 ((c • v) :: List.replicate N 0)) ((c • v) :: List.replicate N 0))[k]? =
      some (c • (markov G k *ᵥ v)) ∧
    (outputs G (dStates G 0 (List.replicate (N + 1) v)) (List.replicate (N + 1) v))[k]? =
      some (∑ j ∈ Finset.range (k + 1), markov G j *ᵥ v) := by
  refine ⟨?_, ?_, step_outputs G v (N + 1) k hk⟩
  · rw [step_outputs G v (N + 1) k hk, impulse_partial_sums G (c • v) N k hk, Finset.smul_sum]
    congr 1
    apply Finset.sum_congr rfl
    intro j _
    rw [Matrix.mulVec_smul, smul_smul, inv_mul_cancel₀ hc, one_smul]
  · rw [impulse_outputs G (c • v) N k hk, Matrix.mulVec_smul]

/- `dt = 1/2`: impulse input `2, 0, 0, 0` gives `2·(1, 1, 2, 4)`; step gives `1, 2, 4, 8`. -/
example : ((outputs (⟨!![2], !![1], !![1], !![1]⟩ : SS (Fin 1) (Fin 1) (Fin 1) ℚ)
      (dStates ⟨!![2], !![1], !![1], !![1]⟩ 0 [![2], ![0], ![0], ![0]]) [![2], ![0], ![0], ![0]]).map
        (fun v => v 0),
    (outputs (⟨!![2], !![1], !![1], !![1]⟩ : SS (Fin 1) (Fin 1) (Fin 1) ℚ)
      (dStates ⟨!![2], !![1], !![1], !![1]⟩ 0 [![1], ![1], ![1], ![1]]) [![1], ![1], ![1], ![1]]).map
        (fun v => v 0)) = ([2, 2, 4, 8], [1, 2, 4, 8]) := by decide +kernel

end StepImpulse

/-! ### Transfer functions given by the coefficient lists of the code -/

section TF

variable {K : Type} [Field K] [DecidableEq K] {σ : Type*} [Fintype σ] [DecidableEq σ]

/-- **`tf_from_rest`.**  Let `G` be ANY SISO state-space realisation of the transfer function
`num/den` (coefficient lists, highest power first, as in the code; `den` not all zero, `num` not
longer than `den` without its leading zeros): at all but finitely many `s` with `den(s) ≠ 0` that
are not eigenvalues of `A`, `num(s)/den(s)` is the value of `G`.  Then, with
`h = tfImpulse num den` (long division of `num` by `den`, `impulseSeq_recursion`):
`D = h_0`, `C A^k B = h_{k+1}`; for every input sequence the output from rest is
`y_k = Σ_{j ≤ k} h_j u_{k-j}`; and the outputs satisfy the difference equation
`Σ_{i ≤ k} a_i y_{k-i} = Σ_{i ≤ k} b_i u_{k-i}` (`a = denSeq den`, `b = numSeq num den`, both `0`
beyond the degree). -/
theorem tf_from_rest [Infinite K] (G : SS σ (Fin 1) (Fin 1) K) (num den : List K) (a0 : K)
    (ar : List K) (hden : den.dropWhile (· = 0) = a0 :: ar) (hprop : num.length ≤ ar.length + 1)
    (S : Set K) (hS : S.Finite)
    (hreal : ∀ s, s ∉ S → polyval den s ≠ 0 → IsUnit (s • (1 : Matrix σ σ K) - G.A) →
      G.Resp s (fun _ _ => polyval num s / polyval den s)) :
    (G.D 0 0 = tfImpulse num den 0 ∧ ∀ k, (G.C * G.A ^ k * G.B) 0 0 = tfImpulse num den (k + 1)) ∧
    ∀ (us : List (Fin 1 → K)) (k : ℕ), k < us.length →
      (outputs G (dStates G 0 us) us)[k]? =
        some (fun _ => ∑ j ∈ Finset.range (k + 1), tfImpulse num den j * us.getD (k - j) 0 0) ∧
      ∑ i ∈ Finset.range (k + 1),
          denSeq den i * (outputs G (dStates G 0 us) us).getD (k - i) 0 0
        = ∑ i ∈ Finset.range (k + 1), numSeq num den i * us.getD (k - i) 0 0 := by
  have ha0 := denSeq_zero den a0 ar hden
  have hm : ∀ k, markov G k 0 0 = tfImpulse num den k :=
    markov_of_tf G 0 0 (denSeq den) (numSeq num den) ar.length (by rw [ha0.1]; exact ha0.2)
      (denSeq_high den a0 ar hden) (numSeq_high num den a0 ar hden hprop) S hS
      (fun s hs hp hu => by
        rw [← polyval_den den a0 ar hden] at hp
        refine ⟨_, hreal s hs hp hu, ?_⟩
        rw [← polyval_den den a0 ar hden, ← polyval_num num den a0 ar hden hprop])
  have hy : ∀ (us : List (Fin 1 → K)) (k : ℕ), k < us.length →
      (outputs G (dStates G 0 us) us)[k]? =
        some (fun _ => ∑ j ∈ Finset.range (k + 1), tfImpulse num den j * us.getD (k - j) 0 0) := by
    intro us k hk
    rw [siso_outputs_conv G us k hk]
    simp only [hm]
  refine ⟨⟨hm 0, fun k => hm (k + 1)⟩, fun us k hk => ⟨hy us k hk, ?_⟩⟩
  have hconv := conv_assoc (denSeq den) (tfImpulse num den) (numSeq num den)
    (fun m => us.getD m 0 0)
    (impulseSeq_spec (denSeq den) (numSeq num den) (by rw [ha0.1]; exact ha0.2)) k
  rw [← hconv]
  apply Finset.sum_congr rfl
  intro i hi
  have hki : k - i < us.length := by omega
  rw [List.getD_eq_getElem?_getD, hy us (k - i) hki]
  rfl

/-- **`tf2ss_from_rest`**: the realisation python-control uses for a SISO `TransferFunction`
(`tf2ssList` = `scipy.signal.tf2ss`: controller canonical form of the normalised coefficients) is
such a realisation — whenever it returns, its Markov parameters are the long division of `num` by
`den` and its response from rest is the convolution / satisfies the difference equation. -/
theorem tf2ss_from_rest [Infinite K] (num den : List K) (dt : Dt) (S : DSS K)
    (h : tf2ssList num den dt = .ok S) (i : Fin S.p) (j : Fin S.m) :
    (S.sys.D i j = tfImpulse num den 0 ∧
      ∀ k, (S.sys.C * S.sys.A ^ k * S.sys.B) i j = tfImpulse num den (k + 1)) ∧
    ∀ (us : List (Fin S.m → K)) (k : ℕ), k < us.length →
      (outputs S.sys (dStates S.sys 0 us) us)[k]? =
        some (fun _ => ∑ l ∈ Finset.range (k + 1), tfImpulse num den l * us.getD (k - l) 0 j) ∧
      ∑ l ∈ Finset.range (k + 1),
          denSeq den l * (outputs S.sys (dStates S.sys 0 us) us).getD (k - l) 0 i
        = ∑ l ∈ Finset.range (k + 1), numSeq num den l * us.getD (k - l) 0 j := by
  have hresp := fun s hs => C03.tf2ss_resp num den dt S h s hs
  unfold tf2ssList at h
  split at h
  · cases h
  · rename_i a0 ar hdw
    split at h
    · cases h
    · rename_i hlen
      cases h
      have hi : i = 0 := Subsingleton.elim _ _
      have hj : j = 0 := Subsingleton.elim _ _
      subst hi hj
      exact tf_from_rest _ num den a0 ar hdw (by omega) ∅ Set.finite_empty
        (fun s _ hp _ => hresp s hp)

/- non-vacuity: `tf2ss` of `(2 s + 1)/(s² − s − 1)` returns, and the sequence is `0, 2, 3, 5, 8` -/
example : ∃ S, tf2ssList [(2 : ℚ), 1] [0, 1, -1, -1] .dtrue = .ok S := ⟨_, rfl⟩
example : (List.range 5).map (tfImpulse [(2 : ℚ), 1] [0, 1, -1, -1]) = [0, 2, 3, 5, 8] := by
  decide +kernel
example (S : DSS ℚ) (h : tf2ssList [(2 : ℚ), 1] [0, 1, -1, -1] .dtrue = .ok S) (i : Fin S.p)
    (j : Fin S.m) :
    (S.sys.C * S.sys.A ^ 3 * S.sys.B : Matrix (Fin S.p) (Fin S.m) ℚ) i j = 8 := by
  rw [((tf2ss_from_rest _ _ _ S h i j).1).2 3]
  decide +kernel

end TF

/-! ### The executable model (`forced`) -/

section Exec

/-- **step = running sum of the impulse response, for the model's `forced_response`**: for a
discrete-time system (`dt > 0`, `True` or `None`) on a grid whose spacing is the sampling time
(decimation factor 1), the call `step_response` makes (`U[i, :] = 1`) and the call
`impulse_response` makes (`U[i, 0] = 1/dt`, `dt = 1` for `True / None`) both succeed and
`y_step[k] = dt · Σ_{j ≤ k} y_impulse[j]`. -/
theorem step_cumsum_impulse_forced (G : DSS ℚ) (T : List ℚ) (i : ℕ) (dt : ℚ)
    (hg : gridStep T = .ok dt) (hd : G.dt ≠ .cont) (hinc : decimation G.dt dt = .ok 1) :
    ∃ ri rs,
      forced G (some T) (unitRow G.m T.length i (1 / (match G.dt with | .disc h => h | _ => 1)) 0)
        (.scalar 0) none = .ok ri ∧
      forced G (some T) (unitRow G.m T.length i 1 1) (.scalar 0) none = .ok rs ∧
      ∀ k, k < T.length → (rs.y.map Vector.get)[k]? =
        some ((match G.dt with | .disc h => h | _ => 1) •
          ((ri.y.map Vector.get).take (k + 1)).sum) := by
  have hh : (match G.dt with | .disc h => h | _ => (1 : ℚ)) ≠ 0 := by
    cases hdt : G.dt with
    | disc h =>
      rw [hdt] at hinc
      exact ne_of_gt (decimation_disc h dt 1 hinc).1
    | _ => simp
  generalize (match G.dt with | .disc h => h | _ => (1 : ℚ)) = c at hh ⊢
  refine ⟨_, _, forced_unitRow G T i (1 / c) 0 dt hg hd hinc, forced_unitRow G T i 1 1 dt hg hd hinc,
    fun k hk => ?_⟩
  obtain ⟨M, hM⟩ : ∃ M, T.length = M + 1 := ⟨T.length - 1, by have := (gridStep_ok T dt hg).1; omega⟩
  simp only [simDiscreteV_one_outputs, hM, unitInput_step, unitInput_impulse]
  have h := (step_cumsum_impulse G.sys (fun r : Fin G.m => if r.val = i then (1 : ℚ) else 0) (1 / c)
    (one_div_ne_zero hh) M k (by omega)).1
  rw [h]
  simp


example : gridStep [0, 1/2, 1, 3/2] = .ok (1/2) ∧ decimation (.disc (1/2)) (1/2) = .ok 1 := by
  decide +kernel

/- the hypotheses of `forced_from_rest` / `forced_tf_from_rest` hold on a concrete call -/
example : (match forced ⟨1, 1, 1, ⟨!![2], !![1], !![1], !![1]⟩, .disc (1/2)⟩ (some [0, 1/2, 1])
    (.d1 [1, 0, 0]) (.scalar 0) none with | .ok r => r.y.map Vector.toList | .error _ => [])
    = [[1], [1], [2]] := by decide +kernel

/-- the model's `forced_response` from rest in discrete time, grid spacing = sampling time: the
returned outputs are the spec-level outputs from rest for the returned (validated) input. -/
theorem forced_from_rest (G : DSS ℚ) (T : List ℚ) (U : Arr) (dt : ℚ) (r : Trace G.n G.p G.m)
    (hg : gridStep T = .ok dt) (hd : G.dt ≠ .cont) (hinc : decimation G.dt dt = .ok 1)
    (hf : forced G (some T) U (.scalar 0) none = .ok r) :
    convertU G.m T.length U = .ok r.u ∧
    r.y.map Vector.get = outputs G.sys (dStates G.sys 0 (r.u.map Vector.get)) (r.u.map Vector.get) := by
  obtain ⟨n, p, m, sys, d⟩ := G
  simp only at hd hinc hf r ⊢
  cases hu : convertU m T.length U with
  | error e =>
    simp [forced, timeVector, hg, convertX0, hu, bind, Except.bind] at hf
  | ok us =>
    have : r = ⟨T, (simDiscreteV sys 1 (Vector.replicate n 0) us).1,
        (simDiscreteV sys 1 (Vector.replicate n 0) us).2, us⟩ := by
      cases d with
      | cont => exact absurd rfl hd
      | none =>
        simp [forced, timeVector, hg, convertX0, hu, hinc, bind, Except.bind, pure, Except.pure] at hf
        exact hf.symm
      | dtrue =>
        simp [forced, timeVector, hg, convertX0, hu, hinc, bind, Except.bind, pure, Except.pure] at hf
        exact hf.symm
      | disc h =>
        simp [forced, timeVector, hg, convertX0, hu, hinc, bind, Except.bind, pure, Except.pure] at hf
        exact hf.symm
    subst this
    exact ⟨rfl, simDiscreteV_one_outputs sys us⟩

/-- **`forced_response` of a SISO `TransferFunction` from rest** (the code converts it with
`tf2ss` and simulates the realisation): in discrete time on a grid at the sampling time the
returned output is the convolution of the returned input with the long division of `num` by `den`
— whatever realisation the conversion picks. -/
theorem forced_tf_from_rest (num den : List ℚ) (dtb : Dt) (S : DSS ℚ)
    (h : Convert.tf2ssList num den dtb = .ok S) (T : List ℚ) (U : Arr) (dt : ℚ)
    (r : Trace S.n S.p S.m) (hg : gridStep T = .ok dt) (hd : S.dt ≠ .cont)
    (hinc : decimation S.dt dt = .ok 1) (hf : forced S (some T) U (.scalar 0) none = .ok r)
    (i : Fin S.p) (j : Fin S.m) (k : ℕ) (hk : k < r.u.length) :
    (r.y.map Vector.get)[k]? = some (fun _ => ∑ l ∈ Finset.range (k + 1),
      tfImpulse num den l * (r.u.map Vector.get).getD (k - l) 0 j) := by
  rw [(forced_from_rest S T U dt r hg hd hinc hf).2]
  exact ((tf2ss_from_rest num den dtb S h i j).2 _ k (by simpa using hk)).1

end Exec

/-! ### Non-vacuity of `markov_of_resp` -/

section Example

/-- a one-state system and a non-minimal two-state system with the same transfer function
`1/(s-2)` (the second state is not reachable). -/
def exG : SS (Fin 1) (Fin 1) (Fin 1) ℚ := ⟨!![2], !![1], !![1], !![0]⟩
def exG' : SS (Fin 2) (Fin 1) (Fin 1) ℚ := ⟨!![2, 0; 0, 5], !![1; 0], !![1, 7], !![0]⟩

/-- non-vacuity of `markov_of_resp` / `realisations_from_rest`: the hypothesis holds for this pair. -/
theorem realisation_example (s : ℚ) (hu : IsUnit (s • (1 : Matrix (Fin 1) (Fin 1) ℚ) - exG.A))
    (hu' : IsUnit (s • (1 : Matrix (Fin 2) (Fin 2) ℚ) - exG'.A)) (Y : Matrix (Fin 1) (Fin 1) ℚ) :
    exG.Resp s Y ↔ exG'.Resp s Y := by
  have h2 : s - 2 ≠ 0 := by
    have := (Matrix.isUnit_iff_isUnit_det _).mp hu
    simpa [exG, Matrix.det_unique] using this
  refine resp_iff_of_common hu hu' (Y0 := !![1 / (s - 2)]) ⟨!![1 / (s - 2)], ?_, ?_⟩
    ⟨!![1 / (s - 2); 0], ?_, ?_⟩ Y
  · ext i j; fin_cases i; fin_cases j; simp [exG, Matrix.mul_apply]; field_simp
  · ext i j; fin_cases i; fin_cases j; simp [exG, Matrix.mul_apply]
  · ext i j; fin_cases i <;> fin_cases j <;> simp [exG', Matrix.mul_apply, Fin.sum_univ_two]
    field_simp
  · ext i j; fin_cases i; fin_cases j; simp [exG', Matrix.mul_apply, Fin.sum_univ_two]

example : exG.C * exG.A ^ 3 * exG.B = exG'.C * exG'.A ^ 3 * exG'.B :=
  (markov_of_resp exG exG' realisation_example).2 3


example (us : List (Fin 1 → ℚ)) :
    outputs exG (dStates exG 0 us) us = outputs exG' (dStates exG' 0 us) us :=
  realisations_from_rest exG exG' realisation_example us

end Example

end CtrlVerif.C06
