/-
Source-text tie of C16, part 5: the whole L∞ branch of `system_norm` (control/sysnorm.py, method
'scipy'): the matrix assignments and the body of `elif p == "inf":` — `poles = G.poles()`, the
boundary-pole tests per timebase, and (as calls of the generated blocks of parts 2–4) the inverse
bilinear transformation of a discrete-time system, the bounds and the two loops.
`Generated/NormLinf.lean` is rewritten from the source text on every run
(harness/core/py2lean_norm.py).  The theorem below proves that for every `StateSpace` object with a
timebase the constructors accept, every tolerance and every fuel the generated function IS the
model's `Norm.linf`, the model's external routines being instantiated by `linfExt`
(`la.inv` = exact inverse / `LinAlgError` on a singular matrix, `la.norm(D, 2)` and `la.eigvals` the
parameters of the generated function), under the two facts the model takes for granted:
`G.poles()` is `la.eigvals(G.A)` (the `z = 0` test of the code reads `la.eigvals(Ad)`, the model the
pole list) and `la.norm(·, 2) ≥ 0`.
-/
import CtrlVerif.Generated.NormLinf
import CtrlVerif.Props.C16GenBil
import CtrlVerif.Props.C16GenLoops

namespace CtrlVerif.C16Gen

open Matrix CtrlVerif CtrlVerif.Norm

variable {K : Type} [Field K] [LinearOrder K]

/-- the external routines of the model's L∞ computation, as the source text uses them. -/
def linfExt (eigvals : PMat K → List (Pole K)) (norm2 : PMat K → K) (n m p : Nat) :
    LinfExt (Fin n) (Fin m) (Fin p) K where
  sigmaMax := fun D => norm2 ⟨p, m, D⟩
  inv := invOpt
  invS := invOpt
  imagEig := imagEigOf eigvals

/-- on a timebase the constructors accept, `G.isdtime()` is the model's `isDtime`. -/
theorem isdtime_model {d : Dt} (hv : d.valid) : DtPred.isdtime false d = isDtime d := by
  cases d with
  | disc h =>
    have h0 : 0 < h := hv
    simp [isDtime, DtPred.isdtime, h0]
  | _ => simp [isDtime, DtPred.isdtime]

variable [IsStrictOrderedRing K]

/-- the continuous-time part on typed matrices is the model's `linfCont`. -/
theorem generated_linfCont_model (eigvals : PMat K → List (Pole K)) (norm2 : PMat K → K) (fuel : Nat)
    {n m p : Nat} (G : SS (Fin n) (Fin m) (Fin p) K) (tol : K) (h0 : ∀ X, 0 ≤ norm2 X) :
    Generated.normLinfCont eigvals norm2 fuel ⟨n, n, G.A⟩ ⟨n, m, G.B⟩ ⟨p, n, G.C⟩ ⟨p, m, G.D⟩ tol
      = linfCont (linfExt eigvals norm2 n m p) tol fuel G := by
  rw [generated_linfCont_eq eigvals norm2 fuel G tol (h0 _)]
  rfl

/-- **the L∞ branch of `system_norm`** (matrix assignments + body of `elif p == "inf":`) as the source
text says it IS the model's `linf`, for every system, pole list, tolerance and fuel. -/
theorem generated_linf_eq (eigvals : PMat K → List (Pole K)) (norm2 : PMat K → K) (fuel : Nat)
    (G : DSS K) (poles : List (Pole K)) (tol : K) (hv : G.dt.valid)
    (hp : eigvals (PySS.A G) = poles) (h0 : ∀ X, 0 ≤ norm2 X) :
    Generated.normLinf eigvals norm2 fuel G poles tol
      = linf (linfExt eigvals norm2 G.n G.m G.p) tol fuel G.dt G.sys poles := by
  obtain ⟨n, p, m, ⟨A, B, C, D⟩, dt⟩ := G
  unfold Generated.normLinf linf
  simp only [PySS.A, PySS.B, PySS.C, PySS.D, bind, pure, Except.pure] at hp hv ⊢
  rw [← isdtime_model hv]
  simp only [PyNorm.any_absIsclose_one, PyNorm.any_isclose_real_zero]
  by_cases hd : DtPred.isdtime false dt = true
  · simp only [hd, ↓reduceIte]
    by_cases h1 : onCircle poles = true
    · simp only [h1, ↓reduceIte]
    · simp only [h1, Bool.false_eq_true, ↓reduceIte]
      rw [generated_bilinear_eq eigvals ⟨A, B, C, D⟩]
      simp only [hp]
      by_cases h2 : atOrigin poles = true
      · simp only [h2, ↓reduceIte, Except.bind]
      · simp only [h2, Bool.false_eq_true, ↓reduceIte, linfExt, invOpt]
        by_cases h3 : (A + 1).det = 0
        · simp only [h3, ↓reduceIte, Except.bind]
        · simp only [h3, ↓reduceIte, Except.bind, quad]
          exact generated_linfCont_model eigvals norm2 fuel _ tol h0
  · simp only [hd, Bool.false_eq_true, ↓reduceIte]
    by_cases h1 : onAxis poles = true
    · simp only [h1, ↓reduceIte]
    · simp only [h1, Bool.false_eq_true, ↓reduceIte, Except.bind]
      exact generated_linfCont_model eigvals norm2 fuel ⟨A, B, C, D⟩ tol h0

/-! ### the branches of the property, for the function the source text defines -/

/-- continuous time: a pole on the imaginary axis gives `inf`. -/
theorem generated_linf_boundary_cont (eigvals : PMat K → List (Pole K)) (norm2 : PMat K → K) (fuel : Nat)
    (G : DSS K) (poles : List (Pole K)) (tol : K) (hd : DtPred.isdtime false G.dt = false)
    (h : onAxis poles = true) :
    Generated.normLinf eigvals norm2 fuel G poles tol = .ok .inf := by
  unfold Generated.normLinf
  simp only [bind, pure, Except.pure, PyNorm.any_isclose_real_zero, hd, Bool.false_eq_true, ↓reduceIte, h]

/-- discrete time (`dt = True`, a number, or `None`): a pole on the unit circle gives `inf`. -/
theorem generated_linf_boundary_disc (eigvals : PMat K → List (Pole K)) (norm2 : PMat K → K) (fuel : Nat)
    (G : DSS K) (poles : List (Pole K)) (tol : K) (hd : DtPred.isdtime false G.dt = true)
    (h : onCircle poles = true) :
    Generated.normLinf eigvals norm2 fuel G poles tol = .ok .inf := by
  unfold Generated.normLinf
  simp only [bind, pure, Except.pure, PyNorm.any_absIsclose_one, hd, ↓reduceIte, h]

/-- discrete time: an eigenvalue of `Ad` at `z = 0` raises `ControlArgument`. -/
theorem generated_linf_origin_raises (eigvals : PMat K → List (Pole K)) (norm2 : PMat K → K) (fuel : Nat)
    (G : DSS K) (poles : List (Pole K)) (tol : K) (hd : DtPred.isdtime false G.dt = true)
    (h1 : onCircle poles = false) (h : atOrigin (eigvals (PySS.A G)) = true) :
    Generated.normLinf eigvals norm2 fuel G poles tol = .error .badArg := by
  obtain ⟨n, p, m, ⟨A, B, C, D⟩, dt⟩ := G
  unfold Generated.normLinf
  simp only [PySS.A, PySS.B, PySS.C, PySS.D, bind, pure, Except.pure, PyNorm.any_absIsclose_one] at hd h ⊢
  simp only [hd, ↓reduceIte, h1, Bool.false_eq_true]
  rw [generated_bilinear_eq eigvals ⟨A, B, C, D⟩]
  simp only [h, ↓reduceIte, Except.bind]

/-- discrete time otherwise: the continuous-time computation on the matrices the generated inverse
bilinear block returns. -/
theorem generated_linf_disc_unfold (eigvals : PMat K → List (Pole K)) (norm2 : PMat K → K) (fuel : Nat)
    (G : DSS K) (poles : List (Pole K)) (tol : K) (hd : DtPred.isdtime false G.dt = true)
    (h1 : onCircle poles = false) (h2 : atOrigin (eigvals (PySS.A G)) = false)
    (h3 : (G.sys.A + 1).det ≠ 0) :
    Generated.normLinf eigvals norm2 fuel G poles tol
      = (let Gc := invBilinear G.sys (PMat.inverse (G.sys.A + 1))
         Generated.normLinfCont eigvals norm2 fuel ⟨G.n, G.n, Gc.A⟩ ⟨G.n, G.m, Gc.B⟩ ⟨G.p, G.n, Gc.C⟩
           ⟨G.p, G.m, Gc.D⟩ tol) := by
  obtain ⟨n, p, m, ⟨A, B, C, D⟩, dt⟩ := G
  unfold Generated.normLinf
  simp only [PySS.A, PySS.B, PySS.C, PySS.D, bind, pure, Except.pure, PyNorm.any_absIsclose_one] at hd h2 h3 ⊢
  simp only [hd, ↓reduceIte, h1, Bool.false_eq_true]
  rw [generated_bilinear_eq eigvals ⟨A, B, C, D⟩]
  simp only [h2, Bool.false_eq_true, ↓reduceIte, h3, Except.bind, quad]

/-- **end to end, discrete time**: when the source-text function returns a number `g` for a
discrete-time system `Gd`, (i) the inverse bilinear image `Gc` the loops ran on responds at every
`s ≠ 2` with what `Gd` responds with at `z = (2 + s)/(2 − s)`, and (ii) if the eigenvalue test the
loops evaluate on `Gc` is the threshold test at `γ*` above `‖D_c‖₂ ≤ γ*`, then `(1 − tol) γ* ≤ g` and
`(1 − tol) g ≤ γ*`. -/
theorem generated_linf_discrete_chain (eigvals : PMat K → List (Pole K)) (norm2 : PMat K → K) (fuel : Nat)
    (G : DSS K) (poles : List (Pole K)) (tol γs g : K) (hd : DtPred.isdtime false G.dt = true)
    (h1 : onCircle poles = false) (h2 : atOrigin (eigvals (PySS.A G)) = false)
    (h3 : (G.sys.A + 1).det ≠ 0) (h0 : ∀ X, 0 ≤ norm2 X) (htol0 : 0 ≤ tol) (htol1 : tol ≤ 1)
    (hs : norm2 ⟨G.p, G.m, (invBilinear G.sys (PMat.inverse (G.sys.A + 1))).D⟩ ≤ γs)
    (htest : ∀ γ, norm2 ⟨G.p, G.m, (invBilinear G.sys (PMat.inverse (G.sys.A + 1))).D⟩ < γ →
      genTest eigvals (invBilinear G.sys (PMat.inverse (G.sys.A + 1))) γ = .ok (decide (γ ≤ γs)))
    (h : Generated.normLinf eigvals norm2 fuel G poles tol = .ok (.val g)) :
    (∀ (s : K) (Y : Matrix (Fin G.p) (Fin G.m) K), s ≠ 2 → G.sys.Resp ((2 + s) / (2 - s)) Y →
        (invBilinear G.sys (PMat.inverse (G.sys.A + 1))).Resp s Y) ∧
      (1 - tol) * γs ≤ g ∧ (1 - tol) * g ≤ γs := by
  rw [generated_linf_disc_unfold eigvals norm2 fuel G poles tol hd h1 h2 h3] at h
  refine ⟨fun s Y hs2 hY => C16.inv_bilinear_resp G.sys _ (mul_inverse _ h3) two_ne_zero s hs2 hY, ?_⟩
  exact (generated_linf_within_tol eigvals norm2 fuel _ tol γs g (h0 _) hs htol0 htol1 htest h).2

/-! ### non-vacuity (`x⁺ = x/2 + u`, `y = x`, and the integrator `x⁺ = x + u`) -/

-- `generated_linf_eq`: its hypotheses are met (any `eigvals` that is constant, `norm2 = 0`)
example := generated_linf_eq (fun _ => [(⟨1/2, 0⟩ : Pole ℚ)]) (fun _ => 0) 6
  ⟨1, 1, 1, ⟨!![1/2], !![1], !![1], !![0]⟩, .dtrue⟩ [⟨1/2, 0⟩] (1/8) trivial rfl (fun _ => le_refl _)

example : Generated.normLinf (fun _ => [(⟨1, 0⟩ : Pole ℚ)]) (fun _ => 0) 6
    ⟨1, 1, 1, ⟨!![1], !![1], !![1], !![0]⟩, .disc 1⟩ [⟨1, 0⟩] (1/8) = .ok .inf :=
  generated_linf_boundary_disc _ _ _ _ _ _ (by decide) (by simp [onCircle, Pole.absSq])

example : Generated.normLinf (fun _ => [(⟨0, 0⟩ : Pole ℚ)]) (fun _ => 0) 6
    ⟨1, 1, 1, ⟨!![0], !![1], !![1], !![0]⟩, .none⟩ [⟨0, 0⟩] (1/8) = .error .badArg :=
  generated_linf_origin_raises _ _ _ _ _ _ (by decide) (by simp [onCircle, Pole.absSq]) (by simp [atOrigin])

example : Generated.normLinf (fun _ => [(⟨0, 1⟩ : Pole ℚ)]) (fun _ => 0) 6
    ⟨1, 1, 1, ⟨!![0], !![1], !![1], !![0]⟩, .cont⟩ [⟨0, 1⟩] (1/8) = .ok .inf :=
  generated_linf_boundary_cont _ _ _ _ _ _ (by decide) (by simp [onAxis])

-- `generated_linf_discrete_chain` on a static gain (`γ* = ‖D‖₂ = 3`, the test never fires)
/-- the static gain `y = 3u` in discrete time, and its inverse bilinear image (itself). -/
def exS : DSS ℚ := ⟨0, 1, 1, ⟨0, 0, 0, !![3]⟩, .dtrue⟩
def exSc : SS (Fin 0) (Fin 1) (Fin 1) ℚ := ⟨0, 0, 0, !![3]⟩

theorem exSc_image (Ai : Matrix (Fin 0) (Fin 0) ℚ) : invBilinear exSc Ai = exSc := by
  unfold invBilinear exSc
  congr 1
  · exact Subsingleton.elim _ _
  · exact Subsingleton.elim _ _
  · exact Subsingleton.elim _ _
  · ext i j; fin_cases i; fin_cases j; simp

theorem exS_image : invBilinear exS.sys (PMat.inverse (exS.sys.A + 1)) = exSc := exSc_image _

theorem exS_det : (exS.sys.A + 1).det ≠ 0 := by
  show ((0 : Matrix (Fin 0) (Fin 0) ℚ) + 1).det ≠ 0
  simp [Matrix.det_isEmpty]

theorem exS_test (γ : ℚ) (hγ : 3 < γ) : genTest (fun _ => []) exSc γ = .ok (decide (γ ≤ 3)) := by
  rw [genTest_eq]
  have hRm : Rmat exSc γ = !![γ ^ 2 - 9] := by
    ext i j; fin_cases i; fin_cases j; simp [Rmat, exSc, Matrix.mul_apply]; norm_num
  have hne : γ ^ 2 - 9 ≠ 0 := by nlinarith
  unfold eigTest invOpt
  rw [hRm]
  simp [hne, imagEigOf, PyNorm.any, PyNorm.isclose, PyNorm.real, not_le.mpr hγ]

theorem exS_value : Generated.normLinf (fun _ => []) (fun _ => 3) 4 exS [] (1/4) = .ok (.val (15/4)) := by
  rw [generated_linf_disc_unfold _ _ _ _ _ _ (by decide) (by simp [onCircle]) (by simp [atOrigin])
    exS_det]
  simp only []
  rw [exS_image]
  have := generated_linfCont_eq (fun _ => []) (fun _ => (3 : ℚ)) 4 exSc (1/4) (by norm_num)
  rw [← genTest_eq] at this
  refine Eq.trans this ?_
  have t1 := exS_test 6 (by norm_num)
  have t2 := exS_test (9/2) (by norm_num)
  have t3 := exS_test (15/4) (by norm_num)
  norm_num [linfLoops, upperLoop, bisectLoop, t1, t2, t3]

example := generated_linf_discrete_chain (fun _ => []) (fun _ => 3) 4 exS [] (1/4) 3 (15/4) (by decide)
  (by simp [onCircle]) (by simp [atOrigin]) exS_det (fun _ => by norm_num) (by norm_num) (by norm_num)
  (le_refl _) (fun γ hγ => by rw [exS_image]; exact exS_test γ hγ) exS_value

end CtrlVerif.C16Gen
