/-
C03-FL — the state-space → transfer-function conversion of the model is correct as an ALGORITHM.

Props/C03.lean proves: IF the run-time certificate `chainOK A 1 (flvPropose A)` checks, THEN the
numerators / common denominator built from the Faddeev–LeVerrier proposal are the transfer matrix
(`ss2tf_certificate`, `ss2tf_sem`, `toTF_val`).  This file removes the IF.  Over a field `K` in
which `1, 2, …, n` are invertible (`DivOK K n`; in particular every field of characteristic 0 —
Faddeev–LeVerrier divides by the step number `k`, so some such hypothesis is necessary, see the
`ZMod 2` example at the end), for EVERY `n` and EVERY `A : Matrix (Fin n) (Fin n) K`:

  (1) `fl_certificate`  the list produced by the model's recursion `Convert.flvPropose A`
      (`M₀ = I`, `c_k = −tr(A M_{k−1})/k`, `M_k = A M_{k−1} + c_k I`) ALWAYS satisfies the
      certificate equations, including the closing equation `A M_{n−1} + c_n I = 0`; hence the
      model's run-time check can never fail (`certOK_true`, `chainCertOK_true`,
      `mixedCertOK_true`) and `toTF` is total (`toTF_total`);
  (2) `fl_charpoly`     the scalar sequence is the characteristic polynomial of `A` (Mathlib's
      `Matrix.charpoly`) — as a polynomial and coefficient by coefficient — and the matrix
      sequence is the coefficient sequence of `adj(X·1 − A)`, so `Σ_k N_k s^k = adj(sI − A)`;
  (3) `ss2tf_correct`   for every `G` and every `s` that is not an eigenvalue of `G.A`
      (`s ∉ spectrum K G.A`; equivalently no eigenvector, `ss2tf_correct_of_no_eigenvector`), the
      common denominator does not vanish at `s` and the entries `N_ij(s)/d(s)` computed by the
      model equal `(C (sI − A)⁻¹ B + D)_ij` — NO certificate hypothesis.  The denominator is
      `det(sI − A)` for every `s` (`ss2tf_den_eq_det`), so its roots are exactly the eigenvalues.
      Run-time layer: `toTF_correct`, and `roundtrip_correct` for chains of conversions.
  (+) `fl_passes_charpolyCert`: the denominator also passes C04's characteristic-polynomial
      certificate (`Eval.charpolyCert`), for every `A`.

The mathematics (Lemmas/C03FL.lean, any commutative ring): Jacobi's formula for the determinant
of a polynomial matrix, `tr adj(X·1 − A) = charpoly'`, and the comparison of coefficients in
`(X·1 − A) · adj(X·1 − A) = charpoly · 1`.
-/
import CtrlVerif.Props.C03
import CtrlVerif.Lemmas.C03FL
import CtrlVerif.Lemmas.Eval
import Mathlib.Algebra.Field.ZMod

namespace CtrlVerif.C03

open CtrlVerif CtrlVerif.Convert CtrlVerif.C03FL Matrix Polynomial

variable {K : Type} [Field K] [DecidableEq K] {n : ℕ}

/-! ### (1) the recursion always satisfies its certificate -/

/-- the divisions of Faddeev–LeVerrier on an `n × n` matrix are by non-zero numbers. -/
def DivOK (K : Type) [Field K] (n : ℕ) : Prop := ∀ k : ℕ, 0 < k → k ≤ n → (k : K) ≠ 0

/-- characteristic 0 is enough, for every size. -/
theorem divOK_of_charZero [CharZero K] (n : ℕ) : DivOK K n :=
  fun k hk _ => Nat.cast_ne_zero.mpr (by omega)

/-- characteristic `p > n` is enough. -/
theorem divOK_of_charP (p : ℕ) [CharP K p] (n : ℕ) (hp : n < p) : DivOK K n := by
  intro k hk hkn hz
  have hdvd := (CharP.cast_eq_zero_iff K p k).mp hz
  have := Nat.le_of_dvd hk hdvd
  omega

/-- **Faddeev–LeVerrier always passes its certificate** (general form: `1 … n` invertible). -/
theorem fl_certificate_of_div (A : Matrix (Fin n) (Fin n) K) (h : DivOK K n) :
    chainOK A 1 (flvPropose A) := by
  have h1 := chainOK_flSteps A n
  have h2 := adjC_card A
  rw [Fintype.card_fin] at h2
  rw [h2] at h1
  rw [flvPropose_eq A h]
  exact h1

/-- **Faddeev–LeVerrier always passes its certificate**: over a field of characteristic 0, for
every size `n` and every `A`, the list `[(c₁, M₀), …, (c_n, M_{n−1})]` produced by the model's
recursion satisfies `M₀ = I`, `M_k = A M_{k−1} + c_k I` and `A M_{n−1} + c_n I = 0`. -/
theorem fl_certificate [CharZero K] (A : Matrix (Fin n) (Fin n) K) :
    chainOK A 1 (flvPropose A) :=
  fl_certificate_of_div A (divOK_of_charZero n)

/-- the model's run-time certificate check can never fail. -/
theorem certOK_true [CharZero K] (G : DSS K) : certOK G = true :=
  decide_eq_true (fl_certificate G.sys.A)

/-- … along any chain of conversions … -/
theorem chainCertOK_true [CharZero K] (steps : List Step) (x : Obj K) :
    chainCertOK steps x = true := by
  induction steps generalizing x with
  | nil => rfl
  | cons st rest ih =>
    unfold chainCertOK
    rw [Bool.and_eq_true]
    constructor
    · split <;> first | exact certOK_true _ | rfl
    · split
      · exact ih _
      · rfl

/-- … and in any mixed-type operator. -/
theorem mixedCertOK_true [CharZero K] (op : MOp) (x y : Obj K) : mixedCertOK op x y = true := by
  unfold mixedCertOK
  split <;> first | exact certOK_true _ | rfl

/-- **`_convert_to_transfer_function` is total** on every (well-shaped, by typing) state-space
system: the constructor's only failure is a zero denominator and the common denominator is monic. -/
theorem toTF_total (G : DSS K) : ∃ T, toTF G = .ok T := by
  unfold toTF
  split
  · have hmk : ∃ R, TFM.mk' (o := Fin G.p) (ι := Fin G.m)
        (fun i j => (⟨[G.sys.D i j], [1]⟩ : Frac K)) = .ok R := by
      unfold TFM.mk'
      rw [if_neg]
      · exact ⟨_, rfl⟩
      · rintro ⟨i, j, h⟩
        simp [isZero] at h
    obtain ⟨R, hR⟩ := hmk
    simp only [hR, bind, Except.bind, pure, Except.pure]
    exact ⟨_, rfl⟩
  · have hmk : ∃ R, TFM.mk' (o := Fin G.p) (ι := Fin G.m)
        (fun i j => ss2tfRaw G.sys (flvPropose G.sys.A) i j) = .ok R := by
      unfold TFM.mk'
      rw [if_neg]
      · exact ⟨_, rfl⟩
      · rintro ⟨i, j, h⟩
        simp [ss2tfRaw, cden, isZero] at h
    obtain ⟨R, hR⟩ := hmk
    simp only [hR, bind, Except.bind, pure, Except.pure]
    exact ⟨_, rfl⟩

/-! ### (2) what the recursion computes -/

/-- the common denominator is the characteristic polynomial (general form). -/
theorem fl_charpoly_of_div (A : Matrix (Fin n) (Fin n) K) (h : DivOK K n) :
    toPoly (cden (flvPropose A)) = A.charpoly := by
  rw [flvPropose_eq A h, toPoly_cden_flSteps]

/-- coefficient by coefficient: the list `d = [1, c₁, …, c_n]` has `n + 1` entries and its
`k`-th entry is the coefficient of `X^(n−k)` of `Matrix.charpoly A`. -/
theorem fl_charpoly_coeff_of_div (A : Matrix (Fin n) (Fin n) K) (h : DivOK K n) :
    (cden (flvPropose A)).length = n + 1 ∧
      ∀ k, k ≤ n → (cden (flvPropose A)).getD k 0 = A.charpoly.coeff (n - k) := by
  rw [flvPropose_eq A h]
  refine ⟨by simp [cden, flSteps_length], fun k hk => ?_⟩
  cases k with
  | zero =>
    have := charpoly_coeff_card A
    rw [Fintype.card_fin] at this
    simp [cden, this]
  | succ k =>
    simp only [cden, List.getD_cons_succ]
    rw [flSteps_fst_getD A n k (by omega)]
    congr 1
    omega

/-- the matrix sequence is the coefficient sequence of `adj(X·1 − A)`, highest power first:
`M_k` is the coefficient of `X^(n−1−k)`. -/
theorem fl_adjugate_coeff_of_div (A : Matrix (Fin n) (Fin n) K) (h : DivOK K n) :
    ((flvPropose A).map (·.2)).length = n ∧
      ∀ k, k < n → ∀ i l, ((flvPropose A).map (·.2)).getD k 0 i l
        = (adjugate (charmatrix A) i l).coeff (n - 1 - k) := by
  rw [flvPropose_eq A h]
  refine ⟨by simp [flSteps_length], fun k hk i l => ?_⟩
  rw [flSteps_snd_getD A n k hk, ← adjC_succ_apply]
  congr 2
  omega

/-- `Σ_k N_k s^k = adj(sI − A)` at every `s` (the Horner value of the matrix sequence). -/
theorem fl_adjugate_of_div (A : Matrix (Fin n) (Fin n) K) (h : DivOK K n) (s : K) :
    polyMatVal ((flvPropose A).map (·.2)) s
      = adjugate (s • (1 : Matrix (Fin n) (Fin n) K) - A) := by
  rw [flvPropose_eq A h, polyMatVal_flSteps_eq_adjugate]

/-- **Faddeev–LeVerrier computes the characteristic polynomial and the adjugate**: over a field
of characteristic 0, for every `n` and `A`, the scalar sequence `d = [1, c₁, …, c_n]` of the
model's recursion denotes `Matrix.charpoly A` — as a polynomial, and coefficient by coefficient
(`d_k` = coefficient of `X^(n−k)`) — the matrix sequence consists of the coefficients of
`adj(X·1 − A)`, and its value at every `s` is `adj(sI − A)`. -/
theorem fl_charpoly [CharZero K] (A : Matrix (Fin n) (Fin n) K) :
    toPoly (cden (flvPropose A)) = A.charpoly ∧
    ((cden (flvPropose A)).length = n + 1 ∧
      ∀ k, k ≤ n → (cden (flvPropose A)).getD k 0 = A.charpoly.coeff (n - k)) ∧
    (((flvPropose A).map (·.2)).length = n ∧
      ∀ k, k < n → ∀ i l, ((flvPropose A).map (·.2)).getD k 0 i l
        = (adjugate (charmatrix A) i l).coeff (n - 1 - k)) ∧
    ∀ s, polyMatVal ((flvPropose A).map (·.2)) s
      = adjugate (s • (1 : Matrix (Fin n) (Fin n) K) - A) :=
  have h := divOK_of_charZero (K := K) n
  ⟨fl_charpoly_of_div A h, fl_charpoly_coeff_of_div A h, fl_adjugate_coeff_of_div A h,
    fl_adjugate_of_div A h⟩

/-- the common denominator evaluated: `d(s) = det(sI − A)` for every `s`. -/
theorem ss2tf_den_eq_det_of_div (A : Matrix (Fin n) (Fin n) K) (h : DivOK K n) (s : K) :
    polyval (cden (flvPropose A)) s = (s • (1 : Matrix (Fin n) (Fin n) K) - A).det := by
  rw [polyval_eq_eval, fl_charpoly_of_div A h, eval_charpoly]
  congr 2
  ext i j
  by_cases hij : i = j <;> simp [hij]

theorem ss2tf_den_eq_det [CharZero K] (A : Matrix (Fin n) (Fin n) K) (s : K) :
    polyval (cden (flvPropose A)) s = (s • (1 : Matrix (Fin n) (Fin n) K) - A).det :=
  ss2tf_den_eq_det_of_div A (divOK_of_charZero n) s

/-- the roots of the common denominator are exactly the eigenvalues of `A`. -/
theorem ss2tf_den_ne_zero_iff [CharZero K] (A : Matrix (Fin n) (Fin n) K) (s : K) :
    polyval (cden (flvPropose A)) s ≠ 0 ↔ s ∉ spectrum K A := by
  rw [polyval_eq_eval, (fl_charpoly A).1, mem_spectrum_iff_isRoot_charpoly, IsRoot.def]

/-! ### (3) `ss2tf` is correct, without a certificate hypothesis -/

section correct
variable {ι o : Type*}

/-- `s` is not in the spectrum iff `sI − A` is invertible. -/
theorem isUnit_of_not_mem_spectrum (A : Matrix (Fin n) (Fin n) K) (s : K)
    (hs : s ∉ spectrum K A) : IsUnit (s • (1 : Matrix (Fin n) (Fin n) K) - A) := by
  rw [spectrum.mem_iff, not_not, Algebra.algebraMap_eq_smul_one] at hs
  exact hs

/-- "no eigenvector for `s`" is the same as "`s` is not in the spectrum". -/
theorem not_mem_spectrum_of_no_eigenvector (A : Matrix (Fin n) (Fin n) K) (s : K)
    (hs : ∀ v : Fin n → K, A *ᵥ v = s • v → v = 0) : s ∉ spectrum K A := by
  rw [mem_spectrum_iff_isRoot_charpoly, IsRoot.def, eval_charpoly]
  intro hdet
  obtain ⟨v, hv0, hv⟩ := Matrix.exists_mulVec_eq_zero_iff.mpr hdet
  apply hv0
  apply hs
  have h1 : (Matrix.scalar (Fin n) s - A) *ᵥ v = s • v - A *ᵥ v := by
    rw [Matrix.sub_mulVec]
    congr 1
    ext i
    simp [Matrix.mulVec, dotProduct, Matrix.scalar, Matrix.diagonal_apply]
  rw [h1] at hv
  exact (sub_eq_zero.mp hv).symm

/-- general form of `ss2tf_correct` (`1 … n` invertible in `K`). -/
theorem ss2tf_correct_of_div (G : SS (Fin n) ι o K) (h : DivOK K n) (s : K)
    (hs : s ∉ spectrum K G.A) (i : o) (j : ι) :
    polyval (cden (flvPropose G.A)) s ≠ 0 ∧
      polyval (cnum G (flvPropose G.A) i j) s / polyval (cden (flvPropose G.A)) s
        = (G.C * ((s • (1 : Matrix (Fin n) (Fin n) K) - G.A)⁻¹ * G.B) + G.D) i j := by
  have hd : polyval (cden (flvPropose G.A)) s ≠ 0 := by
    rw [polyval_eq_eval, fl_charpoly_of_div G.A h]
    rwa [mem_spectrum_iff_isRoot_charpoly, IsRoot.def] at hs
  refine ⟨hd, ?_⟩
  have hu := isUnit_of_not_mem_spectrum G.A s hs
  exact (ss2tf_sem G _ (fl_certificate_of_div G.A h) s hd _ (SS.Resp.of_isUnit G s hu) i j).symm

/-- **`ss2tf` is correct as an algorithm**: over a field of characteristic 0, for every
state-space system `G` (any number of states, inputs, outputs) and every `s` that is not an
eigenvalue of `G.A`, the common denominator `d` computed by the model does not vanish at `s` and
the entry `N_ij(s)/d(s)` of the computed transfer matrix equals `(C (sI − A)⁻¹ B + D)_ij`.
No certificate hypothesis. -/
theorem ss2tf_correct [CharZero K] (G : SS (Fin n) ι o K) (s : K)
    (hs : s ∉ spectrum K G.A) (i : o) (j : ι) :
    polyval (cden (flvPropose G.A)) s ≠ 0 ∧
      polyval (cnum G (flvPropose G.A) i j) s / polyval (cden (flvPropose G.A)) s
        = (G.C * ((s • (1 : Matrix (Fin n) (Fin n) K) - G.A)⁻¹ * G.B) + G.D) i j :=
  ss2tf_correct_of_div G (divOK_of_charZero n) s hs i j

/-- the same with the elementary reading of "not an eigenvalue": no eigenvector. -/
theorem ss2tf_correct_of_no_eigenvector [CharZero K] (G : SS (Fin n) ι o K) (s : K)
    (hs : ∀ v : Fin n → K, G.A *ᵥ v = s • v → v = 0) (i : o) (j : ι) :
    polyval (cden (flvPropose G.A)) s ≠ 0 ∧
      polyval (cnum G (flvPropose G.A) i j) s / polyval (cden (flvPropose G.A)) s
        = (G.C * ((s • (1 : Matrix (Fin n) (Fin n) K) - G.A)⁻¹ * G.B) + G.D) i j :=
  ss2tf_correct G s (not_mem_spectrum_of_no_eigenvector G.A s hs) i j

/-- in terms of `SS.Resp` (the inverse-free notion of value used by the other C03 theorems):
off the eigenvalues, `Y` is a value of `G` at `s` iff it is the computed transfer matrix. -/
theorem ss2tf_correct_resp [CharZero K] (G : SS (Fin n) ι o K) (s : K)
    (hs : s ∉ spectrum K G.A) (Y : Matrix o ι K) :
    G.Resp s Y ↔ ∀ i j, Y i j
      = polyval (cnum G (flvPropose G.A) i j) s / polyval (cden (flvPropose G.A)) s := by
  have hd := (ss2tf_den_ne_zero_iff G.A s).mpr hs
  constructor
  · intro hY i j
    exact ss2tf_sem G _ (fl_certificate G.A) s hd Y hY i j
  · intro hY
    have := ss2tf_resp_exists G _ (fl_certificate G.A) s hd
    convert this using 1
    ext i j
    exact hY i j

end correct

/-! ### the run-time layer: `toTF` and chains of conversions, certificate-free -/

/-- **`_convert_to_transfer_function` is correct**: for every state-space system the conversion
returns a transfer function of the same shape and timebase whose value at every `s` outside the
spectrum of `A` is the value of the state-space system — no certificate, no `RegularAt`. -/
theorem toTF_correct [CharZero K] (G : DSS K) :
    ∃ T, toTF G = .ok T ∧ T.p = G.p ∧ T.m = G.m ∧ T.dt = G.dt ∧
      ∀ s Y, s ∉ spectrum K G.sys.A → SSVal G s Y → TFVal T s Y := by
  obtain ⟨T, hT⟩ := toTF_total G
  obtain ⟨h1, h2, h3, h4⟩ := toTF_val G T hT
  refine ⟨T, hT, h1, h2, h3, fun s Y hs hY => h4 s Y (certOK_true G) ?_ hY⟩
  exact Or.inr ((ss2tf_den_ne_zero_iff G.sys.A s).mpr hs)

/-- what a step needs at `s` once the certificate is a theorem: `s` is not an eigenvalue of the
state matrix of a state-space system that is converted to a transfer function. -/
def StepEig : Step → Rep K → K → Prop
  | .tf _, .ss G, s => s ∉ spectrum K G.sys.A
  | .ss2tf _, .ss G, s => s ∉ spectrum K G.sys.A
  | .tfdata, .ss G, s => s ∉ spectrum K G.sys.A
  | _, _, _ => True

def ChainEig : List Step → Obj K → K → Prop
  | [], _, _ => True
  | st :: rest, x, s => StepEig st x.rep s ∧ ∀ y, applyStep st x = .ok y → ChainEig rest y s

theorem stepOK_of_stepEig [CharZero K] (st : Step) (r : Rep K) (s : K) (h : StepEig st r s) :
    StepOK st r s := by
  unfold StepOK
  unfold StepEig at h
  split <;> first
    | exact ⟨certOK_true _, Or.inr ((ss2tf_den_ne_zero_iff _ s).mpr (by simpa using h))⟩
    | trivial

theorem chainOK_of_chainEig [CharZero K] (steps : List Step) (x : Obj K) (s : K)
    (h : ChainEig steps x s) : ChainOK steps x s := by
  induction steps generalizing x with
  | nil => trivial
  | cons st rest ih =>
    exact ⟨stepOK_of_stepEig st x.rep s h.1, fun y hy => ih y (h.2 y hy)⟩

/-- **round trips, certificate-free**: a chain of conversions of any length that returns, returns
a system of the same shape and timebase with the same value at every `s` that is not an
eigenvalue of a state matrix converted along the chain. -/
theorem roundtrip_correct [CharZero K] (steps : List Step) (x y : Obj K)
    (h : runChain steps x = .ok y) :
    y.rep.p = x.rep.p ∧ y.rep.m = x.rep.m ∧ y.rep.dt = x.rep.dt ∧
      ∀ s Y, ChainEig steps x s → Rep.Val x.rep s Y → Rep.Val y.rep s Y := by
  obtain ⟨h1, h2, h3, h4⟩ := roundtrip steps x y h
  exact ⟨h1, h2, h3, fun s Y hc hY => h4 s Y (chainOK_of_chainEig steps x s hc) hY⟩

/-! ### link to C04: the recursion's denominator passes the characteristic-polynomial certificate -/

/-- the denominator computed by Faddeev–LeVerrier always passes the certificate that C04's model
(`Eval.ssPolesPoly`, used for `StateSpace.poles()`) demands of a candidate characteristic
polynomial (monic, degree `n`, equal to `det(xI − A)` at `0, 1, …, n`): that certificate format
is complete, with the recursion as a proved generator. -/
theorem fl_passes_charpolyCert [CharZero K] (A : Matrix (Fin n) (Fin n) K) :
    Eval.charpolyCert A (cden (flvPropose A)) (Eval.samplePts n) = true := by
  have hlen := (fl_charpoly A).2.1.1
  simp only [Eval.charpolyCert, Bool.and_eq_true, decide_eq_true_eq, List.all_eq_true]
  refine ⟨⟨⟨⟨hlen, by simp [cden]⟩, by simp [Eval.samplePts]⟩, ?_⟩, fun x _ => ?_⟩
  · have h : Eval.samplePts (K := K) n = (List.range (n + 1)).map (fun k : ℕ => (k : K)) := by
      simp only [Eval.samplePts, List.map_id', List.bind_eq_flatMap, List.pure_def]
      generalize List.range (n + 1) = l
      induction l with
      | nil => rfl
      | cons a l ih => simp [List.flatMap_cons, ih]
    rw [h]
    exact (List.nodup_range).map (fun a b h => Nat.cast_injective h)
  · rw [Eval.detFin_eq_det, ss2tf_den_eq_det]; rfl

theorem fl_ssPolesPoly [CharZero K] {p m : ℕ} (G : SS (Fin n) (Fin m) (Fin p) K) :
    Eval.ssPolesPoly G (cden (flvPropose G.A)) = some (cden (flvPropose G.A)) := by
  unfold Eval.ssPolesPoly
  rw [if_pos (fl_passes_charpolyCert G.A)]

/-! ### non-vacuity -/

/-- a `3 × 3` matrix with a repeated eigenvalue (Jordan block for `2`, and `3`). -/
def exRep : Matrix (Fin 3) (Fin 3) ℚ := !![2, 1, 0; 0, 2, 0; 0, 0, 3]

/-- a nilpotent `3 × 3` matrix. -/
def exNil : Matrix (Fin 3) (Fin 3) ℚ := !![0, 1, 0; 0, 0, 1; 0, 0, 0]

/-- the theorem applies (and the recursion really runs: the denominators are
`(s−2)²(s−3) = s³ − 7s² + 16s − 12` and `s³`). -/
example : chainOK exRep 1 (flvPropose exRep) := fl_certificate exRep
example : cden (flvPropose exRep) = [1, -7, 16, -12] := by decide +kernel
example : chainOK exNil 1 (flvPropose exNil) := fl_certificate exNil
example : cden (flvPropose exNil) = [1, 0, 0, 0] := by decide +kernel
example : toPoly (cden (flvPropose exRep)) = exRep.charpoly := (fl_charpoly exRep).1

/-- `ℚ` (the driver's field) has characteristic 0: over `ℚ` the driver's `model-error cert` branch
is unreachable. -/
example (G : DSS ℚ) : certOK G = true := certOK_true G
example (G : DSS ℚ) : ∃ T, toTF G = .ok T := toTF_total G

/-- the last matrix of the nilpotent example is `A²` (`adj(sI − A) = s² I + s A + A²`). -/
example : ((flvPropose exNil).map (·.2)).getD 2 0 = exNil * exNil := by decide +kernel

/-- `s = 1` is not an eigenvalue of `exRep`: the hypothesis of `ss2tf_correct` is satisfiable, and
the conclusion is a non-trivial number (`C (I − A)⁻¹ B + D = N(1)/d(1) = (−7)/(−2) = 7/2` here). -/
def exG : SS (Fin 3) (Fin 1) (Fin 1) ℚ := ⟨exRep, !![0; 1; 1], !![1, 0, 1], !![3]⟩

example : (1 : ℚ) ∉ spectrum ℚ exG.A := by
  rw [← ss2tf_den_ne_zero_iff]
  decide +kernel

example : polyval (cnum exG (flvPropose exG.A) 0 0) 1 = -7 ∧
    polyval (cden (flvPropose exG.A)) 1 = -2 := by decide +kernel

example : (exG.C * (((1 : ℚ) • (1 : Matrix (Fin 3) (Fin 3) ℚ) - exG.A)⁻¹ * exG.B) + exG.D) 0 0
    = 7 / 2 := by
  have h : (1 : ℚ) ∉ spectrum ℚ exG.A := by
    rw [← ss2tf_den_ne_zero_iff]
    decide +kernel
  have h1 : polyval (cnum exG (flvPropose exG.A) 0 0) 1 = -7 := by decide +kernel
  have h2 : polyval (cden (flvPropose exG.A)) 1 = -2 := by decide +kernel
  rw [← (ss2tf_correct exG 1 h 0 0).2, h1, h2]
  norm_num

/-- `s = 0` is the (only) eigenvalue of the nilpotent example: the denominator vanishes there and
nowhere else. -/
example : polyval (cden (flvPropose exNil)) 0 = 0 ∧ polyval (cden (flvPropose exNil)) 7 ≠ 0 := by
  decide +kernel

/-- the hypothesis on the field is needed: over `ZMod 2` the recursion (division by `2 = 0`)
fails its certificate on the `2 × 2` identity. -/
example : ¬ chainOK (1 : Matrix (Fin 2) (Fin 2) (ZMod 2)) 1
    (flvPropose (1 : Matrix (Fin 2) (Fin 2) (ZMod 2))) := by decide +kernel

/-- `ChainEig` is satisfiable: the chain `ss → tf → ss` of `Props/C03.lean` at `s = 1`. -/
example : ChainEig [.tf {}] exSS 1 := by
  refine ⟨?_, fun _ _ => trivial⟩
  show (1 : ℚ) ∉ spectrum ℚ _
  rw [← ss2tf_den_ne_zero_iff]
  decide +kernel

end CtrlVerif.C03
