/-
C20 for user-defined flat systems with several flat outputs whose flags may have different
lengths (`Model/FlatMulti.lean`): structure of the matrix built by `_basis_flag_matrix` (row offsets
= running sums of the flag lengths, column offsets = multiples of the number of coefficients,
block diagonal), end points of `point_to_point` for *any* flag lengths, solvability of the boundary
system, the rank-warning branch, feasibility.

`n` states, `m` inputs = flat outputs, `len : Fin m → ℕ` arbitrary, `K` any field with decidable
equality (characteristic zero where marked); `forward`, `reverse` are arbitrary maps (the user's
callables) — the hypothesis on them is the one of the property ("consistent forward / reverse
maps"): `reverse (forward x u) = (x, u)`.
-/
import CtrlVerif.Lemmas.FlatMulti
import CtrlVerif.Props.C20
import Mathlib.Analysis.Calculus.FDeriv.Comp
import Mathlib.Analysis.Calculus.FDeriv.Linear
import Mathlib.Analysis.Calculus.Deriv.Prod
import Mathlib.Analysis.Calculus.Deriv.Comp

namespace CtrlVerif.C20Multi

open CtrlVerif Matrix

variable {K : Type} [Field K] [DecidableEq K] {n m : Nat} {len : Fin m → Nat}

/-! ### the matrix of `_basis_flag_matrix` -/

/-- **row offsets are the running sums of the flag lengths, column offsets are multiples of
`N`**: the row of derivative `k` of flat output `i` is `len 0 + … + len (i-1) + k`, the column of
coefficient `j` of flat output `i` is `i N + j`; every row and every column is of this form,
for exactly one `(i, k)` resp. `(i, j)`. -/
theorem row_offsets_running_sums (len : Fin m → Nat) (N : Nat) :
    (∀ (i : Fin m) (k : Fin (len i)),
      (rowIdx len i k).val = (∑ a : Fin i.val, len (Fin.castLE i.isLt.le a)) + k.val) ∧
    (∀ (i : Fin m) (j : Fin N), (colIdx i j).val = i.val * N + j.val) ∧
    (∀ r : Fin (∑ i, len i), ∃! p : (i : Fin m) × Fin (len i), rowIdx len p.1 p.2 = r) ∧
    (∀ c : Fin (m * N), ∃! p : Fin m × Fin N, colIdx p.1 p.2 = c) :=
  ⟨rowIdx_val len, colIdx_val, fun r => (finSigmaFinEquiv (n := len)).bijective.existsUnique r,
    fun c => (finProdFinEquiv (m := m) (n := N)).bijective.existsUnique c⟩

/-- **block structure**: what the loop of `_basis_flag_matrix` (zero matrix, running `flag_off` /
`coef_off`) leaves in the row of derivative `k` of output `i` and the column of coefficient `j` of
output `i'` is `eval_deriv(j, k, t)` for `i = i'` and `0` otherwise — for any flag lengths. -/
theorem flag_matrix_blocks (bs : Basis K) (len : Fin m → Nat) (t : K)
    (i : Fin m) (k : Fin (len i)) (i' : Fin m) (j : Fin bs.N) :
    flagMatrixM bs len t (rowIdx len i k) (colIdx i' j)
      = if i = i' then bs.evalD j k.val t else 0 :=
  flagMatrixM_entry bs len t i k i' j

/-- the product with a coefficient vector, row by row: the rows of flat output `i` only see the
slice `alpha[i N : (i+1) N]`, and give the flag `SystemTrajectory.eval` computes. -/
theorem flag_matrix_mulVec (bs : Basis K) (len : Fin m → Nat) (t : K) (α : Fin (m * bs.N) → K) :
    unstack (flagMatrixM bs len t *ᵥ α) = trajFlagM bs α len t :=
  unstack_flagMatrixM_mulVec bs len t α

/-- `hstack` puts entry `k` of flat output `i` at the same running offset, and is inverse to
reading a flag from a vector. -/
theorem hstack_offsets (z : Flags m len K) (v : Fin (∑ i, len i) → K) :
    (∀ i k, hstack z (rowIdx len i k) = z i k) ∧ unstack (hstack z) = z ∧
      hstack (unstack (len := len) v) = v :=
  ⟨hstack_rowIdx z, unstack_hstack z, hstack_unstack v⟩

/-- the stacked boundary system `vstack([M(T0), M(Tf)]) α = hstack([z(T0), z(Tf)])` holds iff
the flag of the trajectory is the requested one at both ends. -/
theorem boundary_system_iff (bs : Basis K) (len : Fin m → Nat) (T0 Tf : K)
    (α : Fin (m * bs.N) → K) (z0 zf : Flags m len K) :
    stackMM bs len T0 Tf *ᵥ α = stackZM z0 zf ↔
      trajFlagM bs α len T0 = z0 ∧ trajFlagM bs α len Tf = zf :=
  stackMM_solution_iff bs len T0 Tf α z0 zf

/-! ### end points -/

/-- **end points for any per-output flag lengths**: if the coefficient vector solves the stacked
boundary system and `reverse ∘ forward = id`, the evaluated trajectory starts at `(x0, u0)` and
ends at `(xf, uf)`. -/
theorem endpoints_of_solution (S : FlatSys n m len K)
    (hinv : ∀ x u, S.reverse (S.forward x u) = (x, u)) (bs : Basis K) (α : Fin (m * bs.N) → K)
    (T0 Tf : K) (x0 : Fin n → K) (u0 : Fin m → K) (xf : Fin n → K) (uf : Fin m → K)
    (hsol : stackMM bs len T0 Tf *ᵥ α = stackZM (S.forward x0 u0) (S.forward xf uf)) :
    trajEvalM S bs α T0 = (x0, u0) ∧ trajEvalM S bs α Tf = (xf, uf) := by
  obtain ⟨h0, hf⟩ := (stackMM_solution_iff bs len T0 Tf α _ _).mp hsol
  exact ⟨by rw [trajEvalM, h0, hinv], by rw [trajEvalM, hf, hinv]⟩

/-- what `point_to_point` returns as coefficients solves the stacked boundary system exactly;
it is only returned when the size test passed, `T ≠ 0`, every flat output has at least twice as
many coefficients as flag entries and `T0 ≠ Tf`. -/
theorem p2pM_solves {S : FlatSys n m len K} {bs : Basis K} {T0 Tf : K} {x0 : Fin n → K}
    {u0 : Fin m → K} {xf : Fin n → K} {uf : Fin m → K} {α : Fin (m * bs.N) → K}
    (h : p2pM S bs T0 Tf x0 u0 xf uf = .ok (some α)) :
    stackMM bs len T0 Tf *ᵥ α = stackZM (S.forward x0 u0) (S.forward xf uf)
      ∧ 2 * (n + m) ≤ m * bs.N ∧ bs.T ≠ 0 ∧ (∀ i, 2 * len i ≤ bs.N)
      ∧ (T0 = Tf → ∑ i, len i = 0) := by
  unfold p2pM at h
  split at h
  · exact absurd h (by simp)
  · rename_i hN
    split at h
    · exact absurd h (by simp)
    · rename_i hT
      split at h
      · exact absurd h (by simp)
      · rename_i hr
        push Not at hr
        split at h
        · exact absurd h (by simp)
        · rename_i α' hα
          have e : α' = α := by simpa using h
          subst e
          exact ⟨minNormSolve_ok hα, by omega, hT, fun i => by have := hr.1 i; omega,
            fun h0 => by have := hr.2 h0; omega⟩

/-- **a trajectory returned by `point_to_point` for a flat system with consistent maps starts at
the requested state and input and ends at the requested ones** — any number of flat outputs, any
flag lengths. -/
theorem endpoints {S : FlatSys n m len K} (hinv : ∀ x u, S.reverse (S.forward x u) = (x, u))
    {bs : Basis K} {T0 Tf : K} {x0 : Fin n → K} {u0 : Fin m → K} {xf : Fin n → K}
    {uf : Fin m → K} {α : Fin (m * bs.N) → K}
    (h : p2pM S bs T0 Tf x0 u0 xf uf = .ok (some α)) :
    trajEvalM S bs α T0 = (x0, u0) ∧ trajEvalM S bs α Tf = (xf, uf) :=
  endpoints_of_solution S hinv bs α T0 Tf x0 u0 xf uf (p2pM_solves h).1

/-- too few coefficients in total: `ValueError("basis set is too small")`. -/
theorem p2pM_basis_too_small (S : FlatSys n m len K) (bs : Basis K) (T0 Tf : K) (x0 : Fin n → K)
    (u0 : Fin m → K) (xf : Fin n → K) (uf : Fin m → K) (h : m * bs.N < 2 * (n + m)) :
    p2pM S bs T0 Tf x0 u0 xf uf = .error (.py .badArg) := by
  simp [p2pM, h]

/-- the warning branch ("basis too small; solution may not exist", no coefficients modelled) is
taken exactly when the size test passes, `T ≠ 0`, and some flat output has fewer than twice as
many coefficients as flag entries or the two boundary times coincide. -/
theorem p2pM_warn_iff (S : FlatSys n m len K) (bs : Basis K) (T0 Tf : K) (x0 : Fin n → K)
    (u0 : Fin m → K) (xf : Fin n → K) (uf : Fin m → K) :
    p2pM S bs T0 Tf x0 u0 xf uf = .ok none ↔
      2 * (n + m) ≤ m * bs.N ∧ bs.T ≠ 0 ∧
        ((∃ i : Fin m, bs.N < 2 * len i) ∨ (T0 = Tf ∧ 0 < ∑ i, len i)) := by
  unfold p2pM
  split
  · rename_i hN
    constructor
    · intro h; exact absurd h (by simp)
    · rintro ⟨h, -⟩; omega
  · rename_i hN
    split
    · rename_i hT
      constructor
      · intro h; exact absurd h (by simp)
      · rintro ⟨-, h, -⟩; exact absurd hT h
    · rename_i hT
      split
      · rename_i hr
        exact ⟨fun _ => ⟨by omega, hT, hr⟩, fun _ => rfl⟩
      · rename_i hr
        constructor
        · intro h
          split at h
          · exact absurd h (by simp)
          · exact absurd h (by simp)
        · rintro ⟨-, -, h⟩; exact absurd h hr

/-! ### the boundary system: solvable iff every flat output has enough coefficients -/

/-- **solvability for any flag lengths** (characteristic zero, polynomial or Bezier basis,
`T ≠ 0`, `T0 ≠ Tf`): if every flat output has at least twice as many coefficients as flag
entries, every pair of boundary flags is met by some coefficient vector. -/
theorem boundary_system_solvable [CharZero K] (bs : Basis K) (hT : bs.T ≠ 0) (len : Fin m → Nat)
    (hN : ∀ i, 2 * len i ≤ bs.N) (T0 Tf : K) (h0f : T0 ≠ Tf) (z0 zf : Flags m len K) :
    ∃ α : Fin (m * bs.N) → K, stackMM bs len T0 Tf *ᵥ α = stackZM z0 zf := by
  choose β hβ0 hβf using fun i => block_solvable bs hT (len i) (hN i) T0 Tf h0f (z0 i) (zf i)
  refine ⟨fun c => β (finProdFinEquiv.symm c).1 (finProdFinEquiv.symm c).2, ?_⟩
  rw [stackMM_solution_iff]
  have hs : ∀ i, coefSlice (fun c => β (finProdFinEquiv.symm c).1 (finProdFinEquiv.symm c).2) i
      = β i := by
    intro i
    funext j
    simp [coefSlice, colIdx]
  constructor
  · funext i
    rw [trajFlagM, hs, hβ0]
  · funext i
    rw [trajFlagM, hs, hβf]

/-- the same for an arbitrary right-hand side vector. -/
theorem boundary_system_surjective [CharZero K] (bs : Basis K) (hT : bs.T ≠ 0) (len : Fin m → Nat)
    (hN : ∀ i, 2 * len i ≤ bs.N) (T0 Tf : K) (h0f : T0 ≠ Tf)
    (Z : Fin ((∑ i, len i) + (∑ i, len i)) → K) :
    ∃ α : Fin (m * bs.N) → K, stackMM bs len T0 Tf *ᵥ α = Z := by
  obtain ⟨α, hα⟩ := boundary_system_solvable bs hT len hN T0 Tf h0f
    (unstack fun r => Z (Fin.castAdd _ r)) (unstack fun r => Z (Fin.natAdd _ r))
  refine ⟨α, ?_⟩
  rw [hα]
  funext r
  refine Fin.addCases (fun r0 => ?_) (fun r1 => ?_) r
  · simp [stackZM]
  · rw [stackZM, Fin.append_right, hstack_unstack]

/-- **the rank test of the warning branch, first half**: coinciding boundary times make the
boundary system unsolvable for some boundary flags (the two halves of the matrix are equal). -/
theorem boundary_system_unsolvable_of_eq_times (bs : Basis K) (len : Fin m → Nat) (T : K)
    (hpos : 0 < ∑ i, len i) :
    ∃ z0 zf : Flags m len K, ¬ ∃ α : Fin (m * bs.N) → K,
      stackMM bs len T T *ᵥ α = stackZM z0 zf := by
  refine ⟨fun _ _ => 0, fun _ _ => 1, ?_⟩
  rintro ⟨α, hα⟩
  obtain ⟨h0, hf⟩ := (stackMM_solution_iff bs len T T α _ _).mp hα
  have hne : ∃ i, 0 < len i := by
    by_contra hcon
    push Not at hcon
    have : ∑ i, len i = 0 := Finset.sum_eq_zero fun i _ => by have := hcon i; omega
    omega
  obtain ⟨i, hi⟩ := hne
  have := congrFun (congrFun (h0.symm.trans hf) i) ⟨0, hi⟩
  exact zero_ne_one this

/-- **the rank test of the warning branch, second half**: a flat output with fewer than twice as
many coefficients as flag entries makes the boundary system unsolvable for some boundary flags
(more equations than unknowns in its block) — any field, any basis. -/
theorem boundary_system_unsolvable_of_short_basis (bs : Basis K) (len : Fin m → Nat) (T0 Tf : K)
    (i : Fin m) (hi : bs.N < 2 * len i) :
    ∃ z0 zf : Flags m len K, ¬ ∃ α : Fin (m * bs.N) → K,
      stackMM bs len T0 Tf *ᵥ α = stackZM z0 zf := by
  -- the block map `β ↦ (flag(T0), flag(Tf))` of flat output `i` is not surjective
  let Φ : (Fin bs.N → K) →ₗ[K] ((Fin (len i) → K) × (Fin (len i) → K)) :=
    LinearMap.prod (flagMatrix bs (len i) T0).mulVecLin (flagMatrix bs (len i) Tf).mulVecLin
  have hns : ¬ Function.Surjective Φ := by
    intro hs
    have := LinearMap.finrank_le_finrank_of_surjective (f := Φ) hs
    rw [Module.finrank_prod, Module.finrank_fintype_fun_eq_card,
      Module.finrank_fintype_fun_eq_card, Fintype.card_fin, Fintype.card_fin] at this
    omega
  obtain ⟨⟨a, b⟩, hab⟩ := not_forall.mp hns
  classical
  refine ⟨fun i' k => if h : i' = i then a (h ▸ k) else 0,
    fun i' k => if h : i' = i then b (h ▸ k) else 0, ?_⟩
  rintro ⟨α, hα⟩
  obtain ⟨h0, hf⟩ := (stackMM_solution_iff bs len T0 Tf α _ _).mp hα
  apply hab
  refine ⟨coefSlice α i, ?_⟩
  have e0 := congrFun h0 i
  have ef := congrFun hf i
  simp only [trajFlagM, dif_pos] at e0 ef
  exact Prod.ext e0 ef

/-- **existence**: for a flat system with consistent maps and a basis with enough coefficients
for every flat output there are coefficients solving the boundary system, and every solution
meets both end points. -/
theorem point_to_point_exists [CharZero K] (S : FlatSys n m len K)
    (hinv : ∀ x u, S.reverse (S.forward x u) = (x, u)) (bs : Basis K) (hT : bs.T ≠ 0)
    (hN : ∀ i, 2 * len i ≤ bs.N) (T0 Tf : K) (h0f : T0 ≠ Tf)
    (x0 : Fin n → K) (u0 : Fin m → K) (xf : Fin n → K) (uf : Fin m → K) :
    ∃ α : Fin (m * bs.N) → K,
      stackMM bs len T0 Tf *ᵥ α = stackZM (S.forward x0 u0) (S.forward xf uf) ∧
      trajEvalM S bs α T0 = (x0, u0) ∧ trajEvalM S bs α Tf = (xf, uf) := by
  obtain ⟨α, hα⟩ := boundary_system_solvable bs hT len hN T0 Tf h0f (S.forward x0 u0)
    (S.forward xf uf)
  exact ⟨α, hα, endpoints_of_solution S hinv bs α T0 Tf x0 u0 xf uf hα⟩

/-- the model's `point_to_point` outside the raising / warning branches: the only possible failure
is the certificate of the least-squares solve, and every answer meets both end points. -/
theorem p2pM_code (S : FlatSys n m len K) (hinv : ∀ x u, S.reverse (S.forward x u) = (x, u))
    (bs : Basis K) (hT : bs.T ≠ 0) (hsz : 2 * (n + m) ≤ m * bs.N) (hN : ∀ i, 2 * len i ≤ bs.N)
    (T0 Tf : K) (h0f : T0 ≠ Tf) (x0 : Fin n → K) (u0 : Fin m → K) (xf : Fin n → K)
    (uf : Fin m → K) :
    (∃ α, p2pM S bs T0 Tf x0 u0 xf uf = .ok (some α) ∧
      trajEvalM S bs α T0 = (x0, u0) ∧ trajEvalM S bs α Tf = (xf, uf)) ∨
    p2pM S bs T0 Tf x0 u0 xf uf = .error (.cert "lstsq") := by
  have h1 : ¬ m * bs.N < 2 * (n + m) := by omega
  have h3 : ¬ ((∃ i : Fin m, bs.N < 2 * len i) ∨ (T0 = Tf ∧ 0 < ∑ i, len i)) := by
    rintro (⟨i, hi⟩ | ⟨h, -⟩)
    · have := hN i; omega
    · exact h0f h
  cases hm : minNormSolve (stackMM bs len T0 Tf) (stackZM (S.forward x0 u0) (S.forward xf uf)) with
  | error e =>
    right
    have := minNormSolve_error hm
    subst this
    simp [p2pM, h1, hT, h3, hm]
  | ok α =>
    left
    have hp : p2pM S bs T0 Tf x0 u0 xf uf = .ok (some α) := by simp [p2pM, h1, hT, h3, hm]
    exact ⟨α, hp, endpoints hinv hp⟩

/-! ### polynomial maps -/

/-- a flat system given by polynomials: the flag entries, in `hstack` order, are the values of
the forward polynomials. -/
theorem ofPoly_forward (fwd : Fin (∑ i, len i) → MPoly K) (rev : Fin (n + m) → MPoly K)
    (x : Fin n → K) (u : Fin m → K) (r : Fin (∑ i, len i)) :
    hstack ((FlatSys.ofPoly n m len fwd rev).forward x u) r = (fwd r).eval (xuVar x u) := by
  obtain ⟨i, k, rfl⟩ := rowIdx_surjective len r
  rw [hstack_rowIdx]
  rfl

/-! ### feasibility -/

/-- the time derivative of a flag along a trajectory: every entry moves to the next one, the last
entry of flat output `i` to the next higher derivative `w i`. -/
def shiftFlag (z : Flags m len K) (w : Fin m → K) : Flags m len K :=
  fun i k => if h : k.val + 1 < len i then z i ⟨k.val + 1, h⟩ else w i

/-- along the evaluated trajectory the flag is differentiable in `t`, its derivative is the
shifted flag (the last entries move to the next higher derivative of the flat outputs). -/
theorem trajFlagM_hasDerivAt (bs : Basis ℝ) (hT : bs.T ≠ 0) (α : Fin (m * bs.N) → ℝ)
    (len : Fin m → Nat) (t : ℝ) :
    HasDerivAt (fun s => trajFlagM bs α len s)
      (shiftFlag (trajFlagM bs α len t)
        (fun i => trajFlag bs (coefSlice α i) (len i + 1) t (Fin.last _))) t := by
  refine hasDerivAt_pi.mpr fun i => hasDerivAt_pi.mpr fun k => ?_
  have h := C20.trajFlag_hasDerivAt bs hT (coefSlice α i) (len i) k t
  have e : trajFlag bs (coefSlice α i) (len i + 1) t k.succ
      = shiftFlag (trajFlagM bs α len t)
          (fun i => trajFlag bs (coefSlice α i) (len i + 1) t (Fin.last _)) i k := by
    unfold shiftFlag
    split
    · simp [trajFlagM, trajFlag, mulVec, flagMatrix]
    · rename_i hk
      have : k.val + 1 = len i := by have := k.isLt; omega
      simp [trajFlag, mulVec, flagMatrix, this]
  rw [e] at h
  exact h

/-- **feasibility for user-defined flat systems with any flag lengths.**  Let `f` be the
dynamics and assume the user's `reverse` is differentiable and consistent with `f`: whenever the
flag moves by the shift (each entry to the next, the last ones to arbitrary `w`), the state
`reverse(z).1` moves with velocity `f (reverse z)`.  Then for a polynomial or Bezier basis and *any*
coefficient vector the state returned by `SystemTrajectory.eval` is differentiable in `t` with
derivative `f (x(t), u(t))` — at every time `t`. -/
theorem feasible (S : FlatSys n m len ℝ) (f : (Fin n → ℝ) → (Fin m → ℝ) → (Fin n → ℝ))
    (D : Flags m len ℝ → (Flags m len ℝ →L[ℝ] (Fin n → ℝ)))
    (hD : ∀ z, HasFDerivAt (fun z => (S.reverse z).1) (D z) z)
    (hflat : ∀ z w, D z (shiftFlag z w) = f (S.reverse z).1 (S.reverse z).2)
    (bs : Basis ℝ) (hT : bs.T ≠ 0) (α : Fin (m * bs.N) → ℝ) (t : ℝ) :
    HasDerivAt (fun s => (trajEvalM S bs α s).1)
      (f (trajEvalM S bs α t).1 (trajEvalM S bs α t).2) t := by
  have h := HasFDerivAt.comp_hasDerivAt t (hD (trajFlagM bs α len t))
    (trajFlagM_hasDerivAt bs hT α len t)
  rw [hflat] at h
  exact h

/-- feasibility and end points of what `point_to_point` returns, in one statement. -/
theorem point_to_point_feasible (S : FlatSys n m len ℝ)
    (hinv : ∀ x u, S.reverse (S.forward x u) = (x, u))
    (f : (Fin n → ℝ) → (Fin m → ℝ) → (Fin n → ℝ))
    (D : Flags m len ℝ → (Flags m len ℝ →L[ℝ] (Fin n → ℝ)))
    (hD : ∀ z, HasFDerivAt (fun z => (S.reverse z).1) (D z) z)
    (hflat : ∀ z w, D z (shiftFlag z w) = f (S.reverse z).1 (S.reverse z).2)
    {bs : Basis ℝ} {T0 Tf : ℝ} {x0 : Fin n → ℝ} {u0 : Fin m → ℝ} {xf : Fin n → ℝ}
    {uf : Fin m → ℝ} {α : Fin (m * bs.N) → ℝ}
    (h : p2pM S bs T0 Tf x0 u0 xf uf = .ok (some α)) :
    trajEvalM S bs α T0 = (x0, u0) ∧ trajEvalM S bs α Tf = (xf, uf) ∧
      ∀ t, HasDerivAt (fun s => (trajEvalM S bs α s).1)
        (f (trajEvalM S bs α t).1 (trajEvalM S bs α t).2) t :=
  ⟨(endpoints hinv h).1, (endpoints hinv h).2,
    fun t => feasible S f D hD hflat bs (p2pM_solves h).2.2.1 α t⟩


/-! ### non-vacuity: the flat system `x₁' = x₂, x₂' = u₁ | x₃' = u₂` (flags of length 3 and 2) -/

section example_

/-- flag lengths of the example: `(z₁, z₁', z₁'')` and `(z₂, z₂')`. -/
def demoLen : Fin 2 → Nat := ![3, 2]

/-- `forward (x, u) = [[x₁, x₂, u₁], [x₃, u₂]]`, `reverse` reads the same entries back. -/
def demo (K : Type) [Field K] : FlatSys 3 2 demoLen K where
  forward x u i k :=
    if i = 0 then (if k.val = 0 then x 0 else if k.val = 1 then x 1 else u 0)
    else (if k.val = 0 then x 2 else u 1)
  reverse z :=
    (![z 0 ⟨0, by decide⟩, z 0 ⟨1, by decide⟩, z 1 ⟨0, by decide⟩],
     ![z 0 ⟨2, by decide⟩, z 1 ⟨1, by decide⟩])

/-- the hypothesis `hinv` of the end-point theorems holds for the example. -/
theorem demo_inv (x : Fin 3 → K) (u : Fin 2 → K) :
    (demo K).reverse ((demo K).forward x u) = (x, u) := by
  refine Prod.ext ?_ ?_
  · funext j; fin_cases j <;> simp [demo]
  · funext j; fin_cases j <;> simp [demo]

/-- the row offsets of the example: output 0 occupies rows 0, 1, 2, output 1 rows 3, 4. -/
example : (rowIdx demoLen 1 ⟨0, by decide⟩).val = 3 ∧ (rowIdx demoLen 1 ⟨1, by decide⟩).val = 4 ∧
    (rowIdx demoLen 0 ⟨2, by decide⟩).val = 2 := by decide

/-- `point_to_point` succeeds on the example (polynomial basis with 6 coefficients per output,
horizon 3) … -/
example : (match p2pM (demo ℚ) (.poly 6 1) 0 3 ![1, 1/2, -1] ![3/10, 7/10] ![-2, 1, 2] ![-3/5, 1/5] with
    | .ok (some _) => true | _ => false) = true := by
  decide +kernel

/-- … also with a Bezier basis and one coefficient more than necessary … -/
example : (match p2pM (demo ℚ) (.bezier 7 3) 0 3 ![1, 1/2, -1] ![3/10, 7/10] ![-2, 1, 2] ![-3/5, 1/5] with
    | .ok (some _) => true | _ => false) = true := by
  decide +kernel

/-- … takes the warning branch with 5 coefficients per output (`2 · 5 ≥ 2 (3 + 2)` passes the size
test, but output 0 needs 6) … -/
example : p2pM (demo ℚ) (.poly 5 1) 0 3 ![1, 1/2, -1] ![3/10, 7/10] ![-2, 1, 2] ![-3/5, 1/5]
    = .ok none := by
  decide +kernel

/-- … and raises with 4. -/
example : p2pM (demo ℚ) (.poly 4 1) 0 3 ![1, 1/2, -1] ![3/10, 7/10] ![-2, 1, 2] ![-3/5, 1/5]
    = .error (.py .badArg) := by
  decide +kernel

/-- the dynamics of the example. -/
def demoF (x : Fin 3 → ℝ) (u : Fin 2 → ℝ) : Fin 3 → ℝ := ![x 1, u 0, u 1]

/-- `reverse(z).1` of the example as a continuous linear map (its own derivative). -/
noncomputable def demoD : Flags 2 demoLen ℝ →L[ℝ] (Fin 3 → ℝ) :=
  ContinuousLinearMap.pi ![
    (ContinuousLinearMap.proj (R := ℝ) (φ := fun _ : Fin (demoLen 0) => ℝ) ⟨0, by decide⟩).comp
      (ContinuousLinearMap.proj (R := ℝ) (φ := fun i : Fin 2 => Fin (demoLen i) → ℝ) 0),
    (ContinuousLinearMap.proj (R := ℝ) (φ := fun _ : Fin (demoLen 0) => ℝ) ⟨1, by decide⟩).comp
      (ContinuousLinearMap.proj (R := ℝ) (φ := fun i : Fin 2 => Fin (demoLen i) → ℝ) 0),
    (ContinuousLinearMap.proj (R := ℝ) (φ := fun _ : Fin (demoLen 1) => ℝ) ⟨0, by decide⟩).comp
      (ContinuousLinearMap.proj (R := ℝ) (φ := fun i : Fin 2 => Fin (demoLen i) → ℝ) 1)]

/-- the hypotheses of `feasible` hold for the example, so its conclusion does: every trajectory
`SystemTrajectory.eval` returns for it satisfies `x₁' = x₂, x₂' = u₁, x₃' = u₂`. -/
example (bs : Basis ℝ) (hT : bs.T ≠ 0) (α : Fin (2 * bs.N) → ℝ) (t : ℝ) :
    HasDerivAt (fun s => (trajEvalM (demo ℝ) bs α s).1)
      (demoF (trajEvalM (demo ℝ) bs α t).1 (trajEvalM (demo ℝ) bs α t).2) t := by
  refine feasible (demo ℝ) demoF (fun _ => demoD) (fun z => ?_) (fun z w => ?_) bs hT α t
  · have e : (fun z => ((demo ℝ).reverse z).1) = demoD := by
      funext z j
      fin_cases j <;> rfl
    rw [e]
    exact demoD.hasFDerivAt
  · funext j
    fin_cases j <;> rfl

end example_

end CtrlVerif.C20Multi
