/-
C02 — State-space arithmetic realises the algebra of transfer matrices.

`G.Resp s Y` says "Y is the value of the transfer matrix of G at s" (Lemmas/SS.lean; unique
wherever `s` is not an eigenvalue of `A`).  Each theorem: from responses of the operands at
`s` the result of the operator — with exactly the block matrices `control/statesp.py`
builds — responds at `s` with the corresponding matrix expression.  `K` is an arbitrary field
and all index types are arbitrary finite types (so all sizes, incl. zero states and
non-square I/O); the state space of a composite is the `Sum` type, so its dimension is the
sum of the operands' dimensions (`card_states_*`).
-/
import CtrlVerif.Lemmas.SS
import CtrlVerif.Model.SSDyn
import Mathlib.Tactic.NormNum.Basic

namespace CtrlVerif.C02

open CtrlVerif Matrix SS

variable {K : Type*} [Field K]
variable {σ σ₁ σ₂ ι ι₁ ι₂ o o₁ o₂ : Type*}
variable [Fintype σ] [DecidableEq σ] [Fintype σ₁] [DecidableEq σ₁] [Fintype σ₂] [DecidableEq σ₂]

/-- `-G` -/
theorem neg_resp (G : SS σ ι o K) (s : K) {Y : Matrix o ι K} (h : G.Resp s Y) :
    G.neg.Resp s (-Y) := by
  obtain ⟨X, hX, rfl⟩ := h
  exact ⟨X, hX, by simp [SS.neg, Matrix.neg_mul]; abel⟩

/-- `G₁ + G₂` (parallel connection) -/
theorem add_resp (G₁ : SS σ₁ ι o K) (G₂ : SS σ₂ ι o K) (s : K) {Y₁ Y₂ : Matrix o ι K}
    (h₁ : G₁.Resp s Y₁) (h₂ : G₂.Resp s Y₂) : (G₁.add G₂).Resp s (Y₁ + Y₂) := by
  obtain ⟨X₁, hX₁, rfl⟩ := h₁
  obtain ⟨X₂, hX₂, rfl⟩ := h₂
  refine ⟨fromRows X₁ X₂, ?_, ?_⟩
  · simp only [SS.add]
    rw [smul_one_sub_fromBlocks, fromBlocks_mul_fromRows]
    simp [hX₁, hX₂]
  · simp only [SS.add, fromCols_mul_fromRows]
    abel

/-- `G₁ - G₂` = `G₁ + (-G₂)` -/
theorem sub_resp (G₁ : SS σ₁ ι o K) (G₂ : SS σ₂ ι o K) (s : K) {Y₁ Y₂ : Matrix o ι K}
    (h₁ : G₁.Resp s Y₁) (h₂ : G₂.Resp s Y₂) : (G₁.add G₂.neg).Resp s (Y₁ - Y₂) := by
  rw [sub_eq_add_neg]
  exact add_resp G₁ G₂.neg s h₁ (neg_resp G₂ s h₂)

/-- `G + M` for a constant matrix `M` (a scalar `c` is `M = c • ones`). -/
theorem addConst_resp (G : SS σ ι o K) (M : Matrix o ι K) (s : K) {Y : Matrix o ι K}
    (h : G.Resp s Y) : (G.addConst M).Resp s (Y + M) := by
  obtain ⟨X, hX, rfl⟩ := h
  exact ⟨X, hX, by simp [SS.addConst]; abel⟩

/-- `G₁ * G₂` (series connection, `G₂` first) -/
theorem mul_resp [Fintype ι₁] (G₁ : SS σ₁ ι₁ o K) (G₂ : SS σ₂ ι ι₁ K) (s : K)
    {Y₁ : Matrix o ι₁ K} {Y₂ : Matrix ι₁ ι K}
    (h₁ : G₁.Resp s Y₁) (h₂ : G₂.Resp s Y₂) : (G₁.mul G₂).Resp s (Y₁ * Y₂) := by
  obtain ⟨X₁, hX₁, rfl⟩ := h₁
  obtain ⟨X₂, hX₂, rfl⟩ := h₂
  refine ⟨fromRows X₂ (X₁ * (G₂.C * X₂ + G₂.D)), ?_, ?_⟩
  · simp only [SS.mul]
    rw [smul_one_sub_fromBlocks, fromBlocks_mul_fromRows]
    congr 1
    · simp [hX₂]
    · rw [← Matrix.mul_assoc (s • 1 - G₁.A), hX₁]
      simp [Matrix.mul_add, Matrix.mul_assoc]
  · simp only [SS.mul, fromCols_mul_fromRows]
    simp [Matrix.mul_add, Matrix.add_mul, Matrix.mul_assoc]
    abel

/-- `G * M` for a constant matrix -/
theorem mulConst_resp [Fintype ι₁] (G : SS σ ι₁ o K) (M : Matrix ι₁ ι K) (s : K)
    {Y : Matrix o ι₁ K} (h : G.Resp s Y) : (G.mulConst M).Resp s (Y * M) := by
  obtain ⟨X, hX, rfl⟩ := h
  refine ⟨X * M, ?_, ?_⟩
  · simp [SS.mulConst, ← Matrix.mul_assoc, hX]
  · simp [SS.mulConst, Matrix.add_mul, Matrix.mul_assoc]

/-- `M * G` for a constant matrix -/
theorem constMul_resp [Fintype o₁] (M : Matrix o o₁ K) (G : SS σ ι o₁ K) (s : K)
    {Y : Matrix o₁ ι K} (h : G.Resp s Y) : (G.constMul M).Resp s (M * Y) := by
  obtain ⟨X, hX, rfl⟩ := h
  exact ⟨X, hX, by simp [SS.constMul, Matrix.mul_add, Matrix.mul_assoc]⟩

/-- `G * c` / `c * G` for a scalar -/
theorem smul_resp (G : SS σ ι o K) (c : K) (s : K) {Y : Matrix o ι K} (h : G.Resp s Y) :
    (G.smulRight c).Resp s (c • Y) := by
  obtain ⟨X, hX, rfl⟩ := h
  refine ⟨c • X, ?_, ?_⟩
  · simp [SS.smulRight, hX]
  · simp [SS.smulRight, smul_add]

/-- `G ** -1` (square I/O, `Di` the two-sided inverse of `D`): wherever both `G` and its inverse
have a response (and `s` is not a pole of `G`), the two responses are inverse matrices. -/
theorem inv_resp [Fintype ι] [DecidableEq ι]
    (G : SS σ ι ι K) (Di : Matrix ι ι K) (hr : G.D * Di = 1) (s : K)
    (hu : IsUnit (s • (1 : Matrix σ σ K) - G.A))
    {Y Y' : Matrix ι ι K} (h : G.Resp s Y) (h' : (G.inv Di).Resp s Y') :
    Y * Y' = 1 ∧ Y' * Y = 1 := by
  obtain ⟨X, hX, rfl⟩ := h
  obtain ⟨X', hX', rfl⟩ := h'
  simp only [SS.inv] at hX' ⊢
  -- X' = X Di (1 - C X')
  have hX'' : X' = X * Di - X * Di * G.C * X' := by
    apply mul_left_cancel_of_isUnit hu
    have e1 : (s • (1 : Matrix σ σ K) - G.A) * X' = G.B * Di - G.B * Di * G.C * X' := by
      have : (s • (1 : Matrix σ σ K) - (G.A - G.B * Di * G.C)) * X'
          = (s • (1 : Matrix σ σ K) - G.A) * X' + G.B * Di * G.C * X' := by
        simp only [Matrix.sub_mul, Matrix.add_mul]; abel
      rw [this] at hX'
      exact eq_sub_of_add_eq hX'
    rw [e1, Matrix.mul_sub, ← Matrix.mul_assoc, ← Matrix.mul_assoc, ← Matrix.mul_assoc,
      ← Matrix.mul_assoc, hX]
  have key : (G.C * X + G.D) * (-(Di * G.C) * X' + Di) = 1 := by
    have : (G.C * X + G.D) * (-(Di * G.C) * X' + Di)
        = G.C * (X * Di - X * Di * G.C * X') - (G.D * Di) * G.C * X' + G.D * Di := by
      simp only [Matrix.add_mul, Matrix.mul_add, Matrix.mul_sub, Matrix.neg_mul, Matrix.mul_neg,
        Matrix.mul_assoc]
      abel
    rw [this, ← hX'', hr]
    simp
  exact ⟨key, mul_eq_one_comm.mp key⟩

/-- push-through identity behind `T2` of the code: `I + sign E D₂ D₁ = E`. -/
theorem T2_eq_E [Fintype ι] [DecidableEq ι] [Fintype o] (D₁ : Matrix o ι K) (D₂ : Matrix ι o K)
    (sign : K) (E : Matrix ι ι K) (hE : E * (1 - sign • (D₂ * D₁)) = 1) :
    1 + sign • (E * D₂ * D₁) = E := by
  have h : E - sign • (E * D₂ * D₁) = 1 := by
    rw [← hE, Matrix.mul_sub, Matrix.mul_one, Matrix.mul_smul, Matrix.mul_assoc]
  rw [← h]; abel

/-- `feedback(G₁, G₂, sign)`: with `E = (I - sign D₂ D₁)⁻¹` (well-posed loop) and `N` a right
inverse of `I - sign Y₂ Y₁` at `s`, the closed loop built by the code responds with `Y₁ N`,
i.e. `G₁ (I - sign G₂ G₁)⁻¹`. -/
theorem feedback_resp [Fintype ι] [DecidableEq ι] [Fintype o] [DecidableEq o]
    (G₁ : SS σ₁ ι o K) (G₂ : SS σ₂ o ι K) (sign : K) (E : Matrix ι ι K)
    (hE : E * (1 - sign • (G₂.D * G₁.D)) = 1)
    (s : K) {Y₁ : Matrix o ι K} {Y₂ : Matrix ι o K}
    (h₁ : G₁.Resp s Y₁) (h₂ : G₂.Resp s Y₂)
    (N : Matrix ι ι K) (hN : (1 - sign • (Y₂ * Y₁)) * N = 1) :
    (G₁.feedback G₂ sign E).Resp s (Y₁ * N) := by
  obtain ⟨X₁, hX₁, rfl⟩ := h₁
  obtain ⟨X₂, hX₂, rfl⟩ := h₂
  have hT2 := T2_eq_E G₁.D G₂.D sign E hE
  -- closed-loop state responses
  obtain ⟨x₁, hx₁⟩ : ∃ x₁, x₁ = X₁ * N := ⟨_, rfl⟩
  obtain ⟨x₂, hx₂⟩ : ∃ x₂, x₂ = X₂ * ((G₁.C * X₁ + G₁.D) * N) := ⟨_, rfl⟩
  have e1 : (s • (1 : Matrix σ₁ σ₁ K) - G₁.A) * x₁ = G₁.B * N := by
    rw [hx₁, ← Matrix.mul_assoc, hX₁]
  have e2 : (s • (1 : Matrix σ₂ σ₂ K) - G₂.A) * x₂ = G₂.B * (G₁.C * x₁ + G₁.D * N) := by
    rw [hx₂, ← Matrix.mul_assoc, hX₂, hx₁, Matrix.add_mul, Matrix.mul_assoc]
  -- the loop equation solved for the plant input
  have hU : N = E + sign • (E * (G₂.C * x₂)) + sign • (E * (G₂.D * (G₁.C * x₁))) := by
    have hy : (G₂.C * X₂ + G₂.D) * ((G₁.C * X₁ + G₁.D) * N)
        = G₂.C * x₂ + G₂.D * (G₁.C * x₁) + G₂.D * (G₁.D * N) := by
      rw [hx₂, hx₁]
      simp only [Matrix.add_mul, Matrix.mul_add, Matrix.mul_assoc]
      abel
    have hN' : N = 1 + sign • ((G₂.C * X₂ + G₂.D) * ((G₁.C * X₁ + G₁.D) * N)) := by
      have : N - sign • ((G₂.C * X₂ + G₂.D) * ((G₁.C * X₁ + G₁.D) * N)) = 1 := by
        rw [← hN, Matrix.sub_mul, Matrix.one_mul, Matrix.smul_mul, Matrix.mul_assoc]
      rw [← this]; abel
    rw [hy] at hN'
    -- (1 - sign D₂ D₁) N = 1 + sign C₂ x₂ + sign D₂ C₁ x₁
    have hF : (1 - sign • (G₂.D * G₁.D)) * N
        = 1 + sign • (G₂.C * x₂) + sign • (G₂.D * (G₁.C * x₁)) := by
      rw [Matrix.sub_mul, Matrix.one_mul, Matrix.smul_mul, Matrix.mul_assoc]
      nth_rewrite 1 [hN']
      simp only [smul_add]
      abel
    have := congrArg (fun M => E * M) hF
    simp only [← Matrix.mul_assoc, hE, Matrix.one_mul] at this
    rw [this]
    simp only [Matrix.mul_add, Matrix.mul_one, Matrix.mul_smul, Matrix.mul_assoc]
  have hB1 : G₁.B * N = G₁.B * E + sign • (G₁.B * (E * (G₂.C * x₂)))
      + sign • (G₁.B * (E * (G₂.D * (G₁.C * x₁)))) := by
    conv_lhs => rw [hU]
    simp only [Matrix.mul_add, Matrix.mul_smul]
  have hD1 : G₁.D * N = G₁.D * E + sign • (G₁.D * (E * (G₂.C * x₂)))
      + sign • (G₁.D * (E * (G₂.D * (G₁.C * x₁)))) := by
    conv_lhs => rw [hU]
    simp only [Matrix.mul_add, Matrix.mul_smul]
  refine ⟨fromRows x₁ x₂, ?_, ?_⟩
  · simp only [SS.feedback]
    rw [smul_one_sub_fromBlocks, fromBlocks_mul_fromRows, hT2]
    congr 1
    · rw [sub_add_eq_sub_sub, Matrix.sub_mul, e1, hB1]
      simp only [Matrix.neg_mul, Matrix.smul_mul, Matrix.mul_assoc]
      abel
    · rw [sub_add_eq_sub_sub, Matrix.sub_mul, e2]
      simp only [Matrix.neg_mul, Matrix.smul_mul, Matrix.mul_assoc, Matrix.mul_add, Matrix.add_mul,
        Matrix.one_mul, Matrix.mul_smul]
      rw [hD1]
      simp only [Matrix.mul_add, Matrix.mul_smul, Matrix.mul_assoc]
      abel
  · simp only [SS.feedback, fromCols_mul_fromRows, hT2]
    rw [Matrix.add_mul (G₁.C * X₁), Matrix.mul_assoc, ← hx₁, hD1]
    simp only [Matrix.add_mul, Matrix.one_mul, Matrix.smul_mul, Matrix.mul_assoc]
    abel

/-- an ill-posed loop is detected by `det (I - sign D₂ D₁) = 0` (`Model/SSDyn.lean` raises);
conversely a non-zero determinant gives the two-sided inverse the theorem above needs. -/
theorem invQ_spec {n : Type*} [Fintype n] [DecidableEq n] (F : Matrix n n K) (h : F.det ≠ 0) :
    SS.invQ F * F = 1 ∧ F * SS.invQ F = 1 := by
  unfold SS.invQ
  constructor
  · rw [Matrix.smul_mul, Matrix.adjugate_mul, smul_smul, inv_mul_cancel₀ h, one_smul]
  · rw [Matrix.mul_smul, Matrix.mul_adjugate, smul_smul, inv_mul_cancel₀ h, one_smul]

/-! ### `lft` -/

section lft

variable {σ' κ μ : Type*} [Fintype σ'] [DecidableEq σ']
variable [Fintype o₂] [DecidableEq o₂] [Fintype ι₂] [DecidableEq ι₂]
variable [Fintype ι₁] [DecidableEq ι₁] [Fintype κ] [DecidableEq κ]

/-- `G.lft(H, nu, ny)` (lower linear fractional transformation).  `G` has inputs `(w₁, u)`,
outputs `(z₁, y)` and responds with `[[Y11, Y12], [Y21, Y22]]`; `H` has inputs `(y, w₂)`,
outputs `(u, z₂)` and responds with `[[Yb11, Yb12], [Yb21, Yb22]]`.  With `Finv` a left inverse
of the code's `F = [[I, -D22], [-Dbar11, I]]` (well-posed loop) and loop signals `Ys`, `Us`
(the responses of `y`, `u` to the exogenous inputs `(w₁, w₂)`) solving the loop equations
`y = Y21 w₁ + Y22 u`, `u = Yb11 y + Yb12 w₂` at `s`, the system built by the code responds with
`z₁ = Y11 w₁ + Y12 u`, `z₂ = Yb21 y + Yb22 w₂`. -/
theorem lft_resp (G : SS σ (ι₁ ⊕ ι₂) (o₁ ⊕ o₂) K) (H : SS σ' (o₂ ⊕ κ) (ι₂ ⊕ μ) K)
    (Finv : Matrix (o₂ ⊕ ι₂) (o₂ ⊕ ι₂) K) (hF : Finv * SS.lftF G H = 1) (s : K)
    {Y11 : Matrix o₁ ι₁ K} {Y12 : Matrix o₁ ι₂ K} {Y21 : Matrix o₂ ι₁ K} {Y22 : Matrix o₂ ι₂ K}
    {Yb11 : Matrix ι₂ o₂ K} {Yb12 : Matrix ι₂ κ K} {Yb21 : Matrix μ o₂ K} {Yb22 : Matrix μ κ K}
    (h₁ : G.Resp s (fromBlocks Y11 Y12 Y21 Y22)) (h₂ : H.Resp s (fromBlocks Yb11 Yb12 Yb21 Yb22))
    (Ys : Matrix o₂ (ι₁ ⊕ κ) K) (Us : Matrix ι₂ (ι₁ ⊕ κ) K)
    (hY : Ys = Y21 * fromCols 1 0 + Y22 * Us)
    (hU : Us = Yb11 * Ys + Yb12 * fromCols 0 1) :
    (G.lft H Finv).Resp s
      (fromRows (Y11 * fromCols 1 0 + Y12 * Us) (Yb21 * Ys + Yb22 * fromCols 0 1)) := by
  obtain ⟨X1, X2, e1, e2, rfl, rfl, rfl, rfl⟩ := h₁.blocks
  obtain ⟨Xb1, Xb2, eb1, eb2, rfl, rfl, rfl, rfl⟩ := h₂.blocks
  rw [lft_eq_compact]
  have key := loop_resp (fromBlocks G.A 0 0 H.A) (fromBlocks G.B.toCols₁ 0 0 H.B.toCols₂)
    (fromBlocks 0 G.B.toCols₂ H.B.toCols₁ 0) (fromBlocks G.C.toRows₁ 0 0 H.C.toRows₂)
    (fromBlocks G.D.toBlocks₁₁ 0 0 H.D.toBlocks₂₂) (fromBlocks 0 G.D.toBlocks₁₂ H.D.toBlocks₂₁ 0)
    (fromBlocks G.C.toRows₂ 0 0 H.C.toRows₁) (fromBlocks G.D.toBlocks₂₁ 0 0 H.D.toBlocks₁₂)
    (SS.lftF G H) Finv hF s
    (fromRows (X1 * fromCols 1 0 + X2 * Us) (Xb1 * Ys + Xb2 * fromCols 0 1)) (fromRows Ys Us)
    ?_ ?_
  · convert key using 1
    rw [fromBlocks_diag_eq_fromRows G.D.toBlocks₁₁, fromBlocks_mul_fromRows,
      fromBlocks_mul_fromRows, fromRows_add_fromRows, fromRows_add_fromRows]
    congr 1
    · simp only [Matrix.add_mul, Matrix.mul_add, Matrix.mul_assoc, Matrix.zero_mul]
      abel
    · simp only [Matrix.add_mul, Matrix.mul_add, Matrix.mul_assoc, Matrix.zero_mul]
      abel
  · rw [smul_one_sub_fromBlocks, fromBlocks_diag_eq_fromRows G.B.toCols₁, fromBlocks_mul_fromRows,
      fromBlocks_mul_fromRows, fromRows_add_fromRows]
    congr 1
    · simp only [Matrix.mul_add, ← Matrix.mul_assoc, e1, e2, Matrix.zero_mul, neg_zero]
      abel
    · simp only [Matrix.mul_add, ← Matrix.mul_assoc, eb1, eb2, Matrix.zero_mul, neg_zero]
      abel
  · rw [fromBlocks_diag_eq_fromRows G.D.toBlocks₂₁, SS.lftF, fromBlocks_mul_fromRows,
      fromBlocks_mul_fromRows, fromRows_add_fromRows]
    congr 1
    · conv_lhs => rw [hY]
      simp only [Matrix.add_mul, Matrix.mul_add, Matrix.mul_assoc, Matrix.zero_mul, Matrix.one_mul,
        Matrix.neg_mul]
      abel
    · conv_lhs => rw [hU]
      simp only [Matrix.add_mul, Matrix.mul_add, Matrix.mul_assoc, Matrix.zero_mul, Matrix.one_mul,
        Matrix.neg_mul]
      abel

/-- `lft_resp` with the loop solved: `N` a right inverse of `I - Y22 Yb11` at `s`.  The result is
the lower LFT interconnection
`[[Y11 + Y12 Yb11 (I - Y22 Yb11)⁻¹ Y21, Y12 (I - Yb11 Y22)⁻¹ Yb12],
  [Yb21 (I - Y22 Yb11)⁻¹ Y21, Yb22 + Yb21 (I - Y22 Yb11)⁻¹ Y22 Yb12]]`
where `(I - Yb11 Y22)⁻¹ = I + Yb11 N Y22` (`push_through`) and
`Y22 (I - Yb11 Y22)⁻¹ = (I - Y22 Yb11)⁻¹ Y22`. -/
theorem lft_resp_inv (G : SS σ (ι₁ ⊕ ι₂) (o₁ ⊕ o₂) K) (H : SS σ' (o₂ ⊕ κ) (ι₂ ⊕ μ) K)
    (Finv : Matrix (o₂ ⊕ ι₂) (o₂ ⊕ ι₂) K) (hF : Finv * SS.lftF G H = 1) (s : K)
    {Y11 : Matrix o₁ ι₁ K} {Y12 : Matrix o₁ ι₂ K} {Y21 : Matrix o₂ ι₁ K} {Y22 : Matrix o₂ ι₂ K}
    {Yb11 : Matrix ι₂ o₂ K} {Yb12 : Matrix ι₂ κ K} {Yb21 : Matrix μ o₂ K} {Yb22 : Matrix μ κ K}
    (h₁ : G.Resp s (fromBlocks Y11 Y12 Y21 Y22)) (h₂ : H.Resp s (fromBlocks Yb11 Yb12 Yb21 Yb22))
    (N : Matrix o₂ o₂ K) (hN : (1 - Y22 * Yb11) * N = 1) :
    (G.lft H Finv).Resp s
      (fromBlocks (Y11 + Y12 * Yb11 * N * Y21) (Y12 * (1 + Yb11 * N * Y22) * Yb12)
        (Yb21 * N * Y21) (Yb22 + Yb21 * N * Y22 * Yb12)) := by
  have hN' : N = 1 + Y22 * (Yb11 * N) := by
    have : N - Y22 * (Yb11 * N) = 1 := by
      rw [← hN, Matrix.sub_mul, Matrix.one_mul, Matrix.mul_assoc]
    rw [← this]; abel
  have key := lft_resp G H Finv hF s h₁ h₂
    (fromCols (N * Y21) (N * (Y22 * Yb12)))
    (fromCols (Yb11 * (N * Y21)) (Yb11 * (N * (Y22 * Yb12)) + Yb12)) ?_ ?_
  · convert key using 1
    rw [← fromRows_fromCols_eq_fromBlocks]
    simp only [Matrix.mul_fromCols, Matrix.mul_one, Matrix.mul_zero, fromCols_add_fromCols]
    congr 2
    · simp only [Matrix.mul_assoc]
    · simp only [Matrix.mul_assoc, Matrix.mul_add, Matrix.add_mul, Matrix.mul_one, Matrix.one_mul,
        zero_add]
      abel
    · simp only [Matrix.mul_assoc, add_zero]
    · simp only [Matrix.mul_assoc, zero_add]
      abel
  · simp only [Matrix.mul_fromCols, Matrix.mul_one, Matrix.mul_zero, fromCols_add_fromCols]
    congr 1
    · conv_lhs => rw [hN']
      simp only [Matrix.add_mul, Matrix.one_mul, Matrix.mul_assoc]
    · conv_lhs => rw [hN']
      simp only [Matrix.add_mul, Matrix.mul_add, Matrix.one_mul, Matrix.mul_assoc, zero_add]
      abel
  · simp only [Matrix.mul_fromCols, Matrix.mul_one, Matrix.mul_zero, fromCols_add_fromCols,
      add_zero]

/-- push-through: a right inverse `N` of `I - P Q` gives the right inverse `I + Q N P` of
`I - Q P` (for square matrices right inverses are two-sided: `mul_eq_one_comm`). -/
theorem push_through {a b : Type*} [Fintype a] [DecidableEq a] [Fintype b] [DecidableEq b]
    (P : Matrix a b K) (Q : Matrix b a K) (N : Matrix a a K) (hN : (1 - P * Q) * N = 1) :
    (1 - Q * P) * (1 + Q * N * P) = 1 := by
  have hN' : P * (Q * N) = N - 1 := by
    rw [← hN, Matrix.sub_mul, Matrix.one_mul, Matrix.mul_assoc]; abel
  have : (1 - Q * P) * (1 + Q * N * P) = 1 + Q * (N - 1 - P * (Q * N)) * P := by
    simp only [Matrix.sub_mul, Matrix.mul_sub, Matrix.mul_add, Matrix.add_mul, Matrix.mul_one,
      Matrix.one_mul, Matrix.mul_assoc]
    abel
  rw [this, hN']
  simp

end lft

section lftDyn

variable {F : Type} [Field F] [DecidableEq F]

/-- an ill-posed LFT (`det [[I, -D22], [-Dbar11, I]] = 0`) raises, for every partition on which
the operation is defined. -/
theorem lft_illposed (G H : DSS F) (nu ny : Nat)
    (h : nu ≤ G.m ∧ nu ≤ H.p ∧ ny ≤ G.p ∧ ny ≤ H.m) (dt : Dt)
    (h0 : (SS.lftF (G.lftUpper nu ny h.1 h.2.2.1) (H.lftLower nu ny h.2.1 h.2.2.2)).det = 0) :
    DSS.lftSS G H nu ny h dt = .error .illPosed := by
  simp [DSS.lftSS, h0]

/-- a well-posed LFT returns the typed construction `SS.lft` of the partitioned operands with a
two-sided inverse of `F` (the hypothesis `lft_resp` needs), re-typed to `Fin`; the state
dimension is the sum of the operands', the I/O sizes are `(p - ny) + (p' - nu)` and
`(m - nu) + (m' - ny)`, the timebase is the common one. -/
theorem lft_wellposed (G H : DSS F) (nu ny : Nat)
    (h : nu ≤ G.m ∧ nu ≤ H.p ∧ ny ≤ G.p ∧ ny ≤ H.m) (dt : Dt)
    (h0 : (SS.lftF (G.lftUpper nu ny h.1 h.2.2.1) (H.lftLower nu ny h.2.1 h.2.2.2)).det ≠ 0) :
    ∃ Finv, Finv * SS.lftF (G.lftUpper nu ny h.1 h.2.2.1) (H.lftLower nu ny h.2.1 h.2.2.2) = 1 ∧
      SS.lftF (G.lftUpper nu ny h.1 h.2.2.1) (H.lftLower nu ny h.2.1 h.2.2.2) * Finv = 1 ∧
      DSS.lftSS G H nu ny h dt = .ok ⟨G.n + H.n, (G.p - ny) + (H.p - nu), (G.m - nu) + (H.m - ny),
        (SS.lft (G.lftUpper nu ny h.1 h.2.2.1) (H.lftLower nu ny h.2.1 h.2.2.2) Finv).flatS.flatIO,
        dt⟩ := by
  refine ⟨SS.invQ _, (invQ_spec _ h0).1, (invQ_spec _ h0).2, ?_⟩
  simp [DSS.lftSS, h0, SS.ofTable_table]
  rfl

/-- the run-time entry point: explicit `nu`, `ny` (not the `-1` default) for which the slices of
the code have the sizes `nu` / `ny` go to `lftSS` with the common timebase; every other explicit
partition is rejected. -/
theorem lft_dispatch (G : DSS F) (x : SOperand F) (nu ny : Nat) (dt : Dt)
    (hdt : common G.dt (DSS.toSys x).dt = .ok dt) :
    G.lft x nu ny =
      if h : nu ≤ G.m ∧ nu ≤ (DSS.toSys x).p ∧ ny ≤ G.p ∧ ny ≤ (DSS.toSys x).m
      then DSS.lftSS G (DSS.toSys x) nu ny h dt else .error .shape := by
  have e1 : ¬ ((nu : Int) = -1) := by omega
  have e2 : ¬ ((ny : Int) = -1) := by omega
  simp only [DSS.lft, e1, e2, if_false, hdt]
  simp [bind, Except.bind]

end lftDyn

/-- `append`: block diagonal -/
theorem append_resp (G₁ : SS σ₁ ι₁ o₁ K) (G₂ : SS σ₂ ι₂ o₂ K) (s : K)
    {Y₁ : Matrix o₁ ι₁ K} {Y₂ : Matrix o₂ ι₂ K} (h₁ : G₁.Resp s Y₁) (h₂ : G₂.Resp s Y₂) :
    (G₁.append G₂).Resp s (fromBlocks Y₁ 0 0 Y₂) := by
  obtain ⟨X₁, hX₁, rfl⟩ := h₁
  obtain ⟨X₂, hX₂, rfl⟩ := h₂
  refine ⟨fromBlocks X₁ 0 0 X₂, ?_, ?_⟩
  · simp only [SS.append]
    rw [smul_one_sub_fromBlocks, fromBlocks_multiply]
    simp [hX₁, hX₂]
  · simp only [SS.append, fromBlocks_multiply, fromBlocks_add]
    simp

/-- `sys[rows, cols]`: the sub-matrix, in the selected order. -/
theorem select_resp {o' ι' : Type*} (G : SS σ ι o K) (r : o' → o) (c : ι' → ι) (s : K)
    {Y : Matrix o ι K} (h : G.Resp s Y) : (G.select r c).Resp s (Y.submatrix r c) := by
  obtain ⟨X, hX, rfl⟩ := h
  refine ⟨X.submatrix id c, ?_, ?_⟩
  · simp only [SS.select]
    rw [← hX]
    ext i j; simp [Matrix.mul_apply]
  · ext i j; simp [SS.select, Matrix.mul_apply]

/-- relabelling the states does not change the response. -/
theorem reindex_resp {σ' : Type*} [Fintype σ'] [DecidableEq σ'] (G : SS σ ι o K) (e : σ ≃ σ')
    (s : K) {Y : Matrix o ι K} (h : G.Resp s Y) : (G.reindex e).Resp s Y := by
  obtain ⟨X, hX, rfl⟩ := h
  refine ⟨X.submatrix e.symm id, ?_, ?_⟩
  · simp only [SS.reindex]
    have : (s • (1 : Matrix σ' σ' K) - G.A.submatrix e.symm e.symm)
        = (s • (1 : Matrix σ σ K) - G.A).submatrix e.symm e.symm := by
      ext i j; simp [Matrix.one_apply, Matrix.sub_apply]
    rw [this, Matrix.submatrix_mul_equiv, hX]
  · simp only [SS.reindex]
    rw [← Matrix.submatrix_id_id (G.C.submatrix id ⇑e.symm * X.submatrix ⇑e.symm id)]
    rw [Matrix.submatrix_mul_equiv]
    simp

/-- zero-state systems respond with their direct term. -/
theorem static_resp [IsEmpty σ] (D : Matrix o ι K) (s : K) :
    (SS.static (σ := σ) D).Resp s D := Resp.static _ s

/-- state dimension of the sum / product / feedback / append is the sum of the operands'. -/
theorem card_states_sum : Fintype.card (σ₁ ⊕ σ₂) = Fintype.card σ₁ + Fintype.card σ₂ :=
  Fintype.card_sum

/-- non-vacuity of `lft_resp` / `lft_resp_inv`: two 1-state operands with poles at `-1`, all-ones
`B` and `C`, `D = 0` above and `Dbar11 = 1` below, at `s = 0`: `F = [[1, 0], [-1, 1]]` has the
inverse `[[1, 0], [1, 1]]`, the operands respond with `[[1, 1], [1, 1]]` and `[[2, 1], [1, 1]]`,
and `1 - Y22 Yb11 = -1` has the inverse `N = -1` (so the closed loop responds with
`[[-1, -1], [-1, 0]]`). -/
example :
    let c (x : ℚ) {a b : Type} : Matrix a b ℚ := Matrix.of fun _ _ => x
    let G : SS Unit (Unit ⊕ Unit) (Unit ⊕ Unit) ℚ := ⟨c (-1), c 1, c 1, c 0⟩
    let H : SS Unit (Unit ⊕ Unit) (Unit ⊕ Unit) ℚ :=
      ⟨c (-1), c 1, c 1, fromBlocks (c 1) (c 0) (c 0) (c 0)⟩
    let Finv : Matrix (Unit ⊕ Unit) (Unit ⊕ Unit) ℚ := fromBlocks (c 1) (c 0) (c 1) (c 1)
    Finv * SS.lftF G H = 1 ∧ G.Resp 0 (fromBlocks (c 1) (c 1) (c 1) (c 1)) ∧
      H.Resp 0 (fromBlocks (c 2) (c 1) (c 1) (c 1)) ∧
      (1 - (c 1 : Matrix Unit Unit ℚ) * c 2) * c (-1) = 1 := by
  intro c G H Finv
  refine ⟨?_, ⟨c 1, ?_, ?_⟩, ⟨c 1, ?_, ?_⟩, ?_⟩
  · ext (i | i) (j | j) <;>
      simp [G, H, Finv, c, SS.lftF, Matrix.mul_apply, toBlocks₁₁, toBlocks₂₂]
  · ext i j; simp [G, c, Matrix.mul_apply]
  · ext (i | i) (j | j) <;> simp [G, c, Matrix.mul_apply]
  · ext i j; simp [H, c, Matrix.mul_apply]
  · ext (i | i) (j | j) <;> (simp [H, c, Matrix.mul_apply]; try norm_num)
  · ext i j; simp [c, Matrix.mul_apply]; norm_num

end CtrlVerif.C02
